(** * Well-scopedness is preserved by the modelled rewrites (property C04, scoping clause).

    [wf_stmt sc s] (Wf.v) is the checker the harness runs on every derived procedure.  Here: substituting an
    expression that is well-scoped in the new scope for a variable preserves well-scopedness ([wf_subst]), and
    therefore shift_loop, divide_loop (guard / perfect) and reorder_loops map a statement that is well-scoped in
    [sc] to one that is well-scoped in [sc] (the new iteration Syms being fresh for [sc]). *)
From Coq Require Import ZArith List Bool Lia.
From Core Require Import Syntax Sem Wf Equiv Rules Induction PartialEval Subst ShiftLoop DivideLoop ReorderLoops.
Import ListNotations.
Local Open Scope Z_scope.

Lemma go_wf : forall l sc,
  (fix go (sc : list sym) (l : list stmt) : option (list sym) :=
     match l with [] => Some sc
     | s' :: r => match wf_stmt sc s' with Some sc' => go sc' r | None => None end end) sc l = wf_stmts sc l.
Proof. induction l as [|s r IH]; intro sc; [reflexivity|]. cbn [wf_stmts]. destruct (wf_stmt sc s); [apply IH|reflexivity]. Qed.

Lemma go_wfe : forall sc l,
  (fix go (l : list expr) : bool := match l with [] => true | a :: r => wf_expr sc a && go r end) l = wf_exprs sc l.
Proof. intros sc l. unfold wf_exprs. induction l as [|a r IH]; [reflexivity|]. cbn [forallb]. rewrite <- IH. reflexivity. Qed.

Definition wf_w (sc : list sym) (w : wacc) : bool :=
  match w with Point a => wf_expr sc a | Interval a b => wf_expr sc a && wf_expr sc b end.
Lemma go_wfw : forall sc l,
  (fix go (l : list wacc) : bool :=
     match l with
     | [] => true
     | Point a :: r => wf_expr sc a && go r
     | Interval a b :: r => wf_expr sc a && wf_expr sc b && go r
     end) l = forallb (wf_w sc) l.
Proof. intros sc l. induction l as [|[a|a b] r IH]; [reflexivity| |]; cbn [forallb wf_w]; rewrite <- IH; reflexivity. Qed.

Lemma wf_stmt_If : forall S c0 a b,
  wf_stmt S (If c0 a b) =
  if wf_expr S c0 then match wf_stmts S a, wf_stmts S b with Some _, Some _ => Some S | _, _ => None end else None.
Proof. intros. cbn [wf_stmt]. rewrite !go_wf. reflexivity. Qed.
Lemma wf_stmt_For : forall S i lo hi body par,
  wf_stmt S (For i lo hi body par) =
  if wf_expr S lo && wf_expr S hi && negb (mem i S)
  then match wf_stmts (i :: S) body with Some _ => Some S | None => None end else None.
Proof. intros. cbn [wf_stmt]. rewrite !go_wf. reflexivity. Qed.

Lemma wf_stmt_Call : forall S formals preds body args,
  wf_stmt S (Call (Proc formals preds body) args) =
  if wf_exprs S args && Nat.eqb (length args) (length formals) then
    match wf_formals [] formals with
    | Some csc => if wf_exprs csc preds then match wf_stmts csc body with Some _ => Some S | None => None end else None
    | None => None
    end
  else None.
Proof. intros. cbn [wf_stmt]. destruct (wf_formals [] formals); [rewrite go_wf|]; reflexivity. Qed.

Section WfSubst.
  Variable x : sym.
  Variable c : expr.
  Variables okb hid : sym -> bool.
  Hypothesis okb_x : okb x = false.
  Hypothesis okb_hid : forall y, okb y = true -> hid y = false.

  (** the new scope agrees with the old one on every symbol the body may mention, and [c] is well-scoped in it
      and in every extension of it by allowed binders *)
  Definition srel (S S' : list sym) : Prop :=
    (forall y, y <> x -> hid y = false -> mem y S = mem y S') /\
    (forall ext, wf_expr (ext ++ S') c = true).

  Lemma srel_cons : forall y S S', srel S S' -> srel (y :: S) (y :: S').
  Proof.
    intros y S S' [H1 H2]. split.
    - intros z Hz Hh. cbn [mem]. rewrite (H1 z Hz Hh). reflexivity.
    - intro ext. replace (ext ++ y :: S') with ((ext ++ [y]) ++ S') by (rewrite <- app_assoc; reflexivity). apply H2.
  Qed.

  Lemma okb_ne' : forall y, okb y = true -> y <> x.
  Proof. intros y H ->. rewrite okb_x in H. discriminate H. Qed.

  Lemma wf_e_subst : forall S S' e, srel S S' -> nm_e x hid e = true -> wf_expr S e = true ->
    wf_expr S' (pe_e x c e) = true.
  Proof.
    intros S S' e [H1 H2]. induction e using expr_ind2; cbn [nm_e wf_expr]; intros Hn Hw.
    - (* Var *) cbn [pe_e]. destruct (Pos.eqb x0 x) eqn:E.
      + exact (H2 []).
      + apply Pos.eqb_neq in E. apply negb_true_iff in Hn. cbn [wf_expr]. rewrite <- (H1 x0 E Hn). exact Hw.
    - reflexivity.
    - reflexivity.
    - reflexivity.
    - (* Read *) rewrite go_nm_e in Hn. rewrite go_wfe in Hw.
      apply andb_true_iff in Hn as [Hy Hl]. apply andb_true_iff in Hy as [Hh Hx].
      apply negb_true_iff in Hh. apply negb_true_iff, Pos.eqb_neq in Hx.
      apply andb_true_iff in Hw as [Hm Hi].
      rewrite pe_e_Read. cbn [wf_expr]. rewrite go_wfe, <- (H1 x0 Hx Hh), Hm. cbn [andb].
      unfold wf_exprs, pe_es in *. rewrite forallb_forall in *. intros e' He'. apply in_map_iff in He' as [e0 [<- Hin]].
      rewrite Forall_forall in H. apply H; auto.
    - (* USub *) cbn [pe_e wf_expr]. auto.
    - (* BinOp *) apply andb_true_iff in Hn as [N1 N2]. apply andb_true_iff in Hw as [W1 W2].
      cbn [pe_e wf_expr]. rewrite IHe1, IHe2 by assumption. reflexivity.
    - (* Extern *) rewrite go_nm_e in Hn. rewrite go_wfe in Hw. rewrite pe_e_Extern. cbn [wf_expr]. rewrite go_wfe.
      unfold wf_exprs, pe_es in *. rewrite forallb_forall in *. intros e' He'. apply in_map_iff in He' as [e0 [<- Hin]].
      rewrite Forall_forall in H. apply H; auto.
    - (* WindowE *) rewrite go_nm_w in Hn. rewrite go_wfw in Hw.
      apply andb_true_iff in Hn as [Hy Hl]. apply andb_true_iff in Hy as [Hh Hx].
      apply negb_true_iff in Hh. apply negb_true_iff, Pos.eqb_neq in Hx.
      apply andb_true_iff in Hw as [Hm Hi].
      rewrite pe_e_WindowE. cbn [wf_expr]. rewrite go_wfw, <- (H1 x0 Hx Hh), Hm. cbn [andb].
      rewrite forallb_forall in *. intros w' Hw'. apply in_map_iff in Hw' as [w0 [<- Hin]].
      rewrite Forall_forall in H. specialize (H w0 Hin). specialize (Hl w0 Hin). specialize (Hi w0 Hin).
      destruct w0 as [a|a b]; cbn [pe_w wf_w nm_w PW] in *; [auto|].
      apply andb_true_iff in Hl as [L1 L2]. apply andb_true_iff in Hi as [I1 I2]. destruct H as [Ha Hb].
      rewrite Ha, Hb by assumption. reflexivity.
    - (* Stride *) apply andb_true_iff in Hn as [Hh Hx].
      apply negb_true_iff in Hh. apply negb_true_iff, Pos.eqb_neq in Hx.
      cbn [pe_e wf_expr]. rewrite <- (H1 x0 Hx Hh). exact Hw.
    - reflexivity.
  Qed.

  Lemma wf_es_subst : forall S S' l, srel S S' -> forallb (nm_e x hid) l = true -> wf_exprs S l = true ->
    wf_exprs S' (pe_es x c l) = true.
  Proof.
    intros S S' l HR Hn Hw. unfold wf_exprs, pe_es in *. rewrite forallb_forall in *.
    intros e' He'. apply in_map_iff in He' as [e0 [<- Hin]]. apply (wf_e_subst S S'); auto.
  Qed.

  Definition P (s : stmt) : Prop :=
    forall S S' S1, srel S S' -> okbind okb s = true -> nm_s x hid s = true ->
      wf_stmt S s = Some S1 -> exists S1', wf_stmt S' (pe_s x c s) = Some S1' /\ srel S1 S1'.

  Lemma wf_list_subst : forall l, Forall P l ->
    forall S S' S1, srel S S' -> forallb (okbind okb) l = true -> forallb (nm_s x hid) l = true ->
      wf_stmts S l = Some S1 -> exists S1', wf_stmts S' (pe_ss x c l) = Some S1' /\ srel S1 S1'.
  Proof.
    intros l H. induction H as [|s r Hs Hr IH]; intros S S' S1 HR Hok Hnm Hw.
    - cbn in *. injection Hw as <-. exists S'. auto.
    - cbn [forallb] in Hok, Hnm. apply andb_true_iff in Hok as [O1 O2]. apply andb_true_iff in Hnm as [N1 N2].
      cbn [wf_stmts] in Hw. destruct (wf_stmt S s) as [S2|] eqn:E; [|discriminate Hw].
      destruct (Hs S S' S2 HR O1 N1 E) as [S2' [E' HR2]].
      cbn [pe_ss map wf_stmts]. rewrite E'. fold (pe_ss x c r). apply (IH S2 S2' S1); assumption.
  Qed.

  Theorem wf_subst : forall s, P s.
  Proof.
    induction s using stmt_ind2; unfold P; intros S S' S1 HR Hok Hnm Hw; cbn [nm_s] in Hnm.
    - (* Assign *) apply andb_true_iff in Hnm as [Hnm Hr]. apply andb_true_iff in Hnm as [Hy Hi].
      apply andb_true_iff in Hy as [Hh Hx]. apply negb_true_iff in Hh. apply negb_true_iff, Pos.eqb_neq in Hx.
      cbn [wf_stmt pe_s] in *. destruct (mem x0 S && wf_exprs S idx && wf_expr S rhs) eqn:E; [|discriminate Hw].
      injection Hw as <-. apply andb_true_iff in E as [E E3]. apply andb_true_iff in E as [E1 E2].
      destruct HR as [H1 H2]. rewrite <- (H1 x0 Hx Hh), E1.
      rewrite (wf_es_subst S S' idx (conj H1 H2) Hi E2), (wf_e_subst S S' rhs (conj H1 H2) Hr E3).
      exists S'. split; [reflexivity|split; assumption].
    - (* Reduce *) apply andb_true_iff in Hnm as [Hnm Hr]. apply andb_true_iff in Hnm as [Hy Hi].
      apply andb_true_iff in Hy as [Hh Hx]. apply negb_true_iff in Hh. apply negb_true_iff, Pos.eqb_neq in Hx.
      cbn [wf_stmt pe_s] in *. destruct (mem x0 S && wf_exprs S idx && wf_expr S rhs) eqn:E; [|discriminate Hw].
      injection Hw as <-. apply andb_true_iff in E as [E E3]. apply andb_true_iff in E as [E1 E2].
      destruct HR as [H1 H2]. rewrite <- (H1 x0 Hx Hh), E1.
      rewrite (wf_es_subst S S' idx (conj H1 H2) Hi E2), (wf_e_subst S S' rhs (conj H1 H2) Hr E3).
      exists S'. split; [reflexivity|split; assumption].
    - (* WriteCfg *) cbn [wf_stmt pe_s] in *. destruct (wf_expr S rhs) eqn:E; [|discriminate Hw]. injection Hw as <-.
      rewrite (wf_e_subst S S' rhs HR Hnm E). exists S'. auto.
    - (* Pass *) cbn in *. injection Hw as <-. exists S'. auto.
    - (* If *) rewrite !go_nm_s in Hnm. apply andb_true_iff in Hnm as [Hnm Nb]. apply andb_true_iff in Hnm as [Ne Na].
      cbn [okbind] in Hok. rewrite !go_okbind in Hok. apply andb_true_iff in Hok as [Oa Ob].
      rewrite pe_s_If. rewrite wf_stmt_If in *.
      destruct (wf_expr S c0) eqn:Ee; [|discriminate Hw].
      destruct (wf_stmts S a) as [Sa|] eqn:Ea; destruct (wf_stmts S b) as [Sb|] eqn:Eb; try discriminate Hw.
      injection Hw as <-.
      rewrite (wf_e_subst S S' c0 HR Ne Ee).
      destruct (wf_list_subst a H S S' Sa HR Oa Na Ea) as [Sa' [-> _]].
      destruct (wf_list_subst b H0 S S' Sb HR Ob Nb Eb) as [Sb' [-> _]].
      exists S'. auto.
    - (* For *) rewrite go_nm_s in Hnm. apply andb_true_iff in Hnm as [Hnm Nb]. apply andb_true_iff in Hnm as [Nlo Nhi].
      cbn [okbind] in Hok. rewrite go_okbind in Hok. apply andb_true_iff in Hok as [Oi Ob].
      rewrite pe_s_For. rewrite wf_stmt_For in *.
      destruct (wf_expr S lo && wf_expr S hi && negb (mem i S)) eqn:E; [|discriminate Hw].
      apply andb_true_iff in E as [E E3]. apply andb_true_iff in E as [E1 E2].
      destruct (wf_stmts (i :: S) a) as [Sb|] eqn:Eb; [|discriminate Hw]. injection Hw as <-.
      rewrite (wf_e_subst S S' lo HR Nlo E1), (wf_e_subst S S' hi HR Nhi E2).
      destruct HR as [H1 H2].
      rewrite <- (H1 i (okb_ne' i Oi) (okb_hid i Oi)), E3. cbn [andb].
      destruct (wf_list_subst a H (i :: S) (i :: S') Sb (srel_cons i S S' (conj H1 H2)) Ob Nb Eb) as [Sb' [-> _]].
      exists S'. split; [reflexivity|split; assumption].
    - (* Alloc *) cbn [okbind] in Hok. cbn [wf_stmt pe_s] in *.
      destruct (wf_exprs S shape && negb (mem x0 S)) eqn:E; [|discriminate Hw]. injection Hw as <-.
      apply andb_true_iff in E as [E1 E2]. rewrite (wf_es_subst S S' shape HR Hnm E1).
      destruct HR as [H1 H2]. rewrite <- (H1 x0 (okb_ne' x0 Hok) (okb_hid x0 Hok)), E2. cbn [andb].
      exists (x0 :: S'). split; [reflexivity|apply srel_cons; split; assumption].
    - (* Call *) destruct f as [formals preds body]. cbn [pe_s]. rewrite wf_stmt_Call in *.
      destruct (wf_exprs S args && Nat.eqb (length args) (length formals)) eqn:E; [|discriminate Hw].
      apply andb_true_iff in E as [E1 E2]. rewrite (wf_es_subst S S' args HR Hnm E1).
      unfold pe_es. rewrite map_length, E2. cbn [andb].
      destruct (wf_formals [] formals) as [csc|]; [|discriminate Hw].
      destruct (wf_exprs csc preds); [|discriminate Hw].
      destruct (wf_stmts csc body); [|discriminate Hw]. injection Hw as <-. exists S'. auto.
    - (* WindowS *) cbn [okbind] in Hok. cbn [wf_stmt pe_s] in *.
      destruct (wf_expr S rhs && negb (mem x0 S)) eqn:E; [|discriminate Hw]. injection Hw as <-.
      apply andb_true_iff in E as [E1 E2]. rewrite (wf_e_subst S S' rhs HR Hnm E1).
      destruct HR as [H1 H2]. rewrite <- (H1 x0 (okb_ne' x0 Hok) (okb_hid x0 Hok)), E2. cbn [andb].
      exists (x0 :: S'). split; [reflexivity|apply srel_cons; split; assumption].
  Qed.

  Corollary wf_body_subst : forall body S S' S1, srel S S' ->
    forallb (okbind okb) body = true -> forallb (nm_s x hid) body = true ->
    wf_stmts S body = Some S1 -> exists S1', wf_stmts S' (pe_ss x c body) = Some S1'.
  Proof.
    intros body S S' S1 HR Hok Hnm Hw.
    destruct (wf_list_subst body ltac:(apply Forall_forall; intros s _; apply wf_subst) S S' S1 HR Hok Hnm Hw) as [S1' [H _]].
    exists S1'. exact H.
  Qed.
End WfSubst.

(** ** monotonicity in the scope *)
Lemma wf_mono : forall S S2 e, (forall y, mem y S = true -> mem y S2 = true) -> wf_expr S e = true -> wf_expr S2 e = true.
Proof.
  intros S S2 e Hm. induction e using expr_ind2; cbn [wf_expr]; intro Hw; auto.
  - rewrite go_wfe in *. apply andb_true_iff in Hw as [H1 H2]. rewrite (Hm _ H1). cbn [andb].
    unfold wf_exprs in *. rewrite forallb_forall in *. intros a Ha. rewrite Forall_forall in H. apply H; auto.
  - apply andb_true_iff in Hw as [H1 H2]. rewrite IHe1, IHe2 by assumption. reflexivity.
  - rewrite go_wfe in *. unfold wf_exprs in *. rewrite forallb_forall in *. intros a Ha. rewrite Forall_forall in H. apply H; auto.
  - rewrite go_wfw in *. apply andb_true_iff in Hw as [H1 H2]. rewrite (Hm _ H1). cbn [andb].
    rewrite forallb_forall in *. intros w Hw'. rewrite Forall_forall in H. specialize (H w Hw'). specialize (H2 w Hw').
    destruct w as [a|a b]; cbn [wf_w PW] in *; [auto|]. apply andb_true_iff in H2 as [A B]. destruct H as [Ha Hb].
    rewrite Ha, Hb by assumption. reflexivity.
Qed.

Lemma mem_app : forall y a b, mem y (a ++ b) = mem y a || mem y b.
Proof. induction a as [|z a IH]; intro b; cbn [app mem]; [reflexivity|]. rewrite IH, orb_assoc. reflexivity. Qed.

Lemma wf_ext : forall ext S e, wf_expr S e = true -> wf_expr (ext ++ S) e = true.
Proof. intros ext S e. apply wf_mono. intros y Hy. rewrite mem_app, Hy, orb_true_r. reflexivity. Qed.
Lemma wf_cons : forall z S e, wf_expr S e = true -> wf_expr (z :: S) e = true.
Proof. intros z S e. apply (wf_ext [z]). Qed.

(** ** shift_loop *)
Theorem shift_preserves_wf : forall i lo hi nlo V body par sc,
  wf_expr sc nlo = true ->
  forallb (okbind (ShiftLoop.okb i V)) body = true -> forallb (nm_s i (fun _ => false)) body = true ->
  wf_stmt sc (For i lo hi body par) = Some sc ->
  wf_stmt sc (shift_loop_rw i lo hi nlo body par) = Some sc.
Proof.
  intros i lo hi nlo V body par sc Hn Hok Hnm Hw. unfold shift_loop_rw. rewrite wf_stmt_For in *.
  destruct (wf_expr sc lo && wf_expr sc hi && negb (mem i sc)) eqn:E; [|discriminate Hw].
  apply andb_true_iff in E as [E E3]. apply andb_true_iff in E as [E1 E2].
  destruct (wf_stmts (i :: sc) body) as [S1|] eqn:Eb; [|discriminate Hw].
  cbn [wf_expr]. rewrite Hn, E1, E2, E3. cbn [andb].
  destruct (wf_body_subst i (shift_off i lo nlo) (ShiftLoop.okb i V) (fun _ => false)
              (ShiftLoop.okb_i i V) (fun _ _ => eq_refl) body (i :: sc) (i :: sc) S1) as [S1' ->]; auto.
  split; [reflexivity|]. intro ext. unfold shift_off. cbn [wf_expr].
  rewrite mem_app. cbn [mem]. rewrite Pos.eqb_refl, orb_true_r. cbn [andb].
  rewrite (wf_ext ext (i :: sc) lo (wf_cons i sc lo E1)), (wf_ext ext (i :: sc) nlo (wf_cons i sc nlo Hn)). reflexivity.
Qed.

(** ** divide_loop *)
Lemma okbF_hidF : forall i io ii y, okbF i io ii y = true -> hidF io ii y = false.
Proof.
  intros i io ii y H. apply okbF_spec in H as [_ [H1 H2]]. unfold hidF.
  apply Pos.eqb_neq in H1, H2. rewrite H1, H2. reflexivity.
Qed.

Lemma divC_wf : forall q io ii ext sc, wf_expr (ext ++ ii :: io :: sc) (divC q io ii) = true.
Proof.
  intros. unfold divC. cbn [wf_expr]. rewrite !mem_app. cbn [mem]. rewrite !Pos.eqb_refl.
  rewrite !orb_true_r. reflexivity.
Qed.

Lemma srel_divide : forall i io ii q sc, srel i (divC q io ii) (hidF io ii) (i :: sc) (ii :: io :: sc).
Proof.
  intros i io ii q sc. split.
  - intros y Hy Hh. unfold hidF in Hh. apply orb_false_iff in Hh as [H1 H2]. cbn [mem].
    apply Pos.eqb_neq in Hy. rewrite Hy, H1, H2. reflexivity.
  - intro ext. apply divC_wf.
Qed.

Theorem divide_perfect_preserves_wf : forall i io ii q N H body par sc,
  mem io sc = false -> mem ii sc = false -> io <> ii -> wf_expr sc H = true ->
  forallb (okbind (okbF i io ii)) body = true -> forallb (nm_s i (hidF io ii)) body = true ->
  wf_stmt sc (For i (Int 0) N body par) = Some sc ->
  wf_stmt sc (flat_rw i io ii q H body par) = Some sc.
Proof.
  intros i io ii q N H body par sc Hio Hii Hne HH Hok Hnm Hw. unfold flat_rw. rewrite wf_stmt_For in Hw.
  destruct (wf_expr sc (Int 0) && wf_expr sc N && negb (mem i sc)) eqn:E; [|discriminate Hw].
  destruct (wf_stmts (i :: sc) body) as [S1|] eqn:Eb; [|discriminate Hw].
  destruct (wf_body_subst i (divC q io ii) (okbF i io ii) (hidF io ii) (okbF_i i io ii) (okbF_hidF i io ii)
              body (i :: sc) (ii :: io :: sc) S1 (srel_divide i io ii q sc) Hok Hnm Eb) as [S1' Hb].
  rewrite wf_stmt_For. cbn [wf_expr]. rewrite HH, Hio. cbn [andb negb wf_stmts].
  rewrite wf_stmt_For. cbn [wf_expr mem]. rewrite Hii.
  destruct (Pos.eqb ii io) eqn:E2; [apply Pos.eqb_eq in E2; symmetry in E2; contradiction|]. cbn [orb andb negb].
  rewrite Hb. reflexivity.
Qed.

Theorem divide_guard_preserves_wf : forall i io ii q N body par sc,
  mem io sc = false -> mem ii sc = false -> io <> ii ->
  forallb (okbind (okbF i io ii)) body = true -> forallb (nm_s i (hidF io ii)) body = true ->
  wf_stmt sc (For i (Int 0) N body par) = Some sc ->
  wf_stmt sc (divide_guard_rw i io ii q N body par) = Some sc.
Proof.
  intros i io ii q N body par sc Hio Hii Hne Hok Hnm Hw. unfold divide_guard_rw. rewrite wf_stmt_For in Hw.
  destruct (wf_expr sc (Int 0) && wf_expr sc N && negb (mem i sc)) eqn:E; [|discriminate Hw].
  apply andb_true_iff in E as [E E3]. apply andb_true_iff in E as [_ EN].
  destruct (wf_stmts (i :: sc) body) as [S1|] eqn:Eb; [|discriminate Hw].
  destruct (wf_body_subst i (divC q io ii) (okbF i io ii) (hidF io ii) (okbF_i i io ii) (okbF_hidF i io ii)
              body (i :: sc) (ii :: io :: sc) S1 (srel_divide i io ii q sc) Hok Hnm Eb) as [S1' Hb].
  rewrite wf_stmt_For. unfold ceil_hi. cbn [wf_expr]. rewrite EN, Hio. cbn [andb negb wf_stmts].
  rewrite wf_stmt_For. cbn [wf_expr mem]. rewrite Hii.
  destruct (Pos.eqb ii io) eqn:E2; [apply Pos.eqb_eq in E2; symmetry in E2; contradiction|]. cbn [orb andb negb wf_stmts].
  rewrite wf_stmt_If. cbn [wf_expr].
  rewrite (divC_wf q io ii [] sc : wf_expr (ii :: io :: sc) (divC q io ii) = true).
  rewrite (wf_cons ii (io :: sc) N (wf_cons io sc N EN)). cbn [andb]. rewrite Hb. reflexivity.
Qed.

(** ** reorder_loops *)
Lemma env_only_wf_drop : forall i sc e, env_only e = true -> Rules.mentions i e = false ->
  wf_expr (i :: sc) e = true -> wf_expr sc e = true.
Proof.
  intros i sc e. induction e; cbn [env_only Rules.mentions wf_expr]; intros He Hm Hw; try discriminate He; auto.
  - cbn [mem] in Hw. rewrite Hm in Hw. exact Hw.
  - apply andb_true_iff in He as [A B]. apply orb_false_iff in Hm as [M1 M2]. apply andb_true_iff in Hw as [W1 W2].
    rewrite IHe1, IHe2 by assumption. reflexivity.
Qed.

Theorem reorder_preserves_wf : forall i j li hi lj hj body pi pj sc,
  ReorderLoops.reorder_syn_ok i (For i li hi [For j lj hj body pj] pi) = true ->
  wf_stmt sc (For i li hi [For j lj hj body pj] pi) = Some sc ->
  wf_stmt sc (For j lj hj [For i li hi body pi] pj) = Some sc.
Proof.
  intros i j li hi lj hj body pi pj sc Hok Hw. cbn [reorder_syn_ok] in Hok.
  repeat (match goal with H : _ && _ = true |- _ => apply andb_true_iff in H; destruct H end).
  repeat (match goal with H : negb _ = true |- _ => apply negb_true_iff in H end).
  rewrite wf_stmt_For in Hw.
  destruct (wf_expr sc li && wf_expr sc hi && negb (mem i sc)) eqn:E; [|discriminate Hw].
  apply andb_true_iff in E as [E Ei]. apply andb_true_iff in E as [Eli Ehi]. apply negb_true_iff in Ei.
  cbn [wf_stmts] in Hw. rewrite wf_stmt_For in Hw.
  destruct (wf_expr (i :: sc) lj && wf_expr (i :: sc) hj && negb (mem j (i :: sc))) eqn:E2; [|discriminate Hw].
  apply andb_true_iff in E2 as [E2 Ej]. apply andb_true_iff in E2 as [Elj Ehj]. apply negb_true_iff in Ej.
  cbn [mem] in Ej. apply orb_false_iff in Ej as [Eji Ejs].
  destruct (wf_stmts (j :: i :: sc) body) as [S1|] eqn:Eb; [|discriminate Hw].
  rewrite wf_stmt_For.
  rewrite (env_only_wf_drop i sc lj), (env_only_wf_drop i sc hj) by assumption. rewrite Ejs. cbn [andb negb wf_stmts].
  rewrite wf_stmt_For. rewrite (wf_cons j sc li Eli), (wf_cons j sc hi Ehi). cbn [mem].
  rewrite Pos.eqb_sym, Eji, Ei. cbn [orb andb negb].
  destruct (wf_body_subst j (Var j) (okbS j) (fun _ => false) (okbS_j j) (fun _ _ => eq_refl)
              body (j :: i :: sc) (i :: j :: sc) S1) as [S1' Hb]; auto.
  - split.
    + intros y Hy _. cbn [mem]. rewrite !orb_assoc. rewrite (orb_comm (Pos.eqb y j) (Pos.eqb y i)). reflexivity.
    + intro ext. cbn [wf_expr]. rewrite mem_app. cbn [mem]. rewrite Pos.eqb_refl. rewrite !orb_true_r. reflexivity.
  - rewrite pe_ss_id in Hb. rewrite Hb. reflexivity.
Qed.
