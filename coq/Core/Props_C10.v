(** Property C10 — theorems only. *)
From Coq Require Import ZArith List Bool.
From Core Require Import Syntax Sem Equiv ConfigRules.
Import ListNotations.

(** delete_config: removing a write to field [c] whose value is never read afterwards (in the rest of the
    procedure, including callee bodies and assertions) leaves every argument buffer identical, and the only
    configuration field whose final value may differ is [c] — the field the system reports *)
Theorem C10_delete_config : forall c formals preds pre rhs post inp bufs cfg,
  forallb (noread_s c) post = true ->
  run (Proc formals preds (pre ++ WriteCfg c rhs :: post)) inp = Done bufs cfg ->
  exists cfg', run (Proc formals preds (pre ++ post)) inp = Done bufs cfg' /\
               forall k, k <> c -> lookup k cfg = lookup k cfg'.
Proof. exact delete_config_write. Qed.
Print Assumptions C10_delete_config.

(** write_config: inserting a write of a total expression to a field that is never read afterwards *)
Theorem C10_write_config : forall c formals preds pre rhs post inp bufs cfg,
  forallb (noread_s c) post = true ->
  (forall st, exists v, eval st rhs = Ok v) ->
  run (Proc formals preds (pre ++ post)) inp = Done bufs cfg ->
  exists cfg', run (Proc formals preds (pre ++ WriteCfg c rhs :: post)) inp = Done bufs cfg' /\
               forall k, k <> c -> lookup k cfg = lookup k cfg'.
Proof. exact insert_config_write. Qed.
Print Assumptions C10_write_config.

(** a statement list that never reads [c] cannot tell two states apart that differ only in [c]:
    the lemma behind both theorems, for arbitrary nesting and calls *)
Theorem C10_unread_field_is_unobservable : forall c l,
  forallb (noread_s c) l = true ->
  forall st1 st2, Rc c st1 st2 ->
  match exec_list l st1, exec_list l st2 with
  | Ok a, Ok b => Rc c a b
  | Err _, Err _ => True
  | _, _ => False
  end.
Proof. intros c l H st1 st2 HR. exact (exec_list_Rc' c l H st1 st2 HR). Qed.
Print Assumptions C10_unread_field_is_unobservable.

(** the reported set along a schedule: equivalence modulo a set of configuration fields composes by union,
    may be weakened, and an operation that preserves everything (property C01) reports the empty set *)
Definition eqv_mod (F : list cfgfield) (p q : proc) : Prop :=
  forall inp bufs cfg, run p inp = Done bufs cfg ->
    exists cfg', run q inp = Done bufs cfg' /\ forall k, ~ In k F -> lookup k cfg = lookup k cfg'.

Theorem C10_modset_compose : forall F1 F2 p q r,
  eqv_mod F1 p q -> eqv_mod F2 q r -> eqv_mod (F1 ++ F2) p r.
Proof.
  intros F1 F2 p q r H1 H2 inp bufs cfg Hp.
  destruct (H1 inp bufs cfg Hp) as [cfg1 [Hq E1]]. destruct (H2 inp bufs cfg1 Hq) as [cfg2 [Hr E2]].
  exists cfg2. split; [exact Hr|]. intros k Hk.
  rewrite E1, E2; [reflexivity| |]; intro Hin; apply Hk, in_or_app; [right|left]; exact Hin.
Qed.
Print Assumptions C10_modset_compose.

Theorem C10_modset_weaken : forall F G p q, incl F G -> eqv_mod F p q -> eqv_mod G p q.
Proof.
  intros F G p q Hi H inp bufs cfg Hp. destruct (H inp bufs cfg Hp) as [cfg' [Hq E]].
  exists cfg'. split; [exact Hq|]. intros k Hk. apply E. intro Hin. apply Hk, Hi, Hin.
Qed.
Print Assumptions C10_modset_weaken.

Theorem C10_preserving_step_reports_nothing : forall p q,
  (forall inp bufs cfg, run p inp = Done bufs cfg -> run q inp = Done bufs cfg) -> eqv_mod [] p q.
Proof. intros p q H inp bufs cfg Hp. exists cfg. split; [apply H, Hp|reflexivity]. Qed.
Print Assumptions C10_preserving_step_reports_nothing.

Theorem C10_delete_config_modset : forall c formals preds pre rhs post,
  forallb (noread_s c) post = true ->
  eqv_mod [c] (Proc formals preds (pre ++ WriteCfg c rhs :: post)) (Proc formals preds (pre ++ post)).
Proof.
  intros c formals preds pre rhs post H inp bufs cfg Hp.
  destruct (delete_config_write c formals preds pre rhs post inp bufs cfg H Hp) as [cfg' [Hq E]].
  exists cfg'. split; [exact Hq|]. intros k Hk. apply E. intro Heq. apply Hk. left. symmetry. exact Heq.
Qed.
Print Assumptions C10_delete_config_modset.
