(** Property C10 — theorems only. *)
From Coq Require Import ZArith List Bool.
From Core Require Import Syntax Sem Equiv ConfigRules.
Import ListNotations.

(** delete_config: removing a write to field [c] whose value is never read afterwards (in the rest of the
    procedure, including callee bodies and assertions) leaves every argument buffer identical, and the only
    configuration field whose final value may differ is [c] — the field the system reports *)
Theorem C10_delete_config : forall c formals preds pre rhs post inp bufs cfg,
  forallb (noread_s c) post = true ->
  run (Proc formals preds (pre ++ WriteCfg c rhs :: post)) inp = Done bufs cfg ->
  exists cfg', run (Proc formals preds (pre ++ post)) inp = Done bufs cfg' /\
               forall k, k <> c -> lookup k cfg = lookup k cfg'.
Proof. exact delete_config_write. Qed.
Print Assumptions C10_delete_config.

(** write_config: inserting a write of a total expression to a field that is never read afterwards *)
Theorem C10_write_config : forall c formals preds pre rhs post inp bufs cfg,
  forallb (noread_s c) post = true ->
  (forall st, exists v, eval st rhs = Ok v) ->
  run (Proc formals preds (pre ++ post)) inp = Done bufs cfg ->
  exists cfg', run (Proc formals preds (pre ++ WriteCfg c rhs :: post)) inp = Done bufs cfg' /\
               forall k, k <> c -> lookup k cfg = lookup k cfg'.
Proof. exact insert_config_write. Qed.
Print Assumptions C10_write_config.

(** a statement list that never reads [c] cannot tell two states apart that differ only in [c]:
    the lemma behind both theorems, for arbitrary nesting and calls *)
Theorem C10_unread_field_is_unobservable : forall c l,
  forallb (noread_s c) l = true ->
  forall st1 st2, Rc c st1 st2 ->
  match exec_list l st1, exec_list l st2 with
  | Ok a, Ok b => Rc c a b
  | Err _, Err _ => True
  | _, _ => False
  end.
Proof. intros c l H st1 st2 HR. exact (exec_list_Rc' c l H st1 st2 HR). Qed.
Print Assumptions C10_unread_field_is_unobservable.
