(** Induction principles for the nested inductive types of Core.Syntax. *)
From Coq Require Import List.
From Core Require Import Syntax.
Import ListNotations.

Section ExprInd.
  Variable P : expr -> Prop.
  Definition PW (w : wacc) : Prop := match w with Point a => P a | Interval a b => P a /\ P b end.
  Hypothesis HVar : forall x, P (Var x).
  Hypothesis HInt : forall z, P (Int z).
  Hypothesis HBool : forall b, P (BoolC b).
  Hypothesis HReal : forall q, P (Real q).
  Hypothesis HRead : forall x idx, Forall P idx -> P (Read x idx).
  Hypothesis HUSub : forall a, P a -> P (USub a).
  Hypothesis HBin : forall op a b, P a -> P b -> P (BinOp op a b).
  Hypothesis HExt : forall f args, Forall P args -> P (Extern f args).
  Hypothesis HWin : forall x acc, Forall PW acc -> P (WindowE x acc).
  Hypothesis HStride : forall x d, P (Stride x d).
  Hypothesis HCfg : forall c, P (ReadCfg c).

  Fixpoint expr_ind2 (e : expr) : P e :=
    match e with
    | Var x => HVar x
    | Int z => HInt z
    | BoolC b => HBool b
    | Real q => HReal q
    | Read x idx => HRead x idx ((fix go (l : list expr) : Forall P l :=
                                    match l with [] => Forall_nil _ | a :: r => Forall_cons _ (expr_ind2 a) (go r) end) idx)
    | USub a => HUSub a (expr_ind2 a)
    | BinOp op a b => HBin op a b (expr_ind2 a) (expr_ind2 b)
    | Extern f args => HExt f args ((fix go (l : list expr) : Forall P l :=
                                       match l with [] => Forall_nil _ | a :: r => Forall_cons _ (expr_ind2 a) (go r) end) args)
    | WindowE x acc =>
        HWin x acc ((fix go (l : list wacc) : Forall PW l :=
                       match l with
                       | [] => Forall_nil _
                       | Point a :: r => Forall_cons (Point a) (expr_ind2 a) (go r)
                       | Interval a b :: r => Forall_cons (Interval a b) (conj (expr_ind2 a) (expr_ind2 b)) (go r)
                       end) acc)
    | Stride x d => HStride x d
    | ReadCfg c => HCfg c
    end.
End ExprInd.

(** statements: the induction hypothesis is available for every statement of nested bodies;
    callee procedures are opaque (no hypothesis), which is what rewrites that do not descend into
    callees need *)
Section StmtInd.
  Variable P : stmt -> Prop.
  Hypothesis HAssign : forall x idx rhs, P (Assign x idx rhs).
  Hypothesis HReduce : forall x idx rhs, P (Reduce x idx rhs).
  Hypothesis HWriteCfg : forall c rhs, P (WriteCfg c rhs).
  Hypothesis HPass : P Pass.
  Hypothesis HIf : forall c a b, Forall P a -> Forall P b -> P (If c a b).
  Hypothesis HFor : forall i lo hi a par, Forall P a -> P (For i lo hi a par).
  Hypothesis HAlloc : forall x shape, P (Alloc x shape).
  Hypothesis HCall : forall f args, P (Call f args).
  Hypothesis HWindowS : forall x rhs, P (WindowS x rhs).

  Fixpoint stmt_ind2 (s : stmt) : P s :=
    match s with
    | Assign x idx rhs => HAssign x idx rhs
    | Reduce x idx rhs => HReduce x idx rhs
    | WriteCfg c rhs => HWriteCfg c rhs
    | Pass => HPass
    | If c a b =>
        HIf c a b
            ((fix go (l : list stmt) : Forall P l :=
                match l with [] => Forall_nil _ | s' :: r => Forall_cons _ (stmt_ind2 s') (go r) end) a)
            ((fix go (l : list stmt) : Forall P l :=
                match l with [] => Forall_nil _ | s' :: r => Forall_cons _ (stmt_ind2 s') (go r) end) b)
    | For i lo hi a par =>
        HFor i lo hi a par
             ((fix go (l : list stmt) : Forall P l :=
                 match l with [] => Forall_nil _ | s' :: r => Forall_cons _ (stmt_ind2 s') (go r) end) a)
    | Alloc x shape => HAlloc x shape
    | Call f args => HCall f args
    | WindowS x rhs => HWindowS x rhs
    end.
End StmtInd.

(** statements with the induction hypothesis also for the bodies of called procedures *)
Section StmtInd3.
  Variable P : stmt -> Prop.
  Hypothesis HAssign : forall x idx rhs, P (Assign x idx rhs).
  Hypothesis HReduce : forall x idx rhs, P (Reduce x idx rhs).
  Hypothesis HWriteCfg : forall c rhs, P (WriteCfg c rhs).
  Hypothesis HPass : P Pass.
  Hypothesis HIf : forall c a b, Forall P a -> Forall P b -> P (If c a b).
  Hypothesis HFor : forall i lo hi a par, Forall P a -> P (For i lo hi a par).
  Hypothesis HAlloc : forall x shape, P (Alloc x shape).
  Hypothesis HCall : forall formals preds body args, Forall P body -> P (Call (Proc formals preds body) args).
  Hypothesis HWindowS : forall x rhs, P (WindowS x rhs).

  Fixpoint stmt_ind3 (s : stmt) : P s :=
    match s with
    | Assign x idx rhs => HAssign x idx rhs
    | Reduce x idx rhs => HReduce x idx rhs
    | WriteCfg c rhs => HWriteCfg c rhs
    | Pass => HPass
    | If c a b =>
        HIf c a b
            ((fix go (l : list stmt) : Forall P l :=
                match l with [] => Forall_nil _ | s' :: r => Forall_cons _ (stmt_ind3 s') (go r) end) a)
            ((fix go (l : list stmt) : Forall P l :=
                match l with [] => Forall_nil _ | s' :: r => Forall_cons _ (stmt_ind3 s') (go r) end) b)
    | For i lo hi a par =>
        HFor i lo hi a par
             ((fix go (l : list stmt) : Forall P l :=
                 match l with [] => Forall_nil _ | s' :: r => Forall_cons _ (stmt_ind3 s') (go r) end) a)
    | Alloc x shape => HAlloc x shape
    | Call f args =>
        match f with
        | Proc formals preds body =>
            HCall formals preds body args
                  ((fix go (l : list stmt) : Forall P l :=
                      match l with [] => Forall_nil _ | s' :: r => Forall_cons _ (stmt_ind3 s') (go r) end) body)
        end
    | WindowS x rhs => HWindowS x rhs
    end.
End StmtInd3.
