(** * reorder_loops (DoLiftScope's for-for case / DoReorderLoops):

      for i in seq(li, hi): for j in seq(lj, hj): body   ~>   for j in seq(lj, hj): for i in seq(li, hi): body

    under the contract that the implementation's effect check (Check_ReorderLoops) establishes: the body instances
    whose relative order flips -- (a, b) and (a', b') with a < a' and b' < b -- commute.  Two ingredients besides the
    iteration algebra of FissionFuse.v: the order of two distinct bindings in the environment is irrelevant (an
    instance of the substitution lemma with the identity substitution), and the bounds of each loop do not depend on
    the other iterator. *)
From Coq Require Import ZArith List Bool Lia.
From Core Require Import Syntax Sem Equiv Induction PartialEval PartialEvalSound Subst Rules FissionFuse DivideLoop.
Import ListNotations.
Local Open Scope Z_scope.

(** ** the identity substitution *)
Lemma pe_e_id : forall x e, pe_e x (Var x) e = e.
Proof.
  intros x e. induction e using expr_ind2; cbn [pe_e]; try reflexivity.
  - destruct (Pos.eqb x0 x) eqn:E; [apply Pos.eqb_eq in E; subst; reflexivity|reflexivity].
  - rewrite go_map_e. f_equal. induction H as [|a r Ha Hr IH]; [reflexivity|]. cbn [map]. rewrite Ha, IH. reflexivity.
  - rewrite IHe. reflexivity.
  - rewrite IHe1, IHe2. reflexivity.
  - rewrite go_map_e. f_equal. induction H as [|a r Ha Hr IH]; [reflexivity|]. cbn [map]. rewrite Ha, IH. reflexivity.
  - rewrite go_map_w. f_equal. induction H as [|w r Hw Hr IH]; [reflexivity|]. cbn [map]. rewrite IH.
    destruct w as [a|a b]; cbn [pe_w PW] in *; [rewrite Hw; reflexivity|]. destruct Hw as [-> ->]. reflexivity.
Qed.

Lemma pe_es_id : forall x l, pe_es x (Var x) l = l.
Proof. intros x l. unfold pe_es. induction l as [|a r IH]; [reflexivity|]. cbn [map]. rewrite pe_e_id, IH. reflexivity. Qed.

Lemma map_id_Forall : forall (f : stmt -> stmt) l, Forall (fun s => f s = s) l -> map f l = l.
Proof. intros f l H. induction H as [|s0 r0 Hs0 Hr0 IH0]; [reflexivity|]. cbn [map]. rewrite Hs0, IH0. reflexivity. Qed.

Lemma pe_s_id : forall x s, pe_s x (Var x) s = s.
Proof.
  intros x s. induction s using stmt_ind2; cbn [pe_s]; rewrite ?pe_e_id, ?pe_es_id; try reflexivity.
  - rewrite !go_map_s. f_equal; apply map_id_Forall; assumption.
  - rewrite go_map_s. f_equal. apply map_id_Forall; assumption.
Qed.

Lemma pe_ss_id : forall x l, pe_ss x (Var x) l = l.
Proof. intros x l. unfold pe_ss. induction l as [|a r IH]; [reflexivity|]. cbn [map]. rewrite pe_s_id, IH. reflexivity. Qed.

(** ** the order of two distinct bindings does not matter *)
Section Swap.
  Variables i j : sym.
  Hypothesis i_ne_j : i <> j.

  (** insert a binding of j just below the first binding of i *)
  Fixpoint ins (jb : sym * binding) (r : env) : env :=
    match r with
    | [] => [jb]
    | (z, bz) :: r' => if Pos.eqb z i then (z, bz) :: jb :: r' else (z, bz) :: ins jb r'
    end.
  (** move the first binding of j below the first binding of i that follows it *)
  Fixpoint TS (e : env) : env :=
    match e with
    | [] => []
    | (y, bd) :: r => if Pos.eqb y j then ins (y, bd) r else (y, bd) :: TS r
    end.

  Definition okbS (y : sym) : bool := negb (Pos.eqb y j).

  Lemma ins_lookup : forall bd r y, y <> j -> lookup y (ins (j, bd) r) = lookup y r.
  Proof.
    induction r as [|[z bz] r' IH]; intros y Hy; cbn [ins lookup].
    - destruct (Pos.eqb y j) eqn:E; [apply Pos.eqb_eq in E; contradiction|reflexivity].
    - destruct (Pos.eqb z i); cbn [lookup].
      + destruct (Pos.eqb y z); [reflexivity|].
        destruct (Pos.eqb y j) eqn:E; [apply Pos.eqb_eq in E; contradiction|reflexivity].
      + destruct (Pos.eqb y z); [reflexivity|]. apply IH, Hy.
  Qed.
  Lemma TS_lookup : forall e y, y <> j -> (fun _ : sym => false) y = false -> lookup y (TS e) = lookup y e.
  Proof.
    induction e as [|[z bz] r IH]; intros y Hy Hh; [reflexivity|]. cbn [TS].
    destruct (Pos.eqb z j) eqn:E.
    - apply Pos.eqb_eq in E. subst z. rewrite ins_lookup by exact Hy. cbn [lookup].
      destruct (Pos.eqb y j) eqn:E2; [apply Pos.eqb_eq in E2; contradiction|reflexivity].
    - cbn [lookup]. destruct (Pos.eqb y z); [reflexivity|]. apply IH; assumption.
  Qed.
  Lemma okbS_j : okbS j = false.
  Proof. unfold okbS. rewrite Pos.eqb_refl. reflexivity. Qed.
  Lemma TS_cons : forall y b e, okbS y = true -> TS ((y, b) :: e) = (y, b) :: TS e.
  Proof. intros y b e H. unfold okbS in H. apply negb_true_iff in H. cbn [TS]. rewrite H. reflexivity. Qed.

  (** one body instance under the two binding orders; both restore the outer environment *)
  Definition inst_ij (body : list stmt) (a b : Z) (st : state) : result state :=
    do s <- exec_list body (bind_var j (BVal (VInt b)) (bind_var i (BVal (VInt a)) st)); Ok (with_env (s_env st) s).
  Definition inst_ji (body : list stmt) (a b : Z) (st : state) : result state :=
    do s <- exec_list body (bind_var i (BVal (VInt a)) (bind_var j (BVal (VInt b)) st)); Ok (with_env (s_env st) s).

  Lemma inst_swap : forall body a b st s,
    forallb (okbind okbS) body = true -> forallb (nm_s j (fun _ => false)) body = true ->
    inst_ij body a b st = Ok s -> inst_ji body a b st = Ok s.
  Proof.
    intros body a b st s Hok Hnm Hrun. unfold inst_ij, inst_ji in *.
    pose (Good := fun e : env => lookup j e = Some (BVal (VInt b))).
    assert (Hev : forall st0, Good (s_env st0) -> eval st0 (Var j) = Ok (VInt b)).
    { intros st0 Hg. cbn [eval]. unfold Good in Hg. rewrite Hg. reflexivity. }
    assert (Hgc : forall y bd e, okbS y = true -> Good e -> Good ((y, bd) :: e)).
    { intros y bd e Hy Hg. unfold Good in *. unfold okbS in Hy. apply negb_true_iff in Hy.
      cbn [lookup]. rewrite Pos.eqb_sym, Hy. exact Hg. }
    set (st1 := bind_var j (BVal (VInt b)) (bind_var i (BVal (VInt a)) st)) in *.
    pose proof (body_sub j (Var j) (VInt b) okbS TS Good (fun _ => false) okbS_j Hev (fun st0 _ => eq_refl) TS_lookup TS_cons Hgc
                  body st1 Hok Hnm) as Hsim.
    assert (Hts : TS (s_env st1) = (i, BVal (VInt a)) :: (j, BVal (VInt b)) :: s_env st).
    { subst st1. cbn [bind_var s_env TS ins]. rewrite !Pos.eqb_refl. reflexivity. }
    assert (Hinv : inv j (VInt b) TS Good st1).
    { split.
      - subst st1. cbn [bind_var s_env lookup]. rewrite Pos.eqb_refl. reflexivity.
      - rewrite Hts. unfold Good. cbn [lookup].
        destruct (Pos.eqb j i) eqn:E; [apply Pos.eqb_eq in E; symmetry in E; contradiction|].
        rewrite Pos.eqb_refl. reflexivity. }
    specialize (Hsim Hinv). rewrite pe_ss_id in Hsim.
    assert (Ht : tst TS st1 = bind_var i (BVal (VInt a)) (bind_var j (BVal (VInt b)) st)).
    { unfold tst, with_env. rewrite Hts. subst st1. reflexivity. }
    rewrite Ht in Hsim.
    destruct (exec_list body st1) as [s1|] eqn:E1; cbn [bind] in Hrun; [|discriminate Hrun].
    destruct (exec_list body (bind_var i (BVal (VInt a)) (bind_var j (BVal (VInt b)) st))) as [s2|] eqn:E2;
      cbn [rsim] in Hsim; [|contradiction].
    destruct Hsim as [-> _]. cbn [bind]. rewrite <- Hrun. reflexivity.
  Qed.
End Swap.

(** ** double iteration *)
Section Grid.
  Variable H : Z -> Z -> state -> result state.
  Variables la ha lb hb : Z.
  (** the instances whose order flips commute *)
  Hypothesis flip : forall a a' b b' st, la <= a -> a < a' -> a' < ha -> lb <= b' -> b' < b -> b < hb ->
    bind (H a' b' st) (H a b) = bind (H a b st) (H a' b').

  Definition rows (n : nat) (a0 : Z) (nb : nat) (st : state) : result state :=
    iter_loop n a0 (fun a Y => iter_loop nb lb (H a) Y) st.
  Definition cols (n : nat) (a0 : Z) (nb : nat) (st : state) : result state :=
    iter_loop nb lb (fun b Y => iter_loop n a0 (fun a => H a b) Y) st.

  Lemma grid_swap : forall nb, lb + Z.of_nat nb <= hb ->
    forall n a0 st, la <= a0 -> a0 + Z.of_nat n <= ha -> rows n a0 nb st = cols n a0 nb st.
  Proof.
    intros nb Hnb. induction n as [|n IH]; intros a0 st Hla Hha; unfold rows, cols in *.
    - cbn [iter_loop]. symmetry. apply iter_loop_noop. reflexivity.
    - cbn [iter_loop].
      transitivity (bind (iter_loop nb lb (H a0) st)
                         (iter_loop nb lb (fun b Y => iter_loop n (a0 + 1) (fun a => H a b) Y))).
      { apply bind_ext. intro s1. apply IH; lia. }
      symmetry.
      rewrite (iter_loop_ext nb lb _ (FG (H a0) (fun b Y => iter_loop n (a0 + 1) (fun a => H a b) Y))) by reflexivity.
      apply (fission_iter (H a0) (fun b Y => iter_loop n (a0 + 1) (fun a => H a b) Y) lb hb); [|lia|lia].
      (* the column below row a0 at position k commutes with the row-a0 instance at a later position k' *)
      intros k k' s Hk Hkk' Hk'.
      symmetry.
      assert (Hsw : forall x x' s0, a0 <= x -> x < x' -> x' < ha ->
                bind ((fun _ : Z => H a0 k') x s0) ((fun a => H a k) x') = bind ((fun a => H a k) x' s0) ((fun _ : Z => H a0 k') x)).
      { intros x x' s0 Hx Hxx' Hx'. cbv beta. symmetry. apply flip; lia. }
      exact (push_G (fun a => H a k) (fun _ => H a0 k') a0 ha Hsw n a0 (a0 + 1) s ltac:(lia) ltac:(lia) ltac:(lia)).
  Qed.
End Grid.

(** ** the loops *)
Section Assemble.
  Variables i j : sym.
  Hypothesis i_ne_j : i <> j.
  Variable body : list stmt.
  Variables li hi lj hj : expr.
  Hypothesis eo_li : env_only li = true.
  Hypothesis eo_hi : env_only hi = true.
  Hypothesis eo_lj : env_only lj = true.
  Hypothesis eo_hj : env_only hj = true.
  Hypothesis nm_lj : mentions i lj = false.
  Hypothesis nm_hj : mentions i hj = false.
  Hypothesis nm_li : mentions j li = false.
  Hypothesis nm_hi : mentions j hi = false.

  Variable entry : state.
  Variables vli vhi vlj vhj : Z.
  Hypothesis E_li : eval entry li = Ok (VInt vli).
  Hypothesis E_hi : eval entry hi = Ok (VInt vhi).
  Hypothesis E_lj : eval entry lj = Ok (VInt vlj).
  Hypothesis E_hj : eval entry hj = Ok (VInt vhj).
  Hypothesis trip_i : vli <= vhi.
  Hypothesis trip_j : vlj <= vhj.

  Notation Hij := (inst_ij i j body).
  Notation Hji := (inst_ji i j body).
  Definition same (Y : state) : Prop := s_env Y = s_env entry.

  Lemma inst_ij_env : forall a b Y Y', Hij a b Y = Ok Y' -> s_env Y' = s_env Y.
  Proof.
    intros a b Y Y' H. unfold inst_ij in H. destruct (exec_list body _); cbn [bind] in H; [|discriminate H].
    injection H as <-. reflexivity.
  Qed.
  Lemma inst_ji_env : forall a b Y Y', Hji a b Y = Ok Y' -> s_env Y' = s_env Y.
  Proof.
    intros a b Y Y' H. unfold inst_ji in H. destruct (exec_list body _); cbn [bind] in H; [|discriminate H].
    injection H as <-. reflexivity.
  Qed.
  Lemma iter_env : forall (f : Z -> state -> result state),
    (forall k Y Y', f k Y = Ok Y' -> s_env Y' = s_env Y) ->
    forall n k Y Y', iter_loop n k f Y = Ok Y' -> s_env Y' = s_env Y.
  Proof.
    intros f Hf. induction n as [|n IH]; intros k Y Y' H; cbn [iter_loop] in H.
    - injection H as <-. reflexivity.
    - destruct (f k Y) as [Y1|] eqn:E; cbn [bind] in H; [|discriminate H].
      rewrite (IH _ _ _ H). eapply Hf; eassumption.
  Qed.

  (** the inner loop of the original nest, run below a binding of i *)
  Lemma inner_ij : forall a n b0 Y,
    iter_loop n b0 (loop_body j body) (bind_var i (BVal (VInt a)) Y)
    = bind (iter_loop n b0 (Hij a) Y) (fun Y' => Ok (bind_var i (BVal (VInt a)) Y')).
  Proof.
    intros a. induction n as [|n IH]; intros b0 Y; cbn [iter_loop bind]; [reflexivity|].
    unfold loop_body at 1. unfold inst_ij at 1.
    destruct (exec_list body (bind_var j (BVal (VInt b0)) (bind_var i (BVal (VInt a)) Y))) as [s|]; cbn [bind]; [|reflexivity].
    change (with_env (s_env (bind_var i (BVal (VInt a)) Y)) s) with (bind_var i (BVal (VInt a)) (with_env (s_env Y) s)).
    apply IH.
  Qed.
  Lemma inner_ji : forall b n a0 Y,
    iter_loop n a0 (loop_body i body) (bind_var j (BVal (VInt b)) Y)
    = bind (iter_loop n a0 (fun a => Hji a b) Y) (fun Y' => Ok (bind_var j (BVal (VInt b)) Y')).
  Proof.
    intros b. induction n as [|n IH]; intros a0 Y; cbn [iter_loop bind]; [reflexivity|].
    unfold loop_body at 1. unfold inst_ji at 1.
    destruct (exec_list body (bind_var i (BVal (VInt a0)) (bind_var j (BVal (VInt b)) Y))) as [s|]; cbn [bind]; [|reflexivity].
    change (with_env (s_env (bind_var j (BVal (VInt b)) Y)) s) with (bind_var j (BVal (VInt b)) (with_env (s_env Y) s)).
    apply IH.
  Qed.

  Lemma outer_ij : forall pj a Y, same Y ->
    loop_body i [For j lj hj body pj] a Y = iter_loop (Z.to_nat (vhj - vlj)) vlj (Hij a) Y.
  Proof.
    intros pj a Y HY. unfold loop_body. rewrite single, exec_For.
    rewrite (eval_bind_fresh lj i _ Y eo_lj nm_lj), (env_only_eval lj Y entry eo_lj HY), E_lj.
    rewrite (eval_bind_fresh hj i _ Y eo_hj nm_hj), (env_only_eval hj Y entry eo_hj HY), E_hj.
    cbn [bind as_int]. replace (vhj <? vlj) with false by (symmetry; apply Z.ltb_ge; exact trip_j).
    rewrite inner_ij.
    destruct (iter_loop (Z.to_nat (vhj - vlj)) vlj (Hij a) Y) as [Y'|] eqn:E; cbn [bind]; [|reflexivity].
    rewrite with_env_bind; [reflexivity|]. symmetry. exact (iter_env (Hij a) (inst_ij_env a) _ _ _ _ E).
  Qed.
  Lemma outer_ji : forall pi b Y, same Y ->
    loop_body j [For i li hi body pi] b Y = iter_loop (Z.to_nat (vhi - vli)) vli (fun a => Hji a b) Y.
  Proof.
    intros pi b Y HY. unfold loop_body. rewrite single, exec_For.
    rewrite (eval_bind_fresh li j _ Y eo_li nm_li), (env_only_eval li Y entry eo_li HY), E_li.
    rewrite (eval_bind_fresh hi j _ Y eo_hi nm_hi), (env_only_eval hi Y entry eo_hi HY), E_hi.
    cbn [bind as_int]. replace (vhi <? vli) with false by (symmetry; apply Z.ltb_ge; exact trip_i).
    rewrite inner_ji.
    destruct (iter_loop (Z.to_nat (vhi - vli)) vli (fun a => Hji a b) Y) as [Y'|] eqn:E; cbn [bind]; [|reflexivity].
    rewrite with_env_bind; [reflexivity|]. symmetry.
    exact (iter_env (fun a => Hji a b) (fun a => inst_ji_env a b) _ _ _ _ E).
  Qed.

  Definition reorder_contract : Prop :=
    forall a a' b b' st, vli <= a -> a < a' -> a' < vhi -> vlj <= b' -> b' < b -> b < vhj ->
      bind (Hij a' b' st) (Hij a b) = bind (Hij a b st) (Hij a' b').

  Theorem reorder_run : forall pi pj st',
    reorder_contract ->
    forallb (okbind (okbS j)) body = true -> forallb (nm_s j (fun _ => false)) body = true ->
    exec (For i li hi [For j lj hj body pj] pi) entry = Ok st' ->
    exec (For j lj hj [For i li hi body pi] pj) entry = Ok st'.
  Proof.
    intros pi pj st' Hc Hok Hnm Hrun. rewrite exec_For in *. rewrite E_li, E_hi in Hrun. rewrite E_lj, E_hj.
    cbn [bind as_int] in *.
    replace (vhi <? vli) with false in Hrun by (symmetry; apply Z.ltb_ge; exact trip_i).
    replace (vhj <? vlj) with false by (symmetry; apply Z.ltb_ge; exact trip_j).
    set (ni := Z.to_nat (vhi - vli)) in *. set (nj := Z.to_nat (vhj - vlj)) in *.
    (* the original nest is the row-major grid *)
    rewrite (iter_loop_ext_env (s_env entry) _ (fun a Y => iter_loop nj vlj (Hij a) Y)) in Hrun.
    2:{ intros k Y HY. apply outer_ij, HY. }
    2:{ intros k Y Y' HY H. rewrite (iter_env (Hij k) (inst_ij_env k) _ _ _ _ H). exact HY. }
    2:{ reflexivity. }
    (* transpose the grid *)
    change (iter_loop ni vli (fun a Y => iter_loop nj vlj (Hij a) Y) entry) with (rows Hij vlj ni vli nj entry) in Hrun.
    rewrite (grid_swap Hij vli vhi vlj vhj Hc nj ltac:(subst nj; lia) ni vli entry ltac:(lia) ltac:(subst ni; lia)) in Hrun.
    unfold cols in Hrun.
    (* swap the binding order in every instance *)
    assert (Hcols : iter_loop nj vlj (fun b Y => iter_loop ni vli (fun a => Hji a b) Y) entry = Ok st').
    { revert Hrun. apply iter_loop_refines. intros b Y Y'. apply iter_loop_refines. intros a Y0 Y0'.
      apply inst_swap; assumption. }
    (* and that is the reordered nest *)
    rewrite (iter_loop_ext_env (s_env entry) _ (fun b Y => iter_loop ni vli (fun a => Hji a b) Y)).
    - exact Hcols.
    - intros k Y HY. apply outer_ji, HY.
    - intros k Y Y' HY H. rewrite (iter_env (fun a => Hji a k) (fun a => inst_ji_env a k) _ _ _ _ H). exact HY.
    - reflexivity.
  Qed.
End Assemble.

(** the rule, for one execution from a state in which the four bounds are defined and both trip counts are
    non-negative (the front end establishes hi >= lo for every loop) *)
Theorem rule_reorder_loops : forall i j body li hi lj hj pi pj st st' vli vhi vlj vhj,
  i <> j ->
  env_only li = true -> env_only hi = true -> env_only lj = true -> env_only hj = true ->
  mentions i lj = false -> mentions i hj = false -> mentions j li = false -> mentions j hi = false ->
  eval st li = Ok (VInt vli) -> eval st hi = Ok (VInt vhi) -> eval st lj = Ok (VInt vlj) -> eval st hj = Ok (VInt vhj) ->
  vli <= vhi -> vlj <= vhj ->
  reorder_contract i j body vli vhi vlj vhj ->
  forallb (okbind (okbS j)) body = true -> forallb (nm_s j (fun _ => false)) body = true ->
  exec_list [For i li hi [For j lj hj body pj] pi] st = Ok st' ->
  exec_list [For j lj hj [For i li hi body pi] pj] st = Ok st'.
Proof.
  intros. rewrite single in *. eapply reorder_run; eassumption.
Qed.

(** ** the whole-procedure rewrite, as the implementation performs it *)
From Core Require Import RewriteAt.

Definition reorder_f (i : sym) (s : stmt) : option stmt :=
  match s with
  | For i' li hi [For j lj hj body pj] pi =>
      if Pos.eqb i' i then Some (For j lj hj [For i' li hi body pi] pj) else None
  | _ => None
  end.

(** the decidable part of the side conditions *)
Definition reorder_syn_ok (i : sym) (s : stmt) : bool :=
  match s with
  | For i' li hi [For j lj hj body pj] pi =>
      negb (Pos.eqb i' j) && env_only li && env_only hi && env_only lj && env_only hj
      && negb (mentions i' lj) && negb (mentions i' hj) && negb (mentions j li) && negb (mentions j hi)
      && forallb (okbind (okbS j)) body && forallb (nm_s j (fun _ => false)) body
  | _ => false
  end.

(** the semantic part: what the implementation's checks establish (bounds of the inner loop are defined and ordered
    wherever the outer loop runs; flipped instances commute) *)
Definition reorder_sem_ok (s : stmt) : Prop :=
  match s with
  | For i' li hi [For j lj hj body pj] pi =>
      forall st vli vhi, eval st li = Ok (VInt vli) -> eval st hi = Ok (VInt vhi) -> vli <= vhi ->
        exists vlj vhj, eval st lj = Ok (VInt vlj) /\ eval st hj = Ok (VInt vhj) /\ vlj <= vhj /\
                        reorder_contract i' j body vli vhi vlj vhj
  | _ => True
  end.

Lemma reorder_f_sound : forall i s s',
  reorder_sem_ok s -> reorder_f i s = Some s' -> reorder_syn_ok i s = true -> refines [s] [s'].
Proof.
  intros i s s' Hsem Hf Hok.
  destruct s as [| | | | |i' li hi body0 pi| | |]; cbn [reorder_f] in Hf; try discriminate Hf.
  destruct body0 as [|[| | | | |j lj hj body pj| | |] [|? ?]]; try discriminate Hf.
  destruct (Pos.eqb i' i) eqn:E; [|discriminate Hf]. injection Hf as <-.
  cbn [reorder_syn_ok] in Hok.
  repeat (match goal with H : _ && _ = true |- _ => apply andb_true_iff in H; destruct H end).
  repeat (match goal with H : negb _ = true |- _ => apply negb_true_iff in H end).
  match goal with H : Pos.eqb i' j = false |- _ => apply Pos.eqb_neq in H end.
  intros st st' Hrun.
  assert (exists vli vhi, eval st li = Ok (VInt vli) /\ eval st hi = Ok (VInt vhi) /\ vli <= vhi) as [vli [vhi [Eli [Ehi Hle]]]].
  { rewrite single, exec_For in Hrun.
    destruct (eval st li) as [v1|]; cbn [bind] in Hrun; [|discriminate Hrun].
    destruct v1 as [z1| |]; cbn [as_int bind] in Hrun; try discriminate Hrun.
    destruct (eval st hi) as [v2|]; cbn [bind] in Hrun; [|discriminate Hrun].
    destruct v2 as [z2| |]; cbn [as_int bind] in Hrun; try discriminate Hrun.
    destruct (z2 <? z1) eqn:Elt; [discriminate Hrun|]. apply Z.ltb_ge in Elt.
    exists z1, z2. auto. }
  destruct (Hsem st vli vhi Eli Ehi Hle) as [vlj [vhj [Elj [Ehj [Hlej Hc]]]]].
  eapply rule_reorder_loops; eassumption.
Qed.

Definition reorder_proc (i : sym) : proc -> proc := rw_proc (reorder_f i).
Definition reorder_ok_proc (i : sym) : proc -> bool := ok_proc (reorder_f i) (reorder_syn_ok i).

Theorem reorder_proc_preserves : forall i p inp bufs cfg,
  (forall s s', reorder_f i s = Some s' -> reorder_sem_ok s) ->
  reorder_ok_proc i p = true -> run p inp = Done bufs cfg -> run (reorder_proc i p) inp = Done bufs cfg.
Proof.
  intros i p inp bufs cfg Hsem Hok. unfold reorder_proc, reorder_ok_proc in *.
  apply rw_proc_preserves with (ok := reorder_syn_ok i); [|exact Hok].
  intros s s' Hf Hs. eapply reorder_f_sound; [eapply Hsem; exact Hf|exact Hf|exact Hs].
Qed.
