(** * remove_loop (DoRemoveLoop): a loop whose body does not mention the iteration variable and is idempotent
    (Check_IsIdempotent: running it twice is running it once) is replaced by `if hi > lo: body`, or by the body
    itself when the implementation can prove hi > lo. *)
From Coq Require Import ZArith List Bool Lia.
From Core Require Import Syntax Sem Equiv Induction PartialEval PartialEvalSound Subst Rules FissionFuse DivideLoop RewriteAtL.
Import ListNotations.
Local Open Scope Z_scope.

(** substitution for a variable that does not occur *)
Section NoMention.
  Variable x : sym.
  Variable c : expr.
  Definition hidx (y : sym) : bool := Pos.eqb y x.

  Lemma pe_e_nomention : forall e, nm_e x hidx e = true -> pe_e x c e = e.
  Proof.
    induction e using expr_ind2; cbn [nm_e pe_e]; intro Hn; try reflexivity.
    - unfold hidx in Hn. apply negb_true_iff in Hn. rewrite Hn. reflexivity.
    - rewrite go_nm_e in Hn. apply andb_true_iff in Hn as [_ Hl]. rewrite go_map_e. f_equal.
      rewrite forallb_forall in Hl. induction H as [|a r Ha Hr IH]; [reflexivity|]. cbn [map].
      rewrite Ha, IH; auto; [intros z Hz; apply Hl; right; exact Hz | apply Hl; left; reflexivity].
    - rewrite IHe by exact Hn. reflexivity.
    - apply andb_true_iff in Hn as [N1 N2]. rewrite IHe1, IHe2 by assumption. reflexivity.
    - rewrite go_nm_e in Hn. rewrite go_map_e. f_equal.
      rewrite forallb_forall in Hn. induction H as [|a r Ha Hr IH]; [reflexivity|]. cbn [map].
      rewrite Ha, IH; auto; [intros z Hz; apply Hn; right; exact Hz | apply Hn; left; reflexivity].
    - rewrite go_nm_w in Hn. apply andb_true_iff in Hn as [_ Hl]. rewrite go_map_w. f_equal.
      rewrite forallb_forall in Hl. induction H as [|w r Hw Hr IH]; [reflexivity|]. cbn [map].
      rewrite IH by (intros z Hz; apply Hl; right; exact Hz).
      pose proof (Hl w (or_introl eq_refl)) as Hww.
      destruct w as [a|a b]; cbn [pe_w PW nm_w] in *; [rewrite Hw by exact Hww; reflexivity|].
      apply andb_true_iff in Hww as [A B]. destruct Hw as [Ha Hb]. rewrite Ha, Hb by assumption. reflexivity.
  Qed.

  Lemma pe_es_nomention : forall l, forallb (nm_e x hidx) l = true -> pe_es x c l = l.
  Proof.
    intros l H. unfold pe_es. induction l as [|a r IH]; [reflexivity|]. cbn [forallb map] in *.
    apply andb_true_iff in H as [H1 H2]. rewrite pe_e_nomention, IH by assumption. reflexivity.
  Qed.

  Lemma map_id_F : forall (g : stmt -> stmt) l, Forall (fun s => nm_s x hidx s = true -> g s = s) l ->
    forallb (nm_s x hidx) l = true -> map g l = l.
  Proof.
    intros g l H. induction H as [|s0 r0 Hs0 Hr0 IH0]; intro Hn; [reflexivity|]. cbn [map forallb] in *.
    apply andb_true_iff in Hn as [N1 N2]. rewrite Hs0, IH0 by assumption. reflexivity.
  Qed.

  Lemma pe_s_nomention : forall s, nm_s x hidx s = true -> pe_s x c s = s.
  Proof.
    induction s using stmt_ind2; cbn [nm_s pe_s]; intro Hn; try reflexivity.
    - apply andb_true_iff in Hn as [Hn Hr]. apply andb_true_iff in Hn as [_ Hi].
      rewrite pe_es_nomention, pe_e_nomention by assumption. reflexivity.
    - apply andb_true_iff in Hn as [Hn Hr]. apply andb_true_iff in Hn as [_ Hi].
      rewrite pe_es_nomention, pe_e_nomention by assumption. reflexivity.
    - rewrite pe_e_nomention by assumption. reflexivity.
    - rewrite !go_nm_s in Hn. apply andb_true_iff in Hn as [Hn Nb]. apply andb_true_iff in Hn as [Ne Na].
      rewrite !go_map_s, pe_e_nomention by assumption. f_equal; apply map_id_F; assumption.
    - rewrite go_nm_s in Hn. apply andb_true_iff in Hn as [Hn Nb]. apply andb_true_iff in Hn as [Nlo Nhi].
      rewrite go_map_s, !pe_e_nomention by assumption. f_equal. apply map_id_F; assumption.
    - rewrite pe_es_nomention by assumption. reflexivity.
    - rewrite pe_es_nomention by assumption. reflexivity.
    - rewrite pe_e_nomention by assumption. reflexivity.
  Qed.

  Lemma pe_ss_nomention : forall l, forallb (nm_s x hidx) l = true -> pe_ss x c l = l.
  Proof.
    intros l H. unfold pe_ss. induction l as [|a r IH]; [reflexivity|]. cbn [forallb map] in *.
    apply andb_true_iff in H as [H1 H2]. rewrite pe_s_nomention, IH by assumption. reflexivity.
  Qed.
End NoMention.

(** one iteration of a loop whose body does not mention the iterator is the body, run in its own scope *)
Section RemoveLoop.
  Variable i : sym.
  Definition okbD (y : sym) : bool := negb (Pos.eqb y i).

  Fixpoint TD (e : env) : env :=
    match e with
    | [] => []
    | (y, b) :: r => if Pos.eqb y i then r else (y, b) :: TD r
    end.
  Lemma TD_lookup : forall e y, y <> i -> hidx i y = false -> lookup y (TD e) = lookup y e.
  Proof.
    induction e as [|[z b] r IH]; intros y Hy Hh; [reflexivity|]. cbn [TD].
    destruct (Pos.eqb z i) eqn:E.
    - apply Pos.eqb_eq in E. subst z. cbn [lookup]. apply Pos.eqb_neq in Hy. rewrite Hy. reflexivity.
    - cbn [lookup]. destruct (Pos.eqb y z); [reflexivity|]. apply IH; assumption.
  Qed.
  Lemma TD_cons : forall y b e, okbD y = true -> TD ((y, b) :: e) = (y, b) :: TD e.
  Proof. intros y b e H. unfold okbD in H. apply negb_true_iff in H. cbn [TD]. rewrite H. reflexivity. Qed.
  Lemma okbD_i : okbD i = false.
  Proof. unfold okbD. rewrite Pos.eqb_refl. reflexivity. Qed.

  Lemma iteration_scoped : forall body k st s,
    forallb (okbind okbD) body = true -> forallb (nm_s i (hidx i)) body = true ->
    loop_body i body k st = Ok s -> scoped body st = Ok s.
  Proof.
    intros body k st s Hok Hnm Hrun. unfold loop_body, scoped in *.
    pose proof (body_sub i (Int k) (VInt k) okbD TD (fun _ => True) (hidx i) okbD_i
                  (fun _ _ => eq_refl) (fun _ _ => eq_refl) TD_lookup TD_cons (fun _ _ _ _ _ => I)
                  body (bind_var i (BVal (VInt k)) st) Hok Hnm) as Hsim.
    assert (Hinv : inv i (VInt k) TD (fun _ => True) (bind_var i (BVal (VInt k)) st)).
    { split; [cbn [bind_var s_env lookup]; rewrite Pos.eqb_refl; reflexivity|exact I]. }
    specialize (Hsim Hinv). rewrite (pe_ss_nomention i (Int k) body Hnm) in Hsim.
    assert (Ht : tst TD (bind_var i (BVal (VInt k)) st) = st).
    { unfold tst, with_env, bind_var. cbn [s_env s_heap s_next s_cfg TD]. rewrite Pos.eqb_refl. destruct st; reflexivity. }
    rewrite Ht in Hsim.
    destruct (exec_list body (bind_var i (BVal (VInt k)) st)) as [s1|] eqn:E1; cbn [bind] in Hrun; [|discriminate Hrun].
    destruct (exec_list body st) as [s2|] eqn:E2; cbn [rsim] in Hsim; [|contradiction].
    destruct Hsim as [-> _]. cbn [bind]. rewrite <- Hrun. reflexivity.
  Qed.

  Definition idempotent (body : list stmt) : Prop :=
    forall st, bind (scoped body st) (scoped body) = scoped body st.

  Lemma iter_idem : forall body, idempotent body ->
    forall n k st, iter_loop (S n) k (fun _ => scoped body) st = scoped body st.
  Proof.
    intros body Hi. induction n as [|n IH]; intros k st.
    - cbn [iter_loop]. apply bind_ret.
    - change (iter_loop (S (S n)) k (fun _ => scoped body) st)
        with (bind (scoped body st) (iter_loop (S n) (k + 1) (fun _ => scoped body))).
      rewrite (bind_ext _ _ (scoped body st) _ (scoped body)) by (intro s; apply IH). apply Hi.
  Qed.

  Theorem rule_remove_loop_guard : forall lo hi body par,
    forallb (okbind okbD) body = true -> forallb (nm_s i (hidx i)) body = true -> idempotent body ->
    refines [For i lo hi body par] [If (BinOp OGt hi lo) body []].
  Proof.
    intros lo hi body par Hok Hnm Hid st st' H. rewrite single in *. rewrite exec_For in H. rewrite exec_If.
    destruct (eval st lo) as [vl|] eqn:El; cbn [bind] in H; [|discriminate H].
    destruct vl as [l| |]; cbn [as_int bind] in H; try discriminate H.
    destruct (eval st hi) as [vh|] eqn:Eh; cbn [bind] in H; [|discriminate H].
    destruct vh as [h| |]; cbn [as_int bind] in H; try discriminate H.
    destruct (h <? l) eqn:Ehl; [discriminate H|]. apply Z.ltb_ge in Ehl.
    cbn [eval]. rewrite Eh, El. cbn [bind eval_binop as_bool].
    destruct (l <? h) eqn:Elh.
    - apply Z.ltb_lt in Elh.
      assert (Hn : exists m, Z.to_nat (h - l) = S m) by (exists (Z.to_nat (h - l) - 1)%nat; lia).
      destruct Hn as [m Hm]. rewrite Hm in H.
      apply (iter_loop_refines _ _ _ (fun _ => scoped body)) in H.
      + rewrite (iter_idem body Hid) in H. exact H.
      + intros k s s' Hk. eapply iteration_scoped; eassumption.
    - apply Z.ltb_ge in Elh. replace (h - l) with 0 in H by lia. cbn [Z.to_nat iter_loop] in H.
      injection H as <-. unfold scoped. cbn [exec_list bind]. rewrite with_env_same. reflexivity.
  Qed.

  Theorem rule_remove_loop : forall lo hi body par,
    forallb (okbind okbD) body = true -> forallb (nm_s i (hidx i)) body = true -> idempotent body ->
    forallb nodecl body = true ->
    (forall st l h, eval st lo = Ok (VInt l) -> eval st hi = Ok (VInt h) -> l < h) ->      (* Check_CompareExprs hi > lo *)
    refines [For i lo hi body par] body.
  Proof.
    intros lo hi body par Hok Hnm Hid Hnd Hpos st st' H.
    pose proof (rule_remove_loop_guard lo hi body par Hok Hnm Hid st st' H) as Hg.
    rewrite single, exec_If in Hg. rewrite single, exec_For in H.
    destruct (eval st lo) as [vl|] eqn:El; cbn [bind] in H; [|discriminate H].
    destruct vl as [l| |]; cbn [as_int bind] in H; try discriminate H.
    destruct (eval st hi) as [vh|] eqn:Eh; cbn [bind] in H; [|discriminate H].
    destruct vh as [h| |]; cbn [as_int bind] in H; try discriminate H.
    pose proof (Hpos st l h El Eh) as Hlt.
    cbn [eval] in Hg. rewrite Eh, El in Hg. cbn [bind eval_binop as_bool] in Hg.
    replace (l <? h) with true in Hg by (symmetry; apply Z.ltb_lt; exact Hlt).
    unfold scoped in Hg. destruct (exec_list body st) as [s1|] eqn:E1; cbn [bind] in Hg; [|discriminate Hg].
    injection Hg as <-. rewrite <- (exec_list_env_nodecl _ _ _ Hnd E1), with_env_same. reflexivity.
  Qed.
End RemoveLoop.

(** ** the whole-procedure rewrites *)
Definition remove_guard_f (i : sym) (s : stmt) : option (list stmt) :=
  match s with
  | For j lo hi body par => if Pos.eqb j i then Some [If (BinOp OGt hi lo) body []] else None
  | _ => None
  end.
Definition remove_splice_f (i : sym) (s : stmt) : option (list stmt) :=
  match s with
  | For j lo hi body par => if Pos.eqb j i then Some body else None
  | _ => None
  end.
Definition remove_syn_ok (i : sym) (s : stmt) : bool :=
  match s with
  | For j lo hi body par => forallb (okbind (okbD i)) body && forallb (nm_s i (hidx i)) body
  | _ => false
  end.
Definition remove_splice_syn_ok (i : sym) (s : stmt) : bool :=
  match s with
  | For j lo hi body par => forallb (okbind (okbD i)) body && forallb (nm_s i (hidx i)) body && forallb nodecl body
  | _ => false
  end.
(** what the implementation's checks establish for the matched loop *)
Definition remove_sem_ok (splice : bool) (s : stmt) : Prop :=
  match s with
  | For j lo hi body par =>
      idempotent body /\
      (splice = true -> forall st l h, eval st lo = Ok (VInt l) -> eval st hi = Ok (VInt h) -> l < h)
  | _ => True
  end.

Definition remove_guard_proc (i : sym) : proc -> proc := rwl_proc (remove_guard_f i).
Definition remove_splice_proc (i : sym) : proc -> proc := rwl_proc (remove_splice_f i).
Definition remove_guard_ok_proc (i : sym) : proc -> bool := okl_proc (remove_guard_f i) (remove_syn_ok i).
Definition remove_splice_ok_proc (i : sym) : proc -> bool := okl_proc (remove_splice_f i) (remove_splice_syn_ok i).

Theorem remove_guard_proc_preserves : forall i p inp bufs cfg,
  (forall s l, remove_guard_f i s = Some l -> remove_sem_ok false s) ->
  remove_guard_ok_proc i p = true -> run p inp = Done bufs cfg -> run (remove_guard_proc i p) inp = Done bufs cfg.
Proof.
  intros i p inp bufs cfg Hsem Hok. unfold remove_guard_proc, remove_guard_ok_proc in *.
  apply rwl_proc_preserves with (ok := remove_syn_ok i); [|exact Hok].
  intros s l Hf Hs. pose proof (Hsem s l Hf) as Hse.
  destruct s; cbn [remove_guard_f] in Hf; try discriminate Hf.
  destruct (Pos.eqb i0 i) eqn:E; [|discriminate Hf]. apply Pos.eqb_eq in E. subst i0. injection Hf as <-.
  cbn [remove_syn_ok] in Hs. apply andb_true_iff in Hs as [H1 H2]. destruct Hse as [Hid _].
  apply rule_remove_loop_guard; assumption.
Qed.

Theorem remove_splice_proc_preserves : forall i p inp bufs cfg,
  (forall s l, remove_splice_f i s = Some l -> remove_sem_ok true s) ->
  remove_splice_ok_proc i p = true -> run p inp = Done bufs cfg -> run (remove_splice_proc i p) inp = Done bufs cfg.
Proof.
  intros i p inp bufs cfg Hsem Hok. unfold remove_splice_proc, remove_splice_ok_proc in *.
  apply rwl_proc_preserves with (ok := remove_splice_syn_ok i); [|exact Hok].
  intros s l Hf Hs. pose proof (Hsem s l Hf) as Hse.
  destruct s; cbn [remove_splice_f] in Hf; try discriminate Hf.
  destruct (Pos.eqb i0 i) eqn:E; [|discriminate Hf]. apply Pos.eqb_eq in E. subst i0. injection Hf as <-.
  cbn [remove_splice_syn_ok] in Hs. apply andb_true_iff in Hs as [Hs H3]. apply andb_true_iff in Hs as [H1 H2].
  destruct Hse as [Hid Hpos]. exact (rule_remove_loop i lo hi body par H1 H2 Hid H3 (Hpos eq_refl)).
Qed.
