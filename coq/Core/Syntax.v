(** * LoopIR: deep embedding mirroring src/exo/core/LoopIR.py (module LoopIR), constructor by constructor.

    Differences, all deliberate and harmless for semantics:
    - [srcinfo], memory annotations and precisions are erased (the sequential real-number
      semantics does not read them; property C19 states exactly this);
    - a [Sym] is its unique id (a [positive]); the printed name is irrelevant to execution;
    - a configuration field (config, field) is a [positive] chosen by the exporter;
    - types are kept only where execution needs them: the kind of a constant and the shape
      of allocations/arguments. *)
From Coq Require Import ZArith List QArith Qcanon Bool.
Import ListNotations.

Definition sym := positive.
Definition cfgfield := positive.

Inductive binop := OAdd | OSub | OMul | ODiv | OMod | OAnd | OOr | OLt | OGt | OLe | OGe | OEq.

Inductive extfn := XSin | XRelu | XSelect | XExpf | XFmaxf | XSigmoid | XSqrt | XOther.

Inductive expr :=
| Var (x : sym)                          (* Read(x, []) of an index/size/bool/stride-typed variable *)
| Int (z : Z)                            (* Const of type int/index/size *)
| BoolC (b : bool)                       (* Const of type bool *)
| Real (q : Qc)                          (* Const of a numeric type *)
| Read (x : sym) (idx : list expr)       (* Read of a numeric buffer/scalar (also whole-tensor call args) *)
| USub (e : expr)
| BinOp (op : binop) (a b : expr)
| Extern (f : extfn) (args : list expr)
| WindowE (x : sym) (acc : list wacc)
| Stride (x : sym) (d : nat)
| ReadCfg (c : cfgfield)
with wacc :=
| Point (e : expr)
| Interval (lo hi : expr).

Inductive argkind :=
| KSize | KIndex | KBool | KStride       (* control arguments *)
| KScalar                                 (* numeric scalar, passed by reference *)
| KTensor (shape : list expr) (is_window : bool).

Inductive stmt :=
| Assign (x : sym) (idx : list expr) (rhs : expr)
| Reduce (x : sym) (idx : list expr) (rhs : expr)
| WriteCfg (c : cfgfield) (rhs : expr)
| Pass
| If (c : expr) (body orelse : list stmt)
| For (i : sym) (lo hi : expr) (body : list stmt) (par : bool)
| Alloc (x : sym) (shape : list expr)     (* scalar: shape = [] *)
| Call (f : proc) (args : list expr)
| WindowS (x : sym) (rhs : expr)
with proc :=
| Proc (args : list (sym * argkind)) (preds : list expr) (body : list stmt).

Definition proc_args (p : proc) := match p with Proc a _ _ => a end.
Definition proc_preds (p : proc) := match p with Proc _ p _ => p end.
Definition proc_body (p : proc) := match p with Proc _ _ b => b end.
