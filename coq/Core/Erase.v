(** * The loop mode (seq/par) and the window-ness of tensor arguments are invisible to the sequential semantics:
    parallelize_loop and set_window change nothing that [run] reads (property C19). *)
From Coq Require Import ZArith List Bool.
From Core Require Import Syntax Sem Equiv Induction.
Import ListNotations.

Definition er_kind (k : argkind) : argkind :=
  match k with KTensor shape _ => KTensor shape false | _ => k end.
Definition er_formals (fs : list (sym * argkind)) := map (fun fk => (fst fk, er_kind (snd fk))) fs.

Fixpoint er_s (s : stmt) {struct s} : stmt :=
  match s with
  | If c a b =>
      If c ((fix go (l : list stmt) : list stmt := match l with [] => [] | x :: r => er_s x :: go r end) a)
           ((fix go (l : list stmt) : list stmt := match l with [] => [] | x :: r => er_s x :: go r end) b)
  | For i lo hi a _ =>
      For i lo hi ((fix go (l : list stmt) : list stmt := match l with [] => [] | x :: r => er_s x :: go r end) a) false
  | Call (Proc formals preds body) args =>
      Call (Proc (er_formals formals) preds
                 ((fix go (l : list stmt) : list stmt := match l with [] => [] | x :: r => er_s x :: go r end) body)) args
  | _ => s
  end.
Definition er_ss (l : list stmt) : list stmt := map er_s l.
Definition er_proc (p : proc) : proc :=
  match p with Proc formals preds body => Proc (er_formals formals) preds (er_ss body) end.

Lemma ego : forall l,
  (fix go (l : list stmt) : list stmt := match l with [] => [] | x :: r => er_s x :: go r end) l = er_ss l.
Proof. induction l as [|x r IH]; [reflexivity|]. unfold er_ss in *. cbn [map]. rewrite <- IH. reflexivity. Qed.

Lemma bind_args_er : forall fs bs st, bind_args (er_formals fs) bs st = bind_args fs bs st.
Proof.
  induction fs as [|[y k] fs IH]; intros bs st; destruct bs as [|b bs]; cbn [er_formals map fst snd bind_args]; try reflexivity.
  fold (er_formals fs). destruct k, b as [[z|bb|d]|w]; cbn [er_kind]; try reflexivity.
  - destruct (_ <? _)%Z; [apply IH|reflexivity].
  - apply IH.
  - apply IH.
  - apply IH.
  - destruct (vdims w); [apply IH|reflexivity].
  - destruct (eval_ints st shape) as [sh|]; cbn [bind]; [|reflexivity]. destruct (all_pos sh); [|reflexivity].
    destruct (list_eq_dec _ _ _); [apply IH|reflexivity].
Qed.

Lemma eval_actuals_er : forall fs args st, eval_actuals st (er_formals fs) args = eval_actuals st fs args.
Proof.
  induction fs as [|[y k] fs IH]; intros args st; destruct args as [|e er]; cbn [er_formals map fst snd eval_actuals]; try reflexivity.
  fold (er_formals fs). rewrite IH. destruct k; reflexivity.
Qed.

Lemma exec_list_ext : forall l l', Forall2 (fun s s' => forall st, exec s st = exec s' st) l l' ->
  forall st, exec_list l st = exec_list l' st.
Proof.
  intros l l' H. induction H as [|s s' r r' Hs Hr IH]; intro st; cbn [exec_list]; [reflexivity|].
  rewrite Hs. destruct (exec s' st); cbn [bind]; auto.
Qed.

Lemma er_ss_ext : forall l, Forall (fun s => forall st, exec s st = exec (er_s s) st) l ->
  forall st, exec_list l st = exec_list (er_ss l) st.
Proof.
  intros l H. apply exec_list_ext. induction H as [|s r Hs Hr IH]; [constructor|]. cbn [er_ss map]. constructor; assumption.
Qed.

Theorem exec_er : forall s st, exec s st = exec (er_s s) st.
Proof.
  induction s using stmt_ind3; intro st; try reflexivity.
  - (* If *) cbn [er_s]. rewrite !ego, !exec_If.
    destruct (eval st c) as [v|]; cbn [bind]; [|reflexivity]. destruct (as_bool v) as [[]|]; cbn [bind]; [| |reflexivity]; unfold scoped.
    + rewrite (er_ss_ext a H). reflexivity.
    + rewrite (er_ss_ext b H0). reflexivity.
  - (* For *) cbn [er_s]. rewrite ego, !exec_For.
    destruct (eval st lo) as [vl|]; cbn [bind]; [|reflexivity]. destruct (as_int vl) as [l|]; cbn [bind]; [|reflexivity].
    destruct (eval st hi) as [vh|]; cbn [bind]; [|reflexivity]. destruct (as_int vh) as [h|]; cbn [bind]; [|reflexivity].
    destruct (_ <? _)%Z; [reflexivity|]. apply iter_loop_ext. intros k s0. unfold loop_body.
    rewrite (er_ss_ext a H). reflexivity.
  - (* Call *) cbn [er_s]. rewrite ego, !exec_Call, eval_actuals_er.
    destruct (eval_actuals st formals args) as [acts|]; cbn [bind]; [|reflexivity]. rewrite bind_args_er.
    destruct (bind_args formals acts (with_env [] st)) as [callee|]; cbn [bind]; [|reflexivity].
    destruct (check_preds callee preds); cbn [bind]; [|reflexivity].
    rewrite (er_ss_ext body H). reflexivity.
Qed.

Theorem run_er : forall p inp, run p inp = run (er_proc p) inp.
Proof.
  intros [formals preds body] inp. unfold run, er_proc.
  destruct (forallb inbuf_ok (in_args inp)); [|reflexivity].
  destruct (load_inputs (in_args inp) _) as [bs st1]. rewrite bind_args_er.
  destruct (bind_args formals bs st1) as [st2|]; [|reflexivity].
  destruct (check_preds st2 preds); [|reflexivity].
  rewrite (er_ss_ext body); [reflexivity|]. apply Forall_forall. intros s0 _. apply exec_er.
Qed.
