(** * Executable reference semantics of LoopIR (sequential, exact rational arithmetic).

    This interpreter is the *definition* all rewrite theorems talk about and, extracted to OCaml,
    the oracle of every failing-input search.  Design points (DESIGN.md 1.3):
    - data values are canonical rationals [Qc] (a field with Leibniz equality), "up to real-number
      algebra"; [None] is poison: the content of a never-written cell or of x/0.  Poison propagates
      through data arithmetic and can be stored, but may not reach control (an index or a guard).
    - every tensor-like variable (argument, allocation, window, by-reference scalar) is a [view]
      (block, offset, list of (extent, stride)); windows alias, scalars are 0-dimensional views;
    - [exec] is total; every way an execution can go wrong is a distinct [err]. *)
From Coq Require Import ZArith List QArith Qcanon Bool.
From Core Require Import Syntax.
Import ListNotations.
Local Open Scope Z_scope.

Inductive err :=
| OOB | BadTrip | BadSize | AssertFail | ShapeMismatch | TypeErr | Unbound | DivZero | Unsupported | BadArity.

Inductive result (A : Type) := Ok (a : A) | Err (e : err).
Arguments Ok {A} a.
Arguments Err {A} e.

Definition bind {A B} (r : result A) (f : A -> result B) : result B :=
  match r with Ok a => f a | Err e => Err e end.
Notation "'do' x <- r ; k" := (bind r (fun x => k)) (at level 200, x pattern, r at level 100, k at level 200).

Definition dval := option Qc.

Inductive value := VInt (z : Z) | VBool (b : bool) | VData (d : dval).

Record view := mkView { vloc : positive; voff : Z; vdims : list (Z * Z) }.

Inductive binding := BVal (v : value) | BView (w : view).

Definition env := list (sym * binding).
Definition heap := list (positive * list dval).
Definition cfgst := list (cfgfield * value).

Record state := mkState { s_env : env; s_heap : heap; s_next : positive; s_cfg : cfgst }.

Fixpoint lookup {A} (k : positive) (l : list (positive * A)) : option A :=
  match l with
  | [] => None
  | (k', a) :: r => if Pos.eqb k k' then Some a else lookup k r
  end.

Fixpoint update {A} (k : positive) (a : A) (l : list (positive * A)) : list (positive * A) :=
  match l with
  | [] => [(k, a)]
  | (k', a') :: r => if Pos.eqb k k' then (k, a) :: r else (k', a') :: update k a r
  end.

Fixpoint set_nth {A} (n : nat) (a : A) (l : list A) : list A :=
  match l, n with
  | [], _ => []
  | _ :: r, O => a :: r
  | x :: r, S n' => x :: set_nth n' a r
  end.

(** ** data arithmetic (poison-propagating) *)
Definition dlift2 (f : Qc -> Qc -> Qc) (a b : dval) : dval :=
  match a, b with Some x, Some y => Some (f x y) | _, _ => None end.
Definition dadd := dlift2 Qcplus.
Definition dsub := dlift2 Qcminus.
Definition dmul := dlift2 Qcmult.
Definition ddiv (a b : dval) : dval :=
  match a, b with
  | Some x, Some y => if Qc_eq_dec y (Q2Qc 0) then None else Some (Qcdiv x y)
  | _, _ => None
  end.
Definition dneg (a : dval) : dval := match a with Some x => Some (Qcopp x) | None => None end.
Definition qlt (x y : Qc) : bool := match Qccompare x y with Lt => true | _ => false end.
Definition dmax (a b : dval) : dval :=
  match a, b with Some x, Some y => Some (if qlt x y then y else x) | _, _ => None end.

Definition eval_binop (op : binop) (a b : value) : result value :=
  match op, a, b with
  | OAdd, VInt x, VInt y => Ok (VInt (x + y))
  | OSub, VInt x, VInt y => Ok (VInt (x - y))
  | OMul, VInt x, VInt y => Ok (VInt (x * y))
  | ODiv, VInt x, VInt y => if 0 <? y then Ok (VInt (x / y)) else Err DivZero
  | OMod, VInt x, VInt y => if 0 <? y then Ok (VInt (x mod y)) else Err DivZero
  | OLt, VInt x, VInt y => Ok (VBool (x <? y))
  | OGt, VInt x, VInt y => Ok (VBool (y <? x))
  | OLe, VInt x, VInt y => Ok (VBool (x <=? y))
  | OGe, VInt x, VInt y => Ok (VBool (y <=? x))
  | OEq, VInt x, VInt y => Ok (VBool (x =? y))
  | OEq, VBool x, VBool y => Ok (VBool (Bool.eqb x y))
  | OAnd, VBool x, VBool y => Ok (VBool (x && y))
  | OOr, VBool x, VBool y => Ok (VBool (x || y))
  | OAdd, VData x, VData y => Ok (VData (dadd x y))
  | OSub, VData x, VData y => Ok (VData (dsub x y))
  | OMul, VData x, VData y => Ok (VData (dmul x y))
  | ODiv, VData x, VData y => Ok (VData (ddiv x y))
  | _, _, _ => Err TypeErr
  end.

Definition eval_extern (f : extfn) (args : list value) : result value :=
  match f, args with
  | XRelu, [VData x] => Ok (VData (dmax x (Some (Q2Qc 0))))
  | XFmaxf, [VData x; VData y] => Ok (VData (dmax x y))
  | XSelect, [VData (Some x); VData (Some v); VData y; VData z] =>
      Ok (VData (if qlt x v then y else z))
  | XSelect, [VData _; VData _; VData _; VData _] => Ok (VData None)
  | XRelu, _ | XFmaxf, _ | XSelect, _ => Err BadArity
  | _, _ => Err Unsupported
  end.

(** ** views *)
Fixpoint flat_index (dims : list (Z * Z)) (idx : list Z) (acc : Z) : result Z :=
  match dims, idx with
  | [], [] => Ok acc
  | (n, s) :: dr, i :: ir => if (0 <=? i) && (i <? n) then flat_index dr ir (acc + i * s) else Err OOB
  | _, _ => Err BadArity
  end.

Definition cell_read (h : heap) (w : view) (idx : list Z) : result dval :=
  do off <- flat_index (vdims w) idx (voff w);
  match lookup (vloc w) h with
  | None => Err Unbound
  | Some cells =>
      if (0 <=? off) && (off <? Z.of_nat (length cells))
      then Ok (nth (Z.to_nat off) cells None) else Err OOB
  end.

Definition cell_write (h : heap) (w : view) (idx : list Z) (d : dval) : result heap :=
  do off <- flat_index (vdims w) idx (voff w);
  match lookup (vloc w) h with
  | None => Err Unbound
  | Some cells =>
      if (0 <=? off) && (off <? Z.of_nat (length cells))
      then Ok (update (vloc w) (set_nth (Z.to_nat off) d cells) h) else Err OOB
  end.

(** window access list applied to a view: points fix a dimension, intervals keep it *)
Inductive wacc_v := PointV (i : Z) | IntervalV (lo hi : Z).

Fixpoint apply_window (dims : list (Z * Z)) (acc : list wacc_v) (off : Z)
  : result (Z * list (Z * Z)) :=
  match dims, acc with
  | [], [] => Ok (off, [])
  | (n, s) :: dr, PointV i :: ar =>
      if (0 <=? i) && (i <? n) then apply_window dr ar (off + i * s) else Err OOB
  | (n, s) :: dr, IntervalV lo hi :: ar =>
      if (0 <=? lo) && (lo <=? hi) && (hi <=? n) then
        do r <- apply_window dr ar (off + lo * s);
        let (off', dims') := r in Ok (off', (hi - lo, s) :: dims')
      else Err OOB
  | _, _ => Err BadArity
  end.

Fixpoint dense_dims (shape : list Z) : list (Z * Z) :=
  match shape with
  | [] => []
  | n :: r => (n, fold_right Z.mul 1 r) :: dense_dims r
  end.

(** ** expressions *)
Definition as_int (v : value) : result Z := match v with VInt z => Ok z | _ => Err TypeErr end.
Definition as_bool (v : value) : result bool := match v with VBool b => Ok b | _ => Err TypeErr end.
Definition as_data (v : value) : result dval := match v with VData d => Ok d | _ => Err TypeErr end.

Section Eval.
  Variable st : state.

  Definition get_view (x : sym) : result view :=
    match lookup x (s_env st) with
    | Some (BView w) => Ok w
    | Some (BVal _) => Err TypeErr
    | None => Err Unbound
    end.

  Fixpoint eval (e : expr) {struct e} : result value :=
    match e with
    | Var x => match lookup x (s_env st) with
               | Some (BVal v) => Ok v
               | Some (BView _) => Err TypeErr
               | None => Err Unbound
               end
    | Int z => Ok (VInt z)
    | BoolC b => Ok (VBool b)
    | Real q => Ok (VData (Some q))
    | Read x idx =>
        do w <- get_view x;
        do is <- (fix evs (l : list expr) : result (list Z) :=
                    match l with
                    | [] => Ok []
                    | a :: r => do v <- eval a; do z <- as_int v; do zs <- evs r; Ok (z :: zs)
                    end) idx;
        do d <- cell_read (s_heap st) w is;
        Ok (VData d)
    | USub a =>
        do v <- eval a;
        match v with
        | VInt z => Ok (VInt (- z))
        | VData d => Ok (VData (dneg d))
        | VBool _ => Err TypeErr
        end
    | BinOp op a b => do x <- eval a; do y <- eval b; eval_binop op x y
    | Extern f args =>
        do vs <- (fix evs (l : list expr) : result (list value) :=
                    match l with
                    | [] => Ok []
                    | a :: r => do v <- eval a; do vs <- evs r; Ok (v :: vs)
                    end) args;
        eval_extern f vs
    | WindowE _ _ => Err TypeErr
    | Stride x d =>
        do w <- get_view x;
        match nth_error (vdims w) d with
        | Some (_, s) => Ok (VInt s)
        | None => Err BadArity
        end
    | ReadCfg c => match lookup c (s_cfg st) with Some v => Ok v | None => Err Unbound end
    end.

  Fixpoint eval_ints (l : list expr) : result (list Z) :=
    match l with
    | [] => Ok []
    | a :: r => do v <- eval a; do z <- as_int v; do zs <- eval_ints r; Ok (z :: zs)
    end.

  Fixpoint eval_waccs (l : list wacc) : result (list wacc_v) :=
    match l with
    | [] => Ok []
    | Point e :: r => do v <- eval e; do z <- as_int v; do rs <- eval_waccs r; Ok (PointV z :: rs)
    | Interval lo hi :: r =>
        do v <- eval lo; do a <- as_int v; do v' <- eval hi; do b <- as_int v';
        do rs <- eval_waccs r; Ok (IntervalV a b :: rs)
    end.

  (** tensor-valued expressions: a whole buffer, a window, or a by-reference scalar cell *)
  Definition eval_view (e : expr) : result view :=
    match e with
    | Read x [] => get_view x
    | Read x idx =>
        do w <- get_view x;
        do is <- eval_ints idx;
        do off <- flat_index (vdims w) is (voff w);
        Ok (mkView (vloc w) off [])
    | WindowE x acc =>
        do w <- get_view x;
        do av <- eval_waccs acc;
        do r <- apply_window (vdims w) av (voff w);
        let (off, dims) := r in Ok (mkView (vloc w) off dims)
    | _ => Err TypeErr
    end.
End Eval.

(** ** statements *)
Definition bind_var (x : sym) (b : binding) (st : state) : state :=
  mkState ((x, b) :: s_env st) (s_heap st) (s_next st) (s_cfg st).
Definition with_env (e : env) (st : state) : state :=
  mkState e (s_heap st) (s_next st) (s_cfg st).
Definition with_heap (h : heap) (st : state) : state :=
  mkState (s_env st) h (s_next st) (s_cfg st).

Definition alloc_block (n : nat) (st : state) : positive * state :=
  (s_next st, mkState (s_env st) ((s_next st, repeat None n) :: s_heap st) (Pos.succ (s_next st)) (s_cfg st)).

Fixpoint all_pos (l : list Z) : bool :=
  match l with [] => true | z :: r => (0 <? z) && all_pos r end.

Fixpoint iter_loop (n : nat) (k : Z) (body : Z -> state -> result state) (st : state) : result state :=
  match n with
  | O => Ok st
  | S n' => do st' <- body k st; iter_loop n' (k + 1) body st'
  end.

(** binding the arguments of a call / of the top-level run.  [actual] gives, per formal, either a
    control value or a view, already evaluated in the caller. *)
Fixpoint bind_args (formals : list (sym * argkind)) (actuals : list binding) (callee : state)
  : result state :=
  match formals, actuals with
  | [], [] => Ok callee
  | (x, k) :: fr, a :: ar =>
      match k, a with
      | KSize, BVal (VInt z) => if 0 <? z then bind_args fr ar (bind_var x a callee) else Err BadSize
      | KIndex, BVal (VInt _) | KStride, BVal (VInt _) | KBool, BVal (VBool _) =>
          bind_args fr ar (bind_var x a callee)
      | KScalar, BView w =>
          match vdims w with [] => bind_args fr ar (bind_var x a callee) | _ => Err ShapeMismatch end
      | KTensor shape _, BView w =>
          do sh <- eval_ints callee shape;
          if all_pos sh then
            if list_eq_dec Z.eq_dec sh (map fst (vdims w))
            then bind_args fr ar (bind_var x a callee) else Err ShapeMismatch
          else Err BadSize
      | _, _ => Err TypeErr
      end
  | _, _ => Err BadArity
  end.

Fixpoint check_preds (st : state) (ps : list expr) : result unit :=
  match ps with
  | [] => Ok tt
  | p :: r => do v <- eval st p; do b <- as_bool v; if b then check_preds st r else Err AssertFail
  end.

Definition eval_actual (st : state) (k : argkind) (e : expr) : result binding :=
  match k with
  | KSize | KIndex | KBool | KStride => do v <- eval st e; Ok (BVal v)
  | KScalar | KTensor _ _ => do w <- eval_view st e; Ok (BView w)
  end.

Fixpoint eval_actuals (st : state) (formals : list (sym * argkind)) (es : list expr) : result (list binding) :=
  match formals, es with
  | [], [] => Ok []
  | (_, k) :: fr, e :: er => do b <- eval_actual st k e; do bs <- eval_actuals st fr er; Ok (b :: bs)
  | _, _ => Err BadArity
  end.

Fixpoint exec (s : stmt) (st : state) {struct s} : result state :=
  match s with
  | Assign x idx rhs =>
      do w <- get_view st x;
      do is <- eval_ints st idx;
      do v <- eval st rhs;
      do d <- as_data v;
      do h <- cell_write (s_heap st) w is d;
      Ok (with_heap h st)
  | Reduce x idx rhs =>
      do w <- get_view st x;
      do is <- eval_ints st idx;
      do v <- eval st rhs;
      do d <- as_data v;
      do old <- cell_read (s_heap st) w is;
      do h <- cell_write (s_heap st) w is (dadd old d);
      Ok (with_heap h st)
  | WriteCfg c rhs =>
      do v <- eval st rhs;
      Ok (mkState (s_env st) (s_heap st) (s_next st) (update c v (s_cfg st)))
  | Pass => Ok st
  | If c body orelse =>
      do v <- eval st c;
      do b <- as_bool v;
      do st' <- (fix go (l : list stmt) (st : state) : result state :=
                   match l with [] => Ok st | s' :: r => do st1 <- exec s' st; go r st1 end)
                (if b then body else orelse) st;
      Ok (with_env (s_env st) st')
  | For i lo hi body _ =>
      do vl <- eval st lo; do l <- as_int vl;
      do vh <- eval st hi; do h <- as_int vh;
      if h <? l then Err BadTrip else
      iter_loop (Z.to_nat (h - l)) l
        (fun k st0 =>
           do st' <- (fix go (l : list stmt) (st : state) : result state :=
                        match l with [] => Ok st | s' :: r => do st1 <- exec s' st; go r st1 end)
                     body (bind_var i (BVal (VInt k)) st0);
           Ok (with_env (s_env st0) st'))
        st
  | Alloc x shape =>
      do sh <- eval_ints st shape;
      if all_pos sh then
        let n := Z.to_nat (fold_right Z.mul 1 sh) in
        let (loc, st') := alloc_block n st in
        Ok (bind_var x (BView (mkView loc 0 (dense_dims sh))) st')
      else Err BadSize
  | WindowS x rhs =>
      do w <- eval_view st rhs;
      Ok (bind_var x (BView w) st)
  | Call f args =>
      match f with
      | Proc formals preds body =>
          do acts <- eval_actuals st formals args;
          do callee <- bind_args formals acts (with_env [] st);
          do _ <- check_preds callee preds;
          do st' <- (fix go (l : list stmt) (st : state) : result state :=
                       match l with [] => Ok st | s' :: r => do st1 <- exec s' st; go r st1 end)
                    body callee;
          Ok (with_env (s_env st) st')
      end
  end.

Fixpoint exec_list (l : list stmt) (st : state) : result state :=
  match l with [] => Ok st | s :: r => do st1 <- exec s st; exec_list r st1 end.

(** ** whole-procedure runs *)
(** an input gives, per formal: a control value, or the extents+strides+offset+contents of a buffer *)
Inductive inarg :=
| InVal (v : value)
| InBuf (off : Z) (dims : list (Z * Z)) (cells : list dval).

Record input := mkInput { in_args : list inarg; in_cfg : cfgst }.

Inductive outcome :=
| Invalid (e : err)          (* the input does not satisfy the signature / assertions *)
| Fails (e : err)            (* the body goes wrong on a valid input *)
| Done (bufs : list (list dval)) (cfg : cfgst).

Fixpoint load_inputs (ins : list inarg) (st : state) : list binding * state :=
  match ins with
  | [] => ([], st)
  | InVal v :: r => let (bs, st') := load_inputs r st in (BVal v :: bs, st')
  | InBuf off dims cells :: r =>
      let loc := s_next st in
      let st1 := mkState (s_env st) ((loc, cells) :: s_heap st) (Pos.succ loc) (s_cfg st) in
      let (bs, st') := load_inputs r st1 in
      (BView (mkView loc off dims) :: bs, st')
  end.

Fixpoint collect_bufs (bs : list binding) (h : heap) : list (list dval) :=
  match bs with
  | [] => []
  | BView w :: r => match lookup (vloc w) h with Some c => c | None => [] end :: collect_bufs r h
  | BVal _ :: r => collect_bufs r h
  end.

(** every cell a view can address lies inside its block (input validity for strided windows) *)
Fixpoint view_span (dims : list (Z * Z)) : option (Z * Z) :=   (* (min, max) offset reachable, relative *)
  match dims with
  | [] => Some (0, 0)
  | (n, s) :: r =>
      if 0 <? n then
        match view_span r with
        | Some (lo, hi) =>
            let e := (n - 1) * s in
            Some (lo + Z.min 0 e, hi + Z.max 0 e)
        | None => None
        end
      else None
  end.

Definition inbuf_ok (a : inarg) : bool :=
  match a with
  | InVal _ => true
  | InBuf off dims cells =>
      match view_span dims with
      | Some (lo, hi) => (0 <=? off + lo) && (off + hi <? Z.of_nat (length cells))
      | None => false
      end
  end.

Definition run (p : proc) (inp : input) : outcome :=
  match p with
  | Proc formals preds body =>
      if forallb inbuf_ok (in_args inp) then
        let st0 := mkState [] [] 1%positive (in_cfg inp) in
        let (bs, st1) := load_inputs (in_args inp) st0 in
        match bind_args formals bs st1 with
        | Err e => Invalid e
        | Ok st2 =>
            match check_preds st2 preds with
            | Err e => Invalid e
            | Ok _ =>
                match exec_list body st2 with
                | Err e => Fails e
                | Ok st3 => Done (collect_bufs bs (s_heap st3)) (s_cfg st3)
                end
            end
        end
      else Invalid OOB
  end.
