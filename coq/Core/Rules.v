(** * More local rewrite rules proved against [exec]: constant guards and loop unrolling. *)
From Coq Require Import ZArith List Bool Lia.
From Core Require Import Syntax Sem Equiv Induction PartialEval PartialEvalSound.
Import ListNotations.
Local Open Scope Z_scope.

(** statements that declare nothing at their own level (declarations nested inside loops, branches and
    callees are scoped and do not matter) *)
Definition nodecl (s : stmt) : bool :=
  match s with Alloc _ _ | WindowS _ _ => false | _ => true end.

Lemma exec_env_nodecl : forall s st st', nodecl s = true -> exec s st = Ok st' -> s_env st' = s_env st.
Proof.
  intros s st st' Hn. destruct s; try discriminate Hn.
  - (* Assign *) cbn [exec]. destruct (get_view st x) as [w|]; cbn [bind]; [|discriminate].
    destruct (eval_ints st idx) as [is|]; cbn [bind]; [|discriminate]. destruct (eval st rhs) as [v|]; cbn [bind]; [|discriminate].
    destruct (as_data v) as [d|]; cbn [bind]; [|discriminate]. destruct (cell_write _ _ _ _) as [h|]; cbn [bind]; [|discriminate].
    intro H; inversion H; reflexivity.
  - (* Reduce *) cbn [exec]. destruct (get_view st x) as [w|]; cbn [bind]; [|discriminate].
    destruct (eval_ints st idx) as [is|]; cbn [bind]; [|discriminate]. destruct (eval st rhs) as [v|]; cbn [bind]; [|discriminate].
    destruct (as_data v) as [d|]; cbn [bind]; [|discriminate]. destruct (cell_read _ _ _) as [old|]; cbn [bind]; [|discriminate].
    destruct (cell_write _ _ _ _) as [h|]; cbn [bind]; [|discriminate]. intro H; inversion H; reflexivity.
  - (* WriteCfg *) cbn [exec]. destruct (eval st rhs); cbn [bind]; [|discriminate]. intro H; inversion H; reflexivity.
  - (* Pass *) cbn. intro H; inversion H; reflexivity.
  - (* If *) rewrite exec_If. destruct (eval st c) as [v|]; cbn [bind]; [|discriminate]. destruct (as_bool v) as [bb|]; cbn [bind]; [|discriminate].
    unfold scoped. destruct (exec_list _ st); cbn [bind]; [|discriminate]. intro H; inversion H; reflexivity.
  - (* For *) rewrite exec_For. destruct (eval st lo) as [vl|]; cbn [bind]; [|discriminate]. destruct (as_int vl) as [l|]; cbn [bind]; [|discriminate].
    destruct (eval st hi) as [vh|]; cbn [bind]; [|discriminate]. destruct (as_int vh) as [h|]; cbn [bind]; [|discriminate].
    destruct (_ <? _); [discriminate|]. apply iter_loop_env.
  - (* Call *) destruct f as [formals preds body0]. rewrite exec_Call.
    destruct (eval_actuals _ _ _); cbn [bind]; [|discriminate]. destruct (bind_args _ _ _); cbn [bind]; [|discriminate].
    destruct (check_preds _ _); cbn [bind]; [|discriminate]. destruct (exec_list body0 _); cbn [bind]; [|discriminate].
    intro H; inversion H; reflexivity.
Qed.

Lemma exec_list_env_nodecl : forall l st st', forallb nodecl l = true -> exec_list l st = Ok st' -> s_env st' = s_env st.
Proof.
  induction l as [|s r IH]; intros st st' Hn; cbn [exec_list].
  - intro H; inversion H; reflexivity.
  - cbn [forallb] in Hn. apply andb_true_iff in Hn as [H1 H2].
    destruct (exec s st) as [s1|] eqn:E; cbn [bind]; [|discriminate].
    intro H. rewrite (IH _ _ H2 H). eapply exec_env_nodecl; eassumption.
Qed.

Lemma with_env_same : forall st, with_env (s_env st) st = st.
Proof. destruct st; reflexivity. Qed.

(** a guard that is constantly true / false (simplify's and eliminate_dead_code's branch removal):
    the taken branch, spliced into the enclosing block, does what the [If] did *)
Theorem rule_if_true : forall c a b st st',
  forallb nodecl a = true -> eval st c = Ok (VBool true) ->
  exec_list [If c a b] st = Ok st' -> exec_list a st = Ok st'.
Proof.
  intros c a b st st' Hn Hc. rewrite single, exec_If, Hc. cbn [bind as_bool]. unfold scoped.
  destruct (exec_list a st) as [s1|] eqn:E; cbn [bind]; [|discriminate].
  intro H; inversion H; subst. rewrite <- (exec_list_env_nodecl _ _ _ Hn E), with_env_same. reflexivity.
Qed.

Theorem rule_if_false : forall c a b st st',
  forallb nodecl b = true -> eval st c = Ok (VBool false) ->
  exec_list [If c a b] st = Ok st' -> exec_list b st = Ok st'.
Proof.
  intros c a b st st' Hn Hc. rewrite single, exec_If, Hc. cbn [bind as_bool]. unfold scoped.
  destruct (exec_list b st) as [s1|] eqn:E; cbn [bind]; [|discriminate].
  intro H; inversion H; subst. rewrite <- (exec_list_env_nodecl _ _ _ Hn E), with_env_same. reflexivity.
Qed.

(** ** unrolling: one iteration of a loop is the body with the iterator replaced by its value *)
Section Unroll.
  Variable i : sym.

  Lemma pe_nodecl : forall k l, forallb nodecl l = true -> forallb nodecl (pe_ss i (Int k) l) = true.
  Proof.
    induction l as [|s r IH]; [reflexivity|]. cbn [forallb pe_ss map]. fold (pe_ss i (Int k) r).
    intro H. apply andb_true_iff in H as [H1 H2]. rewrite (IH H2), andb_true_r.
    destruct s; try discriminate H1; reflexivity.
  Qed.

  (** the loop iterator does not occur as a key of the environment (Syms are unique) *)
  Definition fresh_in (e : env) : Prop := drop i e = e.

  Theorem iteration_is_substitution : forall body k st st',
    forallb (nobind i) body = true -> forallb nodecl body = true -> fresh_in (s_env st) ->
    loop_body i body k st = Ok st' ->
    exec_list (pe_ss i (Int k) body) st = Ok st'.
  Proof.
    intros body k st st' Hnb Hnd Hfr. unfold loop_body.
    assert (Hb : bound i (VInt k) (bind_var i (BVal (VInt k)) st)).
    { unfold bound. cbn [bind_var s_env lookup]. rewrite Pos.eqb_refl. reflexivity. }
    assert (Hd : dropst i (bind_var i (BVal (VInt k)) st) = st).
    { unfold dropst, with_env, bind_var. cbn [s_env s_heap s_next s_cfg drop]. rewrite Pos.eqb_refl.
      unfold fresh_in in Hfr. rewrite Hfr. destruct st; reflexivity. }
    pose proof (exec_list_sim i (Int k) (VInt k) body
                  (proj2 (Forall_forall _ _) (fun s _ => exec_sim i (Int k) (VInt k) (fun _ => eq_refl) (fun _ => eq_refl) s))
                  Hnb _ Hb) as Hs.
    rewrite Hd in Hs.
    destruct (exec_list body (bind_var i (BVal (VInt k)) st)) as [s1|] eqn:E1; cbn [bind]; [|discriminate].
    destruct (exec_list (pe_ss i (Int k) body) st) as [s2|] eqn:E2; cbn [rsim] in Hs; [|contradiction].
    destruct Hs as [-> _]. intro H; inversion H; subst. f_equal.
    (* the body declares nothing: both executions end in the environment they started from *)
    pose proof (exec_list_env_nodecl _ _ _ Hnd E1) as He1.
    unfold dropst, with_env. rewrite He1. cbn [bind_var s_env drop]. rewrite Pos.eqb_refl.
    unfold fresh_in in Hfr. rewrite Hfr. reflexivity.
  Qed.

  Fixpoint unrolled (body : list stmt) (lo : Z) (n : nat) : list stmt :=
    match n with
    | O => []
    | S n' => pe_ss i (Int lo) body ++ unrolled body (lo + 1) n'
    end.

  Lemma iter_unrolled : forall body n lo st st',
    forallb (nobind i) body = true -> forallb nodecl body = true -> fresh_in (s_env st) ->
    iter_loop n lo (loop_body i body) st = Ok st' -> exec_list (unrolled body lo n) st = Ok st'.
  Proof.
    induction n as [|n IH]; intros lo st st' Hnb Hnd Hfr; cbn [iter_loop unrolled exec_list]; [auto|].
    destruct (loop_body i body lo st) as [s1|] eqn:E; cbn [bind]; [|discriminate].
    intro H. rewrite exec_list_app, (iteration_is_substitution _ _ _ _ Hnb Hnd Hfr E). cbn [bind].
    apply IH; try assumption.
    unfold loop_body in E. destruct (exec_list body _); cbn [bind] in E; [|discriminate]. inversion E; subst.
    exact Hfr.
  Qed.

  (** unroll_loop on a loop with literal bounds whose body declares nothing at top level *)
  Theorem rule_unroll_loop : forall body lo n par st st',
    forallb (nobind i) body = true -> forallb nodecl body = true -> fresh_in (s_env st) ->
    exec_list [For i (Int lo) (Int (lo + Z.of_nat n)) body par] st = Ok st' ->
    exec_list (unrolled body lo n) st = Ok st'.
  Proof.
    intros body lo n par st st' Hnb Hnd Hfr. rewrite single, exec_For. cbn [eval bind as_int].
    destruct (lo + Z.of_nat n <? lo) eqn:E; [apply Z.ltb_lt in E; lia|].
    replace (Z.to_nat (lo + Z.of_nat n - lo)) with n by lia. apply iter_unrolled; assumption.
  Qed.
End Unroll.

(** ** add_assertion: a further assertion only narrows the admissible inputs *)
Lemma check_preds_app : forall st a b,
  check_preds st (a ++ b) = (do _ <- check_preds st a; check_preds st b).
Proof.
  induction a as [|p r IH]; intro b; cbn [app check_preds bind]; [reflexivity|].
  destruct (eval st p) as [v|]; cbn [bind]; [|reflexivity].
  destruct (as_bool v) as [[]|]; cbn [bind]; [apply IH|reflexivity|reflexivity].
Qed.

Theorem rule_add_assertion : forall formals preds e body inp,
  match run (Proc formals (preds ++ [e]) body) inp with
  | Done bufs cfg => run (Proc formals preds body) inp = Done bufs cfg
  | Fails err => run (Proc formals preds body) inp = Fails err
  | Invalid _ => True
  end.
Proof.
  intros. unfold run.
  destruct (forallb inbuf_ok (in_args inp)); [|exact I].
  destruct (load_inputs (in_args inp) _) as [bs st1].
  destruct (bind_args formals bs st1) as [st2|]; [|exact I].
  rewrite check_preds_app.
  destruct (check_preds st2 preds) as [[]|]; cbn [bind]; [|exact I].
  destruct (check_preds st2 [e]); [|exact I].
  destruct (exec_list body st2); reflexivity.
Qed.

(** ** lift_scope: an [if] whose guard depends only on variables other than the loop iterator can be lifted
    out of the loop.  The guard must be [env_only]: a guard that reads configuration state written by the body
    is exactly the case in which the implementation's rewrite is wrong (known finding C01-lift_scope-config-guard). *)
Fixpoint mentions (i : sym) (e : expr) : bool :=
  match e with
  | Var y => Pos.eqb y i
  | USub a => mentions i a
  | BinOp _ a b => mentions i a || mentions i b
  | _ => false
  end.

Lemma iter_loop_noop : forall n k f st, (forall k st, f k st = Ok st) -> iter_loop n k f st = Ok st.
Proof. induction n as [|n IH]; intros; cbn [iter_loop]; [reflexivity|]. rewrite H. cbn [bind]. apply IH, H. Qed.

Lemma eval_bind_fresh : forall e i bd st, env_only e = true -> mentions i e = false ->
  eval (bind_var i bd st) e = eval st e.
Proof.
  induction e; intros i bd st He Hm; cbn [env_only mentions] in *; try discriminate He; cbn [eval].
  - cbn [bind_var s_env lookup]. rewrite Hm. reflexivity.
  - reflexivity.
  - reflexivity.
  - rewrite (IHe i bd st He Hm). reflexivity.
  - apply andb_true_iff in He as [H1 H2]. apply orb_false_iff in Hm as [M1 M2].
    rewrite (IHe1 i bd st H1 M1), (IHe2 i bd st H2 M2). reflexivity.
Qed.

Lemma iter_loop_ext_env : forall E f g,
  (forall k s0, s_env s0 = E -> f k s0 = g k s0) ->
  (forall k s0 s1, s_env s0 = E -> g k s0 = Ok s1 -> s_env s1 = E) ->
  forall n k st, s_env st = E -> iter_loop n k f st = iter_loop n k g st.
Proof.
  intros E f g Hfg Hinv. induction n as [|n IH]; intros k st Hs; cbn [iter_loop]; [reflexivity|].
  rewrite (Hfg k st Hs). destruct (g k st) as [s1|] eqn:Eg; cbn [bind]; [|reflexivity].
  apply IH. eapply Hinv; eassumption.
Qed.

Theorem rule_lift_if_out_of_for : forall i lo hi c a par st st' bc,
  env_only c = true -> mentions i c = false -> eval st c = Ok (VBool bc) ->
  exec_list [For i lo hi [If c a []] par] st = Ok st' ->
  exec_list [If c [For i lo hi a par] []] st = Ok st'.
Proof.
  intros i lo hi c a par st st' bc He Hm Ec. rewrite !single, exec_For, exec_If, Ec. cbn [bind as_bool].
  destruct (eval st lo) as [vl|] eqn:El; cbn [bind]; [|discriminate].
  destruct (as_int vl) as [l|] eqn:Al; cbn [bind]; [|discriminate].
  destruct (eval st hi) as [vh|] eqn:Eh; cbn [bind]; [|discriminate].
  destruct (as_int vh) as [h|] eqn:Ah; cbn [bind]; [|discriminate].
  destruct (h <? l) eqn:Hhl; [discriminate|].
  (* the guard has the same value in every iteration *)
  assert (Hc : forall k s0, s_env s0 = s_env st -> eval (bind_var i (BVal (VInt k)) s0) c = Ok (VBool bc)).
  { intros k s0 Hs. rewrite (eval_bind_fresh c i _ s0 He Hm), <- Ec. apply env_only_eval; assumption. }
  destruct bc.
  - (* guard true: every iteration runs the body *)
    unfold scoped. rewrite single, exec_For, El, Eh. cbn [bind]. rewrite Al, Ah. cbn [bind]. rewrite Hhl.
    rewrite (iter_loop_ext_env (s_env st) (loop_body i [If c a []]) (loop_body i a)).
    + intro H. rewrite H. cbn [bind]. rewrite <- (iter_loop_env _ _ _ _ _ _ H), with_env_same. reflexivity.
    + intros k s0 Hs. unfold loop_body. rewrite single, exec_If, (Hc k s0 Hs). cbn [bind as_bool]. unfold scoped.
      destruct (exec_list a _); cbn [bind]; reflexivity.
    + intros k s0 s1 Hs. unfold loop_body. destruct (exec_list a _); cbn [bind]; [|discriminate].
      intro H; inversion H; subst. exact Hs.
    + reflexivity.
  - (* guard false: nothing happens *)
    rewrite (iter_loop_ext_env (s_env st) (loop_body i [If c a []]) (fun _ s0 => Ok s0)).
    + rewrite iter_loop_noop by reflexivity. intro H; inversion H; subst. unfold scoped. cbn. rewrite with_env_same. reflexivity.
    + intros k s0 Hs. unfold loop_body. rewrite single, exec_If, (Hc k s0 Hs). cbn [bind as_bool]. unfold scoped. cbn.
      destruct s0; reflexivity.
    + intros k s0 s1 Hs H; inversion H; subst; exact Hs.
    + reflexivity.
Qed.
