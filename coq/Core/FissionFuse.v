(** * fission / fuse (DoFissionAfterSimple, DoFuseLoop): splitting one loop over A;B into a loop over A
    followed by a loop over B, and back.

    The implementation discharges with its SMT-backed effect check (Check_FissionLoop / the fuse check) that
    an instance of B at iteration k commutes with an instance of A at every later iteration k' > k.  That
    contract, stated on the reference semantics, is the hypothesis here (exactly as C01_reorder_stmts states
    the contract of Check_ReorderStmts); the adequacy of the Commutes predicate for it is the subject of
    Props_C01preds (engine Par).  Under it the two programs are equal as state transformers, including
    failures, so both fission and fuse follow. *)
From Coq Require Import ZArith List Bool Lia.
From Core Require Import Syntax Sem Equiv Rules.
Import ListNotations.
Local Open Scope Z_scope.

Lemma bind_assoc : forall A B C (r : result A) (f : A -> result B) (g : B -> result C),
  bind (bind r f) g = bind r (fun a => bind (f a) g).
Proof. intros. destruct r; reflexivity. Qed.
Lemma bind_ret : forall A (r : result A), bind r (fun a => Ok a) = r.
Proof. intros. destruct r; reflexivity. Qed.
Lemma bind_ext : forall A B (r : result A) (f g : A -> result B), (forall a, f a = g a) -> bind r f = bind r g.
Proof. intros. destruct r; cbn; auto. Qed.

Section Algebra.
  Variables F G : Z -> state -> result state.
  Variables lo hi : Z.
  Hypothesis swap : forall k k' st, lo <= k -> k < k' -> k' < hi ->
    bind (G k st) (F k') = bind (F k' st) (G k).

  Definition FG (k : Z) (st : state) : result state := bind (F k st) (G k).

  Lemma push_G : forall n k k1 st, lo <= k -> k < k1 -> k1 + Z.of_nat n <= hi ->
    bind (G k st) (iter_loop n k1 F) = bind (iter_loop n k1 F st) (G k).
  Proof.
    induction n as [|n IH]; intros k k1 st Hlo Hk Hhi; cbn [iter_loop].
    - rewrite bind_ret. reflexivity.
    - rewrite <- bind_assoc. rewrite swap by lia. rewrite !bind_assoc.
      apply bind_ext. intro s1. apply IH; lia.
  Qed.

  Lemma fission_iter : forall n k0 st, lo <= k0 -> k0 + Z.of_nat n <= hi ->
    iter_loop n k0 FG st = bind (iter_loop n k0 F st) (iter_loop n k0 G).
  Proof.
    induction n as [|n IH]; intros k0 st Hlo Hhi; cbn [iter_loop]; [reflexivity|].
    unfold FG at 1. rewrite !bind_assoc. apply bind_ext. intro s1.
    transitivity (bind (G k0 s1) (fun s2 => bind (iter_loop n (k0 + 1) F s2) (iter_loop n (k0 + 1) G))).
    { apply bind_ext. intro s2. apply IH; lia. }
    rewrite <- bind_assoc. rewrite push_G by lia. rewrite bind_assoc. reflexivity.
  Qed.
End Algebra.

(** a loop body A;B is A's iteration followed by B's, when A declares nothing at its top level *)
Lemma loop_body_app : forall i A B k st, forallb nodecl A = true ->
  loop_body i (A ++ B) k st = bind (loop_body i A k st) (loop_body i B k).
Proof.
  intros i A B k st HA. unfold loop_body. rewrite exec_list_app.
  destruct (exec_list A (bind_var i (BVal (VInt k)) st)) as [sA|] eqn:EA; cbn [bind]; [|reflexivity].
  pose proof (exec_list_env_nodecl _ _ _ HA EA) as Henv. cbn [bind_var s_env] in Henv.
  assert (Hs : bind_var i (BVal (VInt k)) (with_env (s_env st) sA) = sA).
  { destruct sA as [e h n c]. cbn [s_env] in Henv. subst e. reflexivity. }
  rewrite Hs. reflexivity.
Qed.

Definition commute_contract (i : sym) (A B : list stmt) (l h : Z) : Prop :=
  forall k k' st, l <= k -> k < k' -> k' < h ->
    bind (loop_body i B k st) (loop_body i A k') = bind (loop_body i A k' st) (loop_body i B k).

Lemma fission_eq : forall i lo hi A B par par1 par2 st,
  forallb nodecl A = true -> env_only lo = true -> env_only hi = true ->
  (forall l h, eval st lo = Ok (VInt l) -> eval st hi = Ok (VInt h) -> commute_contract i A B l h) ->
  exec_list [For i lo hi (A ++ B) par] st = exec_list [For i lo hi A par1; For i lo hi B par2] st.
Proof.
  intros i lo hi A B par par1 par2 st HA Hlo Hhi Hc. cbn [exec_list]. rewrite !bind_ret, !exec_For.
  destruct (eval st lo) as [vl|] eqn:El; cbn [bind]; [|reflexivity].
  destruct (as_int vl) as [l|] eqn:Eil; cbn [bind]; [|reflexivity].
  destruct (eval st hi) as [vh|] eqn:Eh; cbn [bind]; [|reflexivity].
  destruct (as_int vh) as [h|] eqn:Eih; cbn [bind]; [|reflexivity].
  assert (vl = VInt l) as -> by (destruct vl; cbn in Eil; try discriminate Eil; injection Eil as ->; reflexivity).
  assert (vh = VInt h) as -> by (destruct vh; cbn in Eih; try discriminate Eih; injection Eih as ->; reflexivity).
  destruct (h <? l) eqn:Ehl; [reflexivity|]. apply Z.ltb_ge in Ehl.
  rewrite (iter_loop_ext _ _ (loop_body i (A ++ B)) (FG (loop_body i A) (loop_body i B)))
    by (intros k s; apply loop_body_app, HA).
  rewrite (fission_iter (loop_body i A) (loop_body i B) l h (Hc l h eq_refl eq_refl)) by lia.
  destruct (iter_loop (Z.to_nat (h - l)) l (loop_body i A) st) as [s1|] eqn:E1; cbn [bind]; [|reflexivity].
  pose proof (iter_loop_env _ _ _ _ _ _ E1) as Henv.
  rewrite exec_For, (env_only_eval lo s1 st Hlo Henv), (env_only_eval hi s1 st Hhi Henv), El, Eh.
  cbn [bind as_int]. replace (h <? l) with false by (symmetry; apply Z.ltb_ge; exact Ehl). rewrite ?bind_ret. reflexivity.
Qed.

Theorem rule_fission : forall i lo hi A B par par1 par2,
  forallb nodecl A = true -> env_only lo = true -> env_only hi = true ->
  (forall st l h, eval st lo = Ok (VInt l) -> eval st hi = Ok (VInt h) -> commute_contract i A B l h) ->
  refines [For i lo hi (A ++ B) par] [For i lo hi A par1; For i lo hi B par2].
Proof.
  intros i lo hi A B par par1 par2 HA Hlo Hhi Hc st st' H.
  rewrite <- (fission_eq i lo hi A B par par1 par2 st HA Hlo Hhi (Hc st)). exact H.
Qed.

Theorem rule_fuse : forall i lo hi A B par par1 par2,
  forallb nodecl A = true -> env_only lo = true -> env_only hi = true ->
  (forall st l h, eval st lo = Ok (VInt l) -> eval st hi = Ok (VInt h) -> commute_contract i A B l h) ->
  refines [For i lo hi A par1; For i lo hi B par2] [For i lo hi (A ++ B) par].
Proof.
  intros i lo hi A B par par1 par2 HA Hlo Hhi Hc st st' H.
  rewrite (fission_eq i lo hi A B par par1 par2 st HA Hlo Hhi (Hc st)). exact H.
Qed.

(** non-vacuity: two statements on different buffers commute across iterations *)
Example contract_example :
  let i := 1%positive in let x := 2%positive in let y := 3%positive in
  let one := Real (Qcanon.Q2Qc (QArith_base.Qmake 1 1)) in
  forallb nodecl [Assign x [Var i] one] = true /\ env_only (Int 0) = true /\ env_only (Int 4) = true.
Proof. cbn. auto. Qed.
