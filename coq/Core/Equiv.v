(** * Refinement between statement lists and its lift to whole procedures (DESIGN.md 1.3).

    [refines a b]: from every state, if [a] runs to completion then [b] runs to completion in the
    *same* final state.  This is the relation local rewrite rules are proved against; the congruence
    theorems lift a local refinement through any program context up to [run]. *)
From Coq Require Import ZArith List Bool Lia QArith Qcanon.
From Core Require Import Syntax Sem.
Import ListNotations.
Local Open Scope Z_scope.

Ltac disc := let X := fresh "X" in intro X; discriminate X.

(** ** unfolding lemmas: the nested fixpoints inside [exec] are [exec_list] *)
Lemma go_is_exec_list : forall l st,
  (fix go (l : list stmt) (st : state) : result state :=
     match l with [] => Ok st | s' :: r => do st1 <- exec s' st; go r st1 end) l st = exec_list l st.
Proof. induction l as [|s r IH]; intro st; [reflexivity|]. cbn [exec_list]. destruct (exec s st); cbn [bind]; auto. Qed.

Definition scoped (body : list stmt) (st : state) : result state :=
  do st' <- exec_list body st; Ok (with_env (s_env st) st').

Lemma exec_If : forall c body orelse st,
  exec (If c body orelse) st =
  (do v <- eval st c; do b <- as_bool v; scoped (if b then body else orelse) st).
Proof.
  intros. cbn [exec]. destruct (eval st c) as [v|]; cbn [bind]; [|reflexivity].
  destruct (as_bool v) as [b|]; cbn [bind]; [|reflexivity].
  unfold scoped. rewrite go_is_exec_list. reflexivity.
Qed.

Definition loop_body (i : sym) (body : list stmt) (k : Z) (st0 : state) : result state :=
  do st' <- exec_list body (bind_var i (BVal (VInt k)) st0); Ok (with_env (s_env st0) st').

Lemma iter_loop_ext : forall n k f g st, (forall k st, f k st = g k st) -> iter_loop n k f st = iter_loop n k g st.
Proof. induction n as [|n IH]; intros; cbn [iter_loop]; [reflexivity|]. rewrite H. destruct (g k st); cbn [bind]; auto. Qed.

Lemma exec_For : forall i lo hi body par st,
  exec (For i lo hi body par) st =
  (do vl <- eval st lo; do l <- as_int vl; do vh <- eval st hi; do h <- as_int vh;
   if h <? l then Err BadTrip else iter_loop (Z.to_nat (h - l)) l (loop_body i body) st).
Proof.
  intros. cbn [exec].
  destruct (eval st lo) as [vl|]; cbn [bind]; [|reflexivity].
  destruct (as_int vl) as [l|]; cbn [bind]; [|reflexivity].
  destruct (eval st hi) as [vh|]; cbn [bind]; [|reflexivity].
  destruct (as_int vh) as [h|]; cbn [bind]; [|reflexivity].
  destruct (h <? l); [reflexivity|].
  apply iter_loop_ext. intros k st0. unfold loop_body. rewrite go_is_exec_list. reflexivity.
Qed.

Lemma exec_Call : forall formals preds body args st,
  exec (Call (Proc formals preds body) args) st =
  (do acts <- eval_actuals st formals args;
   do callee <- bind_args formals acts (with_env [] st);
   do _ <- check_preds callee preds;
   do st' <- exec_list body callee; Ok (with_env (s_env st) st')).
Proof.
  intros. cbn [exec].
  destruct (eval_actuals st formals args); cbn [bind]; [|reflexivity].
  destruct (bind_args formals a (with_env [] st)); cbn [bind]; [|reflexivity].
  destruct (check_preds a0 preds); cbn [bind]; [|reflexivity].
  rewrite go_is_exec_list. reflexivity.
Qed.

Lemma exec_list_app : forall a b st, exec_list (a ++ b) st = (do st' <- exec_list a st; exec_list b st').
Proof.
  induction a as [|s a IH]; intros; cbn [app exec_list bind]; [reflexivity|].
  destruct (exec s st); cbn [bind]; auto.
Qed.

(** ** refinement *)
Definition refines (a b : list stmt) : Prop :=
  forall st st', exec_list a st = Ok st' -> exec_list b st = Ok st'.

Lemma refines_refl : forall a, refines a a.
Proof. intros a st st' H; exact H. Qed.

Lemma refines_trans : forall a b c, refines a b -> refines b c -> refines a c.
Proof. intros a b c H1 H2 st st' H. apply H2, H1, H. Qed.

Lemma refines_app : forall pre a b post, refines a b -> refines (pre ++ a ++ post) (pre ++ b ++ post).
Proof.
  intros pre a b post H st st'. rewrite !exec_list_app.
  destruct (exec_list pre st) as [st1|]; cbn [bind]; [|disc].
  rewrite !exec_list_app.
  destruct (exec_list a st1) as [st2|] eqn:Ha; cbn [bind]; [|disc].
  rewrite (H _ _ Ha). cbn [bind]. auto.
Qed.

Lemma scoped_refines : forall a b st st', refines a b -> scoped a st = Ok st' -> scoped b st = Ok st'.
Proof.
  unfold scoped. intros a b st st' H. destruct (exec_list a st) as [s1|] eqn:Ha; cbn [bind]; [|disc].
  rewrite (H _ _ Ha). cbn [bind]. auto.
Qed.

Lemma single : forall s st, exec_list [s] st = exec s st.
Proof. intros. cbn [exec_list]. destruct (exec s st); reflexivity. Qed.

Lemma refines_if : forall c a b a' b', refines a a' -> refines b b' -> refines [If c a b] [If c a' b'].
Proof.
  intros c a b a' b' Ha Hb st st'. rewrite !single, !exec_If.
  destruct (eval st c) as [v|]; cbn [bind]; [|disc].
  destruct (as_bool v) as [[]|]; cbn [bind]; [| |disc]; apply scoped_refines; assumption.
Qed.

Lemma iter_loop_refines : forall n k f g st st',
  (forall k st st', f k st = Ok st' -> g k st = Ok st') ->
  iter_loop n k f st = Ok st' -> iter_loop n k g st = Ok st'.
Proof.
  induction n as [|n IH]; intros k f g st st' H; cbn [iter_loop]; [auto|].
  destruct (f k st) as [s1|] eqn:Hf; cbn [bind]; [|disc].
  rewrite (H _ _ _ Hf). cbn [bind]. apply IH, H.
Qed.

(** the [par] flag does not influence the sequential semantics (C19: parallelize_loop) *)
Lemma refines_for : forall i lo hi a b par par', refines a b -> refines [For i lo hi a par] [For i lo hi b par'].
Proof.
  intros i lo hi a b par par' H st st'. rewrite !single, !exec_For.
  destruct (eval st lo) as [vl|]; cbn [bind]; [|disc].
  destruct (as_int vl) as [l|]; cbn [bind]; [|disc].
  destruct (eval st hi) as [vh|]; cbn [bind]; [|disc].
  destruct (as_int vh) as [h|]; cbn [bind]; [|disc].
  destruct (h <? l); [disc|].
  apply iter_loop_refines. intros k s0 s1. unfold loop_body.
  destruct (exec_list a _) as [s2|] eqn:Ha; cbn [bind]; [|disc].
  rewrite (H _ _ Ha). cbn [bind]. auto.
Qed.

Lemma refines_call : forall formals preds a b args,
  refines a b -> refines [Call (Proc formals preds a) args] [Call (Proc formals preds b) args].
Proof.
  intros formals preds a b args H st st'. rewrite !single, !exec_Call.
  destruct (eval_actuals st formals args); cbn [bind]; [|disc].
  destruct (bind_args formals a0 (with_env [] st)); cbn [bind]; [|disc].
  destruct (check_preds a1 preds); cbn [bind]; [|disc].
  destruct (exec_list a a1) as [s2|] eqn:Ha; cbn [bind]; [|disc].
  rewrite (H _ _ Ha). cbn [bind]. auto.
Qed.

(** ** program contexts: where inside a procedure body a block sits *)
Inductive ctx :=
| CHole (pre post : list stmt)
| CFor (pre : list stmt) (i : sym) (lo hi : expr) (par : bool) (c : ctx) (post : list stmt)
| CIfThen (pre : list stmt) (cond : expr) (c : ctx) (orelse post : list stmt)
| CIfElse (pre : list stmt) (cond : expr) (body : list stmt) (c : ctx) (post : list stmt)
| CCall (pre : list stmt) (formals : list (sym * argkind)) (preds : list expr) (c : ctx)
        (args : list expr) (post : list stmt).

Fixpoint plug (c : ctx) (b : list stmt) : list stmt :=
  match c with
  | CHole pre post => pre ++ b ++ post
  | CFor pre i lo hi par c' post => pre ++ [For i lo hi (plug c' b) par] ++ post
  | CIfThen pre cond c' orelse post => pre ++ [If cond (plug c' b) orelse] ++ post
  | CIfElse pre cond body c' post => pre ++ [If cond body (plug c' b)] ++ post
  | CCall pre formals preds c' args post => pre ++ [Call (Proc formals preds (plug c' b)) args] ++ post
  end.

Theorem refines_plug : forall c a b, refines a b -> refines (plug c a) (plug c b).
Proof.
  induction c as [pre post|pre i lo hi par c IH post|pre cond c IH orelse post|pre cond body c IH post
                 |pre formals preds c IH args post]; intros a b H; cbn [plug]; apply refines_app.
  - exact H.
  - apply refines_for, IH, H.
  - apply refines_if; [apply IH, H | apply refines_refl].
  - apply refines_if; [apply refines_refl | apply IH, H].
  - apply refines_call, IH, H.
Qed.

(** ** lift to whole-procedure runs *)
Theorem run_refines : forall formals preds a b inp bufs cfg,
  refines a b -> run (Proc formals preds a) inp = Done bufs cfg -> run (Proc formals preds b) inp = Done bufs cfg.
Proof.
  intros formals preds a b inp bufs cfg H. unfold run.
  destruct (forallb inbuf_ok (in_args inp)); [|disc].
  destruct (load_inputs (in_args inp) _) as [bs st1].
  destruct (bind_args formals bs st1) as [st2|]; [|disc].
  destruct (check_preds st2 preds); [|disc].
  destruct (exec_list a st2) as [st3|] eqn:Ha; [|disc].
  rewrite (H _ _ Ha). auto.
Qed.

(** ** context-free local rules *)
Lemma rule_insert_pass : refines [] [Pass].
Proof. intros st st' H. cbn in *. exact H. Qed.

Lemma rule_delete_pass : refines [Pass] [].
Proof. intros st st' H. cbn in *. exact H. Qed.

(** [reorder_stmts]: the contract of the commutation oracle is literally the refinement *)
Definition commute (s1 s2 : stmt) : Prop := refines [s1; s2] [s2; s1].

(** ** loop splitting (cut_loop / join_loops) *)
(** an expression whose value depends on the variable environment only *)
Fixpoint env_only (e : expr) : bool :=
  match e with
  | Var _ | Int _ | BoolC _ => true
  | USub a => env_only a
  | BinOp _ a b => env_only a && env_only b
  | _ => false
  end.

Lemma env_only_eval : forall e st st', env_only e = true -> s_env st = s_env st' -> eval st e = eval st' e.
Proof.
  induction e; intros st st' He Henv; cbn [env_only] in He; try discriminate He; cbn [eval].
  - rewrite Henv. reflexivity.
  - reflexivity.
  - reflexivity.
  - rewrite (IHe st st' He Henv). reflexivity.
  - apply andb_true_iff in He as [H1 H2]. rewrite (IHe1 st st' H1 Henv), (IHe2 st st' H2 Henv). reflexivity.
Qed.

Lemma iter_loop_env : forall n k i body st st',
  iter_loop n k (loop_body i body) st = Ok st' -> s_env st' = s_env st.
Proof.
  induction n as [|n IH]; intros k i body st st'; cbn [iter_loop].
  - intro H; inversion H; reflexivity.
  - unfold loop_body at 1. destruct (exec_list body _) as [s1|]; cbn [bind]; [|disc].
    intro H. apply IH in H. rewrite H. reflexivity.
Qed.

Lemma iter_loop_split : forall n m k f st,
  iter_loop (n + m) k f st = (do st1 <- iter_loop n k f st; iter_loop m (k + Z.of_nat n) f st1).
Proof.
  induction n as [|n IH]; intros m k f st.
  - cbn [iter_loop plus bind]. rewrite Z.add_0_r. reflexivity.
  - cbn [plus iter_loop]. destruct (f k st) as [s1|]; cbn [bind]; [|reflexivity].
    rewrite IH. replace (k + 1 + Z.of_nat n) with (k + Z.of_nat (S n)) by lia. reflexivity.
Qed.

Theorem rule_cut_loop : forall i lo mid hi body par par1 par2,
  env_only lo = true -> env_only mid = true -> env_only hi = true ->
  forall st st' l m h,
    eval st lo = Ok (VInt l) -> eval st mid = Ok (VInt m) -> eval st hi = Ok (VInt h) ->
    l <= m <= h ->
    exec_list [For i lo hi body par] st = Ok st' ->
    exec_list [For i lo mid body par1; For i mid hi body par2] st = Ok st'.
Proof.
  intros i lo mid hi body par par1 par2 Hlo Hmid Hhi st st' l m h El Em Eh Hle.
  cbn [exec_list]. rewrite !exec_For. rewrite El, Em, Eh. cbn [bind as_int].
  destruct (h <? l) eqn:Hhl; [lia|]. destruct (m <? l) eqn:Hml; [lia|].
  replace (Z.to_nat (h - l)) with (Z.to_nat (m - l) + Z.to_nat (h - m))%nat by lia.
  rewrite iter_loop_split.
  destruct (iter_loop (Z.to_nat (m - l)) l (loop_body i body) st) as [s1|] eqn:H1; cbn [bind]; [|disc].
  pose proof (iter_loop_env _ _ _ _ _ _ H1) as Henv.
  rewrite exec_For.
  rewrite (env_only_eval mid s1 st Hmid Henv), (env_only_eval hi s1 st Hhi Henv), Em, Eh. cbn [bind as_int].
  destruct (h <? m) eqn:Hhm; [lia|].
  replace (l + Z.of_nat (Z.to_nat (m - l))) with m by lia.
  destruct (iter_loop (Z.to_nat (h - m)) m (loop_body i body) s1); cbn [bind]; auto.
Qed.

Theorem rule_join_loops : forall i lo mid hi body par par1 par2,
  env_only lo = true -> env_only mid = true -> env_only hi = true ->
  forall st st' l m h,
    eval st lo = Ok (VInt l) -> eval st mid = Ok (VInt m) -> eval st hi = Ok (VInt h) ->
    exec_list [For i lo mid body par1; For i mid hi body par2] st = Ok st' ->
    exec_list [For i lo hi body par] st = Ok st'.
Proof.
  intros i lo mid hi body par par1 par2 Hlo Hmid Hhi st st' l m h El Em Eh.
  cbn [exec_list]. rewrite !exec_For. rewrite El, Em, Eh. cbn [bind as_int].
  destruct (m <? l) eqn:Hml; [disc|].
  destruct (iter_loop (Z.to_nat (m - l)) l (loop_body i body) st) as [s1|] eqn:H1; cbn [bind]; [|disc].
  pose proof (iter_loop_env _ _ _ _ _ _ H1) as Henv.
  rewrite exec_For.
  rewrite (env_only_eval mid s1 st Hmid Henv), (env_only_eval hi s1 st Hhi Henv), Em, Eh. cbn [bind as_int].
  destruct (h <? m) eqn:Hhm; [disc|].
  destruct (h <? l) eqn:Hhl; [lia|].
  replace (Z.to_nat (h - l)) with (Z.to_nat (m - l) + Z.to_nat (h - m))%nat by lia.
  rewrite iter_loop_split, H1. cbn [bind].
  replace (l + Z.of_nat (Z.to_nat (m - l))) with m by lia.
  destruct (iter_loop (Z.to_nat (h - m)) m (loop_body i body) s1); cbn [bind]; auto.
Qed.

(** zero-trip loops do nothing (simplify's and eliminate_dead_code's loop removal) *)
Theorem rule_empty_loop : forall i lo hi body par st l,
  eval st lo = Ok (VInt l) -> eval st hi = Ok (VInt l) -> exec_list [For i lo hi body par] st = Ok st.
Proof.
  intros. cbn [exec_list]. rewrite exec_For, H, H0. cbn [bind as_int].
  rewrite Z.ltb_irrefl, Z.sub_diag. reflexivity.
Qed.

(** non-vacuity: a loop, a valid input, and a cut *)
Example cut_loop_example :
  let body := [Reduce 2%positive [Var 3%positive] (Real (Q2Qc 1))] in
  let inp := mkInput [InVal (VInt 3); InBuf 0 [(3, 1)] [Some (Q2Qc 1); Some (Q2Qc 2); None]] [] in
  run (Proc [(1%positive, KSize); (2%positive, KTensor [Var 1%positive] false)] []
            [For 3%positive (Int 0) (Int 1) body false; For 3%positive (Int 1) (Var 1%positive) body false]) inp
  = run (Proc [(1%positive, KSize); (2%positive, KTensor [Var 1%positive] false)] []
            [For 3%positive (Int 0) (Var 1%positive) body false]) inp.
Proof. vm_compute. reflexivity. Qed.
