(** * cut_loop (DoCutLoop) as a whole-procedure rewrite: for i in [lo,hi) ~> for i in [lo,mid); for i2 in [mid,hi)
    where the second loop is a renamed copy (fresh iteration Sym i2).  The term-level tie covers bodies without inner
    binders (Alpha_Rename also renames those). *)
From Coq Require Import ZArith List Bool Lia.
From Core Require Import Syntax Sem Equiv Induction PartialEval PartialEvalSound Subst Rules RewriteAt RewriteAtL ShiftLoop.
Import ListNotations.
Local Open Scope Z_scope.

Definition cut_f (i i2 : sym) (mid : expr) (s : stmt) : option (list stmt) :=
  match s with
  | For j lo hi body par =>
      if Pos.eqb j i then Some [For j lo mid body par; For i2 mid hi (pe_ss i (Var i2) body) par] else None
  | _ => None
  end.

Definition cut_syn_ok (i i2 : sym) (mid : expr) (s : stmt) : bool :=
  match s with
  | For j lo hi body par =>
      env_only lo && env_only mid && env_only hi
      && forallb (okbind (okbR i i2)) body && forallb (nm_s i (hidR i2)) body
  | _ => false
  end.

(** the contract of the implementation's two Check_CompareExprs calls: lo <= mid <= hi wherever the loop runs *)
Definition cut_sem_ok (mid : expr) (s : stmt) : Prop :=
  match s with
  | For j lo hi body par =>
      forall st l h, eval st lo = Ok (VInt l) -> eval st hi = Ok (VInt h) ->
        exists m, eval st mid = Ok (VInt m) /\ l <= m <= h
  | _ => True
  end.

Lemma cut_f_sound : forall i i2 mid s l,
  cut_sem_ok mid s -> cut_f i i2 mid s = Some l -> cut_syn_ok i i2 mid s = true -> refines [s] l.
Proof.
  intros i i2 mid s l Hsem Hf Hok. destruct s; cbn [cut_f] in Hf; try discriminate Hf.
  destruct (Pos.eqb i0 i) eqn:E; [|discriminate Hf]. apply Pos.eqb_eq in E. subst i0. injection Hf as <-.
  cbn [cut_syn_ok] in Hok.
  repeat (match goal with H : _ && _ = true |- _ => apply andb_true_iff in H; destruct H end).
  intros st st' Hrun.
  assert (exists l0 h0, eval st lo = Ok (VInt l0) /\ eval st hi = Ok (VInt h0)) as [l0 [h0 [El Eh]]].
  { rewrite single, exec_For in Hrun.
    destruct (eval st lo) as [v1|]; cbn [bind] in Hrun; [|discriminate Hrun].
    destruct v1 as [z1| |]; cbn [as_int bind] in Hrun; try discriminate Hrun.
    destruct (eval st hi) as [v2|]; cbn [bind] in Hrun; [|discriminate Hrun].
    destruct v2 as [z2| |]; cbn [as_int bind] in Hrun; try discriminate Hrun.
    exists z1, z2. auto. }
  destruct (Hsem st l0 h0 El Eh) as [m [Em Hle]].
  pose proof (rule_cut_loop i lo mid hi body par par par ltac:(assumption) ltac:(assumption) ltac:(assumption)
                st st' l0 m h0 El Em Eh Hle Hrun) as Hcut.
  exact (refines_app [For i lo mid body par] [For i mid hi body par]
           [For i2 mid hi (pe_ss i (Var i2) body) par] []
           (rule_rename_iter i i2 mid hi body par ltac:(assumption) ltac:(assumption)) st st' Hcut).
Qed.

Definition cut_proc (i i2 : sym) (mid : expr) : proc -> proc := rwl_proc (cut_f i i2 mid).
Definition cut_ok_proc (i i2 : sym) (mid : expr) : proc -> bool := okl_proc (cut_f i i2 mid) (cut_syn_ok i i2 mid).

Theorem cut_proc_preserves : forall i i2 mid p inp bufs cfg,
  (forall s l, cut_f i i2 mid s = Some l -> cut_sem_ok mid s) ->
  cut_ok_proc i i2 mid p = true -> run p inp = Done bufs cfg -> run (cut_proc i i2 mid p) inp = Done bufs cfg.
Proof.
  intros i i2 mid p inp bufs cfg Hsem Hok. unfold cut_proc, cut_ok_proc in *.
  apply rwl_proc_preserves with (ok := cut_syn_ok i i2 mid); [|exact Hok].
  intros s l Hf Hs. eapply cut_f_sound; [eapply Hsem; exact Hf|exact Hf|exact Hs].
Qed.

(** ** join_loops as the implementation performs it (DoJoinLoops): the two loops have DISTINCT iteration Syms and the
    second bound is only semantically equal to the first loop's upper bound (Check_ExprEqvInContext); the bodies are
    equal up to the renaming of the iteration variable (LoopIR_Compare.match_stmts, for bodies without inner binders:
    [pe_ss j (Var i) body2 = body]).  Composition of [rule_rename_iter] (second loop renamed to the first loop's Sym)
    and [rule_join_loops]. *)
Theorem rule_join_loops_renamed : forall i j lo mid mid2 hi body body2 par par1 par2,
  env_only lo = true -> env_only mid = true -> env_only hi = true ->
  (forall s, eval s mid2 = eval s mid) ->
  forallb (okbind (okbR j i)) body2 = true -> forallb (nm_s j (hidR i)) body2 = true ->
  pe_ss j (Var i) body2 = body ->
  forall st st' l m h,
    eval st lo = Ok (VInt l) -> eval st mid = Ok (VInt m) -> eval st hi = Ok (VInt h) ->
    exec_list [For i lo mid body par1; For j mid2 hi body2 par2] st = Ok st' ->
    exec_list [For i lo hi body par] st = Ok st'.
Proof.
  intros i j lo mid mid2 hi body body2 par par1 par2 Hlo Hmid Hhi Heqv Hok Hnm Hbody st st' l m h El Em Eh Hrun.
  apply (rule_join_loops i lo mid hi body par par1 par2 Hlo Hmid Hhi st st' l m h El Em Eh).
  assert (Hsecond : refines [For j mid2 hi body2 par2] [For i mid hi body par2]).
  { eapply refines_trans with (b := [For j mid hi body2 par2]).
    - intros s s' H. rewrite single in *. rewrite exec_For in *. rewrite <- Heqv. exact H.
    - rewrite <- Hbody. apply rule_rename_iter; assumption. }
  exact (refines_cons (For i lo mid body par1) (For i lo mid body par1) _ _
           (refines_refl _) Hsecond st st' Hrun).
Qed.
