(* Driver of the extracted reference interpreter: one s-expression job per line on stdin,
   one result line on stdout.
     (def NAME PROC)            -> "ok"
     (run NAME INPUT)           -> "done ((cells)...) ((cfg val)...)" | "invalid ERR" | "fails ERR"
   Grammar: see harness/export.py (the only producer). *)
open Interp

type sx = A of string | L of sx list

let parse (s : string) : sx =
  let n = String.length s in
  let pos = ref 0 in
  let rec skip () = if !pos < n && (s.[!pos] = ' ' || s.[!pos] = '\t' || s.[!pos] = '\n') then (incr pos; skip ()) in
  let rec rd () =
    skip ();
    if !pos >= n then failwith "eof"
    else if s.[!pos] = '(' then begin
      incr pos;
      let items = ref [] in
      let rec loop () =
        skip ();
        if !pos >= n then failwith "unclosed"
        else if s.[!pos] = ')' then incr pos
        else (items := rd () :: !items; loop ()) in
      loop (); L (List.rev !items)
    end else begin
      let st = !pos in
      while !pos < n && not (s.[!pos] = ' ' || s.[!pos] = '(' || s.[!pos] = ')' || s.[!pos] = '\n' || s.[!pos] = '\t') do incr pos done;
      A (String.sub s st (!pos - st))
    end in
  rd ()

let rec pos_of_int (n : int) : positive =
  if n <= 1 then XH else if n land 1 = 0 then XO (pos_of_int (n lsr 1)) else XI (pos_of_int (n lsr 1))
let z_of_int (n : int) : z = if n = 0 then Z0 else if n > 0 then Zpos (pos_of_int n) else Zneg (pos_of_int (- n))
let rec int_of_pos (p : positive) : int = match p with XH -> 1 | XO q -> 2 * int_of_pos q | XI q -> 2 * int_of_pos q + 1
let rec bits (p : positive) : int = match p with XH -> 1 | XO q | XI q -> 1 + bits q
let str_of_pos p = if bits p > 61 then "BIG" else string_of_int (int_of_pos p)
let str_of_z (x : z) = match x with Z0 -> "0" | Zpos p -> str_of_pos p | Zneg p -> "-" ^ str_of_pos p
let rec nat_of_int n = if n <= 0 then O else S (nat_of_int (n - 1))

let atom = function A s -> s | L _ -> failwith "atom expected"
let lst = function L l -> l | A a -> failwith ("list expected, got " ^ a)
let ios x = int_of_string (atom x)
let sym x = pos_of_int (ios x)
let zz x = z_of_int (ios x)

let binop = function
  | "+" -> OAdd | "-" -> OSub | "*" -> OMul | "/" -> ODiv | "%" -> OMod | "and" -> OAnd | "or" -> OOr
  | "<" -> OLt | ">" -> OGt | "<=" -> OLe | ">=" -> OGe | "==" -> OEq | s -> failwith ("binop " ^ s)
let extfn = function
  | "sin" -> XSin | "relu" -> XRelu | "select" -> XSelect | "expf" -> XExpf | "fmaxf" -> XFmaxf
  | "sigmoid" -> XSigmoid | "sqrt" -> XSqrt | _ -> XOther

let rec expr (x : sx) : expr =
  match x with
  | L [A "var"; n] -> Var (sym n)
  | L [A "int"; z] -> Int (zz z)
  | L [A "bool"; A b] -> BoolC (b = "true")
  | L [A "real"; n; d] -> Real (mk_qc (zz n) (pos_of_int (ios d)))
  | L [A "read"; n; idx] -> Read (sym n, List.map expr (lst idx))
  | L [A "neg"; e] -> USub (expr e)
  | L [A "bin"; A op; a; b] -> BinOp (binop op, expr a, expr b)
  | L [A "ext"; A f; args] -> Extern (extfn f, List.map expr (lst args))
  | L [A "win"; n; acc] -> WindowE (sym n, List.map wacc (lst acc))
  | L [A "stride"; n; d] -> Stride (sym n, nat_of_int (ios d))
  | L [A "cfg"; n] -> ReadCfg (sym n)
  | _ -> failwith "expr"
and wacc = function
  | L [A "pt"; e] -> Point (expr e)
  | L [A "iv"; lo; hi] -> Interval (expr lo, expr hi)
  | _ -> failwith "wacc"

let kind = function
  | A "size" -> KSize | A "index" -> KIndex | A "bool" -> KBool | A "stride" -> KStride | A "scalar" -> KScalar
  | L [A "tensor"; sh; A w] -> KTensor (List.map expr (lst sh), w = "true")
  | _ -> failwith "kind"

let rec stmt (x : sx) : stmt =
  match x with
  | L [A "assign"; n; idx; rhs] -> Assign (sym n, List.map expr (lst idx), expr rhs)
  | L [A "reduce"; n; idx; rhs] -> Reduce (sym n, List.map expr (lst idx), expr rhs)
  | L [A "wcfg"; n; rhs] -> WriteCfg (sym n, expr rhs)
  | L [A "pass"] -> Pass
  | L [A "if"; c; b; o] -> If (expr c, List.map stmt (lst b), List.map stmt (lst o))
  | L [A "for"; n; lo; hi; b; A par] -> For (sym n, expr lo, expr hi, List.map stmt (lst b), par = "true")
  | L [A "alloc"; n; sh] -> Alloc (sym n, List.map expr (lst sh))
  | L [A "call"; p; args] -> Call (proc p, List.map expr (lst args))
  | L [A "wins"; n; rhs] -> WindowS (sym n, expr rhs)
  | _ -> failwith "stmt"
and proc (x : sx) : proc =
  match x with
  | L [A "proc"; args; preds; body] ->
      Proc (List.map (function L [n; k] -> (sym n, kind k) | _ -> failwith "fnarg") (lst args),
            List.map expr (lst preds), List.map stmt (lst body))
  | A name -> (try Hashtbl.find procs name with Not_found -> failwith ("unknown proc " ^ name))
  | _ -> failwith "proc"
and procs : (string, proc) Hashtbl.t = Hashtbl.create 16

let dval = function
  | A "none" -> None
  | L [A "q"; n; d] -> Some (mk_qc (zz n) (pos_of_int (ios d)))
  | _ -> failwith "dval"
let value = function
  | L [A "i"; z] -> VInt (zz z)
  | L [A "b"; A b] -> VBool (b = "true")
  | L [A "d"; d] -> VData (dval d)
  | _ -> failwith "value"
let inarg = function
  | L [A "val"; v] -> InVal (value v)
  | L [A "buf"; off; dims; cells] ->
      InBuf (zz off, List.map (function L [n; s] -> (zz n, zz s) | _ -> failwith "dim") (lst dims),
             List.map dval (lst cells))
  | _ -> failwith "inarg"
let input = function
  | L [A "input"; args; cfg] ->
      { in_args = List.map inarg (lst args);
        in_cfg = List.map (function L [k; v] -> (sym k, value v) | _ -> failwith "cfg") (lst cfg) }
  | _ -> failwith "input"

let str_err = function
  | OOB -> "OOB" | BadTrip -> "BadTrip" | BadSize -> "BadSize" | AssertFail -> "AssertFail"
  | ShapeMismatch -> "ShapeMismatch" | TypeErr -> "TypeErr" | Unbound -> "Unbound" | DivZero -> "DivZero"
  | Unsupported -> "Unsupported" | BadArity -> "BadArity"
let str_dval = function
  | None -> "none"
  | Some q -> let n = str_of_z (qc_num q) and d = str_of_pos (qc_den q) in if d = "1" then n else n ^ "/" ^ d
let str_value = function
  | VInt z -> str_of_z z | VBool b -> if b then "true" else "false" | VData d -> str_dval d

(* ---- printing Core.Syntax terms back in the exporter's syntax (for rewrite-model correspondence) ---- *)
let rec int_of_nat = function O -> 0 | S n -> 1 + int_of_nat n
let sbinop = function
  | OAdd -> "+" | OSub -> "-" | OMul -> "*" | ODiv -> "/" | OMod -> "%" | OAnd -> "and" | OOr -> "or"
  | OLt -> "<" | OGt -> ">" | OLe -> "<=" | OGe -> ">=" | OEq -> "=="
let sextfn = function
  | XSin -> "sin" | XRelu -> "relu" | XSelect -> "select" | XExpf -> "expf" | XFmaxf -> "fmaxf"
  | XSigmoid -> "sigmoid" | XSqrt -> "sqrt" | XOther -> "other"
let ssym p = string_of_int (int_of_pos p)
let rec sexpr (e : expr) : string =
  match e with
  | Var x -> "(var " ^ ssym x ^ ")"
  | Int z -> "(int " ^ str_of_z z ^ ")"
  | BoolC b -> "(bool " ^ (if b then "true" else "false") ^ ")"
  | Real q -> "(real " ^ str_of_z (qc_num q) ^ " " ^ str_of_pos (qc_den q) ^ ")"
  | Read (x, idx) -> "(read " ^ ssym x ^ " (" ^ String.concat " " (List.map sexpr idx) ^ "))"
  | USub a -> "(neg " ^ sexpr a ^ ")"
  | BinOp (op, a, b) -> "(bin " ^ sbinop op ^ " " ^ sexpr a ^ " " ^ sexpr b ^ ")"
  | Extern (f, args) -> "(ext " ^ sextfn f ^ " (" ^ String.concat " " (List.map sexpr args) ^ "))"
  | WindowE (x, acc) -> "(win " ^ ssym x ^ " (" ^ String.concat " " (List.map swacc acc) ^ "))"
  | Stride (x, d) -> "(stride " ^ ssym x ^ " " ^ string_of_int (int_of_nat d) ^ ")"
  | ReadCfg c -> "(cfg " ^ ssym c ^ ")"
and swacc = function
  | Point e -> "(pt " ^ sexpr e ^ ")"
  | Interval (a, b) -> "(iv " ^ sexpr a ^ " " ^ sexpr b ^ ")"
let skind = function
  | KSize -> "size" | KIndex -> "index" | KBool -> "bool" | KStride -> "stride" | KScalar -> "scalar"
  | KTensor (sh, w) -> "(tensor (" ^ String.concat " " (List.map sexpr sh) ^ ") " ^ (if w then "true" else "false") ^ ")"
let names : (proc, string) Hashtbl.t = Hashtbl.create 16
let rec sstmt (s : stmt) : string =
  let lst l = "(" ^ String.concat " " (List.map sstmt l) ^ ")" in
  let es l = "(" ^ String.concat " " (List.map sexpr l) ^ ")" in
  match s with
  | Assign (x, idx, rhs) -> "(assign " ^ ssym x ^ " " ^ es idx ^ " " ^ sexpr rhs ^ ")"
  | Reduce (x, idx, rhs) -> "(reduce " ^ ssym x ^ " " ^ es idx ^ " " ^ sexpr rhs ^ ")"
  | WriteCfg (c, rhs) -> "(wcfg " ^ ssym c ^ " " ^ sexpr rhs ^ ")"
  | Pass -> "(pass)"
  | If (c, a, b) -> "(if " ^ sexpr c ^ " " ^ lst a ^ " " ^ lst b ^ ")"
  | For (i, lo, hi, b, par) -> "(for " ^ ssym i ^ " " ^ sexpr lo ^ " " ^ sexpr hi ^ " " ^ lst b ^ " " ^ (if par then "true" else "false") ^ ")"
  | Alloc (x, sh) -> "(alloc " ^ ssym x ^ " " ^ es sh ^ ")"
  | Call (f, args) -> "(call " ^ (try Hashtbl.find names f with Not_found -> sproc f) ^ " " ^ es args ^ ")"
  | WindowS (x, rhs) -> "(wins " ^ ssym x ^ " " ^ sexpr rhs ^ ")"
and sproc (p : proc) : string =
  match p with
  | Proc (args, preds, body) ->
      "(proc (" ^ String.concat " " (List.map (fun (x, k) -> "(" ^ ssym x ^ " " ^ skind k ^ ")") args) ^ ") ("
      ^ String.concat " " (List.map sexpr preds) ^ ") (" ^ String.concat " " (List.map sstmt body) ^ "))"

let () =
  try
    while true do
      let line = input_line stdin in
      if String.length line > 0 then begin
        (try
          match parse line with
          | L [A "def"; A name; p] -> let q = proc p in Hashtbl.replace procs name q; Hashtbl.replace names q name; print_string "ok\n"
          | L [A "tr"; p; x] -> print_string (sproc (tr_proc (sym x) (proc p)) ^ "\n")
          | L [A "divguard"; p; i; io; ii; q] -> print_string (sproc (divide_guard_proc (sym i) (sym io) (sym ii) (zz q) (proc p)) ^ "\n")
          | L [A "divguardok"; p; i; io; ii; q] -> print_string (if divide_guard_ok_proc (sym i) (sym io) (sym ii) (zz q) (proc p) then "ok\n" else "outside\n")
          | L [A "divperfect"; p; i; io; ii; q] -> print_string (sproc (divide_perfect_proc (sym i) (sym io) (sym ii) (zz q) (proc p)) ^ "\n")
          | L [A "divperfectok"; p; i; io; ii; q] -> print_string (if divide_perfect_ok_proc (sym i) (sym io) (sym ii) (zz q) (proc p) then "ok\n" else "outside\n")
          | L [A "rmguard"; p; i] -> print_string (sproc (remove_guard_proc (sym i) (proc p)) ^ "\n")
          | L [A "rmguardok"; p; i] -> print_string (if remove_guard_ok_proc (sym i) (proc p) then "ok\n" else "outside\n")
          | L [A "rmsplice"; p; i] -> print_string (sproc (remove_splice_proc (sym i) (proc p)) ^ "\n")
          | L [A "rmspliceok"; p; i] -> print_string (if remove_splice_ok_proc (sym i) (proc p) then "ok\n" else "outside\n")
          | L [A "unroll"; p; i] -> print_string (sproc (unroll_proc (sym i) (proc p)) ^ "\n")
          | L [A "unrollok"; p; i] -> print_string (if unroll_ok_proc (sym i) (proc p) then "ok\n" else "outside\n")
          | L [A "cut"; p; i; i2; e] -> print_string (sproc (cut_proc (sym i) (sym i2) (expr e) (proc p)) ^ "\n")
          | L [A "cutok"; p; i; i2; e] -> print_string (if cut_ok_proc (sym i) (sym i2) (expr e) (proc p) then "ok\n" else "outside\n")
          | L [A "fission"; p; i; k] -> print_string (sproc (fission_proc (sym i) (nat_of_int (ios k)) (proc p)) ^ "\n")
          | L [A "fissionok"; p; i; k] -> print_string (if fission_ok_proc (sym i) (nat_of_int (ios k)) (proc p) then "ok\n" else "outside\n")
          | L [A "reorder"; p; i] -> print_string (sproc (reorder_proc (sym i) (proc p)) ^ "\n")
          | L [A "reorderok"; p; i] -> print_string (if reorder_ok_proc (sym i) (proc p) then "ok\n" else "outside\n")
          | L [A "shift"; p; x; e] -> print_string (sproc (shift_proc (sym x) (expr e) (proc p)) ^ "\n")
          | L [A "shiftok"; p; x; e] -> print_string (if shift_ok_proc (sym x) (expr e) (proc p) then "ok\n" else "outside\n")
          | L [A "pe"; p; x; lit] -> print_string (sproc (pe_proc (sym x) (expr lit) (proc p)) ^ "\n")
          | L [A "run"; p; inp] ->
              (match run (proc p) (input inp) with
               | Invalid e -> print_string ("invalid " ^ str_err e ^ "\n")
               | Fails e -> print_string ("fails " ^ str_err e ^ "\n")
               | Done (bufs, cfg) ->
                   let b = String.concat " " (List.map (fun c -> "(" ^ String.concat " " (List.map str_dval c) ^ ")") bufs) in
                   let cfg = List.sort compare (List.map (fun (k, v) -> (int_of_pos k, str_value v)) cfg) in
                   let c = String.concat " " (List.map (fun (k, v) -> "(" ^ string_of_int k ^ " " ^ v ^ ")") cfg) in
                   print_string ("done (" ^ b ^ ") (" ^ c ^ ")\n"))
          | L [A "wf"; p] -> print_string (if wf_proc (proc p) then "wf\n" else "illformed\n")
          | _ -> print_string "error bad-job\n"
        with Failure m -> print_string ("error " ^ m ^ "\n")
           | Stack_overflow -> print_string "error stack-overflow\n");
        flush stdout
      end
    done
  with End_of_file -> ()
