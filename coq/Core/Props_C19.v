(** Property C19 — theorems only (annotation-changing utilities). *)
From Coq Require Import ZArith List Bool.
From Core Require Import Syntax Sem Equiv.
Import ListNotations.

(** parallelize_loop only flips the loop mode, which the sequential semantics never reads;
    lifted to any position by refines_plug / run_refines *)
Theorem C19_parallelize_loop : forall formals preds c i lo hi body par par' inp bufs cfg,
  run (Proc formals preds (plug c [For i lo hi body par])) inp = Done bufs cfg ->
  run (Proc formals preds (plug c [For i lo hi body par'])) inp = Done bufs cfg.
Proof.
  intros formals preds c i lo hi body par par' inp bufs cfg.
  apply run_refines, refines_plug, refines_for, refines_refl.
Qed.
Print Assumptions C19_parallelize_loop.

(** rename, make_instr, set_memory, set_precision, set_window change only fields that the deep
    embedding (Core.Syntax) does not contain; harness/props/C19.py checks per instance that the
    exported terms of source and result are identical, which makes their runs identical. *)
