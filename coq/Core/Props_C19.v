(** Property C19 — theorems only (annotation-changing utilities). *)
From Coq Require Import ZArith List Bool.
From Core Require Import Syntax Sem Equiv.
Import ListNotations.

(** parallelize_loop only flips the loop mode, which the sequential semantics never reads;
    lifted to any position by refines_plug / run_refines *)
Theorem C19_parallelize_loop : forall formals preds c i lo hi body par par' inp bufs cfg,
  run (Proc formals preds (plug c [For i lo hi body par])) inp = Done bufs cfg ->
  run (Proc formals preds (plug c [For i lo hi body par'])) inp = Done bufs cfg.
Proof.
  intros formals preds c i lo hi body par par' inp bufs cfg.
  apply run_refines, refines_plug, refines_for, refines_refl.
Qed.
Print Assumptions C19_parallelize_loop.

(** rename, make_instr, set_memory, set_precision, set_window change only fields that the deep
    embedding (Core.Syntax) does not contain; harness/props/C19.py checks per instance that the
    exported terms of source and result are identical, which makes their runs identical. *)

(** partial_eval: fixing an index/size argument to a literal [z] (resp. a bool argument to [b]) and
    removing it from the signature gives a procedure that behaves exactly like the original called with
    that value: same outcome kind, and on success the same argument buffers and configuration.
    [pe_proc] is the Gallina model of DoPartialEval; harness/props/C19.py compares it, term by term, with
    what the real Procedure.partial_eval returns.  Hypotheses: the value is admissible for the argument's
    kind (a size must be positive), earlier arguments do not mention the fixed one, later arguments and
    binders inside the body are different symbols (Syms are unique). *)
From Core Require Import PartialEval PartialEvalSound.

Theorem C19_partial_eval_int : forall x z fpre kx fpost preds body ipre ipost cfg,
  kind_ok kx (VInt z) ->
  length ipre = length fpre ->
  (forall y k, In (y, k) fpre -> y <> x /\ pe_kind x (Int z) k = k) ->
  (forall y k, In (y, k) fpost -> y <> x) ->
  forallb (nobind x) body = true ->
  osim (run (Proc (fpre ++ (x, kx) :: fpost) preds body) (mkInput (ipre ++ InVal (VInt z) :: ipost) cfg))
       (run (pe_proc x (Int z) (Proc (fpre ++ (x, kx) :: fpost) preds body)) (mkInput (ipre ++ ipost) cfg)).
Proof. intros x z. exact (partial_eval_correct x (Int z) (VInt z) (fun _ => eq_refl) (fun _ => eq_refl)). Qed.
Print Assumptions C19_partial_eval_int.

Theorem C19_partial_eval_bool : forall x b fpre kx fpost preds body ipre ipost cfg,
  kind_ok kx (VBool b) ->
  length ipre = length fpre ->
  (forall y k, In (y, k) fpre -> y <> x /\ pe_kind x (BoolC b) k = k) ->
  (forall y k, In (y, k) fpost -> y <> x) ->
  forallb (nobind x) body = true ->
  osim (run (Proc (fpre ++ (x, kx) :: fpost) preds body) (mkInput (ipre ++ InVal (VBool b) :: ipost) cfg))
       (run (pe_proc x (BoolC b) (Proc (fpre ++ (x, kx) :: fpost) preds body)) (mkInput (ipre ++ ipost) cfg)).
Proof. intros x b. exact (partial_eval_correct x (BoolC b) (VBool b) (fun _ => eq_refl) (fun _ => eq_refl)). Qed.
Print Assumptions C19_partial_eval_bool.

(** add_assertion (the new predicate is appended to the assertions): on every input the narrowed procedure
    still accepts, it behaves exactly like the original *)
From Core Require Import Rules.
Theorem C19_add_assertion : forall formals preds e body inp,
  match run (Proc formals (preds ++ [e]) body) inp with
  | Done bufs cfg => run (Proc formals preds body) inp = Done bufs cfg
  | Fails err => run (Proc formals preds body) inp = Fails err
  | Invalid _ => True
  end.
Proof. exact rule_add_assertion. Qed.
Print Assumptions C19_add_assertion.

(** transpose: swapping the two dimensions of a 2-D argument — its extents in the signature and the two indices
    of every access, window expression, stride expression and stride assertion on it — gives a procedure
    that, run on the transposed VIEW of the same cells (extents and strides swapped), leaves exactly the same
    memory and configuration as the original (and fails exactly when the original fails).  [tr_proc] is the
    Gallina model of DoRearrangeDim [1;0] on an argument; harness/props/C19.py compares it term by term with the
    real Procedure.transpose.  Hypotheses mirror what the implementation refuses: the argument is never passed
    whole to a callee, no window keeps both of its dimensions, and it is not re-declared in the body. *)
From Core Require Import Transpose TransposeSound.

Theorem C19_transpose : forall a fpre s0 s1 win fpost preds body ipre off d0 d1 cells ipost cfg,
  length ipre = length fpre ->
  (forall y k, In (y, k) fpre -> y <> a /\ ok_kind a k = true) ->
  (forall y k, In (y, k) fpost -> y <> a /\ ok_kind a k = true) ->
  ok_e a s0 = true -> ok_e a s1 = true ->
  ok_es a preds = true -> forallb (ok_s a) body = true -> forallb (nobind a) body = true ->
  TransposeSound.osim
    (run (Proc (fpre ++ (a, KTensor [s0; s1] win) :: fpost) preds body)
         (mkInput (ipre ++ InBuf off [d0; d1] cells :: ipost) cfg))
    (run (tr_proc a (Proc (fpre ++ (a, KTensor [s0; s1] win) :: fpost) preds body))
         (mkInput (ipre ++ InBuf off [d1; d0] cells :: ipost) cfg)).
Proof. exact transpose_correct. Qed.
Print Assumptions C19_transpose.

(** the loop mode and the window-ness of arguments (at any depth, callees included) are not read by [run]:
    two procedures that differ only in these annotations have the same outcome on every input.  With the
    embedding erasing memories, precisions and names, this is why rename / make_instr / set_memory /
    set_precision / set_window / parallelize_loop cannot change the sequential semantics; the harness checks per
    instance that source and result are equal after [er_proc]-style erasure. *)
From Core Require Import Erase.
Theorem C19_annotations_irrelevant : forall p q inp, er_proc p = er_proc q -> run p inp = run q inp.
Proof. intros p q inp H. rewrite (run_er p), (run_er q), H. reflexivity. Qed.
Print Assumptions C19_annotations_irrelevant.
