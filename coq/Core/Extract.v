(** Extraction of the reference interpreter.  Directives: ExtrOcamlBasic only (bool, option, unit,
    list, prod, sumbool, sumor -> OCaml natives); Z, positive, Q stay the extracted inductives. *)
From Coq Require Import ZArith List QArith Qcanon.
From Core Require Import Syntax Sem Wf PartialEval Transpose ShiftLoop DivideLoop ReorderLoops RemoveLoop UnrollLoop CutLoop FissionProc.
Require Extraction.
Require Import ExtrOcamlBasic.
Extraction Language OCaml.

Definition mk_qc (n : Z) (d : positive) : Qc := Q2Qc (Qmake n d).
Definition qc_num (q : Qc) : Z := Qnum (this q).
Definition qc_den (q : Qc) : positive := Qden (this q).
Extraction "ocaml/interp.ml" run wf_proc pe_proc tr_proc shift_proc shift_ok_proc divide_guard_proc divide_guard_ok_proc divide_perfect_proc divide_perfect_ok_proc reorder_proc reorder_ok_proc remove_guard_proc remove_guard_ok_proc remove_splice_proc remove_splice_ok_proc unroll_proc unroll_ok_proc cut_proc cut_ok_proc fission_proc fission_ok_proc mk_qc qc_num qc_den.
