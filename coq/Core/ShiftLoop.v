(** * shift_loop (DoShiftLoop, LoopIR_scheduling.py)

      for i in seq(lo, hi): body
  ~>  for i in seq(new_lo, new_lo + (hi - lo)): body[i := i + (lo - new_lo)]

    [shift_loop_rw] is the rewrite as the implementation performs it (same iteration symbol, the offset
    expression substituted for every read of it).  Correctness: every completed run of the original loop
    is a run of the shifted loop with the same final state, provided [lo] and [new_lo] depend only on
    variables that the body does not re-bind (and on no configuration or memory), and [new_lo] can be
    evaluated where the loop stands.  The implementation guarantees the first by Sym uniqueness plus the
    check that the body writes no configuration field that [lo] or [new_lo] reads; the theorem covers the
    (narrower) case where the two bounds read no configuration at all. *)
From Coq Require Import ZArith List Bool Lia.
From Core Require Import Syntax Sem Equiv Induction PartialEval PartialEvalSound Subst.
Import ListNotations.
Local Open Scope Z_scope.

Definition shift_off (i : sym) (lo nlo : expr) : expr := BinOp OAdd (Var i) (BinOp OSub lo nlo).
Definition shift_loop_rw (i : sym) (lo hi nlo : expr) (body : list stmt) (par : bool) : stmt :=
  For i nlo (BinOp OAdd nlo (BinOp OSub hi lo)) (pe_ss i (shift_off i lo nlo) body) par.

(** [e] depends only on the environment's bindings of the symbols in [V] *)
Definition depends_on (V : list sym) (e : expr) : Prop :=
  forall st st', (forall y, In y V -> lookup y (s_env st) = lookup y (s_env st')) -> eval st e = eval st' e.

Definition memb (y : sym) (V : list sym) : bool := existsb (Pos.eqb y) V.
Lemma memb_false : forall y V, memb y V = false -> ~ In y V.
Proof.
  intros y V H Hin. unfold memb in H.
  assert (existsb (Pos.eqb y) V = true) as E by (apply existsb_exists; exists y; split; [exact Hin|apply Pos.eqb_refl]).
  rewrite E in H. discriminate H.
Qed.

(** re-target the innermost binding of [i] *)
Fixpoint retarget (i : sym) (v : binding) (e : env) : env :=
  match e with
  | [] => []
  | (y, b) :: r => if Pos.eqb y i then (y, v) :: r else (y, b) :: retarget i v r
  end.

Lemma retarget_lookup : forall i v e y, y <> i -> lookup y (retarget i v e) = lookup y e.
Proof.
  induction e as [|[z b] r IH]; intros y Hy; [reflexivity|]. cbn [retarget].
  destruct (Pos.eqb z i) eqn:E.
  - apply Pos.eqb_eq in E. subst z. cbn [lookup].
    destruct (Pos.eqb y i) eqn:E2; [apply Pos.eqb_eq in E2; contradiction|reflexivity].
  - cbn [lookup]. destruct (Pos.eqb y z); [reflexivity|]. apply IH, Hy.
Qed.

Lemma retarget_self : forall i v e,
  lookup i (retarget i v e) = match lookup i e with Some _ => Some v | None => None end.
Proof.
  induction e as [|[z b] r IH]; [reflexivity|]. cbn [retarget].
  destruct (Pos.eqb z i) eqn:E.
  - apply Pos.eqb_eq in E. subst z. cbn [lookup]. rewrite Pos.eqb_refl. reflexivity.
  - cbn [lookup]. rewrite Pos.eqb_sym, E. exact IH.
Qed.

Section Shift.
  Variable i : sym.
  Variable lo nlo : expr.
  Variable V : list sym.
  Hypothesis i_notin : ~ In i V.
  Hypothesis dep_lo : depends_on V lo.
  Hypothesis dep_nlo : depends_on V nlo.

  Definition okb (y : sym) : bool := negb (Pos.eqb y i) && negb (memb y V).

  Variable l nl : Z.
  Variable entry : state.                (* the state in which the loop is entered *)
  Hypothesis lo_entry : eval entry lo = Ok (VInt l).
  Hypothesis nlo_entry : eval entry nlo = Ok (VInt nl).

  Definition same_env (st : state) : Prop := s_env st = s_env entry.

  Section Iter.
    Variable k : Z.          (* the original iteration *)
    Let k' := k - l + nl.    (* the shifted iteration *)
    Let T := retarget i (BVal (VInt k')).
    Let Good (e : env) : Prop :=
      lookup i e = Some (BVal (VInt k')) /\ forall y, In y V -> lookup y e = lookup y (s_env entry).

    Lemma okb_i : okb i = false.
    Proof. unfold okb. rewrite Pos.eqb_refl. reflexivity. Qed.

    Lemma off_eval : forall st, Good (s_env st) -> eval st (shift_off i lo nlo) = Ok (VInt k).
    Proof.
      intros st [Hi HV]. unfold shift_off. cbn [eval]. rewrite Hi. cbn [bind].
      rewrite (dep_lo st entry HV), lo_entry. cbn [bind].
      rewrite (dep_nlo st entry HV), nlo_entry. cbn [bind eval_binop].
      f_equal. f_equal. subst k'. lia.
    Qed.

    Lemma off_noview : forall st, Good (s_env st) -> eval_view st (shift_off i lo nlo) = Err TypeErr.
    Proof. reflexivity. Qed.

    Lemma T_cons : forall y b e, okb y = true -> T ((y, b) :: e) = (y, b) :: T e.
    Proof.
      intros y b e H. subst T. cbn [retarget]. unfold okb in H. apply andb_true_iff in H as [H _].
      apply negb_true_iff in H. rewrite H. reflexivity.
    Qed.

    Lemma Good_cons : forall y b e, okb y = true -> Good e -> Good ((y, b) :: e).
    Proof.
      intros y b e H [Hi HV]. unfold okb in H. apply andb_true_iff in H as [H1 H2].
      apply negb_true_iff in H1, H2. split.
      - cbn [lookup]. rewrite Pos.eqb_sym, H1. exact Hi.
      - intros z Hz. cbn [lookup]. destruct (Pos.eqb z y) eqn:E; [|apply HV, Hz].
        apply Pos.eqb_eq in E. subst z. apply memb_false in H2. contradiction.
    Qed.

    (** one iteration of the original loop is one iteration of the shifted loop *)
    Lemma shift_iteration : forall body st0 s,
      forallb (okbind okb) body = true -> forallb (nm_s i (fun _ => false)) body = true -> same_env st0 ->
      loop_body i body k st0 = Ok s ->
      loop_body i (pe_ss i (shift_off i lo nlo) body) k' st0 = Ok s.
    Proof.
      intros body st0 s Hok Hnm Henv Hrun. unfold loop_body in *.
      pose proof (body_sub i (shift_off i lo nlo) (VInt k) okb T Good (fun _ => false) okb_i off_eval off_noview
                    (fun e y Hy _ => retarget_lookup i (BVal (VInt k')) e y Hy) T_cons Good_cons
                    body (bind_var i (BVal (VInt k)) st0) Hok Hnm) as Hsim.
      assert (Hinv : inv i (VInt k) T Good (bind_var i (BVal (VInt k)) st0)).
      { split.
        - cbn [bind_var s_env lookup]. rewrite Pos.eqb_refl. reflexivity.
        - subst T. cbn [bind_var s_env retarget]. rewrite Pos.eqb_refl. split.
          + cbn [lookup]. rewrite Pos.eqb_refl. reflexivity.
          + intros y Hy. cbn [lookup]. destruct (Pos.eqb y i) eqn:E.
            * apply Pos.eqb_eq in E. subst y. contradiction.
            * rewrite Henv. reflexivity. }
      specialize (Hsim Hinv).
      assert (Ht : tst T (bind_var i (BVal (VInt k)) st0) = bind_var i (BVal (VInt k')) st0).
      { unfold tst, with_env, bind_var. subst T. cbn [s_env s_heap s_next s_cfg retarget]. rewrite Pos.eqb_refl. reflexivity. }
      rewrite Ht in Hsim.
      destruct (exec_list body (bind_var i (BVal (VInt k)) st0)) as [s1|] eqn:E1; cbn [bind] in Hrun; [|discriminate Hrun].
      destruct (exec_list (pe_ss i (shift_off i lo nlo) body) (bind_var i (BVal (VInt k')) st0)) as [s2|] eqn:E2;
        cbn [rsim] in Hsim; [|contradiction].
      destruct Hsim as [-> _]. cbn [bind]. rewrite <- Hrun. reflexivity.
    Qed.
  End Iter.

  Lemma loop_body_env : forall j body k st0 s, loop_body j body k st0 = Ok s -> s_env s = s_env st0.
  Proof.
    intros j body k st0 s H. unfold loop_body in H.
    destruct (exec_list body _) as [s1|]; cbn [bind] in H; [|discriminate H].
    injection H as <-. reflexivity.
  Qed.

  Lemma shift_iterations : forall body, forallb (okbind okb) body = true ->
    forallb (nm_s i (fun _ => false)) body = true ->
    forall n k st0 s, same_env st0 ->
    iter_loop n k (loop_body i body) st0 = Ok s ->
    iter_loop n (k - l + nl) (loop_body i (pe_ss i (shift_off i lo nlo) body)) st0 = Ok s.
  Proof.
    intros body Hok Hnm. induction n as [|n IH]; intros k st0 s Henv H; cbn [iter_loop] in *; [exact H|].
    destruct (loop_body i body k st0) as [s1|] eqn:E1; cbn [bind] in H; [|discriminate H].
    rewrite (shift_iteration k body st0 s1 Hok Hnm Henv E1). cbn [bind].
    replace (k - l + nl + 1) with (k + 1 - l + nl) by lia.
    apply IH; [|exact H]. unfold same_env in *. rewrite (loop_body_env _ _ _ _ _ E1). exact Henv.
  Qed.
End Shift.

(** the rule, for one execution *)
Theorem shift_loop_run : forall i lo hi nlo V body par st st' nl,
  ~ In i V -> depends_on V lo -> depends_on V nlo ->
  forallb (okbind (okb i V)) body = true -> forallb (nm_s i (fun _ => false)) body = true ->
  eval st nlo = Ok (VInt nl) ->
  exec (For i lo hi body par) st = Ok st' ->
  exec (shift_loop_rw i lo hi nlo body par) st = Ok st'.
Proof.
  intros i lo hi nlo V body par st st' nl Hi Dlo Dnlo Hok Hnm Hnl Hrun.
  unfold shift_loop_rw. rewrite exec_For in *.
  destruct (eval st lo) as [vl|] eqn:El; cbn [bind] in Hrun; [|discriminate Hrun].
  destruct (as_int vl) as [l|] eqn:Eil; cbn [bind] in Hrun; [|discriminate Hrun].
  destruct (eval st hi) as [vh|] eqn:Eh; cbn [bind] in Hrun; [|discriminate Hrun].
  destruct (as_int vh) as [h|] eqn:Eih; cbn [bind] in Hrun; [|discriminate Hrun].
  destruct (h <? l) eqn:Ehl; [discriminate Hrun|].
  assert (vl = VInt l) as -> by (destruct vl; cbn in Eil; try discriminate Eil; injection Eil as ->; reflexivity).
  assert (vh = VInt h) as -> by (destruct vh; cbn in Eih; try discriminate Eih; injection Eih as ->; reflexivity).
  rewrite Hnl. cbn [bind as_int eval]. rewrite Hnl, Eh, El. cbn [bind eval_binop as_int].
  replace (nl + (h - l) <? nl) with (h <? l) by (destruct (h <? l) eqn:A, (nl + (h - l) <? nl) eqn:B; lia).
  rewrite Ehl.
  replace (nl + (h - l) - nl) with (h - l) by lia.
  replace nl with (l - l + nl) at 1 by lia.
  eapply shift_iterations; try eassumption. reflexivity.
Qed.

(** as a refinement of statement lists, usable under [refines_plug] *)
Theorem rule_shift_loop : forall i lo hi nlo V body par,
  ~ In i V -> depends_on V lo -> depends_on V nlo ->
  forallb (okbind (okb i V)) body = true -> forallb (nm_s i (fun _ => false)) body = true ->
  (forall st l, eval st lo = Ok (VInt l) -> exists nl, eval st nlo = Ok (VInt nl)) ->
  refines [For i lo hi body par] [shift_loop_rw i lo hi nlo body par].
Proof.
  intros i lo hi nlo V body par Hi Dlo Dnlo Hok Hnm Hev st st' H. rewrite single in *.
  assert (exists l, eval st lo = Ok (VInt l)) as [l Hl].
  { rewrite exec_For in H. destruct (eval st lo) as [vl|]; cbn [bind] in H; [|discriminate H].
    destruct vl; cbn in H; try discriminate H. eexists; reflexivity. }
  destruct (Hev st l Hl) as [nl Hnl].
  eapply shift_loop_run; eassumption.
Qed.

(** ** syntactic sufficient condition for [depends_on]: an index expression over variables in V *)
Fixpoint index_over (V : list sym) (e : expr) : bool :=
  match e with
  | Var y => memb y V
  | Int _ => true
  | USub a => index_over V a
  | BinOp _ a b => index_over V a && index_over V b
  | _ => false
  end.

Lemma memb_true : forall y V, memb y V = true -> In y V.
Proof.
  intros y V H. unfold memb in H. apply existsb_exists in H as [z [Hz E]]. apply Pos.eqb_eq in E. subst z. exact Hz.
Qed.

Lemma index_over_depends : forall V e, index_over V e = true -> depends_on V e.
Proof.
  intros V e. induction e; cbn [index_over]; intro H; try discriminate H; intros st st' Hag.
  - cbn [eval]. rewrite (Hag _ (memb_true _ _ H)). reflexivity.
  - reflexivity.
  - cbn [eval]. rewrite (IHe H st st' Hag). reflexivity.
  - apply andb_true_iff in H as [H1 H2]. cbn [eval].
    rewrite (IHe1 H1 st st' Hag), (IHe2 H2 st st' Hag). reflexivity.
Qed.

(** non-vacuity: a concrete shifted loop *)
Example shift_example :
  let i := 1%positive in let n := 2%positive in
  let body := [Assign 3%positive [Var i] (Real (Qcanon.Q2Qc (QArith_base.Qmake 1 1)))] in
  ~ In i [n] /\ index_over [n] (Var n) = true /\ index_over [n] (Int 0) = true /\
  forallb (okbind (okb i [n])) body = true /\ forallb (nm_s i (fun _ => false)) body = true.
Proof. cbn. repeat split; try reflexivity. intros [H|[]]; discriminate H. Qed.

(** ** the whole-procedure rewrite, as the implementation performs it (the loop is found by its Sym) *)
From Core Require Import RewriteAt.

Fixpoint fv_index (e : expr) : list sym :=
  match e with
  | Var y => [y]
  | USub a => fv_index a
  | BinOp _ a b => fv_index a ++ fv_index b
  | _ => []
  end.

Definition shift_f (i : sym) (nlo : expr) (s : stmt) : option stmt :=
  match s with
  | For j lo hi body par => if Pos.eqb j i then Some (shift_loop_rw i lo hi nlo body par) else None
  | _ => None
  end.

(** the hypotheses of [rule_shift_loop], decided on the matched loop *)
Definition shift_ok (i : sym) (nlo : expr) (s : stmt) : bool :=
  match s with
  | For j lo hi body par =>
      let V := fv_index lo ++ fv_index nlo in
      negb (memb i V) && index_over V lo && index_over V nlo && forallb (okbind (okb i V)) body
      && forallb (nm_s i (fun _ => false)) body
  | _ => false
  end.

Definition shift_proc (i : sym) (nlo : expr) : proc -> proc := rw_proc (shift_f i nlo).
Definition shift_ok_proc (i : sym) (nlo : expr) : proc -> bool := ok_proc (shift_f i nlo) (shift_ok i nlo).

Lemma shift_f_sound : forall i nlo, (forall st, exists nl, eval st nlo = Ok (VInt nl)) ->
  forall s s', shift_f i nlo s = Some s' -> shift_ok i nlo s = true -> refines [s] [s'].
Proof.
  intros i nlo Hev s s' Hf Hok. destruct s; cbn [shift_f] in Hf; try discriminate Hf.
  destruct (Pos.eqb i0 i) eqn:E; [|discriminate Hf]. apply Pos.eqb_eq in E. subst i0.
  injection Hf as <-. cbn [shift_ok] in Hok.
  apply andb_true_iff in Hok as [Hok Hnm]. apply andb_true_iff in Hok as [Hok Hbody]. apply andb_true_iff in Hok as [Hok Hnlo].
  apply andb_true_iff in Hok as [Hi Hlo]. apply negb_true_iff in Hi.
  eapply rule_shift_loop with (V := fv_index lo ++ fv_index nlo).
  - apply memb_false, Hi.
  - apply index_over_depends, Hlo.
  - apply index_over_depends, Hnlo.
  - exact Hbody.
  - exact Hnm.
  - intros st l _. apply Hev.
Qed.

Theorem shift_proc_preserves : forall i nlo p inp bufs cfg,
  (forall st, exists nl, eval st nlo = Ok (VInt nl)) ->
  shift_ok_proc i nlo p = true -> run p inp = Done bufs cfg -> run (shift_proc i nlo p) inp = Done bufs cfg.
Proof.
  intros i nlo p inp bufs cfg Hev Hok. unfold shift_proc, shift_ok_proc in *.
  apply rw_proc_preserves with (ok := shift_ok i nlo); [|exact Hok].
  apply shift_f_sound, Hev.
Qed.

Corollary shift_proc_literal_preserves : forall i z p inp bufs cfg,
  shift_ok_proc i (Int z) p = true -> run p inp = Done bufs cfg -> run (shift_proc i (Int z) p) inp = Done bufs cfg.
Proof. intros i z p inp bufs cfg. apply shift_proc_preserves. intro st. exists z. reflexivity. Qed.

Example shift_proc_example :
  let i := 1%positive in let n := 2%positive in let x := 3%positive in
  let p := Proc [(n, KSize); (x, KTensor [Var n] false)] []
             [For i (Int 2) (Var n) [Assign x [BinOp OSub (Var i) (Int 2)] (Real (Qcanon.Q2Qc (QArith_base.Qmake 1 1)))] false] in
  shift_ok_proc i (Int 0) p = true /\
  shift_proc i (Int 0) p =
    Proc [(n, KSize); (x, KTensor [Var n] false)] []
      [For i (Int 0) (BinOp OAdd (Int 0) (BinOp OSub (Var n) (Int 2)))
         [Assign x [BinOp OSub (BinOp OAdd (Var i) (BinOp OSub (Int 2) (Int 0))) (Int 2)]
                 (Real (Qcanon.Q2Qc (QArith_base.Qmake 1 1)))] false].
Proof. split; reflexivity. Qed.

(** ** renaming the iteration variable (the effect of Alpha_Rename on a duplicated loop: cut_loop, fission,
    divide_loop's tail loop give the copy a fresh iteration Sym) *)
Section RenameIter.
  Variables i i2 : sym.
  Hypothesis ne : i <> i2.

  Definition okbR (y : sym) : bool := negb (Pos.eqb y i) && negb (Pos.eqb y i2).
  Definition hidR (y : sym) : bool := Pos.eqb y i2.

  Fixpoint TR (e : env) : env :=
    match e with
    | [] => []
    | (y, b) :: r => if Pos.eqb y i then (i2, b) :: r else (y, b) :: TR r
    end.

  Lemma TR_lookup : forall e y, y <> i -> hidR y = false -> lookup y (TR e) = lookup y e.
  Proof.
    induction e as [|[z b] r IH]; intros y Hy Hh; [reflexivity|]. cbn [TR]. unfold hidR in Hh.
    destruct (Pos.eqb z i) eqn:E.
    - apply Pos.eqb_eq in E. subst z. cbn [lookup]. rewrite Hh.
      destruct (Pos.eqb y i) eqn:E2; [apply Pos.eqb_eq in E2; contradiction|reflexivity].
    - cbn [lookup]. destruct (Pos.eqb y z); [reflexivity|]. apply IH; assumption.
  Qed.
  Lemma okbR_i : okbR i = false.
  Proof. unfold okbR. rewrite Pos.eqb_refl. reflexivity. Qed.
  Lemma TR_cons : forall y b e, okbR y = true -> TR ((y, b) :: e) = (y, b) :: TR e.
  Proof.
    intros y b e H. unfold okbR in H. apply andb_true_iff in H as [H _]. apply negb_true_iff in H.
    cbn [TR]. rewrite H. reflexivity.
  Qed.

  Lemma rename_iteration : forall body k st0 s,
    forallb (okbind okbR) body = true -> forallb (nm_s i hidR) body = true ->
    loop_body i body k st0 = Ok s -> loop_body i2 (pe_ss i (Var i2) body) k st0 = Ok s.
  Proof.
    intros body k st0 s Hok Hnm Hrun. unfold loop_body in *.
    pose (Good := fun e : env => lookup i2 e = Some (BVal (VInt k))).
    assert (Hev : forall st, Good (s_env st) -> eval st (Var i2) = Ok (VInt k)).
    { intros st Hg. cbn [eval]. unfold Good in Hg. rewrite Hg. reflexivity. }
    assert (Hgc : forall y b e, okbR y = true -> Good e -> Good ((y, b) :: e)).
    { intros y b e Hy Hg. unfold Good in *. unfold okbR in Hy. apply andb_true_iff in Hy as [_ Hy].
      apply negb_true_iff in Hy. cbn [lookup]. rewrite Pos.eqb_sym, Hy. exact Hg. }
    pose proof (body_sub i (Var i2) (VInt k) okbR TR Good hidR okbR_i Hev (fun st _ => eq_refl) TR_lookup TR_cons Hgc
                  body (bind_var i (BVal (VInt k)) st0) Hok Hnm) as Hsim.
    assert (Hinv : inv i (VInt k) TR Good (bind_var i (BVal (VInt k)) st0)).
    { split; cbn [bind_var s_env lookup TR]; rewrite Pos.eqb_refl; [reflexivity|].
      unfold Good. cbn [lookup]. rewrite Pos.eqb_refl. reflexivity. }
    specialize (Hsim Hinv).
    assert (Ht : tst TR (bind_var i (BVal (VInt k)) st0) = bind_var i2 (BVal (VInt k)) st0).
    { unfold tst, with_env, bind_var. cbn [s_env s_heap s_next s_cfg TR]. rewrite Pos.eqb_refl. reflexivity. }
    rewrite Ht in Hsim.
    destruct (exec_list body (bind_var i (BVal (VInt k)) st0)) as [s1|] eqn:E1; cbn [bind] in Hrun; [|discriminate Hrun].
    destruct (exec_list (pe_ss i (Var i2) body) (bind_var i2 (BVal (VInt k)) st0)) as [s2|] eqn:E2;
      cbn [rsim] in Hsim; [|contradiction].
    destruct Hsim as [-> _]. cbn [bind]. rewrite <- Hrun. reflexivity.
  Qed.

  Theorem rule_rename_iter : forall lo hi body par,
    forallb (okbind okbR) body = true -> forallb (nm_s i hidR) body = true ->
    refines [For i lo hi body par] [For i2 lo hi (pe_ss i (Var i2) body) par].
  Proof.
    intros lo hi body par Hok Hnm st st' H. rewrite single in *. rewrite exec_For in *.
    destruct (eval st lo) as [vl|]; cbn [bind] in *; [|discriminate H].
    destruct (as_int vl) as [l|]; cbn [bind] in *; [|discriminate H].
    destruct (eval st hi) as [vh|]; cbn [bind] in *; [|discriminate H].
    destruct (as_int vh) as [h|]; cbn [bind] in *; [|discriminate H].
    destruct (h <? l); [discriminate H|].
    revert H. generalize (Z.to_nat (h - l)) as n. generalize l as k. clear l. revert st.
    intros st k n. revert k st. induction n as [|n IH]; intros k st H; cbn [iter_loop] in *; [exact H|].
    destruct (loop_body i body k st) as [s1|] eqn:E1; cbn [bind] in H; [|discriminate H].
    rewrite (rename_iteration body k st s1 Hok Hnm E1). cbn [bind]. apply IH, H.
  Qed.
End RenameIter.
