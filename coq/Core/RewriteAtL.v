(** * Applying a local rewrite that may replace one statement by several (remove_loop splices the body in place of
    the loop, unroll_loop and cut_loop produce several statements).  List-valued version of RewriteAt.v. *)
From Coq Require Import ZArith List Bool.
From Core Require Import Syntax Sem Equiv Induction RewriteAt.
Import ListNotations.

Lemma refines_app2 : forall a a' b b', refines a a' -> refines b b' -> refines (a ++ b) (a' ++ b').
Proof.
  intros a a' b b' H1 H2 st st' H. rewrite exec_list_app in *.
  destruct (exec_list a st) as [s1|] eqn:E; cbn [bind] in H; [|discriminate H].
  rewrite (H1 st s1 E). cbn [bind]. apply H2, H.
Qed.

Section RewriteAtL.
  Variable f : stmt -> option (list stmt).
  Variable ok : stmt -> bool.
  Hypothesis f_sound : forall s l, f s = Some l -> ok s = true -> refines [s] l.

  Fixpoint rwl_s (s : stmt) {struct s} : list stmt :=
    match f s with
    | Some l => l
    | None =>
        match s with
        | If c a b =>
            [If c ((fix go (l : list stmt) : list stmt := match l with [] => [] | x :: r => rwl_s x ++ go r end) a)
                  ((fix go (l : list stmt) : list stmt := match l with [] => [] | x :: r => rwl_s x ++ go r end) b)]
        | For i lo hi body par =>
            [For i lo hi ((fix go (l : list stmt) : list stmt := match l with [] => [] | x :: r => rwl_s x ++ go r end) body) par]
        | _ => [s]
        end
    end.
  Fixpoint rwl_ss (l : list stmt) : list stmt := match l with [] => [] | x :: r => rwl_s x ++ rwl_ss r end.

  Fixpoint okl_s (s : stmt) {struct s} : bool :=
    match f s with
    | Some _ => ok s
    | None =>
        match s with
        | If c a b =>
            (fix go (l : list stmt) : bool := match l with [] => true | x :: r => okl_s x && go r end) a &&
            (fix go (l : list stmt) : bool := match l with [] => true | x :: r => okl_s x && go r end) b
        | For i lo hi body par =>
            (fix go (l : list stmt) : bool := match l with [] => true | x :: r => okl_s x && go r end) body
        | _ => true
        end
    end.

  Lemma go_rwl : forall l,
    (fix go (l : list stmt) : list stmt := match l with [] => [] | x :: r => rwl_s x ++ go r end) l = rwl_ss l.
  Proof. induction l as [|x r IH]; [reflexivity|]. cbn [rwl_ss]. rewrite <- IH. reflexivity. Qed.
  Lemma go_okl : forall l,
    (fix go (l : list stmt) : bool := match l with [] => true | x :: r => okl_s x && go r end) l = forallb okl_s l.
  Proof. induction l as [|x r IH]; [reflexivity|]. cbn [forallb]. rewrite <- IH. reflexivity. Qed.

  Definition PL (s : stmt) : Prop := okl_s s = true -> refines [s] (rwl_s s).

  Lemma listl_refines : forall l, Forall PL l -> forallb okl_s l = true -> refines l (rwl_ss l).
  Proof.
    intros l H. induction H as [|s r Hs Hr IH]; intro Hok; [apply refines_refl|].
    cbn [forallb] in Hok. apply andb_true_iff in Hok as [H1 H2]. cbn [rwl_ss].
    change (s :: r) with ([s] ++ r). apply refines_app2; [apply Hs, H1|apply IH, H2].
  Qed.

  Ltac leafl := unfold PL; intro; cbn [okl_s rwl_s] in *;
    match goal with
    | |- context [f ?s] => destruct (f s) eqn:?; [apply f_sound; assumption|apply refines_refl]
    end.

  Theorem rwl_s_refines : forall s, PL s.
  Proof.
    induction s using stmt_ind2; try leafl.
    - unfold PL. intro Hok. cbn [okl_s rwl_s] in *.
      match goal with |- context [f ?s] => destruct (f s) eqn:? end; [apply f_sound; assumption|].
      rewrite !go_okl in Hok. rewrite !go_rwl. apply andb_true_iff in Hok as [H1 H2].
      apply refines_if; apply listl_refines; assumption.
    - unfold PL. intro Hok. cbn [okl_s rwl_s] in *.
      match goal with |- context [f ?s] => destruct (f s) eqn:? end; [apply f_sound; assumption|].
      rewrite go_okl in Hok. rewrite go_rwl. apply refines_for, listl_refines; assumption.
  Qed.

  Theorem rwl_ss_refines : forall l, forallb okl_s l = true -> refines l (rwl_ss l).
  Proof. intros l H. apply listl_refines; [|exact H]. apply Forall_forall. intros s _. apply rwl_s_refines. Qed.

  Definition rwl_proc (p : proc) : proc :=
    match p with Proc formals preds body => Proc formals preds (rwl_ss body) end.
  Definition okl_proc (p : proc) : bool :=
    match p with Proc _ _ body => forallb okl_s body end.

  Theorem rwl_proc_preserves : forall p inp bufs cfg,
    okl_proc p = true -> run p inp = Done bufs cfg -> run (rwl_proc p) inp = Done bufs cfg.
  Proof.
    intros [formals preds body] inp bufs cfg Hok. cbn [rwl_proc okl_proc] in *.
    apply run_refines, rwl_ss_refines, Hok.
  Qed.
End RewriteAtL.
