(** * fission (DoFissionAfterSimple, one lift out of a loop) as a whole-procedure rewrite: the loop over A ++ B
    becomes a loop over A followed by a loop over B with the same iteration Sym (the implementation does not
    rename the second loop). *)
From Coq Require Import ZArith List Bool Lia.
From Core Require Import Syntax Sem Equiv Induction Rules RewriteAtL FissionFuse.
Import ListNotations.
Local Open Scope Z_scope.

Definition fission_f (i : sym) (k : nat) (s : stmt) : option (list stmt) :=
  match s with
  | For j lo hi body par =>
      if Pos.eqb j i then Some [For j lo hi (firstn k body) par; For j lo hi (skipn k body) par] else None
  | _ => None
  end.

Definition fission_syn_ok (k : nat) (s : stmt) : bool :=
  match s with
  | For j lo hi body par => forallb nodecl (firstn k body) && env_only lo && env_only hi
  | _ => false
  end.

(** the contract of Check_FissionLoop *)
Definition fission_sem_ok (k : nat) (s : stmt) : Prop :=
  match s with
  | For j lo hi body par =>
      forall st l h, eval st lo = Ok (VInt l) -> eval st hi = Ok (VInt h) ->
        commute_contract j (firstn k body) (skipn k body) l h
  | _ => True
  end.

Lemma fission_f_sound : forall i k s l,
  fission_sem_ok k s -> fission_f i k s = Some l -> fission_syn_ok k s = true -> refines [s] l.
Proof.
  intros i k s l Hsem Hf Hok. destruct s; cbn [fission_f] in Hf; try discriminate Hf.
  destruct (Pos.eqb i0 i); [|discriminate Hf]. injection Hf as <-.
  cbn [fission_syn_ok] in Hok. apply andb_true_iff in Hok as [Hok H3]. apply andb_true_iff in Hok as [H1 H2].
  rewrite <- (firstn_skipn k body) at 1.
  apply rule_fission; assumption.
Qed.

Definition fission_proc (i : sym) (k : nat) : proc -> proc := rwl_proc (fission_f i k).
Definition fission_ok_proc (i : sym) (k : nat) : proc -> bool := okl_proc (fission_f i k) (fission_syn_ok k).

Theorem fission_proc_preserves : forall i k p inp bufs cfg,
  (forall s l, fission_f i k s = Some l -> fission_sem_ok k s) ->
  fission_ok_proc i k p = true -> run p inp = Done bufs cfg -> run (fission_proc i k p) inp = Done bufs cfg.
Proof.
  intros i k p inp bufs cfg Hsem Hok. unfold fission_proc, fission_ok_proc in *.
  apply rwl_proc_preserves with (ok := fission_syn_ok k); [|exact Hok].
  intros s l Hf Hs. eapply fission_f_sound; [eapply Hsem; exact Hf|exact Hf|exact Hs].
Qed.
