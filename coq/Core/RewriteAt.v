(** * Applying a local statement rewrite everywhere it matches.

    Scheduling operations are local: they replace one statement (found by its unique Sym) deep inside
    the procedure body.  [rw_s f] applies the partial function [f] at every statement where it is
    defined, descending through loops and branches (not into callees, like the implementation).
    If [f] is sound wherever the side condition [ok] holds, the whole rewritten procedure preserves the
    original ([rw_proc_preserves]).  This is the bridge between the per-rule theorems (Rules.v,
    ShiftLoop.v, ...) and the whole-procedure terms that the harness compares with the output of the
    real operation. *)
From Coq Require Import ZArith List Bool.
From Core Require Import Syntax Sem Equiv Induction.
Import ListNotations.

Lemma refines_cons : forall s s' r r', refines [s] [s'] -> refines r r' -> refines (s :: r) (s' :: r').
Proof.
  intros s s' r r' H1 H2 st st' H. cbn [exec_list] in *.
  destruct (exec s st) as [st1|] eqn:E; cbn [bind] in H; [|discriminate H].
  specialize (H1 st st1). rewrite !single in H1. rewrite (H1 E). cbn [bind]. apply H2, H.
Qed.

Section RewriteAt.
  Variable f : stmt -> option stmt.
  Variable ok : stmt -> bool.
  Hypothesis f_sound : forall s s', f s = Some s' -> ok s = true -> refines [s] [s'].

  Fixpoint rw_s (s : stmt) {struct s} : stmt :=
    match f s with
    | Some s' => s'
    | None =>
        match s with
        | If c a b =>
            If c ((fix go (l : list stmt) : list stmt := match l with [] => [] | x :: r => rw_s x :: go r end) a)
                 ((fix go (l : list stmt) : list stmt := match l with [] => [] | x :: r => rw_s x :: go r end) b)
        | For i lo hi body par =>
            For i lo hi ((fix go (l : list stmt) : list stmt := match l with [] => [] | x :: r => rw_s x :: go r end) body) par
        | _ => s
        end
    end.
  Definition rw_ss (l : list stmt) : list stmt := map rw_s l.

  Fixpoint ok_s (s : stmt) {struct s} : bool :=
    match f s with
    | Some _ => ok s
    | None =>
        match s with
        | If c a b =>
            (fix go (l : list stmt) : bool := match l with [] => true | x :: r => ok_s x && go r end) a &&
            (fix go (l : list stmt) : bool := match l with [] => true | x :: r => ok_s x && go r end) b
        | For i lo hi body par =>
            (fix go (l : list stmt) : bool := match l with [] => true | x :: r => ok_s x && go r end) body
        | _ => true
        end
    end.

  Lemma go_rw : forall l,
    (fix go (l : list stmt) : list stmt := match l with [] => [] | x :: r => rw_s x :: go r end) l = rw_ss l.
  Proof. induction l as [|x r IH]; [reflexivity|]. unfold rw_ss in *. cbn [map]. rewrite <- IH. reflexivity. Qed.
  Lemma go_ok : forall l,
    (fix go (l : list stmt) : bool := match l with [] => true | x :: r => ok_s x && go r end) l = forallb ok_s l.
  Proof. induction l as [|x r IH]; [reflexivity|]. cbn [forallb]. rewrite <- IH. reflexivity. Qed.

  Definition P (s : stmt) : Prop := ok_s s = true -> refines [s] [rw_s s].

  Lemma list_refines : forall l, Forall P l -> forallb ok_s l = true -> refines l (rw_ss l).
  Proof.
    intros l H. induction H as [|s r Hs Hr IH]; intro Hok; [apply refines_refl|].
    cbn [forallb] in Hok. apply andb_true_iff in Hok as [H1 H2].
    unfold rw_ss. cbn [map]. apply refines_cons; [apply Hs, H1|apply IH, H2].
  Qed.

  Ltac leaf := unfold P; intro; cbn [ok_s rw_s] in *;
    match goal with
    | |- context [f ?s] => destruct (f s) eqn:?; [apply f_sound; assumption|apply refines_refl]
    end.

  Theorem rw_s_refines : forall s, P s.
  Proof.
    induction s using stmt_ind2; try leaf.
    - (* If *) unfold P. intro Hok. cbn [ok_s rw_s] in *.
      match goal with |- context [f ?s] => destruct (f s) eqn:? end; [apply f_sound; assumption|].
      rewrite !go_ok in Hok. rewrite !go_rw. apply andb_true_iff in Hok as [H1 H2].
      apply refines_if; apply list_refines; assumption.
    - (* For *) unfold P. intro Hok. cbn [ok_s rw_s] in *.
      match goal with |- context [f ?s] => destruct (f s) eqn:? end; [apply f_sound; assumption|].
      rewrite go_ok in Hok. rewrite go_rw. apply refines_for, list_refines; assumption.
  Qed.

  Theorem rw_ss_refines : forall l, forallb ok_s l = true -> refines l (rw_ss l).
  Proof. intros l H. apply list_refines; [|exact H]. apply Forall_forall. intros s _. apply rw_s_refines. Qed.

  Definition rw_proc (p : proc) : proc :=
    match p with Proc formals preds body => Proc formals preds (rw_ss body) end.
  Definition ok_proc (p : proc) : bool :=
    match p with Proc _ _ body => forallb ok_s body end.

  Theorem rw_proc_preserves : forall p inp bufs cfg,
    ok_proc p = true -> run p inp = Done bufs cfg -> run (rw_proc p) inp = Done bufs cfg.
  Proof.
    intros [formals preds body] inp bufs cfg Hok. cbn [rw_proc ok_proc] in *.
    apply run_refines, rw_ss_refines, Hok.
  Qed.
End RewriteAt.
