(** * transpose (DoRearrangeDim with permutation [1;0] on a 2-D argument): model and correctness.

    The implementation swaps the two extents of the argument and the two indices of every access to it
    (reads, writes, reductions, window expressions, stride expressions, stride assertions).  [tr_proc] is
    that rewrite on the deep embedding; correctness: run on the transposed view of the same cells, it
    leaves exactly the same memory as the original run on the original view. *)
From Coq Require Import ZArith List Bool Lia.
From Core Require Import Syntax Sem Equiv Induction PartialEvalSound.
Import ListNotations.
Local Open Scope Z_scope.

Section TR.
  Variable a : sym.   (* the 2-D argument being transposed *)

  Definition swap2 {A} (l : list A) : list A := match l with [x; y] => [y; x] | _ => l end.

  Fixpoint tr_e (e : expr) {struct e} : expr :=
    match e with
    | Var _ | Int _ | BoolC _ | Real _ | ReadCfg _ => e
    | Read y idx =>
        let idx' := (fix go (l : list expr) : list expr := match l with [] => [] | x :: r => tr_e x :: go r end) idx in
        Read y (if Pos.eqb y a then swap2 idx' else idx')
    | USub x => USub (tr_e x)
    | BinOp op x y => BinOp op (tr_e x) (tr_e y)
    | Extern f args =>
        Extern f ((fix go (l : list expr) : list expr := match l with [] => [] | x :: r => tr_e x :: go r end) args)
    | WindowE y acc =>
        let acc' := (fix go (l : list wacc) : list wacc :=
                       match l with
                       | [] => []
                       | Point x :: r => Point (tr_e x) :: go r
                       | Interval x z :: r => Interval (tr_e x) (tr_e z) :: go r
                       end) acc in
        WindowE y (if Pos.eqb y a then swap2 acc' else acc')
    | Stride y d =>
        if Pos.eqb y a then Stride y (match d with O => 1%nat | S O => O | _ => d end) else e
    end.

  Definition tr_es (l : list expr) : list expr := map tr_e l.
  Definition tr_w (w : wacc) : wacc :=
    match w with Point x => Point (tr_e x) | Interval x z => Interval (tr_e x) (tr_e z) end.

  Lemma tgo_e : forall l,
    (fix go (l : list expr) : list expr := match l with [] => [] | x :: r => tr_e x :: go r end) l = tr_es l.
  Proof. induction l as [|x r IH]; [reflexivity|]. unfold tr_es in *. cbn [map]. rewrite <- IH. reflexivity. Qed.
  Lemma tgo_w : forall l,
    (fix go (l : list wacc) : list wacc :=
       match l with
       | [] => []
       | Point x :: r => Point (tr_e x) :: go r
       | Interval x z :: r => Interval (tr_e x) (tr_e z) :: go r
       end) l = map tr_w l.
  Proof. induction l as [|[x|x z] r IH]; [reflexivity| |]; cbn [map tr_w]; rewrite <- IH; reflexivity. Qed.

  Lemma tr_e_Read : forall y idx, tr_e (Read y idx) = Read y (if Pos.eqb y a then swap2 (tr_es idx) else tr_es idx).
  Proof. intros. cbn [tr_e]. rewrite tgo_e. reflexivity. Qed.
  Lemma tr_e_Extern : forall f args, tr_e (Extern f args) = Extern f (tr_es args).
  Proof. intros. cbn [tr_e]. rewrite tgo_e. reflexivity. Qed.
  Lemma tr_e_WindowE : forall y acc,
    tr_e (WindowE y acc) = WindowE y (if Pos.eqb y a then swap2 (map tr_w acc) else map tr_w acc).
  Proof. intros. cbn [tr_e]. rewrite tgo_w. reflexivity. Qed.

  Fixpoint tr_s (s : stmt) {struct s} : stmt :=
    match s with
    | Assign y idx rhs => Assign y (if Pos.eqb y a then swap2 (tr_es idx) else tr_es idx) (tr_e rhs)
    | Reduce y idx rhs => Reduce y (if Pos.eqb y a then swap2 (tr_es idx) else tr_es idx) (tr_e rhs)
    | WriteCfg f rhs => WriteCfg f (tr_e rhs)
    | Pass => Pass
    | If e x y =>
        If (tr_e e)
           ((fix go (l : list stmt) : list stmt := match l with [] => [] | s' :: r => tr_s s' :: go r end) x)
           ((fix go (l : list stmt) : list stmt := match l with [] => [] | s' :: r => tr_s s' :: go r end) y)
    | For i lo hi x par =>
        For i (tr_e lo) (tr_e hi)
            ((fix go (l : list stmt) : list stmt := match l with [] => [] | s' :: r => tr_s s' :: go r end) x) par
    | Alloc y shape => Alloc y (tr_es shape)
    | Call f args => Call f (tr_es args)
    | WindowS y rhs => WindowS y (tr_e rhs)
    end.

  Definition tr_ss (l : list stmt) : list stmt := map tr_s l.
  Lemma tgo_s : forall l,
    (fix go (l : list stmt) : list stmt := match l with [] => [] | s' :: r => tr_s s' :: go r end) l = tr_ss l.
  Proof. induction l as [|x r IH]; [reflexivity|]. unfold tr_ss in *. cbn [map]. rewrite <- IH. reflexivity. Qed.
  Lemma tr_s_If : forall e x y, tr_s (If e x y) = If (tr_e e) (tr_ss x) (tr_ss y).
  Proof. intros. cbn [tr_s]. rewrite !tgo_s. reflexivity. Qed.
  Lemma tr_s_For : forall i lo hi x par, tr_s (For i lo hi x par) = For i (tr_e lo) (tr_e hi) (tr_ss x) par.
  Proof. intros. cbn [tr_s]. rewrite tgo_s. reflexivity. Qed.

  Definition tr_kind (y : sym) (k : argkind) : argkind :=
    match k with
    | KTensor shape w => KTensor (if Pos.eqb y a then swap2 (tr_es shape) else tr_es shape) w
    | _ => k
    end.

  Definition tr_formals (fs : list (sym * argkind)) : list (sym * argkind) :=
    map (fun fk => (fst fk, tr_kind (fst fk) (snd fk))) fs.

  Definition tr_proc (p : proc) : proc :=
    match p with
    | Proc formals preds body => Proc (tr_formals formals) (tr_es preds) (tr_ss body)
    end.
End TR.
