(** * Configuration state: what a statement list that never reads a field can observe of it.

    [delete_config] removes a write [Cfg.f = e]; [write_config] inserts one.  Both are sound when the rest of
    the procedure never reads [f]: buffers end up identical and the only configuration field that may differ
    at exit is [f] — the field the system reports (property C10). *)
From Coq Require Import ZArith List Bool Lia.
From Core Require Import Syntax Sem Equiv Induction PartialEvalSound.
Import ListNotations.
Local Open Scope Z_scope.

Section Field.
  Variable c : cfgfield.

  (** no read of the field [c], anywhere (callee bodies and callee assertions included) *)
  Fixpoint noread_e (e : expr) {struct e} : bool :=
    match e with
    | ReadCfg k => negb (Pos.eqb k c)
    | Var _ | Int _ | BoolC _ | Real _ | Stride _ _ => true
    | Read _ idx => (fix go (l : list expr) : bool := match l with [] => true | a :: r => noread_e a && go r end) idx
    | USub a => noread_e a
    | BinOp _ a b => noread_e a && noread_e b
    | Extern _ args => (fix go (l : list expr) : bool := match l with [] => true | a :: r => noread_e a && go r end) args
    | WindowE _ acc =>
        (fix go (l : list wacc) : bool :=
           match l with
           | [] => true
           | Point a :: r => noread_e a && go r
           | Interval a b :: r => noread_e a && noread_e b && go r
           end) acc
    end.

  Definition noread_es (l : list expr) : bool := forallb noread_e l.
  Definition noread_w (w : wacc) : bool :=
    match w with Point a => noread_e a | Interval a b => noread_e a && noread_e b end.

  Lemma go_e : forall l,
    (fix go (l : list expr) : bool := match l with [] => true | a :: r => noread_e a && go r end) l = noread_es l.
  Proof. induction l as [|a r IH]; [reflexivity|]. unfold noread_es in *. cbn [forallb]. rewrite <- IH. reflexivity. Qed.
  Lemma go_w : forall l,
    (fix go (l : list wacc) : bool :=
       match l with
       | [] => true
       | Point a :: r => noread_e a && go r
       | Interval a b :: r => noread_e a && noread_e b && go r
       end) l = forallb noread_w l.
  Proof. induction l as [|[a|a b] r IH]; [reflexivity| |]; cbn [forallb noread_w]; rewrite <- IH; reflexivity. Qed.

  Definition noread_kind (k : argkind) : bool :=
    match k with KTensor shape _ => noread_es shape | _ => true end.

  Fixpoint noread_s (s : stmt) {struct s} : bool :=
    match s with
    | Assign _ idx rhs | Reduce _ idx rhs => noread_es idx && noread_e rhs
    | WriteCfg _ rhs => noread_e rhs
    | Pass => true
    | If e a b =>
        noread_e e &&
        (fix go (l : list stmt) : bool := match l with [] => true | x :: r => noread_s x && go r end) a &&
        (fix go (l : list stmt) : bool := match l with [] => true | x :: r => noread_s x && go r end) b
    | For _ lo hi a _ =>
        noread_e lo && noread_e hi &&
        (fix go (l : list stmt) : bool := match l with [] => true | x :: r => noread_s x && go r end) a
    | Alloc _ shape => noread_es shape
    | WindowS _ rhs => noread_e rhs
    | Call f args =>
        noread_es args &&
        match f with
        | Proc formals preds body =>
            forallb (fun fk => noread_kind (snd fk)) formals && noread_es preds &&
            (fix go (l : list stmt) : bool := match l with [] => true | x :: r => noread_s x && go r end) body
        end
    end.

  Lemma go_s : forall l,
    (fix go (l : list stmt) : bool := match l with [] => true | x :: r => noread_s x && go r end) l = forallb noread_s l.
  Proof. induction l as [|a r IH]; [reflexivity|]. cbn [forallb]. rewrite <- IH. reflexivity. Qed.

  (** states that agree on everything except, possibly, the value of field [c] *)
  Definition Rc (st1 st2 : state) : Prop :=
    s_env st1 = s_env st2 /\ s_heap st1 = s_heap st2 /\ s_next st1 = s_next st2 /\
    forall k, k <> c -> lookup k (s_cfg st1) = lookup k (s_cfg st2).

  Lemma Rc_refl : forall st, Rc st st. Proof. intro st. repeat split; auto. Qed.

  Lemma get_view_Rc : forall st1 st2 y, Rc st1 st2 -> get_view st1 y = get_view st2 y.
  Proof. intros st1 st2 y (He & _). unfold get_view. rewrite He. reflexivity. Qed.

  Definition eRc (st1 st2 : state) (e : expr) : Prop := noread_e e = true -> eval st1 e = eval st2 e.

  Lemma eval_ints_Rc : forall st1 st2 l, Forall (eRc st1 st2) l -> noread_es l = true -> eval_ints st1 l = eval_ints st2 l.
  Proof.
    intros st1 st2 l H. induction H as [|a r Ha Hr IH]; intro Hn; [reflexivity|].
    cbn [noread_es forallb] in Hn. apply andb_true_iff in Hn as [H1 H2]. cbn [eval_ints].
    rewrite (Ha H1), (IH H2). reflexivity.
  Qed.

  Lemma eval_vals_Rc : forall st1 st2 l, Forall (eRc st1 st2) l -> noread_es l = true -> eval_vals st1 l = eval_vals st2 l.
  Proof.
    intros st1 st2 l H. induction H as [|a r Ha Hr IH]; intro Hn; [reflexivity|].
    cbn [noread_es forallb] in Hn. apply andb_true_iff in Hn as [H1 H2]. cbn [eval_vals].
    rewrite (Ha H1), (IH H2). reflexivity.
  Qed.

  Lemma eval_waccs_Rc : forall st1 st2 l, Forall (PW (eRc st1 st2)) l -> forallb noread_w l = true ->
    eval_waccs st1 l = eval_waccs st2 l.
  Proof.
    intros st1 st2 l H. induction H as [|w r Hw Hr IH]; intro Hn; [reflexivity|].
    cbn [forallb] in Hn. apply andb_true_iff in Hn as [H1 H2].
    destruct w as [a|a b]; cbn [PW noread_w eval_waccs] in *.
    - rewrite (Hw H1), (IH H2). reflexivity.
    - apply andb_true_iff in H1 as [Ha Hb]. destruct Hw as [Ea Eb]. rewrite (Ea Ha), (Eb Hb), (IH H2). reflexivity.
  Qed.

  Theorem eval_Rc : forall e st1 st2, Rc st1 st2 -> eRc st1 st2 e.
  Proof.
    intros e st1 st2 HR. unfold eRc. destruct HR as (He & Hh & Hn & Hc).
    assert (HR : Rc st1 st2) by (repeat split; assumption).
    induction e using expr_ind2; intro Hnr.
    - cbn [eval]. rewrite He. reflexivity.
    - reflexivity.
    - reflexivity.
    - reflexivity.
    - cbn [noread_e] in Hnr. rewrite go_e in Hnr. rewrite !eval_Read, (get_view_Rc _ _ _ HR), Hh.
      rewrite (eval_ints_Rc st1 st2 idx H Hnr). reflexivity.
    - cbn [noread_e] in Hnr. cbn [eval]. rewrite (IHe Hnr). reflexivity.
    - cbn [noread_e] in Hnr. apply andb_true_iff in Hnr as [H1 H2]. cbn [eval]. rewrite (IHe1 H1), (IHe2 H2). reflexivity.
    - cbn [noread_e] in Hnr. rewrite go_e in Hnr. rewrite !eval_Extern, (eval_vals_Rc st1 st2 args H Hnr). reflexivity.
    - reflexivity.
    - cbn [eval]. rewrite (get_view_Rc _ _ _ HR). reflexivity.
    - cbn [noread_e] in Hnr. apply negb_true_iff, Pos.eqb_neq in Hnr. cbn [eval]. rewrite (Hc _ Hnr). reflexivity.
  Qed.

  Lemma eval_ints_Rc' : forall st1 st2 l, Rc st1 st2 -> noread_es l = true -> eval_ints st1 l = eval_ints st2 l.
  Proof. intros. apply eval_ints_Rc; [|assumption]. apply Forall_forall. intros e _. apply eval_Rc; assumption. Qed.

  Lemma eval_view_Rc : forall st1 st2 e, Rc st1 st2 -> noread_e e = true -> eval_view st1 e = eval_view st2 e.
  Proof.
    intros st1 st2 e HR Hn. destruct e; try reflexivity.
    - cbn [noread_e] in Hn. rewrite go_e in Hn. destruct idx as [|a r].
      + cbn [eval_view]. apply get_view_Rc, HR.
      + cbn [eval_view]. rewrite (get_view_Rc _ _ _ HR), (eval_ints_Rc' _ _ (a :: r) HR Hn). reflexivity.
    - cbn [noread_e] in Hn. rewrite go_w in Hn. cbn [eval_view]. rewrite (get_view_Rc _ _ _ HR).
      rewrite (eval_waccs_Rc st1 st2 acc); [reflexivity| |exact Hn].
      apply Forall_forall. intros w _. destruct w; cbn [PW]; [apply eval_Rc, HR | split; apply eval_Rc, HR].
  Qed.

  Lemma eval_actuals_Rc : forall formals args st1 st2, Rc st1 st2 -> noread_es args = true ->
    eval_actuals st1 formals args = eval_actuals st2 formals args.
  Proof.
    induction formals as [|[y k] fr IH]; intros args st1 st2 HR Hn; destruct args as [|e er]; try reflexivity.
    cbn [noread_es forallb] in Hn. apply andb_true_iff in Hn as [H1 H2]. cbn [eval_actuals].
    assert (Ha : eval_actual st1 k e = eval_actual st2 k e).
    { destruct k; cbn [eval_actual]; try (rewrite (eval_Rc e st1 st2 HR H1); reflexivity);
        rewrite (eval_view_Rc st1 st2 e HR H1); reflexivity. }
    rewrite Ha, (IH er st1 st2 HR H2). reflexivity.
  Qed.

  Definition Rw (st1 st2 : state) := Rc st1 st2.

  Lemma Rc_bind_var : forall y b st1 st2, Rc st1 st2 -> Rc (bind_var y b st1) (bind_var y b st2).
  Proof. intros y b st1 st2 (He & Hh & Hn & Hc). repeat split; cbn [bind_var s_env s_heap s_next s_cfg]; auto. rewrite He. reflexivity. Qed.

  Lemma Rc_with_env : forall e st1 st2, Rc st1 st2 -> Rc (with_env e st1) (with_env e st2).
  Proof. intros e st1 st2 (He & Hh & Hn & Hc). repeat split; cbn; auto. Qed.

  Lemma bind_args_Rc : forall fs bs st1 st2, Rc st1 st2 -> forallb (fun fk => noread_kind (snd fk)) fs = true ->
    rsim Rc (bind_args fs bs st1) (bind_args fs bs st2).
  Proof.
    induction fs as [|[y k] fs IH]; intros bs st1 st2 HR Hn; destruct bs as [|a bs]; cbn [bind_args]; try exact I.
    - exact HR.
    - cbn [forallb snd] in Hn. apply andb_true_iff in Hn as [Hk Hn].
      pose proof (Rc_bind_var y a _ _ HR) as HR'.
      destruct k, a as [[z|b|d]|w]; try exact I.
      + destruct (0 <? z); [apply IH; assumption|exact I].
      + apply IH; assumption.
      + apply IH; assumption.
      + apply IH; assumption.
      + destruct (vdims w); [apply IH; assumption|exact I].
      + cbn [noread_kind] in Hk. rewrite (eval_ints_Rc' _ _ shape HR Hk).
        destruct (eval_ints st2 shape) as [sh|]; cbn [bind]; [|exact I].
        destruct (all_pos sh); [|exact I]. destruct (list_eq_dec _ _ _); [apply IH; assumption|exact I].
  Qed.

  Lemma check_preds_Rc : forall ps st1 st2, Rc st1 st2 -> noread_es ps = true -> check_preds st1 ps = check_preds st2 ps.
  Proof.
    induction ps as [|p r IH]; intros st1 st2 HR Hn; [reflexivity|].
    cbn [noread_es forallb] in Hn. apply andb_true_iff in Hn as [H1 H2]. cbn [check_preds].
    rewrite (eval_Rc p st1 st2 HR H1). destruct (eval st2 p) as [v|]; cbn [bind]; [|reflexivity].
    destruct (as_bool v) as [[]|]; cbn [bind]; [apply IH; assumption|reflexivity|reflexivity].
  Qed.

  Lemma lookup_update_ne : forall (k k' : positive) (v : value) l, k <> k' -> lookup k (update k' v l) = lookup k l.
  Proof.
    induction l as [|[k0 v0] r IH]; intro Hne; cbn [update lookup].
    - destruct (Pos.eqb k k') eqn:E; [apply Pos.eqb_eq in E; contradiction|reflexivity].
    - destruct (Pos.eqb k' k0) eqn:E0.
      + apply Pos.eqb_eq in E0. subst k0. cbn [lookup].
        destruct (Pos.eqb k k') eqn:E; [apply Pos.eqb_eq in E; contradiction|reflexivity].
      + cbn [lookup]. destruct (Pos.eqb k k0); [reflexivity|apply IH, Hne].
  Qed.

  Lemma lookup_update_eq : forall (k : positive) (v : value) l, lookup k (update k v l) = Some v.
  Proof.
    induction l as [|[k0 v0] r IH]; cbn [update lookup].
    - rewrite Pos.eqb_refl. reflexivity.
    - destruct (Pos.eqb k k0) eqn:E0; cbn [lookup]; [rewrite Pos.eqb_refl; reflexivity|]. rewrite E0. exact IH.
  Qed.

  Definition sRc (s : stmt) : Prop :=
    noread_s s = true -> forall st1 st2, Rc st1 st2 -> rsim Rc (exec s st1) (exec s st2).

  Lemma exec_list_Rc : forall l, Forall sRc l -> forallb noread_s l = true ->
    forall st1 st2, Rc st1 st2 -> rsim Rc (exec_list l st1) (exec_list l st2).
  Proof.
    intros l H. induction H as [|s r Hs Hr IH]; intros Hn st1 st2 HR; cbn [exec_list]; [exact HR|].
    cbn [forallb] in Hn. apply andb_true_iff in Hn as [H1 H2].
    eapply rsim_bind; [apply Hs; assumption|]. intros a b Hab. apply IH; assumption.
  Qed.

  Lemma iter_loop_Rc : forall f,
    (forall k st1 st2, Rc st1 st2 -> rsim Rc (f k st1) (f k st2)) ->
    forall n k st1 st2, Rc st1 st2 -> rsim Rc (iter_loop n k f st1) (iter_loop n k f st2).
  Proof.
    intros f H. induction n as [|n IH]; intros k st1 st2 HR; cbn [iter_loop]; [exact HR|].
    eapply rsim_bind; [apply H, HR|]. intros a b Hab. apply IH, Hab.
  Qed.

  Theorem exec_Rc : forall s, sRc s.
  Proof.
    induction s using stmt_ind3; unfold sRc; intros Hn st1 st2 HR;
      pose proof HR as (He & Hh & Hnx & Hc).
    - (* Assign *) cbn [noread_s] in Hn. apply andb_true_iff in Hn as [H1 H2]. cbn [exec].
      rewrite (get_view_Rc _ _ _ HR), (eval_ints_Rc' _ _ idx HR H1), (eval_Rc rhs _ _ HR H2), Hh.
      destruct (get_view st2 x) as [w|]; cbn [bind]; [|exact I].
      destruct (eval_ints st2 idx) as [is|]; cbn [bind]; [|exact I].
      destruct (eval st2 rhs) as [v|]; cbn [bind]; [|exact I].
      destruct (as_data v) as [d|]; cbn [bind]; [|exact I].
      destruct (cell_write _ _ _ _) as [h|]; cbn [bind]; [|exact I].
      repeat split; cbn; auto.
    - (* Reduce *) cbn [noread_s] in Hn. apply andb_true_iff in Hn as [H1 H2]. cbn [exec].
      rewrite (get_view_Rc _ _ _ HR), (eval_ints_Rc' _ _ idx HR H1), (eval_Rc rhs _ _ HR H2), Hh.
      destruct (get_view st2 x) as [w|]; cbn [bind]; [|exact I].
      destruct (eval_ints st2 idx) as [is|]; cbn [bind]; [|exact I].
      destruct (eval st2 rhs) as [v|]; cbn [bind]; [|exact I].
      destruct (as_data v) as [d|]; cbn [bind]; [|exact I].
      destruct (cell_read _ _ _) as [old|]; cbn [bind]; [|exact I].
      destruct (cell_write _ _ _ _) as [h|]; cbn [bind]; [|exact I].
      repeat split; cbn; auto.
    - (* WriteCfg *) cbn [noread_s] in Hn. cbn [exec]. rewrite (eval_Rc rhs _ _ HR Hn).
      destruct (eval st2 rhs) as [v|]; cbn [bind]; [|exact I].
      repeat split; cbn [s_env s_heap s_next s_cfg]; auto. intros k Hk.
      destruct (Pos.eq_dec k c0) as [->|Hne].
      + rewrite !lookup_update_eq. reflexivity.
      + rewrite !lookup_update_ne by exact Hne. apply Hc, Hk.
    - (* Pass *) cbn. exact HR.
    - (* If *) cbn [noread_s] in Hn. rewrite !go_s in Hn.
      apply andb_true_iff in Hn as [Hn Hb']. apply andb_true_iff in Hn as [Hce Ha'].
      rewrite !exec_If, (eval_Rc c0 _ _ HR Hce).
      destruct (eval st2 c0) as [v|]; cbn [bind]; [|exact I].
      destruct (as_bool v) as [[]|]; cbn [bind]; [| |exact I]; unfold scoped.
      + eapply rsim_bind; [apply exec_list_Rc; eassumption|]. intros x y Hxy. cbn. rewrite He. apply Rc_with_env, Hxy.
      + eapply rsim_bind; [apply exec_list_Rc; eassumption|]. intros x y Hxy. cbn. rewrite He. apply Rc_with_env, Hxy.
    - (* For *) cbn [noread_s] in Hn. rewrite go_s in Hn.
      apply andb_true_iff in Hn as [Hn Hbody]. apply andb_true_iff in Hn as [Hlo Hhi].
      rewrite !exec_For, (eval_Rc lo _ _ HR Hlo), (eval_Rc hi _ _ HR Hhi).
      destruct (eval st2 lo) as [vl|]; cbn [bind]; [|exact I]. destruct (as_int vl) as [l|]; cbn [bind]; [|exact I].
      destruct (eval st2 hi) as [vh|]; cbn [bind]; [|exact I]. destruct (as_int vh) as [h|]; cbn [bind]; [|exact I].
      destruct (h <? l); [exact I|].
      apply iter_loop_Rc; [|exact HR]. intros k s1 s2 H12. unfold loop_body.
      eapply rsim_bind; [apply exec_list_Rc; [eassumption|eassumption|apply Rc_bind_var, H12]|].
      intros x y Hxy. cbn. destruct H12 as (He12 & _). rewrite He12. apply Rc_with_env, Hxy.
    - (* Alloc *) cbn [noread_s] in Hn. cbn [exec]. rewrite (eval_ints_Rc' _ _ shape HR Hn).
      destruct (eval_ints st2 shape) as [sh|]; cbn [bind]; [|exact I].
      destruct (all_pos sh); [|exact I]. cbn. rewrite He, Hh, Hnx. repeat split; cbn; auto.
    - (* Call *) cbn [noread_s] in Hn. rewrite go_s in Hn.
      apply andb_true_iff in Hn as [Hargs Hn]. apply andb_true_iff in Hn as [Hn Hbody]. apply andb_true_iff in Hn as [Hf Hp].
      rewrite !exec_Call, (eval_actuals_Rc formals args _ _ HR Hargs).
      destruct (eval_actuals st2 formals args) as [acts|]; cbn [bind]; [|exact I].
      eapply rsim_bind; [apply bind_args_Rc; [apply Rc_with_env, HR|exact Hf]|].
      intros c1 c2 H12. rewrite (check_preds_Rc preds _ _ H12 Hp).
      destruct (check_preds c2 preds); cbn [bind]; [|exact I].
      eapply rsim_bind; [apply exec_list_Rc; eassumption|].
      intros x y Hxy. cbn. rewrite He. apply Rc_with_env, Hxy.
    - (* WindowS *) cbn [noread_s] in Hn. cbn [exec]. rewrite (eval_view_Rc _ _ rhs HR Hn).
      destruct (eval_view st2 rhs) as [w|]; cbn [bind]; [|exact I]. apply Rc_bind_var, HR.
  Qed.

  Lemma exec_list_Rc' : forall l, forallb noread_s l = true ->
    forall st1 st2, Rc st1 st2 -> rsim Rc (exec_list l st1) (exec_list l st2).
  Proof. intros l Hn. apply exec_list_Rc; [|exact Hn]. apply Forall_forall. intros s _. apply exec_Rc. Qed.

  (** ** delete_config / write_config at the top level of a procedure body *)
  Theorem delete_config_write : forall formals preds pre rhs post inp bufs cfg,
    forallb noread_s post = true ->
    run (Proc formals preds (pre ++ WriteCfg c rhs :: post)) inp = Done bufs cfg ->
    exists cfg', run (Proc formals preds (pre ++ post)) inp = Done bufs cfg' /\
                 forall k, k <> c -> lookup k cfg = lookup k cfg'.
  Proof.
    intros formals preds pre rhs post inp bufs cfg Hn. unfold run.
    destruct (forallb inbuf_ok (in_args inp)); [|discriminate].
    destruct (load_inputs (in_args inp) _) as [bs st1].
    destruct (bind_args formals bs st1) as [st2|]; [|discriminate].
    destruct (check_preds st2 preds); [|discriminate].
    rewrite !exec_list_app. destruct (exec_list pre st2) as [st3|]; cbn [bind]; [|discriminate].
    cbn [exec_list exec]. destruct (eval st3 rhs) as [v|]; cbn [bind]; [|discriminate].
    set (st3' := mkState (s_env st3) (s_heap st3) (s_next st3) (update c v (s_cfg st3))).
    assert (HR : Rc st3' st3).
    { repeat split; cbn; auto. intros k Hk. apply lookup_update_ne, Hk. }
    pose proof (exec_list_Rc' post Hn st3' st3 HR) as Hs.
    destruct (exec_list post st3') as [s4|]; [|discriminate].
    destruct (exec_list post st3) as [s5|]; cbn [rsim] in Hs; [|contradiction].
    destruct Hs as (He & Hh & Hnx & Hc). intro H; inversion H; subst.
    exists (s_cfg s5). rewrite Hh. split; [reflexivity|exact Hc].
  Qed.

  Theorem insert_config_write : forall formals preds pre rhs post inp bufs cfg,
    forallb noread_s post = true ->
    (forall st, exists v, eval st rhs = Ok v) ->
    run (Proc formals preds (pre ++ post)) inp = Done bufs cfg ->
    exists cfg', run (Proc formals preds (pre ++ WriteCfg c rhs :: post)) inp = Done bufs cfg' /\
                 forall k, k <> c -> lookup k cfg = lookup k cfg'.
  Proof.
    intros formals preds pre rhs post inp bufs cfg Hn Hrhs. unfold run.
    destruct (forallb inbuf_ok (in_args inp)); [|discriminate].
    destruct (load_inputs (in_args inp) _) as [bs st1].
    destruct (bind_args formals bs st1) as [st2|]; [|discriminate].
    destruct (check_preds st2 preds); [|discriminate].
    rewrite !exec_list_app. destruct (exec_list pre st2) as [st3|]; cbn [bind]; [|discriminate].
    cbn [exec_list exec]. destruct (Hrhs st3) as [v Hv]. rewrite Hv. cbn [bind].
    set (st3' := mkState (s_env st3) (s_heap st3) (s_next st3) (update c v (s_cfg st3))).
    assert (HR : Rc st3 st3').
    { repeat split; cbn; auto. intros k Hk. symmetry. apply lookup_update_ne, Hk. }
    pose proof (exec_list_Rc' post Hn st3 st3' HR) as Hs.
    destruct (exec_list post st3) as [s4|]; [|discriminate].
    destruct (exec_list post st3') as [s5|]; cbn [rsim] in Hs; [|contradiction].
    destruct Hs as (He & Hh & Hnx & Hc). intro H; inversion H; subst.
    exists (s_cfg s5). rewrite Hh. split; [reflexivity|exact Hc].
  Qed.
End Field.

(** non-vacuity: a procedure that writes field 1, then a loop that reads field 2 only *)
Example delete_config_example :
  let post := [For 3%positive (Int 0) (ReadCfg 2%positive)
                   [Assign 1%positive [Var 3%positive] (Real (Qcanon.Q2Qc (QArith_base.Qmake 1 1)))] false] in
  forallb (noread_s 1%positive) post = true /\
  exists b c, run (Proc [(1%positive, KTensor [Int 2] false)] [] ([] ++ WriteCfg 1%positive (Int 7) :: post))
                  (mkInput [InBuf 0 [(2, 1)] [None; None]] [(2%positive, VInt 2)]) = Done b c.
Proof. split; [reflexivity|]. eexists. eexists. vm_compute. reflexivity. Qed.
