(** * Static well-formedness of LoopIR procedures (property C04, scoping clause):
    every use of a variable lies in the scope of exactly one declaration of it. *)
From Coq Require Import ZArith List Bool.
From Core Require Import Syntax.
Import ListNotations.

Fixpoint mem (x : sym) (l : list sym) : bool :=
  match l with [] => false | y :: r => Pos.eqb x y || mem x r end.

Fixpoint wf_expr (sc : list sym) (e : expr) {struct e} : bool :=
  match e with
  | Var x => mem x sc
  | Int _ | BoolC _ | Real _ | ReadCfg _ => true
  | Read x idx => mem x sc && (fix go (l : list expr) : bool :=
                                 match l with [] => true | a :: r => wf_expr sc a && go r end) idx
  | USub a => wf_expr sc a
  | BinOp _ a b => wf_expr sc a && wf_expr sc b
  | Extern _ args => (fix go (l : list expr) : bool :=
                        match l with [] => true | a :: r => wf_expr sc a && go r end) args
  | WindowE x acc =>
      mem x sc && (fix go (l : list wacc) : bool :=
                     match l with
                     | [] => true
                     | Point a :: r => wf_expr sc a && go r
                     | Interval a b :: r => wf_expr sc a && wf_expr sc b && go r
                     end) acc
  | Stride x _ => mem x sc
  end.

Definition wf_exprs (sc : list sym) (l : list expr) : bool := forallb (wf_expr sc) l.

(** formal parameters: each is declared once; shapes may mention earlier parameters only *)
Fixpoint wf_formals (sc : list sym) (fs : list (sym * argkind)) : option (list sym) :=
  match fs with
  | [] => Some sc
  | (x, k) :: r =>
      if mem x sc then None else
      match k with
      | KTensor shape _ => if wf_exprs sc shape then wf_formals (x :: sc) r else None
      | _ => wf_formals (x :: sc) r
      end
  end.

(** [wf_stmt sc s] returns the scope after [s] (declarations extend it), or None *)
Fixpoint wf_stmt (sc : list sym) (s : stmt) {struct s} : option (list sym) :=
  match s with
  | Assign x idx rhs | Reduce x idx rhs =>
      if mem x sc && wf_exprs sc idx && wf_expr sc rhs then Some sc else None
  | WriteCfg _ rhs => if wf_expr sc rhs then Some sc else None
  | Pass => Some sc
  | If c body orelse =>
      if wf_expr sc c then
        match (fix go (sc : list sym) (l : list stmt) : option (list sym) :=
                 match l with [] => Some sc
                 | s' :: r => match wf_stmt sc s' with Some sc' => go sc' r | None => None end end) sc body,
              (fix go (sc : list sym) (l : list stmt) : option (list sym) :=
                 match l with [] => Some sc
                 | s' :: r => match wf_stmt sc s' with Some sc' => go sc' r | None => None end end) sc orelse with
        | Some _, Some _ => Some sc
        | _, _ => None
        end
      else None
  | For i lo hi body _ =>
      if wf_expr sc lo && wf_expr sc hi && negb (mem i sc) then
        match (fix go (sc : list sym) (l : list stmt) : option (list sym) :=
                 match l with [] => Some sc
                 | s' :: r => match wf_stmt sc s' with Some sc' => go sc' r | None => None end end) (i :: sc) body with
        | Some _ => Some sc
        | None => None
        end
      else None
  | Alloc x shape => if wf_exprs sc shape && negb (mem x sc) then Some (x :: sc) else None
  | WindowS x rhs => if wf_expr sc rhs && negb (mem x sc) then Some (x :: sc) else None
  | Call f args =>
      match f with
      | Proc formals preds body =>
          if wf_exprs sc args && Nat.eqb (length args) (length formals) then
            match wf_formals [] formals with
            | Some csc =>
                if wf_exprs csc preds then
                  match (fix go (sc : list sym) (l : list stmt) : option (list sym) :=
                           match l with [] => Some sc
                           | s' :: r => match wf_stmt sc s' with Some sc' => go sc' r | None => None end end) csc body with
                  | Some _ => Some sc
                  | None => None
                  end
                else None
            | None => None
            end
          else None
      end
  end.

Fixpoint wf_stmts (sc : list sym) (l : list stmt) : option (list sym) :=
  match l with [] => Some sc
  | s :: r => match wf_stmt sc s with Some sc' => wf_stmts sc' r | None => None end end.

Definition wf_proc (p : proc) : bool :=
  match p with
  | Proc formals preds body =>
      match wf_formals [] formals with
      | Some sc => wf_exprs sc preds && match wf_stmts sc body with Some _ => true | None => false end
      | None => false
      end
  end.
