(** * Correctness of partial_eval: fixing a control argument to a literal and removing it from the
    signature yields a procedure that behaves like the original with that argument set to the value. *)
From Coq Require Import ZArith List Bool Lia QArith Qcanon.
From Core Require Import Syntax Sem Equiv Induction PartialEval.
Import ListNotations.
Local Open Scope Z_scope.

(** results agree up to the kind of error *)
Definition rsim {A B} (Rel : A -> B -> Prop) (r1 : result A) (r2 : result B) : Prop :=
  match r1, r2 with
  | Ok a, Ok b => Rel a b
  | Err _, Err _ => True
  | _, _ => False
  end.

Lemma rsim_refl : forall A (r : result A), rsim eq r r.
Proof. destruct r; cbn; auto. Qed.

Lemma rsim_bind : forall A B A' B' (R1 : A -> B -> Prop) (R2 : A' -> B' -> Prop) r1 r2 f g,
  rsim R1 r1 r2 -> (forall a b, R1 a b -> rsim R2 (f a) (g b)) -> rsim R2 (bind r1 f) (bind r2 g).
Proof. intros. destruct r1, r2; cbn in *; auto; contradiction. Qed.

Lemma rsim_eq_bind : forall A A' B' (R2 : A' -> B' -> Prop) (r1 r2 : result A) f g,
  rsim eq r1 r2 -> (forall a, rsim R2 (f a) (g a)) -> rsim R2 (bind r1 f) (bind r2 g).
Proof. intros. eapply rsim_bind; [eassumption|]. intros a b ->. auto. Qed.

Section Sound.
  Variable x : sym.
  Variable c : expr.
  Variable cv : value.
  Hypothesis c_eval : forall st, eval st c = Ok cv.
  Hypothesis c_noview : forall st, eval_view st c = Err TypeErr.

  Notation pe_e := (pe_e x c).
  Notation pe_s := (pe_s x c).

  Fixpoint drop (e : env) : env :=
    match e with
    | [] => []
    | (y, b) :: r => if Pos.eqb y x then drop r else (y, b) :: drop r
    end.

  Definition dropst (st : state) : state := with_env (drop (s_env st)) st.
  Definition bound (st : state) : Prop := lookup x (s_env st) = Some (BVal cv).
  Definition R (st1 st2 : state) : Prop := st2 = dropst st1 /\ bound st1.

  Lemma lookup_drop_ne : forall e y, y <> x -> lookup y (drop e) = lookup y e.
  Proof.
    induction e as [|[z b] r IH]; intros y Hy; [reflexivity|]. cbn [drop lookup].
    destruct (Pos.eqb z x) eqn:Ez.
    - apply Pos.eqb_eq in Ez. subst z. destruct (Pos.eqb y x) eqn:Ey; [apply Pos.eqb_eq in Ey; contradiction|]. auto.
    - cbn [lookup]. destruct (Pos.eqb y z); auto.
  Qed.

  Lemma lookup_drop_eq : forall e, lookup x (drop e) = None.
  Proof.
    induction e as [|[z b] r IH]; [reflexivity|]. cbn [drop].
    destruct (Pos.eqb z x) eqn:Ez; [exact IH|]. cbn [lookup]. rewrite Pos.eqb_sym, Ez. exact IH.
  Qed.

  Lemma dropst_heap : forall st, s_heap (dropst st) = s_heap st. Proof. reflexivity. Qed.
  Lemma dropst_cfg : forall st, s_cfg (dropst st) = s_cfg st. Proof. reflexivity. Qed.
  Lemma dropst_env : forall st, s_env (dropst st) = drop (s_env st). Proof. reflexivity. Qed.

  (** ** expressions *)
  Lemma get_view_sim : forall st y, bound st -> rsim eq (get_view st y) (get_view (dropst st) y).
  Proof.
    intros st y Hb. unfold get_view. rewrite dropst_env.
    destruct (Pos.eq_dec y x) as [->|Hne].
    - rewrite lookup_drop_eq. unfold bound in Hb. rewrite Hb. cbn. exact I.
    - rewrite lookup_drop_ne by exact Hne. apply rsim_refl.
  Qed.

  Fixpoint eval_vals (st : state) (l : list expr) : result (list value) :=
    match l with
    | [] => Ok []
    | a :: r => do v <- eval st a; do vs <- eval_vals st r; Ok (v :: vs)
    end.

  Lemma evs_ints : forall st l,
    (fix evs (l : list expr) : result (list Z) :=
       match l with
       | [] => Ok []
       | a :: r => do v <- eval st a; do z <- as_int v; do zs <- evs r; Ok (z :: zs)
       end) l = eval_ints st l.
  Proof. induction l as [|a r IH]; [reflexivity|]. cbn [eval_ints]. rewrite <- IH. reflexivity. Qed.

  Lemma evs_vals : forall st l,
    (fix evs (l : list expr) : result (list value) :=
       match l with
       | [] => Ok []
       | a :: r => do v <- eval st a; do vs <- evs r; Ok (v :: vs)
       end) l = eval_vals st l.
  Proof. induction l as [|a r IH]; [reflexivity|]. cbn [eval_vals]. rewrite <- IH. reflexivity. Qed.

  Lemma eval_Read : forall st y idx,
    eval st (Read y idx) =
    (do w <- get_view st y; do is <- eval_ints st idx; do d <- cell_read (s_heap st) w is; Ok (VData d)).
  Proof. intros. cbn [eval]. rewrite evs_ints. reflexivity. Qed.

  Lemma eval_Extern : forall st f args,
    eval st (Extern f args) = (do vs <- eval_vals st args; eval_extern f vs).
  Proof. intros. cbn [eval]. rewrite evs_vals. reflexivity. Qed.

  Definition esim (st : state) (e : expr) : Prop := rsim eq (eval st e) (eval (dropst st) (pe_e e)).

  Lemma eval_ints_sim : forall st l, Forall (esim st) l ->
    rsim eq (eval_ints st l) (eval_ints (dropst st) (pe_es x c l)).
  Proof.
    intros st l H. induction H as [|a r Ha Hr IH]; [cbn; reflexivity|].
    cbn [pe_es map eval_ints]. fold (pe_es x c r).
    eapply rsim_eq_bind; [exact Ha|]. intro v. destruct (as_int v); cbn [bind]; [|exact I].
    eapply rsim_eq_bind; [exact IH|]. intro zs. cbn. reflexivity.
  Qed.

  Lemma eval_vals_sim : forall st l, Forall (esim st) l ->
    rsim eq (eval_vals st l) (eval_vals (dropst st) (pe_es x c l)).
  Proof.
    intros st l H. induction H as [|a r Ha Hr IH]; [cbn; reflexivity|].
    cbn [pe_es map eval_vals]. fold (pe_es x c r).
    eapply rsim_eq_bind; [exact Ha|]. intro v.
    eapply rsim_eq_bind; [exact IH|]. intro zs. cbn. reflexivity.
  Qed.

  Lemma eval_waccs_sim : forall st l, Forall (PW (esim st)) l ->
    rsim eq (eval_waccs st l) (eval_waccs (dropst st) (map (pe_w x c) l)).
  Proof.
    intros st l H. induction H as [|w r Hw Hr IH]; [cbn; reflexivity|].
    destruct w as [a|a b]; cbn [map pe_w eval_waccs PW] in *.
    - eapply rsim_eq_bind; [exact Hw|]. intro v. destruct (as_int v); cbn [bind]; [|exact I].
      eapply rsim_eq_bind; [exact IH|]. intro rs. cbn. reflexivity.
    - destruct Hw as [Ha Hb].
      eapply rsim_eq_bind; [exact Ha|]. intro v. destruct (as_int v); cbn [bind]; [|exact I].
      eapply rsim_eq_bind; [exact Hb|]. intro v'. destruct (as_int v'); cbn [bind]; [|exact I].
      eapply rsim_eq_bind; [exact IH|]. intro rs. cbn. reflexivity.
  Qed.

  Theorem eval_sim : forall e st, bound st -> esim st e.
  Proof.
    intros e st Hb. unfold esim. induction e using expr_ind2.
    - (* Var *) cbn [PartialEval.pe_e]. destruct (Pos.eqb x0 x) eqn:E.
      + apply Pos.eqb_eq in E. subst x0. rewrite c_eval. cbn [eval]. unfold bound in Hb. rewrite Hb. cbn. reflexivity.
      + apply Pos.eqb_neq in E. cbn [eval]. rewrite dropst_env, lookup_drop_ne by exact E. apply rsim_refl.
    - cbn. reflexivity.
    - cbn. reflexivity.
    - cbn. reflexivity.
    - (* Read *) rewrite pe_e_Read, !eval_Read.
      eapply rsim_eq_bind; [apply get_view_sim, Hb|]. intro w.
      eapply rsim_eq_bind; [apply eval_ints_sim, H|]. intro is. rewrite dropst_heap. apply rsim_refl.
    - (* USub *) cbn [PartialEval.pe_e eval]. eapply rsim_eq_bind; [exact IHe|]. intro v. apply rsim_refl.
    - (* BinOp *) cbn [PartialEval.pe_e eval]. eapply rsim_eq_bind; [exact IHe1|]. intro v1.
      eapply rsim_eq_bind; [exact IHe2|]. intro v2. apply rsim_refl.
    - (* Extern *) rewrite pe_e_Extern, !eval_Extern.
      eapply rsim_eq_bind; [apply eval_vals_sim, H|]. intro vs. apply rsim_refl.
    - (* WindowE *) rewrite pe_e_WindowE. cbn [eval]. exact I.
    - (* Stride *) cbn [PartialEval.pe_e eval].
      eapply rsim_eq_bind; [apply get_view_sim, Hb|]. intro w. apply rsim_refl.
    - (* ReadCfg *) cbn [PartialEval.pe_e eval]. rewrite dropst_cfg. apply rsim_refl.
  Qed.

  Lemma eval_ints_sim' : forall st l, bound st -> rsim eq (eval_ints st l) (eval_ints (dropst st) (pe_es x c l)).
  Proof. intros. apply eval_ints_sim. apply Forall_forall. intros e _. apply eval_sim, H. Qed.

  Lemma eval_view_sim : forall st e, bound st -> rsim eq (eval_view st e) (eval_view (dropst st) (pe_e e)).
  Proof.
    intros st e Hb. destruct e; try (cbn; exact I).
    - (* Var *) cbn [PartialEval.pe_e]. destruct (Pos.eqb x0 x).
      + rewrite c_noview. cbn. exact I.
      + cbn. exact I.
    - (* Read *) rewrite pe_e_Read. destruct idx as [|a r].
      + cbn [pe_es map eval_view]. apply get_view_sim, Hb.
      + cbn [pe_es map eval_view]. fold (pe_es x c (a :: r)).
        eapply rsim_eq_bind; [apply get_view_sim, Hb|]. intro w.
        eapply rsim_eq_bind; [apply (eval_ints_sim' st (a :: r)), Hb|]. intro is. apply rsim_refl.
    - (* WindowE *) rewrite pe_e_WindowE. cbn [eval_view].
      eapply rsim_eq_bind; [apply get_view_sim, Hb|]. intro w.
      eapply rsim_eq_bind; [apply eval_waccs_sim|].
      { apply Forall_forall. intros wa _. destruct wa; cbn [PW]; [apply eval_sim, Hb | split; apply eval_sim, Hb]. }
      intro av. apply rsim_refl.
  Qed.

  (** ** statements *)
  (** [x] is not re-declared inside the body (Syms are unique in well-formed procedures) *)
  Fixpoint nobind (s : stmt) {struct s} : bool :=
    match s with
    | For i _ _ body _ =>
        negb (Pos.eqb i x) &&
        (fix go (l : list stmt) : bool := match l with [] => true | a :: r => nobind a && go r end) body
    | If _ a b =>
        (fix go (l : list stmt) : bool := match l with [] => true | a :: r => nobind a && go r end) a &&
        (fix go (l : list stmt) : bool := match l with [] => true | a :: r => nobind a && go r end) b
    | Alloc y _ | WindowS y _ => negb (Pos.eqb y x)
    | _ => true
    end.

  Lemma go_forallb : forall l,
    (fix go (l : list stmt) : bool := match l with [] => true | a :: r => nobind a && go r end) l = forallb nobind l.
  Proof. induction l as [|a r IH]; [reflexivity|]. cbn [forallb]. rewrite <- IH. reflexivity. Qed.

  Lemma bound_with_heap : forall h st, bound st -> bound (with_heap h st). Proof. auto. Qed.
  Lemma bound_bind_var : forall y b st, y <> x -> bound st -> bound (bind_var y b st).
  Proof.
    unfold bound. intros y b st Hne Hb. cbn [bind_var s_env lookup].
    destruct (Pos.eqb x y) eqn:E; [apply Pos.eqb_eq in E; congruence|]. exact Hb.
  Qed.
  Lemma dropst_bind_var : forall y b st, y <> x -> dropst (bind_var y b st) = bind_var y b (dropst st).
  Proof.
    intros y b st Hne. unfold dropst, bind_var, with_env. cbn [s_env s_heap s_next s_cfg drop].
    destruct (Pos.eqb y x) eqn:E; [apply Pos.eqb_eq in E; contradiction|]. reflexivity.
  Qed.

  Definition ssim (s : stmt) : Prop :=
    nobind s = true -> forall st, bound st -> rsim R (exec s st) (exec (pe_s s) (dropst st)).

  Lemma exec_list_sim : forall l, Forall ssim l -> forallb nobind l = true ->
    forall st, bound st -> rsim R (exec_list l st) (exec_list (pe_ss x c l) (dropst st)).
  Proof.
    intros l H. induction H as [|s r Hs Hr IH]; intros Hnb st Hb.
    - cbn. split; [reflexivity|exact Hb].
    - cbn [forallb] in Hnb. apply andb_true_iff in Hnb as [Hn1 Hn2].
      cbn [pe_ss map exec_list]. fold (pe_ss x c r).
      eapply rsim_bind; [apply Hs; assumption|]. intros st1 st2 [-> Hb1]. apply IH; assumption.
  Qed.

  Lemma scoped_sim : forall l,
    (forall st, bound st -> rsim R (exec_list l st) (exec_list (pe_ss x c l) (dropst st))) ->
    forall st, bound st -> rsim R (scoped l st) (scoped (pe_ss x c l) (dropst st)).
  Proof.
    intros l H st Hb. unfold scoped.
    eapply rsim_bind; [apply H, Hb|]. intros st1 st2 [-> Hb1]. cbn. split; [reflexivity|exact Hb].
  Qed.

  Lemma iter_loop_sim : forall f g,
    (forall k st, bound st -> rsim R (f k st) (g k (dropst st))) ->
    forall n k st, bound st -> rsim R (iter_loop n k f st) (iter_loop n k g (dropst st)).
  Proof.
    intros f g H. induction n as [|n IH]; intros k st Hb; cbn [iter_loop].
    - split; [reflexivity|exact Hb].
    - eapply rsim_bind; [apply H, Hb|]. intros st1 st2 [-> Hb1]. apply IH, Hb1.
  Qed.

  Lemma eval_actuals_sim : forall formals args st, bound st ->
    rsim eq (eval_actuals st formals args) (eval_actuals (dropst st) formals (pe_es x c args)).
  Proof.
    induction formals as [|[y k] fr IH]; intros args st Hb; destruct args as [|e er]; cbn [pe_es map eval_actuals]; try exact I.
    - reflexivity.
    - fold (pe_es x c er).
      assert (Ha : rsim eq (eval_actual st k e) (eval_actual (dropst st) k (pe_e e))).
      { destruct k; cbn [eval_actual];
          try (eapply rsim_eq_bind; [apply eval_sim, Hb|]; intro v; apply rsim_refl);
          (eapply rsim_eq_bind; [apply eval_view_sim, Hb|]; intro w; apply rsim_refl). }
      eapply rsim_eq_bind; [exact Ha|]. intro b.
      eapply rsim_eq_bind; [apply IH, Hb|]. intro bs. apply rsim_refl.
  Qed.

  Theorem exec_sim : forall s, ssim s.
  Proof.
    induction s using stmt_ind2; unfold ssim; intros Hnb st Hb.
    - (* Assign *) cbn [PartialEval.pe_s exec].
      eapply rsim_eq_bind; [apply get_view_sim, Hb|]. intro w.
      eapply rsim_eq_bind; [apply eval_ints_sim', Hb|]. intro is.
      eapply rsim_eq_bind; [apply eval_sim, Hb|]. intro v.
      destruct (as_data v); cbn [bind]; [|exact I]. rewrite dropst_heap.
      destruct (cell_write _ _ _ _); cbn [bind]; [|exact I]. split; [reflexivity|exact Hb].
    - (* Reduce *) cbn [PartialEval.pe_s exec].
      eapply rsim_eq_bind; [apply get_view_sim, Hb|]. intro w.
      eapply rsim_eq_bind; [apply eval_ints_sim', Hb|]. intro is.
      eapply rsim_eq_bind; [apply eval_sim, Hb|]. intro v.
      destruct (as_data v); cbn [bind]; [|exact I]. rewrite dropst_heap.
      destruct (cell_read _ _ _); cbn [bind]; [|exact I].
      destruct (cell_write _ _ _ _); cbn [bind]; [|exact I]. split; [reflexivity|exact Hb].
    - (* WriteCfg *) cbn [PartialEval.pe_s exec].
      eapply rsim_eq_bind; [apply eval_sim, Hb|]. intro v. cbn. split; [reflexivity|exact Hb].
    - (* Pass *) cbn. split; [reflexivity|exact Hb].
    - (* If *) rewrite pe_s_If, !exec_If. cbn [nobind] in Hnb. rewrite !go_forallb in Hnb.
      apply andb_true_iff in Hnb as [Hna Hnb'].
      eapply rsim_eq_bind; [apply eval_sim, Hb|]. intro v.
      destruct (as_bool v) as [[]|]; cbn [bind]; [| |exact I].
      + apply scoped_sim; [|exact Hb]. intros st0 Hb0. apply exec_list_sim; assumption.
      + apply scoped_sim; [|exact Hb]. intros st0 Hb0. apply exec_list_sim; assumption.
    - (* For *) rewrite pe_s_For, !exec_For. cbn [nobind] in Hnb. rewrite go_forallb in Hnb.
      apply andb_true_iff in Hnb as [Hni Hnbody]. apply negb_true_iff, Pos.eqb_neq in Hni.
      eapply rsim_eq_bind; [apply eval_sim, Hb|]. intro vl. destruct (as_int vl) as [l|]; cbn [bind]; [|exact I].
      eapply rsim_eq_bind; [apply eval_sim, Hb|]. intro vh. destruct (as_int vh) as [h|]; cbn [bind]; [|exact I].
      destruct (h <? l); [exact I|].
      apply iter_loop_sim; [|exact Hb]. intros k st0 Hb0. unfold loop_body.
      rewrite <- dropst_bind_var by exact Hni.
      eapply rsim_bind; [apply exec_list_sim; [exact H|exact Hnbody|apply bound_bind_var; assumption]|].
      intros st1 st2 [-> Hb1]. cbn. split; [reflexivity|exact Hb0].
    - (* Alloc *) cbn [PartialEval.pe_s exec]. cbn [nobind] in Hnb. apply negb_true_iff, Pos.eqb_neq in Hnb.
      eapply rsim_eq_bind; [apply eval_ints_sim', Hb|]. intro sh.
      destruct (all_pos sh); [|exact I]. cbn.
      split; [|apply bound_bind_var; [exact Hnb|exact Hb]].
      unfold dropst, with_env, bind_var. cbn [s_env s_heap s_next s_cfg drop].
      destruct (Pos.eqb x0 x) eqn:E; [apply Pos.eqb_eq in E; contradiction|]. reflexivity.
    - (* Call *) destruct f as [formals preds body]. cbn [PartialEval.pe_s]. rewrite !exec_Call.
      eapply rsim_eq_bind; [apply eval_actuals_sim, Hb|]. intro acts.
      replace (with_env [] (dropst st)) with (with_env [] st) by reflexivity.
      destruct (bind_args formals acts (with_env [] st)) as [callee|]; cbn [bind]; [|exact I].
      destruct (check_preds callee preds); cbn [bind]; [|exact I].
      destruct (exec_list body callee) as [st'|]; cbn [bind]; [|exact I].
      cbn. split; [reflexivity|exact Hb].
    - (* WindowS *) cbn [PartialEval.pe_s exec]. cbn [nobind] in Hnb. apply negb_true_iff, Pos.eqb_neq in Hnb.
      eapply rsim_eq_bind; [apply eval_view_sim, Hb|]. intro w. cbn.
      split; [|apply bound_bind_var; [exact Hnb|exact Hb]].
      unfold dropst, with_env, bind_var. cbn [s_env s_heap s_next s_cfg drop].
      destruct (Pos.eqb x0 x) eqn:E; [apply Pos.eqb_eq in E; contradiction|]. reflexivity.
  Qed.
End Sound.

(** ** whole procedures *)
Definition osim (o1 o2 : outcome) : Prop :=
  match o1, o2 with
  | Done b1 c1, Done b2 c2 => b1 = b2 /\ c1 = c2
  | Invalid _, Invalid _ => True
  | Fails _, Fails _ => True
  | _, _ => False
  end.

(** the value is admissible for the kind of the argument that is fixed *)
Definition kind_ok (k : argkind) (v : value) : Prop :=
  match k, v with
  | KSize, VInt z => 0 < z
  | KIndex, VInt _ | KStride, VInt _ | KBool, VBool _ => True
  | _, _ => False
  end.

Lemma load_inputs_app : forall a b st,
  load_inputs (a ++ b) st =
  (let (ba, st1) := load_inputs a st in let (bb, st2) := load_inputs b st1 in (ba ++ bb, st2)).
Proof.
  induction a as [|i a IH]; intros b st; cbn [app load_inputs].
  - destruct (load_inputs b st); reflexivity.
  - destruct i as [v|off dims cells].
    + rewrite IH. destruct (load_inputs a st) as [ba st1]. destruct (load_inputs b st1) as [bb st2]. reflexivity.
    + rewrite IH. destruct (load_inputs a _) as [ba st1]. destruct (load_inputs b st1) as [bb st2]. reflexivity.
Qed.

Lemma load_inputs_length : forall a st, length (fst (load_inputs a st)) = length a.
Proof.
  induction a as [|i a IH]; intro st; [reflexivity|]. cbn [load_inputs]. destruct i.
  - specialize (IH st). destruct (load_inputs a st). cbn in *. congruence.
  - match goal with |- context [load_inputs a ?s] => specialize (IH s); destruct (load_inputs a s) end. cbn in *. congruence.
Qed.

Lemma load_inputs_env : forall a st, s_env (snd (load_inputs a st)) = s_env st.
Proof.
  induction a as [|i a IH]; intro st; [reflexivity|]. cbn [load_inputs]. destruct i.
  - specialize (IH st). destruct (load_inputs a st). cbn in *. exact IH.
  - match goal with |- context [load_inputs a ?s] => specialize (IH s); destruct (load_inputs a s) end. cbn in *. exact IH.
Qed.

Lemma bind_args_app : forall f1 b1 f2 b2 st, length f1 = length b1 ->
  bind_args (f1 ++ f2) (b1 ++ b2) st = (do st1 <- bind_args f1 b1 st; bind_args f2 b2 st1).
Proof.
  induction f1 as [|[y k] f1 IH]; intros b1 f2 b2 st Hl; destruct b1 as [|a b1]; try discriminate Hl.
  - reflexivity.
  - cbn [app bind_args]. cbn [length] in Hl. injection Hl as Hl.
    destruct k, a as [[z|b|d]|w]; try reflexivity.
    + destruct (0 <? z); [apply IH, Hl|reflexivity].
    + apply IH, Hl.
    + apply IH, Hl.
    + apply IH, Hl.
    + destruct (vdims w); [apply IH, Hl|reflexivity].
    + destruct (eval_ints st shape) as [sh|]; cbn [bind]; [|reflexivity].
      destruct (all_pos sh); [|reflexivity]. destruct (list_eq_dec _ _ _); [apply IH, Hl|reflexivity].
Qed.

Lemma collect_bufs_app : forall a b h, collect_bufs (a ++ b) h = collect_bufs a h ++ collect_bufs b h.
Proof. induction a as [|[v|w] a IH]; intros; cbn [app collect_bufs]; [reflexivity|apply IH|rewrite IH; reflexivity]. Qed.

Lemma bind_args_fixed : forall x kx v fs bs st, kind_ok kx v ->
  bind_args ((x, kx) :: fs) (BVal v :: bs) st = bind_args fs bs (bind_var x (BVal v) st).
Proof.
  intros x kx v fs bs st Hk. cbn [bind_args]. destruct kx, v as [z|b|d]; cbn [kind_ok] in Hk; try contradiction; try reflexivity.
  apply Z.ltb_lt in Hk. rewrite Hk. reflexivity.
Qed.

Section Top.
  Variable x : sym.
  Variable c : expr.
  Variable cv : value.
  Hypothesis c_eval : forall st, eval st c = Ok cv.
  Hypothesis c_noview : forall st, eval_view st c = Err TypeErr.

  Notation R := (R x cv).
  Notation dropst := (dropst x).

  Definition nox (e : env) : Prop := drop x e = e.

  Lemma bind_args_nox : forall fs bs st st',
    (forall y k, In (y, k) fs -> y <> x) -> nox (s_env st) ->
    bind_args fs bs st = Ok st' -> nox (s_env st').
  Proof.
    induction fs as [|[y k] fs IH]; intros bs st st' Hne Hn; destruct bs as [|a bs]; cbn [bind_args]; try discriminate.
    - intro H; inversion H; subst; exact Hn.
    - assert (Hy : y <> x) by (eapply Hne; left; reflexivity).
      assert (Hn' : nox (s_env (bind_var y a st))).
      { unfold nox in *. cbn [bind_var s_env drop]. destruct (Pos.eqb y x) eqn:E; [apply Pos.eqb_eq in E; contradiction|]. rewrite Hn. reflexivity. }
      assert (Hne' : forall y0 k0, In (y0, k0) fs -> y0 <> x) by (intros; eapply Hne; right; eassumption).
      destruct k, a as [[z|b|d]|w]; try discriminate.
      + destruct (0 <? z); [|discriminate]. apply IH; assumption.
      + apply IH; assumption.
      + apply IH; assumption.
      + apply IH; assumption.
      + destruct (vdims w); [|discriminate]. apply IH; assumption.
      + destruct (eval_ints st shape) as [sh|]; cbn [bind]; [|discriminate].
        destruct (all_pos sh); [|discriminate]. destruct (list_eq_dec _ _ _); [|discriminate]. apply IH; assumption.
  Qed.

  Lemma pe_formals_ne : forall fs, (forall y k, In (y, k) fs -> y <> x) ->
    pe_formals x c fs = map (fun fk => (fst fk, pe_kind x c (snd fk))) fs.
  Proof.
    induction fs as [|[y k] fs IH]; intro H; [reflexivity|]. cbn [pe_formals map fst snd].
    destruct (Pos.eqb y x) eqn:E; [apply Pos.eqb_eq in E; exfalso; eapply H; [left; reflexivity|exact E]|].
    rewrite IH; [reflexivity|]. intros; eapply H; right; eassumption.
  Qed.

  Lemma bind_args_sim : forall fs bs st1 st2,
    (forall y k, In (y, k) fs -> y <> x) -> R st1 st2 ->
    rsim R (bind_args fs bs st1) (bind_args (map (fun fk => (fst fk, pe_kind x c (snd fk))) fs) bs st2).
  Proof.
    induction fs as [|[y k] fs IH]; intros bs st1 st2 Hne HR; destruct bs as [|a bs]; cbn [map fst snd bind_args]; try exact I.
    - exact HR.
    - assert (Hy : y <> x) by (eapply Hne; left; reflexivity).
      assert (Hne' : forall y0 k0, In (y0, k0) fs -> y0 <> x) by (intros; eapply Hne; right; eassumption).
      destruct HR as [-> Hb].
      assert (HR' : R (bind_var y a st1) (bind_var y a (dropst st1))).
      { split; [symmetry; apply dropst_bind_var, Hy | apply bound_bind_var; assumption]. }
      destruct k, a as [[z|b|d]|w]; cbn [pe_kind]; try exact I.
      + destruct (0 <? z); [apply IH; assumption|exact I].
      + apply IH; assumption.
      + apply IH; assumption.
      + apply IH; assumption.
      + destruct (vdims w); [apply IH; assumption|exact I].
      + eapply rsim_eq_bind; [apply (eval_ints_sim' x c cv c_eval), Hb|]. intro sh.
        destruct (all_pos sh); [|exact I]. destruct (list_eq_dec _ _ _); [apply IH; assumption|exact I].
  Qed.

  Lemma check_preds_sim : forall ps st, bound x cv st ->
    rsim eq (check_preds st ps) (check_preds (dropst st) (pe_es x c ps)).
  Proof.
    induction ps as [|p r IH]; intros st Hb; cbn [pe_es map check_preds]; [reflexivity|]. fold (pe_es x c r).
    eapply rsim_eq_bind; [apply (eval_sim x c cv c_eval), Hb|]. intro v.
    destruct (as_bool v) as [[]|]; cbn [bind]; [apply IH, Hb|exact I|exact I].
  Qed.

  Theorem partial_eval_correct : forall fpre kx fpost preds body ipre ipost cfg,
    kind_ok kx cv ->
    length ipre = length fpre ->
    (forall y k, In (y, k) fpre -> y <> x /\ pe_kind x c k = k) ->
    (forall y k, In (y, k) fpost -> y <> x) ->
    forallb (nobind x) body = true ->
    osim (run (Proc (fpre ++ (x, kx) :: fpost) preds body) (mkInput (ipre ++ InVal cv :: ipost) cfg))
         (run (pe_proc x c (Proc (fpre ++ (x, kx) :: fpost) preds body)) (mkInput (ipre ++ ipost) cfg)).
  Proof.
    intros fpre kx fpost preds body ipre ipost cfg Hk Hlen Hpre Hpost Hnb.
    unfold run, pe_proc. cbn [in_args in_cfg].
    (* the signature of the residual procedure *)
    assert (Hf : pe_formals x c (fpre ++ (x, kx) :: fpost)
                 = fpre ++ map (fun fk => (fst fk, pe_kind x c (snd fk))) fpost).
    { clear -Hpre Hpost. induction fpre as [|[y k] fpre IH]; cbn [app pe_formals].
      - rewrite Pos.eqb_refl. apply pe_formals_ne, Hpost.
      - destruct (Hpre y k (or_introl eq_refl)) as [Hy Hkk].
        destruct (Pos.eqb y x) eqn:E; [apply Pos.eqb_eq in E; contradiction|].
        rewrite Hkk, IH; [reflexivity|]. intros; apply Hpre; right; assumption. }
    rewrite Hf. clear Hf.
    rewrite !forallb_app. cbn [forallb inbuf_ok andb].
    destruct (forallb inbuf_ok ipre && forallb inbuf_ok ipost) eqn:Hok.
    2:{ cbn. exact I. }
    clear Hok.
    (* loading the inputs: the fixed argument occupies no memory *)
    rewrite !load_inputs_app. cbn [load_inputs].
    pose proof (load_inputs_length ipre (mkState [] [] 1%positive cfg)) as Hl1.
    pose proof (load_inputs_env ipre (mkState [] [] 1%positive cfg)) as He1.
    destruct (load_inputs ipre (mkState [] [] 1%positive cfg)) as [bpre st1]. cbn [fst snd s_env] in Hl1, He1.
    pose proof (load_inputs_env ipost st1) as He2.
    destruct (load_inputs ipost st1) as [bpost st2]. cbn [snd] in He2.
    assert (Hlb : length fpre = length bpre) by congruence.
    (* binding the arguments *)
    rewrite (bind_args_app fpre bpre ((x, kx) :: fpost) (BVal cv :: bpost) st2 Hlb).
    rewrite (bind_args_app fpre bpre _ bpost st2 Hlb).
    destruct (bind_args fpre bpre st2) as [sta|] eqn:Ha; cbn [bind]; [|exact I].
    assert (Hnox : nox (s_env sta)).
    { eapply bind_args_nox; [| |exact Ha]; [intros y k Hin; apply (Hpre y k Hin)|].
      unfold nox. rewrite He2, He1. reflexivity. }
    assert (HR : R (bind_var x (BVal cv) sta) sta).
    { split.
      - unfold PartialEvalSound.dropst, with_env, bind_var. cbn [s_env s_heap s_next s_cfg drop].
        rewrite Pos.eqb_refl. unfold nox in Hnox. rewrite Hnox. destruct sta; reflexivity.
      - unfold bound. cbn [bind_var s_env lookup]. rewrite Pos.eqb_refl. reflexivity. }
    assert (Hbx : rsim R (bind_args ((x, kx) :: fpost) (BVal cv :: bpost) sta)
                         (bind_args (map (fun fk => (fst fk, pe_kind x c (snd fk))) fpost) bpost sta)).
    { rewrite (bind_args_fixed x kx cv fpost bpost sta Hk). apply bind_args_sim; assumption. }
    destruct (bind_args ((x, kx) :: fpost) (BVal cv :: bpost) sta) as [s1|];
      destruct (bind_args (map _ fpost) bpost sta) as [s2|]; cbn [rsim] in Hbx; try contradiction; [|exact I].
    destruct Hbx as [-> Hb1].
    (* assertions *)
    pose proof (check_preds_sim preds s1 Hb1) as Hp.
    destruct (check_preds s1 preds); destruct (check_preds (dropst s1) (pe_es x c preds)); cbn [rsim] in Hp; try contradiction; [|exact I].
    (* body *)
    pose proof (exec_list_sim x c cv body
                  (proj2 (Forall_forall _ _) (fun s _ => exec_sim x c cv c_eval c_noview s)) Hnb s1 Hb1) as He.
    destruct (exec_list body s1) as [s3|]; destruct (exec_list (pe_ss x c body) (dropst s1)) as [s4|];
      cbn [rsim] in He; try contradiction; [|exact I].
    destruct He as [-> Hb3]. cbn [osim]. split; [|reflexivity].
    rewrite !collect_bufs_app. cbn [collect_bufs]. reflexivity.
  Qed.
End Top.

(** non-vacuity: a procedure with a size argument used in a later shape, a bound and an index *)
Example partial_eval_example :
  let n := 1%positive in let a := 2%positive in let i := 3%positive in
  let body := [For i (Int 0) (Var n) [Assign a [Var i] (BinOp OAdd (Read a [Var i]) (Real (Q2Qc 1)))] false] in
  let p := Proc ([] ++ (n, KSize) :: [(a, KTensor [Var n] false)]) [BinOp OGe (Var n) (Int 2)] body in
  kind_ok KSize (VInt 3) /\ forallb (nobind n) body = true /\
  run p (mkInput ([] ++ InVal (VInt 3) :: [InBuf 0 [(3, 1)] [Some (Q2Qc 1); Some (Q2Qc 2); Some (Q2Qc 3)]]) [])
  = run (pe_proc n (Int 3) p) (mkInput [InBuf 0 [(3, 1)] [Some (Q2Qc 1); Some (Q2Qc 2); Some (Q2Qc 3)]] []).
Proof. cbn [kind_ok]. split; [reflexivity|]. split; vm_compute; reflexivity. Qed.
