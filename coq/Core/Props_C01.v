(** Property C01 — theorems only.  [run] is the reference semantics (Core.Sem); the extracted [run] is
    the oracle of the failing-input search in harness/props/C01.py. *)
From Coq Require Import ZArith List Bool.
From Core Require Import Syntax Sem Equiv PartialEval PartialEvalSound Subst RewriteAt ShiftLoop DivideLoop FissionFuse ReorderLoops RewriteAtL RemoveLoop UnrollLoop CutLoop FissionProc.
Import ListNotations.
Local Open Scope Z_scope.

(** a derived procedure preserves the source: same final argument buffers and configuration on every
    input on which the source runs to completion (inputs violating the assertions yield [Invalid]) *)
Definition preserves (p q : proc) : Prop :=
  forall inp bufs cfg, run p inp = Done bufs cfg -> run q inp = Done bufs cfg.

(** any locally justified rewrite, applied at any position (inside loops, branches, callee bodies),
    preserves the whole procedure *)
Theorem C01_congruence : forall formals preds c a b,
  refines a b -> preserves (Proc formals preds (plug c a)) (Proc formals preds (plug c b)).
Proof. intros formals preds c a b H inp bufs cfg. apply run_refines, refines_plug, H. Qed.
Print Assumptions C01_congruence.

(** compositions of operations (schedules): preservation is reflexive and transitive *)
Theorem C01_schedule : forall ps p q, 
  (forall a b, In (a, b) ps -> preserves a b) ->
  (fix chain (l : list (proc * proc)) (x : proc) : Prop :=
     match l with [] => x = q | (a, b) :: r => a = x /\ chain r b end) ps p ->
  preserves p q.
Proof.
  induction ps as [|[a b] r IH]; intros p q Hall Hch.
  - subst. intros inp bufs cfg H. exact H.
  - destruct Hch as [-> Hch]. intros inp bufs cfg H.
    apply (IH b q); [intros; apply Hall; right; assumption | exact Hch |].
    apply (Hall p b); [left; reflexivity | exact H].
Qed.
Print Assumptions C01_schedule.

Theorem C01_insert_pass : refines [] [Pass].
Proof. exact rule_insert_pass. Qed.
Print Assumptions C01_insert_pass.

Theorem C01_delete_pass : refines [Pass] [].
Proof. exact rule_delete_pass. Qed.
Print Assumptions C01_delete_pass.

Theorem C01_cut_loop : forall i lo mid hi body par par1 par2,
  env_only lo = true -> env_only mid = true -> env_only hi = true ->
  forall st st' l m h,
    eval st lo = Ok (VInt l) -> eval st mid = Ok (VInt m) -> eval st hi = Ok (VInt h) ->
    l <= m <= h ->
    exec_list [For i lo hi body par] st = Ok st' ->
    exec_list [For i lo mid body par1; For i mid hi body par2] st = Ok st'.
Proof. exact rule_cut_loop. Qed.
Print Assumptions C01_cut_loop.

Theorem C01_join_loops : forall i lo mid hi body par par1 par2,
  env_only lo = true -> env_only mid = true -> env_only hi = true ->
  forall st st' l m h,
    eval st lo = Ok (VInt l) -> eval st mid = Ok (VInt m) -> eval st hi = Ok (VInt h) ->
    exec_list [For i lo mid body par1; For i mid hi body par2] st = Ok st' ->
    exec_list [For i lo hi body par] st = Ok st'.
Proof. exact rule_join_loops. Qed.
Print Assumptions C01_join_loops.

Theorem C01_empty_loop : forall i lo hi body par st l,
  eval st lo = Ok (VInt l) -> eval st hi = Ok (VInt l) -> exec_list [For i lo hi body par] st = Ok st.
Proof. exact rule_empty_loop. Qed.
Print Assumptions C01_empty_loop.

(** reorder_stmts is sound exactly when the two statements commute: this is the contract the
    SMT-backed check (Check_ReorderStmts) is trusted for, lifted to any position by C01_congruence *)
Theorem C01_reorder_stmts : forall s1 s2, commute s1 s2 -> refines [s1; s2] [s2; s1].
Proof. intros s1 s2 H. exact H. Qed.
Print Assumptions C01_reorder_stmts.

From Core Require Import PartialEval PartialEvalSound Rules.

(** branch removal (simplify, eliminate_dead_code): the taken branch spliced into the enclosing block *)
Theorem C01_if_true : forall c a b st st',
  forallb nodecl a = true -> eval st c = Ok (VBool true) ->
  exec_list [If c a b] st = Ok st' -> exec_list a st = Ok st'.
Proof. exact rule_if_true. Qed.
Print Assumptions C01_if_true.

Theorem C01_if_false : forall c a b st st',
  forallb nodecl b = true -> eval st c = Ok (VBool false) ->
  exec_list [If c a b] st = Ok st' -> exec_list b st = Ok st'.
Proof. exact rule_if_false. Qed.
Print Assumptions C01_if_false.

(** unroll_loop: a loop with literal bounds equals the concatenation of its body with the iterator
    replaced by each value in turn (bodies that declare nothing at top level; the iterator is a fresh Sym) *)
Theorem C01_unroll_loop : forall i body lo n par st st',
  forallb (nobind i) body = true -> forallb nodecl body = true -> fresh_in i (s_env st) ->
  exec_list [For i (Int lo) (Int (lo + Z.of_nat n)) body par] st = Ok st' ->
  exec_list (unrolled i body lo n) st = Ok st'.
Proof. exact rule_unroll_loop. Qed.
Print Assumptions C01_unroll_loop.

(** lift_scope (if out of for): sound when the guard depends only on variables other than the iterator.  A guard
    reading configuration state is NOT covered — and the implementation accepts exactly such guards even when
    the body writes the field (known finding C01-lift_scope-config-guard). *)
Theorem C01_lift_if_out_of_for : forall i lo hi c a par st st' bc,
  env_only c = true -> mentions i c = false -> eval st c = Ok (VBool bc) ->
  exec_list [For i lo hi [If c a []] par] st = Ok st' ->
  exec_list [If c [For i lo hi a par] []] st = Ok st'.
Proof. exact rule_lift_if_out_of_for. Qed.
Print Assumptions C01_lift_if_out_of_for.

(** shift_loop: [shift_loop_rw] is the term the implementation builds (same iteration symbol, bounds
    new_lo and new_lo + (hi - lo), every read of i replaced by i + (lo - new_lo)).  It refines the loop
    when both bounds are index expressions over variables V that the body does not re-bind and new_lo is
    evaluable wherever lo is.  (Bounds reading configuration are outside this theorem; the implementation
    refuses them when the body writes the field, repaired defect C01-shift_loop-config-bound.) *)
Theorem C01_shift_loop : forall i lo hi nlo V body par,
  ~ In i V -> ShiftLoop.index_over V lo = true -> ShiftLoop.index_over V nlo = true ->
  forallb (Subst.okbind (ShiftLoop.okb i V)) body = true -> forallb (Subst.nm_s i (fun _ => false)) body = true ->
  (forall st l, eval st lo = Ok (VInt l) -> exists nl, eval st nlo = Ok (VInt nl)) ->
  refines [For i lo hi body par] [ShiftLoop.shift_loop_rw i lo hi nlo body par].
Proof.
  intros. apply ShiftLoop.rule_shift_loop with (V := V); auto using ShiftLoop.index_over_depends.
Qed.
Print Assumptions C01_shift_loop.

(** the substitution lemma behind shift_loop / divide_loop / unroll / partial_eval, in the form the
    rules use it: running body[x := c] in the transformed environment simulates running body *)
Theorem C01_substitution : forall x c cv okb T (Good : env -> Prop) hid,
  okb x = false ->
  (forall st, Good (s_env st) -> eval st c = Ok cv) ->
  (forall st, Good (s_env st) -> eval_view st c = Err TypeErr) ->
  (forall e y, y <> x -> hid y = false -> lookup y (T e) = lookup y e) ->
  (forall y b e, okb y = true -> T ((y, b) :: e) = (y, b) :: T e) ->
  (forall y b e, okb y = true -> Good e -> Good ((y, b) :: e)) ->
  forall body st, forallb (Subst.okbind okb) body = true -> forallb (Subst.nm_s x hid) body = true ->
  Subst.inv x cv T Good st ->
  PartialEvalSound.rsim (Subst.SR x cv T Good)
    (exec_list body st) (exec_list (PartialEval.pe_ss x c body) (Subst.tst T st)).
Proof. exact Subst.body_sub. Qed.
Print Assumptions C01_substitution.

(** shift_loop on the whole procedure: [shift_proc i new_lo] is the term that Procedure.shift_loop returns
    (compared term by term on every run, harness/props/C01.py); under the decidable side condition
    [shift_ok_proc] (bounds are index expressions over variables the body does not re-bind) and a literal
    new lower bound, the result preserves the source on every input. *)
Theorem C01_shift_proc : forall i z p,
  ShiftLoop.shift_ok_proc i (Int z) p = true -> preserves p (ShiftLoop.shift_proc i (Int z) p).
Proof. intros i z p H inp bufs cfg. apply ShiftLoop.shift_proc_literal_preserves, H. Qed.
Print Assumptions C01_shift_proc.

(** any local rewrite that is sound where its side condition holds, applied wherever it matches *)
Theorem C01_rewrite_everywhere : forall f ok,
  (forall s s', f s = Some s' -> ok s = true -> refines [s] [s']) ->
  forall p, RewriteAt.ok_proc f ok p = true -> preserves p (RewriteAt.rw_proc f p).
Proof. intros f ok H p Hok inp bufs cfg. apply RewriteAt.rw_proc_preserves with (ok := ok); assumption. Qed.
Print Assumptions C01_rewrite_everywhere.

(** divide_loop, tail="guard": for i in seq(0, N) ~> for io in seq(0, (N+q-1)/q): for ii in seq(0, q):
    if q*io+ii < N: body[i := q*io+ii].  io, ii are fresh (not mentioned and not bound in the body), N is an
    index expression over variables the body does not re-bind, q > 0. *)
Theorem C01_divide_loop_guard : forall i io ii q N V body par,
  0 < q -> i <> io -> i <> ii -> io <> ii ->
  ~ In i V -> ~ In io V -> ~ In ii V -> ShiftLoop.index_over V N = true ->
  forallb (Subst.okbind (DivideLoop.okbF i io ii)) body = true ->
  forallb (Subst.nm_s i (DivideLoop.hidF io ii)) body = true ->
  refines [For i (Int 0) N body par] [DivideLoop.divide_guard_rw i io ii q N body par].
Proof. exact DivideLoop.rule_divide_loop_guard. Qed.
Print Assumptions C01_divide_loop_guard.

(** divide_loop, perfect=True: the nest without guard, under the divisibility contract that the
    implementation discharges with its SMT check (Check_IsDivisible) *)
Theorem C01_divide_loop_perfect : forall i io ii q N body par,
  0 < q -> i <> io -> i <> ii -> io <> ii ->
  forallb (Subst.okbind (DivideLoop.okbF i io ii)) body = true ->
  forallb (Subst.nm_s i (DivideLoop.hidF io ii)) body = true ->
  (forall st n, eval st N = Ok (VInt n) -> n mod q = 0) ->
  refines [For i (Int 0) N body par] [DivideLoop.flat_rw i io ii q (DivideLoop.perfect_hi q N) body par].
Proof. exact DivideLoop.rule_divide_loop_perfect_hi. Qed.
Print Assumptions C01_divide_loop_perfect.

(** the two building blocks, usable on their own: extending a loop under a guard, flattening a loop nest *)
Theorem C01_guard_extend : forall i N E V body par,
  ~ In i V -> ShiftLoop.depends_on V N ->
  (forall st n, eval st N = Ok (VInt n) -> exists e, eval st E = Ok (VInt e) /\ n <= e) ->
  refines [For i (Int 0) N body par] [For i (Int 0) E (DivideLoop.guarded i N body) par].
Proof. exact DivideLoop.rule_guard_extend. Qed.
Print Assumptions C01_guard_extend.

Theorem C01_flatten : forall i io ii q, 0 < q -> i <> io -> i <> ii -> io <> ii ->
  forall E H B par,
  forallb (Subst.okbind (DivideLoop.okbF i io ii)) B = true -> forallb (Subst.nm_s i (DivideLoop.hidF io ii)) B = true ->
  (forall st e, eval st E = Ok (VInt e) -> exists h, eval st H = Ok (VInt h) /\ e = h * q) ->
  refines [For i (Int 0) E B par] [DivideLoop.flat_rw i io ii q H B par].
Proof. exact DivideLoop.rule_flatten. Qed.
Print Assumptions C01_flatten.

(** whole procedures: [divide_guard_proc] / [divide_perfect_proc] are the terms Procedure.divide_loop returns
    (compared term by term on every run); they preserve the source under the decidable side conditions *)
Theorem C01_divide_guard_proc : forall i io ii q p,
  DivideLoop.divide_guard_ok_proc i io ii q p = true -> preserves p (DivideLoop.divide_guard_proc i io ii q p).
Proof. intros i io ii q p H inp bufs cfg. apply DivideLoop.divide_guard_proc_preserves, H. Qed.
Print Assumptions C01_divide_guard_proc.

Theorem C01_divide_perfect_proc : forall i io ii q p,
  DivideLoop.divide_perfect_ok_proc i io ii q p = true -> preserves p (DivideLoop.divide_perfect_proc i io ii q p).
Proof. intros i io ii q p H inp bufs cfg. apply DivideLoop.divide_perfect_proc_preserves, H. Qed.
Print Assumptions C01_divide_perfect_proc.

(** fission / fuse: under the contract that the implementation's effect check (Check_FissionLoop, the fuse
    check) establishes -- an instance of B at iteration k commutes with an instance of A at every later
    iteration -- a loop over A;B and the two loops over A and over B are the same state transformer *)
Theorem C01_fission : forall i lo hi A B par par1 par2,
  forallb Rules.nodecl A = true -> env_only lo = true -> env_only hi = true ->
  (forall st l h, eval st lo = Ok (VInt l) -> eval st hi = Ok (VInt h) -> FissionFuse.commute_contract i A B l h) ->
  refines [For i lo hi (A ++ B) par] [For i lo hi A par1; For i lo hi B par2].
Proof. exact FissionFuse.rule_fission. Qed.
Print Assumptions C01_fission.

Theorem C01_fuse : forall i lo hi A B par par1 par2,
  forallb Rules.nodecl A = true -> env_only lo = true -> env_only hi = true ->
  (forall st l h, eval st lo = Ok (VInt l) -> eval st hi = Ok (VInt h) -> FissionFuse.commute_contract i A B l h) ->
  refines [For i lo hi A par1; For i lo hi B par2] [For i lo hi (A ++ B) par].
Proof. exact FissionFuse.rule_fuse. Qed.
Print Assumptions C01_fuse.

(** Alpha_Rename of a duplicated loop: giving the copy a fresh iteration Sym (not mentioned, not bound in the
    body) preserves it *)
Theorem C01_rename_iter : forall i i2 lo hi body par,
  forallb (Subst.okbind (ShiftLoop.okbR i i2)) body = true -> forallb (Subst.nm_s i (ShiftLoop.hidR i2)) body = true ->
  refines [For i lo hi body par] [For i2 lo hi (PartialEval.pe_ss i (Var i2) body) par].
Proof. exact ShiftLoop.rule_rename_iter. Qed.
Print Assumptions C01_rename_iter.

(** cut_loop as the implementation performs it: the second loop is a renamed copy *)
Theorem C01_cut_loop_fresh : forall i i2 lo mid hi body par,
  env_only lo = true -> env_only mid = true -> env_only hi = true ->
  forallb (Subst.okbind (ShiftLoop.okbR i i2)) body = true -> forallb (Subst.nm_s i (ShiftLoop.hidR i2)) body = true ->
  forall st st' l m h,
    eval st lo = Ok (VInt l) -> eval st mid = Ok (VInt m) -> eval st hi = Ok (VInt h) -> l <= m <= h ->
    exec_list [For i lo hi body par] st = Ok st' ->
    exec_list [For i lo mid body par; For i2 mid hi (PartialEval.pe_ss i (Var i2) body) par] st = Ok st'.
Proof.
  intros i i2 lo mid hi body par Hlo Hmid Hhi Hok Hnm st st' l m h El Em Eh Hle H.
  pose proof (rule_cut_loop i lo mid hi body par par par Hlo Hmid Hhi st st' l m h El Em Eh Hle H) as H1.
  exact (refines_app [For i lo mid body par] [For i mid hi body par]
           [For i2 mid hi (PartialEval.pe_ss i (Var i2) body) par] []
           (ShiftLoop.rule_rename_iter i i2 mid hi body par Hok Hnm) st st' H1).
Qed.
Print Assumptions C01_cut_loop_fresh.

(** reorder_loops: under the contract of the implementation's effect check (Check_ReorderLoops) -- the body instances
    whose relative order flips, (a, b) and (a', b') with a < a' and b' < b, commute -- and with bounds that do not
    depend on the other iterator, the transposed nest computes what the original nest computes.  The order of the
    two bindings in the environment is irrelevant (instance of C01_substitution with the identity substitution). *)
Theorem C01_reorder_loops : forall i j body li hi lj hj pi pj st st' vli vhi vlj vhj,
  i <> j ->
  env_only li = true -> env_only hi = true -> env_only lj = true -> env_only hj = true ->
  Rules.mentions i lj = false -> Rules.mentions i hj = false -> Rules.mentions j li = false -> Rules.mentions j hi = false ->
  eval st li = Ok (VInt vli) -> eval st hi = Ok (VInt vhi) -> eval st lj = Ok (VInt vlj) -> eval st hj = Ok (VInt vhj) ->
  vli <= vhi -> vlj <= vhj ->
  ReorderLoops.reorder_contract i j body vli vhi vlj vhj ->
  forallb (Subst.okbind (ReorderLoops.okbS j)) body = true -> forallb (Subst.nm_s j (fun _ => false)) body = true ->
  exec_list [For i li hi [For j lj hj body pj] pi] st = Ok st' ->
  exec_list [For j lj hj [For i li hi body pi] pj] st = Ok st'.
Proof. exact ReorderLoops.rule_reorder_loops. Qed.
Print Assumptions C01_reorder_loops.

(** reorder_loops on the whole procedure: [reorder_proc i] is the term Procedure.reorder_loops returns (compared term
    by term on every run); it preserves the source when the decidable side conditions hold and the matched nest
    satisfies the semantic contract of the implementation's checks *)
Theorem C01_reorder_proc : forall i p,
  (forall s s', ReorderLoops.reorder_f i s = Some s' -> ReorderLoops.reorder_sem_ok s) ->
  ReorderLoops.reorder_ok_proc i p = true -> preserves p (ReorderLoops.reorder_proc i p).
Proof. intros i p Hsem H inp bufs cfg. apply ReorderLoops.reorder_proc_preserves; assumption. Qed.
Print Assumptions C01_reorder_proc.

(** remove_loop: the body does not mention the iteration variable and is idempotent (the contract of
    Check_IsIdempotent); the loop becomes `if hi > lo: body`, or the body itself when hi > lo is established *)
Theorem C01_remove_loop_guard : forall i lo hi body par,
  forallb (Subst.okbind (RemoveLoop.okbD i)) body = true -> forallb (Subst.nm_s i (RemoveLoop.hidx i)) body = true ->
  RemoveLoop.idempotent body ->
  refines [For i lo hi body par] [If (BinOp OGt hi lo) body []].
Proof. exact RemoveLoop.rule_remove_loop_guard. Qed.
Print Assumptions C01_remove_loop_guard.

Theorem C01_remove_loop : forall i lo hi body par,
  forallb (Subst.okbind (RemoveLoop.okbD i)) body = true -> forallb (Subst.nm_s i (RemoveLoop.hidx i)) body = true ->
  RemoveLoop.idempotent body -> forallb Rules.nodecl body = true ->
  (forall st l h, eval st lo = Ok (VInt l) -> eval st hi = Ok (VInt h) -> l < h) ->
  refines [For i lo hi body par] body.
Proof. exact RemoveLoop.rule_remove_loop. Qed.
Print Assumptions C01_remove_loop.

(** whole procedures (term-identical to what Procedure.remove_loop returns, in either of its two forms) *)
Theorem C01_remove_guard_proc : forall i p,
  (forall s l, RemoveLoop.remove_guard_f i s = Some l -> RemoveLoop.remove_sem_ok false s) ->
  RemoveLoop.remove_guard_ok_proc i p = true -> preserves p (RemoveLoop.remove_guard_proc i p).
Proof. intros i p Hs H inp bufs cfg. apply RemoveLoop.remove_guard_proc_preserves; assumption. Qed.
Print Assumptions C01_remove_guard_proc.

Theorem C01_remove_splice_proc : forall i p,
  (forall s l, RemoveLoop.remove_splice_f i s = Some l -> RemoveLoop.remove_sem_ok true s) ->
  RemoveLoop.remove_splice_ok_proc i p = true -> preserves p (RemoveLoop.remove_splice_proc i p).
Proof. intros i p Hs H inp bufs cfg. apply RemoveLoop.remove_splice_proc_preserves; assumption. Qed.
Print Assumptions C01_remove_splice_proc.

(** list-valued version of C01_rewrite_everywhere *)
Theorem C01_rewrite_everywhere_list : forall f ok,
  (forall s l, f s = Some l -> ok s = true -> refines [s] l) ->
  forall p, RewriteAtL.okl_proc f ok p = true -> preserves p (RewriteAtL.rwl_proc f p).
Proof. intros f ok H p Hok inp bufs cfg. apply RewriteAtL.rwl_proc_preserves with (ok := ok); assumption. Qed.
Print Assumptions C01_rewrite_everywhere_list.

(** unroll_loop on the whole procedure, for every state (no freshness hypothesis on the environment) *)
Theorem C01_unroll_proc : forall i p,
  UnrollLoop.unroll_ok_proc i p = true -> preserves p (UnrollLoop.unroll_proc i p).
Proof. intros i p H inp bufs cfg. apply UnrollLoop.unroll_proc_preserves, H. Qed.
Print Assumptions C01_unroll_proc.

(** cut_loop on the whole procedure (second loop = renamed copy), under the contract lo <= cut <= hi that the
    implementation establishes with Check_CompareExprs *)
Theorem C01_cut_proc : forall i i2 mid p,
  (forall s l, CutLoop.cut_f i i2 mid s = Some l -> CutLoop.cut_sem_ok mid s) ->
  CutLoop.cut_ok_proc i i2 mid p = true -> preserves p (CutLoop.cut_proc i i2 mid p).
Proof. intros i i2 mid p Hs H inp bufs cfg. apply CutLoop.cut_proc_preserves; assumption. Qed.
Print Assumptions C01_cut_proc.

(** join_loops as DoJoinLoops performs it: distinct iteration Syms, second lower bound only semantically equal to the
    first upper bound, bodies equal up to renaming the iteration variable *)
Theorem C01_join_loops_renamed : forall i j lo mid mid2 hi body body2 par par1 par2,
  env_only lo = true -> env_only mid = true -> env_only hi = true ->
  (forall s, eval s mid2 = eval s mid) ->
  forallb (okbind (okbR j i)) body2 = true -> forallb (nm_s j (hidR i)) body2 = true ->
  pe_ss j (Var i) body2 = body ->
  forall st st' l m h,
    eval st lo = Ok (VInt l) -> eval st mid = Ok (VInt m) -> eval st hi = Ok (VInt h) ->
    exec_list [For i lo mid body par1; For j mid2 hi body2 par2] st = Ok st' ->
    exec_list [For i lo hi body par] st = Ok st'.
Proof. exact CutLoop.rule_join_loops_renamed. Qed.
Print Assumptions C01_join_loops_renamed.

(** fission (one lift out of a loop) on the whole procedure, under the contract of Check_FissionLoop *)
Theorem C01_fission_proc : forall i k p,
  (forall s l, FissionProc.fission_f i k s = Some l -> FissionProc.fission_sem_ok k s) ->
  FissionProc.fission_ok_proc i k p = true -> preserves p (FissionProc.fission_proc i k p).
Proof. intros i k p Hs H inp bufs cfg. apply FissionProc.fission_proc_preserves; assumption. Qed.
Print Assumptions C01_fission_proc.
