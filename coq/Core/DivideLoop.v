(** * divide_loop (DoDivideLoop, LoopIR_scheduling.py), tail strategies "guard" and "perfect"

      for i in seq(0, N): body
  ~>  for io in seq(0, (N + q-1) / q):
        for ii in seq(0, q):
          if q*io + ii < N: body[i := q*io + ii]            (guard)
  ~>  for io in seq(0, H): for ii in seq(0, q): body[i := q*io + ii]      (perfect, N = H*q)

    Two independent rules compose to the first: extending a loop beyond its bound under a guard
    ([rule_guard_extend]) and flattening a loop whose trip count is a multiple of q into a nest
    ([rule_flatten]); the second is [rule_flatten] alone.  Both use the general substitution lemma
    (Subst.v) with the environment transformation "replace the binding of i by bindings of io and ii". *)
From Coq Require Import ZArith List Bool Lia.
From Core Require Import Syntax Sem Equiv Induction PartialEval PartialEvalSound Subst Rules ShiftLoop.
Import ListNotations.
Local Open Scope Z_scope.

Definition divC (q : Z) (io ii : sym) : expr := BinOp OAdd (BinOp OMul (Int q) (Var io)) (Var ii).

Definition flat_rw (i io ii : sym) (q : Z) (H : expr) (B : list stmt) (par : bool) : stmt :=
  For io (Int 0) H [For ii (Int 0) (Int q) (pe_ss i (divC q io ii) B) par] par.

Definition ceil_hi (q : Z) (N : expr) : expr := BinOp ODiv (BinOp OAdd N (Int (q - 1))) (Int q).

Definition divide_guard_rw (i io ii : sym) (q : Z) (N : expr) (body : list stmt) (par : bool) : stmt :=
  For io (Int 0) (ceil_hi q N)
    [For ii (Int 0) (Int q) [If (BinOp OLt (divC q io ii) N) (pe_ss i (divC q io ii) body) []] par] par.

Lemma with_env_bind : forall y b st e, e = s_env st -> with_env e (bind_var y b st) = st.
Proof. intros y b [e0 h n c] e ->. reflexivity. Qed.

(** ** flattening *)
Section Flatten.
  Variables i io ii : sym.
  Variable q : Z.
  Hypothesis q_pos : 0 < q.
  Hypothesis i_io : i <> io.
  Hypothesis i_ii : i <> ii.
  Hypothesis io_ii : io <> ii.

  Definition okbF (y : sym) : bool := negb (Pos.eqb y i) && negb (Pos.eqb y io) && negb (Pos.eqb y ii).
  Definition hidF (y : sym) : bool := Pos.eqb y io || Pos.eqb y ii.

  Lemma okbF_i : okbF i = false.
  Proof. unfold okbF. rewrite Pos.eqb_refl. reflexivity. Qed.
  Lemma okbF_spec : forall y, okbF y = true -> y <> i /\ y <> io /\ y <> ii.
  Proof.
    unfold okbF. intros y H. apply andb_true_iff in H as [H H3]. apply andb_true_iff in H as [H1 H2].
    apply negb_true_iff, Pos.eqb_neq in H1, H2, H3. auto.
  Qed.

  Section Iter.
    Variables o j : Z.
    Let C := divC q io ii.

    Fixpoint TF (e : env) : env :=
      match e with
      | [] => []
      | (y, b) :: r => if Pos.eqb y i then (ii, BVal (VInt j)) :: (io, BVal (VInt o)) :: r else (y, b) :: TF r
      end.
    Definition GoodF (e : env) : Prop :=
      lookup io e = Some (BVal (VInt o)) /\ lookup ii e = Some (BVal (VInt j)).

    Lemma C_eval : forall st, GoodF (s_env st) -> eval st C = Ok (VInt (q * o + j)).
    Proof. intros st [Ho Hj]. subst C. unfold divC. cbn [eval]. rewrite Ho, Hj. reflexivity. Qed.
    Lemma C_noview : forall st, GoodF (s_env st) -> eval_view st C = Err TypeErr.
    Proof. reflexivity. Qed.

    Lemma TF_lookup : forall e y, y <> i -> hidF y = false -> lookup y (TF e) = lookup y e.
    Proof.
      induction e as [|[z b] r IH]; intros y Hy Hh; [reflexivity|]. cbn [TF].
      unfold hidF in Hh. apply orb_false_iff in Hh as [H1 H2].
      destruct (Pos.eqb z i) eqn:E.
      - apply Pos.eqb_eq in E. subst z. cbn [lookup]. rewrite H2, H1.
        destruct (Pos.eqb y i) eqn:E2; [apply Pos.eqb_eq in E2; contradiction|reflexivity].
      - cbn [lookup]. destruct (Pos.eqb y z); [reflexivity|]. apply IH; [exact Hy|]. unfold hidF. rewrite H1, H2. reflexivity.
    Qed.
    Lemma TF_cons : forall y b e, okbF y = true -> TF ((y, b) :: e) = (y, b) :: TF e.
    Proof.
      intros y b e H. apply okbF_spec in H as [H _]. cbn [TF]. apply Pos.eqb_neq in H. rewrite H. reflexivity.
    Qed.
    Lemma GoodF_cons : forall y b e, okbF y = true -> GoodF e -> GoodF ((y, b) :: e).
    Proof.
      intros y b e H [Ho Hj]. apply okbF_spec in H as [_ [H1 H2]]. split; cbn [lookup].
      - destruct (Pos.eqb io y) eqn:E; [apply Pos.eqb_eq in E; symmetry in E; contradiction|exact Ho].
      - destruct (Pos.eqb ii y) eqn:E; [apply Pos.eqb_eq in E; symmetry in E; contradiction|exact Hj].
    Qed.

    (** iteration q*o + j of the flat loop is iteration j of the inner loop inside iteration o of the outer *)
    Lemma flat_iteration : forall B st_a s_a,
      forallb (okbind okbF) B = true -> forallb (nm_s i hidF) B = true ->
      loop_body i B (q * o + j) st_a = Ok s_a ->
      loop_body ii (pe_ss i C B) j (bind_var io (BVal (VInt o)) st_a) = Ok (bind_var io (BVal (VInt o)) s_a).
    Proof.
      intros B st_a s_a Hok Hnm Hrun. unfold loop_body in *.
      pose proof (body_sub i C (VInt (q * o + j)) okbF TF GoodF hidF okbF_i C_eval C_noview TF_lookup TF_cons GoodF_cons
                    B (bind_var i (BVal (VInt (q * o + j))) st_a) Hok Hnm) as Hsim.
      assert (Hinv : inv i (VInt (q * o + j)) TF GoodF (bind_var i (BVal (VInt (q * o + j))) st_a)).
      { split.
        - cbn [bind_var s_env lookup]. rewrite Pos.eqb_refl. reflexivity.
        - cbn [bind_var s_env TF]. rewrite Pos.eqb_refl. split; cbn [lookup].
          + destruct (Pos.eqb io ii) eqn:E; [apply Pos.eqb_eq in E; contradiction|]. rewrite Pos.eqb_refl. reflexivity.
          + rewrite Pos.eqb_refl. reflexivity. }
      specialize (Hsim Hinv).
      assert (Ht : tst TF (bind_var i (BVal (VInt (q * o + j))) st_a)
                   = bind_var ii (BVal (VInt j)) (bind_var io (BVal (VInt o)) st_a)).
      { unfold tst, with_env, bind_var. cbn [s_env s_heap s_next s_cfg TF]. rewrite Pos.eqb_refl. reflexivity. }
      rewrite Ht in Hsim.
      destruct (exec_list B (bind_var i (BVal (VInt (q * o + j))) st_a)) as [s1|] eqn:E1; cbn [bind] in Hrun; [|discriminate Hrun].
      destruct (exec_list (pe_ss i C B) (bind_var ii (BVal (VInt j)) (bind_var io (BVal (VInt o)) st_a))) as [s2|] eqn:E2;
        cbn [rsim] in Hsim; [|contradiction].
      destruct Hsim as [-> _]. cbn [bind]. injection Hrun as <-. reflexivity.
    Qed.
  End Iter.

  Lemma flat_inner : forall B o, forallb (okbind okbF) B = true -> forallb (nm_s i hidF) B = true ->
    forall n j st_a s_a,
    iter_loop n (q * o + j) (loop_body i B) st_a = Ok s_a ->
    iter_loop n j (loop_body ii (pe_ss i (divC q io ii) B)) (bind_var io (BVal (VInt o)) st_a)
      = Ok (bind_var io (BVal (VInt o)) s_a).
  Proof.
    intros B o Hok Hnm. induction n as [|n IH]; intros j st_a s_a H; cbn [iter_loop] in *.
    - injection H as <-. reflexivity.
    - destruct (loop_body i B (q * o + j) st_a) as [s1|] eqn:E1; cbn [bind] in H; [|discriminate H].
      rewrite (flat_iteration o j B st_a s1 Hok Hnm E1). cbn [bind].
      apply IH. replace (q * o + (j + 1)) with (q * o + j + 1) by lia. exact H.
  Qed.

  Lemma flat_outer_step : forall B par o st_a s_a,
    forallb (okbind okbF) B = true -> forallb (nm_s i hidF) B = true ->
    iter_loop (Z.to_nat q) (q * o) (loop_body i B) st_a = Ok s_a ->
    loop_body io [For ii (Int 0) (Int q) (pe_ss i (divC q io ii) B) par] o st_a = Ok s_a.
  Proof.
    intros B par o st_a s_a Hok Hnm H. unfold loop_body at 1. rewrite single, exec_For.
    cbn [eval bind as_int]. replace (q <? 0) with false by (symmetry; apply Z.ltb_ge; lia).
    replace (q - 0) with q by lia.
    pose proof (iter_loop_env _ _ _ _ _ _ H) as Henv.
    replace (q * o) with (q * o + 0) in H by lia.
    rewrite (flat_inner B o Hok Hnm _ _ _ _ H). cbn [bind].
    rewrite with_env_bind; [reflexivity|]. symmetry. exact Henv.
  Qed.

  Lemma flat_outer : forall B par, forallb (okbind okbF) B = true -> forallb (nm_s i hidF) B = true ->
    forall m o st s,
    iter_loop (m * Z.to_nat q) (q * o) (loop_body i B) st = Ok s ->
    iter_loop m o (loop_body io [For ii (Int 0) (Int q) (pe_ss i (divC q io ii) B) par]) st = Ok s.
  Proof.
    intros B par Hok Hnm. induction m as [|m IH]; intros o st s H.
    - cbn [Nat.mul iter_loop] in *. exact H.
    - cbn [Nat.mul] in H. rewrite iter_loop_split in H.
      destruct (iter_loop (Z.to_nat q) (q * o) (loop_body i B) st) as [s1|] eqn:E1; cbn [bind] in H; [|discriminate H].
      cbn [iter_loop]. rewrite (flat_outer_step B par o st s1 Hok Hnm E1). cbn [bind].
      apply IH. replace (q * (o + 1)) with (q * o + Z.of_nat (Z.to_nat q)) by (rewrite Z2Nat.id; lia). exact H.
  Qed.

  (** the rule: E is the flat trip count, H the outer one, E = H * q *)
  Theorem rule_flatten : forall E H B par,
    forallb (okbind okbF) B = true -> forallb (nm_s i hidF) B = true ->
    (forall st e, eval st E = Ok (VInt e) -> exists h, eval st H = Ok (VInt h) /\ e = h * q) ->
    refines [For i (Int 0) E B par] [flat_rw i io ii q H B par].
  Proof.
    intros E H B par Hok Hnm Hdiv st st' Hrun. unfold flat_rw. rewrite single in *. rewrite exec_For in *.
    cbn [eval bind as_int] in *.
    destruct (eval st E) as [ve|] eqn:Ee; cbn [bind] in Hrun; [|discriminate Hrun].
    destruct ve as [e| |]; cbn [as_int bind] in Hrun; try discriminate Hrun.
    destruct (Hdiv st e Ee) as [h [Hh ->]]. rewrite Hh. cbn [bind as_int].
    destruct (h * q <? 0) eqn:Eneg; [discriminate Hrun|]. apply Z.ltb_ge in Eneg.
    assert (0 <= h) by nia.
    replace (h <? 0) with false by (symmetry; apply Z.ltb_ge; lia).
    replace (h * q - 0) with (h * q) in Hrun by lia. replace (h - 0) with h by lia.
    apply flat_outer; try assumption.
    replace (Z.to_nat h * Z.to_nat q)%nat with (Z.to_nat (h * q)) by (rewrite Z2Nat.inj_mul; lia).
    replace (q * 0) with 0 by lia. exact Hrun.
  Qed.
End Flatten.

(** ** extending a loop under a guard *)
Section GuardExtend.
  Variable i : sym.
  Variable N : expr.
  Variable V : list sym.
  Hypothesis i_notin : ~ In i V.
  Hypothesis dep_N : depends_on V N.

  Definition guarded (body : list stmt) : list stmt := [If (BinOp OLt (Var i) N) body []].

  Variable nv : Z.
  Variable entry : state.
  Hypothesis N_entry : eval entry N = Ok (VInt nv).

  Lemma guard_eval : forall k st0, s_env st0 = s_env entry ->
    eval (bind_var i (BVal (VInt k)) st0) (BinOp OLt (Var i) N) = Ok (VBool (k <? nv)).
  Proof.
    intros k st0 Henv. cbn [eval bind_var s_env lookup]. rewrite Pos.eqb_refl. cbn [bind].
    rewrite (dep_N (bind_var i (BVal (VInt k)) st0) entry), N_entry; [reflexivity|].
    intros y Hy. cbn [bind_var s_env lookup]. destruct (Pos.eqb y i) eqn:E.
    - apply Pos.eqb_eq in E. subst y. contradiction.
    - rewrite Henv. reflexivity.
  Qed.

  Lemma guarded_in : forall body k st0 s, s_env st0 = s_env entry -> k < nv ->
    loop_body i body k st0 = Ok s -> loop_body i (guarded body) k st0 = Ok s.
  Proof.
    intros body k st0 s Henv Hk H. unfold loop_body, guarded in *. rewrite single, exec_If, guard_eval by exact Henv.
    cbn [bind as_bool]. replace (k <? nv) with true by (symmetry; apply Z.ltb_lt; exact Hk).
    unfold scoped.
    destruct (exec_list body (bind_var i (BVal (VInt k)) st0)) as [s1|]; cbn [bind] in *; [|discriminate H].
    exact H.
  Qed.

  Lemma guarded_out : forall body k st0, s_env st0 = s_env entry -> nv <= k ->
    loop_body i (guarded body) k st0 = Ok st0.
  Proof.
    intros body k st0 Henv Hk. unfold loop_body, guarded. rewrite single, exec_If, guard_eval by exact Henv.
    cbn [bind as_bool]. replace (k <? nv) with false by (symmetry; apply Z.ltb_ge; exact Hk).
    unfold scoped. cbn [exec_list bind]. rewrite with_env_same, with_env_bind; reflexivity.
  Qed.

  Lemma guarded_prefix : forall body n k st0 s, s_env st0 = s_env entry -> k + Z.of_nat n <= nv ->
    iter_loop n k (loop_body i body) st0 = Ok s -> iter_loop n k (loop_body i (guarded body)) st0 = Ok s.
  Proof.
    intros body. induction n as [|n IH]; intros k st0 s Henv Hk H; cbn [iter_loop] in *; [exact H|].
    destruct (loop_body i body k st0) as [s1|] eqn:E1; cbn [bind] in H; [|discriminate H].
    rewrite (guarded_in body k st0 s1 Henv ltac:(lia) E1). cbn [bind].
    apply IH; [|lia|exact H]. unfold loop_body in E1.
    destruct (exec_list body _) as [s2|]; cbn [bind] in E1; [|discriminate E1]. injection E1 as <-. exact Henv.
  Qed.

  Lemma guarded_suffix : forall body m k st0, s_env st0 = s_env entry -> nv <= k ->
    iter_loop m k (loop_body i (guarded body)) st0 = Ok st0.
  Proof.
    intros body. induction m as [|m IH]; intros k st0 Henv Hk; cbn [iter_loop]; [reflexivity|].
    rewrite guarded_out by assumption. cbn [bind]. apply IH; [exact Henv|lia].
  Qed.
End GuardExtend.

Theorem rule_guard_extend : forall i N E V body par,
  ~ In i V -> depends_on V N ->
  (forall st n, eval st N = Ok (VInt n) -> exists e, eval st E = Ok (VInt e) /\ n <= e) ->
  refines [For i (Int 0) N body par] [For i (Int 0) E (guarded i N body) par].
Proof.
  intros i N E V body par Hi Dn Hext st st' Hrun. rewrite single in *. rewrite exec_For in *.
  cbn [eval bind as_int] in *.
  destruct (eval st N) as [vn|] eqn:En; cbn [bind] in Hrun; [|discriminate Hrun].
  destruct vn as [n| |]; cbn [as_int bind] in Hrun; try discriminate Hrun.
  destruct (Hext st n En) as [e [He Hle]]. rewrite He. cbn [bind as_int].
  destruct (n <? 0) eqn:Eneg; [discriminate Hrun|]. apply Z.ltb_ge in Eneg.
  replace (e <? 0) with false by (symmetry; apply Z.ltb_ge; lia).
  replace (n - 0) with n in Hrun by lia. replace (e - 0) with e by lia.
  replace (Z.to_nat e) with (Z.to_nat n + Z.to_nat (e - n))%nat by lia.
  rewrite iter_loop_split.
  rewrite (guarded_prefix i N V Hi Dn n st En body (Z.to_nat n) 0 st st' eq_refl ltac:(lia) Hrun). cbn [bind].
  apply (guarded_suffix i N V Hi Dn n st En body).
  - apply (iter_loop_env _ _ _ _ _ _ Hrun).
  - lia.
Qed.

(** ** divide_loop with a guarded tail *)
Lemma index_over_pe : forall V x c e, index_over V e = true -> ~ In x V -> pe_e x c e = e.
Proof.
  intros V x c e. induction e; cbn [index_over]; intros H Hx; try discriminate H; cbn [pe_e].
  - destruct (Pos.eqb x0 x) eqn:E; [|reflexivity]. apply Pos.eqb_eq in E. subst x0.
    apply memb_true in H. contradiction.
  - reflexivity.
  - rewrite IHe by assumption. reflexivity.
  - apply andb_true_iff in H as [H1 H2]. rewrite IHe1, IHe2 by assumption. reflexivity.
Qed.

Lemma index_over_nm : forall V x hid e, index_over V e = true -> (forall y, In y V -> hid y = false) -> nm_e x hid e = true.
Proof.
  intros V x hid e. induction e; cbn [index_over]; intros H Hh; try discriminate H; cbn [nm_e].
  - rewrite (Hh _ (memb_true _ _ H)). reflexivity.
  - reflexivity.
  - apply IHe; assumption.
  - apply andb_true_iff in H as [H1 H2]. rewrite IHe1, IHe2 by assumption. reflexivity.
Qed.

Theorem rule_divide_loop_guard : forall i io ii q N V body par,
  0 < q -> i <> io -> i <> ii -> io <> ii ->
  ~ In i V -> ~ In io V -> ~ In ii V -> index_over V N = true ->
  forallb (okbind (okbF i io ii)) body = true -> forallb (nm_s i (hidF io ii)) body = true ->
  refines [For i (Int 0) N body par] [divide_guard_rw i io ii q N body par].
Proof.
  intros i io ii q N V body par Hq H1 H2 H3 Hi Hio Hii HN Hok Hnm.
  pose (E := BinOp OMul (ceil_hi q N) (Int q)).
  eapply refines_trans.
  - apply rule_guard_extend with (V := V) (E := E); [exact Hi|apply index_over_depends, HN|].
    intros st n Hn. subst E. unfold ceil_hi. cbn [eval]. rewrite Hn. cbn [bind eval_binop].
    replace (0 <? q) with true by (symmetry; apply Z.ltb_lt; exact Hq). cbn [bind eval_binop].
    eexists; split; [reflexivity|].
    pose proof (Z.div_mod (n + (q - 1)) q ltac:(lia)) as Hdm.
    pose proof (Z.mod_pos_bound (n + (q - 1)) q Hq) as Hmb. nia.
  - assert (Hrw : divide_guard_rw i io ii q N body par = flat_rw i io ii q (ceil_hi q N) (guarded i N body) par).
    { unfold divide_guard_rw, flat_rw, guarded. cbn [pe_ss map]. rewrite pe_s_If. cbn [pe_e].
      rewrite Pos.eqb_refl. rewrite (index_over_pe V i _ N HN Hi). reflexivity. }
    rewrite Hrw. apply rule_flatten; try assumption.
    + unfold guarded. cbn [forallb okbind]. rewrite go_okbind. cbn [forallb]. rewrite Hok. reflexivity.
    + unfold guarded. cbn [forallb nm_s nm_e]. rewrite !go_nm_s. cbn [forallb].
      rewrite Hnm. rewrite (index_over_nm V i (hidF io ii) N HN).
      * unfold hidF. destruct (Pos.eqb i io) eqn:A; [apply Pos.eqb_eq in A; contradiction|].
        destruct (Pos.eqb i ii) eqn:B; [apply Pos.eqb_eq in B; contradiction|]. reflexivity.
      * intros y Hy. unfold hidF. destruct (Pos.eqb y io) eqn:A; [apply Pos.eqb_eq in A; subst y; contradiction|].
        destruct (Pos.eqb y ii) eqn:B; [apply Pos.eqb_eq in B; subst y; contradiction|]. reflexivity.
    + intros st e He. subst E. cbn [eval] in He.
      destruct (eval st (ceil_hi q N)) as [vh|]; cbn [bind] in He; [|discriminate He].
      destruct vh as [h| |]; cbn [eval_binop] in He; try discriminate He.
      injection He as <-. exists h. split; reflexivity.
Qed.

(** divide_loop(perfect=True): the implementation checks N = H*q (Check_IsDivisible, divide_expr); that
    contract is the hypothesis *)
Theorem rule_divide_loop_perfect : forall i io ii q N H body par,
  0 < q -> i <> io -> i <> ii -> io <> ii ->
  forallb (okbind (okbF i io ii)) body = true -> forallb (nm_s i (hidF io ii)) body = true ->
  (forall st n, eval st N = Ok (VInt n) -> exists h, eval st H = Ok (VInt h) /\ n = h * q) ->
  refines [For i (Int 0) N body par] [flat_rw i io ii q H body par].
Proof. intros. apply rule_flatten; assumption. Qed.

(** ** the whole-procedure rewrites, as the implementation performs them *)
From Core Require Import RewriteAt.

Definition perfect_hi (q : Z) (N : expr) : expr :=
  match N with
  | Int n => if Z.eqb (n mod q) 0 then Int (n / q) else BinOp ODiv N (Int q)
  | _ => BinOp ODiv N (Int q)
  end.

Theorem rule_divide_loop_perfect_hi : forall i io ii q N body par,
  0 < q -> i <> io -> i <> ii -> io <> ii ->
  forallb (okbind (okbF i io ii)) body = true -> forallb (nm_s i (hidF io ii)) body = true ->
  (forall st n, eval st N = Ok (VInt n) -> n mod q = 0) ->          (* Check_IsDivisible *)
  refines [For i (Int 0) N body par] [flat_rw i io ii q (perfect_hi q N) body par].
Proof.
  intros i io ii q N body par Hq H1 H2 H3 Hok Hnm Hdiv.
  apply rule_divide_loop_perfect; try assumption.
  intros st n Hn. pose proof (Hdiv st n Hn) as Hm.
  assert (n = n / q * q) as Hnq by (pose proof (Z.div_mod n q ltac:(lia)); lia).
  assert (Hgen : exists h, eval st (BinOp ODiv N (Int q)) = Ok (VInt h) /\ n = h * q).
  { change (eval st (BinOp ODiv N (Int q))) with (do v1 <- eval st N; do v2 <- eval st (Int q); eval_binop ODiv v1 v2).
    rewrite Hn. cbn [bind eval eval_binop]. replace (0 <? q) with true by (symmetry; apply Z.ltb_lt; exact Hq).
    eexists; split; [reflexivity|exact Hnq]. }
  unfold perfect_hi. destruct N; try exact Hgen.
  cbn [eval] in Hn. assert (z = n) as -> by congruence. rewrite Hm. cbn [Z.eqb]. eexists; split; [reflexivity|exact Hnq].
Qed.

Definition is_zero (e : expr) : bool := match e with Int 0 => true | _ => false end.

Definition divide_guard_f (i io ii : sym) (q : Z) (s : stmt) : option stmt :=
  match s with
  | For j lo N body par =>
      if Pos.eqb j i && is_zero lo then Some (divide_guard_rw i io ii q N body par) else None
  | _ => None
  end.
Definition divide_perfect_f (i io ii : sym) (q : Z) (s : stmt) : option stmt :=
  match s with
  | For j lo N body par =>
      if Pos.eqb j i && is_zero lo then Some (flat_rw i io ii q (perfect_hi q N) body par) else None
  | _ => None
  end.

Definition fresh3 (i io ii : sym) : bool := negb (Pos.eqb i io) && negb (Pos.eqb i ii) && negb (Pos.eqb io ii).

Definition divide_guard_ok (i io ii : sym) (q : Z) (s : stmt) : bool :=
  match s with
  | For j lo N body par =>
      let V := fv_index N in
      (0 <? q) && fresh3 i io ii && negb (memb i V) && negb (memb io V) && negb (memb ii V) && index_over V N
      && forallb (okbind (okbF i io ii)) body && forallb (nm_s i (hidF io ii)) body
  | _ => false
  end.
Definition divide_perfect_ok (i io ii : sym) (q : Z) (s : stmt) : bool :=
  match s with
  | For j lo (Int n) body par =>
      (0 <? q) && fresh3 i io ii && Z.eqb (n mod q) 0
      && forallb (okbind (okbF i io ii)) body && forallb (nm_s i (hidF io ii)) body
  | _ => false
  end.

Lemma fresh3_spec : forall i io ii, fresh3 i io ii = true -> i <> io /\ i <> ii /\ io <> ii.
Proof.
  unfold fresh3. intros i io ii H. apply andb_true_iff in H as [H H3]. apply andb_true_iff in H as [H1 H2].
  apply negb_true_iff, Pos.eqb_neq in H1, H2, H3. auto.
Qed.
Lemma is_zero_spec : forall e, is_zero e = true -> e = Int 0.
Proof. intros [| [| |] | | | | | | | | |] H; try discriminate H. reflexivity. Qed.

Lemma divide_guard_f_sound : forall i io ii q s s',
  divide_guard_f i io ii q s = Some s' -> divide_guard_ok i io ii q s = true -> refines [s] [s'].
Proof.
  intros i io ii q s s' Hf Hok. destruct s; cbn [divide_guard_f] in Hf; try discriminate Hf.
  destruct (Pos.eqb i0 i && is_zero lo) eqn:E; [|discriminate Hf]. injection Hf as <-.
  apply andb_true_iff in E as [E1 E2]. apply Pos.eqb_eq in E1. subst i0. apply is_zero_spec in E2. subst lo.
  cbn [divide_guard_ok] in Hok.
  repeat (match goal with H : _ && _ = true |- _ => apply andb_true_iff in H; destruct H end).
  match goal with H : fresh3 _ _ _ = true |- _ => apply fresh3_spec in H; destruct H as [? [? ?]] end.
  apply rule_divide_loop_guard with (V := fv_index hi); try assumption.
  - apply Z.ltb_lt; assumption.
  - apply memb_false, negb_true_iff; assumption.
  - apply memb_false, negb_true_iff; assumption.
  - apply memb_false, negb_true_iff; assumption.
Qed.

Lemma divide_perfect_f_sound : forall i io ii q s s',
  divide_perfect_f i io ii q s = Some s' -> divide_perfect_ok i io ii q s = true -> refines [s] [s'].
Proof.
  intros i io ii q s s' Hf Hok. destruct s; cbn [divide_perfect_f] in Hf; try discriminate Hf.
  destruct (Pos.eqb i0 i && is_zero lo) eqn:E; [|discriminate Hf]. injection Hf as <-.
  apply andb_true_iff in E as [E1 E2]. apply Pos.eqb_eq in E1. subst i0. apply is_zero_spec in E2. subst lo.
  cbn [divide_perfect_ok] in Hok. destruct hi; try discriminate Hok.
  repeat (match goal with H : _ && _ = true |- _ => apply andb_true_iff in H; destruct H end).
  match goal with H : fresh3 _ _ _ = true |- _ => apply fresh3_spec in H; destruct H as [? [? ?]] end.
  apply rule_divide_loop_perfect_hi; try assumption.
  - apply Z.ltb_lt; assumption.
  - intros st n Hn. cbn [eval] in Hn. injection Hn as <-. apply Z.eqb_eq; assumption.
Qed.

Definition divide_guard_proc (i io ii : sym) (q : Z) : proc -> proc := rw_proc (divide_guard_f i io ii q).
Definition divide_guard_ok_proc (i io ii : sym) (q : Z) : proc -> bool :=
  ok_proc (divide_guard_f i io ii q) (divide_guard_ok i io ii q).
Definition divide_perfect_proc (i io ii : sym) (q : Z) : proc -> proc := rw_proc (divide_perfect_f i io ii q).
Definition divide_perfect_ok_proc (i io ii : sym) (q : Z) : proc -> bool :=
  ok_proc (divide_perfect_f i io ii q) (divide_perfect_ok i io ii q).

Theorem divide_guard_proc_preserves : forall i io ii q p inp bufs cfg,
  divide_guard_ok_proc i io ii q p = true -> run p inp = Done bufs cfg ->
  run (divide_guard_proc i io ii q p) inp = Done bufs cfg.
Proof.
  intros i io ii q p inp bufs cfg Hok. unfold divide_guard_proc, divide_guard_ok_proc in *.
  apply rw_proc_preserves with (ok := divide_guard_ok i io ii q); [|exact Hok]. apply divide_guard_f_sound.
Qed.

Theorem divide_perfect_proc_preserves : forall i io ii q p inp bufs cfg,
  divide_perfect_ok_proc i io ii q p = true -> run p inp = Done bufs cfg ->
  run (divide_perfect_proc i io ii q p) inp = Done bufs cfg.
Proof.
  intros i io ii q p inp bufs cfg Hok. unfold divide_perfect_proc, divide_perfect_ok_proc in *.
  apply rw_proc_preserves with (ok := divide_perfect_ok i io ii q); [|exact Hok]. apply divide_perfect_f_sound.
Qed.

Example divide_guard_example :
  let i := 1%positive in let n := 2%positive in let x := 3%positive in let io := 4%positive in let ii := 5%positive in
  let p := Proc [(n, KSize); (x, KTensor [Var n] false)] []
             [For i (Int 0) (Var n) [Assign x [Var i] (Real (Qcanon.Q2Qc (QArith_base.Qmake 1 1)))] false] in
  divide_guard_ok_proc i io ii 4 p = true /\
  divide_guard_proc i io ii 4 p =
    Proc [(n, KSize); (x, KTensor [Var n] false)] []
      [For io (Int 0) (BinOp ODiv (BinOp OAdd (Var n) (Int 3)) (Int 4))
         [For ii (Int 0) (Int 4)
            [If (BinOp OLt (BinOp OAdd (BinOp OMul (Int 4) (Var io)) (Var ii)) (Var n))
                [Assign x [BinOp OAdd (BinOp OMul (Int 4) (Var io)) (Var ii)] (Real (Qcanon.Q2Qc (QArith_base.Qmake 1 1)))] []]
            false] false].
Proof. split; reflexivity. Qed.
