(* Extraction of the executable model to OCaml (ExtrOcamlBasic only), for the correspondence harness. *)
Require Extraction.
Require Import ExtrOcamlBasic.
From Print Require Import Model ModelExpr ModelSyntax ModelCheck.
Extraction Language OCaml.
Extraction "print_model.ml"
  ck_proc ck_expr ck_parse print_proc names_of ops_of_proc expr_text parse_expr parse_toks print_toks.
