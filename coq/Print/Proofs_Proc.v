(* C17: the name-environment theorems, stated for the printing of a procedure (ModelSyntax.ops_of_proc). *)
From Coq Require Import String List Bool Arith Lia.
From Print Require Import Model ModelExpr ModelSyntax Proofs_Env.
Import ListNotations.
Open Scope string_scope.

(* the environment the printer works with after its first k PrintEnv calls on p *)
Definition env_at (p : proc sym) (k : nat) : penv := env_after (firstn k (ops_of_proc p)).

(* the name under which x is shown at that moment (None: x is not in scope / not named yet) *)
Definition printed_name (p : proc sym) (k : nat) (x : sym) : option string := visible (env_at p k) x.

(* x and y are both in the scope chain at some moment of the printing *)
Definition visible_together (p : proc sym) (k : nat) (x y : sym) : Prop :=
  printed_name p k x <> None /\ printed_name p k y <> None.

Lemma In_firstn : forall (A : Type) k (l : list A) a, In a (firstn k l) -> In a l.
Proof.
  induction k as [|k IH]; intros [|b l] a H; cbn in *; try tauto.
  destruct H; auto.
Qed.

Lemma wf_proc_ops_ok : forall p k, wf_proc p = true -> ops_ok (firstn k (ops_of_proc p)).
Proof.
  intros p k H. unfold wf_proc in H. rewrite forallb_forall in H.
  apply Forall_forall. intros o Ho. apply H. eapply In_firstn; eauto.
Qed.

Lemma env_at_Inv : forall p k, wf_proc p = true -> Inv (env_at p k).
Proof. intros p k H. apply reachable_Inv. now apply wf_proc_ops_ok. Qed.

Theorem proc_names_distinct : forall p, wf_proc p = true ->
  forall k x y, x <> y -> visible_together p k x y -> printed_name p k x <> printed_name p k y.
Proof.
  intros p Hwf k x y N [Hx Hy] E. unfold printed_name in *.
  destruct (visible (env_at p k) x) as [s|] eqn:Ex; [|congruence].
  destruct (visible (env_at p k) y) as [t|] eqn:Ey; [|congruence].
  inversion E; subst t.
  eapply (Inv_names_distinct (env_at p k) x y s s); eauto. now apply env_at_Inv.
Qed.

(* the hypotheses are satisfiable: two allocations named x, then one named x_1 (what unrolling produces) *)
Definition w_proc : proc sym :=
  mkProc "foo" [mkArg (mkSym "y" 1) (TTensor TyNum false [EConst false "4"]) (Some "DRAM")] None []
    [SAlloc (mkSym "x" 2) (TBase TyNum) (Some "DRAM");
     SAlloc (mkSym "x" 3) (TBase TyNum) (Some "DRAM");
     SAlloc (mkSym "x_1" 4) (TBase TyNum) (Some "DRAM");
     SFor (mkSym "i" 5) (EConst false "0") (EConst false "4") false
       [SAssign (mkSym "x_1" 4) [] (ERead (mkSym "x" 3) [])]].

Example w_proc_ok :
  wf_proc w_proc = true /\ visible_together w_proc 6 (mkSym "x" 3) (mkSym "x_1" 4) /\
  print_proc w_proc =
    ["def foo(y : R[4] @DRAM):"; "  x : R @DRAM"; "  x_1 : R @DRAM"; "  x_1_1 : R @DRAM";
     "  for i in seq(0, 4):"; "    x_1_1 = x_1"].
Proof. vm_compute. repeat split; discriminate. Qed.
