(* C17 engine `Print`, part 2: expressions.  Executable Gallina only.

   * `expr V`     : LoopIR expressions as far as _print_expr distinguishes them (V = Sym before naming, string after).
   * `print_toks` : _print_expr with its op_prec parenthesisation, producing the token sequence of the text
                    (TSp marks the blanks Python writes; `expr_text` concatenates the token texts and is the
                    string _print_expr returns).
   * `parse_expr` : a precedence-climbing parser for the same operator table, following what CPython's grammar
                    plus exo/frontend/pyparser.py do with such text: `or`/`and`/arithmetic fold to the left,
                    unary minus binds tighter than every binary operator, and a comparison chain
                    `a < b == c` means `(a < b) and (b == c)` (pyparser.py, case pyast.Compare).
                    The parser covers variables, literals, indexing, unary minus and the twelve binary operators;
                    window slices, stride(..), extern calls and config reads are printed but not parsed here. *)
From Coq Require Import String Ascii List Bool Arith.
Import ListNotations.
Open Scope string_scope.

(* ------------------------------------------------------------------ operator table (op_prec) *)
Inductive binop := OpOr | OpAnd | OpLt | OpGt | OpLe | OpGe | OpEq | OpAdd | OpSub | OpMul | OpDiv | OpMod.

Definition op_prec (o : binop) : nat :=
  match o with
  | OpOr => 10
  | OpAnd => 20
  | OpLt | OpGt | OpLe | OpGe | OpEq => 30
  | OpAdd | OpSub => 40
  | OpMul | OpDiv | OpMod => 50
  end.

(* op_prec["~"] : unary minus *)
Definition prec_usub : nat := 60.

Definition op_text (o : binop) : string :=
  match o with
  | OpOr => "or" | OpAnd => "and"
  | OpLt => "<" | OpGt => ">" | OpLe => "<=" | OpGe => ">=" | OpEq => "=="
  | OpAdd => "+" | OpSub => "-" | OpMul => "*" | OpDiv => "/" | OpMod => "%"
  end.

Definition is_cmp (o : binop) : bool :=
  match o with OpLt | OpGt | OpLe | OpGe | OpEq => true | _ => false end.

Definition binop_eqb (a b : binop) : bool :=
  match a, b with
  | OpOr, OpOr | OpAnd, OpAnd | OpLt, OpLt | OpGt, OpGt | OpLe, OpLe | OpGe, OpGe | OpEq, OpEq
  | OpAdd, OpAdd | OpSub, OpSub | OpMul, OpMul | OpDiv, OpDiv | OpMod, OpMod => true
  | _, _ => false
  end.

(* ------------------------------------------------------------------ expressions *)
Inductive expr (V : Type) : Type :=
| ERead (x : V) (idx : list (expr V))                    (* x  or  x[i, j]             *)
| EConst (neg : bool) (lit : string)                     (* str(e.val): "-" flag + literal token *)
| EUSub (a : expr V)
| EBin (o : binop) (l r : expr V)
| EWin (x : V) (acc : list (expr V * option (expr V)))   (* (pt, None) = Point, (lo, Some hi) = Interval *)
| EStride (x : V) (dim : string)
| EExtern (f : string) (args : list (expr V))
| ECfg (c f : string).

Arguments ERead {V}. Arguments EConst {V}. Arguments EUSub {V}. Arguments EBin {V}.
Arguments EWin {V}. Arguments EStride {V}. Arguments EExtern {V}. Arguments ECfg {V}.

(* ------------------------------------------------------------------ tokens *)
Inductive token :=
| TId (s : string) | TLit (s : string) | TOp (o : binop)
| TLP | TRP | TLB | TRB | TComma | TColon | TDot | TSp.

Definition tok_text (t : token) : string :=
  match t with
  | TId s => s | TLit s => s | TOp o => op_text o
  | TLP => "(" | TRP => ")" | TLB => "[" | TRB => "]"
  | TComma => "," | TColon => ":" | TDot => "." | TSp => " "
  end.

Fixpoint toks_text (ts : list token) : string :=
  match ts with
  | [] => ""
  | t :: r => tok_text t ++ toks_text r
  end.

(* sep.join(parts) *)
Fixpoint sep_by (sep : list token) (parts : list (list token)) : list token :=
  match parts with
  | [] => []
  | [a] => a
  | a :: r => (a ++ sep ++ sep_by sep r)%list
  end.

Definition comma_sp : list token := [TComma; TSp].

(* ------------------------------------------------------------------ _print_expr *)
Fixpoint print_toks (e : expr string) (prec : nat) : list token :=
  match e with
  | ERead x idx =>
      TId x :: match idx with
               | [] => []
               | _ => (TLB :: sep_by comma_sp (map (fun i => print_toks i 0) idx) ++ [TRB])%list
               end
  | EConst neg lit => if neg then [TOp OpSub; TLit lit] else [TLit lit]
  | EUSub a => TOp OpSub :: print_toks a prec_usub
  | EBin o l r =>
      let local_prec := op_prec o in
      (* comparisons chain in Python (a == b == c means a == b and b == c): their left operand is printed one
         level up, like every right operand *)
      let lhs_prec := if is_cmp o then local_prec + 1 else local_prec in
      let s := (print_toks l lhs_prec ++ [TSp; TOp o; TSp] ++ print_toks r (local_prec + 1))%list in
      if Nat.ltb local_prec prec then (TLP :: s ++ [TRP])%list else s
  | EWin x acc =>
      (TId x :: TLB ::
       sep_by comma_sp
         (map (fun w : expr string * option (expr string) =>
                 match w with
                 | (pt, None) => print_toks pt 0
                 | (lo, Some hi) => (print_toks lo 0 ++ [TColon] ++ print_toks hi 0)%list
                 end) acc) ++ [TRB])%list
  | EStride x dim => [TId "stride"; TLP; TId x; TComma; TSp; TLit dim; TRP]
  | EExtern f args =>
      (TId f :: TLP :: sep_by comma_sp (map (fun a => print_toks a 0) args) ++ [TRP])%list
  | ECfg c f => [TId c; TDot; TId f]
  end.

(* _print_expr as it was before commit "fix: the printer must parenthesise a comparison that is the left operand of
   a comparison" (left operand always at local_prec), on the parsed fragment.  Kept only for the regression
   theorem C17_expr_roundtrip_prefix_refuted. *)
Fixpoint print_toks_prefix (e : expr string) (prec : nat) : list token :=
  match e with
  | ERead x idx =>
      TId x :: match idx with
               | [] => []
               | _ => (TLB :: sep_by comma_sp (map (fun i => print_toks_prefix i 0) idx) ++ [TRB])%list
               end
  | EConst neg lit => if neg then [TOp OpSub; TLit lit] else [TLit lit]
  | EUSub a => TOp OpSub :: print_toks_prefix a prec_usub
  | EBin o l r =>
      let local_prec := op_prec o in
      let s := (print_toks_prefix l local_prec ++ [TSp; TOp o; TSp] ++ print_toks_prefix r (local_prec + 1))%list in
      if Nat.ltb local_prec prec then (TLP :: s ++ [TRP])%list else s
  | _ => []
  end.

(* the string _print_expr(e, env, prec) returns, names already resolved *)
Definition expr_text (e : expr string) (prec : nat) : string := toks_text (print_toks e prec).

(* ------------------------------------------------------------------ the parser *)
Definition is_sp (t : token) : bool := match t with TSp => true | _ => false end.
Definition strip (ts : list token) : list token := filter (fun t => negb (is_sp t)) ts.

Definition pres := option (expr string * list token).

Fixpoint parse_at (f : nat) (p : nat) (ts : list token) {struct f} : pres :=
  match f with
  | 0 => None
  | S f =>
    match parse_prefix f ts with
    | Some (a, r) => parse_loop f p a r
    | None => None
    end
  end

(* factor: '-' factor | atom ;  atom: literal | name | name '[' e (',' e)* ']' | '(' e ')' *)
with parse_prefix (f : nat) (ts : list token) {struct f} : pres :=
  match f with
  | 0 => None
  | S f =>
    match ts with
    | TOp OpSub :: r =>
        match parse_at f prec_usub r with
        | Some (a, r') => Some (EUSub a, r')
        | None => None
        end
    | TLP :: r =>
        match parse_at f 0 r with
        | Some (a, TRP :: r') => Some (a, r')
        | _ => None
        end
    | TLit s :: r => Some (EConst false s, r)
    | TId x :: TLB :: r =>
        match parse_args f r with
        | Some (idx, r') => Some (ERead x idx, r')
        | None => None
        end
    | TId x :: r => Some (ERead x [], r)
    | _ => None
    end
  end

(* e (',' e)* ']' *)
with parse_args (f : nat) (ts : list token) {struct f} : option (list (expr string) * list token) :=
  match f with
  | 0 => None
  | S f =>
    match parse_at f 0 ts with
    | Some (a, TComma :: r) =>
        match parse_args f r with
        | Some (l, r') => Some (a :: l, r')
        | None => None
        end
    | Some (a, TRB :: r) => Some ([a], r)
    | _ => None
    end
  end

(* operators of precedence >= p, folding to the left *)
with parse_loop (f : nat) (p : nat) (lhs : expr string) (ts : list token) {struct f} : pres :=
  match f with
  | 0 => None
  | S f =>
    match ts with
    | TOp o :: r =>
        if Nat.leb p (op_prec o) then
          if is_cmp o then
            match parse_at f (op_prec o + 1) r with
            | Some (b, r') =>
                match parse_chain f (EBin o lhs b) b r' with
                | Some (acc, r'') => parse_loop f p acc r''
                | None => None
                end
            | None => None
            end
          else
            match parse_at f (op_prec o + 1) r with
            | Some (b, r') => parse_loop f p (EBin o lhs b) r'
            | None => None
            end
        else Some (lhs, ts)
    | _ => Some (lhs, ts)
    end
  end

(* the rest of a comparison chain  a c1 b c2 d ...  =  (a c1 b) and (b c2 d) and ... *)
with parse_chain (f : nat) (acc prev : expr string) (ts : list token) {struct f} : pres :=
  match f with
  | 0 => None
  | S f =>
    match ts with
    | TOp o :: r =>
        if is_cmp o then
          match parse_at f (op_prec o + 1) r with
          | Some (b, r') => parse_chain f (EBin OpAnd acc (EBin o prev b)) b r'
          | None => None
          end
        else Some (acc, ts)
    | _ => Some (acc, ts)
    end
  end.

Definition parse_fuel (ts : list token) : nat := 8 * length ts + 8.

Definition parse_toks (ts : list token) : option (expr string) :=
  match parse_at (parse_fuel ts) 0 ts with
  | Some (e, []) => Some e
  | _ => None
  end.

(* parse the token sequence of a printed expression (blanks are not tokens) *)
Definition parse_expr (ts : list token) : option (expr string) := parse_toks (strip ts).

(* ------------------------------------------------------------------ the fragment the round trip is about *)
(* well-formed for the round trip: inside the parsed fragment, and literals are non-negative (a negative constant
   prints as "-" literal, which reads back as a unary minus: same value, other tree) *)
Fixpoint wf_expr (e : expr string) : bool :=
  match e with
  | ERead _ idx => forallb wf_expr idx
  | EConst neg _ => negb neg
  | EUSub a => wf_expr a
  | EBin o l r => wf_expr l && wf_expr r
  | _ => false
  end.

(* decidable equality of parsed trees (used by the correspondence harness) *)
Fixpoint expr_eqb (a b : expr string) : bool :=
  match a, b with
  | ERead x i, ERead y j =>
      (x =? y) &&
      (fix go (l m : list (expr string)) : bool :=
         match l, m with
         | [], [] => true
         | u :: l', v :: m' => expr_eqb u v && go l' m'
         | _, _ => false
         end) i j
  | EConst n s, EConst m t => Bool.eqb n m && (s =? t)
  | EUSub u, EUSub v => expr_eqb u v
  | EBin o l r, EBin o' l' r' => binop_eqb o o' && expr_eqb l l' && expr_eqb r r'
  | _, _ => false
  end.
