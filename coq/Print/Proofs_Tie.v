(* C17: the functions generated from the current source of class PrintEnv (Gen_PrintEnv.v, translator
   translator/py2coq_printenv.py) ARE the hand-written model functions the theorems are about.  Both proofs are
   by computation: when the source changes (a dropped write, another default, a shared map), this file stops
   compiling and with it Props_C17.v. *)
From Coq Require Import String List.
From Print Require Import Model Gen_PrintEnv.

Lemma py_push_is_model : forall pe, py_push pe = push pe.
Proof. intros; reflexivity. Qed.

Lemma py_get_name_is_model : forall pe x, py_get_name pe x = get_name pe x.
Proof. intros; reflexivity. Qed.

Lemma py_run_is_model : forall ops pe, run_with py_get_name ops pe = run ops pe.
Proof.
  induction ops as [|o r IH]; intros pe; [reflexivity|].
  unfold run in *. cbn [run_with]. destruct o; cbn [step].
  - now rewrite IH.
  - now rewrite IH.
  - rewrite py_get_name_is_model. destruct (get_name pe x). now rewrite IH.
Qed.
