(* C17: theory of the PrintEnv model (Model.v): dict / ChainMap laws, injectivity of the suffix function,
   termination of the candidate loop within its fuel, and the invariant that makes printed names unambiguous. *)
From Coq Require Import String Ascii List Bool Arith Lia DecimalString DecimalNat Decimal.
From Print Require Import Model.
Import ListNotations.
Open Scope string_scope.

(* ------------------------------------------------------------------ equality tests *)
Lemma sym_eqb_spec : forall a b, reflect (a = b) (sym_eqb a b).
Proof.
  intros [n1 i1] [n2 i2]. unfold sym_eqb; cbn.
  destruct (String.eqb_spec n1 n2); cbn.
  - destruct (Nat.eqb_spec i1 i2); constructor; congruence.
  - constructor; congruence.
Qed.

(* ------------------------------------------------------------------ dict / ChainMap laws *)
Section DictLaws.
  Variables K V : Type.
  Variable keqb : K -> K -> bool.
  Hypothesis keqb_spec : forall a b, reflect (a = b) (keqb a b).

  Lemma keqb_refl : forall k, keqb k k = true.
  Proof. intros k; destruct (keqb_spec k k); congruence. Qed.

  Lemma dget_In : forall (d : dict K V) k v, dget keqb d k = Some v -> In (k, v) d.
  Proof.
    induction d as [|[k' v'] r IH]; cbn; intros k v H; [discriminate|].
    destruct (keqb_spec k k').
    - inversion H; subst; auto.
    - right; auto.
  Qed.

  Lemma dget_None : forall (d : dict K V) k, dget keqb d k = None -> forall v, ~ In (k, v) d.
  Proof.
    induction d as [|[k' v'] r IH]; cbn; intros k H v; [tauto|].
    destruct (keqb_spec k k'); [discriminate|].
    intros [E|E]; [inversion E; congruence | eapply IH; eauto].
  Qed.

  Lemma In_dget : forall (d : dict K V) k v, In (k, v) d -> exists v', dget keqb d k = Some v'.
  Proof.
    intros d k v H. destruct (dget keqb d k) eqn:E; [eauto|].
    exfalso; eapply dget_None; eauto.
  Qed.

  Lemma dget_dset_same : forall (d : dict K V) k v, dget keqb (dset keqb d k v) k = Some v.
  Proof.
    induction d as [|[k' v'] r IH]; cbn; intros k v.
    - now rewrite keqb_refl.
    - destruct (keqb_spec k k') as [E|E]; cbn.
      + now rewrite keqb_refl.
      + destruct (keqb_spec k k'); [congruence|]. apply IH.
  Qed.

  Lemma dget_dset_other : forall (d : dict K V) k v k', k' <> k ->
    dget keqb (dset keqb d k v) k' = dget keqb d k'.
  Proof.
    induction d as [|[k0 v0] r IH]; cbn; intros k v k' N.
    - destruct (keqb_spec k' k); congruence.
    - destruct (keqb_spec k k0) as [E|E]; cbn.
      + subst. destruct (keqb_spec k' k0); congruence.
      + destruct (keqb_spec k' k0); auto.
  Qed.

  Lemma In_dset : forall (d : dict K V) k v p, In p (dset keqb d k v) -> p = (k, v) \/ In p d.
  Proof.
    induction d as [|[k0 v0] r IH]; cbn; intros k v p H.
    - destruct H as [H|[]]; auto.
    - destruct (keqb k k0); cbn in H.
      + destruct H; auto.
      + destruct H as [H|H]; auto. apply IH in H. tauto.
  Qed.

  Lemma dset_absent : forall (d : dict K V) k v, dget keqb d k = None -> dset keqb d k v = (d ++ [(k, v)])%list.
  Proof.
    induction d as [|[k0 v0] r IH]; cbn; intros k v H; auto.
    destruct (keqb k k0); [discriminate|]. now rewrite IH.
  Qed.

  Lemma dset_keys_grow : forall (d : dict K V) k v k',
    In k' (map fst d) -> In k' (map fst (dset keqb d k v)).
  Proof.
    induction d as [|[k0 v0] r IH]; cbn; intros k v k' H; [tauto|].
    destruct (keqb_spec k k0); cbn.
    - subst. tauto.
    - destruct H; auto.
  Qed.

  (* chains *)
  Lemma cget_In : forall (c : chain K V) k v, cget keqb c k = Some v -> In (k, v) (concat c).
  Proof.
    induction c as [|d r IH]; cbn; intros k v H; [discriminate|].
    apply in_or_app. destruct (dget keqb d k) eqn:E.
    - inversion H; subst. left. now apply dget_In.
    - right; auto.
  Qed.

  Lemma cget_None : forall (c : chain K V) k, cget keqb c k = None -> forall v, ~ In (k, v) (concat c).
  Proof.
    induction c as [|d r IH]; cbn; intros k H v; [tauto|].
    destruct (dget keqb d k) eqn:E; [discriminate|].
    intros I. apply in_app_or in I. destruct I as [I|I].
    - eapply dget_None; eauto.
    - eapply IH; eauto.
  Qed.

  Lemma In_cget : forall (c : chain K V) k v, In (k, v) (concat c) -> exists v', cget keqb c k = Some v'.
  Proof.
    intros c k v H. destruct (cget keqb c k) eqn:E; [eauto|].
    exfalso; eapply cget_None; eauto.
  Qed.

  Lemma cmem_In_keys : forall (c : chain K V) k, cmem keqb c k = true -> In k (map fst (concat c)).
  Proof.
    intros c k H. unfold cmem in H. destruct (cget keqb c k) eqn:E; [|discriminate].
    apply cget_In in E. change k with (fst (k, v)). now apply in_map.
  Qed.

  Lemma cget_cset_same : forall (c : chain K V) k v, cget keqb (cset keqb c k v) k = Some v.
  Proof.
    intros [|d r] k v; cbn.
    - now rewrite keqb_refl.
    - now rewrite dget_dset_same.
  Qed.

  Lemma cget_cset_other : forall (c : chain K V) k v k', k' <> k ->
    cget keqb (cset keqb c k v) k' = cget keqb c k'.
  Proof.
    intros [|d r] k v k' N; cbn.
    - destruct (keqb_spec k' k); congruence.
    - now rewrite dget_dset_other.
  Qed.

  Lemma cmem_cset_same : forall (c : chain K V) k v, cmem keqb (cset keqb c k v) k = true.
  Proof. intros; unfold cmem; now rewrite cget_cset_same. Qed.

  Lemma cmem_cset_mono : forall (c : chain K V) k v k', cmem keqb c k' = true -> cmem keqb (cset keqb c k v) k' = true.
  Proof.
    intros c k v k' H. destruct (keqb_spec k' k).
    - subst. apply cmem_cset_same.
    - unfold cmem in *. now rewrite cget_cset_other.
  Qed.

  Lemma cmem_csetdefault_same : forall (c : chain K V) k v, cmem keqb (csetdefault keqb c k v) k = true.
  Proof.
    intros c k v. unfold csetdefault. destruct (cmem keqb c k) eqn:E; auto. apply cmem_cset_same.
  Qed.

  Lemma cmem_csetdefault_mono : forall (c : chain K V) k v k',
    cmem keqb c k' = true -> cmem keqb (csetdefault keqb c k v) k' = true.
  Proof.
    intros c k v k' H. unfold csetdefault. destruct (cmem keqb c k); auto. now apply cmem_cset_mono.
  Qed.

  Lemma In_concat_cset : forall (c : chain K V) k v p,
    In p (concat (cset keqb c k v)) -> p = (k, v) \/ In p (concat c).
  Proof.
    intros [|d r] k v p H; cbn in *.
    - destruct H as [H|[]]; auto.
    - apply in_app_or in H. destruct H as [H|H].
      + apply In_dset in H. destruct H; auto. right. apply in_or_app; auto.
      + right. apply in_or_app; auto.
  Qed.

  Lemma In_concat_cset_back : forall (c : chain K V) k v p,
    cget keqb c k = None -> In p (concat c) -> In p (concat (cset keqb c k v)).
  Proof.
    intros [|d r] k v p N H; cbn in *; [tauto|].
    destruct (dget keqb d k) eqn:E; [discriminate|].
    rewrite dset_absent by auto.
    apply in_app_or in H. apply in_or_app. destruct H; auto.
    left. apply in_or_app; auto.
  Qed.

  (* the shape of a chain after a write: maps[0] replaced, parents untouched *)
  Lemma tl_cset : forall (c : chain K V) k v, tl (cset keqb c k v) = tl c.
  Proof. intros [|d r] k v; reflexivity. Qed.

  Lemma tl_csetdefault : forall (c : chain K V) k v, tl (csetdefault keqb c k v) = tl c.
  Proof. intros c k v; unfold csetdefault; destruct (cmem keqb c k); auto using tl_cset. Qed.
End DictLaws.

(* ------------------------------------------------------------------ the suffix function is injective *)
Lemma dec_inj : forall a b, dec a = dec b -> a = b.
Proof.
  intros a b H. unfold dec in H.
  apply Unsigned.to_uint_inj.
  assert (Some (Nat.to_uint a) = Some (Nat.to_uint b)) as E.
  { rewrite <- (NilEmpty.usu (Nat.to_uint a)), <- (NilEmpty.usu (Nat.to_uint b)). now rewrite H. }
  now inversion E.
Qed.

Lemma append_inj_l : forall s a b, (s ++ a = s ++ b) -> a = b.
Proof. induction s; cbn; intros a' b' H; auto. inversion H; auto. Qed.

Lemma length_append : forall a b, String.length (a ++ b) = String.length a + String.length b.
Proof. induction a; cbn; intros; auto. Qed.

Lemma fmt_suffix_inj : forall nm a b, fmt_suffix nm a = fmt_suffix nm b -> a = b.
Proof.
  intros nm a b H. unfold fmt_suffix in H.
  apply append_inj_l in H. apply (append_inj_l "_") in H. now apply dec_inj.
Qed.

Lemma fmt_suffix_neq_name : forall nm a, fmt_suffix nm a <> py_str nm.
Proof.
  intros nm a H. apply (f_equal String.length) in H.
  unfold fmt_suffix in H. rewrite !length_append in H. cbn in H. lia.
Qed.

Lemma fmt_suffix_nonempty : forall nm a, fmt_suffix nm a <> "".
Proof.
  intros nm a H. apply (f_equal String.length) in H.
  unfold fmt_suffix in H. rewrite !length_append in H. cbn in H. lia.
Qed.

(* ------------------------------------------------------------------ the candidate loop *)
Lemma while_fuel_inv : forall (S : Type) (P : S -> Prop) test body,
  (forall s, P s -> test s = true -> P (body s)) ->
  forall f s s', P s -> while_fuel f test body s = Some s' -> P s' /\ test s' = false.
Proof.
  intros S P test body Hstep. induction f as [|f IH]; cbn; intros s s' Hs H.
  - destruct (test s) eqn:E; [discriminate|]. inversion H; subst; auto.
  - destruct (test s) eqn:E.
    + apply (IH (body s)); auto.
    + inversion H; subst; auto.
Qed.

Section Loop.
  Variable names : chain string nat.
  Variable nm : sym.

  Let test := (fun '((candidate, num) : string * nat) => cmem String.eqb names candidate).
  Let body := (fun '((candidate, num) : string * nat) =>
                 let candidate := fmt_suffix nm num in let num := num + 1 in (candidate, num)).

  (* every failing test hits a different key of `names`: with fuel >= number of keys the loop exits by itself *)
  Lemma name_loop_total_aux : forall f cand num seen,
    NoDup (cand :: seen) ->
    (forall s, In s seen -> cmem String.eqb names s = true) ->
    (forall k, num <= k -> ~ In (fmt_suffix nm k) (cand :: seen)) ->
    csize names <= List.length seen + f ->
    while_fuel f test body (cand, num) <> None.
  Proof.
    induction f as [|f IH]; intros cand num seen ND Hseen Hfresh Hsz; cbn.
    - destruct (cmem String.eqb names cand) eqn:E; [|discriminate].
      exfalso.
      assert (incl (cand :: seen) (map fst (concat names))) as Hincl.
      { intros s [<-|Hs]; apply (cmem_In_keys _ _ _ String.eqb_spec); auto. }
      apply NoDup_incl_length in Hincl; auto.
      unfold csize in Hsz. rewrite map_length in Hincl. cbn in Hincl. lia.
    - destruct (cmem String.eqb names cand) eqn:E; [|discriminate].
      apply (IH _ _ (cand :: seen)).
      + constructor; auto.
      + intros s [<-|Hs]; auto.
      + intros k Hk [Hin|Hin].
        * apply fmt_suffix_inj in Hin. lia.
        * apply (Hfresh k); [lia | auto].
      + cbn. lia.
  Qed.

  Lemma name_loop_total : forall num,
    while_fuel (csize names) test body (py_str nm, num) <> None.
  Proof.
    intros num. apply (name_loop_total_aux _ _ _ []).
    - constructor; [intros []|constructor].
    - intros s [].
    - intros k _ [H|[]]. symmetry in H. eapply fmt_suffix_neq_name; eauto.
    - cbn. lia.
  Qed.

  Lemma name_loop_spec : forall f num c n,
    sym_name nm <> "" ->
    while_fuel f test body (py_str nm, num) = Some (c, n) ->
    c <> "" /\ cmem String.eqb names c = false.
  Proof.
    intros f num c n Hne H.
    apply (while_fuel_inv _ (fun '(c, _) => c <> "")) in H.
    - exact H.
    - intros [c0 n0] _ _. cbn. apply fmt_suffix_nonempty.
    - exact Hne.
  Qed.
End Loop.

(* the fuel given to the loop by get_name is always enough *)
Lemma get_name_fuel_sufficient : forall pe x num,
  while_fuel (loop_fuel pe)
    (fun '(candidate, num) => cmem String.eqb (pe_names pe) candidate)
    (fun '(candidate, num) => let candidate := fmt_suffix x num in let num := num + 1 in (candidate, num))
    (py_str x, num) <> None.
Proof. intros. apply name_loop_total. Qed.

(* ------------------------------------------------------------------ what one get_name call does *)
Lemma get_name_cases : forall pe x,
  sym_name x <> "" ->
  (exists s, truthy (cget sym_eqb (pe_env pe) x) = Some s /\ get_name pe x = (s, pe)) \/
  (truthy (cget sym_eqb (pe_env pe) x) = None /\
   exists c num, c <> "" /\ cmem String.eqb (pe_names pe) c = false /\
     get_name pe x =
       (c, mkEnv (cset sym_eqb (pe_env pe) x c)
                 (csetdefault String.eqb (cset String.eqb (pe_names pe) (py_str x) num) c 1))).
Proof.
  intros pe x Hne. unfold get_name.
  destruct (truthy (cget sym_eqb (pe_env pe) x)) as [s|] eqn:T.
  - left. eauto.
  - right. split; auto.
    destruct (while_fuel _ _ _ _) as [[c n]|] eqn:W.
    + apply name_loop_spec in W; auto. destruct W as [W1 W2].
      exists c, n. repeat split; auto.
    + exfalso. eapply get_name_fuel_sufficient; eauto.
Qed.

(* ------------------------------------------------------------------ the invariant *)
(* level k of the env chain only holds non-empty names that are reserved in the names chain from level k on *)
Fixpoint levels_ok (e : chain sym string) (n : chain string nat) : Prop :=
  match e, n with
  | [], [] => True
  | e0 :: e', n0 :: n' =>
      (forall x s, In (x, s) e0 -> s <> "" /\ cmem String.eqb (n0 :: n') s = true) /\ levels_ok e' n'
  | _, _ => False
  end.

(* no two entries anywhere in the chain carry the same printed name *)
Definition inj (e : chain sym string) : Prop :=
  forall x y s, In (x, s) (concat e) -> In (y, s) (concat e) -> x = y.

(* a symbol has at most one printed name in the chain (no shadowing) *)
Definition func (e : chain sym string) : Prop :=
  forall x s t, In (x, s) (concat e) -> In (x, t) (concat e) -> s = t.

Definition Inv (pe : penv) : Prop :=
  levels_ok (pe_env pe) (pe_names pe) /\ inj (pe_env pe) /\ func (pe_env pe).

Lemma cmem_cons : forall (n0 : dict string nat) n' s,
  cmem String.eqb n' s = true -> cmem String.eqb (n0 :: n') s = true.
Proof.
  intros n0 n' s H. unfold cmem in *. cbn. destruct (dget String.eqb n0 s); auto.
Qed.

Lemma levels_ok_entry : forall e n x s,
  levels_ok e n -> In (x, s) (concat e) -> s <> "" /\ cmem String.eqb n s = true.
Proof.
  induction e as [|e0 e' IH]; intros [|n0 n'] x s L H; cbn in *; try tauto.
  destruct L as [L0 L']. apply in_app_or in H. destruct H as [H|H].
  - apply L0 in H. exact H.
  - destruct (IH _ _ _ L' H) as [A B]. split; auto. now apply cmem_cons.
Qed.

Lemma Inv_init : Inv init_env.
Proof.
  split; [|split]; cbn.
  - tauto.
  - intros x y s [].
  - intros x s t [].
Qed.

Lemma Inv_push : forall pe, Inv pe -> Inv (push pe).
Proof.
  intros pe (L & I & F). split; [|split]; cbn; auto.
Qed.

Lemma Inv_pop : forall pe, Inv pe -> Inv (pop pe).
Proof.
  intros [e n] (L & I & F). unfold Inv, pop; cbn in *.
  destruct e as [|e0 e'], n as [|n0 n']; cbn in *; try tauto.
  destruct L as [_ L']. repeat split; auto.
  - intros x y s A B. apply (I x y s); apply in_or_app; auto.
  - intros x s t A B. apply (F x s t); apply in_or_app; auto.
Qed.

Lemma Inv_truthy : forall pe x s, Inv pe -> cget sym_eqb (pe_env pe) x = Some s ->
  truthy (cget sym_eqb (pe_env pe) x) = Some s.
Proof.
  intros pe x s (L & _) H. rewrite H. cbn.
  apply (cget_In _ _ _ sym_eqb_spec) in H. apply (levels_ok_entry _ _ _ _ L) in H.
  destruct H as [H _]. destruct (String.eqb_spec s ""); congruence.
Qed.

Lemma Inv_truthy_None : forall pe x, Inv pe -> truthy (cget sym_eqb (pe_env pe) x) = None ->
  cget sym_eqb (pe_env pe) x = None.
Proof.
  intros pe x HI H. destruct (cget sym_eqb (pe_env pe) x) eqn:E; auto.
  pose proof (Inv_truthy _ _ _ HI E) as T. rewrite E in T. congruence.
Qed.

(* writes into maps[0] of the names chain keep every level reserved *)
Lemma levels_ok_names_grow : forall e n0 n' m0,
  levels_ok e (n0 :: n') ->
  (forall s, cmem String.eqb (n0 :: n') s = true -> cmem String.eqb (m0 :: n') s = true) ->
  levels_ok e (m0 :: n').
Proof.
  intros [|e0 e'] n0 n' m0 L M; cbn in *; try tauto.
  destruct L as [L0 L']. split; auto.
  intros x s H. destruct (L0 _ _ H). split; auto.
Qed.

Lemma cset_shape : forall (K V : Type) keqb (c : chain K V) k v, exists m0, cset keqb c k v = m0 :: tl c.
Proof. intros K V keqb [|d r] k v; cbn; eauto. Qed.

Lemma csetdefault_cset_shape : forall (c : chain string nat) k v k' v',
  exists m0, csetdefault String.eqb (cset String.eqb c k v) k' v' = m0 :: tl c.
Proof.
  intros c k v k' v'. unfold csetdefault. destruct (cmem _ _ _).
  - apply cset_shape.
  - destruct (cset_shape _ _ String.eqb c k v) as [m0 E]. rewrite E. cbn. eauto.
Qed.

Lemma Inv_get_name : forall pe x, sym_name x <> "" -> Inv pe -> Inv (snd (get_name pe x)).
Proof.
  intros pe x Hne HI.
  destruct (get_name_cases pe x Hne) as [(s & _ & E)|(T & c & num & Hc & Hfresh & E)]; rewrite E; cbn; auto.
  apply Inv_truthy_None in T; auto.
  destruct HI as (L & I & F).
  set (n1 := cset String.eqb (pe_names pe) (py_str x) num).
  set (n2 := csetdefault String.eqb n1 c 1).
  assert (forall s, cmem String.eqb (pe_names pe) s = true -> cmem String.eqb n2 s = true) as Mono.
  { intros s H. apply (cmem_csetdefault_mono _ _ _ String.eqb_spec).
    now apply (cmem_cset_mono _ _ _ String.eqb_spec). }
  assert (cmem String.eqb n2 c = true) as Hin by apply (cmem_csetdefault_same _ _ _ String.eqb_spec).
  destruct (csetdefault_cset_shape (pe_names pe) (py_str x) num c 1) as [m0 Hshape].
  fold n1 in Hshape. fold n2 in Hshape.
  split; [|split].
  - (* levels *)
    cbn. rewrite Hshape in *.
    destruct (pe_env pe) as [|e0 e'] eqn:Ee, (pe_names pe) as [|n0 n'] eqn:En; cbn in L |- *; try tauto.
    + split; [|tauto]. intros y s [H|[]]. inversion H; subst. split; auto.
    + assert (levels_ok (e0 :: e') (m0 :: n')) as L2 by (apply (levels_ok_names_grow _ n0); auto).
      destruct L2 as [L0 L']. split; auto.
      intros y s H. apply (In_dset _ _ _) in H. destruct H as [H|H].
      * inversion H; subst. split; auto.
      * apply L0 in H. exact H.
  - (* inj *)
    cbn. intros a b s A B.
    apply (In_concat_cset _ _ sym_eqb) in A. apply (In_concat_cset _ _ sym_eqb) in B.
    destruct A as [A|A], B as [B|B].
    + congruence.
    + inversion A; subst. apply (levels_ok_entry _ _ _ _ L) in B. destruct B; congruence.
    + inversion B; subst. apply (levels_ok_entry _ _ _ _ L) in A. destruct A; congruence.
    + eapply I; eauto.
  - (* func *)
    cbn. intros a s t A B.
    apply (In_concat_cset _ _ sym_eqb) in A. apply (In_concat_cset _ _ sym_eqb) in B.
    destruct A as [A|A], B as [B|B].
    + congruence.
    + inversion A; subst. exfalso. eapply (cget_None _ _ _ sym_eqb_spec); eauto.
    + inversion B; subst. exfalso. eapply (cget_None _ _ _ sym_eqb_spec); eauto.
    + eapply F; eauto.
Qed.

(* ------------------------------------------------------------------ sequences of calls *)
Definition ops_ok (ops : list op) : Prop := Forall (fun o => op_sym_ok o = true) ops.

Lemma op_sym_ok_get : forall x, op_sym_ok (OGet x) = true -> sym_name x <> "".
Proof. intros x H. cbn in H. destruct (String.eqb_spec (sym_name x) ""); [discriminate|auto]. Qed.

Lemma Inv_step : forall pe o, op_sym_ok o = true -> Inv pe -> Inv (snd (step get_name pe o)).
Proof.
  intros pe [| |x] H HI; cbn.
  - now apply Inv_push.
  - now apply Inv_pop.
  - pose proof (Inv_get_name pe x (op_sym_ok_get _ H) HI) as G.
    destruct (get_name pe x); exact G.
Qed.

Lemma run_cons : forall gn o r pe,
  run_with gn (o :: r) pe =
  ((fst (step gn pe o) ++ fst (run_with gn r (snd (step gn pe o))))%list, snd (run_with gn r (snd (step gn pe o)))).
Proof.
  intros. cbn [run_with]. destruct (step gn pe o) as [o1 p1]. cbn [fst snd].
  destruct (run_with gn r p1); reflexivity.
Qed.

Lemma run_app : forall gn a b pe,
  snd (run_with gn (a ++ b)%list pe) = snd (run_with gn b (snd (run_with gn a pe))).
Proof.
  induction a as [|o a IH]; intros b pe; [reflexivity|].
  change ((o :: a) ++ b)%list with (o :: (a ++ b))%list. rewrite !run_cons. cbn [snd]. apply IH.
Qed.

Lemma Inv_run : forall ops pe, ops_ok ops -> Inv pe -> Inv (snd (run ops pe)).
Proof.
  induction ops as [|o r IH]; intros pe Hok HI; [exact HI|].
  inversion Hok; subst. unfold run in *. rewrite run_cons. cbn [snd].
  apply IH; auto. now apply Inv_step.
Qed.

(* every environment reachable from PrintEnv() by push / leave-scope / get_name calls satisfies the invariant *)
Theorem reachable_Inv : forall ops, ops_ok ops -> Inv (env_after ops).
Proof. intros ops H. apply Inv_run; auto. apply Inv_init. Qed.

(* ------------------------------------------------------------------ consequences *)
Theorem Inv_names_distinct : forall pe x y s t,
  Inv pe -> x <> y -> visible pe x = Some s -> visible pe y = Some t -> s <> t.
Proof.
  intros pe x y s t (_ & I & _) N A B E. subst t.
  apply N. apply (I x y s); apply (cget_In _ _ _ sym_eqb_spec); assumption.
Qed.

(* a printed name never is the empty string *)
Lemma Inv_visible_nonempty : forall pe x s, Inv pe -> visible pe x = Some s -> s <> "".
Proof.
  intros pe x s (L & _) H. apply (cget_In _ _ _ sym_eqb_spec) in H.
  now apply (levels_ok_entry _ _ _ _ L) in H.
Qed.

(* asking again returns the same name and changes nothing *)
Lemma get_name_resolved : forall pe x s, Inv pe -> visible pe x = Some s -> get_name pe x = (s, pe).
Proof.
  intros pe x s HI H. unfold get_name. unfold visible in H. now rewrite (Inv_truthy _ _ _ HI H).
Qed.

(* after a request the symbol is visible under the returned name *)
Lemma get_name_visible : forall pe x, sym_name x <> "" -> Inv pe ->
  visible (snd (get_name pe x)) x = Some (fst (get_name pe x)).
Proof.
  intros pe x Hne HI.
  destruct (get_name_cases pe x Hne) as [(s & T & E)|(T & c & num & Hc & Hfresh & E)]; rewrite E; cbn.
  - unfold visible. unfold truthy in T. destruct (cget sym_eqb (pe_env pe) x); [|discriminate].
    destruct (s0 =? ""); [discriminate|]. congruence.
  - unfold visible; cbn. apply (cget_cset_same _ _ _ sym_eqb_spec).
Qed.

(* stability within a scope: `d` = number of scopes entered since the symbol was seen resolved *)
Fixpoint depth_ok (d : nat) (ops : list op) : bool :=
  match ops with
  | [] => true
  | OPush :: r => depth_ok (S d) r
  | OPop :: r => match d with 0 => false | S d' => depth_ok d' r end
  | OGet _ :: r => depth_ok d r
  end.

Fixpoint depth_after (d : nat) (ops : list op) : nat :=
  match ops with
  | [] => d
  | OPush :: r => depth_after (S d) r
  | OPop :: r => depth_after (pred d) r
  | OGet _ :: r => depth_after d r
  end.

Lemma skipn_S_tl : forall (A : Type) n (l : list A), skipn (S n) l = skipn n (tl l).
Proof. intros A n [|a l]; cbn; auto. now destruct n. Qed.

Lemma concat_skipn_incl : forall (A : Type) n (c : list (list A)) p, In p (concat (skipn n c)) -> In p (concat c).
Proof.
  induction n as [|n IH]; intros c p H; auto.
  destruct c as [|d r]; cbn in *; auto. apply in_or_app; right; auto.
Qed.

Lemma held_step : forall pe o d x s,
  op_sym_ok o = true -> Inv pe ->
  In (x, s) (concat (skipn d (pe_env pe))) ->
  depth_ok d [o] = true ->
  In (x, s) (concat (skipn (depth_after d [o]) (pe_env (snd (step get_name pe o))))).
Proof.
  intros pe [| |y] d x s Hok HI H Hd; cbn in *.
  - exact H.
  - destruct d as [|d]; [discriminate|]. cbn. now rewrite <- skipn_S_tl.
  - apply op_sym_ok_get in Hok.
    destruct (get_name_cases pe y Hok) as [(s' & _ & E)|(T & c & num & Hc & Hfresh & E)]; rewrite E; cbn; auto.
    apply Inv_truthy_None in T; auto.
    destruct d as [|d].
    + cbn in *. now apply (In_concat_cset_back _ _ sym_eqb).
    + destruct (pe_env pe); cbn in *; auto. destruct d; cbn in H; tauto.
Qed.

Lemma held_run : forall ops pe d x s,
  ops_ok ops -> Inv pe ->
  In (x, s) (concat (skipn d (pe_env pe))) ->
  depth_ok d ops = true ->
  In (x, s) (concat (skipn (depth_after d ops) (pe_env (snd (run ops pe))))).
Proof.
  induction ops as [|o r IH]; intros pe d x s Hok HI H Hd; [exact H|].
  inversion Hok; subst. unfold run in *. rewrite run_cons. cbn [snd].
  assert (depth_ok d [o] = true /\ depth_ok (depth_after d [o]) r = true) as [D1 D2].
  { destruct o; cbn in *; auto. destruct d; [discriminate|auto]. }
  assert (depth_after d (o :: r) = depth_after (depth_after d [o]) r) as -> by (destruct o; reflexivity).
  apply IH; auto.
  - now apply Inv_step.
  - now apply held_step.
Qed.

(* a name once resolved for a symbol stays the same for as long as its scope is open: whatever is pushed,
   requested and popped in between (never leaving the scope), the symbol is still visible under that name, and
   get_name returns exactly it *)
Theorem name_stable_in_scope : forall ops pe x s,
  ops_ok ops -> Inv pe -> visible pe x = Some s -> depth_ok 0 ops = true ->
  visible (snd (run ops pe)) x = Some s /\ fst (get_name (snd (run ops pe)) x) = s.
Proof.
  intros ops pe x s Hok HI H Hd.
  assert (Inv (snd (run ops pe))) as HI' by now apply Inv_run.
  assert (In (x, s) (concat (pe_env (snd (run ops pe))))) as Hin.
  { eapply concat_skipn_incl. eapply (held_run ops pe 0); eauto. cbn.
    now apply (cget_In _ _ _ sym_eqb_spec). }
  assert (visible (snd (run ops pe)) x = Some s) as Hv.
  { destruct (In_cget _ _ _ sym_eqb_spec _ _ _ Hin) as [s' Hs']. unfold visible. rewrite Hs'. f_equal.
    destruct HI' as (_ & _ & F). apply (F x); auto. now apply (cget_In _ _ _ sym_eqb_spec). }
  split; auto. now rewrite (get_name_resolved _ _ _ HI' Hv).
Qed.

(* ------------------------------------------------------------------ satisfiability / sensitivity *)
Definition w_x1 := mkSym "x" 1.
Definition w_x2 := mkSym "x" 2.
Definition w_x3 := mkSym "x_1" 3.
Definition w_ops := [OGet w_x1; OGet w_x2; OGet w_x3].

Example ops_ok_witness : ops_ok w_ops.
Proof. repeat constructor. Qed.

(* the repaired function hands out three different names for the witness sequence *)
Example fixed_names_witness : names_of w_ops = ["x"; "x_1"; "x_1_1"].
Proof. vm_compute. reflexivity. Qed.

(* the hypotheses of name_stable_in_scope are satisfiable *)
Example stable_witness :
  visible (env_after w_ops) w_x2 = Some "x_1" /\ depth_ok 0 [OPush; OGet (mkSym "x" 7); OPop] = true.
Proof. vm_compute. auto. Qed.

(* with the old get_name (no setdefault) two different symbols are visible under one name *)
Lemma prefix_collision :
  exists ops x y s, ops_ok ops /\ x <> y /\
    visible (snd (run_prefix ops init_env)) x = Some s /\
    visible (snd (run_prefix ops init_env)) y = Some s.
Proof.
  exists w_ops, w_x2, w_x3, "x_1". repeat split.
  - apply ops_ok_witness.
  - discriminate.
Qed.
