(* C17 engine `Print`, part 3: statements and procedures.  Executable Gallina only.

   The printer of LoopIR_pprint.py (_print_proc/_print_block/_print_stmt/_print_fnarg/_print_type/_print_expr/
   _print_w_access) is split into the two things it does:

     ops_of_proc : proc sym -> list op
         the PrintEnv calls it makes, in the order it makes them (OPush = `env.push()` for an If branch or a
         For body, OPop = that child environment is dropped, OGet x = `env.get_name(x)`).  Note the evaluation
         order, which is not the text order: a For prints its bounds in the outer environment BEFORE it names the
         iterator in the pushed one; an Alloc / a tensor argument prints its type before its own name; a
         WindowStmt prints its right-hand side before its name; Assign/Reduce name the buffer first.

     rename_proc : proc sym -> list string -> proc string
         consumes the names handed out (Model.names_of (ops_of_proc p)) in the same order.

     lines_of_proc : proc string -> list string
         the lines _print_proc returns (before yapf's FormatCode). *)
From Coq Require Import String Ascii List Bool Arith.
From Print Require Import Model ModelExpr.
Import ListNotations.
Open Scope string_scope.

(* ------------------------------------------------------------------ syntax *)
Inductive basety :=
| TyNum | TyF16 | TyF32 | TyF64 | TyI8 | TyUI8 | TyUI16 | TyI32 | TyBool | TyInt | TyIndex | TySize | TyStride | TyErr.

Inductive type (V : Type) :=
| TBase (b : basety)
| TTensor (b : basety) (is_window : bool) (shape : list (expr V)).
Arguments TBase {V}. Arguments TTensor {V}.

Inductive stmt (V : Type) : Type :=
| SPass
| SAssign (x : V) (idx : list (expr V)) (rhs : expr V)
| SReduce (x : V) (idx : list (expr V)) (rhs : expr V)
| SWriteConfig (c f : string) (rhs : expr V)
| SWindowStmt (x : V) (rhs : expr V)
| SAlloc (x : V) (ty : type V) (mem : option string)
| SFree (x : V)
| SCall (f : string) (args : list (expr V))
| SIf (cond : expr V) (body orelse : list (stmt V))
| SFor (iter : V) (lo hi : expr V) (par : bool) (body : list (stmt V)).
Arguments SPass {V}. Arguments SAssign {V}. Arguments SReduce {V}. Arguments SWriteConfig {V}.
Arguments SWindowStmt {V}. Arguments SAlloc {V}. Arguments SFree {V}. Arguments SCall {V}.
Arguments SIf {V}. Arguments SFor {V}.

Record fnarg (V : Type) := mkArg { a_name : V; a_type : type V; a_mem : option string }.
Arguments mkArg {V}. Arguments a_name {V}. Arguments a_type {V}. Arguments a_mem {V}.

Record proc (V : Type) := mkProc {
  p_name : string;
  p_args : list (fnarg V);
  p_instr : option (list string);      (* p.instr.c_instr.split("\n") *)
  p_preds : list (expr V);
  p_body : list (stmt V)
}.
Arguments mkProc {V}. Arguments p_name {V}. Arguments p_args {V}. Arguments p_instr {V}.
Arguments p_preds {V}. Arguments p_body {V}.

(* ------------------------------------------------------------------ the PrintEnv calls, in evaluation order *)
Fixpoint ops_of_expr (e : expr sym) : list op :=
  match e with
  | ERead x idx => OGet x :: flat_map ops_of_expr idx
  | EConst _ _ => []
  | EUSub a => ops_of_expr a
  | EBin _ l r => (ops_of_expr l ++ ops_of_expr r)%list
  | EWin x acc =>
      OGet x :: flat_map (fun w : expr sym * option (expr sym) =>
                            match w with
                            | (pt, None) => ops_of_expr pt
                            | (lo, Some hi) => (ops_of_expr lo ++ ops_of_expr hi)%list
                            end) acc
  | EStride x _ => [OGet x]
  | EExtern _ args => flat_map ops_of_expr args
  | ECfg _ _ => []
  end.

Definition ops_of_type (t : type sym) : list op :=
  match t with
  | TBase _ => []
  | TTensor _ _ shape => flat_map ops_of_expr shape
  end.

Fixpoint ops_of_stmt (s : stmt sym) : list op :=
  match s with
  | SPass => []
  | SAssign x idx rhs | SReduce x idx rhs => (OGet x :: flat_map ops_of_expr idx ++ ops_of_expr rhs)%list
  | SWriteConfig _ _ rhs => ops_of_expr rhs
  | SWindowStmt x rhs => (ops_of_expr rhs ++ [OGet x])%list
  | SAlloc x ty _ => (ops_of_type ty ++ [OGet x])%list
  | SFree x => [OGet x]
  | SCall _ args => flat_map ops_of_expr args
  | SIf cond body orelse =>
      (ops_of_expr cond ++ OPush :: flat_map ops_of_stmt body ++ OPop ::
       match orelse with
       | [] => []
       | _ => (OPush :: flat_map ops_of_stmt orelse ++ [OPop])%list
       end)%list
  | SFor iter lo hi _ body =>
      (ops_of_expr lo ++ ops_of_expr hi ++ OPush :: OGet iter :: flat_map ops_of_stmt body ++ [OPop])%list
  end.

Definition is_size_or_index (t : type sym) : bool :=
  match t with TBase TySize | TBase TyIndex => true | _ => false end.

Definition ops_of_fnarg (a : fnarg sym) : list op :=
  if is_size_or_index (a_type a) then [OGet (a_name a)]
  else (ops_of_type (a_type a) ++ [OGet (a_name a)])%list.

Definition ops_of_proc (p : proc sym) : list op :=
  (flat_map ops_of_fnarg (p_args p) ++ flat_map ops_of_expr (p_preds p) ++ flat_map ops_of_stmt (p_body p))%list.

(* ------------------------------------------------------------------ consuming the names in the same order *)
Definition next (st : list string) : string * list string :=
  match st with [] => ("", []) | s :: r => (s, r) end.

Fixpoint rn_expr (e : expr sym) (st : list string) : expr string * list string :=
  match e with
  | ERead x idx =>
      let (nx, st) := next st in
      let (idx', st) :=
        (fix go (l : list (expr sym)) (st : list string) : list (expr string) * list string :=
           match l with
           | [] => ([], st)
           | a :: r => let (a', st) := rn_expr a st in let (r', st) := go r st in (a' :: r', st)
           end) idx st in
      (ERead nx idx', st)
  | EConst n s => (EConst n s, st)
  | EUSub a => let (a', st) := rn_expr a st in (EUSub a', st)
  | EBin o l r => let (l', st) := rn_expr l st in let (r', st) := rn_expr r st in (EBin o l' r', st)
  | EWin x acc =>
      let (nx, st) := next st in
      let (acc', st) :=
        (fix go (l : list (expr sym * option (expr sym))) (st : list string)
           : list (expr string * option (expr string)) * list string :=
           match l with
           | [] => ([], st)
           | (a, oh) :: r =>
               let (a', st) := rn_expr a st in
               let (oh', st) := match oh with
                                | None => (None, st)
                                | Some h => let (h', st) := rn_expr h st in (Some h', st)
                                end in
               let (r', st) := go r st in ((a', oh') :: r', st)
           end) acc st in
      (EWin nx acc', st)
  | EStride x d => let (nx, st) := next st in (EStride nx d, st)
  | EExtern f args =>
      let (args', st) :=
        (fix go (l : list (expr sym)) (st : list string) : list (expr string) * list string :=
           match l with
           | [] => ([], st)
           | a :: r => let (a', st) := rn_expr a st in let (r', st) := go r st in (a' :: r', st)
           end) args st in
      (EExtern f args', st)
  | ECfg c f => (ECfg c f, st)
  end.

Fixpoint rn_exprs (l : list (expr sym)) (st : list string) : list (expr string) * list string :=
  match l with
  | [] => ([], st)
  | a :: r => let (a', st) := rn_expr a st in let (r', st) := rn_exprs r st in (a' :: r', st)
  end.

Definition rn_type (t : type sym) (st : list string) : type string * list string :=
  match t with
  | TBase b => (TBase b, st)
  | TTensor b w shape => let (shape', st) := rn_exprs shape st in (TTensor b w shape', st)
  end.

Fixpoint rn_stmt (s : stmt sym) (st : list string) : stmt string * list string :=
  match s with
  | SPass => (SPass, st)
  | SAssign x idx rhs =>
      let (nx, st) := next st in let (idx', st) := rn_exprs idx st in let (rhs', st) := rn_expr rhs st in
      (SAssign nx idx' rhs', st)
  | SReduce x idx rhs =>
      let (nx, st) := next st in let (idx', st) := rn_exprs idx st in let (rhs', st) := rn_expr rhs st in
      (SReduce nx idx' rhs', st)
  | SWriteConfig c f rhs => let (rhs', st) := rn_expr rhs st in (SWriteConfig c f rhs', st)
  | SWindowStmt x rhs => let (rhs', st) := rn_expr rhs st in let (nx, st) := next st in (SWindowStmt nx rhs', st)
  | SAlloc x ty mem => let (ty', st) := rn_type ty st in let (nx, st) := next st in (SAlloc nx ty' mem, st)
  | SFree x => let (nx, st) := next st in (SFree nx, st)
  | SCall f args => let (args', st) := rn_exprs args st in (SCall f args', st)
  | SIf cond body orelse =>
      let (cond', st) := rn_expr cond st in
      let (body', st) :=
        (fix go (l : list (stmt sym)) (st : list string) : list (stmt string) * list string :=
           match l with
           | [] => ([], st)
           | a :: r => let (a', st) := rn_stmt a st in let (r', st) := go r st in (a' :: r', st)
           end) body st in
      let (orelse', st) :=
        (fix go (l : list (stmt sym)) (st : list string) : list (stmt string) * list string :=
           match l with
           | [] => ([], st)
           | a :: r => let (a', st) := rn_stmt a st in let (r', st) := go r st in (a' :: r', st)
           end) orelse st in
      (SIf cond' body' orelse', st)
  | SFor iter lo hi par body =>
      let (lo', st) := rn_expr lo st in
      let (hi', st) := rn_expr hi st in
      let (ni, st) := next st in
      let (body', st) :=
        (fix go (l : list (stmt sym)) (st : list string) : list (stmt string) * list string :=
           match l with
           | [] => ([], st)
           | a :: r => let (a', st) := rn_stmt a st in let (r', st) := go r st in (a' :: r', st)
           end) body st in
      (SFor ni lo' hi' par body', st)
  end.

Fixpoint rn_stmts (l : list (stmt sym)) (st : list string) : list (stmt string) * list string :=
  match l with
  | [] => ([], st)
  | a :: r => let (a', st) := rn_stmt a st in let (r', st) := rn_stmts r st in (a' :: r', st)
  end.

Definition rn_fnarg (a : fnarg sym) (st : list string) : fnarg string * list string :=
  if is_size_or_index (a_type a) then
    let (nx, st) := next st in
    (mkArg nx (match a_type a with TBase b => TBase b | TTensor b w _ => TTensor b w [] end) (a_mem a), st)
  else
    let (ty', st) := rn_type (a_type a) st in let (nx, st) := next st in (mkArg nx ty' (a_mem a), st).

Fixpoint rn_fnargs (l : list (fnarg sym)) (st : list string) : list (fnarg string) * list string :=
  match l with
  | [] => ([], st)
  | a :: r => let (a', st) := rn_fnarg a st in let (r', st) := rn_fnargs r st in (a' :: r', st)
  end.

Definition rename_proc (p : proc sym) (st : list string) : proc string :=
  let (args', st) := rn_fnargs (p_args p) st in
  let (preds', st) := rn_exprs (p_preds p) st in
  let (body', st) := rn_stmts (p_body p) st in
  mkProc (p_name p) args' (p_instr p) preds' body'.

(* ------------------------------------------------------------------ text *)
Definition basety_text (b : basety) : string :=
  match b with
  | TyNum => "R" | TyF16 => "f16" | TyF32 => "f32" | TyF64 => "f64" | TyI8 => "i8" | TyUI8 => "ui8"
  | TyUI16 => "ui16" | TyI32 => "i32" | TyBool => "bool" | TyInt => "int" | TyIndex => "index"
  | TySize => "size" | TyStride => "stride" | TyErr => "err"
  end.

Fixpoint join (sep : string) (parts : list string) : string :=
  match parts with
  | [] => ""
  | [a] => a
  | a :: r => a ++ sep ++ join sep r
  end.

Definition etext (e : expr string) : string := expr_text e 0.

Definition type_text (t : type string) : string :=
  match t with
  | TBase b => basety_text b
  | TTensor b w shape =>
      (if w then "[" ++ basety_text b ++ "]" else basety_text b) ++ "[" ++ join ", " (map etext shape) ++ "]"
  end.

Definition mem_text (m : option string) : string :=
  match m with Some n => " @" ++ n | None => "" end.

Definition idx_text (idx : list (expr string)) : string :=
  match idx with [] => "" | _ => "[" ++ join ", " (map etext idx) ++ "]" end.

Fixpoint lines_of_stmt (s : stmt string) (indent : string) : list string :=
  match s with
  | SPass => [indent ++ "pass"]
  | SAssign x idx rhs => [indent ++ x ++ idx_text idx ++ " = " ++ etext rhs]
  | SReduce x idx rhs => [indent ++ x ++ idx_text idx ++ " += " ++ etext rhs]
  | SWriteConfig c f rhs => [indent ++ c ++ "." ++ f ++ " = " ++ etext rhs]
  | SWindowStmt x rhs => [indent ++ x ++ " = " ++ etext rhs]
  | SAlloc x ty mem => [indent ++ x ++ " : " ++ type_text ty ++ mem_text mem]
  | SFree x => [indent ++ "free(" ++ x ++ ")"]
  | SCall f args => [indent ++ f ++ "(" ++ join ", " (map etext args) ++ ")"]
  | SIf cond body orelse =>
      (indent ++ "if " ++ etext cond ++ ":") ::
      List.app (flat_map (fun b => lines_of_stmt b (indent ++ "  ")) body)
        match orelse with
        | [] => []
        | _ => (indent ++ "else:") :: flat_map (fun b => lines_of_stmt b (indent ++ "  ")) orelse
        end
  | SFor iter lo hi par body =>
      (indent ++ "for " ++ iter ++ " in " ++ (if par then "par" else "seq") ++ "(" ++ etext lo ++ ", " ++
       etext hi ++ "):") ::
      flat_map (fun b => lines_of_stmt b (indent ++ "  ")) body
  end.

Definition fnarg_text (a : fnarg string) : string :=
  match a_type a with
  | TBase TySize => a_name a ++ " : size"
  | TBase TyIndex => a_name a ++ " : index"
  | ty => a_name a ++ " : " ++ type_text ty ++ mem_text (a_mem a)
  end.

Definition instr_lines (indent : string) (ls : list string) : list string :=
  match ls with
  | [] => []
  | l0 :: r => (indent ++ "# @instr " ++ l0) :: map (fun l => indent ++ "#        " ++ l) r
  end.

Definition lines_of_proc (p : proc string) : list string :=
  let indent := "  " in
  ("def " ++ p_name p ++ "(" ++ join ", " (map fnarg_text (p_args p)) ++ "):") ::
  List.app (match p_instr p with Some ls => instr_lines indent ls | None => [] end)
    (List.app (map (fun e => indent ++ "assert " ++ etext e) (p_preds p))
              (flat_map (fun s => lines_of_stmt s indent) (p_body p))).

(* the whole printer: name the symbols with the PrintEnv model, then write the text *)
Definition print_proc (p : proc sym) : list string :=
  lines_of_proc (rename_proc p (names_of (ops_of_proc p))).

(* "\n".join(lines) *)
Definition proc_text (p : proc sym) : string := join (String (ascii_of_nat 10) "") (print_proc p).

(* every symbol the printer is asked to name has a non-empty name (Sym's constructor guarantees it) *)
Definition wf_proc (p : proc sym) : bool := forallb op_sym_ok (ops_of_proc p).
