(* C17: parsing the printed tokens of an expression gives the expression back (ModelExpr.v).
   The printer inserts parentheses where the parser needs them; the pre-fix printer did not for a comparison that is
   the left operand of a comparison (read back as a chain) -- see prefix_roundtrip_chain_counterexample. *)
From Coq Require Import String Ascii List Bool Arith Lia.
From Print Require Import ModelExpr.
Import ListNotations.
Open Scope string_scope.

(* ------------------------------------------------------------------ induction principle for nested lists *)
Section ExprInd.
  Variable P : expr string -> Prop.
  Hypothesis H_read : forall x idx, Forall P idx -> P (ERead x idx).
  Hypothesis H_const : forall n s, P (EConst n s).
  Hypothesis H_usub : forall a, P a -> P (EUSub a).
  Hypothesis H_bin : forall o l r, P l -> P r -> P (EBin o l r).
  Hypothesis H_win : forall x acc, P (EWin x acc).
  Hypothesis H_stride : forall x d, P (EStride x d).
  Hypothesis H_ext : forall f args, P (EExtern f args).
  Hypothesis H_cfg : forall c f, P (ECfg c f).

  Fixpoint expr_ind2 (e : expr string) : P e :=
    match e with
    | ERead x idx =>
        H_read x idx ((fix go (l : list (expr string)) : Forall P l :=
                         match l with
                         | [] => Forall_nil P
                         | a :: r => Forall_cons a (expr_ind2 a) (go r)
                         end) idx)
    | EConst n s => H_const n s
    | EUSub a => H_usub a (expr_ind2 a)
    | EBin o l r => H_bin o l r (expr_ind2 l) (expr_ind2 r)
    | EWin x acc => H_win x acc
    | EStride x d => H_stride x d
    | EExtern f args => H_ext f args
    | ECfg c f => H_cfg c f
    end.
End ExprInd.

(* ------------------------------------------------------------------ one-step equations of the parser *)
Lemma parse_at_S : forall f p ts,
  parse_at (S f) p ts =
  match parse_prefix f ts with Some (a, r) => parse_loop f p a r | None => None end.
Proof. reflexivity. Qed.

Lemma parse_prefix_S : forall f ts,
  parse_prefix (S f) ts =
  match ts with
  | TOp OpSub :: r =>
      match parse_at f prec_usub r with Some (a, r') => Some (EUSub a, r') | None => None end
  | TLP :: r =>
      match parse_at f 0 r with Some (a, TRP :: r') => Some (a, r') | _ => None end
  | TLit s :: r => Some (EConst false s, r)
  | TId x :: TLB :: r =>
      match parse_args f r with Some (idx, r') => Some (ERead x idx, r') | None => None end
  | TId x :: r => Some (ERead x [], r)
  | _ => None
  end.
Proof. reflexivity. Qed.

Lemma parse_args_S : forall f ts,
  parse_args (S f) ts =
  match parse_at f 0 ts with
  | Some (a, TComma :: r) =>
      match parse_args f r with Some (l, r') => Some (a :: l, r') | None => None end
  | Some (a, TRB :: r) => Some ([a], r)
  | _ => None
  end.
Proof. reflexivity. Qed.

Lemma parse_loop_S : forall f p lhs ts,
  parse_loop (S f) p lhs ts =
  match ts with
  | TOp o :: r =>
      if Nat.leb p (op_prec o) then
        if is_cmp o then
          match parse_at f (op_prec o + 1) r with
          | Some (b, r') =>
              match parse_chain f (EBin o lhs b) b r' with
              | Some (acc, r'') => parse_loop f p acc r''
              | None => None
              end
          | None => None
          end
        else
          match parse_at f (op_prec o + 1) r with
          | Some (b, r') => parse_loop f p (EBin o lhs b) r'
          | None => None
          end
      else Some (lhs, ts)
  | _ => Some (lhs, ts)
  end.
Proof. reflexivity. Qed.

Lemma parse_chain_S : forall f acc prev ts,
  parse_chain (S f) acc prev ts =
  match ts with
  | TOp o :: r =>
      if is_cmp o then
        match parse_at f (op_prec o + 1) r with
        | Some (b, r') => parse_chain f (EBin OpAnd acc (EBin o prev b)) b r'
        | None => None
        end
      else Some (acc, ts)
  | _ => Some (acc, ts)
  end.
Proof. reflexivity. Qed.

(* ------------------------------------------------------------------ more fuel never changes an answer *)
Definition mono_stmt (f : nat) : Prop :=
  (forall p ts r, parse_at f p ts = Some r -> forall f', f <= f' -> parse_at f' p ts = Some r) /\
  (forall ts r, parse_prefix f ts = Some r -> forall f', f <= f' -> parse_prefix f' ts = Some r) /\
  (forall ts r, parse_args f ts = Some r -> forall f', f <= f' -> parse_args f' ts = Some r) /\
  (forall p lhs ts r, parse_loop f p lhs ts = Some r -> forall f', f <= f' -> parse_loop f' p lhs ts = Some r) /\
  (forall acc prev ts r, parse_chain f acc prev ts = Some r -> forall f', f <= f' -> parse_chain f' acc prev ts = Some r).

Lemma mono_all : forall f, mono_stmt f.
Proof.
  induction f as [|f IH].
  - repeat split; intros; discriminate.
  - destruct IH as (IHat & IHpre & IHargs & IHloop & IHchain).
    repeat split.
    + (* parse_at *)
      intros p ts r H f' Hle. destruct f' as [|f']; [lia|]. assert (f <= f') as L by lia.
      rewrite parse_at_S in *.
      destruct (parse_prefix f ts) as [[a r0]|] eqn:E; [|discriminate].
      rewrite (IHpre _ _ E f' L). eapply IHloop; eauto.
    + (* parse_prefix *)
      intros ts r H f' Hle. destruct f' as [|f']; [lia|]. assert (f <= f') as L by lia.
      rewrite parse_prefix_S in *.
      destruct ts as [|t r0]; [discriminate|].
      destruct t; try discriminate; try exact H.
      * (* TId *)
        destruct r0 as [|t' r1]; [exact H|].
        destruct t'; try exact H.
        destruct (parse_args f r1) as [[idx r']|] eqn:E; [|discriminate].
        now rewrite (IHargs _ _ E f' L).
      * (* TOp *)
        destruct o; try discriminate.
        destruct (parse_at f prec_usub r0) as [[a r']|] eqn:E; [|discriminate].
        now rewrite (IHat _ _ _ E f' L).
      * (* TLP *)
        destruct (parse_at f 0 r0) as [[a r']|] eqn:E; [|discriminate].
        now rewrite (IHat _ _ _ E f' L).
    + (* parse_args *)
      intros ts r H f' Hle. destruct f' as [|f']; [lia|]. assert (f <= f') as L by lia.
      rewrite parse_args_S in *.
      destruct (parse_at f 0 ts) as [[a r']|] eqn:E; [|discriminate].
      rewrite (IHat _ _ _ E f' L).
      destruct r' as [|t r'']; [discriminate|].
      destruct t; try discriminate; try exact H.
      destruct (parse_args f r'') as [[l r3]|] eqn:E2; [|discriminate].
      now rewrite (IHargs _ _ E2 f' L).
    + (* parse_loop *)
      intros p lhs ts r H f' Hle. destruct f' as [|f']; [lia|]. assert (f <= f') as L by lia.
      rewrite parse_loop_S in *.
      destruct ts as [|t r0]; [exact H|].
      destruct t; try exact H.
      destruct (Nat.leb p (op_prec o)); [|exact H].
      destruct (is_cmp o).
      * destruct (parse_at f (op_prec o + 1) r0) as [[b r']|] eqn:E; [|discriminate].
        rewrite (IHat _ _ _ E f' L).
        destruct (parse_chain f (EBin o lhs b) b r') as [[acc r'']|] eqn:E2; [|discriminate].
        rewrite (IHchain _ _ _ _ E2 f' L). eapply IHloop; eauto.
      * destruct (parse_at f (op_prec o + 1) r0) as [[b r']|] eqn:E; [|discriminate].
        rewrite (IHat _ _ _ E f' L). eapply IHloop; eauto.
    + (* parse_chain *)
      intros acc prev ts r H f' Hle. destruct f' as [|f']; [lia|]. assert (f <= f') as L by lia.
      rewrite parse_chain_S in *.
      destruct ts as [|t r0]; [exact H|].
      destruct t; try exact H.
      destruct (is_cmp o); [|exact H].
      destruct (parse_at f (op_prec o + 1) r0) as [[b r']|] eqn:E; [|discriminate].
      rewrite (IHat _ _ _ E f' L). eapply IHchain; eauto.
Qed.

Lemma at_mono : forall f f' p ts r, parse_at f p ts = Some r -> f <= f' -> parse_at f' p ts = Some r.
Proof. intros f f' p ts r H L. destruct (mono_all f) as (M & _). eapply M; eauto. Qed.

Lemma args_mono : forall f f' ts r, parse_args f ts = Some r -> f <= f' -> parse_args f' ts = Some r.
Proof. intros f f' ts r H L. destruct (mono_all f) as (_ & _ & M & _). eapply M; eauto. Qed.

Lemma loop_mono : forall f f' p lhs ts r, parse_loop f p lhs ts = Some r -> f <= f' -> parse_loop f' p lhs ts = Some r.
Proof. intros f f' p lhs ts r H L. destruct (mono_all f) as (_ & _ & _ & M & _). eapply M; eauto. Qed.

Lemma chain_mono : forall f f' acc prev ts r,
  parse_chain f acc prev ts = Some r -> f <= f' -> parse_chain f' acc prev ts = Some r.
Proof. intros f f' acc prev ts r H L. destruct (mono_all f) as (_ & _ & _ & _ & M). eapply M; eauto. Qed.

(* ------------------------------------------------------------------ the blank-free printer *)
Definition ptoks (e : expr string) (prec : nat) : list token := strip (print_toks e prec).

Lemma strip_app : forall a b, strip (a ++ b) = (strip a ++ strip b)%list.
Proof. intros; unfold strip; apply filter_app. Qed.

Definition comma : list token := [TComma].

Lemma strip_sep_by : forall (l : list (expr string)) (g : expr string -> list token),
  strip (sep_by comma_sp (map g l)) = sep_by comma (map (fun i => strip (g i)) l).
Proof.
  induction l as [|a l IH]; intros g; [reflexivity|].
  destruct l as [|b l]; [reflexivity|].
  change (map g (a :: b :: l)) with (g a :: map g (b :: l)).
  change (map (fun i => strip (g i)) (a :: b :: l)) with (strip (g a) :: map (fun i => strip (g i)) (b :: l)).
  change (sep_by comma_sp (g a :: map g (b :: l))) with (g a ++ comma_sp ++ sep_by comma_sp (map g (b :: l)))%list.
  rewrite !strip_app, IH. reflexivity.
Qed.

Definition args_toks (l : list (expr string)) : list token := sep_by comma (map (fun i => ptoks i 0) l).

Lemma ptoks_read_nil : forall x p, ptoks (ERead x []) p = [TId x].
Proof. reflexivity. Qed.

Lemma ptoks_read_cons : forall x a l p,
  ptoks (ERead x (a :: l)) p = (TId x :: TLB :: args_toks (a :: l) ++ [TRB])%list.
Proof.
  intros. unfold ptoks. cbn [print_toks].
  change (strip (TId x :: TLB :: ?r)) with (TId x :: TLB :: strip r).
  cbn [strip filter is_sp negb]. fold (strip (sep_by comma_sp (map (fun i => print_toks i 0) (a :: l)) ++ [TRB])).
  rewrite strip_app, strip_sep_by. reflexivity.
Qed.

Lemma ptoks_const : forall s p, ptoks (EConst false s) p = [TLit s].
Proof. reflexivity. Qed.

Lemma ptoks_usub : forall a p, ptoks (EUSub a) p = TOp OpSub :: ptoks a prec_usub.
Proof. reflexivity. Qed.

Definition lhs_prec (o : binop) : nat := if is_cmp o then op_prec o + 1 else op_prec o.

Definition bin_body (o : binop) (l r : expr string) : list token :=
  (ptoks l (lhs_prec o) ++ TOp o :: ptoks r (op_prec o + 1))%list.

Lemma ptoks_bin : forall o l r p,
  ptoks (EBin o l r) p =
  if Nat.ltb (op_prec o) p then (TLP :: bin_body o l r ++ [TRP])%list else bin_body o l r.
Proof.
  intros. unfold ptoks, bin_body, lhs_prec. cbn [print_toks]. cbv zeta.
  set (lp := if is_cmp o then op_prec o + 1 else op_prec o).
  destruct (Nat.ltb (op_prec o) p).
  - change (strip (TLP :: ?r)) with (TLP :: strip r). cbn [strip filter is_sp negb].
    fold (strip ((print_toks l lp ++ [TSp; TOp o; TSp] ++ print_toks r (op_prec o + 1)) ++ [TRP])).
    rewrite !strip_app. reflexivity.
  - rewrite !strip_app. reflexivity.
Qed.

(* ------------------------------------------------------------------ the round-trip invariant *)
(* the next token does not continue an expression of level p *)
Definition stops (p : nat) (rest : list token) : Prop :=
  match rest with TOp o :: _ => op_prec o < p | _ => True end.

Lemma stops_mono : forall a b rest, stops a rest -> a <= b -> stops b rest.
Proof. intros a b [|[] r]; cbn; auto. intros; lia. Qed.

Lemma stops_usub : forall rest, stops prec_usub rest.
Proof. intros [|[] r]; cbn; auto. destruct o; cbn; unfold prec_usub; lia. Qed.

Lemma loop_stops : forall f p a rest, stops p rest -> parse_loop (S f) p a rest = Some (a, rest).
Proof.
  intros f p a rest H. rewrite parse_loop_S. destruct rest as [|[] r]; auto.
  cbn in H. destruct (Nat.leb_spec p (op_prec o)); [lia|reflexivity].
Qed.

Lemma chain_stops : forall f acc prev rest, stops 30 rest -> parse_chain (S f) acc prev rest = Some (acc, rest).
Proof.
  intros f acc prev rest H. rewrite parse_chain_S. destruct rest as [|[] r]; auto.
  cbn in H. destruct o; cbn in *; auto; lia.
Qed.

(* what the text after an unparenthesised binary expression must not start with *)
Definition need (o : binop) : nat := if is_cmp o then op_prec o else op_prec o + 1.

(* admissible (context precedence, parser level, following tokens) for e *)
Definition side (e : expr string) (ctx p : nat) (rest : list token) : Prop :=
  match e with
  | EBin o _ _ => op_prec o < ctx \/ (p <= op_prec o /\ stops (need o) rest)
  | _ => True
  end.

Fixpoint cost (e : expr string) : nat :=
  match e with
  | ERead _ idx => 3 + (fix go (l : list (expr string)) : nat :=
                          match l with [] => 0 | a :: r => cost a + 3 + go r end) idx
  | EUSub a => cost a + 3
  | EBin _ l r => cost l + cost r + 7
  | _ => 2
  end.

Definition cost_args (l : list (expr string)) : nat :=
  (fix go (l : list (expr string)) : nat := match l with [] => 0 | a :: r => cost a + 3 + go r end) l.

Lemma cost_read : forall x idx, cost (ERead x idx) = 3 + cost_args idx.
Proof. reflexivity. Qed.

Lemma cost_args_cons : forall a l, cost_args (a :: l) = cost a + 3 + cost_args l.
Proof. reflexivity. Qed.

(* a '[' directly after a name would be read as an index list; no caller puts one there *)
Definition nolb (rest : list token) : Prop := match rest with TLB :: _ => False | _ => True end.

Definition RT (e : expr string) : Prop :=
  wf_expr e = true ->
  forall ctx p rest f R,
    side e ctx p rest -> nolb rest ->
    parse_loop f p e rest = Some R ->
    parse_at (f + cost e) p (ptoks e ctx ++ rest) = Some R.

Lemma op_prec_lt_usub : forall o, op_prec o < prec_usub.
Proof. destruct o; cbn; unfold prec_usub; lia. Qed.

Lemma side_sub : forall a ctx p rest,
  (forall o l r, a = EBin o l r -> op_prec o < ctx \/ (p <= op_prec o /\ stops (need o) rest)) ->
  side a ctx p rest.
Proof. intros [] ctx p rest H; cbn; auto. eapply H; eauto. Qed.

(* arguments of an index list *)
Lemma RT_args : forall l,
  Forall RT l -> forallb wf_expr l = true -> l <> [] ->
  forall rest, parse_args (cost_args l) (args_toks l ++ TRB :: rest) = Some (l, rest).
Proof.
  induction l as [|a l IH]; intros HF Hwf Hne rest; [congruence|].
  inversion HF as [|? ? Ha Hl]; subst. cbn [forallb] in Hwf. apply andb_true_iff in Hwf. destruct Hwf as [Wa Wl].
  rewrite cost_args_cons.
  destruct l as [|b l].
  - (* last argument *)
    unfold args_toks. cbn [map sep_by].
    replace (cost a + 3 + cost_args []) with (S (cost a + 2)) by (cbn; lia).
    rewrite parse_args_S.
    assert (parse_at (cost a + 2) 0 (ptoks a 0 ++ TRB :: rest) = Some (a, TRB :: rest)) as E.
    { apply at_mono with (f := 1 + cost a); [|lia].
      apply Ha; [exact Wa| |exact I|now apply loop_stops].
      apply side_sub. intros o l r _. right. split; [lia|exact I]. }
    now rewrite E.
  - (* a, then the others *)
    assert (args_toks (a :: b :: l) = (ptoks a 0 ++ TComma :: args_toks (b :: l))%list) as -> by reflexivity.
    rewrite <- app_assoc. cbn [app].
    replace (cost a + 3 + cost_args (b :: l)) with (S (cost a + 2 + cost_args (b :: l))) by lia.
    rewrite parse_args_S.
    assert (parse_at (cost a + 2 + cost_args (b :: l)) 0 (ptoks a 0 ++ TComma :: args_toks (b :: l) ++ TRB :: rest)
            = Some (a, TComma :: args_toks (b :: l) ++ TRB :: rest)) as E.
    { apply at_mono with (f := 1 + cost a); [|lia].
      apply Ha; [exact Wa| |exact I|now apply loop_stops].
      apply side_sub. intros o l0 r _. right. split; [lia|exact I]. }
    rewrite E.
    rewrite (args_mono (cost_args (b :: l)) _ _ (b :: l, rest)); auto; [|lia].
    apply IH; auto. discriminate.
Qed.

Lemma RT_all : forall e, RT e.
Proof.
  intros e; induction e as [x idx H|n s|e IHe|o e1 e2 IHe1 IHe2|x acc|x d|fn args|c fl] using expr_ind2;
    unfold RT; intros Hwf ctx p rest f R Hside Hnolb Hloop; try discriminate.
  - (* ERead *)
    cbn [wf_expr] in Hwf. rewrite cost_read.
    destruct idx as [|a l].
    + rewrite ptoks_read_nil. cbn [app cost_args].
      replace (f + (3 + 0)) with (S (S (S f))) by lia.
      rewrite parse_at_S, parse_prefix_S.
      destruct rest as [|t rest']; [eapply loop_mono; eauto|].
      destruct t; try (eapply loop_mono; eauto; fail). destruct Hnolb.
    + rewrite ptoks_read_cons.
      replace (f + (3 + cost_args (a :: l))) with (S (S (f + cost_args (a :: l) + 1))) by lia.
      rewrite parse_at_S, parse_prefix_S. cbn [app].
      rewrite <- app_assoc. cbn [app].
      rewrite (args_mono (cost_args (a :: l)) _ _ (a :: l, rest)); [|apply RT_args; auto; discriminate|lia].
      eapply loop_mono; eauto. lia.
  - (* EConst *)
    cbn [wf_expr] in Hwf. destruct n; [discriminate|].
    rewrite ptoks_const. cbn [app cost].
    replace (f + 2) with (S (S f)) by lia.
    rewrite parse_at_S, parse_prefix_S. eapply loop_mono; eauto.
  - (* EUSub *)
    cbn [wf_expr] in Hwf. rewrite ptoks_usub. cbn [app cost].
    replace (f + (cost e + 3)) with (S (S (f + cost e + 1))) by lia.
    rewrite parse_at_S, parse_prefix_S.
    assert (parse_at (f + cost e + 1) prec_usub (ptoks e prec_usub ++ rest) = Some (e, rest)) as E.
    { apply at_mono with (f := 1 + cost e); [|lia].
      apply IHe; [exact Hwf| |exact Hnolb|apply loop_stops; apply stops_usub].
      apply side_sub. intros o l r _. left. apply op_prec_lt_usub. }
    rewrite E. eapply loop_mono; eauto. lia.
  - (* EBin *)
    cbn [wf_expr] in Hwf. apply andb_true_iff in Hwf. destruct Hwf as [Wl Wr].
    set (q := op_prec o) in *.
    (* the unparenthesised form, at any level p0 <= q *)
    assert (forall p0 rest0 f0 R0, p0 <= q -> stops (need o) rest0 -> nolb rest0 ->
              parse_loop f0 p0 (EBin o e1 e2) rest0 = Some R0 ->
              parse_at (f0 + (cost e1 + cost e2 + 4)) p0 (bin_body o e1 e2 ++ rest0) = Some R0) as U.
    { intros p0 rest0 f0 R0 Hp0 Hst Hnl HL.
      unfold bin_body. rewrite <- app_assoc. cbn [app]. fold q.
      replace (f0 + (cost e1 + cost e2 + 4)) with ((f0 + cost e2 + 4) + cost e1) by lia.
      assert (q <= lhs_prec o) as Hlq by (unfold lhs_prec; fold q; destruct (is_cmp o); lia).
      apply IHe1; [exact Wl| |exact I|].
      - (* side condition of the left operand *)
        apply side_sub. intros o1 l1 r1 El.
        destruct (Nat.lt_ge_cases (op_prec o1) (lhs_prec o)) as [Hlt|Hge]; [left; exact Hlt|].
        right. split; [lia|].
        cbn [stops]. unfold need. fold q.
        destruct (is_cmp o1) eqn:C1; [|lia].
        (* o1 is a comparison that stays bare on the left of o: o cannot be a comparison (its left operand is
           printed at 31), and every other operator of precedence <= 30 is below 30 *)
        assert (op_prec o1 = 30) as P30 by (destruct o1; cbn in *; congruence).
        unfold lhs_prec in Hge. fold q in Hge.
        destruct (is_cmp o) eqn:C.
        + assert (q = 30) by (subst q; destruct o; cbn in *; congruence). lia.
        + assert (q <> 30) by (subst q; destruct o; cbn in *; congruence). lia.
      - (* the loop continues with the operator *)
        replace (f0 + cost e2 + 4) with (S (f0 + cost e2 + 3)) by lia.
        rewrite parse_loop_S. fold q.
        destruct (Nat.leb_spec p0 q) as [_|]; [|lia].
        assert (parse_at (f0 + cost e2 + 3) (q + 1) (ptoks e2 (q + 1) ++ rest0) = Some (e2, rest0)) as E2.
        { apply at_mono with (f := 1 + cost e2); [|lia].
          apply IHe2; [exact Wr| |exact Hnl|].
          - apply side_sub. intros o2 l2 r2 _.
            destruct (Nat.lt_ge_cases (op_prec o2) (q + 1)) as [Hlt|Hge]; [left; exact Hlt|].
            right. split; [lia|]. eapply stops_mono; eauto.
            unfold need. fold q. destruct (is_cmp o), (is_cmp o2); lia.
          - apply loop_stops. eapply stops_mono; eauto. unfold need. fold q. destruct (is_cmp o); lia. }
        destruct (is_cmp o) eqn:C.
        + rewrite E2.
          assert (q = 30) as Q30 by (subst q; destruct o; cbn in *; congruence).
          rewrite (chain_mono 1 _ _ _ _ (EBin o e1 e2, rest0)); [|apply chain_stops|lia].
          * eapply loop_mono; eauto. lia.
          * unfold need in Hst. rewrite C in Hst. fold q in Hst. now rewrite Q30 in Hst.
        + rewrite E2. eapply loop_mono; eauto. lia. }
    rewrite ptoks_bin. fold q. cbn [cost].
    destruct (Nat.ltb_spec q ctx) as [Hpar|Hnopar].
    + (* parenthesised *)
      cbn [app]. rewrite <- app_assoc. cbn [app].
      replace (f + (cost e1 + cost e2 + 7)) with (S (S (f + (cost e1 + cost e2 + 5)))) by lia.
      rewrite parse_at_S, parse_prefix_S.
      rewrite (at_mono (1 + (cost e1 + cost e2 + 4)) _ _ _ (EBin o e1 e2, TRP :: rest)); [| |lia].
      * eapply loop_mono; eauto. lia.
      * apply U; [lia|exact I|exact I|]. apply loop_stops. exact I.
    + (* bare *)
      cbn in Hside. fold q in Hside. destruct Hside as [Hs|[Hp Hst]]; [lia|].
      apply at_mono with (f := f + (cost e1 + cost e2 + 4)); [|lia].
      apply U; auto.
Qed.

(* ------------------------------------------------------------------ bounds on the fuel *)
Lemma ptoks_nonempty : forall e ctx, wf_expr e = true -> 1 <= length (ptoks e ctx).
Proof.
  intros [] ctx H; try discriminate.
  - destruct idx; [rewrite ptoks_read_nil|rewrite ptoks_read_cons]; cbn; lia.
  - cbn in H. destruct neg; [discriminate|]. rewrite ptoks_const. cbn; lia.
  - rewrite ptoks_usub. cbn; lia.
  - rewrite ptoks_bin. unfold bin_body. destruct (Nat.ltb _ _); cbn [length]; rewrite ?app_length; cbn; lia.
Qed.

Lemma cost_bound : forall e, wf_expr e = true -> forall ctx, cost e <= 8 * length (ptoks e ctx).
Proof.
  intros e; induction e as [x idx H|n s|e IHe|o e1 e2 IHe1 IHe2|x acc|x d|fn args|c fl] using expr_ind2;
    intros Hwf ctx; try discriminate.
  - cbn [wf_expr] in Hwf. rewrite cost_read. destruct idx as [|a l].
    + rewrite ptoks_read_nil. cbn. lia.
    + rewrite ptoks_read_cons. cbn [length]. rewrite app_length. cbn [length].
      assert (cost_args (a :: l) + 5 <= 8 * (length (args_toks (a :: l)) + 1)) as B.
      { clear ctx. revert Hwf. induction H as [|b m Hb Hm IH]; intros Hwf; [cbn; lia|].
        cbn [forallb] in Hwf. apply andb_true_iff in Hwf. destruct Hwf as [Wb Wm].
        rewrite cost_args_cons.
        destruct m as [|c m].
        - unfold args_toks. cbn [map sep_by]. specialize (Hb Wb 0).
          pose proof (ptoks_nonempty b 0 Wb). cbn [cost_args]. lia.
        - assert (args_toks (b :: c :: m) = (ptoks b 0 ++ TComma :: args_toks (c :: m))%list) as -> by reflexivity.
          rewrite app_length. cbn [length]. specialize (Hb Wb 0). specialize (IH Wm). lia. }
      lia.
  - cbn in Hwf. destruct n; [discriminate|]. rewrite ptoks_const. cbn. lia.
  - cbn [wf_expr] in Hwf. rewrite ptoks_usub. cbn [length cost]. specialize (IHe Hwf prec_usub). lia.
  - cbn [wf_expr] in Hwf. apply andb_true_iff in Hwf. destruct Hwf as [Wl Wr].
    rewrite ptoks_bin. cbn [cost].
    specialize (IHe1 Wl (lhs_prec o)). specialize (IHe2 Wr (op_prec o + 1)).
    assert (length (bin_body o e1 e2) = length (ptoks e1 (lhs_prec o)) + 1 + length (ptoks e2 (op_prec o + 1))) as L.
    { unfold bin_body. rewrite app_length. cbn [length]. lia. }
    destruct (Nat.ltb _ _); cbn [length]; rewrite ?app_length; cbn [length]; lia.
Qed.

(* ------------------------------------------------------------------ the theorems *)
Theorem expr_roundtrip : forall e, wf_expr e = true -> parse_expr (print_toks e 0) = Some e.
Proof.
  intros e Hwf. unfold parse_expr, parse_toks. fold (ptoks e 0).
  assert (parse_at (parse_fuel (ptoks e 0)) 0 (ptoks e 0) = Some (e, [])) as E.
  { rewrite <- (app_nil_r (ptoks e 0)) at 2.
    apply at_mono with (f := 1 + cost e).
    - apply RT_all; [exact Hwf| |exact I|apply loop_stops; exact I].
      apply side_sub. intros o l r _. right. split; [lia|exact I].
    - unfold parse_fuel. pose proof (cost_bound e Hwf 0). lia. }
  now rewrite E.
Qed.

(* the printer's parentheses are necessary: without them the tree changes *)
Example parens_needed_sub :
  let e := EBin OpSub (ERead "a" []) (EBin OpSub (ERead "b" []) (ERead "c" [])) in
  expr_text e 0 = "a - (b - c)" /\
  parse_expr [TId "a"; TSp; TOp OpSub; TSp; TId "b"; TSp; TOp OpSub; TSp; TId "c"]
    = Some (EBin OpSub (EBin OpSub (ERead "a" []) (ERead "b" [])) (ERead "c" [])).
Proof. vm_compute. auto. Qed.

Example parens_needed_mul :
  let e := EBin OpMul (EBin OpAdd (ERead "a" []) (ERead "b" [])) (ERead "c" []) in
  expr_text e 0 = "(a + b) * c" /\
  parse_expr [TId "a"; TSp; TOp OpAdd; TSp; TId "b"; TSp; TOp OpMul; TSp; TId "c"]
    = Some (EBin OpAdd (ERead "a" []) (EBin OpMul (ERead "b" []) (ERead "c" []))).
Proof. vm_compute. auto. Qed.

(* the hypothesis of expr_roundtrip is satisfiable *)
Example wf_witness :
  wf_expr (EBin OpAnd (EBin OpLt (ERead "i" []) (EBin OpSub (ERead "n" []) (EUSub (EConst false "1"))))
                      (ERead "x" [EBin OpMod (ERead "i" []) (EConst false "2")])) = true.
Proof. reflexivity. Qed.

(* a comparison on the left of a comparison now keeps its parentheses *)
Example chain_now_parenthesised :
  let e := EBin OpEq (EBin OpEq (ERead "a" []) (ERead "b" [])) (ERead "c" []) in
  expr_text e 0 = "(a == b) == c" /\ parse_expr (print_toks e 0) = Some e.
Proof. vm_compute. auto. Qed.

(* regression: with the printer as it was before the fix, (a == b) == c prints as a chain and reads back as
   (a == b) and (b == c) *)
Lemma prefix_roundtrip_chain_counterexample :
  exists e : expr string,
    wf_expr e = true /\
    toks_text (print_toks_prefix e 0) = "a == b == c" /\
    parse_expr (print_toks_prefix e 0) =
      Some (EBin OpAnd (EBin OpEq (ERead "a" []) (ERead "b" [])) (EBin OpEq (ERead "b" []) (ERead "c" []))) /\
    parse_expr (print_toks_prefix e 0) <> Some e.
Proof.
  exists (EBin OpEq (EBin OpEq (ERead "a" []) (ERead "b" [])) (ERead "c" [])).
  repeat split; try (vm_compute; reflexivity). vm_compute. discriminate.
Qed.

(* a negative constant reads back as a unary minus applied to a literal *)
Lemma roundtrip_negative_literal :
  parse_expr (print_toks (EConst true "3") 0) = Some (EUSub (EConst false "3")).
Proof. vm_compute. reflexivity. Qed.
