#!/bin/bash
# Build the extracted OCaml driver of the C17 model into coq/Print/_build/c17_driver.
set -e
here="$(cd "$(dirname "$0")" && pwd)"
cd "$here"
for f in Model ModelExpr ModelSyntax ModelCheck; do
  if [ ! -f $f.vo ] || [ $f.v -nt $f.vo ]; then
    timeout 600 coqc -Q . Print $f.v
  fi
done
mkdir -p "$here/_build"
cd "$here/_build"
fresh=1
for f in Model.v ModelExpr.v ModelSyntax.v ModelCheck.v Extract.v driver.ml extract.sh; do
  if [ ! -x c17_driver ] || [ "$here/$f" -nt c17_driver ]; then fresh=0; fi
done
if [ $fresh = 1 ]; then echo "up to date $(pwd)/c17_driver"; exit 0; fi
timeout 600 coqc -Q "$here" Print "$here/Extract.v" > extract.log 2>&1 || { cat extract.log; exit 1; }
rm -f "$here/Extract.vo" "$here/Extract.vok" "$here/Extract.vos" "$here/Extract.glob" "$here/.Extract.aux"
cp "$here/driver.ml" driver.ml
timeout 600 ocamlfind ocamlopt -package str -w -a -O2 print_model.mli print_model.ml driver.ml -o c17_driver 2>/dev/null \
 || timeout 600 ocamlfind ocamlopt -package str -w -a print_model.mli print_model.ml driver.ml -o c17_driver
echo "built $(pwd)/c17_driver"
