(* C17 engine `Print`: boolean comparisons used by the correspondence harness (harness/props/C17.py writes
   case files that apply these to exported procedures / expressions and to what the real printer and the real
   front end produced; coqc evaluates them with vm_compute).  Executable Gallina only. *)
From Coq Require Import String List Bool Arith.
From Print Require Import Model ModelExpr ModelSyntax.
Import ListNotations.
Open Scope string_scope.

Fixpoint list_eqb {A : Type} (eqb : A -> A -> bool) (a b : list A) : bool :=
  match a, b with
  | [], [] => true
  | x :: a', y :: b' => eqb x y && list_eqb eqb a' b'
  | _, _ => false
  end.

Definition op_eqb (a b : op) : bool :=
  match a, b with
  | OPush, OPush => true
  | OPop, OPop => true
  | OGet x, OGet y => sym_eqb x y
  | _, _ => false
  end.

Definition option_expr_eqb (a b : option (expr string)) : bool :=
  match a, b with
  | None, None => true
  | Some x, Some y => expr_eqb x y
  | _, _ => false
  end.

(* a printed procedure: [same PrintEnv calls in the same order; same names handed out; same lines] *)
Definition ck_proc (p : proc sym) (ops : list op) (names lines : list string) : list bool :=
  [ list_eqb op_eqb (ops_of_proc p) ops;
    list_eqb String.eqb (names_of (ops_of_proc p)) names;
    list_eqb String.eqb (print_proc p) lines ].

(* a printed expression: [same text as the real _print_expr; model parser = real front end on that text] *)
Definition ck_expr (e : expr string) (text : string) (parsed : option (expr string)) : list bool :=
  [ String.eqb (expr_text e 0) text;
    option_expr_eqb (parse_expr (print_toks e 0)) parsed ].

(* an arbitrary token string: model parser = real front end *)
Definition ck_parse (ts : list token) (parsed : option (expr string)) : list bool :=
  [ option_expr_eqb (parse_toks ts) parsed ].
