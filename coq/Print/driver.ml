(* Driver for the extracted C17 model (coq/Print): one s-expression job per input line, one answer per output line.
   Hand-written glue (trusted): s-expression reader with "quoted" strings, conversions OCaml <-> extracted datatypes,
   printers.  Everything that is compared is computed by the extracted functions ck_proc / ck_expr / ck_parse
   (ModelCheck.v); on a mismatch the model's own output is appended for the report.

   jobs:   (ckproc PROC (OP ...) ("name" ...) ("line" ...))     -> b b b [| model output]
           (ckexpr EXPR "text" (some EXPR) | (none))            -> b b   [| model output]
           (ckparse (TOKEN ...) (some EXPR) | (none))           -> b     [| model output]          *)
type ostr = string
type sx = A of ostr | Q of ostr | L of sx list
open Print_model

let parse (s : ostr) : sx =
  let n = String.length s in
  let pos = ref 0 in
  let rec skip () = if !pos < n && (s.[!pos] = ' ' || s.[!pos] = '\t' || s.[!pos] = '\n' || s.[!pos] = '\r') then (incr pos; skip ()) in
  let rec rd () =
    skip ();
    if !pos >= n then failwith "eof"
    else if s.[!pos] = '(' then begin
      incr pos;
      let items = ref [] in
      let rec loop () =
        skip ();
        if !pos >= n then failwith "unclosed"
        else if s.[!pos] = ')' then incr pos
        else (items := rd () :: !items; loop ()) in
      loop ();
      L (List.rev !items)
    end else if s.[!pos] = '"' then begin
      incr pos;
      let b = Buffer.create 16 in
      let rec loop () =
        if !pos >= n then failwith "unclosed string"
        else if s.[!pos] = '"' then incr pos
        else if s.[!pos] = '\\' && !pos + 1 < n then begin
          (match s.[!pos + 1] with
           | 'n' -> Buffer.add_char b '\n'
           | 't' -> Buffer.add_char b '\t'
           | c -> Buffer.add_char b c);
          pos := !pos + 2; loop () end
        else (Buffer.add_char b s.[!pos]; incr pos; loop ()) in
      loop ();
      Q (Buffer.contents b)
    end else begin
      let st = !pos in
      while !pos < n && not (List.mem s.[!pos] [' '; '\t'; '\n'; '\r'; '('; ')']) do incr pos done;
      A (String.sub s st (!pos - st))
    end in
  rd ()

(* ---- conversions ---- *)
let rec nat_of_int (i : int) : nat = if i <= 0 then O else S (nat_of_int (i - 1))

let ascii_of_char (c : char) : ascii =
  let k = Char.code c in
  let b i = (k lsr i) land 1 = 1 in
  Ascii (b 0, b 1, b 2, b 3, b 4, b 5, b 6, b 7)
let char_of_ascii (a : ascii) : char =
  match a with Ascii (b0, b1, b2, b3, b4, b5, b6, b7) ->
    let v b i = if b then 1 lsl i else 0 in
    Char.chr (v b0 0 + v b1 1 + v b2 2 + v b3 3 + v b4 4 + v b5 5 + v b6 6 + v b7 7)
let cstring_of (s : ostr) : Print_model.string =
  let r = ref EmptyString in
  for i = String.length s - 1 downto 0 do r := String (ascii_of_char s.[i], !r) done; !r
let string_of_c (s : Print_model.string) : ostr =
  let b = Buffer.create 32 in
  let rec go s = match s with EmptyString -> () | String (a, t) -> Buffer.add_char b (char_of_ascii a); go t in
  go s; Buffer.contents b

let atom = function A s -> s | _ -> failwith "atom expected"
let lst = function L l -> l | _ -> failwith "list expected"
let str = function Q s -> cstring_of s | _ -> failwith "quoted string expected"
let int_of x = int_of_string (atom x)
let flag x = (atom x = "1")

let sym_of = function
  | L [A "sym"; Q n; A i] -> { sym_name = cstring_of n; sym_id = nat_of_int (int_of_string i) }
  | _ -> failwith "sym"

let binop_of = function
  | "OpOr" -> OpOr | "OpAnd" -> OpAnd | "OpLt" -> OpLt | "OpGt" -> OpGt | "OpLe" -> OpLe | "OpGe" -> OpGe
  | "OpEq" -> OpEq | "OpAdd" -> OpAdd | "OpSub" -> OpSub | "OpMul" -> OpMul | "OpDiv" -> OpDiv | "OpMod" -> OpMod
  | s -> failwith ("binop " ^ s)

let rec expr_of : 'v. (sx -> 'v) -> sx -> 'v expr = fun var x ->
  match x with
  | L [A "read"; v; L idx] -> ERead (var v, List.map (expr_of var) idx)
  | L [A "const"; n; s] -> EConst (flag n, str s)
  | L [A "neg"; a] -> EUSub (expr_of var a)
  | L [A "bin"; A o; l; r] -> EBin (binop_of o, expr_of var l, expr_of var r)
  | L [A "win"; v; L acc] ->
      EWin (var v, List.map (function
        | L [A "pt"; e] -> (expr_of var e, None)
        | L [A "iv"; lo; hi] -> (expr_of var lo, Some (expr_of var hi))
        | _ -> failwith "w_access") acc)
  | L [A "stride"; v; d] -> EStride (var v, str d)
  | L [A "ext"; f; L args] -> EExtern (str f, List.map (expr_of var) args)
  | L [A "cfg"; c; f] -> ECfg (str c, str f)
  | _ -> failwith "expr"

let basety_of = function
  | "TyNum" -> TyNum | "TyF16" -> TyF16 | "TyF32" -> TyF32 | "TyF64" -> TyF64 | "TyI8" -> TyI8 | "TyUI8" -> TyUI8
  | "TyUI16" -> TyUI16 | "TyI32" -> TyI32 | "TyBool" -> TyBool | "TyInt" -> TyInt | "TyIndex" -> TyIndex
  | "TySize" -> TySize | "TyStride" -> TyStride | "TyErr" -> TyErr
  | s -> failwith ("basety " ^ s)

let type_of = function
  | L [A "base"; A b] -> TBase (basety_of b)
  | L [A "tensor"; A b; w; L shape] -> TTensor (basety_of b, flag w, List.map (expr_of sym_of) shape)
  | _ -> failwith "type"

let mem_of = function
  | L [A "some"; m] -> Some (str m)
  | L [A "none"] -> None
  | _ -> failwith "mem"

let rec stmt_of (x : sx) : sym stmt =
  let e = expr_of sym_of in
  match x with
  | L [A "pass"] -> SPass
  | L [A "assign"; v; L idx; rhs] -> SAssign (sym_of v, List.map e idx, e rhs)
  | L [A "reduce"; v; L idx; rhs] -> SReduce (sym_of v, List.map e idx, e rhs)
  | L [A "wcfg"; c; f; rhs] -> SWriteConfig (str c, str f, e rhs)
  | L [A "wstmt"; v; rhs] -> SWindowStmt (sym_of v, e rhs)
  | L [A "alloc"; v; t; m] -> SAlloc (sym_of v, type_of t, mem_of m)
  | L [A "free"; v] -> SFree (sym_of v)
  | L [A "call"; f; L args] -> SCall (str f, List.map e args)
  | L [A "if"; c; L body; L orelse] -> SIf (e c, List.map stmt_of body, List.map stmt_of orelse)
  | L [A "for"; v; lo; hi; par; L body] -> SFor (sym_of v, e lo, e hi, flag par, List.map stmt_of body)
  | _ -> failwith "stmt"

let proc_of = function
  | L [A "proc"; name; L args; instr; L preds; L body] ->
      { p_name = str name;
        p_args = List.map (function
          | L [A "arg"; v; t; m] -> { a_name = sym_of v; a_type = type_of t; a_mem = mem_of m }
          | _ -> failwith "fnarg") args;
        p_instr = (match instr with
          | L [A "some"; L ls] -> Some (List.map str ls)
          | L [A "none"] -> None
          | _ -> failwith "instr");
        p_preds = List.map (expr_of sym_of) preds;
        p_body = List.map stmt_of body }
  | _ -> failwith "proc"

let op_of = function
  | L [A "push"] -> OPush
  | L [A "pop"] -> OPop
  | L [A "get"; v] -> OGet (sym_of v)
  | _ -> failwith "op"

let token_of = function
  | L [A "id"; s] -> TId (str s)
  | L [A "lit"; s] -> TLit (str s)
  | L [A "op"; A o] -> TOp (binop_of o)
  | A "lp" -> TLP | A "rp" -> TRP | A "lb" -> TLB | A "rb" -> TRB | A "comma" -> TComma
  | A "colon" -> TColon | A "dot" -> TDot | A "sp" -> TSp
  | _ -> failwith "token"

let opt_expr_of = function
  | L [A "some"; e] -> Some (expr_of str e)
  | L [A "none"] -> None
  | _ -> failwith "option expr"

(* ---- printers (diagnostics only) ---- *)
let bits l = String.concat " " (List.map (fun b -> if b then "1" else "0") l)
let show_strs l = "[" ^ String.concat "; " (List.map (fun s -> "\"" ^ String.escaped (string_of_c s) ^ "\"") l) ^ "]"
let binop_name = function
  | OpOr -> "or" | OpAnd -> "and" | OpLt -> "<" | OpGt -> ">" | OpLe -> "<=" | OpGe -> ">=" | OpEq -> "=="
  | OpAdd -> "+" | OpSub -> "-" | OpMul -> "*" | OpDiv -> "/" | OpMod -> "%"
let rec show_expr (e : Print_model.string expr) : ostr =
  match e with
  | ERead (x, idx) -> "(read " ^ string_of_c x ^ " (" ^ String.concat " " (List.map show_expr idx) ^ "))"
  | EConst (n, s) -> "(const " ^ (if n then "-" else "") ^ string_of_c s ^ ")"
  | EUSub a -> "(neg " ^ show_expr a ^ ")"
  | EBin (o, l, r) -> "(" ^ binop_name o ^ " " ^ show_expr l ^ " " ^ show_expr r ^ ")"
  | _ -> "(other)"
let show_opt = function Some e -> show_expr e | None -> "None"
let show_ops l = String.concat " " (List.map (function
  | OPush -> "push" | OPop -> "pop" | OGet x -> "get:" ^ string_of_c x.sym_name) l)

let answer (x : sx) : ostr =
  match x with
  | L [A "ckproc"; p; L ops; L names; L lines] ->
      let p = proc_of p in
      let v = ck_proc p (List.map op_of ops) (List.map str names) (List.map str lines) in
      if List.for_all (fun b -> b) v then bits v
      else bits v ^ " | ops: " ^ show_ops (ops_of_proc p) ^ " names: " ^ show_strs (names_of (ops_of_proc p))
           ^ " lines: " ^ show_strs (print_proc p)
  | L [A "ckexpr"; e; text; parsed] ->
      let e = expr_of str e in
      let v = ck_expr e (str text) (opt_expr_of parsed) in
      if List.for_all (fun b -> b) v then bits v
      else bits v ^ " | text: \"" ^ String.escaped (string_of_c (expr_text e O)) ^ "\" parsed: "
           ^ show_opt (parse_expr (print_toks e O))
  | L [A "ckparse"; L toks; parsed] ->
      let ts = List.map token_of toks in
      let v = ck_parse ts (opt_expr_of parsed) in
      if List.for_all (fun b -> b) v then bits v else bits v ^ " | parsed: " ^ show_opt (parse_toks ts)
  | _ -> failwith "unknown job"

let () =
  try
    while true do
      let line = input_line stdin in
      if String.trim line <> "" then begin
        (try print_string (answer (parse line)) with
         | Failure m -> print_string ("(driver-error " ^ m ^ ")")
         | Stack_overflow -> print_string "(driver-error stack-overflow)"
         | Not_found -> print_string "(driver-error not-found)");
        print_newline ()
      end
    done
  with End_of_file -> ()
