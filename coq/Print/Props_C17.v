(* C17 -- the printed procedure denotes the procedure: property theorems (proofs are in Proofs_*.v). *)
From Coq Require Import String List Bool.
From Print Require Import Model ModelExpr ModelSyntax Gen_PrintEnv Proofs_Env Proofs_Tie Proofs_Expr Proofs_Proc.
Import ListNotations.
Open Scope string_scope.

(* The functions translated from the current source of class PrintEnv are the model functions below. *)
Theorem C17_model_is_source :
  (forall pe, py_push pe = push pe) /\
  (forall pe x, py_get_name pe x = get_name pe x) /\
  (forall ops pe, run_with py_get_name ops pe = run ops pe).
Proof. exact (conj py_push_is_model (conj py_get_name_is_model py_run_is_model)). Qed.
Print Assumptions C17_model_is_source.

(* The candidate loop of get_name always ends within its fuel (= number of names in scope, + 1 test). *)
Theorem C17_get_name_terminates : forall pe x num,
  while_fuel (loop_fuel pe)
    (fun '(candidate, num) => cmem String.eqb (pe_names pe) candidate)
    (fun '(candidate, num) => let candidate := fmt_suffix x num in let num := num + 1 in (candidate, num))
    (py_str x, num) <> None.
Proof. exact get_name_fuel_sufficient. Qed.
Print Assumptions C17_get_name_terminates.

(* f"{nm}_{num}" is injective in num *)
Theorem C17_suffix_injective : forall nm a b, fmt_suffix nm a = fmt_suffix nm b -> a = b.
Proof. exact fmt_suffix_inj. Qed.
Print Assumptions C17_suffix_injective.

(* Core invariant: in every PrintEnv reachable from PrintEnv() by any sequence of push / leave-scope /
   get_name calls (symbols with non-empty names), two different symbols visible in the scope chain never have
   the same printed name. *)
Theorem C17_names_distinct_env : forall ops, ops_ok ops ->
  forall x y s t, x <> y ->
    visible (env_after ops) x = Some s -> visible (env_after ops) y = Some t -> s <> t.
Proof. exact (fun ops H x y s t N A B => Inv_names_distinct (env_after ops) x y s t (reachable_Inv ops H) N A B). Qed.
Print Assumptions C17_names_distinct_env.

(* The same for the printing of a procedure: at every moment k of the traversal of p, distinct symbols that are
   visible together are shown under distinct names. *)
Theorem C17_names_distinct : forall p, wf_proc p = true ->
  forall k x y, x <> y -> visible_together p k x y -> printed_name p k x <> printed_name p k y.
Proof. exact proc_names_distinct. Qed.
Print Assumptions C17_names_distinct.

(* A name once resolved for a symbol stays the same while its scope is open: after any further calls that never
   leave that scope, the symbol is still visible under that name and get_name returns it. *)
Theorem C17_name_stable : forall ops ops', ops_ok ops -> ops_ok ops' ->
  forall x s, visible (env_after ops) x = Some s -> depth_ok 0 ops' = true ->
    visible (snd (run ops' (env_after ops))) x = Some s /\
    fst (get_name (snd (run ops' (env_after ops))) x) = s.
Proof.
  exact (fun ops ops' H H' x s A D => name_stable_in_scope ops' (env_after ops) x s H' (reachable_Inv ops H) A D).
Qed.
Print Assumptions C17_name_stable.

(* Sensitivity: for get_name as it was before the fix (the generated candidate is not recorded in `names`),
   the invariant fails -- symbols x, x, then a symbol literally named x_1. *)
Theorem C17_names_distinct_prefix_refuted :
  exists ops x y s, ops_ok ops /\ x <> y /\
    visible (snd (run_prefix ops init_env)) x = Some s /\
    visible (snd (run_prefix ops init_env)) y = Some s.
Proof. exact prefix_collision. Qed.
Print Assumptions C17_names_distinct_prefix_refuted.

(* Expressions: parsing the printed token sequence gives the expression back, for the operator language
   (+ - * / % and or == < > <= >=, unary minus, variables, literals, indexing); wf_expr = inside this language
   and literals non-negative (str(-3) reads back as unary minus of 3: same value, other tree). *)
Theorem C17_expr_roundtrip : forall e, wf_expr e = true -> parse_expr (print_toks e 0) = Some e.
Proof. exact expr_roundtrip. Qed.
Print Assumptions C17_expr_roundtrip.

(* Sensitivity / regression: for _print_expr as it was before the fix (left operand of a comparison printed at
   the comparison's own precedence) the statement fails -- (a == b) == c was printed `a == b == c`, which Python
   and exo's parser read as the chain (a == b) and (b == c). *)
Theorem C17_expr_roundtrip_prefix_refuted :
  exists e : expr string,
    wf_expr e = true /\
    toks_text (print_toks_prefix e 0) = "a == b == c" /\
    parse_expr (print_toks_prefix e 0) =
      Some (EBin OpAnd (EBin OpEq (ERead "a" []) (ERead "b" [])) (EBin OpEq (ERead "b" []) (ERead "c" []))) /\
    parse_expr (print_toks_prefix e 0) <> Some e.
Proof. exact prefix_roundtrip_chain_counterexample. Qed.
Print Assumptions C17_expr_roundtrip_prefix_refuted.
