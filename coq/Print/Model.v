(* C17 engine `Print`, part 1: the name environment of exo/core/LoopIR_pprint.py (class PrintEnv).

   Executable Gallina only (no proofs).  What is modelled, line by line:

     @dataclass
     class PrintEnv:
         env:   ChainMap[Sym, str]          -> pe_env   : chain sym string
         names: ChainMap[str, int]          -> pe_names : chain string nat
         def push(self): return PrintEnv(self.env.new_child(), self.names.new_child())
         def get_name(self, nm): ...        -> get_name (hand-written, below) and Gen_PrintEnv.py_get_name
                                               (generated from the current source by translator/py2coq_printenv.py;
                                               Proofs_Tie.v proves the two equal by computation)

   A Python dict is an association list in insertion order with unique keys (dset replaces in place or
   appends); a ChainMap is the list of its maps, maps[0] first.  Only the operations the printer uses are
   modelled: ChainMap.get / __contains__ (first map that has the key), __setitem__ (maps[0]), setdefault
   (MutableMapping.setdefault: look-up through the whole chain, write into maps[0] when absent), new_child.

   Sym (prelude.py): a name and a unique id; __eq__ compares both; str(sym) is the name.  The Sym constructor
   only admits names matching [a-zA-Z_]\w* (is_valid_name), in particular the name is never empty: this is
   the hypothesis `sym_name x <> ""` of the theorems. *)
From Coq Require Import String Ascii List Bool Arith DecimalString.
Import ListNotations.
Open Scope string_scope.

(* ------------------------------------------------------------------ Sym *)
Record sym := mkSym { sym_name : string; sym_id : nat }.

Definition sym_eqb (a b : sym) : bool :=
  (sym_name a =? sym_name b) && Nat.eqb (sym_id a) (sym_id b).

(* str(nm) *)
Definition py_str (nm : sym) : string := sym_name nm.

(* str(num) for a non-negative Python int: decimal digits, "0" for zero *)
Definition dec (n : nat) : string := NilEmpty.string_of_uint (Nat.to_uint n).

(* f"{nm}_{num}" *)
Definition fmt_suffix (nm : sym) (num : nat) : string := py_str nm ++ "_" ++ dec num.

(* ------------------------------------------------------------------ dict / ChainMap *)
Section Dict.
  Variables K V : Type.
  Variable keqb : K -> K -> bool.

  Definition dict := list (K * V).
  Definition chain := list dict.

  Fixpoint dget (d : dict) (k : K) : option V :=
    match d with
    | [] => None
    | (k', v) :: r => if keqb k k' then Some v else dget r k
    end.

  (* d[k] = v : replace in place, or append (insertion order) *)
  Fixpoint dset (d : dict) (k : K) (v : V) : dict :=
    match d with
    | [] => [(k, v)]
    | (k', v') :: r => if keqb k k' then (k, v) :: r else (k', v') :: dset r k v
    end.

  (* ChainMap.__getitem__ / .get(k) : the first map that contains the key *)
  Fixpoint cget (c : chain) (k : K) : option V :=
    match c with
    | [] => None
    | d :: r => match dget d k with Some v => Some v | None => cget r k end
    end.

  (* k in chainmap *)
  Definition cmem (c : chain) (k : K) : bool :=
    match cget c k with Some _ => true | None => false end.

  (* chainmap.get(k, default) *)
  Definition cget_default (c : chain) (k : K) (dflt : V) : V :=
    match cget c k with Some v => v | None => dflt end.

  (* chainmap[k] = v : always maps[0] (a ChainMap has at least one map; the [] case is for totality) *)
  Definition cset (c : chain) (k : K) (v : V) : chain :=
    match c with
    | [] => [dset [] k v]
    | d :: r => dset d k v :: r
    end.

  (* chainmap.setdefault(k, v) (MutableMapping.setdefault on a ChainMap) *)
  Definition csetdefault (c : chain) (k : K) (v : V) : chain :=
    if cmem c k then c else cset c k v.

  (* chainmap.new_child() *)
  Definition cnew_child (c : chain) : chain := [] :: c.

  (* number of (map, key) entries of the chain: an upper bound of the number of keys in scope *)
  Definition csize (c : chain) : nat := length (concat c).
End Dict.

Arguments dget {K V}. Arguments dset {K V}. Arguments cget {K V}. Arguments cmem {K V}.
Arguments cget_default {K V}. Arguments cset {K V}. Arguments csetdefault {K V}.
Arguments cnew_child {K V}. Arguments csize {K V}.

(* ------------------------------------------------------------------ PrintEnv *)
Record penv := mkEnv {
  pe_env : chain sym string;
  pe_names : chain string nat
}.

(* PrintEnv() : both fields default to ChainMap(), i.e. one empty map *)
Definition init_env : penv := mkEnv [[]] [[]].

Definition set_env (self : penv) (e : chain sym string) : penv := mkEnv e (pe_names self).
Definition set_names (self : penv) (n : chain string nat) : penv := mkEnv (pe_env self) n.

Definition push (self : penv) : penv :=
  mkEnv (cnew_child (pe_env self)) (cnew_child (pe_names self)).

(* Leaving a scope: the child PrintEnv object is dropped and printing continues with the parent object, whose
   maps the child never wrote to.  On the functional state this is "drop maps[0] of both chains". *)
Definition pop (self : penv) : penv := mkEnv (tl (pe_env self)) (tl (pe_names self)).

(* Python truthiness of `self.env.get(nm)` : None and "" are falsy *)
Definition truthy (o : option string) : option string :=
  match o with
  | Some s => if s =? "" then None else Some s
  | None => None
  end.

(* `while test(s): s = body(s)` with explicit fuel: at most fuel+1 evaluations of the test; None = out of fuel *)
Fixpoint while_fuel {S : Type} (fuel : nat) (test : S -> bool) (body : S -> S) (s : S) : option S :=
  if test s then
    match fuel with
    | 0 => None
    | Datatypes.S f => while_fuel f test body (body s)
    end
  else Some s.

(* fuel of the candidate loop: the number of names in scope (every failing test hits a different one of
   them, Proofs_Env.name_loop_total), plus the final succeeding test (the +1 is the `fuel+1` of while_fuel) *)
Definition loop_fuel (self : penv) : nat := csize (pe_names self).

(* def get_name(self, nm):
       if resolved := self.env.get(nm):
           return resolved
       candidate = str(nm)
       num = self.names.get(candidate, 1)
       while candidate in self.names:
           candidate = f"{nm}_{num}"
           num += 1
       self.env[nm] = candidate
       self.names[str(nm)] = num
       self.names.setdefault(candidate, 1)
       return candidate                                                    *)
Definition get_name (self : penv) (nm : sym) : string * penv :=
  match truthy (cget sym_eqb (pe_env self) nm) with
  | Some resolved => (resolved, self)
  | None =>
    let candidate := py_str nm in
    let num := cget_default String.eqb (pe_names self) candidate 1 in
    match while_fuel (loop_fuel self)
            (fun '(candidate, num) => cmem String.eqb (pe_names self) candidate)
            (fun '(candidate, num) =>
               let candidate := fmt_suffix nm num in
               let num := num + 1 in
               (candidate, num))
            (candidate, num) with
    | None => (candidate, self) (* out of fuel: never happens, Proofs_Env.get_name_fuel_sufficient *)
    | Some (candidate, num) =>
      let self := set_env self (cset sym_eqb (pe_env self) nm candidate) in
      let self := set_names self (cset String.eqb (pe_names self) (py_str nm) num) in
      let self := set_names self (csetdefault String.eqb (pe_names self) candidate 1) in
      (candidate, self)
    end
  end.

(* The same function as it was before commit "fix: the printer must reserve the disambiguated names it
   generates" (no setdefault).  Kept only for the sensitivity theorem C17_names_distinct_prefix_refuted. *)
Definition get_name_prefix (self : penv) (nm : sym) : string * penv :=
  match truthy (cget sym_eqb (pe_env self) nm) with
  | Some resolved => (resolved, self)
  | None =>
    let candidate := py_str nm in
    let num := cget_default String.eqb (pe_names self) candidate 1 in
    match while_fuel (loop_fuel self)
            (fun '(candidate, num) => cmem String.eqb (pe_names self) candidate)
            (fun '(candidate, num) =>
               let candidate := fmt_suffix nm num in
               let num := num + 1 in
               (candidate, num))
            (candidate, num) with
    | None => (candidate, self)
    | Some (candidate, num) =>
      let self := set_env self (cset sym_eqb (pe_env self) nm candidate) in
      let self := set_names self (cset String.eqb (pe_names self) (py_str nm) num) in
      (candidate, self)
    end
  end.

(* ------------------------------------------------------------------ call sequences *)
(* What a printing traversal does to the environment: enter a scope, leave it, request a name. *)
Inductive op := OPush | OPop | OGet (x : sym).

Definition step (gn : penv -> sym -> string * penv) (pe : penv) (o : op) : list string * penv :=
  match o with
  | OPush => ([], push pe)
  | OPop => ([], pop pe)
  | OGet x => let (s, pe') := gn pe x in ([s], pe')
  end.

(* run a call sequence; returns the names handed out (in request order) and the final environment *)
Fixpoint run_with (gn : penv -> sym -> string * penv) (ops : list op) (pe : penv) : list string * penv :=
  match ops with
  | [] => ([], pe)
  | o :: r =>
    let (out1, pe1) := step gn pe o in
    let (out2, pe2) := run_with gn r pe1 in
    ((out1 ++ out2)%list, pe2)
  end.

Definition run := run_with get_name.
Definition run_prefix := run_with get_name_prefix.

Definition env_after (ops : list op) : penv := snd (run ops init_env).
Definition names_of (ops : list op) : list string := fst (run ops init_env).

(* the symbols a reader of the printed text sees in the current scope chain, with their printed names *)
Definition visible (pe : penv) (x : sym) : option string := cget sym_eqb (pe_env pe) x.

Definition op_sym_ok (o : op) : bool :=
  match o with OGet x => negb (sym_name x =? "") | _ => true end.
