#!/venv/bin/python
"""Regenerate Gen_ParTraverse.v and Gen_EffPreds.v from the CURRENT source under EXO_REPO (default /repo):
     translator/py2coq_partraverse.py  <- src/exo/backend/parallel_analysis.py + LoopIR_Rewrite (src/exo/core/LoopIR.py)
     translator/py2coq_effpreds.py     <- src/exo/rewrite/new_eff.py (getsets, Disjoint_Memory, Commutes, Shadows,
                                          AllocCommutes, Commutes_Fissioning, predicate of Check_ParallelizeLoop)
Exits non-zero, naming the offending construct and line, when a source leaves the translator's grammar; the
stale Gen_*.v of the failing translator is then removed so that nothing is proved about an outdated translation."""
import os
import subprocess
import sys

here = os.path.dirname(os.path.abspath(__file__))
repo = os.environ.get("EXO_REPO", "/repo")
os.makedirs(os.path.join(here, "_build"), exist_ok=True)   # ExtractFp.v / ExtractTrav.v write their OCaml there
rc = 0
for tr, out in (("py2coq_partraverse.py", "Gen_ParTraverse.v"), ("py2coq_effpreds.py", "Gen_EffPreds.v")):
    trp = os.path.join(here, "..", "..", "translator", tr)
    outp = os.path.join(here, out)
    tmp = outp + ".tmp"
    r = subprocess.call([sys.executable, trp, "--repo", repo, "-o", tmp])
    if r != 0:
        rc = r
        for f in (tmp, outp):
            if os.path.exists(f):
                os.remove(f)
        continue
    # keep the mtime (and so the .vo) when nothing changed
    new = open(tmp).read()
    if os.path.exists(outp) and open(outp).read() == new:
        os.remove(tmp)
    else:
        os.replace(tmp, outp)
sys.exit(rc)
