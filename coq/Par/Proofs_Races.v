(** * Proofs_Races.v — specification of the executable race checker of Footprint.v, and its link to the
      footprint algebra of ParSem.v (instantiated with cells and event lists). *)
From Coq Require Import ZArith List Permutation Bool Lia.
From Core Require Import Syntax Sem.
From Par Require Import Footprint ParSem.
Import ListNotations.

Lemma cell_eqb_eq : forall a b, cell_eqb a b = true <-> a = b.
Proof.
  intros [l o|f] [l' o'|f']; simpl; split; intros H; try discriminate.
  - apply andb_true_iff in H. destruct H as [H1 H2]. apply Pos.eqb_eq in H1. apply Z.eqb_eq in H2. congruence.
  - inversion H; subst. rewrite Pos.eqb_refl, Z.eqb_refl. reflexivity.
  - apply Pos.eqb_eq in H. congruence.
  - inversion H; subst. apply Pos.eqb_refl.
Qed.

Definition cell_eq_dec : forall a b : cell, {a = b} + {a <> b}.
Proof.
  intros a b. destruct (cell_eqb a b) eqn:E.
  - left. apply cell_eqb_eq. assumption.
  - right. intros H. apply cell_eqb_eq in H. congruence.
Defined.

(** cells of the events of one kind *)
Definition kind_eqb (a b : ekind) : bool :=
  match a, b with KRead, KRead | KWrite, KWrite | KReduce, KReduce => true | _, _ => false end.
Definition ev_cells (k : ekind) (evs : list event) : list cell :=
  map snd (filter (fun e => kind_eqb (fst e) k) evs).
Definition ev_R := ev_cells KRead.
Definition ev_W := ev_cells KWrite.
Definition ev_P := ev_cells KReduce.

Lemma in_ev_cells : forall k evs c, In c (ev_cells k evs) <-> In (k, c) evs.
Proof.
  intros k evs c. unfold ev_cells. rewrite in_map_iff. split.
  - intros [[k' c'] [E H]]. apply filter_In in H. destruct H as [H K]. simpl in *. subst.
    destruct k', k; try discriminate; assumption.
  - intros H. exists (k, c). split; [reflexivity|]. apply filter_In. split; [assumption|].
    destruct k; reflexivity.
Qed.

Lemma conflict_with_none : forall e b, conflict_with e b = None -> forall e', In e' b -> conflict e e' = false.
Proof.
  intros e. induction b as [|x r IH]; intros H e' I; [destruct I|].
  simpl in H. destruct (conflict e x) eqn:E; [discriminate|].
  destruct I as [<-|I]; [assumption|auto].
Qed.

Lemma find_conflict_none : forall a b, find_conflict a b = None ->
  forall e1 e2, In e1 a -> In e2 b -> conflict e1 e2 = false.
Proof.
  induction a as [|x r IH]; intros b H e1 e2 I I2; [destruct I|].
  simpl in H. destruct (conflict_with x b) eqn:E; [discriminate|].
  destruct I as [<-|I].
  - eapply conflict_with_none; eassumption.
  - eapply IH; eassumption.
Qed.

(** the instance of ParSem's [nonconf]: footprint = event list *)
Definition ev_nonconf : list event -> list event -> Prop := nonconf cell (list event) ev_R ev_W ev_P.

Lemma find_conflict_nonconf : forall a b, find_conflict a b = None -> ev_nonconf a b.
Proof.
  intros a b H. unfold ev_nonconf, nonconf. intros c. pose proof (find_conflict_none a b H) as N.
  unfold touches. unfold modifies, ev_R, ev_W, ev_P. rewrite !in_ev_cells.
  split; intros M T.
  - assert (exists k1, is_mod k1 = true /\ In (k1, c) a) as (k1 & M1 & I1)
      by (destruct M; [exists KWrite|exists KReduce]; split; auto).
    assert (exists k2, In (k2, c) b) as (k2 & I2)
      by (destruct T as [|[|]]; [exists KRead|exists KWrite|exists KReduce]; auto).
    specialize (N _ _ I1 I2). unfold conflict in N. simpl in N.
    rewrite (proj2 (cell_eqb_eq c c) eq_refl), M1 in N. discriminate.
  - assert (exists k2, is_mod k2 = true /\ In (k2, c) b) as (k2 & M2 & I2)
      by (destruct M; [exists KWrite|exists KReduce]; split; auto).
    assert (exists k1, In (k1, c) a) as (k1 & I1)
      by (destruct T as [|[|]]; [exists KRead|exists KWrite|exists KReduce]; auto).
    specialize (N _ _ I1 I2). unfold conflict in N. simpl in N.
    rewrite (proj2 (cell_eqb_eq c c) eq_refl), M2, orb_true_r in N. discriminate.
Qed.

Lemma conflict_later_none : forall i ei rest, conflict_later i ei rest = None ->
  Forall (fun x => ev_nonconf ei (snd x)) rest.
Proof.
  intros i ei. induction rest as [|[j ej] r IH]; intros H; [constructor|].
  simpl in H. destruct (find_conflict ei ej) as [[e1 e2]|] eqn:E; [discriminate|].
  constructor; [apply find_conflict_nonconf; assumption|auto].
Qed.

(** what [races] checks per loop: the event lists of different iterations are pairwise non-conflicting *)
Definition ev_race_free : list (Z * list event) -> Prop :=
  race_free cell Z (list event) ev_R ev_W ev_P.

Lemma iters_conflict_none : forall its, iters_conflict its = None -> ev_race_free its.
Proof.
  unfold ev_race_free, race_free.
  induction its as [|[i ei] r IH]; intros H; [constructor|].
  simpl in H. destruct (conflict_later i ei r) as [c|] eqn:E; [discriminate|].
  constructor; [apply conflict_later_none in E; exact E|apply IH; assumption].
Qed.

Lemma bound_conflict_none : forall bev its, bound_conflict bev its = None ->
  forall i ei c, In (i, ei) its -> In (KRead, c) bev -> ~ (In (KWrite, c) ei \/ In (KReduce, c) ei).
Proof.
  intros bev. induction its as [|[j ej] r IH]; intros H i ei c I B M; [destruct I|].
  simpl in H. destruct (find_conflict bev (mods ej)) as [[e1 e2]|] eqn:F; [discriminate|].
  destruct I as [E|I].
  - inversion E; subst.
    assert (exists k, is_mod k = true /\ In (k, c) ei) as (k & Mk & Ik)
      by (destruct M; [exists KWrite|exists KReduce]; split; auto).
    assert (Im : In (k, c) (mods ei)) by (apply filter_In; split; assumption).
    pose proof (find_conflict_none _ _ F _ _ B Im) as N. unfold conflict in N. simpl in N.
    rewrite (proj2 (cell_eqb_eq c c) eq_refl), Mk in N. discriminate.
  - eapply IH; eassumption.
Qed.

Lemma first_race_none : forall prs, first_race prs = None ->
  forall pr, In pr prs ->
    iters_conflict (pr_iters pr) = None /\ bound_conflict (pr_bound pr) (pr_iters pr) = None.
Proof.
  induction prs as [|x r IH]; intros H pr I; [destruct I|].
  simpl in H. unfold par_race in H.
  destruct (iters_conflict (pr_iters x)) as [[[[? ?] ?] ?]|] eqn:E1; [discriminate|].
  destruct (bound_conflict (pr_bound x) (pr_iters x)) as [[[? ?] ?]|] eqn:E2; [discriminate|].
  destruct I as [<-|I].
  - split; assumption.
  - apply IH; assumption.
Qed.

(** [races = false]: in every executed par loop, different iterations are pairwise non-conflicting and
    no iteration modifies a cell the loop bounds read *)
Lemma races_false : forall prs, races prs = false ->
  forall pr, In pr prs ->
    ev_race_free (pr_iters pr) /\
    (forall i ei c, In (i, ei) (pr_iters pr) -> In (KRead, c) (pr_bound pr) ->
                    ~ (In (KWrite, c) ei \/ In (KReduce, c) ei)).
Proof.
  intros prs H pr I. unfold races in H. destruct (first_race prs) eqn:E; [discriminate|].
  destruct (first_race_none prs E pr I) as [H1 H2]. split.
  - apply iters_conflict_none; assumption.
  - apply bound_conflict_none; assumption.
Qed.
