(** * Proofs_EffPreds.v — the TRANSLATED effect predicates (Gen_EffPreds.v) are adequate on exact footprints.

    Footprint of an effect [b : basic loc]:  reads [fpR] = exposed global + heap reads, writes [fpW] =
    global + heap writes, reductions [fpP].  *)
From Coq Require Import ZArith List Bool Lia.
From Par Require Import SetAlg Gen_EffPreds.
Import ListNotations.
Local Open Scope Z_scope.

Section Adequacy.
  Context {loc : Type}.
  Implicit Types a b : basic loc.

  Definition fpR b : lset loc := fun c => b_RG b c \/ b_RH b c.
  Definition fpW b : lset loc := fun c => b_WG b c \/ b_WH b c.
  Definition fpP b : lset loc := b_preRed b.
  Definition fp_mod b : lset loc := fun c => fpW b c \/ fpP b c.
  Definition fp_touch b : lset loc := fun c => fpR b c \/ fpW b c \/ fpP b c.

  (** no location is written or reduced by one and read, written or reduced by the other *)
  Definition disjoint_fp a1 a2 : Prop :=
    forall c, (fp_mod a1 c -> ~ fp_touch a2 c) /\ (fp_mod a2 c -> ~ fp_touch a1 c).

  Ltac unf := unfold Disjoint_Memory, Commutes, get_code, ADef, AMay, is_empty, LIsct, LUnion, LDiff,
                     disjoint_fp, fp_mod, fp_touch, fpR, fpW, fpP in *; cbv zeta in *.
  (** the proofs below use the conjuncts of the translated predicates by CONTENT, not by position: all
      hypotheses [forall x, ~ ..] are instantiated at the location at hand and propositional reasoning
      does the rest, so re-ordering or strengthening the Python definition keeps them, weakening breaks them *)
  Ltac split_ands := repeat match goal with H : _ /\ _ |- _ => destruct H end.
  Ltac inst_at c := repeat match goal with H : forall x : loc, ~ _ |- _ => specialize (H c) end.

  (** *** Disjoint_Memory *)
  Lemma disjoint_def : forall a1 a2, Disjoint_Memory a1 a2 -> disjoint_fp a1 a2.
  Proof.
    intros a1 a2 H. unf. split_ands. intros c. inst_at c. split.
    - intros M T.
      (* a reduced location is either also heap-written (write conjunct) or in REDUCE (reduce conjunct) *)
      assert (NN : ~ ~ (b_WH a1 c \/ ~ b_WH a1 c)) by tauto.
      apply NN. intros D. tauto.
    - intros M T.
      assert (NN : ~ ~ (b_WH a2 c \/ ~ b_WH a2 c)) by tauto.
      apply NN. intros D. tauto.
  Qed.

  Lemma disjoint_def_complete : forall a1 a2, disjoint_fp a1 a2 -> Disjoint_Memory a1 a2.
  Proof.
    intros a1 a2 H. unf. repeat split; intros c; destruct (H c) as [H1 H2]; tauto.
  Qed.

  Lemma Disjoint_Memory_sym : forall a1 a2, Disjoint_Memory a1 a2 -> Disjoint_Memory a2 a1.
  Proof.
    intros a1 a2 H. apply disjoint_def_complete. apply disjoint_def in H.
    intros c. destruct (H c). split; assumption.
  Qed.

  (** *** the formula of Check_ParallelizeLoop *)
  Lemma check_sound : forall lo hi a_bd (fam : Z -> basic loc),
    Check_ParallelizeLoop_pred lo hi a_bd fam ->
    (forall i j, lo <= i < hi -> lo <= j < hi -> i <> j -> disjoint_fp (fam i) (fam j)) /\
    (forall i, lo <= i < hi -> Commutes a_bd (fam i)).
  Proof.
    intros lo hi a_bd fam H. unfold Check_ParallelizeLoop_pred, AMay in H. cbv zeta in H.
    split_ands. split.
    - intros i j Hi Hj Hne. apply disjoint_def.
      destruct (Z_lt_ge_dec i j) as [L|G].
      + match goal with BC : forall i i2 : Z, _ -> Disjoint_Memory _ _ |- _ => apply BC; lia end.
      + apply Disjoint_Memory_sym.
        match goal with BC : forall i i2 : Z, _ -> Disjoint_Memory _ _ |- _ => apply BC; lia end.
    - intros i Hi. match goal with NB : forall i : Z, _ -> Commutes _ _ |- _ => apply NB; lia end.
  Qed.

  (** when the bounds read only what no iteration modifies, they are unaffected: stated on footprints *)
  Lemma bounds_unaffected : forall a_bd a, Commutes a_bd a ->
    forall c, fpR a_bd c -> ~ fp_mod a c.
  Proof.
    intros a_bd a H c R M. unf. split_ands. inst_at c.
    assert (NN : ~ ~ (b_WH a c \/ ~ b_WH a c)) by tauto.
    apply NN. intros D. tauto.
  Qed.

  Lemma check_sound_fp : forall lo hi a_bd (fam : Z -> basic loc),
    Check_ParallelizeLoop_pred lo hi a_bd fam ->
    (forall i j, lo <= i < hi -> lo <= j < hi -> i <> j -> disjoint_fp (fam i) (fam j)) /\
    (forall i c, lo <= i < hi -> fpR a_bd c -> ~ fp_mod (fam i) c).
  Proof.
    intros lo hi a_bd fam H. destruct (check_sound lo hi a_bd fam H) as [H1 H2].
    split; [exact H1|]. intros i c Hi. exact (bounds_unaffected a_bd (fam i) (H2 i Hi) c).
  Qed.

End Adequacy.

(** ** the hypotheses are satisfiable / the predicates are not vacuous *)
Definition pt (z : Z) : lset Z := fun c => c = z.
Definition none : lset Z := fun _ => False.
(** effect of iteration [i] of  [for i in par(lo,hi): x[i] = y[i]]  (x at even, y at odd locations) *)
Definition fam_copy (i : Z) : basic Z := mkBasic none none (pt (2 * i + 1)) (pt (2 * i)) none none.
Definition no_eff : basic Z := mkBasic none none none none none none.

Example check_accepts_pointwise_loop : forall lo hi, Check_ParallelizeLoop_pred lo hi no_eff fam_copy.
Proof.
  intros lo hi. unfold Check_ParallelizeLoop_pred, Commutes, Disjoint_Memory, get_code, ADef, AMay,
    is_empty, LIsct, LUnion, LDiff, fam_copy, no_eff, pt, none. cbv zeta. cbn [b_RG b_WG b_RH b_WH b_preRed b_Alc].
  split; [intros i _; repeat split; intros x; tauto|].
  intros i i2 (_ & _ & L). repeat split; intros x; lia.
Qed.

(** ... and it rejects the loop  [for i in par(0,2): x[0] = y[i]]  *)
Definition fam_same (i : Z) : basic Z := mkBasic none none (pt (2 * i + 1)) (pt 0) none none.
Example check_rejects_same_cell : ~ Check_ParallelizeLoop_pred 0 2 no_eff fam_same.
Proof.
  unfold Check_ParallelizeLoop_pred, Commutes, Disjoint_Memory, get_code, ADef, AMay,
    is_empty, LIsct, LUnion, LDiff, fam_same, no_eff, pt, none. cbv zeta. cbn [b_RG b_WG b_RH b_WH b_preRed b_Alc].
  intros [_ H]. specialize (H 0 1). destruct H as [H _]; [lia|]. apply (H 0). tauto.
Qed.

