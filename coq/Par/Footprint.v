(** * Footprint.v — instrumented copy of Core.Sem.exec (property C09).

    [exec_fp] is [Core.Sem.exec] statement for statement; besides the resulting state it returns
      - the list of memory events of the execution (kind, cell), a cell being a heap cell
        (block, flat offset) or a configuration field, and
      - for every dynamic execution of a [For .. par=true] one record [parrec] holding the events of
        evaluating the loop bounds and, per iteration, that iteration's own event list.
    It is parametric in the ORDER in which the iterations of parallel loops are executed; with the identity
    order it erases to [Core.Sem.exec] (Proofs_Footprint.v), with another order it is the permuted
    execution that property C09 compares with the sequential one.
    Expression evaluation is the SHARED [Core.Sem.eval]; the read events of an expression are computed
    by [reads_e] (same traversal as [eval], same state).  [races] is the checker of the property:
    two DIFFERENT iterations of one par loop such that one has a Write/Reduce event on a cell on which
    the other has any event; or an iteration that writes a cell read by the loop bounds.

    Model file: executable Gallina only.  The erasure theorem (exec_fp erases to Core.Sem.exec) is in
    Proofs_Footprint.v. *)
From Coq Require Import ZArith List QArith Qcanon Bool.
From Core Require Import Syntax Sem.
Import ListNotations.
Local Open Scope Z_scope.

Inductive ekind := KRead | KWrite | KReduce.
Inductive cell := CMem (loc : positive) (off : Z) | CCfg (f : cfgfield).
Definition event := (ekind * cell)%type.

Record parrec := mkPar {
  pr_iter : sym;                        (* the loop variable (identifies the loop) *)
  pr_depth : nat;                       (* number of enclosing loops, counted through calls *)
  pr_sub : bool;                        (* inside a called sub-procedure? *)
  pr_bound : list event;                (* reads of the bound expressions *)
  pr_iters : list (Z * list event)      (* (iteration value, events of that iteration) in sequential order *)
}.

Definition trace := (list event * list parrec)%type.
Definition tnil : trace := ([], []).
Definition tapp (a b : trace) : trace := (fst a ++ fst b, snd a ++ snd b).
Definition tev (l : list event) : trace := (l, []).

(** ** read events of expressions *)
Definition cell_of (st : state) (x : sym) (idx : list expr) : list cell :=
  match get_view st x with
  | Ok w =>
      match eval_ints st idx with
      | Ok is => match flat_index (vdims w) is (voff w) with Ok off => [CMem (vloc w) off] | Err _ => [] end
      | Err _ => []
      end
  | Err _ => []
  end.

Fixpoint reads_e (st : state) (e : expr) {struct e} : list event :=
  match e with
  | Var _ | Int _ | BoolC _ | Real _ | Stride _ _ => []
  | Read x idx =>
      (fix go (l : list expr) : list event :=
         match l with [] => [] | a :: r => reads_e st a ++ go r end) idx
      ++ map (pair KRead) (cell_of st x idx)
  | USub a => reads_e st a
  | BinOp _ a b => reads_e st a ++ reads_e st b
  | Extern _ args =>
      (fix go (l : list expr) : list event :=
         match l with [] => [] | a :: r => reads_e st a ++ go r end) args
  | WindowE _ acc =>
      (fix go (l : list wacc) : list event :=
         match l with
         | [] => []
         | Point a :: r => reads_e st a ++ go r
         | Interval lo hi :: r => reads_e st lo ++ reads_e st hi ++ go r
         end) acc
  | ReadCfg c => [(KRead, CCfg c)]
  end.

Definition reads_list (st : state) : list expr -> list event :=
  fix go (l : list expr) : list event :=
    match l with [] => [] | a :: r => reads_e st a ++ go r end.

Definition reads_waccs (st : state) : list wacc -> list event :=
  fix go (l : list wacc) : list event :=
    match l with
    | [] => []
    | Point a :: r => reads_e st a ++ go r
    | Interval lo hi :: r => reads_e st lo ++ reads_e st hi ++ go r
    end.

(** a tensor-valued actual (whole buffer, window, by-reference scalar) reads its index expressions only *)
Definition reads_view (st : state) (e : expr) : list event :=
  match e with
  | Read _ idx => reads_list st idx
  | WindowE _ _ => reads_e st e
  | _ => []
  end.

Definition reads_actual (st : state) (k : argkind) (e : expr) : list event :=
  match k with
  | KSize | KIndex | KBool | KStride => reads_e st e
  | KScalar | KTensor _ _ => reads_view st e
  end.

Fixpoint reads_actuals (st : state) (formals : list (sym * argkind)) (es : list expr) : list event :=
  match formals, es with
  | (_, k) :: fr, e :: er => reads_actual st k e ++ reads_actuals st fr er
  | _, _ => []
  end.

(** the shape expressions of tensor formals are evaluated by [bind_args] in the callee environment built
    so far: their reads, in the same order *)
Fixpoint reads_bind_args (formals : list (sym * argkind)) (actuals : list binding) (callee : state)
  : list event :=
  match formals, actuals with
  | (x, k) :: fr, a :: ar =>
      (match k with KTensor shape _ => reads_list callee shape | _ => [] end)
      ++ reads_bind_args fr ar (bind_var x a callee)
  | _, _ => []
  end.

(** ** instrumented statements *)
Fixpoint seqZ (k : Z) (n : nat) : list Z :=
  match n with O => [] | S n' => k :: seqZ (k + 1) n' end.

Fixpoint iter_list_fp (ks : list Z) (body : Z -> state -> result (state * trace)) (st : state)
  : result (state * trace * list (Z * list event)) :=
  match ks with
  | [] => Ok (st, tnil, [])
  | k :: r =>
      do r1 <- body k st;
      let (st', t) := r1 in
      do r2 <- iter_list_fp r body st';
      let '(st'', t2, its) := r2 in
      Ok (st'', tapp t t2, (k, fst t) :: its)
  end.

(** [ord] is the order in which the iterations of PARALLEL loops are executed (a function on the list of
    iteration values; the identity gives the sequential semantics, [rev] the reversed one, ...);
    sequential loops always run in increasing order. *)
Fixpoint exec_fp (ord : list Z -> list Z) (d : nat) (sub : bool) (s : stmt) (st : state) {struct s}
  : result (state * trace) :=
  match s with
  | Assign x idx rhs =>
      do w <- get_view st x;
      do is <- eval_ints st idx;
      do v <- eval st rhs;
      do dv <- as_data v;
      do h <- cell_write (s_heap st) w is dv;
      Ok (with_heap h st,
          tev (reads_list st idx ++ reads_e st rhs ++ map (pair KWrite) (cell_of st x idx)))
  | Reduce x idx rhs =>
      do w <- get_view st x;
      do is <- eval_ints st idx;
      do v <- eval st rhs;
      do dv <- as_data v;
      do old <- cell_read (s_heap st) w is;
      do h <- cell_write (s_heap st) w is (dadd old dv);
      Ok (with_heap h st,
          tev (reads_list st idx ++ reads_e st rhs ++ map (pair KReduce) (cell_of st x idx)))
  | WriteCfg c rhs =>
      do v <- eval st rhs;
      Ok (mkState (s_env st) (s_heap st) (s_next st) (update c v (s_cfg st)),
          tev (reads_e st rhs ++ [(KWrite, CCfg c)]))
  | Pass => Ok (st, tnil)
  | If c body orelse =>
      do v <- eval st c;
      do b <- as_bool v;
      do r <- (fix go (l : list stmt) (st : state) : result (state * trace) :=
                 match l with
                 | [] => Ok (st, tnil)
                 | s' :: r => do r1 <- exec_fp ord d sub s' st; let (st1, t1) := r1 in
                              do r2 <- go r st1; let (st2, t2) := r2 in Ok (st2, tapp t1 t2)
                 end)
              (if b then body else orelse) st;
      let (st', t) := r in
      Ok (with_env (s_env st) st', tapp (tev (reads_e st c)) t)
  | For i lo hi body par =>
      do vl <- eval st lo; do l <- as_int vl;
      do vh <- eval st hi; do h <- as_int vh;
      if h <? l then Err BadTrip else
      do r <- iter_list_fp ((if par then ord else (fun ks => ks)) (seqZ l (Z.to_nat (h - l))))
        (fun k st0 =>
           do r <- (fix go (l : list stmt) (st : state) : result (state * trace) :=
                      match l with
                      | [] => Ok (st, tnil)
                      | s' :: r => do r1 <- exec_fp ord (S d) sub s' st; let (st1, t1) := r1 in
                                   do r2 <- go r st1; let (st2, t2) := r2 in Ok (st2, tapp t1 t2)
                      end)
                   body (bind_var i (BVal (VInt k)) st0);
           let (st', t) := r in
           Ok (with_env (s_env st0) st', t))
        st;
      let '(st', t, its) := r in
      let bev := reads_e st lo ++ reads_e st hi in
      Ok (st', (bev ++ fst t, (if par then [mkPar i d sub bev its] else []) ++ snd t))
  | Alloc x shape =>
      do sh <- eval_ints st shape;
      if all_pos sh then
        let n := Z.to_nat (fold_right Z.mul 1 sh) in
        let (loc, st') := alloc_block n st in
        Ok (bind_var x (BView (mkView loc 0 (dense_dims sh))) st', tev (reads_list st shape))
      else Err BadSize
  | WindowS x rhs =>
      do w <- eval_view st rhs;
      Ok (bind_var x (BView w) st, tev (reads_view st rhs))
  | Call f args =>
      match f with
      | Proc formals preds body =>
          do acts <- eval_actuals st formals args;
          do callee <- bind_args formals acts (with_env [] st);
          do _ <- check_preds callee preds;
          do r <- (fix go (l : list stmt) (st : state) : result (state * trace) :=
                     match l with
                     | [] => Ok (st, tnil)
                     | s' :: r => do r1 <- exec_fp ord d true s' st; let (st1, t1) := r1 in
                                  do r2 <- go r st1; let (st2, t2) := r2 in Ok (st2, tapp t1 t2)
                     end)
                  body callee;
          let (st', t) := r in
          Ok (with_env (s_env st) st',
              tapp (tev (reads_actuals st formals args ++ reads_bind_args formals acts (with_env [] st)
                         ++ reads_list callee preds)) t)
      end
  end.

Definition exec_list_fp (ord : list Z -> list Z) (d : nat) (sub : bool) : list stmt -> state -> result (state * trace) :=
  fix go (l : list stmt) (st : state) : result (state * trace) :=
    match l with
    | [] => Ok (st, tnil)
    | s' :: r => do r1 <- exec_fp ord d sub s' st; let (st1, t1) := r1 in
                 do r2 <- go r st1; let (st2, t2) := r2 in Ok (st2, tapp t1 t2)
    end.

(** ** whole-procedure runs (mirror of Core.Sem.run) *)
Inductive outcome_fp :=
| FInvalid (e : err)
| FFails (e : err)
| FDone (bufs : list (list dval)) (cfg : cfgst) (evs : list event) (prs : list parrec).

Definition run_fp (ord : list Z -> list Z) (p : proc) (inp : input) : outcome_fp :=
  match p with
  | Proc formals preds body =>
      if forallb inbuf_ok (in_args inp) then
        let st0 := mkState [] [] 1%positive (in_cfg inp) in
        let (bs, st1) := load_inputs (in_args inp) st0 in
        match bind_args formals bs st1 with
        | Err e => FInvalid e
        | Ok st2 =>
            match check_preds st2 preds with
            | Err e => FInvalid e
            | Ok _ =>
                match exec_list_fp ord 0 false body st2 with
                | Err e => FFails e
                | Ok (st3, t) => FDone (collect_bufs bs (s_heap st3)) (s_cfg st3) (fst t) (snd t)
                end
            end
        end
      else FInvalid OOB
  end.

Definition erase_outcome (o : outcome_fp) : outcome :=
  match o with
  | FInvalid e => Invalid e
  | FFails e => Fails e
  | FDone b c _ _ => Done b c
  end.

(** ** the race checker *)
Definition is_mod (k : ekind) : bool := match k with KRead => false | _ => true end.

Definition cell_eqb (a b : cell) : bool :=
  match a, b with
  | CMem l o, CMem l' o' => Pos.eqb l l' && Z.eqb o o'
  | CCfg f, CCfg f' => Pos.eqb f f'
  | _, _ => false
  end.

Definition conflict (e1 e2 : event) : bool :=
  cell_eqb (snd e1) (snd e2) && (is_mod (fst e1) || is_mod (fst e2)).

(** first event of [b] conflicting with [e] *)
Fixpoint conflict_with (e : event) (b : list event) : option event :=
  match b with
  | [] => None
  | e' :: r => if conflict e e' then Some e' else conflict_with e r
  end.

Fixpoint find_conflict (a b : list event) : option (event * event) :=
  match a with
  | [] => None
  | e :: r => match conflict_with e b with Some e' => Some (e, e') | None => find_conflict r b end
  end.

(** a conflict between the head iteration and a later one *)
Fixpoint conflict_later (i : Z) (ei : list event) (rest : list (Z * list event))
  : option (Z * Z * event * event) :=
  match rest with
  | [] => None
  | (j, ej) :: r =>
      match find_conflict ei ej with
      | Some (e1, e2) => Some (i, j, e1, e2)
      | None => conflict_later i ei r
      end
  end.

Fixpoint iters_conflict (its : list (Z * list event)) : option (Z * Z * event * event) :=
  match its with
  | [] => None
  | (i, ei) :: r => match conflict_later i ei r with Some c => Some c | None => iters_conflict r end
  end.

(** an iteration that MODIFIES a cell read by the loop bounds *)
Definition mods (l : list event) : list event := filter (fun e => is_mod (fst e)) l.

Fixpoint bound_conflict (bev : list event) (its : list (Z * list event)) : option (Z * event * event) :=
  match its with
  | [] => None
  | (i, ei) :: r =>
      match find_conflict bev (mods ei) with
      | Some (e1, e2) => Some (i, e1, e2)
      | None => bound_conflict bev r
      end
  end.

Inductive race :=
| RaceIters (pr : parrec) (i j : Z) (e1 e2 : event)    (* e1 in iteration i, e2 in iteration j, i <> j *)
| RaceBound (pr : parrec) (i : Z) (eb e : event).      (* bounds read eb's cell, iteration i modifies it *)

Definition par_race (pr : parrec) : option race :=
  match iters_conflict (pr_iters pr) with
  | Some (i, j, e1, e2) => Some (RaceIters pr i j e1 e2)
  | None =>
      match bound_conflict (pr_bound pr) (pr_iters pr) with
      | Some (i, eb, e) => Some (RaceBound pr i eb e)
      | None => None
      end
  end.

Fixpoint first_race (prs : list parrec) : option race :=
  match prs with
  | [] => None
  | pr :: r => match par_race pr with Some x => Some x | None => first_race r end
  end.

Definition races (prs : list parrec) : bool :=
  match first_race prs with Some _ => true | None => false end.

(** number of par-loop executions with at least two iterations (non-triviality statistic) *)
Definition nontrivial_pars (prs : list parrec) : nat :=
  length (filter (fun pr => (2 <=? length (pr_iters pr))%nat) prs).
