(** Extraction of the TRANSLATED traversal of ParallelAnalysis (Gen_ParTraverse.v) and of the structural
    list of par loops.  Directives: ExtrOcamlBasic only. *)
From Coq Require Import ZArith List QArith Qcanon.
From Core Require Import Syntax.
From Par Require Import TraverseLang Gen_ParTraverse.
Require Extraction.
Require Import ExtrOcamlBasic.
Extraction Language OCaml.

Definition mk_qc (n : Z) (d : positive) : Qc := Q2Qc (Qmake n d).

Extraction "_build/partrav.ml" visited visited_with pa_run par_loops_of mk_qc.
