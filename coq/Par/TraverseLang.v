(** * TraverseLang.v — target language of translator/py2coq_partraverse.py (model file, executable only).

    The translator turns the Python of [ParallelAnalysis.map_s] (and the [LoopIR_Rewrite] dispatch it
    inherits) into a Gallina function over Core's [stmt] that computes the EFFECTS of the traversal:
      - [TVisit s]  : [Check_ParallelizeLoop(self.proc, s)] is invoked on loop [s];
      - [TErr s]    : [self.err(s, ..)] is called (an error is recorded; compilation will fail);
      - abort       : an exception escapes (compilation fails with that exception).
    The outcome of a check is given by a parameter [chk : stmt -> bool] ([false] = the check raises). *)
From Coq Require Import List Bool.
From Core Require Import Syntax.
Import ListNotations.

Inductive tevent := TVisit (s : stmt) | TErr (s : stmt).
Record eff := mkEff { e_log : list tevent; e_abort : bool }.

Definition t_skip : eff := mkEff [] false.
Definition t_raise : eff := mkEff [] true.
Definition t_seq (a b : eff) : eff :=
  if e_abort a then a else mkEff (e_log a ++ e_log b) (e_abort b).
Definition t_check (chk : stmt -> bool) (s : stmt) : eff := mkEff [TVisit s] (negb (chk s)).
Definition t_err (s : stmt) : eff := mkEff [TErr s] false.
(** [try: a  except: h]  (bare except / except Exception / except BaseException) *)
Definition t_try (a h : eff) : eff :=
  if e_abort a then t_seq (mkEff (e_log a) false) h else a.
Definition t_if (c : bool) (a b : eff) : eff := if c then a else b.

(** isinstance tests on Core's constructors *)
Definition is_Assign s := match s with Assign _ _ _ => true | _ => false end.
Definition is_Reduce s := match s with Reduce _ _ _ => true | _ => false end.
Definition is_WriteConfig s := match s with WriteCfg _ _ => true | _ => false end.
Definition is_Pass s := match s with Pass => true | _ => false end.
Definition is_If s := match s with If _ _ _ => true | _ => false end.
Definition is_For s := match s with For _ _ _ _ _ => true | _ => false end.
Definition is_Alloc s := match s with Alloc _ _ => true | _ => false end.
Definition is_Call s := match s with Call _ _ => true | _ => false end.
Definition is_WindowStmt s := match s with WindowS _ _ => true | _ => false end.
(** isinstance(s.loop_mode, LoopIR.Par) / LoopIR.Seq — only evaluated on a For (the translator checks) *)
Definition loop_mode_is_Par s := match s with For _ _ _ _ p => p | _ => false end.
Definition loop_mode_is_Seq s := match s with For _ _ _ _ p => negb p | _ => false end.

Definition is_visit (e : tevent) := match e with TVisit _ => true | _ => false end.
Fixpoint visited_of (l : list tevent) : list stmt :=
  match l with
  | [] => []
  | TVisit s :: r => s :: visited_of r
  | TErr _ :: r => visited_of r
  end.
Fixpoint errors_of (l : list tevent) : list stmt :=
  match l with
  | [] => []
  | TErr s :: r => s :: errors_of r
  | TVisit _ :: r => errors_of r
  end.
Definition has_errors (e : eff) : bool := match errors_of (e_log e) with [] => false | _ => true end.

(** ** the specification: every loop marked Par, at every nesting depth of ONE procedure body
       (callees are separate procedures: the compiler runs the analysis on each of them) *)
Fixpoint par_loops_s (s : stmt) : list stmt :=
  match s with
  | If _ b o =>
      (fix go (l : list stmt) : list stmt := match l with [] => [] | x :: r => par_loops_s x ++ go r end) b
      ++ (fix go (l : list stmt) : list stmt := match l with [] => [] | x :: r => par_loops_s x ++ go r end) o
  | For _ _ _ body par =>
      (if par then [s] else [])
      ++ (fix go (l : list stmt) : list stmt := match l with [] => [] | x :: r => par_loops_s x ++ go r end) body
  | _ => []
  end.
Definition par_loops_list : list stmt -> list stmt :=
  fix go (l : list stmt) : list stmt := match l with [] => [] | x :: r => par_loops_s x ++ go r end.
Definition par_loops_of (p : proc) : list stmt := par_loops_list (proc_body p).
