(* Props_C01preds.v — the part of property C01 that justifies the DEFINITIONS of the effect predicates
   (DESIGN.md, C01 "C01_predicates"): over Gen_EffPreds.v, regenerated from src/exo/rewrite/new_eff.py on
   every run.  Dropping or weakening a conjunct of the Python definition breaks these proofs. *)
From Coq Require Import ZArith List.
From Par Require Import SetAlg Gen_EffPreds Proofs_EffPreds Proofs_Commutes.

(* two actions whose exact footprints satisfy Commutes commute (values in any structure whose reduction
   operator satisfies (x+y)+z = (x+z)+y, e.g. a commutative monoid) *)
Theorem C01_predicates_commutes :
  forall (loc V : Type) (add : V -> V -> V),
    (forall x y z, add (add x y) z = add (add x z) y) ->
    forall (a1 a2 : basic loc) (f1 f2 : amem V -> amem V),
      Commutes a1 a2 -> has_footprint V add f1 a1 -> has_footprint V add f2 a2 ->
      forall m c, f1 (f2 m) c = f2 (f1 m) c.
Proof. exact @commutes_actions. Qed.
Print Assumptions C01_predicates_commutes.

(* Commutes is satisfiable and not trivially true *)
Theorem C01_predicates_commutes_nonvacuous :
  Commutes (fam_copy 0) (fam_copy 1) /\ ~ Commutes (fam_same 0) (fam_same 1).
Proof. exact commutes_satisfiable. Qed.
Print Assumptions C01_predicates_commutes_nonvacuous.
