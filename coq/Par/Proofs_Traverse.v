(** * Proofs_Traverse.v — the translated traversal of ParallelAnalysis reaches every par loop.

    The proofs are written against the effect combinators of TraverseLang.v (compositional lemmas about
    [t_seq]/[t_if]/[t_try]/[t_check]/[t_err]), not against one particular shape of Gen_ParTraverse.v, so that
    refactorings of the Python which keep the effects keep the proofs; dropping the recursive descent or the
    error report makes them fail. *)
From Coq Require Import ZArith List Bool Lia.
From Core Require Import Syntax.
From Par Require Import TraverseLang Gen_ParTraverse Proofs_Footprint.
Import ListNotations.

Section Good.
  Variable chk : stmt -> bool.

  (** [covers e L]: if the effect [e] neither aborts nor records an error, every loop of [L] was checked
      (is in the visit log) and its check passed. *)
  Definition covers (e : eff) (L : list stmt) : Prop :=
    e_abort e = false -> errors_of (e_log e) = [] ->
    forall l, In l L -> chk l = true /\ In l (visited_of (e_log e)).

  Lemma errors_of_app : forall a b, errors_of (a ++ b) = errors_of a ++ errors_of b.
  Proof. induction a as [|[x|x] a IH]; intros b; simpl; rewrite ?IH; reflexivity. Qed.
  Lemma visited_of_app : forall a b, visited_of (a ++ b) = visited_of a ++ visited_of b.
  Proof. induction a as [|[x|x] a IH]; intros b; simpl; rewrite ?IH; reflexivity. Qed.

  Lemma covers_nil : forall e, covers e [].
  Proof. intros e _ _ l []. Qed.

  Lemma covers_seq : forall a b L1 L2, covers a L1 -> covers b L2 -> covers (t_seq a b) (L1 ++ L2).
  Proof.
    intros a b L1 L2 Ha Hb. unfold covers, t_seq.
    destruct (e_abort a) eqn:Ea; [intros; congruence|]. simpl.
    intros Eb Herr l Hl. rewrite errors_of_app in Herr. apply app_eq_nil in Herr. destruct Herr as [H1 H2].
    rewrite visited_of_app. apply in_app_or in Hl. destruct Hl as [Hl|Hl].
    - destruct (Ha Ea H1 l Hl). split; [assumption|apply in_or_app; left; assumption].
    - destruct (Hb Eb H2 l Hl). split; [assumption|apply in_or_app; right; assumption].
  Qed.

  Lemma covers_seq_l : forall a b L, covers a L -> covers (t_seq a b) L.
  Proof.
    intros a b L Ha. rewrite <- (app_nil_r L). apply covers_seq; [assumption|apply covers_nil].
  Qed.
  Lemma covers_seq_r : forall a b L, covers b L -> covers (t_seq a b) L.
  Proof.
    intros a b L Hb. change L with ([] ++ L). apply covers_seq; [apply covers_nil|assumption].
  Qed.

  Lemma covers_seq_swap : forall a b L1 L2, covers a L2 -> covers b L1 -> covers (t_seq a b) (L1 ++ L2).
  Proof.
    intros a b L1 L2 Ha Hb Ea Er l Hl. apply (covers_seq a b L2 L1 Ha Hb Ea Er).
    apply in_or_app. apply in_app_or in Hl. tauto.
  Qed.

  Lemma covers_incl : forall e L L', covers e L -> incl L' L -> covers e L'.
  Proof. intros e L L' H I Ea Er l Hl. apply (H Ea Er l (I l Hl)). Qed.

  Lemma covers_if : forall (c : bool) a b L, (c = true -> covers a L) -> (c = false -> covers b L) ->
    covers (t_if c a b) L.
  Proof. intros [|] a b L Ha Hb; simpl; auto. Qed.

  (** the guarded check: [try: Check(s) except: self.err(s)] covers [s] *)
  Lemma covers_check : forall s, covers (t_check chk s) [s].
  Proof.
    intros s. unfold covers, t_check. simpl. intros Hc _ l [<-|[]].
    split; [destruct (chk s); [reflexivity|discriminate]|left; reflexivity].
  Qed.

  Lemma covers_try_err : forall a h sx L,
    covers a L -> e_log h = [TErr sx] ++ e_log (mkEff (tl (e_log h)) false) ->
    covers (t_try a h) L.
  Proof.
    intros a h sx L Ha Hh. unfold covers, t_try.
    destruct (e_abort a) eqn:Ea.
    - unfold t_seq. simpl. intros _ Herr. exfalso. rewrite errors_of_app, Hh in Herr.
      apply app_eq_nil in Herr. destruct Herr as [_ Herr]. simpl in Herr. discriminate.
    - intros _. apply Ha. assumption.
  Qed.
End Good.

(** ** the translated traversal *)
Lemma covers_list : forall chk l,
  Forall (fun s => covers chk (pa_map_s chk s) (par_loops_s s)) l ->
  covers chk (pa_map_stmts chk l) (par_loops_list l).
Proof.
  intros chk l H. induction H as [|s r Hs _ IH].
  - apply covers_nil.
  - change (pa_map_stmts chk (s :: r)) with (t_seq (pa_map_s chk s) (pa_map_stmts chk r)).
    change (par_loops_list (s :: r)) with (par_loops_s s ++ par_loops_list r).
    apply covers_seq; assumption.
Qed.

(** solves [covers chk e L] for the effect terms the translator can produce, given coverage of the
    recursive descents in the context (backtracking over which part of a sequence covers what) *)
Ltac cov :=
  first
    [ assumption
    | apply covers_nil
    | apply covers_check
    | apply covers_if; intros; cov
    | eapply covers_try_err; [cov|reflexivity]
    | apply covers_seq; [cov|cov]
    | apply covers_seq_swap; [cov|cov]
    | apply covers_seq_l; cov
    | apply covers_seq_r; cov ].

Lemma pa_map_s_covers : forall chk s, covers chk (pa_map_s chk s) (par_loops_s s).
Proof.
  intros chk. induction s using stmt_ind2;
    try (simpl; apply covers_nil).
  - (* If *)
    apply covers_list in H. apply covers_list in H0.
    cbn [pa_map_s par_loops_s is_For loop_mode_is_Par andb t_if].
    fold (pa_map_stmts chk). fold par_loops_list.
    cov.
  - (* For *)
    apply covers_list in H.
    cbn [pa_map_s par_loops_s is_For loop_mode_is_Par andb].
    fold (pa_map_stmts chk). fold par_loops_list.
    destruct par; cbn [t_if app].
    + change (For i lo hi body true :: par_loops_list body)
        with ([For i lo hi body true] ++ par_loops_list body).
      cov.
    + cov.
Qed.

Lemma pa_apply_proc_covers : forall chk p, covers chk (pa_apply_proc chk p) (par_loops_of p).
Proof.
  intros chk p. unfold pa_apply_proc, par_loops_of. apply covers_list.
  apply Forall_forall. intros s _. apply pa_map_s_covers.
Qed.

(** with all checks passing nothing aborts and no error is recorded *)
Definition clean (e : eff) : Prop := e_abort e = false /\ errors_of (e_log e) = [].

Lemma clean_skip : clean t_skip.
Proof. split; reflexivity. Qed.
Lemma clean_seq : forall a b, clean a -> clean b -> clean (t_seq a b).
Proof.
  intros a b [A1 A2] [B1 B2]. unfold clean, t_seq. rewrite A1. simpl.
  rewrite errors_of_app, A2, B2. split; [assumption|reflexivity].
Qed.
Lemma clean_if : forall (c : bool) a b, clean a -> clean b -> clean (t_if c a b).
Proof. intros [|]; simpl; auto. Qed.
Lemma clean_try : forall a h, clean a -> clean (t_try a h).
Proof. intros a h [A1 A2]. unfold t_try. rewrite A1. split; assumption. Qed.
Lemma clean_check : forall chk s, chk s = true -> clean (t_check chk s).
Proof. intros chk s H. unfold clean, t_check. simpl. rewrite H. split; reflexivity. Qed.

Lemma clean_list : forall chk l, Forall (fun s => clean (pa_map_s chk s)) l -> clean (pa_map_stmts chk l).
Proof.
  intros chk l H. induction H as [|x r Hx _ IH]; [apply clean_skip|].
  change (pa_map_stmts chk (x :: r)) with (t_seq (pa_map_s chk x) (pa_map_stmts chk r)).
  apply clean_seq; assumption.
Qed.

Ltac clean_tac :=
  repeat first
    [ assumption | apply clean_skip | apply clean_seq | apply clean_if | apply clean_try
    | apply clean_check; reflexivity ].

Lemma pa_map_s_clean : forall s, clean (pa_map_s (fun _ => true) s).
Proof.
  induction s using stmt_ind2; try (simpl; apply clean_skip).
  - apply clean_list in H. apply clean_list in H0.
    cbn [pa_map_s]. fold (pa_map_stmts (fun _ : stmt => true)). clean_tac.
  - apply clean_list in H.
    cbn [pa_map_s]. fold (pa_map_stmts (fun _ : stmt => true)). clean_tac.
Qed.

(** every par loop, at every depth, is visited (when the checks pass) *)
Lemma all_visited : forall p l, In l (par_loops_of p) -> In l (visited p).
Proof.
  intros p l Hl. unfold visited, visited_with.
  pose proof (pa_apply_proc_covers (fun _ => true) p) as C.
  assert (A : clean (pa_apply_proc (fun _ => true) p)).
  { unfold pa_apply_proc. apply clean_list. apply Forall_forall. intros s _. apply pa_map_s_clean. }
  destruct A as [A1 A2].
  exact (proj2 (C A1 A2 l Hl)).
Qed.

(** if ParallelAnalysis.run returns normally, the check passed on every par loop at every depth *)
Lemma accept_sound : forall chk p, pa_run chk p = true ->
  forall l, In l (par_loops_of p) -> chk l = true /\ In l (visited_with chk p).
Proof.
  intros chk p Hr l Hl. unfold pa_run in Hr. cbv zeta in Hr.
  apply andb_true_iff in Hr. destruct Hr as [Ha He].
  apply negb_true_iff in Ha. apply negb_true_iff in He.
  unfold has_errors in He.
  destruct (errors_of (e_log (pa_apply_proc chk p))) eqn:E; [|discriminate].
  exact (pa_apply_proc_covers chk p Ha E l Hl).
Qed.

(** the hypotheses are satisfiable: a procedure with a par loop nested in a seq loop nested in an if, all
    checks passing, is accepted, and the nested loop is in the visit list *)
Example accept_sound_nonvacuous :
  let inner := For 2%positive (Int 0) (Int 4) [Pass] true in
  let p := Proc [] [] [If (BoolC true) [For 1%positive (Int 0) (Int 2) [inner] false] []] in
  pa_run (fun _ => true) p = true /\ par_loops_of p = [inner] /\ visited p = [inner].
Proof. vm_compute. repeat split. Qed.

(** ... and a failing check on a nested loop makes run fail *)
Example reject_nested :
  let inner := For 2%positive (Int 0) (Int 4) [Pass] true in
  let p := Proc [] [] [If (BoolC true) [] [For 1%positive (Int 0) (Int 2) [inner] false]] in
  pa_run (fun _ => false) p = false.
Proof. vm_compute. reflexivity. Qed.
