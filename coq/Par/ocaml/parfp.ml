
type nat =
| O
| S of nat

(** val fst : ('a1 * 'a2) -> 'a1 **)

let fst = function
| (x, _) -> x

(** val snd : ('a1 * 'a2) -> 'a2 **)

let snd = function
| (_, y) -> y

(** val length : 'a1 list -> nat **)

let rec length = function
| [] -> O
| _ :: l' -> S (length l')

(** val app : 'a1 list -> 'a1 list -> 'a1 list **)

let rec app l m =
  match l with
  | [] -> m
  | a :: l1 -> a :: (app l1 m)

type comparison =
| Eq
| Lt
| Gt

(** val compOpp : comparison -> comparison **)

let compOpp = function
| Eq -> Eq
| Lt -> Gt
| Gt -> Lt

module Coq__1 = struct
 (** val add : nat -> nat -> nat **)
 let rec add n m =
   match n with
   | O -> m
   | S p -> S (add p m)
end
include Coq__1

type positive =
| XI of positive
| XO of positive
| XH

type z =
| Z0
| Zpos of positive
| Zneg of positive

(** val eqb : bool -> bool -> bool **)

let eqb b1 b2 =
  if b1 then b2 else if b2 then false else true

module Nat =
 struct
  (** val leb : nat -> nat -> bool **)

  let rec leb n m =
    match n with
    | O -> true
    | S n' -> (match m with
               | O -> false
               | S m' -> leb n' m')
 end

module Pos =
 struct
  type mask =
  | IsNul
  | IsPos of positive
  | IsNeg
 end

module Coq_Pos =
 struct
  (** val succ : positive -> positive **)

  let rec succ = function
  | XI p -> XO (succ p)
  | XO p -> XI p
  | XH -> XO XH

  (** val add : positive -> positive -> positive **)

  let rec add x y =
    match x with
    | XI p ->
      (match y with
       | XI q0 -> XO (add_carry p q0)
       | XO q0 -> XI (add p q0)
       | XH -> XO (succ p))
    | XO p ->
      (match y with
       | XI q0 -> XI (add p q0)
       | XO q0 -> XO (add p q0)
       | XH -> XI p)
    | XH -> (match y with
             | XI q0 -> XO (succ q0)
             | XO q0 -> XI q0
             | XH -> XO XH)

  (** val add_carry : positive -> positive -> positive **)

  and add_carry x y =
    match x with
    | XI p ->
      (match y with
       | XI q0 -> XI (add_carry p q0)
       | XO q0 -> XO (add_carry p q0)
       | XH -> XI (succ p))
    | XO p ->
      (match y with
       | XI q0 -> XO (add_carry p q0)
       | XO q0 -> XI (add p q0)
       | XH -> XO (succ p))
    | XH ->
      (match y with
       | XI q0 -> XI (succ q0)
       | XO q0 -> XO (succ q0)
       | XH -> XI XH)

  (** val pred_double : positive -> positive **)

  let rec pred_double = function
  | XI p -> XI (XO p)
  | XO p -> XI (pred_double p)
  | XH -> XH

  type mask = Pos.mask =
  | IsNul
  | IsPos of positive
  | IsNeg

  (** val succ_double_mask : mask -> mask **)

  let succ_double_mask = function
  | IsNul -> IsPos XH
  | IsPos p -> IsPos (XI p)
  | IsNeg -> IsNeg

  (** val double_mask : mask -> mask **)

  let double_mask = function
  | IsPos p -> IsPos (XO p)
  | x0 -> x0

  (** val double_pred_mask : positive -> mask **)

  let double_pred_mask = function
  | XI p -> IsPos (XO (XO p))
  | XO p -> IsPos (XO (pred_double p))
  | XH -> IsNul

  (** val sub_mask : positive -> positive -> mask **)

  let rec sub_mask x y =
    match x with
    | XI p ->
      (match y with
       | XI q0 -> double_mask (sub_mask p q0)
       | XO q0 -> succ_double_mask (sub_mask p q0)
       | XH -> IsPos (XO p))
    | XO p ->
      (match y with
       | XI q0 -> succ_double_mask (sub_mask_carry p q0)
       | XO q0 -> double_mask (sub_mask p q0)
       | XH -> IsPos (pred_double p))
    | XH -> (match y with
             | XH -> IsNul
             | _ -> IsNeg)

  (** val sub_mask_carry : positive -> positive -> mask **)

  and sub_mask_carry x y =
    match x with
    | XI p ->
      (match y with
       | XI q0 -> succ_double_mask (sub_mask_carry p q0)
       | XO q0 -> double_mask (sub_mask p q0)
       | XH -> IsPos (pred_double p))
    | XO p ->
      (match y with
       | XI q0 -> double_mask (sub_mask_carry p q0)
       | XO q0 -> succ_double_mask (sub_mask_carry p q0)
       | XH -> double_pred_mask p)
    | XH -> IsNeg

  (** val sub : positive -> positive -> positive **)

  let sub x y =
    match sub_mask x y with
    | IsPos z0 -> z0
    | _ -> XH

  (** val mul : positive -> positive -> positive **)

  let rec mul x y =
    match x with
    | XI p -> add y (XO (mul p y))
    | XO p -> XO (mul p y)
    | XH -> y

  (** val size_nat : positive -> nat **)

  let rec size_nat = function
  | XI p0 -> S (size_nat p0)
  | XO p0 -> S (size_nat p0)
  | XH -> S O

  (** val compare_cont : comparison -> positive -> positive -> comparison **)

  let rec compare_cont r x y =
    match x with
    | XI p ->
      (match y with
       | XI q0 -> compare_cont r p q0
       | XO q0 -> compare_cont Gt p q0
       | XH -> Gt)
    | XO p ->
      (match y with
       | XI q0 -> compare_cont Lt p q0
       | XO q0 -> compare_cont r p q0
       | XH -> Gt)
    | XH -> (match y with
             | XH -> r
             | _ -> Lt)

  (** val compare : positive -> positive -> comparison **)

  let compare =
    compare_cont Eq

  (** val eqb : positive -> positive -> bool **)

  let rec eqb p q0 =
    match p with
    | XI p0 -> (match q0 with
                | XI q1 -> eqb p0 q1
                | _ -> false)
    | XO p0 -> (match q0 with
                | XO q1 -> eqb p0 q1
                | _ -> false)
    | XH -> (match q0 with
             | XH -> true
             | _ -> false)

  (** val ggcdn :
      nat -> positive -> positive -> positive * (positive * positive) **)

  let rec ggcdn n a b =
    match n with
    | O -> (XH, (a, b))
    | S n0 ->
      (match a with
       | XI a' ->
         (match b with
          | XI b' ->
            (match compare a' b' with
             | Eq -> (a, (XH, XH))
             | Lt ->
               let (g, p) = ggcdn n0 (sub b' a') a in
               let (ba, aa) = p in (g, (aa, (add aa (XO ba))))
             | Gt ->
               let (g, p) = ggcdn n0 (sub a' b') b in
               let (ab, bb) = p in (g, ((add bb (XO ab)), bb)))
          | XO b0 ->
            let (g, p) = ggcdn n0 a b0 in
            let (aa, bb) = p in (g, (aa, (XO bb)))
          | XH -> (XH, (a, XH)))
       | XO a0 ->
         (match b with
          | XI _ ->
            let (g, p) = ggcdn n0 a0 b in
            let (aa, bb) = p in (g, ((XO aa), bb))
          | XO b0 -> let (g, p) = ggcdn n0 a0 b0 in ((XO g), p)
          | XH -> (XH, (a, XH)))
       | XH -> (XH, (XH, b)))

  (** val ggcd : positive -> positive -> positive * (positive * positive) **)

  let ggcd a b =
    ggcdn (Coq__1.add (size_nat a) (size_nat b)) a b

  (** val iter_op : ('a1 -> 'a1 -> 'a1) -> positive -> 'a1 -> 'a1 **)

  let rec iter_op op p a =
    match p with
    | XI p0 -> op a (iter_op op p0 (op a a))
    | XO p0 -> iter_op op p0 (op a a)
    | XH -> a

  (** val to_nat : positive -> nat **)

  let to_nat x =
    iter_op Coq__1.add x (S O)

  (** val of_succ_nat : nat -> positive **)

  let rec of_succ_nat = function
  | O -> XH
  | S x -> succ (of_succ_nat x)

  (** val eq_dec : positive -> positive -> bool **)

  let rec eq_dec p x0 =
    match p with
    | XI p0 -> (match x0 with
                | XI p1 -> eq_dec p0 p1
                | _ -> false)
    | XO p0 -> (match x0 with
                | XO p1 -> eq_dec p0 p1
                | _ -> false)
    | XH -> (match x0 with
             | XH -> true
             | _ -> false)
 end

module Z =
 struct
  (** val double : z -> z **)

  let double = function
  | Z0 -> Z0
  | Zpos p -> Zpos (XO p)
  | Zneg p -> Zneg (XO p)

  (** val succ_double : z -> z **)

  let succ_double = function
  | Z0 -> Zpos XH
  | Zpos p -> Zpos (XI p)
  | Zneg p -> Zneg (Coq_Pos.pred_double p)

  (** val pred_double : z -> z **)

  let pred_double = function
  | Z0 -> Zneg XH
  | Zpos p -> Zpos (Coq_Pos.pred_double p)
  | Zneg p -> Zneg (XI p)

  (** val pos_sub : positive -> positive -> z **)

  let rec pos_sub x y =
    match x with
    | XI p ->
      (match y with
       | XI q0 -> double (pos_sub p q0)
       | XO q0 -> succ_double (pos_sub p q0)
       | XH -> Zpos (XO p))
    | XO p ->
      (match y with
       | XI q0 -> pred_double (pos_sub p q0)
       | XO q0 -> double (pos_sub p q0)
       | XH -> Zpos (Coq_Pos.pred_double p))
    | XH ->
      (match y with
       | XI q0 -> Zneg (XO q0)
       | XO q0 -> Zneg (Coq_Pos.pred_double q0)
       | XH -> Z0)

  (** val add : z -> z -> z **)

  let add x y =
    match x with
    | Z0 -> y
    | Zpos x' ->
      (match y with
       | Z0 -> x
       | Zpos y' -> Zpos (Coq_Pos.add x' y')
       | Zneg y' -> pos_sub x' y')
    | Zneg x' ->
      (match y with
       | Z0 -> x
       | Zpos y' -> pos_sub y' x'
       | Zneg y' -> Zneg (Coq_Pos.add x' y'))

  (** val opp : z -> z **)

  let opp = function
  | Z0 -> Z0
  | Zpos x0 -> Zneg x0
  | Zneg x0 -> Zpos x0

  (** val sub : z -> z -> z **)

  let sub m n =
    add m (opp n)

  (** val mul : z -> z -> z **)

  let mul x y =
    match x with
    | Z0 -> Z0
    | Zpos x' ->
      (match y with
       | Z0 -> Z0
       | Zpos y' -> Zpos (Coq_Pos.mul x' y')
       | Zneg y' -> Zneg (Coq_Pos.mul x' y'))
    | Zneg x' ->
      (match y with
       | Z0 -> Z0
       | Zpos y' -> Zneg (Coq_Pos.mul x' y')
       | Zneg y' -> Zpos (Coq_Pos.mul x' y'))

  (** val compare : z -> z -> comparison **)

  let compare x y =
    match x with
    | Z0 -> (match y with
             | Z0 -> Eq
             | Zpos _ -> Lt
             | Zneg _ -> Gt)
    | Zpos x' -> (match y with
                  | Zpos y' -> Coq_Pos.compare x' y'
                  | _ -> Gt)
    | Zneg x' ->
      (match y with
       | Zneg y' -> compOpp (Coq_Pos.compare x' y')
       | _ -> Lt)

  (** val sgn : z -> z **)

  let sgn = function
  | Z0 -> Z0
  | Zpos _ -> Zpos XH
  | Zneg _ -> Zneg XH

  (** val leb : z -> z -> bool **)

  let leb x y =
    match compare x y with
    | Gt -> false
    | _ -> true

  (** val ltb : z -> z -> bool **)

  let ltb x y =
    match compare x y with
    | Lt -> true
    | _ -> false

  (** val eqb : z -> z -> bool **)

  let eqb x y =
    match x with
    | Z0 -> (match y with
             | Z0 -> true
             | _ -> false)
    | Zpos p -> (match y with
                 | Zpos q0 -> Coq_Pos.eqb p q0
                 | _ -> false)
    | Zneg p -> (match y with
                 | Zneg q0 -> Coq_Pos.eqb p q0
                 | _ -> false)

  (** val max : z -> z -> z **)

  let max n m =
    match compare n m with
    | Lt -> m
    | _ -> n

  (** val min : z -> z -> z **)

  let min n m =
    match compare n m with
    | Gt -> m
    | _ -> n

  (** val abs : z -> z **)

  let abs = function
  | Zneg p -> Zpos p
  | x -> x

  (** val to_nat : z -> nat **)

  let to_nat = function
  | Zpos p -> Coq_Pos.to_nat p
  | _ -> O

  (** val of_nat : nat -> z **)

  let of_nat = function
  | O -> Z0
  | S n0 -> Zpos (Coq_Pos.of_succ_nat n0)

  (** val to_pos : z -> positive **)

  let to_pos = function
  | Zpos p -> p
  | _ -> XH

  (** val pos_div_eucl : positive -> z -> z * z **)

  let rec pos_div_eucl a b =
    match a with
    | XI a' ->
      let (q0, r) = pos_div_eucl a' b in
      let r' = add (mul (Zpos (XO XH)) r) (Zpos XH) in
      if ltb r' b
      then ((mul (Zpos (XO XH)) q0), r')
      else ((add (mul (Zpos (XO XH)) q0) (Zpos XH)), (sub r' b))
    | XO a' ->
      let (q0, r) = pos_div_eucl a' b in
      let r' = mul (Zpos (XO XH)) r in
      if ltb r' b
      then ((mul (Zpos (XO XH)) q0), r')
      else ((add (mul (Zpos (XO XH)) q0) (Zpos XH)), (sub r' b))
    | XH -> if leb (Zpos (XO XH)) b then (Z0, (Zpos XH)) else ((Zpos XH), Z0)

  (** val div_eucl : z -> z -> z * z **)

  let div_eucl a b =
    match a with
    | Z0 -> (Z0, Z0)
    | Zpos a' ->
      (match b with
       | Z0 -> (Z0, a)
       | Zpos _ -> pos_div_eucl a' b
       | Zneg b' ->
         let (q0, r) = pos_div_eucl a' (Zpos b') in
         (match r with
          | Z0 -> ((opp q0), Z0)
          | _ -> ((opp (add q0 (Zpos XH))), (add b r))))
    | Zneg a' ->
      (match b with
       | Z0 -> (Z0, a)
       | Zpos _ ->
         let (q0, r) = pos_div_eucl a' b in
         (match r with
          | Z0 -> ((opp q0), Z0)
          | _ -> ((opp (add q0 (Zpos XH))), (sub b r)))
       | Zneg b' -> let (q0, r) = pos_div_eucl a' (Zpos b') in (q0, (opp r)))

  (** val div : z -> z -> z **)

  let div a b =
    let (q0, _) = div_eucl a b in q0

  (** val modulo : z -> z -> z **)

  let modulo a b =
    let (_, r) = div_eucl a b in r

  (** val ggcd : z -> z -> z * (z * z) **)

  let ggcd a b =
    match a with
    | Z0 -> ((abs b), (Z0, (sgn b)))
    | Zpos a0 ->
      (match b with
       | Z0 -> ((abs a), ((sgn a), Z0))
       | Zpos b0 ->
         let (g, p) = Coq_Pos.ggcd a0 b0 in
         let (aa, bb) = p in ((Zpos g), ((Zpos aa), (Zpos bb)))
       | Zneg b0 ->
         let (g, p) = Coq_Pos.ggcd a0 b0 in
         let (aa, bb) = p in ((Zpos g), ((Zpos aa), (Zneg bb))))
    | Zneg a0 ->
      (match b with
       | Z0 -> ((abs a), ((sgn a), Z0))
       | Zpos b0 ->
         let (g, p) = Coq_Pos.ggcd a0 b0 in
         let (aa, bb) = p in ((Zpos g), ((Zneg aa), (Zpos bb)))
       | Zneg b0 ->
         let (g, p) = Coq_Pos.ggcd a0 b0 in
         let (aa, bb) = p in ((Zpos g), ((Zneg aa), (Zneg bb))))

  (** val eq_dec : z -> z -> bool **)

  let eq_dec x y =
    match x with
    | Z0 -> (match y with
             | Z0 -> true
             | _ -> false)
    | Zpos p -> (match y with
                 | Zpos p0 -> Coq_Pos.eq_dec p p0
                 | _ -> false)
    | Zneg p -> (match y with
                 | Zneg p0 -> Coq_Pos.eq_dec p p0
                 | _ -> false)
 end

(** val nth : nat -> 'a1 list -> 'a1 -> 'a1 **)

let rec nth n l default =
  match n with
  | O -> (match l with
          | [] -> default
          | x :: _ -> x)
  | S m -> (match l with
            | [] -> default
            | _ :: t -> nth m t default)

(** val nth_error : 'a1 list -> nat -> 'a1 option **)

let rec nth_error l = function
| O -> (match l with
        | [] -> None
        | x :: _ -> Some x)
| S n0 -> (match l with
           | [] -> None
           | _ :: l0 -> nth_error l0 n0)

(** val rev : 'a1 list -> 'a1 list **)

let rec rev = function
| [] -> []
| x :: l' -> app (rev l') (x :: [])

(** val list_eq_dec : ('a1 -> 'a1 -> bool) -> 'a1 list -> 'a1 list -> bool **)

let rec list_eq_dec eq_dec0 l l' =
  match l with
  | [] -> (match l' with
           | [] -> true
           | _ :: _ -> false)
  | y :: l0 ->
    (match l' with
     | [] -> false
     | a :: l1 -> if eq_dec0 y a then list_eq_dec eq_dec0 l0 l1 else false)

(** val map : ('a1 -> 'a2) -> 'a1 list -> 'a2 list **)

let rec map f = function
| [] -> []
| a :: t -> (f a) :: (map f t)

(** val fold_right : ('a2 -> 'a1 -> 'a1) -> 'a1 -> 'a2 list -> 'a1 **)

let rec fold_right f a0 = function
| [] -> a0
| b :: t -> f b (fold_right f a0 t)

(** val forallb : ('a1 -> bool) -> 'a1 list -> bool **)

let rec forallb f = function
| [] -> true
| a :: l0 -> (&&) (f a) (forallb f l0)

(** val filter : ('a1 -> bool) -> 'a1 list -> 'a1 list **)

let rec filter f = function
| [] -> []
| x :: l0 -> if f x then x :: (filter f l0) else filter f l0

(** val repeat : 'a1 -> nat -> 'a1 list **)

let rec repeat x = function
| O -> []
| S k -> x :: (repeat x k)

type q = { qnum : z; qden : positive }

(** val qcompare : q -> q -> comparison **)

let qcompare p q0 =
  Z.compare (Z.mul p.qnum (Zpos q0.qden)) (Z.mul q0.qnum (Zpos p.qden))

(** val qeq_dec : q -> q -> bool **)

let qeq_dec x y =
  Z.eq_dec (Z.mul x.qnum (Zpos y.qden)) (Z.mul y.qnum (Zpos x.qden))

(** val qplus : q -> q -> q **)

let qplus x y =
  { qnum = (Z.add (Z.mul x.qnum (Zpos y.qden)) (Z.mul y.qnum (Zpos x.qden)));
    qden = (Coq_Pos.mul x.qden y.qden) }

(** val qmult : q -> q -> q **)

let qmult x y =
  { qnum = (Z.mul x.qnum y.qnum); qden = (Coq_Pos.mul x.qden y.qden) }

(** val qopp : q -> q **)

let qopp x =
  { qnum = (Z.opp x.qnum); qden = x.qden }

(** val qinv : q -> q **)

let qinv x =
  match x.qnum with
  | Z0 -> { qnum = Z0; qden = XH }
  | Zpos p -> { qnum = (Zpos x.qden); qden = p }
  | Zneg p -> { qnum = (Zneg x.qden); qden = p }

(** val qred : q -> q **)

let qred q0 =
  let { qnum = q1; qden = q2 } = q0 in
  let (r1, r2) = snd (Z.ggcd q1 (Zpos q2)) in
  { qnum = r1; qden = (Z.to_pos r2) }

type qc = q
  (* singleton inductive, whose constructor was Qcmake *)

(** val this : qc -> q **)

let this q0 =
  q0

(** val q2Qc : q -> qc **)

let q2Qc =
  qred

(** val qccompare : qc -> qc -> comparison **)

let qccompare p q0 =
  qcompare (this p) (this q0)

(** val qc_eq_dec : qc -> qc -> bool **)

let qc_eq_dec x y =
  qeq_dec (this x) (this y)

(** val qcplus : qc -> qc -> qc **)

let qcplus x y =
  q2Qc (qplus (this x) (this y))

(** val qcmult : qc -> qc -> qc **)

let qcmult x y =
  q2Qc (qmult (this x) (this y))

(** val qcopp : qc -> qc **)

let qcopp x =
  q2Qc (qopp (this x))

(** val qcminus : qc -> qc -> qc **)

let qcminus x y =
  qcplus x (qcopp y)

(** val qcinv : qc -> qc **)

let qcinv x =
  q2Qc (qinv (this x))

(** val qcdiv : qc -> qc -> qc **)

let qcdiv x y =
  qcmult x (qcinv y)

type sym = positive

type cfgfield = positive

type binop =
| OAdd
| OSub
| OMul
| ODiv
| OMod
| OAnd
| OOr
| OLt
| OGt
| OLe
| OGe
| OEq

type extfn =
| XSin
| XRelu
| XSelect
| XExpf
| XFmaxf
| XSigmoid
| XSqrt
| XOther

type expr =
| Var of sym
| Int of z
| BoolC of bool
| Real of qc
| Read of sym * expr list
| USub of expr
| BinOp of binop * expr * expr
| Extern of extfn * expr list
| WindowE of sym * wacc list
| Stride of sym * nat
| ReadCfg of cfgfield
and wacc =
| Point of expr
| Interval of expr * expr

type argkind =
| KSize
| KIndex
| KBool
| KStride
| KScalar
| KTensor of expr list * bool

type stmt =
| Assign of sym * expr list * expr
| Reduce of sym * expr list * expr
| WriteCfg of cfgfield * expr
| Pass
| If of expr * stmt list * stmt list
| For of sym * expr * expr * stmt list * bool
| Alloc of sym * expr list
| Call of proc * expr list
| WindowS of sym * expr
and proc =
| Proc of (sym * argkind) list * expr list * stmt list

type err =
| OOB
| BadTrip
| BadSize
| AssertFail
| ShapeMismatch
| TypeErr
| Unbound
| DivZero
| Unsupported
| BadArity

type 'a result =
| Ok of 'a
| Err of err

(** val bind : 'a1 result -> ('a1 -> 'a2 result) -> 'a2 result **)

let bind r f =
  match r with
  | Ok a -> f a
  | Err e -> Err e

type dval = qc option

type value =
| VInt of z
| VBool of bool
| VData of dval

type view = { vloc : positive; voff : z; vdims : (z * z) list }

type binding =
| BVal of value
| BView of view

type env = (sym * binding) list

type heap = (positive * dval list) list

type cfgst = (cfgfield * value) list

type state = { s_env : env; s_heap : heap; s_next : positive; s_cfg : cfgst }

(** val lookup : positive -> (positive * 'a1) list -> 'a1 option **)

let rec lookup k = function
| [] -> None
| p :: r -> let (k', a) = p in if Coq_Pos.eqb k k' then Some a else lookup k r

(** val update :
    positive -> 'a1 -> (positive * 'a1) list -> (positive * 'a1) list **)

let rec update k a = function
| [] -> (k, a) :: []
| p :: r ->
  let (k', a') = p in
  if Coq_Pos.eqb k k' then (k, a) :: r else (k', a') :: (update k a r)

(** val set_nth : nat -> 'a1 -> 'a1 list -> 'a1 list **)

let rec set_nth n a = function
| [] -> []
| x :: r -> (match n with
             | O -> a :: r
             | S n' -> x :: (set_nth n' a r))

(** val dlift2 : (qc -> qc -> qc) -> dval -> dval -> dval **)

let dlift2 f a b =
  match a with
  | Some x -> (match b with
               | Some y -> Some (f x y)
               | None -> None)
  | None -> None

(** val dadd : dval -> dval -> dval **)

let dadd =
  dlift2 qcplus

(** val dsub : dval -> dval -> dval **)

let dsub =
  dlift2 qcminus

(** val dmul : dval -> dval -> dval **)

let dmul =
  dlift2 qcmult

(** val ddiv : dval -> dval -> dval **)

let ddiv a b =
  match a with
  | Some x ->
    (match b with
     | Some y ->
       if qc_eq_dec y (q2Qc { qnum = Z0; qden = XH })
       then None
       else Some (qcdiv x y)
     | None -> None)
  | None -> None

(** val dneg : dval -> dval **)

let dneg = function
| Some x -> Some (qcopp x)
| None -> None

(** val qlt : qc -> qc -> bool **)

let qlt x y =
  match qccompare x y with
  | Lt -> true
  | _ -> false

(** val dmax : dval -> dval -> dval **)

let dmax a b =
  match a with
  | Some x ->
    (match b with
     | Some y -> Some (if qlt x y then y else x)
     | None -> None)
  | None -> None

(** val eval_binop : binop -> value -> value -> value result **)

let eval_binop op a b =
  match op with
  | OAdd ->
    (match a with
     | VInt x ->
       (match b with
        | VInt y -> Ok (VInt (Z.add x y))
        | _ -> Err TypeErr)
     | VBool _ -> Err TypeErr
     | VData x ->
       (match b with
        | VData y -> Ok (VData (dadd x y))
        | _ -> Err TypeErr))
  | OSub ->
    (match a with
     | VInt x ->
       (match b with
        | VInt y -> Ok (VInt (Z.sub x y))
        | _ -> Err TypeErr)
     | VBool _ -> Err TypeErr
     | VData x ->
       (match b with
        | VData y -> Ok (VData (dsub x y))
        | _ -> Err TypeErr))
  | OMul ->
    (match a with
     | VInt x ->
       (match b with
        | VInt y -> Ok (VInt (Z.mul x y))
        | _ -> Err TypeErr)
     | VBool _ -> Err TypeErr
     | VData x ->
       (match b with
        | VData y -> Ok (VData (dmul x y))
        | _ -> Err TypeErr))
  | ODiv ->
    (match a with
     | VInt x ->
       (match b with
        | VInt y -> if Z.ltb Z0 y then Ok (VInt (Z.div x y)) else Err DivZero
        | _ -> Err TypeErr)
     | VBool _ -> Err TypeErr
     | VData x ->
       (match b with
        | VData y -> Ok (VData (ddiv x y))
        | _ -> Err TypeErr))
  | OMod ->
    (match a with
     | VInt x ->
       (match b with
        | VInt y ->
          if Z.ltb Z0 y then Ok (VInt (Z.modulo x y)) else Err DivZero
        | _ -> Err TypeErr)
     | _ -> Err TypeErr)
  | OAnd ->
    (match a with
     | VBool x ->
       (match b with
        | VBool y -> Ok (VBool ((&&) x y))
        | _ -> Err TypeErr)
     | _ -> Err TypeErr)
  | OOr ->
    (match a with
     | VBool x ->
       (match b with
        | VBool y -> Ok (VBool ((||) x y))
        | _ -> Err TypeErr)
     | _ -> Err TypeErr)
  | OLt ->
    (match a with
     | VInt x ->
       (match b with
        | VInt y -> Ok (VBool (Z.ltb x y))
        | _ -> Err TypeErr)
     | _ -> Err TypeErr)
  | OGt ->
    (match a with
     | VInt x ->
       (match b with
        | VInt y -> Ok (VBool (Z.ltb y x))
        | _ -> Err TypeErr)
     | _ -> Err TypeErr)
  | OLe ->
    (match a with
     | VInt x ->
       (match b with
        | VInt y -> Ok (VBool (Z.leb x y))
        | _ -> Err TypeErr)
     | _ -> Err TypeErr)
  | OGe ->
    (match a with
     | VInt x ->
       (match b with
        | VInt y -> Ok (VBool (Z.leb y x))
        | _ -> Err TypeErr)
     | _ -> Err TypeErr)
  | OEq ->
    (match a with
     | VInt x ->
       (match b with
        | VInt y -> Ok (VBool (Z.eqb x y))
        | _ -> Err TypeErr)
     | VBool x ->
       (match b with
        | VBool y -> Ok (VBool (eqb x y))
        | _ -> Err TypeErr)
     | VData _ -> Err TypeErr)

(** val eval_extern : extfn -> value list -> value result **)

let eval_extern f args =
  match f with
  | XRelu ->
    (match args with
     | [] -> Err BadArity
     | v :: l ->
       (match v with
        | VData x ->
          (match l with
           | [] -> Ok (VData (dmax x (Some (q2Qc { qnum = Z0; qden = XH }))))
           | _ :: _ -> Err BadArity)
        | _ -> Err BadArity))
  | XSelect ->
    (match args with
     | [] -> Err BadArity
     | v0 :: l ->
       (match v0 with
        | VData d ->
          (match d with
           | Some x ->
             (match l with
              | [] -> Err BadArity
              | v1 :: l0 ->
                (match v1 with
                 | VData d0 ->
                   (match d0 with
                    | Some v ->
                      (match l0 with
                       | [] -> Err BadArity
                       | v2 :: l1 ->
                         (match v2 with
                          | VData y ->
                            (match l1 with
                             | [] -> Err BadArity
                             | v3 :: l2 ->
                               (match v3 with
                                | VData z0 ->
                                  (match l2 with
                                   | [] ->
                                     Ok (VData (if qlt x v then y else z0))
                                   | _ :: _ -> Err BadArity)
                                | _ -> Err BadArity))
                          | _ -> Err BadArity))
                    | None ->
                      (match l0 with
                       | [] -> Err BadArity
                       | v :: l1 ->
                         (match v with
                          | VData _ ->
                            (match l1 with
                             | [] -> Err BadArity
                             | v2 :: l2 ->
                               (match v2 with
                                | VData _ ->
                                  (match l2 with
                                   | [] -> Ok (VData None)
                                   | _ :: _ -> Err BadArity)
                                | _ -> Err BadArity))
                          | _ -> Err BadArity)))
                 | _ -> Err BadArity))
           | None ->
             (match l with
              | [] -> Err BadArity
              | v :: l0 ->
                (match v with
                 | VData _ ->
                   (match l0 with
                    | [] -> Err BadArity
                    | v1 :: l1 ->
                      (match v1 with
                       | VData _ ->
                         (match l1 with
                          | [] -> Err BadArity
                          | v2 :: l2 ->
                            (match v2 with
                             | VData _ ->
                               (match l2 with
                                | [] -> Ok (VData None)
                                | _ :: _ -> Err BadArity)
                             | _ -> Err BadArity))
                       | _ -> Err BadArity))
                 | _ -> Err BadArity)))
        | _ -> Err BadArity))
  | XFmaxf ->
    (match args with
     | [] -> Err BadArity
     | v :: l ->
       (match v with
        | VData x ->
          (match l with
           | [] -> Err BadArity
           | v0 :: l0 ->
             (match v0 with
              | VData y ->
                (match l0 with
                 | [] -> Ok (VData (dmax x y))
                 | _ :: _ -> Err BadArity)
              | _ -> Err BadArity))
        | _ -> Err BadArity))
  | _ -> Err Unsupported

(** val flat_index : (z * z) list -> z list -> z -> z result **)

let rec flat_index dims idx acc =
  match dims with
  | [] -> (match idx with
           | [] -> Ok acc
           | _ :: _ -> Err BadArity)
  | p :: dr ->
    let (n, s) = p in
    (match idx with
     | [] -> Err BadArity
     | i :: ir ->
       if (&&) (Z.leb Z0 i) (Z.ltb i n)
       then flat_index dr ir (Z.add acc (Z.mul i s))
       else Err OOB)

(** val cell_read : heap -> view -> z list -> dval result **)

let cell_read h w idx =
  bind (flat_index w.vdims idx w.voff) (fun off ->
    match lookup w.vloc h with
    | Some cells ->
      if (&&) (Z.leb Z0 off) (Z.ltb off (Z.of_nat (length cells)))
      then Ok (nth (Z.to_nat off) cells None)
      else Err OOB
    | None -> Err Unbound)

(** val cell_write : heap -> view -> z list -> dval -> heap result **)

let cell_write h w idx d =
  bind (flat_index w.vdims idx w.voff) (fun off ->
    match lookup w.vloc h with
    | Some cells ->
      if (&&) (Z.leb Z0 off) (Z.ltb off (Z.of_nat (length cells)))
      then Ok (update w.vloc (set_nth (Z.to_nat off) d cells) h)
      else Err OOB
    | None -> Err Unbound)

type wacc_v =
| PointV of z
| IntervalV of z * z

(** val apply_window :
    (z * z) list -> wacc_v list -> z -> (z * (z * z) list) result **)

let rec apply_window dims acc off =
  match dims with
  | [] -> (match acc with
           | [] -> Ok (off, [])
           | _ :: _ -> Err BadArity)
  | p :: dr ->
    let (n, s) = p in
    (match acc with
     | [] -> Err BadArity
     | w :: ar ->
       (match w with
        | PointV i ->
          if (&&) (Z.leb Z0 i) (Z.ltb i n)
          then apply_window dr ar (Z.add off (Z.mul i s))
          else Err OOB
        | IntervalV (lo, hi) ->
          if (&&) ((&&) (Z.leb Z0 lo) (Z.leb lo hi)) (Z.leb hi n)
          then bind (apply_window dr ar (Z.add off (Z.mul lo s))) (fun r ->
                 let (off', dims') = r in
                 Ok (off', (((Z.sub hi lo), s) :: dims')))
          else Err OOB))

(** val dense_dims : z list -> (z * z) list **)

let rec dense_dims = function
| [] -> []
| n :: r -> (n, (fold_right Z.mul (Zpos XH) r)) :: (dense_dims r)

(** val as_int : value -> z result **)

let as_int = function
| VInt z0 -> Ok z0
| _ -> Err TypeErr

(** val as_bool : value -> bool result **)

let as_bool = function
| VBool b -> Ok b
| _ -> Err TypeErr

(** val as_data : value -> dval result **)

let as_data = function
| VData d -> Ok d
| _ -> Err TypeErr

(** val get_view : state -> sym -> view result **)

let get_view st x =
  match lookup x st.s_env with
  | Some b -> (match b with
               | BVal _ -> Err TypeErr
               | BView w -> Ok w)
  | None -> Err Unbound

(** val eval : state -> expr -> value result **)

let rec eval st = function
| Var x ->
  (match lookup x st.s_env with
   | Some b -> (match b with
                | BVal v -> Ok v
                | BView _ -> Err TypeErr)
   | None -> Err Unbound)
| Int z0 -> Ok (VInt z0)
| BoolC b -> Ok (VBool b)
| Real q0 -> Ok (VData (Some q0))
| Read (x, idx) ->
  bind (get_view st x) (fun w ->
    bind
      (let rec evs = function
       | [] -> Ok []
       | a :: r ->
         bind (eval st a) (fun v ->
           bind (as_int v) (fun z0 -> bind (evs r) (fun zs -> Ok (z0 :: zs))))
       in evs idx) (fun is ->
      bind (cell_read st.s_heap w is) (fun d -> Ok (VData d))))
| USub a ->
  bind (eval st a) (fun v ->
    match v with
    | VInt z0 -> Ok (VInt (Z.opp z0))
    | VBool _ -> Err TypeErr
    | VData d -> Ok (VData (dneg d)))
| BinOp (op, a, b) ->
  bind (eval st a) (fun x -> bind (eval st b) (fun y -> eval_binop op x y))
| Extern (f, args) ->
  bind
    (let rec evs = function
     | [] -> Ok []
     | a :: r ->
       bind (eval st a) (fun v -> bind (evs r) (fun vs -> Ok (v :: vs)))
     in evs args) (fun vs -> eval_extern f vs)
| WindowE (_, _) -> Err TypeErr
| Stride (x, d) ->
  bind (get_view st x) (fun w ->
    match nth_error w.vdims d with
    | Some p -> let (_, s) = p in Ok (VInt s)
    | None -> Err BadArity)
| ReadCfg c ->
  (match lookup c st.s_cfg with
   | Some v -> Ok v
   | None -> Err Unbound)

(** val eval_ints : state -> expr list -> z list result **)

let rec eval_ints st = function
| [] -> Ok []
| a :: r ->
  bind (eval st a) (fun v ->
    bind (as_int v) (fun z0 ->
      bind (eval_ints st r) (fun zs -> Ok (z0 :: zs))))

(** val eval_waccs : state -> wacc list -> wacc_v list result **)

let rec eval_waccs st = function
| [] -> Ok []
| w :: r ->
  (match w with
   | Point e ->
     bind (eval st e) (fun v ->
       bind (as_int v) (fun z0 ->
         bind (eval_waccs st r) (fun rs -> Ok ((PointV z0) :: rs))))
   | Interval (lo, hi) ->
     bind (eval st lo) (fun v ->
       bind (as_int v) (fun a ->
         bind (eval st hi) (fun v' ->
           bind (as_int v') (fun b ->
             bind (eval_waccs st r) (fun rs -> Ok ((IntervalV (a, b)) :: rs)))))))

(** val eval_view : state -> expr -> view result **)

let eval_view st = function
| Read (x, idx) ->
  (match idx with
   | [] -> get_view st x
   | _ :: _ ->
     bind (get_view st x) (fun w ->
       bind (eval_ints st idx) (fun is ->
         bind (flat_index w.vdims is w.voff) (fun off -> Ok { vloc = w.vloc;
           voff = off; vdims = [] }))))
| WindowE (x, acc) ->
  bind (get_view st x) (fun w ->
    bind (eval_waccs st acc) (fun av ->
      bind (apply_window w.vdims av w.voff) (fun r ->
        let (off, dims) = r in Ok { vloc = w.vloc; voff = off; vdims = dims })))
| _ -> Err TypeErr

(** val bind_var : sym -> binding -> state -> state **)

let bind_var x b st =
  { s_env = ((x, b) :: st.s_env); s_heap = st.s_heap; s_next = st.s_next;
    s_cfg = st.s_cfg }

(** val with_env : env -> state -> state **)

let with_env e st =
  { s_env = e; s_heap = st.s_heap; s_next = st.s_next; s_cfg = st.s_cfg }

(** val with_heap : heap -> state -> state **)

let with_heap h st =
  { s_env = st.s_env; s_heap = h; s_next = st.s_next; s_cfg = st.s_cfg }

(** val alloc_block : nat -> state -> positive * state **)

let alloc_block n st =
  (st.s_next, { s_env = st.s_env; s_heap = ((st.s_next,
    (repeat None n)) :: st.s_heap); s_next = (Coq_Pos.succ st.s_next);
    s_cfg = st.s_cfg })

(** val all_pos : z list -> bool **)

let rec all_pos = function
| [] -> true
| z0 :: r -> (&&) (Z.ltb Z0 z0) (all_pos r)

(** val bind_args :
    (sym * argkind) list -> binding list -> state -> state result **)

let rec bind_args formals actuals callee =
  match formals with
  | [] -> (match actuals with
           | [] -> Ok callee
           | _ :: _ -> Err BadArity)
  | p :: fr ->
    let (x, k) = p in
    (match actuals with
     | [] -> Err BadArity
     | a :: ar ->
       (match k with
        | KSize ->
          (match a with
           | BVal v ->
             (match v with
              | VInt z0 ->
                if Z.ltb Z0 z0
                then bind_args fr ar (bind_var x a callee)
                else Err BadSize
              | _ -> Err TypeErr)
           | BView _ -> Err TypeErr)
        | KBool ->
          (match a with
           | BVal v ->
             (match v with
              | VBool _ -> bind_args fr ar (bind_var x a callee)
              | _ -> Err TypeErr)
           | BView _ -> Err TypeErr)
        | KScalar ->
          (match a with
           | BVal _ -> Err TypeErr
           | BView w ->
             (match w.vdims with
              | [] -> bind_args fr ar (bind_var x a callee)
              | _ :: _ -> Err ShapeMismatch))
        | KTensor (shape, _) ->
          (match a with
           | BVal _ -> Err TypeErr
           | BView w ->
             bind (eval_ints callee shape) (fun sh ->
               if all_pos sh
               then if list_eq_dec Z.eq_dec sh (map fst w.vdims)
                    then bind_args fr ar (bind_var x a callee)
                    else Err ShapeMismatch
               else Err BadSize))
        | _ ->
          (match a with
           | BVal v ->
             (match v with
              | VInt _ -> bind_args fr ar (bind_var x a callee)
              | _ -> Err TypeErr)
           | BView _ -> Err TypeErr)))

(** val check_preds : state -> expr list -> unit result **)

let rec check_preds st = function
| [] -> Ok ()
| p :: r ->
  bind (eval st p) (fun v ->
    bind (as_bool v) (fun b -> if b then check_preds st r else Err AssertFail))

(** val eval_actual : state -> argkind -> expr -> binding result **)

let eval_actual st k e =
  match k with
  | KScalar -> bind (eval_view st e) (fun w -> Ok (BView w))
  | KTensor (_, _) -> bind (eval_view st e) (fun w -> Ok (BView w))
  | _ -> bind (eval st e) (fun v -> Ok (BVal v))

(** val eval_actuals :
    state -> (sym * argkind) list -> expr list -> binding list result **)

let rec eval_actuals st formals es =
  match formals with
  | [] -> (match es with
           | [] -> Ok []
           | _ :: _ -> Err BadArity)
  | p :: fr ->
    let (_, k) = p in
    (match es with
     | [] -> Err BadArity
     | e :: er ->
       bind (eval_actual st k e) (fun b ->
         bind (eval_actuals st fr er) (fun bs -> Ok (b :: bs))))

type inarg =
| InVal of value
| InBuf of z * (z * z) list * dval list

type input = { in_args : inarg list; in_cfg : cfgst }

(** val load_inputs : inarg list -> state -> binding list * state **)

let rec load_inputs ins st =
  match ins with
  | [] -> ([], st)
  | i :: r ->
    (match i with
     | InVal v -> let (bs, st') = load_inputs r st in (((BVal v) :: bs), st')
     | InBuf (off, dims, cells) ->
       let loc = st.s_next in
       let st1 = { s_env = st.s_env; s_heap = ((loc, cells) :: st.s_heap);
         s_next = (Coq_Pos.succ loc); s_cfg = st.s_cfg }
       in
       let (bs, st') = load_inputs r st1 in
       (((BView { vloc = loc; voff = off; vdims = dims }) :: bs), st'))

(** val collect_bufs : binding list -> heap -> dval list list **)

let rec collect_bufs bs h =
  match bs with
  | [] -> []
  | b :: r ->
    (match b with
     | BVal _ -> collect_bufs r h
     | BView w ->
       (match lookup w.vloc h with
        | Some c -> c
        | None -> []) :: (collect_bufs r h))

(** val view_span : (z * z) list -> (z * z) option **)

let rec view_span = function
| [] -> Some (Z0, Z0)
| p :: r ->
  let (n, s) = p in
  if Z.ltb Z0 n
  then (match view_span r with
        | Some p0 ->
          let (lo, hi) = p0 in
          let e = Z.mul (Z.sub n (Zpos XH)) s in
          Some ((Z.add lo (Z.min Z0 e)), (Z.add hi (Z.max Z0 e)))
        | None -> None)
  else None

(** val inbuf_ok : inarg -> bool **)

let inbuf_ok = function
| InVal _ -> true
| InBuf (off, dims, cells) ->
  (match view_span dims with
   | Some p ->
     let (lo, hi) = p in
     (&&) (Z.leb Z0 (Z.add off lo))
       (Z.ltb (Z.add off hi) (Z.of_nat (length cells)))
   | None -> false)

type ekind =
| KRead
| KWrite
| KReduce

type cell =
| CMem of positive * z
| CCfg of cfgfield

type event = ekind * cell

type parrec = { pr_iter : sym; pr_depth : nat; pr_sub : bool;
                pr_bound : event list; pr_iters : (z * event list) list }

type trace = event list * parrec list

(** val tnil : trace **)

let tnil =
  ([], [])

(** val tapp : trace -> trace -> trace **)

let tapp a b =
  ((app (fst a) (fst b)), (app (snd a) (snd b)))

(** val tev : event list -> trace **)

let tev l =
  (l, [])

(** val cell_of : state -> sym -> expr list -> cell list **)

let cell_of st x idx =
  match get_view st x with
  | Ok w ->
    (match eval_ints st idx with
     | Ok is ->
       (match flat_index w.vdims is w.voff with
        | Ok off -> (CMem (w.vloc, off)) :: []
        | Err _ -> [])
     | Err _ -> [])
  | Err _ -> []

(** val reads_e : state -> expr -> event list **)

let rec reads_e st = function
| Read (x, idx) ->
  app
    (let rec go = function
     | [] -> []
     | a :: r -> app (reads_e st a) (go r)
     in go idx) (map (fun x0 -> (KRead, x0)) (cell_of st x idx))
| USub a -> reads_e st a
| BinOp (_, a, b) -> app (reads_e st a) (reads_e st b)
| Extern (_, args) ->
  let rec go = function
  | [] -> []
  | a :: r -> app (reads_e st a) (go r)
  in go args
| WindowE (_, acc) ->
  let rec go = function
  | [] -> []
  | w :: r ->
    (match w with
     | Point a -> app (reads_e st a) (go r)
     | Interval (lo, hi) -> app (reads_e st lo) (app (reads_e st hi) (go r)))
  in go acc
| ReadCfg c -> (KRead, (CCfg c)) :: []
| _ -> []

(** val reads_list : state -> expr list -> event list **)

let rec reads_list st = function
| [] -> []
| a :: r -> app (reads_e st a) (reads_list st r)

(** val reads_view : state -> expr -> event list **)

let reads_view st e = match e with
| Read (_, idx) -> reads_list st idx
| WindowE (_, _) -> reads_e st e
| _ -> []

(** val reads_actual : state -> argkind -> expr -> event list **)

let reads_actual st k e =
  match k with
  | KScalar -> reads_view st e
  | KTensor (_, _) -> reads_view st e
  | _ -> reads_e st e

(** val reads_actuals :
    state -> (sym * argkind) list -> expr list -> event list **)

let rec reads_actuals st formals es =
  match formals with
  | [] -> []
  | p :: fr ->
    let (_, k) = p in
    (match es with
     | [] -> []
     | e :: er -> app (reads_actual st k e) (reads_actuals st fr er))

(** val reads_bind_args :
    (sym * argkind) list -> binding list -> state -> event list **)

let rec reads_bind_args formals actuals callee =
  match formals with
  | [] -> []
  | p :: fr ->
    let (x, k) = p in
    (match actuals with
     | [] -> []
     | a :: ar ->
       app
         (match k with
          | KTensor (shape, _) -> reads_list callee shape
          | _ -> []) (reads_bind_args fr ar (bind_var x a callee)))

(** val seqZ : z -> nat -> z list **)

let rec seqZ k = function
| O -> []
| S n' -> k :: (seqZ (Z.add k (Zpos XH)) n')

(** val iter_list_fp :
    z list -> (z -> state -> (state * trace) result) -> state ->
    ((state * trace) * (z * event list) list) result **)

let rec iter_list_fp ks body st =
  match ks with
  | [] -> Ok ((st, tnil), [])
  | k :: r ->
    bind (body k st) (fun r1 ->
      let (st', t) = r1 in
      bind (iter_list_fp r body st') (fun r2 ->
        let (p, its) = r2 in
        let (st'', t2) = p in Ok ((st'', (tapp t t2)), ((k, (fst t)) :: its))))

(** val exec_fp :
    (z list -> z list) -> nat -> bool -> stmt -> state -> (state * trace)
    result **)

let rec exec_fp ord d sub0 s st =
  match s with
  | Assign (x, idx, rhs) ->
    bind (get_view st x) (fun w ->
      bind (eval_ints st idx) (fun is ->
        bind (eval st rhs) (fun v ->
          bind (as_data v) (fun dv ->
            bind (cell_write st.s_heap w is dv) (fun h -> Ok
              ((with_heap h st),
              (tev
                (app (reads_list st idx)
                  (app (reads_e st rhs)
                    (map (fun x0 -> (KWrite, x0)) (cell_of st x idx)))))))))))
  | Reduce (x, idx, rhs) ->
    bind (get_view st x) (fun w ->
      bind (eval_ints st idx) (fun is ->
        bind (eval st rhs) (fun v ->
          bind (as_data v) (fun dv ->
            bind (cell_read st.s_heap w is) (fun old ->
              bind (cell_write st.s_heap w is (dadd old dv)) (fun h -> Ok
                ((with_heap h st),
                (tev
                  (app (reads_list st idx)
                    (app (reads_e st rhs)
                      (map (fun x0 -> (KReduce, x0)) (cell_of st x idx))))))))))))
  | WriteCfg (c, rhs) ->
    bind (eval st rhs) (fun v -> Ok ({ s_env = st.s_env; s_heap = st.s_heap;
      s_next = st.s_next; s_cfg = (update c v st.s_cfg) },
      (tev (app (reads_e st rhs) ((KWrite, (CCfg c)) :: [])))))
  | Pass -> Ok (st, tnil)
  | If (c, body, orelse) ->
    bind (eval st c) (fun v ->
      bind (as_bool v) (fun b ->
        bind
          (let rec go l st0 =
             match l with
             | [] -> Ok (st0, tnil)
             | s' :: r ->
               bind (exec_fp ord d sub0 s' st0) (fun r1 ->
                 let (st1, t1) = r1 in
                 bind (go r st1) (fun r2 ->
                   let (st2, t2) = r2 in Ok (st2, (tapp t1 t2))))
           in go (if b then body else orelse) st) (fun r ->
          let (st', t) = r in
          Ok ((with_env st.s_env st'), (tapp (tev (reads_e st c)) t)))))
  | For (i, lo, hi, body, par) ->
    bind (eval st lo) (fun vl ->
      bind (as_int vl) (fun l ->
        bind (eval st hi) (fun vh ->
          bind (as_int vh) (fun h ->
            if Z.ltb h l
            then Err BadTrip
            else bind
                   (iter_list_fp
                     (if par
                      then ord (seqZ l (Z.to_nat (Z.sub h l)))
                      else seqZ l (Z.to_nat (Z.sub h l))) (fun k st0 ->
                     bind
                       (let rec go l0 st1 =
                          match l0 with
                          | [] -> Ok (st1, tnil)
                          | s' :: r ->
                            bind (exec_fp ord (S d) sub0 s' st1) (fun r1 ->
                              let (st2, t1) = r1 in
                              bind (go r st2) (fun r2 ->
                                let (st3, t2) = r2 in Ok (st3, (tapp t1 t2))))
                        in go body (bind_var i (BVal (VInt k)) st0))
                       (fun r ->
                       let (st', t) = r in Ok ((with_env st0.s_env st'), t)))
                     st) (fun r ->
                   let (p, its) = r in
                   let (st', t) = p in
                   let bev = app (reads_e st lo) (reads_e st hi) in
                   Ok (st', ((app bev (fst t)),
                   (app
                     (if par
                      then { pr_iter = i; pr_depth = d; pr_sub = sub0;
                             pr_bound = bev; pr_iters = its } :: []
                      else []) (snd t)))))))))
  | Alloc (x, shape) ->
    bind (eval_ints st shape) (fun sh ->
      if all_pos sh
      then let n = Z.to_nat (fold_right Z.mul (Zpos XH) sh) in
           let (loc, st') = alloc_block n st in
           Ok
           ((bind_var x (BView { vloc = loc; voff = Z0; vdims =
              (dense_dims sh) }) st'), (tev (reads_list st shape)))
      else Err BadSize)
  | Call (f, args) ->
    let Proc (formals, preds, body) = f in
    bind (eval_actuals st formals args) (fun acts ->
      bind (bind_args formals acts (with_env [] st)) (fun callee ->
        bind (check_preds callee preds) (fun _ ->
          bind
            (let rec go l st0 =
               match l with
               | [] -> Ok (st0, tnil)
               | s' :: r ->
                 bind (exec_fp ord d true s' st0) (fun r1 ->
                   let (st1, t1) = r1 in
                   bind (go r st1) (fun r2 ->
                     let (st2, t2) = r2 in Ok (st2, (tapp t1 t2))))
             in go body callee) (fun r ->
            let (st', t) = r in
            Ok ((with_env st.s_env st'),
            (tapp
              (tev
                (app (reads_actuals st formals args)
                  (app (reads_bind_args formals acts (with_env [] st))
                    (reads_list callee preds)))) t))))))
  | WindowS (x, rhs) ->
    bind (eval_view st rhs) (fun w -> Ok ((bind_var x (BView w) st),
      (tev (reads_view st rhs))))

(** val exec_list_fp :
    (z list -> z list) -> nat -> bool -> stmt list -> state ->
    (state * trace) result **)

let rec exec_list_fp ord d sub0 l st =
  match l with
  | [] -> Ok (st, tnil)
  | s' :: r ->
    bind (exec_fp ord d sub0 s' st) (fun r1 ->
      let (st1, t1) = r1 in
      bind (exec_list_fp ord d sub0 r st1) (fun r2 ->
        let (st2, t2) = r2 in Ok (st2, (tapp t1 t2))))

type outcome_fp =
| FInvalid of err
| FFails of err
| FDone of dval list list * cfgst * event list * parrec list

(** val run_fp : (z list -> z list) -> proc -> input -> outcome_fp **)

let run_fp ord p inp =
  let Proc (formals, preds, body) = p in
  if forallb inbuf_ok inp.in_args
  then let st0 = { s_env = []; s_heap = []; s_next = XH; s_cfg = inp.in_cfg }
       in
       let (bs, st1) = load_inputs inp.in_args st0 in
       (match bind_args formals bs st1 with
        | Ok st2 ->
          (match check_preds st2 preds with
           | Ok _ ->
             (match exec_list_fp ord O false body st2 with
              | Ok a ->
                let (st3, t) = a in
                FDone ((collect_bufs bs st3.s_heap), st3.s_cfg, (fst t),
                (snd t))
              | Err e -> FFails e)
           | Err e -> FInvalid e)
        | Err e -> FInvalid e)
  else FInvalid OOB

(** val is_mod : ekind -> bool **)

let is_mod = function
| KRead -> false
| _ -> true

(** val cell_eqb : cell -> cell -> bool **)

let cell_eqb a b =
  match a with
  | CMem (l, o) ->
    (match b with
     | CMem (l', o') -> (&&) (Coq_Pos.eqb l l') (Z.eqb o o')
     | CCfg _ -> false)
  | CCfg f ->
    (match b with
     | CMem (_, _) -> false
     | CCfg f' -> Coq_Pos.eqb f f')

(** val conflict : event -> event -> bool **)

let conflict e1 e2 =
  (&&) (cell_eqb (snd e1) (snd e2)) ((||) (is_mod (fst e1)) (is_mod (fst e2)))

(** val conflict_with : event -> event list -> event option **)

let rec conflict_with e = function
| [] -> None
| e' :: r -> if conflict e e' then Some e' else conflict_with e r

(** val find_conflict : event list -> event list -> (event * event) option **)

let rec find_conflict a b =
  match a with
  | [] -> None
  | e :: r ->
    (match conflict_with e b with
     | Some e' -> Some (e, e')
     | None -> find_conflict r b)

(** val conflict_later :
    z -> event list -> (z * event list) list -> (((z * z) * event) * event)
    option **)

let rec conflict_later i ei = function
| [] -> None
| p :: r ->
  let (j, ej) = p in
  (match find_conflict ei ej with
   | Some p0 -> let (e1, e2) = p0 in Some (((i, j), e1), e2)
   | None -> conflict_later i ei r)

(** val iters_conflict :
    (z * event list) list -> (((z * z) * event) * event) option **)

let rec iters_conflict = function
| [] -> None
| p :: r ->
  let (i, ei) = p in
  (match conflict_later i ei r with
   | Some c -> Some c
   | None -> iters_conflict r)

(** val mods : event list -> event list **)

let mods l =
  filter (fun e -> is_mod (fst e)) l

(** val bound_conflict :
    event list -> (z * event list) list -> ((z * event) * event) option **)

let rec bound_conflict bev = function
| [] -> None
| p :: r ->
  let (i, ei) = p in
  (match find_conflict bev (mods ei) with
   | Some p0 -> let (e1, e2) = p0 in Some ((i, e1), e2)
   | None -> bound_conflict bev r)

type race =
| RaceIters of parrec * z * z * event * event
| RaceBound of parrec * z * event * event

(** val par_race : parrec -> race option **)

let par_race pr =
  match iters_conflict pr.pr_iters with
  | Some p ->
    let (p0, e2) = p in
    let (p1, e1) = p0 in
    let (i, j) = p1 in Some (RaceIters (pr, i, j, e1, e2))
  | None ->
    (match bound_conflict pr.pr_bound pr.pr_iters with
     | Some p ->
       let (p0, e) = p in let (i, eb) = p0 in Some (RaceBound (pr, i, eb, e))
     | None -> None)

(** val first_race : parrec list -> race option **)

let rec first_race = function
| [] -> None
| pr :: r -> (match par_race pr with
              | Some x -> Some x
              | None -> first_race r)

(** val races : parrec list -> bool **)

let races prs =
  match first_race prs with
  | Some _ -> true
  | None -> false

(** val nontrivial_pars : parrec list -> nat **)

let nontrivial_pars prs =
  length (filter (fun pr -> Nat.leb (S (S O)) (length pr.pr_iters)) prs)

(** val mk_qc : z -> positive -> qc **)

let mk_qc n d =
  q2Qc { qnum = n; qden = d }

(** val qc_num : qc -> z **)

let qc_num q0 =
  (this q0).qnum

(** val qc_den : qc -> positive **)

let qc_den q0 =
  (this q0).qden

(** val ord_seq : z list -> z list **)

let ord_seq ks =
  ks

(** val ord_rev : z list -> z list **)

let ord_rev =
  rev

(** val ord_rot : z list -> z list **)

let ord_rot = function
| [] -> []
| k :: r -> app r (k :: [])
