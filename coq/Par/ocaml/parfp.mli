
type nat =
| O
| S of nat

val fst : ('a1 * 'a2) -> 'a1

val snd : ('a1 * 'a2) -> 'a2

val length : 'a1 list -> nat

val app : 'a1 list -> 'a1 list -> 'a1 list

type comparison =
| Eq
| Lt
| Gt

val compOpp : comparison -> comparison

val add : nat -> nat -> nat

type positive =
| XI of positive
| XO of positive
| XH

type z =
| Z0
| Zpos of positive
| Zneg of positive

val eqb : bool -> bool -> bool

module Nat :
 sig
  val leb : nat -> nat -> bool
 end

module Pos :
 sig
  type mask =
  | IsNul
  | IsPos of positive
  | IsNeg
 end

module Coq_Pos :
 sig
  val succ : positive -> positive

  val add : positive -> positive -> positive

  val add_carry : positive -> positive -> positive

  val pred_double : positive -> positive

  type mask = Pos.mask =
  | IsNul
  | IsPos of positive
  | IsNeg

  val succ_double_mask : mask -> mask

  val double_mask : mask -> mask

  val double_pred_mask : positive -> mask

  val sub_mask : positive -> positive -> mask

  val sub_mask_carry : positive -> positive -> mask

  val sub : positive -> positive -> positive

  val mul : positive -> positive -> positive

  val size_nat : positive -> nat

  val compare_cont : comparison -> positive -> positive -> comparison

  val compare : positive -> positive -> comparison

  val eqb : positive -> positive -> bool

  val ggcdn : nat -> positive -> positive -> positive * (positive * positive)

  val ggcd : positive -> positive -> positive * (positive * positive)

  val iter_op : ('a1 -> 'a1 -> 'a1) -> positive -> 'a1 -> 'a1

  val to_nat : positive -> nat

  val of_succ_nat : nat -> positive

  val eq_dec : positive -> positive -> bool
 end

module Z :
 sig
  val double : z -> z

  val succ_double : z -> z

  val pred_double : z -> z

  val pos_sub : positive -> positive -> z

  val add : z -> z -> z

  val opp : z -> z

  val sub : z -> z -> z

  val mul : z -> z -> z

  val compare : z -> z -> comparison

  val sgn : z -> z

  val leb : z -> z -> bool

  val ltb : z -> z -> bool

  val eqb : z -> z -> bool

  val max : z -> z -> z

  val min : z -> z -> z

  val abs : z -> z

  val to_nat : z -> nat

  val of_nat : nat -> z

  val to_pos : z -> positive

  val pos_div_eucl : positive -> z -> z * z

  val div_eucl : z -> z -> z * z

  val div : z -> z -> z

  val modulo : z -> z -> z

  val ggcd : z -> z -> z * (z * z)

  val eq_dec : z -> z -> bool
 end

val nth : nat -> 'a1 list -> 'a1 -> 'a1

val nth_error : 'a1 list -> nat -> 'a1 option

val rev : 'a1 list -> 'a1 list

val list_eq_dec : ('a1 -> 'a1 -> bool) -> 'a1 list -> 'a1 list -> bool

val map : ('a1 -> 'a2) -> 'a1 list -> 'a2 list

val fold_right : ('a2 -> 'a1 -> 'a1) -> 'a1 -> 'a2 list -> 'a1

val forallb : ('a1 -> bool) -> 'a1 list -> bool

val filter : ('a1 -> bool) -> 'a1 list -> 'a1 list

val repeat : 'a1 -> nat -> 'a1 list

type q = { qnum : z; qden : positive }

val qcompare : q -> q -> comparison

val qeq_dec : q -> q -> bool

val qplus : q -> q -> q

val qmult : q -> q -> q

val qopp : q -> q

val qinv : q -> q

val qred : q -> q

type qc = q
  (* singleton inductive, whose constructor was Qcmake *)

val this : qc -> q

val q2Qc : q -> qc

val qccompare : qc -> qc -> comparison

val qc_eq_dec : qc -> qc -> bool

val qcplus : qc -> qc -> qc

val qcmult : qc -> qc -> qc

val qcopp : qc -> qc

val qcminus : qc -> qc -> qc

val qcinv : qc -> qc

val qcdiv : qc -> qc -> qc

type sym = positive

type cfgfield = positive

type binop =
| OAdd
| OSub
| OMul
| ODiv
| OMod
| OAnd
| OOr
| OLt
| OGt
| OLe
| OGe
| OEq

type extfn =
| XSin
| XRelu
| XSelect
| XExpf
| XFmaxf
| XSigmoid
| XSqrt
| XOther

type expr =
| Var of sym
| Int of z
| BoolC of bool
| Real of qc
| Read of sym * expr list
| USub of expr
| BinOp of binop * expr * expr
| Extern of extfn * expr list
| WindowE of sym * wacc list
| Stride of sym * nat
| ReadCfg of cfgfield
and wacc =
| Point of expr
| Interval of expr * expr

type argkind =
| KSize
| KIndex
| KBool
| KStride
| KScalar
| KTensor of expr list * bool

type stmt =
| Assign of sym * expr list * expr
| Reduce of sym * expr list * expr
| WriteCfg of cfgfield * expr
| Pass
| If of expr * stmt list * stmt list
| For of sym * expr * expr * stmt list * bool
| Alloc of sym * expr list
| Call of proc * expr list
| WindowS of sym * expr
and proc =
| Proc of (sym * argkind) list * expr list * stmt list

type err =
| OOB
| BadTrip
| BadSize
| AssertFail
| ShapeMismatch
| TypeErr
| Unbound
| DivZero
| Unsupported
| BadArity

type 'a result =
| Ok of 'a
| Err of err

val bind : 'a1 result -> ('a1 -> 'a2 result) -> 'a2 result

type dval = qc option

type value =
| VInt of z
| VBool of bool
| VData of dval

type view = { vloc : positive; voff : z; vdims : (z * z) list }

type binding =
| BVal of value
| BView of view

type env = (sym * binding) list

type heap = (positive * dval list) list

type cfgst = (cfgfield * value) list

type state = { s_env : env; s_heap : heap; s_next : positive; s_cfg : cfgst }

val lookup : positive -> (positive * 'a1) list -> 'a1 option

val update : positive -> 'a1 -> (positive * 'a1) list -> (positive * 'a1) list

val set_nth : nat -> 'a1 -> 'a1 list -> 'a1 list

val dlift2 : (qc -> qc -> qc) -> dval -> dval -> dval

val dadd : dval -> dval -> dval

val dsub : dval -> dval -> dval

val dmul : dval -> dval -> dval

val ddiv : dval -> dval -> dval

val dneg : dval -> dval

val qlt : qc -> qc -> bool

val dmax : dval -> dval -> dval

val eval_binop : binop -> value -> value -> value result

val eval_extern : extfn -> value list -> value result

val flat_index : (z * z) list -> z list -> z -> z result

val cell_read : heap -> view -> z list -> dval result

val cell_write : heap -> view -> z list -> dval -> heap result

type wacc_v =
| PointV of z
| IntervalV of z * z

val apply_window :
  (z * z) list -> wacc_v list -> z -> (z * (z * z) list) result

val dense_dims : z list -> (z * z) list

val as_int : value -> z result

val as_bool : value -> bool result

val as_data : value -> dval result

val get_view : state -> sym -> view result

val eval : state -> expr -> value result

val eval_ints : state -> expr list -> z list result

val eval_waccs : state -> wacc list -> wacc_v list result

val eval_view : state -> expr -> view result

val bind_var : sym -> binding -> state -> state

val with_env : env -> state -> state

val with_heap : heap -> state -> state

val alloc_block : nat -> state -> positive * state

val all_pos : z list -> bool

val bind_args : (sym * argkind) list -> binding list -> state -> state result

val check_preds : state -> expr list -> unit result

val eval_actual : state -> argkind -> expr -> binding result

val eval_actuals :
  state -> (sym * argkind) list -> expr list -> binding list result

type inarg =
| InVal of value
| InBuf of z * (z * z) list * dval list

type input = { in_args : inarg list; in_cfg : cfgst }

val load_inputs : inarg list -> state -> binding list * state

val collect_bufs : binding list -> heap -> dval list list

val view_span : (z * z) list -> (z * z) option

val inbuf_ok : inarg -> bool

type ekind =
| KRead
| KWrite
| KReduce

type cell =
| CMem of positive * z
| CCfg of cfgfield

type event = ekind * cell

type parrec = { pr_iter : sym; pr_depth : nat; pr_sub : bool;
                pr_bound : event list; pr_iters : (z * event list) list }

type trace = event list * parrec list

val tnil : trace

val tapp : trace -> trace -> trace

val tev : event list -> trace

val cell_of : state -> sym -> expr list -> cell list

val reads_e : state -> expr -> event list

val reads_list : state -> expr list -> event list

val reads_view : state -> expr -> event list

val reads_actual : state -> argkind -> expr -> event list

val reads_actuals : state -> (sym * argkind) list -> expr list -> event list

val reads_bind_args :
  (sym * argkind) list -> binding list -> state -> event list

val seqZ : z -> nat -> z list

val iter_list_fp :
  z list -> (z -> state -> (state * trace) result) -> state ->
  ((state * trace) * (z * event list) list) result

val exec_fp :
  (z list -> z list) -> nat -> bool -> stmt -> state -> (state * trace) result

val exec_list_fp :
  (z list -> z list) -> nat -> bool -> stmt list -> state -> (state * trace)
  result

type outcome_fp =
| FInvalid of err
| FFails of err
| FDone of dval list list * cfgst * event list * parrec list

val run_fp : (z list -> z list) -> proc -> input -> outcome_fp

val is_mod : ekind -> bool

val cell_eqb : cell -> cell -> bool

val conflict : event -> event -> bool

val conflict_with : event -> event list -> event option

val find_conflict : event list -> event list -> (event * event) option

val conflict_later :
  z -> event list -> (z * event list) list -> (((z * z) * event) * event)
  option

val iters_conflict :
  (z * event list) list -> (((z * z) * event) * event) option

val mods : event list -> event list

val bound_conflict :
  event list -> (z * event list) list -> ((z * event) * event) option

type race =
| RaceIters of parrec * z * z * event * event
| RaceBound of parrec * z * event * event

val par_race : parrec -> race option

val first_race : parrec list -> race option

val races : parrec list -> bool

val nontrivial_pars : parrec list -> nat

val mk_qc : z -> positive -> qc

val qc_num : qc -> z

val qc_den : qc -> positive

val ord_seq : z list -> z list

val ord_rev : z list -> z list

val ord_rot : z list -> z list
