
val negb : bool -> bool

type nat =
| O
| S of nat

val snd : ('a1 * 'a2) -> 'a2

val app : 'a1 list -> 'a1 list -> 'a1 list

type comparison =
| Eq
| Lt
| Gt

val add : nat -> nat -> nat

type positive =
| XI of positive
| XO of positive
| XH

type z =
| Z0
| Zpos of positive
| Zneg of positive

module Pos :
 sig
  type mask =
  | IsNul
  | IsPos of positive
  | IsNeg
 end

module Coq_Pos :
 sig
  val succ : positive -> positive

  val add : positive -> positive -> positive

  val add_carry : positive -> positive -> positive

  val pred_double : positive -> positive

  type mask = Pos.mask =
  | IsNul
  | IsPos of positive
  | IsNeg

  val succ_double_mask : mask -> mask

  val double_mask : mask -> mask

  val double_pred_mask : positive -> mask

  val sub_mask : positive -> positive -> mask

  val sub_mask_carry : positive -> positive -> mask

  val sub : positive -> positive -> positive

  val size_nat : positive -> nat

  val compare_cont : comparison -> positive -> positive -> comparison

  val compare : positive -> positive -> comparison

  val ggcdn : nat -> positive -> positive -> positive * (positive * positive)

  val ggcd : positive -> positive -> positive * (positive * positive)
 end

module Z :
 sig
  val sgn : z -> z

  val abs : z -> z

  val to_pos : z -> positive

  val ggcd : z -> z -> z * (z * z)
 end

type q = { qnum : z; qden : positive }

val qred : q -> q

type qc = q
  (* singleton inductive, whose constructor was Qcmake *)

val q2Qc : q -> qc

type sym = positive

type cfgfield = positive

type binop =
| OAdd
| OSub
| OMul
| ODiv
| OMod
| OAnd
| OOr
| OLt
| OGt
| OLe
| OGe
| OEq

type extfn =
| XSin
| XRelu
| XSelect
| XExpf
| XFmaxf
| XSigmoid
| XSqrt
| XOther

type expr =
| Var of sym
| Int of z
| BoolC of bool
| Real of qc
| Read of sym * expr list
| USub of expr
| BinOp of binop * expr * expr
| Extern of extfn * expr list
| WindowE of sym * wacc list
| Stride of sym * nat
| ReadCfg of cfgfield
and wacc =
| Point of expr
| Interval of expr * expr

type argkind =
| KSize
| KIndex
| KBool
| KStride
| KScalar
| KTensor of expr list * bool

type stmt =
| Assign of sym * expr list * expr
| Reduce of sym * expr list * expr
| WriteCfg of cfgfield * expr
| Pass
| If of expr * stmt list * stmt list
| For of sym * expr * expr * stmt list * bool
| Alloc of sym * expr list
| Call of proc * expr list
| WindowS of sym * expr
and proc =
| Proc of (sym * argkind) list * expr list * stmt list

val proc_body : proc -> stmt list

type tevent =
| TVisit of stmt
| TErr of stmt

type eff = { e_log : tevent list; e_abort : bool }

val t_skip : eff

val t_seq : eff -> eff -> eff

val t_check : (stmt -> bool) -> stmt -> eff

val t_err : stmt -> eff

val t_try : eff -> eff -> eff

val t_if : bool -> eff -> eff -> eff

val is_For : stmt -> bool

val loop_mode_is_Par : stmt -> bool

val visited_of : tevent list -> stmt list

val errors_of : tevent list -> stmt list

val has_errors : eff -> bool

val par_loops_s : stmt -> stmt list

val par_loops_list : stmt list -> stmt list

val par_loops_of : proc -> stmt list

val pa_map_s : (stmt -> bool) -> stmt -> eff

val pa_map_stmts : (stmt -> bool) -> stmt list -> eff

val pa_apply_proc : (stmt -> bool) -> proc -> eff

val pa_run : (stmt -> bool) -> proc -> bool

val visited_with : (stmt -> bool) -> proc -> stmt list

val visited : proc -> stmt list

val mk_qc : z -> positive -> qc
