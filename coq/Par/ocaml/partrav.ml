
(** val negb : bool -> bool **)

let negb = function
| true -> false
| false -> true

type nat =
| O
| S of nat

(** val snd : ('a1 * 'a2) -> 'a2 **)

let snd = function
| (_, y) -> y

(** val app : 'a1 list -> 'a1 list -> 'a1 list **)

let rec app l m =
  match l with
  | [] -> m
  | a :: l1 -> a :: (app l1 m)

type comparison =
| Eq
| Lt
| Gt

module Coq__1 = struct
 (** val add : nat -> nat -> nat **)
 let rec add n m =
   match n with
   | O -> m
   | S p -> S (add p m)
end
include Coq__1

type positive =
| XI of positive
| XO of positive
| XH

type z =
| Z0
| Zpos of positive
| Zneg of positive

module Pos =
 struct
  type mask =
  | IsNul
  | IsPos of positive
  | IsNeg
 end

module Coq_Pos =
 struct
  (** val succ : positive -> positive **)

  let rec succ = function
  | XI p -> XO (succ p)
  | XO p -> XI p
  | XH -> XO XH

  (** val add : positive -> positive -> positive **)

  let rec add x y =
    match x with
    | XI p ->
      (match y with
       | XI q0 -> XO (add_carry p q0)
       | XO q0 -> XI (add p q0)
       | XH -> XO (succ p))
    | XO p ->
      (match y with
       | XI q0 -> XI (add p q0)
       | XO q0 -> XO (add p q0)
       | XH -> XI p)
    | XH -> (match y with
             | XI q0 -> XO (succ q0)
             | XO q0 -> XI q0
             | XH -> XO XH)

  (** val add_carry : positive -> positive -> positive **)

  and add_carry x y =
    match x with
    | XI p ->
      (match y with
       | XI q0 -> XI (add_carry p q0)
       | XO q0 -> XO (add_carry p q0)
       | XH -> XI (succ p))
    | XO p ->
      (match y with
       | XI q0 -> XO (add_carry p q0)
       | XO q0 -> XI (add p q0)
       | XH -> XO (succ p))
    | XH ->
      (match y with
       | XI q0 -> XI (succ q0)
       | XO q0 -> XO (succ q0)
       | XH -> XI XH)

  (** val pred_double : positive -> positive **)

  let rec pred_double = function
  | XI p -> XI (XO p)
  | XO p -> XI (pred_double p)
  | XH -> XH

  type mask = Pos.mask =
  | IsNul
  | IsPos of positive
  | IsNeg

  (** val succ_double_mask : mask -> mask **)

  let succ_double_mask = function
  | IsNul -> IsPos XH
  | IsPos p -> IsPos (XI p)
  | IsNeg -> IsNeg

  (** val double_mask : mask -> mask **)

  let double_mask = function
  | IsPos p -> IsPos (XO p)
  | x0 -> x0

  (** val double_pred_mask : positive -> mask **)

  let double_pred_mask = function
  | XI p -> IsPos (XO (XO p))
  | XO p -> IsPos (XO (pred_double p))
  | XH -> IsNul

  (** val sub_mask : positive -> positive -> mask **)

  let rec sub_mask x y =
    match x with
    | XI p ->
      (match y with
       | XI q0 -> double_mask (sub_mask p q0)
       | XO q0 -> succ_double_mask (sub_mask p q0)
       | XH -> IsPos (XO p))
    | XO p ->
      (match y with
       | XI q0 -> succ_double_mask (sub_mask_carry p q0)
       | XO q0 -> double_mask (sub_mask p q0)
       | XH -> IsPos (pred_double p))
    | XH -> (match y with
             | XH -> IsNul
             | _ -> IsNeg)

  (** val sub_mask_carry : positive -> positive -> mask **)

  and sub_mask_carry x y =
    match x with
    | XI p ->
      (match y with
       | XI q0 -> succ_double_mask (sub_mask_carry p q0)
       | XO q0 -> double_mask (sub_mask p q0)
       | XH -> IsPos (pred_double p))
    | XO p ->
      (match y with
       | XI q0 -> double_mask (sub_mask_carry p q0)
       | XO q0 -> succ_double_mask (sub_mask_carry p q0)
       | XH -> double_pred_mask p)
    | XH -> IsNeg

  (** val sub : positive -> positive -> positive **)

  let sub x y =
    match sub_mask x y with
    | IsPos z0 -> z0
    | _ -> XH

  (** val size_nat : positive -> nat **)

  let rec size_nat = function
  | XI p0 -> S (size_nat p0)
  | XO p0 -> S (size_nat p0)
  | XH -> S O

  (** val compare_cont : comparison -> positive -> positive -> comparison **)

  let rec compare_cont r x y =
    match x with
    | XI p ->
      (match y with
       | XI q0 -> compare_cont r p q0
       | XO q0 -> compare_cont Gt p q0
       | XH -> Gt)
    | XO p ->
      (match y with
       | XI q0 -> compare_cont Lt p q0
       | XO q0 -> compare_cont r p q0
       | XH -> Gt)
    | XH -> (match y with
             | XH -> r
             | _ -> Lt)

  (** val compare : positive -> positive -> comparison **)

  let compare =
    compare_cont Eq

  (** val ggcdn :
      nat -> positive -> positive -> positive * (positive * positive) **)

  let rec ggcdn n a b =
    match n with
    | O -> (XH, (a, b))
    | S n0 ->
      (match a with
       | XI a' ->
         (match b with
          | XI b' ->
            (match compare a' b' with
             | Eq -> (a, (XH, XH))
             | Lt ->
               let (g, p) = ggcdn n0 (sub b' a') a in
               let (ba, aa) = p in (g, (aa, (add aa (XO ba))))
             | Gt ->
               let (g, p) = ggcdn n0 (sub a' b') b in
               let (ab, bb) = p in (g, ((add bb (XO ab)), bb)))
          | XO b0 ->
            let (g, p) = ggcdn n0 a b0 in
            let (aa, bb) = p in (g, (aa, (XO bb)))
          | XH -> (XH, (a, XH)))
       | XO a0 ->
         (match b with
          | XI _ ->
            let (g, p) = ggcdn n0 a0 b in
            let (aa, bb) = p in (g, ((XO aa), bb))
          | XO b0 -> let (g, p) = ggcdn n0 a0 b0 in ((XO g), p)
          | XH -> (XH, (a, XH)))
       | XH -> (XH, (XH, b)))

  (** val ggcd : positive -> positive -> positive * (positive * positive) **)

  let ggcd a b =
    ggcdn (Coq__1.add (size_nat a) (size_nat b)) a b
 end

module Z =
 struct
  (** val sgn : z -> z **)

  let sgn = function
  | Z0 -> Z0
  | Zpos _ -> Zpos XH
  | Zneg _ -> Zneg XH

  (** val abs : z -> z **)

  let abs = function
  | Zneg p -> Zpos p
  | x -> x

  (** val to_pos : z -> positive **)

  let to_pos = function
  | Zpos p -> p
  | _ -> XH

  (** val ggcd : z -> z -> z * (z * z) **)

  let ggcd a b =
    match a with
    | Z0 -> ((abs b), (Z0, (sgn b)))
    | Zpos a0 ->
      (match b with
       | Z0 -> ((abs a), ((sgn a), Z0))
       | Zpos b0 ->
         let (g, p) = Coq_Pos.ggcd a0 b0 in
         let (aa, bb) = p in ((Zpos g), ((Zpos aa), (Zpos bb)))
       | Zneg b0 ->
         let (g, p) = Coq_Pos.ggcd a0 b0 in
         let (aa, bb) = p in ((Zpos g), ((Zpos aa), (Zneg bb))))
    | Zneg a0 ->
      (match b with
       | Z0 -> ((abs a), ((sgn a), Z0))
       | Zpos b0 ->
         let (g, p) = Coq_Pos.ggcd a0 b0 in
         let (aa, bb) = p in ((Zpos g), ((Zneg aa), (Zpos bb)))
       | Zneg b0 ->
         let (g, p) = Coq_Pos.ggcd a0 b0 in
         let (aa, bb) = p in ((Zpos g), ((Zneg aa), (Zneg bb))))
 end

type q = { qnum : z; qden : positive }

(** val qred : q -> q **)

let qred q0 =
  let { qnum = q1; qden = q2 } = q0 in
  let (r1, r2) = snd (Z.ggcd q1 (Zpos q2)) in
  { qnum = r1; qden = (Z.to_pos r2) }

type qc = q
  (* singleton inductive, whose constructor was Qcmake *)

(** val q2Qc : q -> qc **)

let q2Qc =
  qred

type sym = positive

type cfgfield = positive

type binop =
| OAdd
| OSub
| OMul
| ODiv
| OMod
| OAnd
| OOr
| OLt
| OGt
| OLe
| OGe
| OEq

type extfn =
| XSin
| XRelu
| XSelect
| XExpf
| XFmaxf
| XSigmoid
| XSqrt
| XOther

type expr =
| Var of sym
| Int of z
| BoolC of bool
| Real of qc
| Read of sym * expr list
| USub of expr
| BinOp of binop * expr * expr
| Extern of extfn * expr list
| WindowE of sym * wacc list
| Stride of sym * nat
| ReadCfg of cfgfield
and wacc =
| Point of expr
| Interval of expr * expr

type argkind =
| KSize
| KIndex
| KBool
| KStride
| KScalar
| KTensor of expr list * bool

type stmt =
| Assign of sym * expr list * expr
| Reduce of sym * expr list * expr
| WriteCfg of cfgfield * expr
| Pass
| If of expr * stmt list * stmt list
| For of sym * expr * expr * stmt list * bool
| Alloc of sym * expr list
| Call of proc * expr list
| WindowS of sym * expr
and proc =
| Proc of (sym * argkind) list * expr list * stmt list

(** val proc_body : proc -> stmt list **)

let proc_body = function
| Proc (_, _, b) -> b

type tevent =
| TVisit of stmt
| TErr of stmt

type eff = { e_log : tevent list; e_abort : bool }

(** val t_skip : eff **)

let t_skip =
  { e_log = []; e_abort = false }

(** val t_seq : eff -> eff -> eff **)

let t_seq a b =
  if a.e_abort
  then a
  else { e_log = (app a.e_log b.e_log); e_abort = b.e_abort }

(** val t_check : (stmt -> bool) -> stmt -> eff **)

let t_check chk s =
  { e_log = ((TVisit s) :: []); e_abort = (negb (chk s)) }

(** val t_err : stmt -> eff **)

let t_err s =
  { e_log = ((TErr s) :: []); e_abort = false }

(** val t_try : eff -> eff -> eff **)

let t_try a h =
  if a.e_abort then t_seq { e_log = a.e_log; e_abort = false } h else a

(** val t_if : bool -> eff -> eff -> eff **)

let t_if c a b =
  if c then a else b

(** val is_For : stmt -> bool **)

let is_For = function
| For (_, _, _, _, _) -> true
| _ -> false

(** val loop_mode_is_Par : stmt -> bool **)

let loop_mode_is_Par = function
| For (_, _, _, _, p) -> p
| _ -> false

(** val visited_of : tevent list -> stmt list **)

let rec visited_of = function
| [] -> []
| t :: r ->
  (match t with
   | TVisit s -> s :: (visited_of r)
   | TErr _ -> visited_of r)

(** val errors_of : tevent list -> stmt list **)

let rec errors_of = function
| [] -> []
| t :: r ->
  (match t with
   | TVisit _ -> errors_of r
   | TErr s -> s :: (errors_of r))

(** val has_errors : eff -> bool **)

let has_errors e =
  match errors_of e.e_log with
  | [] -> false
  | _ :: _ -> true

(** val par_loops_s : stmt -> stmt list **)

let rec par_loops_s s = match s with
| If (_, b, o) ->
  app
    (let rec go = function
     | [] -> []
     | x :: r -> app (par_loops_s x) (go r)
     in go b)
    (let rec go = function
     | [] -> []
     | x :: r -> app (par_loops_s x) (go r)
     in go o)
| For (_, _, _, body, par) ->
  app (if par then s :: [] else [])
    (let rec go = function
     | [] -> []
     | x :: r -> app (par_loops_s x) (go r)
     in go body)
| _ -> []

(** val par_loops_list : stmt list -> stmt list **)

let rec par_loops_list = function
| [] -> []
| x :: r -> app (par_loops_s x) (par_loops_list r)

(** val par_loops_of : proc -> stmt list **)

let par_loops_of p =
  par_loops_list (proc_body p)

(** val pa_map_s : (stmt -> bool) -> stmt -> eff **)

let rec pa_map_s chk s =
  t_seq
    (t_if ((&&) (is_For s) (loop_mode_is_Par s))
      (t_seq (t_try (t_seq (t_check chk s) t_skip) (t_seq (t_err s) t_skip))
        t_skip) t_skip)
    (t_seq
      (match s with
       | If (_, body, orelse) ->
         t_seq
           (let rec go = function
            | [] -> t_skip
            | x :: r -> t_seq (pa_map_s chk x) (go r)
            in go body)
           (let rec go = function
            | [] -> t_skip
            | x :: r -> t_seq (pa_map_s chk x) (go r)
            in go orelse)
       | For (_, _, _, body, _) ->
         let rec go = function
         | [] -> t_skip
         | x :: r -> t_seq (pa_map_s chk x) (go r)
         in go body
       | _ -> t_skip) t_skip)

(** val pa_map_stmts : (stmt -> bool) -> stmt list -> eff **)

let rec pa_map_stmts chk = function
| [] -> t_skip
| x :: r -> t_seq (pa_map_s chk x) (pa_map_stmts chk r)

(** val pa_apply_proc : (stmt -> bool) -> proc -> eff **)

let pa_apply_proc chk p =
  pa_map_stmts chk (proc_body p)

(** val pa_run : (stmt -> bool) -> proc -> bool **)

let pa_run chk p =
  let e = pa_apply_proc chk p in (&&) (negb e.e_abort) (negb (has_errors e))

(** val visited_with : (stmt -> bool) -> proc -> stmt list **)

let visited_with chk p =
  visited_of (pa_apply_proc chk p).e_log

(** val visited : proc -> stmt list **)

let visited p =
  visited_with (fun _ -> true) p

(** val mk_qc : z -> positive -> qc **)

let mk_qc n d =
  q2Qc { qnum = n; qden = d }
