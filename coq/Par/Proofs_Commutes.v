(** * Proofs_Commutes.v — the TRANSLATED [Commutes] (Gen_EffPreds.v) is adequate: two actions whose exact
      footprints satisfy it commute (the part of property C01 that justifies the predicate definitions). *)
From Coq Require Import ZArith List Bool Lia.
From Par Require Import SetAlg Gen_EffPreds Proofs_EffPreds.
Import ListNotations.
Local Open Scope Z_scope.

Section Adequacy.
  Context {loc : Type}.
  Implicit Types a b : basic loc.

  Ltac unf := unfold Disjoint_Memory, Commutes, get_code, ADef, AMay, is_empty, LIsct, LUnion, LDiff,
                     disjoint_fp, fp_mod, fp_touch, fpR, fpW, fpP in *; cbv zeta in *.
  Ltac split_ands := repeat match goal with H : _ /\ _ |- _ => destruct H end.
  Ltac inst_at c := repeat match goal with H : forall x : loc, ~ _ |- _ => specialize (H c) end.

  (** *** Commutes: two actions with these footprints commute *)
  Section Actions.
    Variable V : Type.
    Variable add : V -> V -> V.
    Hypothesis add_swap : forall x y z, add (add x y) z = add (add x z) y.

    Definition amem := loc -> V.
    Definition agree_on (S : lset loc) (m m' : amem) : Prop := forall x, S x -> m x = m' x.

    (** [f] is an action with footprint [b]: it changes only written and reduced locations; what it writes
        depends only on the locations it reads; a location that is reduced and not written receives
        [add old d] where the increment [d] depends only on the locations read. *)
    Record has_footprint (f : amem -> amem) b : Prop := mkHF {
      hf_frame : forall m c, ~ fpW b c -> ~ fpP b c -> f m c = m c;
      hf_write : forall m m' c, fpW b c -> agree_on (fpR b) m m' -> f m c = f m' c;
      hf_reduce : forall c, fpP b c -> ~ fpW b c ->
        exists d : amem -> V, (forall m, f m c = add (m c) (d m)) /\
                              (forall m m', agree_on (fpR b) m m' -> d m = d m');
      hf_decW : forall c, fpW b c \/ ~ fpW b c;
      hf_decP : forall c, fpP b c \/ ~ fpP b c
    }.

    Lemma commutes_actions : forall a1 a2 f1 f2,
      Commutes a1 a2 -> has_footprint f1 a1 -> has_footprint f2 a2 ->
      forall m c, f1 (f2 m) c = f2 (f1 m) c.
    Proof.
      intros a1 a2 f1 f2 HC F1 F2 m c.
      assert (C1 : forall x, fpW a1 x -> ~ fp_touch a2 x).
      { unf. split_ands. intros x W T. inst_at x. tauto. }
      assert (C2 : forall x, fpW a2 x -> ~ fp_touch a1 x).
      { unf. split_ands. intros x W T. inst_at x. tauto. }
      assert (C3 : forall x, fpP a1 x -> ~ fpW a1 x -> ~ fpR a2 x).
      { unf. split_ands. intros x P NW R. inst_at x. tauto. }
      assert (C4 : forall x, fpP a2 x -> ~ fpW a2 x -> ~ fpR a1 x).
      { unf. split_ands. intros x P NW R. inst_at x. tauto. }
      (* f1 does not change what f2 reads, and vice versa *)
      assert (A2 : forall m0, agree_on (fpR a2) m0 (f1 m0)).
      { intros m0 x R. symmetry. apply (hf_frame _ _ F1).
        - intros W. apply (C1 x W). left; assumption.
        - intros P. destruct (hf_decW _ _ F1 x) as [W|NW].
          + apply (C1 x W). left; assumption.
          + apply (C3 x P NW R). }
      assert (A1 : forall m0, agree_on (fpR a1) m0 (f2 m0)).
      { intros m0 x R. symmetry. apply (hf_frame _ _ F2).
        - intros W. apply (C2 x W). left; assumption.
        - intros P. destruct (hf_decW _ _ F2 x) as [W|NW].
          + apply (C2 x W). left; assumption.
          + apply (C4 x P NW R). }
      destruct (hf_decW _ _ F1 c) as [W1|NW1].
      { (* written by f1: f2 neither changes nor reads it *)
        assert (U : ~ fpW a2 c /\ ~ fpP a2 c) by (split; intros X; apply (C1 c W1); right; tauto).
        destruct U as [U1 U2].
        rewrite (hf_frame _ _ F2 (f1 m) c U1 U2).
        symmetry. apply (hf_write _ _ F1); [assumption|apply A1]. }
      destruct (hf_decW _ _ F2 c) as [W2|NW2].
      { assert (U : ~ fpW a1 c /\ ~ fpP a1 c) by (split; intros X; apply (C2 c W2); right; tauto).
        destruct U as [U1 U2].
        rewrite (hf_frame _ _ F1 (f2 m) c U1 U2).
        apply (hf_write _ _ F2); [assumption|apply A2]. }
      destruct (hf_decP _ _ F1 c) as [P1|NP1]; destruct (hf_decP _ _ F2 c) as [P2|NP2].
      - destruct (hf_reduce _ _ F1 c P1 NW1) as (d1 & E1 & D1).
        destruct (hf_reduce _ _ F2 c P2 NW2) as (d2 & E2 & D2).
        rewrite E1, E2, E2, E1.
        rewrite <- (D1 m (f2 m) (A1 m)), <- (D2 m (f1 m) (A2 m)). apply add_swap.
      - destruct (hf_reduce _ _ F1 c P1 NW1) as (d1 & E1 & D1).
        rewrite E1, (hf_frame _ _ F2 m c NW2 NP2), (hf_frame _ _ F2 (f1 m) c NW2 NP2), E1.
        rewrite <- (D1 m (f2 m) (A1 m)). reflexivity.
      - destruct (hf_reduce _ _ F2 c P2 NW2) as (d2 & E2 & D2).
        rewrite E2, (hf_frame _ _ F1 m c NW1 NP1), (hf_frame _ _ F1 (f2 m) c NW1 NP1), E2.
        rewrite <- (D2 m (f1 m) (A2 m)). reflexivity.
      - rewrite (hf_frame _ _ F1 (f2 m) c NW1 NP1), (hf_frame _ _ F2 m c NW2 NP2),
                (hf_frame _ _ F2 (f1 m) c NW2 NP2), (hf_frame _ _ F1 m c NW1 NP1). reflexivity.
    Qed.
  End Actions.
End Adequacy.

Example commutes_satisfiable : Commutes (fam_copy 0) (fam_copy 1) /\ ~ Commutes (fam_same 0) (fam_same 1).
Proof.
  unfold Commutes, get_code, ADef, is_empty, LIsct, LUnion, LDiff, fam_copy, fam_same, pt, none. cbv zeta. cbn [b_RG b_WG b_RH b_WH b_preRed b_Alc].
  split; [repeat split; intros x; lia|]. intros [H _]. apply (H 0). tauto.
Qed.
