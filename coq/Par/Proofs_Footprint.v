(** * Proofs_Footprint.v — the instrumented semantics erases to the shared one, and the
      specification of the race checker. *)
From Coq Require Import ZArith List QArith Qcanon Bool Lia.
From Core Require Import Syntax Sem.
From Par Require Import Footprint.
Import ListNotations.
Local Open Scope Z_scope.

(** ** induction principle for the nested/mutual [stmt] *)
Section StmtInd.
  Variable P : stmt -> Prop.
  Hypothesis HAssign : forall x idx rhs, P (Assign x idx rhs).
  Hypothesis HReduce : forall x idx rhs, P (Reduce x idx rhs).
  Hypothesis HWriteCfg : forall c rhs, P (WriteCfg c rhs).
  Hypothesis HPass : P Pass.
  Hypothesis HIf : forall c b o, Forall P b -> Forall P o -> P (If c b o).
  Hypothesis HFor : forall i lo hi body par, Forall P body -> P (For i lo hi body par).
  Hypothesis HAlloc : forall x sh, P (Alloc x sh).
  Hypothesis HCall : forall a pr body args, Forall P body -> P (Call (Proc a pr body) args).
  Hypothesis HWindowS : forall x rhs, P (WindowS x rhs).

  Fixpoint stmt_ind2 (s : stmt) : P s :=
    match s with
    | Assign x idx rhs => HAssign x idx rhs
    | Reduce x idx rhs => HReduce x idx rhs
    | WriteCfg c rhs => HWriteCfg c rhs
    | Pass => HPass
    | If c b o =>
        HIf c b o
          ((fix li (l : list stmt) : Forall P l :=
              match l with [] => Forall_nil P | x :: r => Forall_cons x (stmt_ind2 x) (li r) end) b)
          ((fix li (l : list stmt) : Forall P l :=
              match l with [] => Forall_nil P | x :: r => Forall_cons x (stmt_ind2 x) (li r) end) o)
    | For i lo hi body par =>
        HFor i lo hi body par
          ((fix li (l : list stmt) : Forall P l :=
              match l with [] => Forall_nil P | x :: r => Forall_cons x (stmt_ind2 x) (li r) end) body)
    | Alloc x sh => HAlloc x sh
    | Call f args =>
        match f with
        | Proc a pr body =>
            HCall a pr body args
              ((fix li (l : list stmt) : Forall P l :=
                  match l with [] => Forall_nil P | x :: r => Forall_cons x (stmt_ind2 x) (li r) end) body)
        end
    | WindowS x rhs => HWindowS x rhs
    end.
End StmtInd.

(** ** unfolding equations (the inline [fix go] of [exec]/[exec_fp] IS [exec_list]/[exec_list_fp]) *)
Lemma exec_If_eq : forall c b o st,
  exec (If c b o) st =
  (do v <- eval st c; do b' <- as_bool v;
   do st' <- exec_list (if b' then b else o) st; Ok (with_env (s_env st) st')).
Proof. reflexivity. Qed.

Definition iter_body (i : sym) (body : list stmt) (k : Z) (st0 : state) : result state :=
  do st' <- exec_list body (bind_var i (BVal (VInt k)) st0); Ok (with_env (s_env st0) st').

Lemma exec_For_eq : forall i lo hi body par st,
  exec (For i lo hi body par) st =
  (do vl <- eval st lo; do l <- as_int vl; do vh <- eval st hi; do h <- as_int vh;
   if h <? l then Err BadTrip else iter_loop (Z.to_nat (h - l)) l (iter_body i body) st).
Proof. reflexivity. Qed.

Lemma exec_Call_eq : forall formals preds body args st,
  exec (Call (Proc formals preds body) args) st =
  (do acts <- eval_actuals st formals args;
   do callee <- bind_args formals acts (with_env [] st);
   do _ <- check_preds callee preds;
   do st' <- exec_list body callee; Ok (with_env (s_env st) st')).
Proof. reflexivity. Qed.

Lemma exec_fp_If_eq : forall ord d sub c b o st,
  exec_fp ord d sub (If c b o) st =
  (do v <- eval st c; do b' <- as_bool v;
   do r <- exec_list_fp ord d sub (if b' then b else o) st;
   let (st', t) := r in Ok (with_env (s_env st) st', tapp (tev (reads_e st c)) t)).
Proof. reflexivity. Qed.

Definition iter_body_fp (ord : list Z -> list Z) (d : nat) (sub : bool) (i : sym) (body : list stmt)
  (k : Z) (st0 : state) : result (state * trace) :=
  do r <- exec_list_fp ord (S d) sub body (bind_var i (BVal (VInt k)) st0);
  let (st', t) := r in Ok (with_env (s_env st0) st', t).

Lemma exec_fp_For_eq : forall ord d sub i lo hi body par st,
  exec_fp ord d sub (For i lo hi body par) st =
  (do vl <- eval st lo; do l <- as_int vl; do vh <- eval st hi; do h <- as_int vh;
   if h <? l then Err BadTrip else
   do r <- iter_list_fp ((if par then ord else (fun ks => ks)) (seqZ l (Z.to_nat (h - l))))
             (iter_body_fp ord d sub i body) st;
   let '(st', t, its) := r in
   let bev := reads_e st lo ++ reads_e st hi in
   Ok (st', (bev ++ fst t, (if par then [mkPar i d sub bev its] else []) ++ snd t))).
Proof. reflexivity. Qed.

Lemma exec_fp_Call_eq : forall ord d sub formals preds body args st,
  exec_fp ord d sub (Call (Proc formals preds body) args) st =
  (do acts <- eval_actuals st formals args;
   do callee <- bind_args formals acts (with_env [] st);
   do _ <- check_preds callee preds;
   do r <- exec_list_fp ord d true body callee;
   let (st', t) := r in
   Ok (with_env (s_env st) st',
       tapp (tev (reads_actuals st formals args ++ reads_bind_args formals acts (with_env [] st)
                  ++ reads_list callee preds)) t)).
Proof. reflexivity. Qed.

Lemma exec_list_fp_nil : forall ord d sub st, exec_list_fp ord d sub [] st = Ok (st, tnil).
Proof. reflexivity. Qed.

Lemma exec_list_fp_cons : forall ord d sub s r st,
  exec_list_fp ord d sub (s :: r) st =
  (do r1 <- exec_fp ord d sub s st; let (st1, t1) := r1 in
   do r2 <- exec_list_fp ord d sub r st1; let (st2, t2) := r2 in Ok (st2, tapp t1 t2)).
Proof. reflexivity. Qed.

(** ** erasure *)
Definition erase {T} (r : result (state * T)) : result state :=
  match r with Ok (s, _) => Ok s | Err e => Err e end.

Definition erase3 {T U} (r : result (state * T * U)) : result state :=
  match r with Ok (s, _, _) => Ok s | Err e => Err e end.

(** the identity order: parallel loops run sequentially *)
Definition seq_order : list Z -> list Z := fun ks => ks.

Definition erases (s : stmt) : Prop := forall d sub st, erase (exec_fp seq_order d sub s st) = exec s st.

Lemma erase_list : forall l, Forall erases l ->
  forall d sub st, erase (exec_list_fp seq_order d sub l st) = exec_list l st.
Proof.
  induction 1 as [|s r Hs _ IH]; intros d sub st; [reflexivity|].
  rewrite exec_list_fp_cons. simpl.
  specialize (Hs d sub st). destruct (exec_fp seq_order d sub s st) as [[st1 t1]|e]; simpl in Hs; rewrite <- Hs; simpl.
  - specialize (IH d sub st1). destruct (exec_list_fp seq_order d sub r st1) as [[st2 t2]|e]; simpl in IH; rewrite <- IH; reflexivity.
  - reflexivity.
Qed.

Lemma erase_iter : forall (bfp : Z -> state -> result (state * trace)) (b : Z -> state -> result state),
  (forall k st, erase (bfp k st) = b k st) ->
  forall n k st, erase3 (iter_list_fp (seqZ k n) bfp st) = iter_loop n k b st.
Proof.
  intros bfp b H. induction n as [|n IH]; intros k st; simpl; [reflexivity|].
  specialize (H k st). destruct (bfp k st) as [[st1 t1]|e]; simpl in H; rewrite <- H; simpl; [|reflexivity].
  specialize (IH (k + 1) st1).
  destruct (iter_list_fp (seqZ (k + 1) n) bfp st1) as [[[st2 t2] its]|e]; simpl in IH; rewrite <- IH; reflexivity.
Qed.

Ltac bind_step :=
  match goal with
  | |- context [bind ?r _] => destruct r; simpl; try reflexivity
  end.

Lemma exec_fp_erases : forall s, erases s.
Proof.
  induction s using stmt_ind2; intros d sub st.
  - simpl. repeat bind_step.
  - simpl. repeat bind_step.
  - simpl. repeat bind_step.
  - reflexivity.
  - rewrite exec_fp_If_eq, exec_If_eq.
    destruct (eval st c); simpl; [|reflexivity].
    destruct (as_bool a) as [b'|]; simpl; [|reflexivity].
    assert (Hl : Forall erases (if b' then b else o)) by (destruct b'; assumption).
    pose proof (erase_list _ Hl d sub st) as E.
    destruct (exec_list_fp seq_order d sub (if b' then b else o) st) as [[st' t]|e]; simpl in E; rewrite <- E; reflexivity.
  - rewrite exec_fp_For_eq, exec_For_eq.
    destruct (eval st lo); simpl; [|reflexivity].
    destruct (as_int a) as [l|]; simpl; [|reflexivity].
    destruct (eval st hi); simpl; [|reflexivity].
    destruct (as_int a0) as [h|]; simpl; [|reflexivity].
    destruct (h <? l); [reflexivity|].
    assert (Hb : forall k st0, erase (iter_body_fp seq_order d sub i body k st0) = iter_body i body k st0).
    { intros k st0. unfold iter_body_fp, iter_body.
      pose proof (erase_list _ H (S d) sub (bind_var i (BVal (VInt k)) st0)) as E.
      destruct (exec_list_fp seq_order (S d) sub body (bind_var i (BVal (VInt k)) st0)) as [[st' t]|e];
        simpl in E; rewrite <- E; reflexivity. }
    pose proof (erase_iter _ _ Hb (Z.to_nat (h - l)) l st) as E.
    replace ((if par then seq_order else fun ks : list Z => ks) (seqZ l (Z.to_nat (h - l))))
      with (seqZ l (Z.to_nat (h - l))) by (destruct par; reflexivity).
    destruct (iter_list_fp (seqZ l (Z.to_nat (h - l))) (iter_body_fp seq_order d sub i body) st) as [[[st' t] its]|e];
      simpl in E; rewrite <- E; reflexivity.
  - simpl. destruct (eval_ints st sh); simpl; [|reflexivity].
    destruct (all_pos a); reflexivity.
  - rewrite exec_fp_Call_eq, exec_Call_eq.
    destruct (eval_actuals st a args); simpl; [|reflexivity].
    destruct (bind_args a a0 (with_env [] st)) as [callee|]; simpl; [|reflexivity].
    destruct (check_preds callee pr); simpl; [|reflexivity].
    pose proof (erase_list _ H d true callee) as E.
    destruct (exec_list_fp seq_order d true body callee) as [[st' t]|e]; simpl in E; rewrite <- E; reflexivity.
  - simpl. repeat bind_step.
Qed.

(** the statement in the shape asked for: whatever [exec_fp] returns, [exec] returns its state part *)
Theorem exec_fp_erase : forall d sub s st st' t,
  exec_fp seq_order d sub s st = Ok (st', t) -> exec s st = Ok st'.
Proof. intros d sub s st st' t H. rewrite <- (exec_fp_erases s d sub st), H. reflexivity. Qed.

Theorem exec_fp_erase_err : forall d sub s st e,
  exec_fp seq_order d sub s st = Err e -> exec s st = Err e.
Proof. intros d sub s st e H. rewrite <- (exec_fp_erases s d sub st), H. reflexivity. Qed.

Theorem exec_list_fp_erases : forall l d sub st, erase (exec_list_fp seq_order d sub l st) = exec_list l st.
Proof. intros l. apply erase_list. apply Forall_forall. intros s _. apply exec_fp_erases. Qed.

Theorem run_fp_erases : forall p inp, erase_outcome (run_fp seq_order p inp) = run p inp.
Proof.
  intros [formals preds body] inp. unfold run_fp, run.
  destruct (forallb inbuf_ok (in_args inp)); [|reflexivity].
  destruct (load_inputs (in_args inp) _) as [bs st1].
  destruct (bind_args formals bs st1) as [st2|]; [|reflexivity].
  destruct (check_preds st2 preds); [|reflexivity].
  pose proof (exec_list_fp_erases body 0%nat false st2) as E.
  destruct (exec_list_fp seq_order 0 false body st2) as [[st3 t]|e]; simpl in E; rewrite <- E; reflexivity.
Qed.
