(** * Proofs_Instance.v — the iterations of a Core loop whose body does not allocate ARE
      footprint-respecting actions (ParSem.respects), hence [perm_exec_core]: if the per-iteration footprints
      of the sequential execution are pairwise conflict-free, every permutation of the iterations,
      executed by [Core.Sem], succeeds and ends in a state of the same shape with the same content in
      every heap cell and configuration field. *)
From Coq Require Import ZArith List Permutation Bool Lia.
From Core Require Import Syntax Sem.
From Par Require Import Footprint Proofs_Footprint ParSem Proofs_Races Proofs_Lockstep Proofs_Frame.
Import ListNotations.

Lemma sim_sym : forall s s', sim s s' -> sim s' s.
Proof. intros s s' (E & N & S). repeat split; symmetry; assumption. Qed.
Lemma sim_trans : forall s s' s'', sim s s' -> sim s' s'' -> sim s s''.
Proof. intros s s' s'' (E & N & S) (E' & N' & S'). repeat split; congruence. Qed.

(** iteration [k] of a loop over [i] with body [body], as an action on Core states reporting its events *)
Definition iter_act (d : nat) (sub : bool) (i : sym) (body : list stmt) (k : Z) : action state (list event) :=
  fun st => match iter_body_fp seq_order d sub i body k st with
            | Ok (st', t) => Some (st', fst t)
            | Err _ => None
            end.

Definition core_respects : action state (list event) -> Prop :=
  respects state cell cval get sim (list event) ev_R ev_W ev_P.

Lemma mods_in_modifies : forall evs c,
  mods_in evs c <-> modifies cell (list event) ev_W ev_P evs c.
Proof. intros evs c. unfold mods_in, modifies, ev_W, ev_P. rewrite !in_ev_cells. tauto. Qed.

Lemma iter_act_respects : forall d sub i body, alloc_free_list body = true ->
  forall k, core_respects (iter_act d sub i body k).
Proof.
  intros d sub i body AF k. constructor.
  - (* frame *)
    intros s s' f E. unfold iter_act, iter_body_fp in E.
    destruct (exec_list_fp seq_order (S d) sub body (bind_var i (BVal (VInt k)) s)) as [[sb tb]|] eqn:Eb;
      simpl in E; [|discriminate].
    inversion E; subst s' f; clear E.
    destruct (exec_list_frame body seq_order (S d) sub _ sb tb AF Eb) as (N & Sh & G).
    split.
    + repeat split; simpl; assumption || (symmetry; assumption).
    + intros c M. rewrite get_with_env, G; [apply get_bind_var|]. intros X. apply M. apply mods_in_modifies. assumption.
  - (* determinacy *)
    intros s s' f E s2 Sm A. unfold iter_act, iter_body_fp in *.
    destruct (exec_list_fp seq_order (S d) sub body (bind_var i (BVal (VInt k)) s)) as [[sb tb]|] eqn:Eb;
      simpl in E; [|discriminate].
    inversion E; subst s' f; clear E.
    destruct (exec_list_lockstep body seq_order (S d) sub _ _ sb tb (sim_bind_var i (BVal (VInt k)) s s2 Sm) Eb)
      as (sb2 & F & S' & P).
    { intros k0 c I N. rewrite !get_bind_var. apply A.
      destruct k0; [left|contradiction|right]; apply in_ev_cells; assumption. }
    exists (with_env (s_env s2) sb2). rewrite F. simpl. split; [reflexivity|]. split.
    + destruct Sm as (Env & _). rewrite <- Env. apply sim_with_env. assumption.
    + intros c H. rewrite !get_with_env. apply P. rewrite !get_bind_var.
      destruct H as [H|H]; [left; assumption|right]. apply mods_in_modifies in H. exact H.
Qed.

(** the instrumented loop is [run_iters] of these actions ... *)
Definition core_run (d : nat) (sub : bool) (i : sym) (body : list stmt)
  : list Z -> state -> option (state * list (Z * list event)) :=
  run_iters state Z (list event) (iter_act d sub i body).

Lemma iter_list_run : forall d sub i body ks st stf t its,
  iter_list_fp ks (iter_body_fp seq_order d sub i body) st = Ok (stf, t, its) ->
  core_run d sub i body ks st = Some (stf, its).
Proof.
  intros d sub i body. unfold core_run. induction ks as [|k r IH]; intros st stf t its E; simpl in *.
  - inversion E. reflexivity.
  - unfold iter_act at 1.
    destruct (iter_body_fp seq_order d sub i body k st) as [[st1 t1]|]; simpl in E; [|discriminate].
    destruct (iter_list_fp r (iter_body_fp seq_order d sub i body) st1) as [[[st2 t2] its2]|] eqn:E2;
      simpl in E; [|discriminate].
    inversion E; subst. rewrite (IH st1 stf t2 its2 E2). reflexivity.
Qed.

(** ... and erases to the un-instrumented execution of the iterations by Core.Sem *)
Lemma iter_body_fp_erases : forall d sub i body k st,
  erase (iter_body_fp seq_order d sub i body k st) = iter_body i body k st.
Proof.
  intros d sub i body k st. unfold iter_body_fp, iter_body.
  pose proof (exec_list_fp_erases body (S d) sub (bind_var i (BVal (VInt k)) st)) as E.
  destruct (exec_list_fp seq_order (S d) sub body (bind_var i (BVal (VInt k)) st)) as [[st' t]|e];
    simpl in E; rewrite <- E; reflexivity.
Qed.

Lemma core_run_order : forall d sub i body sigma st stf its,
  core_run d sub i body sigma st = Some (stf, its) -> exec_order i body sigma st = Ok stf.
Proof.
  intros d sub i body. unfold core_run. induction sigma as [|k r IH]; intros st stf its E; simpl in *.
  - inversion E. reflexivity.
  - unfold iter_act in E at 1. pose proof (iter_body_fp_erases d sub i body k st) as Er.
    destruct (iter_body_fp seq_order d sub i body k st) as [[st1 t1]|]; [|discriminate].
    simpl in Er. unfold exec_order. simpl. rewrite <- Er. simpl.
    destruct (run_iters state Z (list event) (iter_act d sub i body) r st1) as [[st2 its2]|] eqn:E2; [|discriminate].
    inversion E; subst. apply (IH st1 stf its2). assumption.
Qed.

Theorem perm_exec_core : forall d sub i body, alloc_free_list body = true ->
  forall ks st stf t its,
    iter_list_fp ks (iter_body_fp seq_order d sub i body) st = Ok (stf, t, its) ->
    iters_conflict its = None ->
    forall sigma, Permutation ks sigma ->
    exists stf', exec_order i body sigma st = Ok stf' /\ sim stf stf' /\ forall c, get stf c = get stf' c.
Proof.
  intros d sub i body AF ks st stf t its E NCf sigma P.
  pose proof (iter_list_run d sub i body ks st stf t its E) as R.
  destruct (perm_run state cell cval Z cell_eq_dec get sim sim_refl sim_sym sim_trans (list event) ev_R ev_W ev_P
              (iter_act d sub i body) (iter_act_respects d sub i body AF) ks sigma P st stf its R
              (iters_conflict_none its NCf)) as (stf' & its' & R' & [Sm Q] & _).
  exists stf'. split; [apply (core_run_order d sub i body sigma st stf' its' R')|]. split; assumption.
Qed.

(** the same, stated on the loop statement: if the instrumented sequential execution of a parallel loop
    whose body does not allocate reports no race, then EVERY execution of the loop in the parallel
    semantics ([exec_par]: any order of the iteration values) succeeds and ends, like [Core.Sem.exec], in a
    state of the same shape with the same content in every heap cell and configuration field *)
Theorem par_loop_deterministic : forall d sub i lo hi body st st' t,
  alloc_free_list body = true ->
  exec_fp seq_order d sub (For i lo hi body true) st = Ok (st', t) ->
  races (snd t) = false ->
  exec (For i lo hi body true) st = Ok st' /\
  forall r, exec_par i lo hi body st r ->
    exists st'', r = Ok st'' /\ sim st' st'' /\ forall c, get st' c = get st'' c.
Proof.
  intros d sub i lo hi body st st' t AF E NR.
  split; [apply (exec_fp_erase d sub _ st st' t E)|].
  rewrite exec_fp_For_eq in E.
  destruct (eval st lo) as [vl|] eqn:Elo; simpl in E; [|discriminate].
  destruct (as_int vl) as [l|] eqn:El; simpl in E; [|discriminate].
  destruct (eval st hi) as [vh|] eqn:Ehi; simpl in E; [|discriminate].
  destruct (as_int vh) as [h|] eqn:Eh; simpl in E; [|discriminate].
  destruct (h <? l)%Z eqn:Ecmp; [discriminate|].
  change (seq_order (seqZ l (Z.to_nat (h - l)))) with (iterations l h) in E.
  destruct (iter_list_fp (iterations l h) (iter_body_fp seq_order d sub i body) st) as [[[stl tl] its]|] eqn:Ei;
    simpl in E; [|discriminate].
  inversion E; subst st' t; clear E. simpl in NR.
  assert (NCf : iters_conflict its = None).
  { unfold races in NR. destruct (first_race _) eqn:FR in NR; [discriminate|].
    destruct (first_race_none _ FR (mkPar i d sub (reads_e st lo ++ reads_e st hi) its)) as [H _];
      [left; reflexivity|exact H]. }
  intros r (l' & h' & Hl & Hh & Hc & sigma & P & Er).
  rewrite Elo in Hl. simpl in Hl. rewrite El in Hl. inversion Hl; subst l'.
  rewrite Ehi in Hh. simpl in Hh. rewrite Eh in Hh. inversion Hh; subst h'.
  destruct (perm_exec_core d sub i body AF (iterations l h) st stl tl its Ei NCf sigma P) as (st'' & Eo & Sm & Q).
  exists st''. split; [congruence|]. split; assumption.
Qed.
