(** * Proofs_Lockstep.v — [Core.Sem] executions depend only on the cells they read.

    Two states are SIMILAR when they have the same environment, the same allocation counter and heaps of
    the same shape (blocks and block sizes); they may differ in the CONTENTS of cells (heap cells and
    configuration fields, an unbound field having the content [CNone]).  Main result ([exec_lockstep]): if [exec_fp] succeeds from [st] with trace [t], then from any
    similar state that agrees with [st] on the cells [t] reads or reduces it succeeds with the SAME trace,
    ends in a similar state, and a cell on which the two states agreed, or which [t] writes or reduces,
    has the same content afterwards. *)
From Coq Require Import ZArith List Bool Lia.
From Core Require Import Syntax Sem.
From Par Require Import Footprint Proofs_Footprint.
Import ListNotations.
Local Open Scope Z_scope.

(** ** content of a cell *)
Inductive cval := CNone | CData (d : dval) | CVal (v : value).

Definition in_block (o : Z) (cells : list dval) : bool := (0 <=? o) && (o <? Z.of_nat (length cells)).

Definition get (st : state) (c : cell) : cval :=
  match c with
  | CMem l o =>
      match lookup l (s_heap st) with
      | Some cells => if in_block o cells then CData (nth (Z.to_nat o) cells None) else CNone
      | None => CNone
      end
  | CCfg f => match lookup f (s_cfg st) with Some v => CVal v | None => CNone end
  end.

Definition shape (h : heap) : list (positive * nat) := map (fun p => (fst p, length (snd p))) h.

Definition sim (st st2 : state) : Prop :=
  s_env st = s_env st2 /\ s_next st = s_next st2 /\ shape (s_heap st) = shape (s_heap st2).

Lemma sim_refl : forall st, sim st st.
Proof. intros st. repeat split. Qed.

(** ** induction principle for the nested/mutual [expr] *)
Section ExprInd.
  Variable P : expr -> Prop.
  Definition Pw (w : wacc) : Prop := match w with Point e => P e | Interval lo hi => P lo /\ P hi end.
  Hypothesis HVar : forall x, P (Var x).
  Hypothesis HInt : forall z, P (Int z).
  Hypothesis HBoolC : forall b, P (BoolC b).
  Hypothesis HReal : forall q, P (Real q).
  Hypothesis HRead : forall x idx, Forall P idx -> P (Read x idx).
  Hypothesis HUSub : forall e, P e -> P (USub e).
  Hypothesis HBinOp : forall op a b, P a -> P b -> P (BinOp op a b).
  Hypothesis HExtern : forall f args, Forall P args -> P (Extern f args).
  Hypothesis HWindowE : forall x acc, Forall Pw acc -> P (WindowE x acc).
  Hypothesis HStride : forall x d, P (Stride x d).
  Hypothesis HReadCfg : forall c, P (ReadCfg c).

  Fixpoint expr_ind2 (e : expr) : P e :=
    match e with
    | Var x => HVar x
    | Int z => HInt z
    | BoolC b => HBoolC b
    | Real q => HReal q
    | Read x idx =>
        HRead x idx ((fix li (l : list expr) : Forall P l :=
                        match l with [] => Forall_nil P | a :: r => Forall_cons a (expr_ind2 a) (li r) end) idx)
    | USub a => HUSub a (expr_ind2 a)
    | BinOp op a b => HBinOp op a b (expr_ind2 a) (expr_ind2 b)
    | Extern f args =>
        HExtern f args ((fix li (l : list expr) : Forall P l :=
                           match l with [] => Forall_nil P | a :: r => Forall_cons a (expr_ind2 a) (li r) end) args)
    | WindowE x acc =>
        HWindowE x acc
          ((fix lw (l : list wacc) : Forall Pw l :=
              match l with
              | [] => Forall_nil Pw
              | w :: r =>
                  Forall_cons w
                    (match w return Pw w with
                     | Point a => expr_ind2 a
                     | Interval lo hi => conj (expr_ind2 lo) (expr_ind2 hi)
                     end) (lw r)
              end) acc)
    | Stride x d => HStride x d
    | ReadCfg c => HReadCfg c
    end.
End ExprInd.

(** ** unfolding equations of [eval] / [reads_e] (the inline fixes are the named functions) *)
Definition eval_vals (st : state) : list expr -> result (list value) :=
  fix evs (l : list expr) : result (list value) :=
    match l with
    | [] => Ok []
    | a :: r => do v <- eval st a; do vs <- evs r; Ok (v :: vs)
    end.

Lemma eval_Read_eq : forall st x idx,
  eval st (Read x idx) =
  (do w <- get_view st x; do is <- eval_ints st idx; do d <- cell_read (s_heap st) w is; Ok (VData d)).
Proof. reflexivity. Qed.

Lemma eval_Extern_eq : forall st f args,
  eval st (Extern f args) = (do vs <- eval_vals st args; eval_extern f vs).
Proof. reflexivity. Qed.

Lemma reads_e_Read_eq : forall st x idx,
  reads_e st (Read x idx) = reads_list st idx ++ map (pair KRead) (cell_of st x idx).
Proof. reflexivity. Qed.

Lemma reads_e_Extern_eq : forall st f args, reads_e st (Extern f args) = reads_list st args.
Proof. reflexivity. Qed.

Lemma reads_e_WindowE_eq : forall st x acc, reads_e st (WindowE x acc) = reads_waccs st acc.
Proof. reflexivity. Qed.

(** ** similar states: what depends on the environment and the shape only *)
Lemma sim_get_view : forall st st2 x, sim st st2 -> get_view st2 x = get_view st x.
Proof. intros st st2 x (E & _). unfold get_view. rewrite E. reflexivity. Qed.

Lemma lookup_shape : forall (h h2 : heap) l, shape h = shape h2 ->
  match lookup l h, lookup l h2 with
  | Some c, Some c2 => length c = length c2
  | None, None => True
  | _, _ => False
  end.
Proof.
  induction h as [|[k c] r IH]; intros [|[k2 c2] r2] l E; simpl in *; try discriminate; [exact I|].
  inversion E; subst. destruct (Pos.eqb l k2); [assumption|]. apply IH. assumption.
Qed.

(** reading a cell: succeeds or fails alike in similar states, and returns the content *)
Lemma cell_read_get : forall st w is d, cell_read (s_heap st) w is = Ok d ->
  exists off, flat_index (vdims w) is (voff w) = Ok off /\ get st (CMem (vloc w) off) = CData d.
Proof.
  intros st w is d H. unfold cell_read in H.
  destruct (flat_index (vdims w) is (voff w)) as [off|]; simpl in H; [|discriminate].
  exists off. split; [reflexivity|]. simpl.
  destruct (lookup (vloc w) (s_heap st)) as [cells|]; [|discriminate].
  unfold in_block. destruct ((0 <=? off) && (off <? Z.of_nat (length cells))); [|discriminate].
  inversion H. reflexivity.
Qed.

Lemma cell_read_sim : forall st st2 w is,
  sim st st2 ->
  (forall off, flat_index (vdims w) is (voff w) = Ok off ->
      get st2 (CMem (vloc w) off) = get st (CMem (vloc w) off)) ->
  forall d, cell_read (s_heap st) w is = Ok d -> cell_read (s_heap st2) w is = Ok d.
Proof.
  intros st st2 w is (_ & _ & S) A d H. unfold cell_read in *.
  destruct (flat_index (vdims w) is (voff w)) as [off|]; simpl in *; [|discriminate].
  specialize (A off eq_refl). simpl in A.
  pose proof (lookup_shape _ _ (vloc w) S) as L.
  destruct (lookup (vloc w) (s_heap st)) as [c|]; [|discriminate].
  destruct (lookup (vloc w) (s_heap st2)) as [c2|]; [|contradiction].
  unfold in_block in A. rewrite <- L in *.
  destruct ((0 <=? off) && (off <? Z.of_nat (length c))); [|discriminate].
  inversion H; subst. inversion A. reflexivity.
Qed.

(** ** expressions *)
Definition agree_reads (evs : list event) (st st2 : state) : Prop :=
  forall c, In (KRead, c) evs -> get st2 c = get st c.

Lemma agree_reads_app : forall a b st st2,
  agree_reads (a ++ b) st st2 <-> agree_reads a st st2 /\ agree_reads b st st2.
Proof.
  intros a b st st2. unfold agree_reads. split.
  - intros H. split; intros c I; apply H; apply in_or_app; [left|right]; assumption.
  - intros [Ha Hb] c I. apply in_app_or in I. destruct I; auto.
Qed.

Definition eval_ok (e : expr) : Prop :=
  forall st st2 v, sim st st2 -> eval st e = Ok v -> agree_reads (reads_e st e) st st2 ->
    eval st2 e = Ok v /\ reads_e st2 e = reads_e st e.

Lemma eval_ints_ok : forall l, Forall eval_ok l ->
  forall st st2 zs, sim st st2 -> eval_ints st l = Ok zs -> agree_reads (reads_list st l) st st2 ->
    eval_ints st2 l = Ok zs /\ reads_list st2 l = reads_list st l.
Proof.
  induction 1 as [|a r Ha _ IH]; intros st st2 zs S E A.
  - simpl in *. split; [assumption|reflexivity].
  - change (reads_list st (a :: r)) with (reads_e st a ++ reads_list st r) in *.
    change (reads_list st2 (a :: r)) with (reads_e st2 a ++ reads_list st2 r).
    apply agree_reads_app in A. destruct A as [A1 A2].
    simpl in E. destruct (eval st a) as [v|] eqn:Ea; simpl in E; [|discriminate].
    destruct (as_int v) as [z|] eqn:Ez; simpl in E; [|discriminate].
    destruct (eval_ints st r) as [zs'|] eqn:Er; simpl in E; [|discriminate].
    destruct (Ha st st2 v S Ea A1) as [Ea2 Ra]. destruct (IH st st2 zs' S Er A2) as [Er2 Rr].
    simpl. rewrite Ea2. simpl. rewrite Ez. simpl. rewrite Er2. simpl. rewrite Ra, Rr. split; [assumption|reflexivity].
Qed.

Lemma eval_vals_ok : forall l, Forall eval_ok l ->
  forall st st2 vs, sim st st2 -> eval_vals st l = Ok vs -> agree_reads (reads_list st l) st st2 ->
    eval_vals st2 l = Ok vs /\ reads_list st2 l = reads_list st l.
Proof.
  induction 1 as [|a r Ha _ IH]; intros st st2 vs S E A.
  - simpl in *. split; [assumption|reflexivity].
  - change (reads_list st (a :: r)) with (reads_e st a ++ reads_list st r) in *.
    change (reads_list st2 (a :: r)) with (reads_e st2 a ++ reads_list st2 r).
    apply agree_reads_app in A. destruct A as [A1 A2].
    simpl in E. destruct (eval st a) as [v|] eqn:Ea; simpl in E; [|discriminate].
    destruct (eval_vals st r) as [vs'|] eqn:Er; simpl in E; [|discriminate].
    destruct (Ha st st2 v S Ea A1) as [Ea2 Ra]. destruct (IH st st2 vs' S Er A2) as [Er2 Rr].
    simpl. rewrite Ea2. simpl. rewrite Er2. simpl. rewrite Ra, Rr. split; [assumption|reflexivity].
Qed.

Lemma eval_waccs_ok : forall l, Forall (Pw eval_ok) l ->
  forall st st2 ws, sim st st2 -> eval_waccs st l = Ok ws -> agree_reads (reads_waccs st l) st st2 ->
    eval_waccs st2 l = Ok ws /\ reads_waccs st2 l = reads_waccs st l.
Proof.
  induction 1 as [|w r Hw _ IH]; intros st st2 ws S E A.
  - simpl in *. split; [assumption|reflexivity].
  - destruct w as [a|lo hi].
    + change (reads_waccs st (Point a :: r)) with (reads_e st a ++ reads_waccs st r) in *.
      change (reads_waccs st2 (Point a :: r)) with (reads_e st2 a ++ reads_waccs st2 r).
      apply agree_reads_app in A. destruct A as [A1 A2].
      simpl in E. destruct (eval st a) as [v|] eqn:Ea; simpl in E; [|discriminate].
      destruct (as_int v) as [z|] eqn:Ez; simpl in E; [|discriminate].
      destruct (eval_waccs st r) as [ws'|] eqn:Er; simpl in E; [|discriminate].
      simpl in Hw. destruct (Hw st st2 v S Ea A1) as [Ea2 Ra]. destruct (IH st st2 ws' S Er A2) as [Er2 Rr].
      simpl. rewrite Ea2. simpl. rewrite Ez. simpl. rewrite Er2. simpl. rewrite Ra, Rr.
      split; [assumption|reflexivity].
    + change (reads_waccs st (Interval lo hi :: r))
        with (reads_e st lo ++ reads_e st hi ++ reads_waccs st r) in *.
      change (reads_waccs st2 (Interval lo hi :: r))
        with (reads_e st2 lo ++ reads_e st2 hi ++ reads_waccs st2 r).
      apply agree_reads_app in A. destruct A as [A1 A]. apply agree_reads_app in A. destruct A as [A2 A3].
      simpl in E. destruct (eval st lo) as [v|] eqn:Ea; simpl in E; [|discriminate].
      destruct (as_int v) as [z|] eqn:Ez; simpl in E; [|discriminate].
      destruct (eval st hi) as [v'|] eqn:Eb; simpl in E; [|discriminate].
      destruct (as_int v') as [z'|] eqn:Ez'; simpl in E; [|discriminate].
      destruct (eval_waccs st r) as [ws'|] eqn:Er; simpl in E; [|discriminate].
      simpl in Hw. destruct Hw as [Hlo Hhi].
      destruct (Hlo st st2 v S Ea A1) as [Ea2 Ra]. destruct (Hhi st st2 v' S Eb A2) as [Eb2 Rb].
      destruct (IH st st2 ws' S Er A3) as [Er2 Rr].
      simpl. rewrite Ea2. simpl. rewrite Ez. simpl. rewrite Eb2. simpl. rewrite Ez'. simpl. rewrite Er2. simpl.
      rewrite Ra, Rb, Rr. split; [assumption|reflexivity].
Qed.

(** the cell addressed by [x[idx]] is the same in similar states that agree on the reads of [idx] *)
Lemma cell_of_sim : forall st st2 x idx zs, sim st st2 ->
  eval_ints st idx = Ok zs -> eval_ints st2 idx = Ok zs -> cell_of st2 x idx = cell_of st x idx.
Proof.
  intros st st2 x idx zs S E E2. unfold cell_of. rewrite (sim_get_view st st2 x S), E, E2. reflexivity.
Qed.

Lemma eval_frame : forall e, eval_ok e.
Proof.
  induction e using expr_ind2; intros st st2 v S E A.
  - (* Var *) simpl in *. destruct S as (Env & _). rewrite <- Env. split; [assumption|reflexivity].
  - simpl in *. split; [assumption|reflexivity].
  - simpl in *. split; [assumption|reflexivity].
  - simpl in *. split; [assumption|reflexivity].
  - (* Read *)
    rewrite eval_Read_eq in *. rewrite reads_e_Read_eq in *.
    apply agree_reads_app in A. destruct A as [A1 A2].
    rewrite (sim_get_view st st2 x S).
    destruct (get_view st x) as [w|] eqn:Ew; simpl in *; [|discriminate].
    destruct (eval_ints st idx) as [zs|] eqn:Ei; simpl in E; [|discriminate].
    destruct (eval_ints_ok idx H st st2 zs S Ei A1) as [Ei2 Ri].
    rewrite Ei2. simpl.
    destruct (cell_read (s_heap st) w zs) as [d|] eqn:Ec; simpl in E; [|discriminate].
    assert (Ec2 : cell_read (s_heap st2) w zs = Ok d).
    { apply (cell_read_sim st st2 w zs S); [|assumption].
      intros off Ho. apply A2. unfold cell_of. rewrite Ew, Ei, Ho. simpl. left. reflexivity. }
    rewrite Ec2. simpl. rewrite Ri, (cell_of_sim st st2 x idx zs S Ei Ei2). split; [assumption|reflexivity].
  - (* USub *)
    simpl in *. destruct (eval st e) as [v0|] eqn:Ee; simpl in E; [|discriminate].
    destruct (IHe st st2 v0 S Ee A) as [E2 R]. rewrite E2. simpl. split; assumption.
  - (* BinOp *)
    simpl in *. apply agree_reads_app in A. destruct A as [A1 A2].
    destruct (eval st e1) as [v1|] eqn:E1; simpl in E; [|discriminate].
    destruct (eval st e2) as [v2|] eqn:E2; simpl in E; [|discriminate].
    destruct (IHe1 st st2 v1 S E1 A1) as [F1 R1]. destruct (IHe2 st st2 v2 S E2 A2) as [F2 R2].
    rewrite F1. simpl. rewrite F2. simpl. rewrite R1, R2. split; [assumption|reflexivity].
  - (* Extern *)
    rewrite eval_Extern_eq in *. rewrite reads_e_Extern_eq in *.
    destruct (eval_vals st args) as [vs|] eqn:Ev; simpl in E; [|discriminate].
    destruct (eval_vals_ok args H st st2 vs S Ev A) as [Ev2 R]. rewrite Ev2. simpl. split; assumption.
  - (* WindowE *) simpl in E. discriminate.
  - (* Stride *)
    simpl in *. rewrite (sim_get_view st st2 x S). split; [assumption|reflexivity].
  - (* ReadCfg *)
    simpl in *. assert (G : get st2 (CCfg c) = get st (CCfg c)) by (apply A; left; reflexivity).
    simpl in G. destruct (lookup c (s_cfg st)) as [v0|]; [|discriminate].
    destruct (lookup c (s_cfg st2)) as [v2|]; [|discriminate]. inversion G; subst.
    split; [assumption|reflexivity].
Qed.

(** ** association lists, blocks *)
Lemma lookup_update_same : forall {A} k (a : A) l, lookup k (update k a l) = Some a.
Proof.
  intros A k a. induction l as [|[k' a'] r IH]; simpl.
  - rewrite Pos.eqb_refl. reflexivity.
  - destruct (Pos.eqb k k') eqn:E; simpl; rewrite ?Pos.eqb_refl, ?E; auto.
Qed.

Lemma lookup_update_other : forall {A} k k' (a : A) l, k' <> k -> lookup k' (update k a l) = lookup k' l.
Proof.
  intros A k k' a l N. induction l as [|[k0 a0] r IH]; simpl.
  - destruct (Pos.eqb k' k) eqn:E; [apply Pos.eqb_eq in E; contradiction|reflexivity].
  - destruct (Pos.eqb k k0) eqn:E; simpl.
    + apply Pos.eqb_eq in E. subst k0.
      destruct (Pos.eqb k' k) eqn:E'; [apply Pos.eqb_eq in E'; contradiction|reflexivity].
    + destruct (Pos.eqb k' k0); [reflexivity|assumption].
Qed.

Fixpoint upd_keys (k : positive) (ks : list positive) : list positive :=
  match ks with
  | [] => [k]
  | k' :: r => if Pos.eqb k k' then k :: r else k' :: upd_keys k r
  end.

Lemma update_keys : forall {A} k (a : A) l, map fst (update k a l) = upd_keys k (map fst l).
Proof.
  intros A k a. induction l as [|[k' a'] r IH]; simpl; [reflexivity|].
  destruct (Pos.eqb k k'); simpl; [reflexivity|rewrite IH; reflexivity].
Qed.

Lemma set_nth_length : forall {A} n (a : A) l, length (set_nth n a l) = length l.
Proof. intros A n a l. revert n. induction l as [|x r IH]; intros [|n]; simpl; auto. Qed.

Lemma nth_set_nth_same : forall {A} n (a d : A) l, (n < length l)%nat -> nth n (set_nth n a l) d = a.
Proof.
  intros A n a d l. revert n. induction l as [|x r IH]; intros [|n] H; simpl in *; try lia; auto.
  apply IH. lia.
Qed.

Lemma nth_set_nth_other : forall {A} n m (a d : A) l, n <> m -> nth m (set_nth n a l) d = nth m l d.
Proof.
  intros A n m a d l. revert n m. induction l as [|x r IH]; intros [|n] [|m] H; simpl; auto; try congruence.
Qed.

Lemma shape_update : forall (h : heap) l cells cells',
  lookup l h = Some cells -> length cells' = length cells -> shape (update l cells' h) = shape h.
Proof.
  induction h as [|[k c] r IH]; intros l cells cells' L E; simpl in *; [discriminate|].
  destruct (Pos.eqb l k) eqn:Q; simpl.
  - inversion L; subst. apply Pos.eqb_eq in Q. subst. rewrite E. reflexivity.
  - rewrite (IH l cells cells' L E). reflexivity.
Qed.

(** ** writing a cell *)
Lemma cell_write_inv : forall h w is d h', cell_write h w is d = Ok h' ->
  exists off cells, flat_index (vdims w) is (voff w) = Ok off /\ lookup (vloc w) h = Some cells /\
    in_block off cells = true /\ h' = update (vloc w) (set_nth (Z.to_nat off) d cells) h.
Proof.
  intros h w is d h' H. unfold cell_write in H.
  destruct (flat_index (vdims w) is (voff w)) as [off|]; simpl in H; [|discriminate].
  destruct (lookup (vloc w) h) as [cells|] eqn:L; [|discriminate].
  destruct ((0 <=? off) && (off <? Z.of_nat (length cells))) eqn:B; [|discriminate].
  inversion H. exists off, cells. repeat split; assumption.
Qed.

Lemma get_with_heap_write : forall st l cells off d c,
  lookup l (s_heap st) = Some cells -> in_block off cells = true ->
  get (with_heap (update l (set_nth (Z.to_nat off) d cells) (s_heap st)) st) c =
  if cell_eqb c (CMem l off) then CData d else get st c.
Proof.
  intros st l cells off d c L B. unfold in_block in B. apply andb_true_iff in B. destruct B as [B1 B2].
  apply Z.leb_le in B1. apply Z.ltb_lt in B2.
  destruct c as [l' o'|f]; simpl; [|reflexivity].
  destruct (Pos.eqb l' l) eqn:Ql; simpl.
  - apply Pos.eqb_eq in Ql. subst l'. rewrite lookup_update_same, L.
    unfold in_block. rewrite set_nth_length.
    destruct (Z.eqb o' off) eqn:Qo.
    + apply Z.eqb_eq in Qo. subst o'.
      assert (X : (0 <=? off) && (off <? Z.of_nat (length cells)) = true)
        by (apply andb_true_iff; split; [apply Z.leb_le|apply Z.ltb_lt]; assumption).
      rewrite X. rewrite nth_set_nth_same; [reflexivity|lia].
    + destruct ((0 <=? o') && (o' <? Z.of_nat (length cells))) eqn:X; [|reflexivity].
      apply andb_true_iff in X. destruct X as [X1 X2]. apply Z.leb_le in X1. apply Z.eqb_neq in Qo.
      rewrite nth_set_nth_other; [reflexivity|]. intros E. apply Qo. lia.
  - rewrite lookup_update_other; [reflexivity|]. intros E. subst. rewrite Pos.eqb_refl in Ql. discriminate.
Qed.

Lemma cell_write_sim : forall st st2 w is d h', sim st st2 ->
  cell_write (s_heap st) w is d = Ok h' ->
  exists h2', cell_write (s_heap st2) w is d = Ok h2' /\ sim (with_heap h' st) (with_heap h2' st2) /\
    exists off, flat_index (vdims w) is (voff w) = Ok off /\
      forall c, get (with_heap h2' st2) c = get (with_heap h' st) c <->
                (cell_eqb c (CMem (vloc w) off) = true \/ get st2 c = get st c).
Proof.
  intros st st2 w is d h' (Env & Nx & Sh) H.
  destruct (cell_write_inv _ _ _ _ _ H) as (off & cells & Fi & L & B & ->).
  pose proof (lookup_shape _ _ (vloc w) Sh) as LS. rewrite L in LS.
  destruct (lookup (vloc w) (s_heap st2)) as [cells2|] eqn:L2; [|contradiction].
  assert (B2 : in_block off cells2 = true) by (unfold in_block in *; rewrite <- LS; assumption).
  exists (update (vloc w) (set_nth (Z.to_nat off) d cells2) (s_heap st2)). split; [|split].
  - unfold cell_write. rewrite Fi. simpl. rewrite L2. unfold in_block in B2. rewrite B2. reflexivity.
  - repeat split; simpl; try assumption.
    rewrite (shape_update _ _ cells _ L), (shape_update _ _ cells2 _ L2); try apply set_nth_length. assumption.
  - exists off. split; [assumption|]. intros c.
    rewrite (get_with_heap_write st _ cells off d c L B), (get_with_heap_write st2 _ cells2 off d c L2 B2).
    destruct (cell_eqb c (CMem (vloc w) off)); split; intros; auto.
    + destruct H0; [discriminate|assumption].
Qed.

(** ** configuration writes *)
Lemma get_write_cfg : forall st f v c,
  get (mkState (s_env st) (s_heap st) (s_next st) (update f v (s_cfg st))) c =
  if cell_eqb c (CCfg f) then CVal v else get st c.
Proof.
  intros st f v [l o|g]; simpl; [reflexivity|].
  destruct (Pos.eqb g f) eqn:Q.
  - apply Pos.eqb_eq in Q. subst. rewrite lookup_update_same. reflexivity.
  - rewrite lookup_update_other; [reflexivity|]. intros E. subst. rewrite Pos.eqb_refl in Q. discriminate.
Qed.

(** ** states that differ in the environment only have the same cells *)
Lemma get_bind_var : forall x b st c, get (bind_var x b st) c = get st c.
Proof. intros. destruct c; reflexivity. Qed.
Lemma get_with_env : forall e st c, get (with_env e st) c = get st c.
Proof. intros. destruct c; reflexivity. Qed.

Lemma sim_bind_var : forall x b st st2, sim st st2 -> sim (bind_var x b st) (bind_var x b st2).
Proof. intros x b st st2 (E & N & S). repeat split; simpl; try assumption. rewrite E. reflexivity. Qed.
Lemma sim_with_env : forall e st st2, sim st st2 -> sim (with_env e st) (with_env e st2).
Proof. intros e st st2 (E & N & S). repeat split; simpl; assumption. Qed.

(** ** expression events are reads *)
Definition only_reads (evs : list event) : Prop := forall k c, In (k, c) evs -> k = KRead.

Lemma only_reads_nil : only_reads [].
Proof. intros k c []. Qed.
Lemma only_reads_app : forall a b, only_reads a -> only_reads b -> only_reads (a ++ b).
Proof. intros a b Ha Hb k c I. apply in_app_or in I. destruct I; eauto. Qed.
Lemma only_reads_map : forall cs, only_reads (map (pair KRead) cs).
Proof. intros cs k c I. apply in_map_iff in I. destruct I as (x & E & _). inversion E. reflexivity. Qed.

Lemma reads_list_only : forall st l, Forall (fun e => only_reads (reads_e st e)) l -> only_reads (reads_list st l).
Proof.
  intros st l H. induction H as [|a r Ha _ IH]; [apply only_reads_nil|].
  change (reads_list st (a :: r)) with (reads_e st a ++ reads_list st r). apply only_reads_app; assumption.
Qed.

Lemma reads_e_only : forall st e, only_reads (reads_e st e).
Proof.
  intros st. induction e using expr_ind2; try (simpl; apply only_reads_nil).
  - rewrite reads_e_Read_eq. apply only_reads_app; [apply reads_list_only; assumption|apply only_reads_map].
  - simpl. assumption.
  - simpl. apply only_reads_app; assumption.
  - rewrite reads_e_Extern_eq. apply reads_list_only; assumption.
  - rewrite reads_e_WindowE_eq. induction H as [|w r Hw _ IH]; [apply only_reads_nil|].
    destruct w as [a|lo hi]; simpl in Hw.
    + change (reads_waccs st (Point a :: r)) with (reads_e st a ++ reads_waccs st r).
      apply only_reads_app; assumption.
    + change (reads_waccs st (Interval lo hi :: r)) with (reads_e st lo ++ reads_e st hi ++ reads_waccs st r).
      destruct Hw. repeat apply only_reads_app; assumption.
  - simpl. intros k c' [E|[]]. inversion E. reflexivity.
Qed.

Lemma reads_list_only' : forall st l, only_reads (reads_list st l).
Proof. intros st l. apply reads_list_only. apply Forall_forall. intros e _. apply reads_e_only. Qed.

Lemma reads_view_only : forall st e, only_reads (reads_view st e).
Proof.
  intros st e. destruct e; simpl; try apply only_reads_nil; [apply reads_list_only'|apply (reads_e_only st (WindowE x acc))].
Qed.

(** ** agreement before / after a statement *)
Definition agree_in (evs : list event) (st st2 : state) : Prop :=
  forall k c, In (k, c) evs -> k <> KWrite -> get st2 c = get st c.

Definition post_agree (evs : list event) (st st2 st' st2' : state) : Prop :=
  forall c, (get st2 c = get st c \/ In (KWrite, c) evs \/ In (KReduce, c) evs) -> get st2' c = get st' c.

Lemma agree_in_app : forall a b st st2, agree_in (a ++ b) st st2 <-> agree_in a st st2 /\ agree_in b st st2.
Proof.
  intros a b st st2. unfold agree_in. split.
  - intros H. split; intros k c I N; apply (H k c); try assumption; apply in_or_app; [left|right]; assumption.
  - intros [Ha Hb] k c I N. apply in_app_or in I. destruct I; eauto.
Qed.

Lemma agree_in_reads : forall evs st st2, agree_in evs st st2 -> agree_reads evs st st2.
Proof. intros evs st st2 H c I. apply (H KRead c I). discriminate. Qed.

Lemma agree_in_nil : forall st st2, agree_in [] st st2.
Proof. intros st st2 k c []. Qed.

(** sequencing *)
Lemma post_agree_seq : forall t1 t2 st st2 st1 st21 st' st2',
  post_agree t1 st st2 st1 st21 -> post_agree t2 st1 st21 st' st2' ->
  post_agree (t1 ++ t2) st st2 st' st2'.
Proof.
  intros t1 t2 st st2 st1 st21 st' st2' P1 P2 c H. apply P2.
  destruct H as [H|[H|H]].
  - left. apply P1. left. assumption.
  - apply in_app_or in H. destruct H as [H|H]; [left; apply P1; right; left; assumption|right; left; assumption].
  - apply in_app_or in H. destruct H as [H|H]; [left; apply P1; right; right; assumption|right; right; assumption].
Qed.

Lemma agree_in_mid : forall t1 t2 st st2 st1 st21,
  agree_in t2 st st2 -> post_agree t1 st st2 st1 st21 -> agree_in t2 st1 st21.
Proof. intros t1 t2 st st2 st1 st21 A P k c I N. apply P. left. apply (A k c I N). Qed.

Lemma post_agree_id : forall st st2, post_agree [] st st2 st st2.
Proof. intros st st2 c [H|[[]|[]]]. assumption. Qed.

(** a statement whose only non-read event is on [cells] and which makes exactly those cells (and the ones
    that agreed) agree *)
Lemma post_agree_reads_then : forall rd k cells st st2 st' st2',
  only_reads rd ->
  (forall c, (In c cells \/ get st2 c = get st c) -> get st2' c = get st' c) ->
  post_agree (rd ++ map (pair k) cells) st st2 st' st2'.
Proof.
  intros rd k cells st st2 st' st2' OR H c [A|[I|I]].
  - apply H. right. assumption.
  - apply in_app_or in I. destruct I as [I|I]; [apply OR in I; discriminate|].
    apply in_map_iff in I. destruct I as (x & E & Ix). inversion E; subst. apply H. left. assumption.
  - apply in_app_or in I. destruct I as [I|I]; [apply OR in I; discriminate|].
    apply in_map_iff in I. destruct I as (x & E & Ix). inversion E; subst. apply H. left. assumption.
Qed.

Lemma post_agree_reads_only : forall rd st st2 st' st2',
  only_reads rd -> (forall c, get st2 c = get st c -> get st2' c = get st' c) ->
  post_agree rd st st2 st' st2'.
Proof.
  intros rd st st2 st' st2' OR H c [A|[I|I]]; [auto|apply OR in I; discriminate|apply OR in I; discriminate].
Qed.

Definition lockstep (s : stmt) : Prop :=
  forall ord d sub st st2 st' t, sim st st2 -> exec_fp ord d sub s st = Ok (st', t) -> agree_in (fst t) st st2 ->
    exists st2', exec_fp ord d sub s st2 = Ok (st2', t) /\ sim st' st2' /\ post_agree (fst t) st st2 st' st2'.

Lemma all_eval_ok : forall l, Forall eval_ok l.
Proof. intros l. apply Forall_forall. intros e _. apply eval_frame. Qed.

Lemma cell_of_single : forall st x idx w zs off,
  get_view st x = Ok w -> eval_ints st idx = Ok zs -> flat_index (vdims w) zs (voff w) = Ok off ->
  cell_of st x idx = [CMem (vloc w) off].
Proof. intros st x idx w zs off H1 H2 H3. unfold cell_of. rewrite H1, H2, H3. reflexivity. Qed.

Lemma cell_eqb_refl : forall c, cell_eqb c c = true.
Proof. intros [l o|f]; simpl; rewrite ?Pos.eqb_refl, ?Z.eqb_refl; reflexivity. Qed.

Lemma lockstep_Assign : forall x idx rhs, lockstep (Assign x idx rhs).
Proof.
  intros x idx rhs ord d sub st st2 st' t S E A. simpl in E.
  destruct (get_view st x) as [w|] eqn:Ew; simpl in E; [|discriminate].
  destruct (eval_ints st idx) as [zs|] eqn:Ei; simpl in E; [|discriminate].
  destruct (eval st rhs) as [v|] eqn:Er; simpl in E; [|discriminate].
  destruct (as_data v) as [dv|] eqn:Ed; simpl in E; [|discriminate].
  destruct (cell_write (s_heap st) w zs dv) as [h|] eqn:Ec; simpl in E; [|discriminate].
  inversion E; subst st' t; clear E. simpl in A.
  apply agree_in_app in A. destruct A as [A1 A]. apply agree_in_app in A. destruct A as [A2 _].
  destruct (eval_ints_ok idx (all_eval_ok idx) st st2 zs S Ei (agree_in_reads _ _ _ A1)) as [Ei2 Ri].
  destruct (eval_frame rhs st st2 v S Er (agree_in_reads _ _ _ A2)) as [Er2 Rr].
  destruct (cell_write_sim st st2 w zs dv h S Ec) as (h2 & Ec2 & S' & off & Fi & G).
  exists (with_heap h2 st2). simpl. rewrite (sim_get_view st st2 x S), Ew. simpl. rewrite Ei2. simpl.
  rewrite Er2. simpl. rewrite Ed. simpl. rewrite Ec2. simpl.
  rewrite Ri, Rr, (cell_of_sim st st2 x idx zs S Ei Ei2).
  split; [reflexivity|]. split; [assumption|]. unfold tev, fst.
  rewrite app_assoc. apply post_agree_reads_then.
  - apply only_reads_app; [apply reads_list_only'|apply reads_e_only].
  - intros c H. apply G. rewrite (cell_of_single st x idx w zs off Ew Ei Fi) in H.
    destruct H as [[<-|[]]|H]; [left; apply cell_eqb_refl|right; assumption].
Qed.

Lemma lockstep_Reduce : forall x idx rhs, lockstep (Reduce x idx rhs).
Proof.
  intros x idx rhs ord d sub st st2 st' t S E A. simpl in E.
  destruct (get_view st x) as [w|] eqn:Ew; simpl in E; [|discriminate].
  destruct (eval_ints st idx) as [zs|] eqn:Ei; simpl in E; [|discriminate].
  destruct (eval st rhs) as [v|] eqn:Er; simpl in E; [|discriminate].
  destruct (as_data v) as [dv|] eqn:Ed; simpl in E; [|discriminate].
  destruct (cell_read (s_heap st) w zs) as [old|] eqn:Eo; simpl in E; [|discriminate].
  destruct (cell_write (s_heap st) w zs (dadd old dv)) as [h|] eqn:Ec; simpl in E; [|discriminate].
  inversion E; subst st' t; clear E. simpl in A.
  apply agree_in_app in A. destruct A as [A1 A]. apply agree_in_app in A. destruct A as [A2 A3].
  destruct (eval_ints_ok idx (all_eval_ok idx) st st2 zs S Ei (agree_in_reads _ _ _ A1)) as [Ei2 Ri].
  destruct (eval_frame rhs st st2 v S Er (agree_in_reads _ _ _ A2)) as [Er2 Rr].
  destruct (cell_write_sim st st2 w zs (dadd old dv) h S Ec) as (h2 & Ec2 & S' & off & Fi & G).
  assert (Eo2 : cell_read (s_heap st2) w zs = Ok old).
  { apply (cell_read_sim st st2 w zs S); [|assumption]. intros off' Fi'. rewrite Fi in Fi'. inversion Fi'; subst off'.
    apply (A3 KReduce); [|discriminate]. rewrite (cell_of_single st x idx w zs off Ew Ei Fi). left. reflexivity. }
  exists (with_heap h2 st2). simpl. rewrite (sim_get_view st st2 x S), Ew. simpl. rewrite Ei2. simpl.
  rewrite Er2. simpl. rewrite Ed. simpl. rewrite Eo2. simpl. rewrite Ec2. simpl.
  rewrite Ri, Rr, (cell_of_sim st st2 x idx zs S Ei Ei2).
  split; [reflexivity|]. split; [assumption|]. unfold tev, fst.
  rewrite app_assoc. apply post_agree_reads_then.
  - apply only_reads_app; [apply reads_list_only'|apply reads_e_only].
  - intros c H. apply G. rewrite (cell_of_single st x idx w zs off Ew Ei Fi) in H.
    destruct H as [[<-|[]]|H]; [left; apply cell_eqb_refl|right; assumption].
Qed.

Lemma cell_eqb_true : forall a b, cell_eqb a b = true -> a = b.
Proof.
  intros [l o|f] [l' o'|f']; simpl; intros H; try discriminate.
  - apply andb_true_iff in H. destruct H as [H1 H2]. apply Pos.eqb_eq in H1. apply Z.eqb_eq in H2. congruence.
  - apply Pos.eqb_eq in H. congruence.
Qed.

Lemma lockstep_WriteCfg : forall c rhs, lockstep (WriteCfg c rhs).
Proof.
  intros f rhs ord d sub st st2 st' t S E A. simpl in E.
  destruct (eval st rhs) as [v|] eqn:Er; simpl in E; [|discriminate].
  inversion E; subst st' t; clear E. simpl in A.
  apply agree_in_app in A. destruct A as [A1 _].
  destruct (eval_frame rhs st st2 v S Er (agree_in_reads _ _ _ A1)) as [Er2 Rr].
  eexists. simpl. rewrite Er2. simpl. rewrite Rr. split; [reflexivity|]. split.
  - destruct S as (Env & Nx & Sh). repeat split; simpl; assumption.
  - unfold tev, fst. change [(KWrite, CCfg f)] with (map (pair KWrite) [CCfg f]).
    apply post_agree_reads_then; [apply reads_e_only|].
    intros c H. rewrite !get_write_cfg.
    destruct (cell_eqb c (CCfg f)) eqn:Q; [reflexivity|].
    destruct H as [[<-|[]]|H]; [rewrite cell_eqb_refl in Q; discriminate|assumption].
Qed.

Lemma lockstep_Pass : lockstep Pass.
Proof.
  intros ord d sub st st2 st' t S E A. simpl in E. inversion E; subst.
  exists st2. split; [reflexivity|]. split; [assumption|apply post_agree_id].
Qed.

Lemma get_alloc : forall n st c,
  get (snd (alloc_block n st)) c =
  match c with
  | CMem l o => if Pos.eqb l (s_next st)
                then (if in_block o (repeat None n) then CData (nth (Z.to_nat o) (repeat None n) None) else CNone)
                else get st c
  | CCfg _ => get st c
  end.
Proof. intros n st [l o|f]; simpl; [|reflexivity]. destruct (Pos.eqb l (s_next st)); reflexivity. Qed.

Lemma lockstep_Alloc : forall x sh, lockstep (Alloc x sh).
Proof.
  intros x sh ord d sub st st2 st' t S E A. simpl in E.
  destruct (eval_ints st sh) as [zs|] eqn:Ei; simpl in E; [|discriminate].
  destruct (all_pos zs) eqn:Ep; [|discriminate].
  inversion E; subst st' t; clear E. simpl in A.
  destruct (eval_ints_ok sh (all_eval_ok sh) st st2 zs S Ei (agree_in_reads _ _ _ A)) as [Ei2 Ri].
  eexists. simpl. rewrite Ei2. simpl. rewrite Ep. rewrite Ri.
  destruct S as (Env & Nx & Sh).
  split; [rewrite <- Nx; reflexivity|]. split.
  - repeat split; simpl; try assumption; try (rewrite Env; reflexivity); try (rewrite Nx; reflexivity).
    rewrite repeat_length, Nx, Sh. reflexivity.
  - unfold tev, fst. apply post_agree_reads_only; [apply reads_list_only'|].
    intros c H. rewrite !get_bind_var.
    set (n := Z.to_nat (fold_right Z.mul 1 zs)).
    change (mkState (s_env st) ((s_next st, repeat None n) :: s_heap st) (Pos.succ (s_next st)) (s_cfg st))
      with (snd (alloc_block n st)).
    change (mkState (s_env st2) ((s_next st, repeat None n) :: s_heap st2) (Pos.succ (s_next st)) (s_cfg st2))
      with (snd (alloc_block n (mkState (s_env st2) (s_heap st2) (s_next st) (s_cfg st2)))).
    rewrite !get_alloc. simpl s_next. destruct c as [l o|f]; [|exact H].
    destruct (Pos.eqb l (s_next st)); [reflexivity|exact H].
Qed.

(** ** tensor-valued expressions *)
Lemma eval_view_ok : forall e st st2 w, sim st st2 -> eval_view st e = Ok w ->
  agree_reads (reads_view st e) st st2 ->
  eval_view st2 e = Ok w /\ reads_view st2 e = reads_view st e.
Proof.
  intros e st st2 w S E A. destruct e; try (simpl in E; discriminate).
  - (* Read *)
    destruct idx as [|a r].
    + simpl in *. rewrite (sim_get_view st st2 x S). split; [assumption|reflexivity].
    + change (eval_view st (Read x (a :: r))) with
        (do w0 <- get_view st x; do is <- eval_ints st (a :: r);
         do off <- flat_index (vdims w0) is (voff w0); Ok (mkView (vloc w0) off [])) in E.
      change (eval_view st2 (Read x (a :: r))) with
        (do w0 <- get_view st2 x; do is <- eval_ints st2 (a :: r);
         do off <- flat_index (vdims w0) is (voff w0); Ok (mkView (vloc w0) off [])).
      change (reads_view st (Read x (a :: r))) with (reads_list st (a :: r)) in *.
      change (reads_view st2 (Read x (a :: r))) with (reads_list st2 (a :: r)).
      rewrite (sim_get_view st st2 x S).
      destruct (get_view st x) as [w0|]; [|discriminate]. cbn [bind] in *.
      destruct (eval_ints st (a :: r)) as [zs|] eqn:Ei; [|discriminate].
      destruct (eval_ints_ok (a :: r) (all_eval_ok _) st st2 zs S Ei A) as [Ei2 Ri].
      rewrite Ei2, Ri. split; [assumption|reflexivity].
  - (* WindowE *)
    change (eval_view st (WindowE x acc)) with
      (do w0 <- get_view st x; do av <- eval_waccs st acc; do r <- apply_window (vdims w0) av (voff w0);
       let (off, dims) := r in Ok (mkView (vloc w0) off dims)) in E.
    change (eval_view st2 (WindowE x acc)) with
      (do w0 <- get_view st2 x; do av <- eval_waccs st2 acc; do r <- apply_window (vdims w0) av (voff w0);
       let (off, dims) := r in Ok (mkView (vloc w0) off dims)).
    change (reads_view st (WindowE x acc)) with (reads_waccs st acc) in *.
    change (reads_view st2 (WindowE x acc)) with (reads_waccs st2 acc).
    rewrite (sim_get_view st st2 x S).
    destruct (get_view st x) as [w0|]; [|discriminate]. cbn [bind] in *.
    destruct (eval_waccs st acc) as [ws|] eqn:Ew; [|discriminate].
    assert (F : Forall (Pw eval_ok) acc).
    { apply Forall_forall. intros [a|lo hi] _; simpl; [apply eval_frame|split; apply eval_frame]. }
    destruct (eval_waccs_ok acc F st st2 ws S Ew A) as [Ew2 Rw].
    rewrite Ew2, Rw. split; [assumption|reflexivity].
Qed.

Lemma lockstep_WindowS : forall x rhs, lockstep (WindowS x rhs).
Proof.
  intros x rhs ord d sub st st2 st' t S E A. simpl in E.
  destruct (eval_view st rhs) as [w|] eqn:Ev; simpl in E; [|discriminate].
  inversion E; subst st' t; clear E. simpl in A.
  destruct (eval_view_ok rhs st st2 w S Ev (agree_in_reads _ _ _ A)) as [Ev2 Rv].
  eexists. simpl. rewrite Ev2. simpl. rewrite Rv. split; [reflexivity|]. split.
  - apply sim_bind_var. assumption.
  - unfold tev, fst. apply post_agree_reads_only; [apply reads_view_only|].
    intros c H. rewrite !get_bind_var. assumption.
Qed.

(** ** statement lists, loops *)
Definition lockstep_run {T} (run : state -> result (state * trace * T)) : Prop :=
  forall st st2 st' t x, sim st st2 -> run st = Ok (st', t, x) -> agree_in (fst t) st st2 ->
    exists st2', run st2 = Ok (st2', t, x) /\ sim st' st2' /\ post_agree (fst t) st st2 st' st2'.

Lemma lockstep_list : forall l, Forall lockstep l ->
  forall ord d sub st st2 st' t, sim st st2 -> exec_list_fp ord d sub l st = Ok (st', t) ->
    agree_in (fst t) st st2 ->
    exists st2', exec_list_fp ord d sub l st2 = Ok (st2', t) /\ sim st' st2' /\ post_agree (fst t) st st2 st' st2'.
Proof.
  induction 1 as [|s r Hs _ IH]; intros ord d sub st st2 st' t S E A.
  - rewrite exec_list_fp_nil in *. inversion E; subst. exists st2.
    split; [reflexivity|]. split; [assumption|apply post_agree_id].
  - rewrite exec_list_fp_cons in *.
    destruct (exec_fp ord d sub s st) as [[st1 t1]|] eqn:E1; simpl in E; [|discriminate].
    destruct (exec_list_fp ord d sub r st1) as [[st'' t2]|] eqn:E2; simpl in E; [|discriminate].
    inversion E; subst st'' t; clear E. simpl in A. apply agree_in_app in A. destruct A as [A1 A2].
    destruct (Hs ord d sub st st2 st1 t1 S E1 A1) as (st21 & F1 & S1 & P1).
    destruct (IH ord d sub st1 st21 st' t2 S1 E2 (agree_in_mid _ _ _ _ _ _ A2 P1)) as (st2' & F2 & S2 & P2).
    exists st2'. rewrite F1. simpl. rewrite F2. simpl. split; [reflexivity|]. split; [assumption|].
    simpl. eapply post_agree_seq; eassumption.
Qed.

Lemma lockstep_iter : forall (bodyfp : Z -> state -> result (state * trace)),
  (forall k st st2 st' t, sim st st2 -> bodyfp k st = Ok (st', t) -> agree_in (fst t) st st2 ->
     exists st2', bodyfp k st2 = Ok (st2', t) /\ sim st' st2' /\ post_agree (fst t) st st2 st' st2') ->
  forall ks st st2 st' t its, sim st st2 -> iter_list_fp ks bodyfp st = Ok (st', t, its) ->
    agree_in (fst t) st st2 ->
    exists st2', iter_list_fp ks bodyfp st2 = Ok (st2', t, its) /\ sim st' st2' /\
                 post_agree (fst t) st st2 st' st2'.
Proof.
  intros bodyfp HB. induction ks as [|k r IH]; intros st st2 st' t its S E A.
  - simpl in *. inversion E; subst. exists st2. split; [reflexivity|]. split; [assumption|apply post_agree_id].
  - simpl in E. destruct (bodyfp k st) as [[st1 t1]|] eqn:E1; simpl in E; [|discriminate].
    destruct (iter_list_fp r bodyfp st1) as [[[st'' t2] its2]|] eqn:E2; simpl in E; [|discriminate].
    inversion E; subst st'' t its; clear E. simpl in A. apply agree_in_app in A. destruct A as [A1 A2].
    destruct (HB k st st2 st1 t1 S E1 A1) as (st21 & F1 & S1 & P1).
    destruct (IH st1 st21 st' t2 its2 S1 E2 (agree_in_mid _ _ _ _ _ _ A2 P1)) as (st2' & F2 & S2 & P2).
    exists st2'. simpl. rewrite F1. simpl. rewrite F2. simpl. split; [reflexivity|]. split; [assumption|].
    simpl. eapply post_agree_seq; eassumption.
Qed.

Lemma lockstep_If : forall c b o, Forall lockstep b -> Forall lockstep o -> lockstep (If c b o).
Proof.
  intros c b o Hb Ho ord d sub st st2 st' t S E A. rewrite exec_fp_If_eq in *.
  destruct (eval st c) as [v|] eqn:Ec; simpl in E; [|discriminate].
  destruct (as_bool v) as [bv|] eqn:Eb; simpl in E; [|discriminate].
  destruct (exec_list_fp ord d sub (if bv then b else o) st) as [[stl tl]|] eqn:El; simpl in E; [|discriminate].
  inversion E; subst st' t; clear E. simpl in A. apply agree_in_app in A. destruct A as [A1 A2].
  destruct (eval_frame c st st2 v S Ec (agree_in_reads _ _ _ A1)) as [Ec2 Rc].
  assert (Hl : Forall lockstep (if bv then b else o)) by (destruct bv; assumption).
  destruct (lockstep_list _ Hl ord d sub st st2 stl tl S El A2) as (stl2 & F & S' & P).
  exists (with_env (s_env st2) stl2). rewrite Ec2. simpl. rewrite Eb. simpl. rewrite F. simpl. rewrite Rc.
  split; [reflexivity|]. split.
  - destruct S as (Env & _). rewrite <- Env. apply sim_with_env. assumption.
  - simpl. intros x H. rewrite !get_with_env. apply P. destruct H as [H|[H|H]]; [left; assumption| |].
    + apply in_app_or in H. destruct H as [H|H]; [apply reads_e_only in H; discriminate|right; left; assumption].
    + apply in_app_or in H. destruct H as [H|H]; [apply reads_e_only in H; discriminate|right; right; assumption].
Qed.

Lemma lockstep_For : forall i lo hi body par, Forall lockstep body -> lockstep (For i lo hi body par).
Proof.
  intros i lo hi body par Hb ord d sub st st2 st' t Sm E A. rewrite exec_fp_For_eq in *.
  destruct (eval st lo) as [vl|] eqn:Elo; simpl in E; [|discriminate].
  destruct (as_int vl) as [l|] eqn:El; simpl in E; [|discriminate].
  destruct (eval st hi) as [vh|] eqn:Ehi; simpl in E; [|discriminate].
  destruct (as_int vh) as [h|] eqn:Eh; simpl in E; [|discriminate].
  destruct (h <? l) eqn:Ecmp; [discriminate|].
  set (ks := (if par then ord else fun ks : list Z => ks) (seqZ l (Z.to_nat (h - l)))) in *.
  destruct (iter_list_fp ks (iter_body_fp ord d sub i body) st) as [[[stl tl] its]|] eqn:Ei; simpl in E; [|discriminate].
  inversion E; subst st' t; clear E. simpl in A.
  apply agree_in_app in A. destruct A as [A0 A3]. apply agree_in_app in A0. destruct A0 as [A1 A2].
  destruct (eval_frame lo st st2 vl Sm Elo (agree_in_reads _ _ _ A1)) as [Elo2 Rlo].
  destruct (eval_frame hi st st2 vh Sm Ehi (agree_in_reads _ _ _ A2)) as [Ehi2 Rhi].
  assert (HB : forall k s0 s02 s' t0, sim s0 s02 -> iter_body_fp ord d sub i body k s0 = Ok (s', t0) ->
             agree_in (fst t0) s0 s02 ->
             exists s2', iter_body_fp ord d sub i body k s02 = Ok (s2', t0) /\ sim s' s2' /\
                         post_agree (fst t0) s0 s02 s' s2').
  { intros k s0 s02 s' t0 S0 E0 A0. unfold iter_body_fp in *.
    destruct (exec_list_fp ord (S d) sub body (bind_var i (BVal (VInt k)) s0)) as [[sb tb]|] eqn:Eb; simpl in E0;
      [|discriminate].
    inversion E0; subst s' t0; clear E0.
    destruct (lockstep_list body Hb ord (S d) sub _ _ sb tb (sim_bind_var i (BVal (VInt k)) s0 s02 S0) Eb)
      as (sb2 & F & S' & P).
    { intros k0 c I N. rewrite !get_bind_var. apply (A0 k0 c I N). }
    exists (with_env (s_env s02) sb2). rewrite F. simpl. split; [reflexivity|]. split.
    - destruct S0 as (Env & _). rewrite <- Env. apply sim_with_env. assumption.
    - intros c H. rewrite !get_with_env. apply P. rewrite !get_bind_var. assumption. }
  destruct (lockstep_iter _ HB ks st st2 stl tl its Sm Ei A3) as (stl2 & F & S' & P).
  exists stl2. rewrite Elo2. simpl. rewrite El. simpl. rewrite Ehi2. simpl. rewrite Eh. simpl. rewrite Ecmp.
  fold ks. rewrite F. simpl. rewrite Rlo, Rhi. split; [reflexivity|]. split; [assumption|].
  simpl. intros c H. apply P. destruct H as [H|[H|H]]; [left; assumption| |].
  - apply in_app_or in H. destruct H as [H|H]; [|right; left; assumption].
    apply in_app_or in H. destruct H as [H|H]; apply reads_e_only in H; discriminate.
  - apply in_app_or in H. destruct H as [H|H]; [|right; right; assumption].
    apply in_app_or in H. destruct H as [H|H]; apply reads_e_only in H; discriminate.
Qed.

(** ** calls *)
Lemma reads_actual_only : forall st k e, only_reads (reads_actual st k e).
Proof. intros st k e. destruct k; simpl; try apply reads_e_only; apply reads_view_only. Qed.

Lemma reads_actuals_only : forall formals st es, only_reads (reads_actuals st formals es).
Proof.
  induction formals as [|[x k] fr IH]; intros st [|e er]; simpl; try apply only_reads_nil.
  apply only_reads_app; [apply reads_actual_only|apply IH].
Qed.

Lemma reads_bind_args_only : forall formals acts callee, only_reads (reads_bind_args formals acts callee).
Proof.
  induction formals as [|[x k] fr IH]; intros [|a ar] callee; simpl; try apply only_reads_nil.
  apply only_reads_app; [destruct k; try apply only_reads_nil; apply reads_list_only'|apply IH].
Qed.

Lemma eval_actual_ok : forall k e st st2 b, sim st st2 -> eval_actual st k e = Ok b ->
  agree_reads (reads_actual st k e) st st2 ->
  eval_actual st2 k e = Ok b /\ reads_actual st2 k e = reads_actual st k e.
Proof.
  intros k e st st2 b Sm E A.
  destruct k; simpl in *;
    try (destruct (eval st e) as [v|] eqn:Ee; simpl in E; [|discriminate];
         destruct (eval_frame e st st2 v Sm Ee A) as [E2 R]; rewrite E2; simpl; split; assumption);
    (destruct (eval_view st e) as [w|] eqn:Ee; simpl in E; [|discriminate];
     destruct (eval_view_ok e st st2 w Sm Ee A) as [E2 R]; rewrite E2; simpl; split; assumption).
Qed.

Lemma eval_actuals_ok : forall formals es st st2 acts, sim st st2 ->
  eval_actuals st formals es = Ok acts -> agree_reads (reads_actuals st formals es) st st2 ->
  eval_actuals st2 formals es = Ok acts /\ reads_actuals st2 formals es = reads_actuals st formals es.
Proof.
  induction formals as [|[x k] fr IH]; intros [|e er] st st2 acts Sm E A; simpl in *; try discriminate.
  - split; [assumption|reflexivity].
  - apply agree_reads_app in A. destruct A as [A1 A2].
    destruct (eval_actual st k e) as [b|] eqn:Eb; simpl in E; [|discriminate].
    destruct (eval_actuals st fr er) as [bs|] eqn:Er; simpl in E; [|discriminate].
    destruct (eval_actual_ok k e st st2 b Sm Eb A1) as [Eb2 Rb].
    destruct (IH er st st2 bs Sm Er A2) as [Er2 Rr].
    rewrite Eb2. simpl. rewrite Er2. simpl. rewrite Rb, Rr. split; [assumption|reflexivity].
Qed.

Lemma agree_reads_bind_var : forall evs x b c1 c2,
  agree_reads evs (bind_var x b c1) (bind_var x b c2) <-> agree_reads evs c1 c2.
Proof.
  intros evs x b c1 c2. unfold agree_reads. split; intros H c I; specialize (H c I);
    rewrite ?get_bind_var in *; assumption.
Qed.

Lemma bind_args_ok : forall formals acts c1 c2 callee, sim c1 c2 ->
  bind_args formals acts c1 = Ok callee -> agree_reads (reads_bind_args formals acts c1) c1 c2 ->
  exists callee2, bind_args formals acts c2 = Ok callee2 /\ sim callee callee2 /\
    reads_bind_args formals acts c2 = reads_bind_args formals acts c1 /\
    (forall c, get callee c = get c1 c) /\ (forall c, get callee2 c = get c2 c).
Proof.
  induction formals as [|[x k] fr IH]; intros [|a ar] c1 c2 callee Sm E A; simpl in E; try discriminate.
  - inversion E; subst. exists c2. simpl. split; [reflexivity|]. split; [assumption|]. repeat split; reflexivity.
  - simpl in A. apply agree_reads_app in A. destruct A as [A1 A2].
    assert (Step : forall callee', bind_args fr ar (bind_var x a c1) = Ok callee' ->
              exists callee2, bind_args fr ar (bind_var x a c2) = Ok callee2 /\ sim callee' callee2 /\
                reads_bind_args fr ar (bind_var x a c2) = reads_bind_args fr ar (bind_var x a c1) /\
                (forall c, get callee' c = get c1 c) /\ (forall c, get callee2 c = get c2 c)).
    { intros callee' E'.
      destruct (IH ar _ _ callee' (sim_bind_var x a c1 c2 Sm) E') as (callee2 & F & S' & R & G1 & G2).
      { apply agree_reads_bind_var. assumption. }
      exists callee2. split; [assumption|]. split; [assumption|]. split; [assumption|]. split.
      - intros c. rewrite G1. apply get_bind_var.
      - intros c. rewrite G2. apply get_bind_var. }
    destruct k as [| | | | |shp isw]; destruct a as [v|w]; try discriminate; simpl.
    + (* KSize *) destruct v as [z| |]; try discriminate. destruct (0 <? z); [|discriminate].
      destruct (Step callee E) as (callee2 & F & S' & R & G1 & G2). exists callee2. rewrite F, R. split; [reflexivity|]. split; [assumption|]. split; [reflexivity|]. split; assumption.
    + destruct v as [z| |]; try discriminate.
      destruct (Step callee E) as (callee2 & F & S' & R & G1 & G2). exists callee2. rewrite F, R. split; [reflexivity|]. split; [assumption|]. split; [reflexivity|]. split; assumption.
    + destruct v as [|b|]; try discriminate.
      destruct (Step callee E) as (callee2 & F & S' & R & G1 & G2). exists callee2. rewrite F, R. split; [reflexivity|]. split; [assumption|]. split; [reflexivity|]. split; assumption.
    + destruct v as [z| |]; try discriminate.
      destruct (Step callee E) as (callee2 & F & S' & R & G1 & G2). exists callee2. rewrite F, R. split; [reflexivity|]. split; [assumption|]. split; [reflexivity|]. split; assumption.
    + (* KScalar *) destruct (vdims w); [|discriminate].
      destruct (Step callee E) as (callee2 & F & S' & R & G1 & G2). exists callee2. rewrite F, R. split; [reflexivity|]. split; [assumption|]. split; [reflexivity|]. split; assumption.
    + (* KTensor *)
      destruct (eval_ints c1 shp) as [sh|] eqn:Es; simpl in E; [|discriminate].
      destruct (eval_ints_ok shp (all_eval_ok _) c1 c2 sh Sm Es A1) as [Es2 Rs].
      rewrite Es2. simpl. destruct (all_pos sh); [|discriminate].
      destruct (list_eq_dec Z.eq_dec sh (map fst (vdims w))); [|discriminate].
      destruct (Step callee E) as (callee2 & F & S' & R & G1 & G2). exists callee2. rewrite F, R, Rs.
      split; [reflexivity|]. split; [assumption|]. split; [reflexivity|]. split; assumption.
Qed.

Lemma check_preds_ok : forall ps st st2, sim st st2 -> check_preds st ps = Ok tt ->
  agree_reads (reads_list st ps) st st2 ->
  check_preds st2 ps = Ok tt /\ reads_list st2 ps = reads_list st ps.
Proof.
  induction ps as [|p r IH]; intros st st2 Sm E A.
  - split; reflexivity.
  - change (reads_list st (p :: r)) with (reads_e st p ++ reads_list st r) in *.
    change (reads_list st2 (p :: r)) with (reads_e st2 p ++ reads_list st2 r).
    apply agree_reads_app in A. destruct A as [A1 A2]. simpl in E.
    destruct (eval st p) as [v|] eqn:Ep; simpl in E; [|discriminate].
    destruct (as_bool v) as [b|] eqn:Eb; simpl in E; [|discriminate].
    destruct b; [|discriminate].
    destruct (eval_frame p st st2 v Sm Ep A1) as [Ep2 Rp]. destruct (IH st st2 Sm E A2) as [E2 Rr].
    simpl. rewrite Ep2. simpl. rewrite Eb. simpl. rewrite Rp, Rr. split; [assumption|reflexivity].
Qed.

Lemma lockstep_Call : forall formals preds body args, Forall lockstep body ->
  lockstep (Call (Proc formals preds body) args).
Proof.
  intros formals preds body args Hb ord d sub st st2 st' t Sm E A. rewrite exec_fp_Call_eq in *.
  destruct (eval_actuals st formals args) as [acts|] eqn:Ea; simpl in E; [|discriminate].
  destruct (bind_args formals acts (with_env [] st)) as [callee|] eqn:Eb; simpl in E; [|discriminate].
  destruct (check_preds callee preds) as [[]|] eqn:Ep; simpl in E; [|discriminate].
  destruct (exec_list_fp ord d true body callee) as [[stb tb]|] eqn:El; simpl in E; [|discriminate].
  inversion E; subst st' t; clear E. simpl in A.
  apply agree_in_app in A. destruct A as [A0 A4]. apply agree_in_app in A0. destruct A0 as [A1 A0].
  apply agree_in_app in A0. destruct A0 as [A2 A3].
  destruct (eval_actuals_ok formals args st st2 acts Sm Ea (agree_in_reads _ _ _ A1)) as [Ea2 Ra].
  destruct (bind_args_ok formals acts (with_env [] st) (with_env [] st2) callee (sim_with_env [] st st2 Sm) Eb)
    as (callee2 & Eb2 & Sc & Rb & G1 & G2).
  { intros c I. rewrite !get_with_env. apply (agree_in_reads _ _ _ A2 c I). }
  destruct (check_preds_ok preds callee callee2 Sc Ep) as [Ep2 Rp].
  { intros c I. rewrite G1, G2, !get_with_env. apply (agree_in_reads _ _ _ A3 c I). }
  destruct (lockstep_list body Hb ord d true callee callee2 stb tb Sc El) as (stb2 & F & S' & P).
  { intros k c I N. rewrite G1, G2, !get_with_env. apply (A4 k c I N). }
  exists (with_env (s_env st2) stb2). rewrite Ea2. simpl. rewrite Eb2. simpl. rewrite Ep2. simpl. rewrite F. simpl.
  rewrite Ra, Rb, Rp. split; [reflexivity|]. split.
  - destruct Sm as (Env & _). rewrite <- Env. apply sim_with_env. assumption.
  - simpl. intros c H. rewrite !get_with_env. apply P. rewrite G1, G2, !get_with_env.
    assert (OR : only_reads (reads_actuals st formals args ++ reads_bind_args formals acts (with_env [] st)
                             ++ reads_list callee preds)).
    { repeat apply only_reads_app; [apply reads_actuals_only|apply reads_bind_args_only|apply reads_list_only']. }
    destruct H as [H|[H|H]]; [left; assumption| |].
    + apply in_app_or in H. destruct H as [H|H]; [apply OR in H; discriminate|right; left; assumption].
    + apply in_app_or in H. destruct H as [H|H]; [apply OR in H; discriminate|right; right; assumption].
Qed.

(** ** the theorem *)
Theorem exec_lockstep : forall s, lockstep s.
Proof.
  induction s using stmt_ind2.
  - apply lockstep_Assign.
  - apply lockstep_Reduce.
  - apply lockstep_WriteCfg.
  - apply lockstep_Pass.
  - apply lockstep_If; assumption.
  - apply lockstep_For; assumption.
  - apply lockstep_Alloc.
  - apply lockstep_Call; assumption.
  - apply lockstep_WindowS.
Qed.

Theorem exec_list_lockstep : forall l ord d sub st st2 st' t, sim st st2 ->
  exec_list_fp ord d sub l st = Ok (st', t) -> agree_in (fst t) st st2 ->
  exists st2', exec_list_fp ord d sub l st2 = Ok (st2', t) /\ sim st' st2' /\ post_agree (fst t) st st2 st' st2'.
Proof. intros l. apply lockstep_list. apply Forall_forall. intros s _. apply exec_lockstep. Qed.
