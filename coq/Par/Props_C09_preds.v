(* Props_C09_preds.v — property C09: "If a procedure containing parallel loops compiles, then two different
   iterations of any parallel loop, at any nesting depth and in any sub-procedure, never write or reduce to a
   location that the other reads, writes or reduces, so every execution order gives the sequential result.
   Otherwise compilation fails with an error."
   This file: the predicate algebra, over Gen_EffPreds.v which translator/py2coq_effpreds.py regenerates from
   src/exo/rewrite/new_eff.py (getsets, Disjoint_Memory, Commutes, Check_ParallelizeLoop) on every run.
   Only property theorems; proofs are in Proofs_*.v. *)
From Coq Require Import ZArith List Bool.
From Core Require Import Syntax Sem.
From Par Require Import Footprint SetAlg Gen_EffPreds Proofs_EffPreds Proofs_Bridge.
Import ListNotations.

(* ---- TRANSLATED predicate algebra: Disjoint_Memory on exact footprints is exactly "no location is written or
   reduced by one and read, written or reduced by the other" *)
Theorem C09_disjoint_def : forall (loc : Type) (a1 a2 : basic loc),
  Disjoint_Memory a1 a2 -> disjoint_fp a1 a2.
Proof. exact @disjoint_def. Qed.
Print Assumptions C09_disjoint_def.

Theorem C09_disjoint_def_complete : forall (loc : Type) (a1 a2 : basic loc),
  disjoint_fp a1 a2 -> Disjoint_Memory a1 a2.
Proof. exact @disjoint_def_complete. Qed.
Print Assumptions C09_disjoint_def_complete.

(* the formula Check_ParallelizeLoop hands to the solver: any two DIFFERENT iterations (in either order) have
   disjoint footprints, and no iteration modifies what the loop bounds read *)
Theorem C09_check_sound : forall (loc : Type) (lo hi : Z) (a_bd : basic loc) (fam : Z -> basic loc),
  Check_ParallelizeLoop_pred lo hi a_bd fam ->
  (forall i j, (lo <= i < hi)%Z -> (lo <= j < hi)%Z -> i <> j -> disjoint_fp (fam i) (fam j)) /\
  (forall i c, (lo <= i < hi)%Z -> fpR a_bd c -> ~ fp_mod (fam i) c).
Proof. exact @check_sound_fp. Qed.
Print Assumptions C09_check_sound.

(* the formula is not vacuous: it holds of  for i in par(lo,hi): x[i] = y[i]  and fails of  x[0] = y[i] *)
Theorem C09_check_nonvacuous :
  (forall lo hi, Check_ParallelizeLoop_pred lo hi no_eff fam_copy) /\
  ~ Check_ParallelizeLoop_pred 0 2 no_eff fam_same.
Proof. exact (conj check_accepts_pointwise_loop check_rejects_same_cell). Qed.
Print Assumptions C09_check_nonvacuous.

(* ---- the executable race checker of the search decides the translated Disjoint_Memory on the exact
   footprints (event lists) of two iterations *)
Theorem C09_checker_is_Disjoint_Memory : forall e1 e2,
  find_conflict e1 e2 = None <-> Disjoint_Memory (basic_of_events e1) (basic_of_events e2).
Proof. exact checker_is_Disjoint_Memory. Qed.
Print Assumptions C09_checker_is_Disjoint_Memory.

