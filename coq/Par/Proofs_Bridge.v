(** * Proofs_Bridge.v — on the exact footprints of two event lists the executable checker [find_conflict]
      decides exactly the TRANSLATED predicate [Disjoint_Memory] ([checker_is_Disjoint_Memory]). *)
From Coq Require Import ZArith List Permutation Bool Lia.
From Core Require Import Syntax Sem.
From Par Require Import Footprint Proofs_Races SetAlg Gen_EffPreds Proofs_EffPreds.
Import ListNotations.

(** ** the executable checker decides the translated Disjoint_Memory on exact footprints *)
Definition is_cfg (c : cell) : Prop := match c with CCfg _ => True | CMem _ _ => False end.

(** the six basic sets of an event list: configuration fields are the globals *)
Definition basic_of_events (evs : list event) : basic cell :=
  mkBasic (fun c => In (KRead, c) evs /\ is_cfg c)
          (fun c => In (KWrite, c) evs /\ is_cfg c)
          (fun c => In (KRead, c) evs /\ ~ is_cfg c)
          (fun c => In (KWrite, c) evs /\ ~ is_cfg c)
          (fun c => In (KReduce, c) evs)
          (fun _ => False).

Lemma is_cfg_dec : forall c, is_cfg c \/ ~ is_cfg c.
Proof. intros [l o|f]; simpl; tauto. Qed.

Lemma conflict_with_some : forall e b e', In e' b -> conflict e e' = true -> conflict_with e b <> None.
Proof.
  intros e. induction b as [|x r IH]; intros e' I C; [destruct I|].
  simpl. destruct (conflict e x) eqn:Q; [discriminate|].
  destruct I as [<-|I]; [congruence|eapply IH; eassumption].
Qed.

Lemma find_conflict_none_iff : forall a b,
  find_conflict a b = None <-> (forall e1 e2, In e1 a -> In e2 b -> conflict e1 e2 = false).
Proof.
  intros a b. split; [apply find_conflict_none|].
  induction a as [|x r IH]; intros H; [reflexivity|]. simpl.
  destruct (conflict_with x b) as [e'|] eqn:Q.
  - exfalso. clear IH. revert Q. induction b as [|y s IHb]; [discriminate|].
    simpl. destruct (conflict x y) eqn:Cxy.
    + intros _. rewrite (H x y (or_introl eq_refl) (or_introl eq_refl)) in Cxy. discriminate.
    + apply IHb. intros e1 e2 I1 I2. apply H; [assumption|right; assumption].
  - apply IH. intros e1 e2 I1 I2. apply H; [right; assumption|assumption].
Qed.

Lemma conflict_false_iff : forall k1 c1 k2 c2,
  conflict (k1, c1) (k2, c2) = false <-> (c1 = c2 -> is_mod k1 = false /\ is_mod k2 = false).
Proof.
  intros k1 c1 k2 c2. unfold conflict. simpl. split.
  - intros H ->. rewrite (proj2 (cell_eqb_eq c2 c2) eq_refl) in H. simpl in H.
    apply orb_false_iff in H. assumption.
  - intros H. destruct (cell_eqb c1 c2) eqn:Q; [|reflexivity]. apply cell_eqb_eq in Q.
    destruct (H Q) as [-> ->]. reflexivity.
Qed.

Lemma checker_is_Disjoint_Memory : forall e1 e2,
  find_conflict e1 e2 = None <-> Disjoint_Memory (basic_of_events e1) (basic_of_events e2).
Proof.
  intros e1 e2. rewrite find_conflict_none_iff. split.
  - intros H. apply disjoint_def_complete. intros c.
    unfold fp_mod, fp_touch, fpR, fpW, fpP, basic_of_events. simpl.
    split; intros M T.
    + assert (exists k1, is_mod k1 = true /\ In (k1, c) e1) as (k1 & M1 & I1)
        by (destruct M as [[[? _]|[? _]]|?]; [exists KWrite|exists KWrite|exists KReduce]; split; auto).
      assert (exists k2, In (k2, c) e2) as (k2 & I2)
        by (destruct T as [[[? _]|[? _]]|[[[? _]|[? _]]|?]];
            [exists KRead|exists KRead|exists KWrite|exists KWrite|exists KReduce]; auto).
      destruct (proj1 (conflict_false_iff _ _ _ _) (H _ _ I1 I2) eq_refl) as [N1 N2]. congruence.
    + assert (exists k2, is_mod k2 = true /\ In (k2, c) e2) as (k2 & M2 & I2)
        by (destruct M as [[[? _]|[? _]]|?]; [exists KWrite|exists KWrite|exists KReduce]; split; auto).
      assert (exists k1, In (k1, c) e1) as (k1 & I1)
        by (destruct T as [[[? _]|[? _]]|[[[? _]|[? _]]|?]];
            [exists KRead|exists KRead|exists KWrite|exists KWrite|exists KReduce]; auto).
      destruct (proj1 (conflict_false_iff _ _ _ _) (H _ _ I1 I2) eq_refl) as [N1 N2]. congruence.
  - intros H [k1 c1] [k2 c2] I1 I2. apply conflict_false_iff. intros <-.
    apply disjoint_def in H. destruct (H c1) as [H1 H2].
    unfold fp_mod, fp_touch, fpR, fpW, fpP, basic_of_events in H1, H2. simpl in H1, H2.
    destruct (is_cfg_dec c1) as [G|G].
    + destruct k1, k2; simpl; split; try reflexivity; exfalso; tauto.
    + destruct k1, k2; simpl; split; try reflexivity; exfalso; tauto.
Qed.

