(** * Proofs_Perm.v — the pieces of the permutation argument put together:
      - [perm_events]: ParSem's permutation theorem with footprints = the event lists of Footprint.v and
        race-freedom = what the executable checker [iters_conflict] decides;
      - [perm_exec]: for Core's [exec], pairwise commuting iterations give the sequential result in every
        order. *)
From Coq Require Import ZArith List Permutation Bool Lia.
From Core Require Import Syntax Sem.
From Par Require Import Footprint Proofs_Footprint ParSem Proofs_Races.
Import ListNotations.

(** ** iterations as footprint-reporting actions; footprints = event lists *)
Definition ev_respects (S V : Type) (get : S -> cell -> V) (sim : S -> S -> Prop)
  : action S (list event) -> Prop :=
  respects S cell V get sim (list event) ev_R ev_W ev_P.
Definition ev_run (S : Type) : (Z -> action S (list event)) -> list Z -> S -> option (S * list (Z * list event)) :=
  run_iters S Z (list event).
Definition ev_same (S V : Type) (get : S -> cell -> V) (sim : S -> S -> Prop) : S -> S -> Prop :=
  seqv S cell V get sim.

Lemma perm_events : forall (S V : Type) (get : S -> cell -> V) (sim : S -> S -> Prop),
  (forall s, sim s s) -> (forall s s', sim s s' -> sim s' s) ->
  (forall s s' s'', sim s s' -> sim s' s'' -> sim s s'') ->
  forall (act : Z -> action S (list event)),
  (forall k, ev_respects S V get sim (act k)) ->
  forall its s sf evs,
    ev_run S act its s = Some (sf, evs) ->
    iters_conflict evs = None ->
    forall sigma, Permutation its sigma ->
    exists sf' evs', ev_run S act sigma s = Some (sf', evs') /\ ev_same S V get sim sf sf' /\ Permutation evs evs'.
Proof.
  intros S V get sim R1 R2 R3 act HR its s sf evs E NCf sigma P.
  exact (perm_run S cell V Z cell_eq_dec get sim R1 R2 R3 (list event) ev_R ev_W ev_P act HR its sigma P s sf evs E
           (iters_conflict_none evs NCf)).
Qed.

(** non-vacuity: iterations writing different cells of a memory [cell -> Z] *)
Definition ex_act (k : Z) : action (cell -> Z) (list event) :=
  fun m => Some ((fun c => if cell_eqb c (CMem 1 k) then (m (CMem 1 2) + k)%Z else m c),
                 [(KRead, CMem 1%positive 2%Z); (KWrite, CMem 1%positive k)]).

Example perm_events_nonvacuous :
  (forall k, ev_respects (cell -> Z) Z (fun m c => m c) (fun _ _ => True) (ex_act k)) /\
  exists mf evs, ev_run (cell -> Z) ex_act [0%Z; 1%Z] (fun _ => 7%Z) = Some (mf, evs) /\ iters_conflict evs = None.
Proof.
  split.
  - intros k. constructor.
    + intros m m' f E. inversion E; subst; clear E. split; [exact I|]. intros c NM. cbv beta.
      destruct (cell_eqb c (CMem 1 k)) eqn:Q; [|reflexivity].
      apply cell_eqb_eq in Q. subst. exfalso. apply NM. left. left. reflexivity.
    + intros m m' f E m2 _ A. inversion E; subst; clear E.
      eexists. split; [reflexivity|]. split; [exact I|]. intros c H. cbv beta.
      destruct (cell_eqb c (CMem 1 k)) eqn:Q.
      * rewrite (A (CMem 1 2)); [reflexivity|left; left; reflexivity].
      * destruct H as [H|[H|H]]; [exact H| |destruct H].
        destruct H as [<-|[]]. cbn [snd] in Q. rewrite (proj2 (cell_eqb_eq (CMem 1 k) (CMem 1 k)) eq_refl) in Q. discriminate.
  - eexists. eexists. split; [reflexivity|]. vm_compute. reflexivity.
Qed.

(** ** Core's exec: when different iterations commute, every order gives the sequential result *)
Lemma perm_exec : forall i lo hi body st l h,
  (do vl <- eval st lo; as_int vl) = Ok l -> (do vh <- eval st hi; as_int vh) = Ok h -> (l <= h)%Z ->
  (forall a b st', (l <= a < h)%Z -> (l <= b < h)%Z -> a <> b ->
      (do s1 <- iter_body i body a st'; iter_body i body b s1) =
      (do s1 <- iter_body i body b st'; iter_body i body a s1)) ->
  forall r, exec_par i lo hi body st r -> r = exec (For i lo hi body true) st.
Proof.
  intros i lo hi body st l h Hl Hh Hle HC r (l' & h' & Hl' & Hh' & Hc & sigma & P & E).
  rewrite Hl in Hl'. rewrite Hh in Hh'. inversion Hl'; inversion Hh'; subst l' h'. subst r.
  rewrite (exec_For_order i lo hi body true st l h Hl Hh Hc). unfold exec_order.
  symmetry. apply perm_order_commute; [assumption|apply iterations_NoDup|].
  intros a b st' Ia Ib Hab. apply HC; try assumption; apply iterations_bounds; assumption.
Qed.
