(** * Proofs_Perm.v — the pieces of the permutation argument put together:
      - [perm_events]: ParSem's permutation theorem with footprints = the event lists of Footprint.v and
        race-freedom = what the executable checker [iters_conflict] decides;
      - [perm_exec]: for Core's [exec], pairwise commuting iterations give the sequential result in every
        order. *)
From Coq Require Import ZArith List Permutation Bool Lia.
From Core Require Import Syntax Sem.
From Par Require Import Footprint Proofs_Footprint ParSem Proofs_Races.
Import ListNotations.

(** ** iterations as footprint-reporting actions on a memory of cells *)
Definition ev_action (V : Type) : Type := action cell V (list event).
Definition ev_respects (V : Type) (add : V -> V -> V) : ev_action V -> Prop :=
  respects cell V add (list event) ev_R ev_W ev_P.
Definition ev_run (V : Type) : (Z -> ev_action V) -> list Z -> mem cell V -> option (mem cell V * list (Z * list event)) :=
  run_iters cell V Z (list event).

Lemma perm_events : forall (V : Type) (add : V -> V -> V) (act : Z -> ev_action V),
  (forall k, ev_respects V add (act k)) ->
  forall its m mf evs,
    ev_run V act its m = Some (mf, evs) ->
    iters_conflict evs = None ->
    forall sigma, Permutation its sigma ->
    exists mf' evs', ev_run V act sigma m = Some (mf', evs') /\ meq cell V mf mf' /\ Permutation evs evs'.
Proof.
  intros V add act HR its m mf evs E NCf sigma P.
  exact (perm_run cell V Z cell_eq_dec add (list event) ev_R ev_W ev_P act HR its sigma P m mf evs E
           (iters_conflict_none evs NCf)).
Qed.

(** non-vacuity: two iterations writing different cells of a two-cell memory *)
Definition ex_act (k : Z) : ev_action Z :=
  fun m => Some ((fun c => if cell_eqb c (CMem 1 k) then (m (CMem 1 2) + k)%Z else m c),
                 [(KRead, CMem 1%positive 2%Z); (KWrite, CMem 1%positive k)]).

Example perm_events_nonvacuous :
  (forall k, k <> 2%Z -> ev_respects Z Z.add (ex_act k)) /\
  exists mf evs, ev_run Z ex_act [0%Z; 1%Z] (fun _ => 7%Z) = Some (mf, evs) /\ iters_conflict evs = None.
Proof.
  split.
  - intros k Hk. constructor.
    + intros m m' f E c NM. inversion E; subst; clear E. cbv beta.
      destruct (cell_eqb c (CMem 1 k)) eqn:Q; [|reflexivity].
      apply cell_eqb_eq in Q. subst. exfalso. apply NM. left. left. reflexivity.
    + intros m m' f E m2 A. inversion E; subst; clear E.
      eexists. split; [reflexivity|]. split.
      * intros c Hc. assert (c = CMem 1 k) by (destruct Hc as [<-|[]]; reflexivity). subst c.
        cbv beta. rewrite (proj2 (cell_eqb_eq (CMem 1 k) (CMem 1 k)) eq_refl).
        rewrite (A (CMem 1 2)); [reflexivity|left; reflexivity].
      * intros c [].
  - eexists. eexists. split; [reflexivity|]. vm_compute. reflexivity.
Qed.

(** ** Core's exec: when different iterations commute, every order gives the sequential result *)
Lemma perm_exec : forall i lo hi body st l h,
  (do vl <- eval st lo; as_int vl) = Ok l -> (do vh <- eval st hi; as_int vh) = Ok h -> (l <= h)%Z ->
  (forall a b st', (l <= a < h)%Z -> (l <= b < h)%Z -> a <> b ->
      (do s1 <- iter_body i body a st'; iter_body i body b s1) =
      (do s1 <- iter_body i body b st'; iter_body i body a s1)) ->
  forall r, exec_par i lo hi body st r -> r = exec (For i lo hi body true) st.
Proof.
  intros i lo hi body st l h Hl Hh Hle HC r (l' & h' & Hl' & Hh' & Hc & sigma & P & E).
  rewrite Hl in Hl'. rewrite Hh in Hh'. inversion Hl'; inversion Hh'; subst l' h'. subst r.
  rewrite (exec_For_order i lo hi body true st l h Hl Hh Hc). unfold exec_order.
  symmetry. apply perm_order_commute; [assumption|apply iterations_NoDup|].
  intros a b st' Ia Ib Hab. apply HC; try assumption; apply iterations_bounds; assumption.
Qed.
