(* Props_C09.v — property C09: "If a procedure containing parallel loops compiles, then two different
   iterations of any parallel loop, at any nesting depth and in any sub-procedure, never write or reduce to a
   location that the other reads, writes or reduces, so every execution order gives the sequential result.
   Otherwise compilation fails with an error."
   This file: the instrumented semantics, the race checker and the permutation semantics of par loops
   (hand-written model over coq/Core; independent of the translators).
   Only property theorems; proofs are in Proofs_*.v. *)
From Coq Require Import ZArith List Permutation Bool.
From Core Require Import Syntax Sem.
From Par Require Import Footprint Proofs_Footprint ParSem Proofs_Races Proofs_Perm.
Import ListNotations.

(* ---- the instrumented semantics IS the shared reference semantics (sequential order) *)
Theorem C09_exec_fp_erases : forall d sub s st st' t,
  exec_fp seq_order d sub s st = Ok (st', t) -> exec s st = Ok st'.
Proof. exact exec_fp_erase. Qed.
Print Assumptions C09_exec_fp_erases.

Theorem C09_run_fp_erases : forall p inp, erase_outcome (run_fp seq_order p inp) = run p inp.
Proof. exact run_fp_erases. Qed.
Print Assumptions C09_run_fp_erases.

Theorem C09_races_spec : forall prs, races prs = false ->
  forall pr, In pr prs ->
    ev_race_free (pr_iters pr) /\
    (forall i ei c, In (i, ei) (pr_iters pr) -> In (KRead, c) (pr_bound pr) ->
                    ~ (In (KWrite, c) ei \/ In (KReduce, c) ei)).
Proof. exact races_false. Qed.
Print Assumptions C09_races_spec.

(* ---- every execution order gives the sequential result.
   Iterations are footprint-reporting state transformers on a memory of cells.  HYPOTHESIS (stated, not proved
   for Core.Sem.exec; validated by execution in the harness): each iteration respects the footprint it reports
   (changes only written/reduced cells; re-run on a memory agreeing on the cells read, it reports the same
   footprint, writes the same values and adds the same increments).  Then: if the footprints observed in the
   sequential execution are pairwise conflict-free (the checker finds no pair), every permutation of the
   iterations succeeds, observes the same footprints and ends in the same memory. *)
Theorem C09_perm : forall (V : Type) (add : V -> V -> V) (act : Z -> ev_action V),
  (forall k, ev_respects V add (act k)) ->
  forall its m mf evs,
    ev_run V act its m = Some (mf, evs) ->
    iters_conflict evs = None ->
    forall sigma, Permutation its sigma ->
    exists mf' evs', ev_run V act sigma m = Some (mf', evs') /\ meq cell V mf mf' /\ Permutation evs evs'.
Proof. exact perm_events. Qed.
Print Assumptions C09_perm.

(* the same over Core.Sem.exec itself: the parallel meaning of a loop (ParSem.exec_par: any order of its
   iteration values) coincides with exec's result whenever different iterations commute as state transformers *)
Theorem C09_perm_exec : forall i lo hi body st l h,
  (do vl <- eval st lo; as_int vl) = Ok l -> (do vh <- eval st hi; as_int vh) = Ok h -> (l <= h)%Z ->
  (forall a b st', (l <= a < h)%Z -> (l <= b < h)%Z -> a <> b ->
      (do s1 <- iter_body i body a st'; iter_body i body b s1) =
      (do s1 <- iter_body i body b st'; iter_body i body a s1)) ->
  forall r, exec_par i lo hi body st r -> r = exec (For i lo hi body true) st.
Proof. exact perm_exec. Qed.
Print Assumptions C09_perm_exec.
