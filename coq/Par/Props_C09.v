(* Props_C09.v — property C09: "If a procedure containing parallel loops compiles, then two different
   iterations of any parallel loop, at any nesting depth and in any sub-procedure, never write or reduce to a
   location that the other reads, writes or reduces, so every execution order gives the sequential result.
   Otherwise compilation fails with an error."
   This file: the instrumented semantics, the race checker and the permutation semantics of par loops
   (hand-written model over coq/Core; independent of the translators).
   Only property theorems; proofs are in Proofs_*.v. *)
From Coq Require Import ZArith List Permutation Bool.
From Core Require Import Syntax Sem.
From Par Require Import Footprint Proofs_Footprint ParSem Proofs_Races Proofs_Perm Proofs_Lockstep Proofs_Frame
  Proofs_Instance.
Import ListNotations.

(* ---- the instrumented semantics IS the shared reference semantics (sequential order) *)
Theorem C09_exec_fp_erases : forall d sub s st st' t,
  exec_fp seq_order d sub s st = Ok (st', t) -> exec s st = Ok st'.
Proof. exact exec_fp_erase. Qed.
Print Assumptions C09_exec_fp_erases.

Theorem C09_run_fp_erases : forall p inp, erase_outcome (run_fp seq_order p inp) = run p inp.
Proof. exact run_fp_erases. Qed.
Print Assumptions C09_run_fp_erases.

Theorem C09_races_spec : forall prs, races prs = false ->
  forall pr, In pr prs ->
    ev_race_free (pr_iters pr) /\
    (forall i ei c, In (i, ei) (pr_iters pr) -> In (KRead, c) (pr_bound pr) ->
                    ~ (In (KWrite, c) ei \/ In (KReduce, c) ei)).
Proof. exact races_false. Qed.
Print Assumptions C09_races_spec.

(* ---- the footprints of the instrumented semantics are SOUND for Core.Sem (full language):
   dependence — from any state of the same shape (environment, allocation counter, block sizes) that agrees on the
   cells the execution reads or reduces, the execution succeeds with the same trace and ends in a state of the
   same shape in which every cell that agreed, or that the execution writes or reduces, has the same content *)
Theorem C09_footprint_dependence : forall s ord d sub st st2 st' t,
  sim st st2 -> exec_fp ord d sub s st = Ok (st', t) -> agree_in (fst t) st st2 ->
  exists st2', exec_fp ord d sub s st2 = Ok (st2', t) /\ sim st' st2' /\ post_agree (fst t) st st2 st' st2'.
Proof. exact exec_lockstep. Qed.
Print Assumptions C09_footprint_dependence.

(* frame — an execution that does not allocate (callees included) keeps the allocation counter and the shape of
   the heap and changes only cells that it writes or reduces *)
Theorem C09_footprint_frame : forall s ord d sub st st' t,
  alloc_free s = true -> exec_fp ord d sub s st = Ok (st', t) ->
  s_next st' = s_next st /\ shape (s_heap st') = shape (s_heap st) /\
  forall c, ~ (In (KWrite, c) (fst t) \/ In (KReduce, c) (fst t)) -> get st' c = get st c.
Proof. exact exec_frame. Qed.
Print Assumptions C09_footprint_frame.

(* ---- every execution order gives the sequential result.
   Abstract form: iterations are footprint-reporting transformers of states observed through [get], up to a shape
   equivalence [sim]; each RESPECTS the footprint it reports (ParSem.respects: frame + determinacy).  If the
   footprints observed in the sequential execution are pairwise conflict-free (the checker finds no pair), every
   permutation of the iterations succeeds, observes the same footprints and ends in the same state (same shape,
   same content of every cell). *)
Theorem C09_perm : forall (S V : Type) (get : S -> cell -> V) (sim : S -> S -> Prop),
  (forall s, sim s s) -> (forall s s', sim s s' -> sim s' s) ->
  (forall s s' s'', sim s s' -> sim s' s'' -> sim s s'') ->
  forall (act : Z -> action S (list event)),
  (forall k, ev_respects S V get sim (act k)) ->
  forall its s sf evs,
    ev_run S act its s = Some (sf, evs) ->
    iters_conflict evs = None ->
    forall sigma, Permutation its sigma ->
    exists sf' evs', ev_run S act sigma s = Some (sf', evs') /\ ev_same S V get sim sf sf' /\ Permutation evs evs'.
Proof. exact perm_events. Qed.
Print Assumptions C09_perm.

(* Core.Sem instance, no hypothesis left about the iterations: for a parallel loop whose body does not allocate,
   if the instrumented sequential execution reports no race then EVERY execution of the loop in the parallel
   semantics (ParSem.exec_par: the iterations in any order, executed by Core.Sem) succeeds and ends, like
   Core.Sem.exec, in a state of the same shape with the same content in every heap cell and configuration field *)
Theorem C09_perm_core : forall d sub i lo hi body st st' t,
  alloc_free_list body = true ->
  exec_fp seq_order d sub (For i lo hi body true) st = Ok (st', t) ->
  races (snd t) = false ->
  exec (For i lo hi body true) st = Ok st' /\
  forall r, exec_par i lo hi body st r ->
    exists st'', r = Ok st'' /\ sim st' st'' /\ forall c, get st' c = get st'' c.
Proof. exact par_loop_deterministic. Qed.
Print Assumptions C09_perm_core.

(* a static variant over Core.Sem.exec (any body): the parallel meaning of a loop coincides with exec's result
   whenever different iterations commute as state transformers *)
Theorem C09_perm_exec : forall i lo hi body st l h,
  (do vl <- eval st lo; as_int vl) = Ok l -> (do vh <- eval st hi; as_int vh) = Ok h -> (l <= h)%Z ->
  (forall a b st', (l <= a < h)%Z -> (l <= b < h)%Z -> a <> b ->
      (do s1 <- iter_body i body a st'; iter_body i body b s1) =
      (do s1 <- iter_body i body b st'; iter_body i body a s1)) ->
  forall r, exec_par i lo hi body st r -> r = exec (For i lo hi body true) st.
Proof. exact perm_exec. Qed.
Print Assumptions C09_perm_exec.
