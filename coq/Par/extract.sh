#!/bin/bash
# builds the two extracted drivers of coq/Par:
#   _build/parfp    instrumented interpreter + race checker        (_build/parfp.ml   <- ExtractFp.v)
#   _build/partrav  TRANSLATED traversal of ParallelAnalysis        (_build/partrav.ml <- ExtractTrav.v)
# driver.ml is one source; the sections between (*FP-BEGIN*)/(*FP-END*) resp. (*TRAV-BEGIN*)/(*TRAV-END*) belong
# to one driver only.  A driver whose extracted source is missing (its Coq file did not build) is removed and
# the script exits non-zero after building the other one.
cd "$(dirname "$0")"
mkdir -p _build
rc=0
build() {  # $1 = module name (parfp|partrav)  $2 = section to DELETE (FP|TRAV)  $3 = module to open
  rm -f "_build/$1"
  if [ ! -f "_build/$1.ml" ] || [ ! -f "_build/$1.mli" ]; then echo "extract.sh: _build/$1.ml missing"; rc=1; return; fi
  sed -e "/(\*$2-BEGIN\*)/,/(\*$2-END\*)/d" -e "s/^open Parfp (\*OPEN\*)/open $3/" driver.ml > "_build/driver_$1.ml"
  ( cd _build && ( ocamlfind ocamlopt -O2 -w -a "$1.mli" "$1.ml" "driver_$1.ml" -o "$1" 2>/dev/null \
      || ocamlfind ocamlopt -w -a "$1.mli" "$1.ml" "driver_$1.ml" -o "$1" ) ) || rc=1
}
build parfp TRAV Parfp
build partrav FP Partrav
exit $rc
