(** Extraction of the instrumented interpreter and the race checker (independent of the translators).
    Directives: ExtrOcamlBasic only; Z, positive, Q stay the extracted inductives. *)
From Coq Require Import ZArith List QArith Qcanon.
Import ListNotations.
From Core Require Import Syntax Sem.
From Par Require Import Footprint.
Require Extraction.
Require Import ExtrOcamlBasic.
Extraction Language OCaml.

Definition mk_qc (n : Z) (d : positive) : Qc := Q2Qc (Qmake n d).
Definition qc_num (q : Qc) : Z := Qnum (this q).
Definition qc_den (q : Qc) : positive := Qden (this q).

(** iteration orders of parallel loops offered by the driver *)
Definition ord_seq : list Z -> list Z := fun ks => ks.
Definition ord_rev : list Z -> list Z := @rev Z.
Definition ord_rot : list Z -> list Z := fun ks => match ks with [] => [] | k :: r => r ++ [k] end.

Extraction "_build/parfp.ml" run_fp first_race races nontrivial_pars mk_qc qc_num qc_den ord_seq ord_rev ord_rot.
