(* Props_C09_traverse.v — property C09: "If a procedure containing parallel loops compiles, then two different
   iterations of any parallel loop, at any nesting depth and in any sub-procedure, never write or reduce to a
   location that the other reads, writes or reduces, so every execution order gives the sequential result.
   Otherwise compilation fails with an error."
   This file: the traversal of ParallelAnalysis, over Gen_ParTraverse.v which translator/py2coq_partraverse.py
   regenerates from src/exo/backend/parallel_analysis.py and LoopIR_Rewrite (src/exo/core/LoopIR.py) on every run.
   Only property theorems; proofs are in Proofs_*.v. *)
From Coq Require Import ZArith List Bool.
From Core Require Import Syntax.
From Par Require Import TraverseLang Gen_ParTraverse Proofs_Traverse.
Import ListNotations.

(* ---- TRANSLATED traversal of ParallelAnalysis: every par loop at every nesting depth is checked *)
Theorem C09_all_visited : forall p l, In l (par_loops_of p) -> In l (visited p).
Proof. exact all_visited. Qed.
Print Assumptions C09_all_visited.

(* ... and if ParallelAnalysis.run returns normally, the check was invoked on and passed for every one of them
   ("otherwise compilation fails with an error") *)
Theorem C09_accept_sound : forall chk p, pa_run chk p = true ->
  forall l, In l (par_loops_of p) -> chk l = true /\ In l (visited_with chk p).
Proof. exact accept_sound. Qed.
Print Assumptions C09_accept_sound.

