(** * SetAlg.v — the set algebra the translated effect predicates are stated over (model file).

    A location set is a predicate on an abstract type of locations.  On exact footprints the ternary
    logic of the analysis (new_analysis_core.py: A.Definitely / A.Maybe) collapses to truth, hence
    [ADef p = AMay p = p].  [basic] holds the six sets computed by [get_basic_locsets]:
    exposed global (configuration) reads, global writes, exposed heap reads, heap writes, reductions,
    allocations. *)
Section SetAlg.
  Context {loc : Type}.

  Definition lset := loc -> Prop.

  Definition LEmpty : lset := fun _ => False.
  Definition LUnion (a b : lset) : lset := fun x => a x \/ b x.
  Definition LIsct (a b : lset) : lset := fun x => a x /\ b x.
  Definition LDiff (a b : lset) : lset := fun x => a x /\ ~ b x.
  Definition is_empty (s : lset) : Prop := forall x, ~ s x.

  Definition ADef (p : Prop) : Prop := p.
  Definition AMay (p : Prop) : Prop := p.

  (** [get_changing_globset(env)]: abstracted by the set it denotes *)
  Definition get_changing_globset (s : lset) : lset := s.

  Record basic := mkBasic {
    b_RG : lset; b_WG : lset; b_RH : lset; b_WH : lset; b_preRed : lset; b_Alc : lset
  }.
End SetAlg.
Arguments lset : clear implicits.
Arguments basic : clear implicits.
Arguments mkBasic {loc}.
