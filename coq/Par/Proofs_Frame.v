(** * Proofs_Frame.v — an execution without allocation changes only the cells it writes or reduces, and
      keeps the shape of the heap ([exec_frame]). *)
From Coq Require Import ZArith List Bool Lia.
From Core Require Import Syntax Sem.
From Par Require Import Footprint Proofs_Footprint Proofs_Lockstep.
Import ListNotations.
Local Open Scope Z_scope.

(** no [Alloc] anywhere, callees included *)
Fixpoint alloc_free (s : stmt) : bool :=
  match s with
  | Alloc _ _ => false
  | If _ b o =>
      (fix go (l : list stmt) : bool := match l with [] => true | x :: r => alloc_free x && go r end) b
      && (fix go (l : list stmt) : bool := match l with [] => true | x :: r => alloc_free x && go r end) o
  | For _ _ _ body _ =>
      (fix go (l : list stmt) : bool := match l with [] => true | x :: r => alloc_free x && go r end) body
  | Call f _ =>
      match f with
      | Proc _ _ body =>
          (fix go (l : list stmt) : bool := match l with [] => true | x :: r => alloc_free x && go r end) body
      end
  | _ => true
  end.

Definition alloc_free_list : list stmt -> bool :=
  fix go (l : list stmt) : bool := match l with [] => true | x :: r => alloc_free x && go r end.

Definition mods_in (evs : list event) (c : cell) : Prop := In (KWrite, c) evs \/ In (KReduce, c) evs.

Lemma mods_in_app : forall a b c, mods_in (a ++ b) c <-> mods_in a c \/ mods_in b c.
Proof.
  intros a b c. unfold mods_in. rewrite !in_app_iff. tauto.
Qed.

(** what a frame-respecting run guarantees *)
Definition framed (st st' : state) (evs : list event) : Prop :=
  s_next st' = s_next st /\ shape (s_heap st') = shape (s_heap st) /\
  forall c, ~ mods_in evs c -> get st' c = get st c.

Lemma framed_refl : forall st, framed st st [].
Proof. intros st. repeat split. Qed.

Lemma framed_seq : forall st st1 st' t1 t2, framed st st1 t1 -> framed st1 st' t2 -> framed st st' (t1 ++ t2).
Proof.
  intros st st1 st' t1 t2 (N1 & S1 & G1) (N2 & S2 & G2). split; [congruence|]. split; [congruence|].
  intros c H. rewrite G2, G1; [reflexivity| |]; intros M; apply H; apply mods_in_app; tauto.
Qed.

Lemma framed_weaken : forall st st' t t', framed st st' t -> (forall c, mods_in t c -> mods_in t' c) -> framed st st' t'.
Proof. intros st st' t t' (N & S & G) H. repeat split; try assumption. intros c M. apply G. auto. Qed.

Definition frame_ok (s : stmt) : Prop :=
  forall ord d sub st st' t, alloc_free s = true -> exec_fp ord d sub s st = Ok (st', t) -> framed st st' (fst t).

Lemma frame_write : forall st w zs dv h x idx k rd,
  get_view st x = Ok w -> eval_ints st idx = Ok zs -> cell_write (s_heap st) w zs dv = Ok h ->
  framed st (with_heap h st) (rd ++ map (pair k) (cell_of st x idx)) \/ k = KRead.
Proof.
  intros st w zs dv h x idx k rd Ew Ei Ec. destruct k; [right; reflexivity| |]; left;
    destruct (cell_write_inv _ _ _ _ _ Ec) as (off & cells & Fi & L & B & ->);
    (split; [reflexivity|]; split; [simpl; apply (shape_update _ _ cells); [assumption|apply set_nth_length]|]);
    intros c M; rewrite (get_with_heap_write st _ cells off dv c L B);
    (destruct (cell_eqb c (CMem (vloc w) off)) eqn:Q; [|reflexivity]);
    exfalso; apply M; apply cell_eqb_true in Q; subst c;
    rewrite (cell_of_single st x idx w zs off Ew Ei Fi).
  - left. apply in_or_app. right. left. reflexivity.
  - right. apply in_or_app. right. left. reflexivity.
Qed.

Lemma bind_args_store : forall formals acts c1 callee, bind_args formals acts c1 = Ok callee ->
  s_heap callee = s_heap c1 /\ s_next callee = s_next c1 /\ s_cfg callee = s_cfg c1.
Proof.
  induction formals as [|[x k] fr IH]; intros [|a ar] c1 callee E; simpl in E; try discriminate.
  - inversion E. repeat split.
  - assert (Step : forall callee', bind_args fr ar (bind_var x a c1) = Ok callee' ->
              s_heap callee' = s_heap c1 /\ s_next callee' = s_next c1 /\ s_cfg callee' = s_cfg c1)
      by (intros callee' E'; apply (IH ar _ _ E')).
    destruct k as [| | | | |shp isw]; destruct a as [v|w]; try discriminate;
      repeat match type of E with
             | match ?x with _ => _ end = _ => destruct x eqn:?; try discriminate
             | bind ?x _ = _ => destruct x eqn:?; simpl in E; try discriminate
             end; eauto.
Qed.

Lemma frame_list : forall l, Forall frame_ok l ->
  forall ord d sub st st' t, alloc_free_list l = true -> exec_list_fp ord d sub l st = Ok (st', t) ->
    framed st st' (fst t).
Proof.
  induction 1 as [|s r Hs _ IH]; intros ord d sub st st' t AF E.
  - rewrite exec_list_fp_nil in E. inversion E; subst. apply framed_refl.
  - rewrite exec_list_fp_cons in E. simpl in AF. apply andb_true_iff in AF. destruct AF as [AF1 AF2].
    destruct (exec_fp ord d sub s st) as [[st1 t1]|] eqn:E1; simpl in E; [|discriminate].
    destruct (exec_list_fp ord d sub r st1) as [[st'' t2]|] eqn:E2; simpl in E; [|discriminate].
    inversion E; subst st'' t; clear E. simpl.
    eapply framed_seq; [apply (Hs ord d sub st st1 t1 AF1 E1)|apply (IH ord d sub st1 st' t2 AF2 E2)].
Qed.

Lemma frame_iter : forall (bodyfp : Z -> state -> result (state * trace)),
  (forall k st st' t, bodyfp k st = Ok (st', t) -> framed st st' (fst t)) ->
  forall ks st st' t its, iter_list_fp ks bodyfp st = Ok (st', t, its) -> framed st st' (fst t).
Proof.
  intros bodyfp HB. induction ks as [|k r IH]; intros st st' t its E; simpl in E.
  - inversion E; subst. apply framed_refl.
  - destruct (bodyfp k st) as [[st1 t1]|] eqn:E1; simpl in E; [|discriminate].
    destruct (iter_list_fp r bodyfp st1) as [[[st'' t2] its2]|] eqn:E2; simpl in E; [|discriminate].
    inversion E; subst st'' t its; clear E. simpl.
    eapply framed_seq; [apply (HB k st st1 t1 E1)|apply (IH st1 st' t2 its2 E2)].
Qed.

Lemma framed_reads_prefix : forall st st' rd evs, only_reads rd -> framed st st' evs -> framed st st' (rd ++ evs).
Proof.
  intros st st' rd evs OR F. apply (framed_weaken _ _ evs); [assumption|].
  intros c M. apply mods_in_app. right. assumption.
Qed.

Theorem exec_frame : forall s, frame_ok s.
Proof.
  induction s using stmt_ind2; intros ord d sub st st' t AF E.
  - (* Assign *)
    simpl in E.
    destruct (get_view st x) as [w|] eqn:Ew; simpl in E; [|discriminate].
    destruct (eval_ints st idx) as [zs|] eqn:Ei; simpl in E; [|discriminate].
    destruct (eval st rhs) as [v|] eqn:Er; simpl in E; [|discriminate].
    destruct (as_data v) as [dv|] eqn:Ed; simpl in E; [|discriminate].
    destruct (cell_write (s_heap st) w zs dv) as [h|] eqn:Ec; simpl in E; [|discriminate].
    inversion E; subst st' t; clear E. unfold tev, fst. rewrite app_assoc.
    destruct (frame_write st w zs dv h x idx KWrite (reads_list st idx ++ reads_e st rhs) Ew Ei Ec) as [F|F];
      [exact F|discriminate].
  - (* Reduce *)
    simpl in E.
    destruct (get_view st x) as [w|] eqn:Ew; simpl in E; [|discriminate].
    destruct (eval_ints st idx) as [zs|] eqn:Ei; simpl in E; [|discriminate].
    destruct (eval st rhs) as [v|] eqn:Er; simpl in E; [|discriminate].
    destruct (as_data v) as [dv|] eqn:Ed; simpl in E; [|discriminate].
    destruct (cell_read (s_heap st) w zs) as [old|] eqn:Eo; simpl in E; [|discriminate].
    destruct (cell_write (s_heap st) w zs (dadd old dv)) as [h|] eqn:Ec; simpl in E; [|discriminate].
    inversion E; subst st' t; clear E. unfold tev, fst. rewrite app_assoc.
    destruct (frame_write st w zs (dadd old dv) h x idx KReduce (reads_list st idx ++ reads_e st rhs) Ew Ei Ec)
      as [F|F]; [exact F|discriminate].
  - (* WriteCfg *)
    simpl in E. destruct (eval st rhs) as [v|] eqn:Er; simpl in E; [|discriminate].
    inversion E; subst st' t; clear E. split; [reflexivity|]. split; [reflexivity|].
    intros x M. rewrite get_write_cfg. destruct (cell_eqb x (CCfg c)) eqn:Q; [|reflexivity].
    exfalso. apply M. apply cell_eqb_true in Q. subst x. left. simpl. apply in_or_app. right. left. reflexivity.
  - (* Pass *) simpl in E. inversion E; subst. apply framed_refl.
  - (* If *)
    rewrite exec_fp_If_eq in E. simpl in AF. apply andb_true_iff in AF. destruct AF as [AFb AFo].
    destruct (eval st c) as [v|] eqn:Ec; simpl in E; [|discriminate].
    destruct (as_bool v) as [bv|] eqn:Eb; simpl in E; [|discriminate].
    destruct (exec_list_fp ord d sub (if bv then b else o) st) as [[stl tl]|] eqn:El; simpl in E; [|discriminate].
    inversion E; subst st' t; clear E. simpl.
    apply framed_reads_prefix; [apply reads_e_only|].
    assert (Hl : Forall frame_ok (if bv then b else o)) by (destruct bv; assumption).
    assert (AFl : alloc_free_list (if bv then b else o) = true) by (destruct bv; assumption).
    pose proof (frame_list _ Hl ord d sub st stl tl AFl El) as F.
    destruct F as (N & S & G). split; [exact N|]. split; [exact S|]. intros x M. rewrite get_with_env. apply G. exact M.
  - (* For *)
    rewrite exec_fp_For_eq in E. simpl in AF.
    destruct (eval st lo) as [vl|] eqn:Elo; simpl in E; [|discriminate].
    destruct (as_int vl) as [l|] eqn:El; simpl in E; [|discriminate].
    destruct (eval st hi) as [vh|] eqn:Ehi; simpl in E; [|discriminate].
    destruct (as_int vh) as [h|] eqn:Eh; simpl in E; [|discriminate].
    destruct (h <? l) eqn:Ecmp; [discriminate|].
    set (ks := (if par then ord else fun ks : list Z => ks) (seqZ l (Z.to_nat (h - l)))) in *.
    destruct (iter_list_fp ks (iter_body_fp ord d sub i body) st) as [[[stl tl] its]|] eqn:Ei; simpl in E;
      [|discriminate].
    inversion E; subst st' t; clear E. simpl.
    apply framed_reads_prefix; [apply only_reads_app; apply reads_e_only|].
    apply (frame_iter (iter_body_fp ord d sub i body)) with (ks := ks) (its := its); [|assumption].
    intros k s0 s' t0 E0. unfold iter_body_fp in E0.
    destruct (exec_list_fp ord (Datatypes.S d) sub body (bind_var i (BVal (VInt k)) s0)) as [[sb tb]|] eqn:Eb;
      simpl in E0; [|discriminate].
    inversion E0; subst s' t0; clear E0.
    pose proof (frame_list body H ord (Datatypes.S d) sub _ sb tb AF Eb) as (N & S & G).
    split; [exact N|]. split; [exact S|]. intros x M. rewrite get_with_env, (G x M). apply get_bind_var.
  - (* Alloc *) simpl in AF. discriminate.
  - (* Call *)
    rewrite exec_fp_Call_eq in E. simpl in AF.
    destruct (eval_actuals st a args) as [acts|] eqn:Ea; simpl in E; [|discriminate].
    destruct (bind_args a acts (with_env [] st)) as [callee|] eqn:Eb; simpl in E; [|discriminate].
    destruct (check_preds callee pr) as [[]|] eqn:Ep; simpl in E; [|discriminate].
    destruct (exec_list_fp ord d true body callee) as [[stb tb]|] eqn:El; simpl in E; [|discriminate].
    inversion E; subst st' t; clear E. simpl.
    apply framed_reads_prefix.
    { repeat apply only_reads_app; [apply reads_actuals_only|apply reads_bind_args_only|apply reads_list_only']. }
    pose proof (frame_list body H ord d true callee stb tb AF El) as (N & S & G).
    destruct (bind_args_store _ _ _ _ Eb) as (Hh & Hn & Hc). simpl in Hh, Hn, Hc.
    split; [simpl; congruence|]. split; [simpl; congruence|].
    intros x M. rewrite get_with_env, (G x M). destruct x; simpl; rewrite ?Hh, ?Hc; reflexivity.
  - (* WindowS *)
    simpl in E. destruct (eval_view st rhs) as [w|] eqn:Ev; simpl in E; [|discriminate].
    inversion E; subst st' t; clear E. split; [reflexivity|]. split; [reflexivity|]. intros c M. apply get_bind_var.
Qed.

Theorem exec_list_frame : forall l ord d sub st st' t, alloc_free_list l = true ->
  exec_list_fp ord d sub l st = Ok (st', t) -> framed st st' (fst t).
Proof. intros l. apply frame_list. apply Forall_forall. intros s _. apply exec_frame. Qed.
