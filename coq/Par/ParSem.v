(** * ParSem.v — the meaning of a parallel loop: its iterations executed in ANY order.

    Part 1 (abstract): an iteration is a transformer of states (observed through [get : S -> C -> V],
    up to a shape equivalence [sim]) that reports the footprint it had (cells read / written / reduced).
    It RESPECTS its footprint when
      - it keeps the shape and changes no cell outside the written and reduced ones (frame), and
      - run on any state of the same shape that agrees on the cells it read or reduced, it succeeds with
        the same footprint and leaves equal contents in every cell that agreed or that it writes or
        reduces (determinacy).
    If the footprints observed in the sequential execution are pairwise non-conflicting (what
    [Footprint.races] checks), then every permutation of the iterations succeeds, observes the same
    footprints and ends in the same memory ([perm_run]).

    Part 2 (Core): the parallel meaning of [For i lo hi body true] over [Core.Sem.state] is the set of
    executions of the iteration bodies in any order of the iteration values; [Core.Sem.exec] is the one
    in increasing order ([exec_For_order]).  When different iterations commute as state transformers, all
    orders agree ([perm_order_commute]). *)
From Coq Require Import ZArith List Permutation Bool Lia.
From Core Require Import Syntax Sem.
From Par Require Import Footprint Proofs_Footprint.
Import ListNotations.

(** ** Part 1: footprint-respecting actions *)
Section FpActions.
  (** states, cells, cell contents, iteration identifiers *)
  Variables S C V I : Type.
  Hypothesis Ceq : forall a b : C, {a = b} + {a <> b}.
  Variable get : S -> C -> V.
  (** "same shape": an equivalence that the actions preserve (for Core: same environment, allocation
      counter and block sizes) *)
  Variable sim : S -> S -> Prop.
  Hypothesis sim_refl : forall s, sim s s.
  Hypothesis sim_sym : forall s s', sim s s' -> sim s' s.
  Hypothesis sim_trans : forall s s' s'', sim s s' -> sim s' s'' -> sim s s''.
  (** footprints: any type with the lists of cells read, written and reduced *)
  Variable fp : Type.
  Variables fR fW fP : fp -> list C.

  (** same shape and same content of every cell *)
  Definition seqv (s s' : S) : Prop := sim s s' /\ forall c, get s c = get s' c.

  Definition modifies (f : fp) (c : C) : Prop := In c (fW f) \/ In c (fP f).
  Definition touches (f : fp) (c : C) : Prop := In c (fR f) \/ modifies f c.
  (** no cell is written or reduced by one and read, written or reduced by the other *)
  Definition nonconf (f g : fp) : Prop :=
    forall c, (modifies f c -> ~ touches g c) /\ (modifies g c -> ~ touches f c).

  Lemma nonconf_sym : forall f g, nonconf f g -> nonconf g f.
  Proof. intros f g H c. destruct (H c). split; assumption. Qed.

  Lemma modifies_dec : forall f c, {modifies f c} + {~ modifies f c}.
  Proof.
    intros f c. destruct (in_dec Ceq c (fW f)); [left; left; assumption|].
    destruct (in_dec Ceq c (fP f)); [left; right; assumption|right; intros [?|?]; contradiction].
  Qed.

  Definition action := S -> option (S * fp).

  Record respects (a : action) : Prop := mkRespects {
    (** frame: the shape is kept and only written / reduced cells change *)
    r_frame : forall s s' f, a s = Some (s', f) ->
      sim s s' /\ forall c, ~ modifies f c -> get s' c = get s c;
    (** determinacy: from a state of the same shape that agrees on the cells read or reduced, the action
        succeeds with the same footprint, and every cell that agreed or is written / reduced agrees after *)
    r_det : forall s s' f, a s = Some (s', f) ->
      forall s2, sim s s2 -> (forall c, In c (fR f) \/ In c (fP f) -> get s2 c = get s c) ->
      exists s2', a s2 = Some (s2', f) /\ sim s' s2' /\
        forall c, (get s2 c = get s c \/ modifies f c) -> get s2' c = get s' c
  }.

  Lemma respects_ext : forall a, respects a -> forall s s' f s2,
    a s = Some (s', f) -> seqv s s2 -> exists s2', a s2 = Some (s2', f) /\ seqv s' s2'.
  Proof.
    intros a Ha s s' f s2 E [Sm Q].
    destruct (r_det a Ha s s' f E s2 Sm) as (s2' & E2 & Sm' & G); [intros c _; symmetry; apply Q|].
    exists s2'. split; [assumption|]. split; [assumption|].
    intros c. symmetry. apply G. left. symmetry. apply Q.
  Qed.

  (** two adjacent non-conflicting iterations can be exchanged *)
  Lemma swap : forall a1 a2, respects a1 -> respects a2 ->
    forall s s1 f1 s12 f2, a1 s = Some (s1, f1) -> a2 s1 = Some (s12, f2) -> nonconf f1 f2 ->
    exists s2 s21, a2 s = Some (s2, f2) /\ a1 s2 = Some (s21, f1) /\ seqv s21 s12.
  Proof.
    intros a1 a2 H1 H2 s s1 f1 s12 f2 E1 E2 NCf.
    destruct (r_frame a1 H1 s s1 f1 E1) as [Sm1 Fr1].
    destruct (r_frame a2 H2 s1 s12 f2 E2) as [Sm12 Fr12].
    (* a2 reads and reduces nothing a1 modified *)
    destruct (r_det a2 H2 s1 s12 f2 E2 s (sim_sym _ _ Sm1)) as (s2 & E2' & SmA & GA).
    { intros c Hc. symmetry. apply Fr1. intros M. destruct (NCf c) as [N _]. apply (N M).
      destruct Hc; [left; assumption|right; right; assumption]. }
    destruct (r_frame a2 H2 s s2 f2 E2') as [Sm2 Fr2].
    (* a1 reads and reduces nothing a2 modifies *)
    destruct (r_det a1 H1 s s1 f1 E1 s2 Sm2) as (s21 & E1' & SmB & GB).
    { intros c Hc. apply Fr2. intros M. destruct (NCf c) as [_ N]. apply (N M).
      destruct Hc; [left; assumption|right; right; assumption]. }
    destruct (r_frame a1 H1 s2 s21 f1 E1') as [Sm21 Fr21].
    exists s2, s21. split; [assumption|]. split; [assumption|]. split.
    - apply (sim_trans _ s1); [apply sim_sym; assumption|assumption].
    - intros c. destruct (NCf c) as [N12 N21].
      destruct (modifies_dec f1 c) as [M1|M1].
      + assert (U : ~ modifies f2 c) by (intros M; apply (N12 M1); right; assumption).
        rewrite (GB c (or_intror M1)). symmetry. apply Fr12. assumption.
      + rewrite (Fr21 c M1). destruct (modifies_dec f2 c) as [M2|M2].
        * symmetry. symmetry. apply GA. right. assumption.
        * rewrite (Fr2 c M2), (Fr12 c M2). symmetry. apply Fr1. assumption.
  Qed.

  (** *** executing a list of iterations, collecting each one's footprint *)
  Variable act : I -> action.
  Hypothesis act_respects : forall i, respects (act i).

  Fixpoint run_iters (l : list I) (s : S) : option (S * list (I * fp)) :=
    match l with
    | [] => Some (s, [])
    | i :: r =>
        match act i s with
        | None => None
        | Some (s1, f) =>
            match run_iters r s1 with
            | None => None
            | Some (s2, fs) => Some (s2, (i, f) :: fs)
            end
        end
    end.

  Lemma run_ext : forall l s sf fps s2, run_iters l s = Some (sf, fps) -> seqv s s2 ->
    exists sf2, run_iters l s2 = Some (sf2, fps) /\ seqv sf sf2.
  Proof.
    induction l as [|i r IH]; intros s sf fps s2 E Q; simpl in *.
    - inversion E; subst. exists s2. split; [reflexivity|assumption].
    - destruct (act i s) as [[s1 f]|] eqn:A; [|discriminate].
      destruct (run_iters r s1) as [[sr fs]|] eqn:R; [|discriminate]. inversion E; subst.
      destruct (respects_ext _ (act_respects i) s s1 f s2 A Q) as (s1' & A' & Q1).
      destruct (IH s1 sf fs s1' R Q1) as (sf2 & R' & Qf).
      exists sf2. rewrite A', R'. split; [reflexivity|assumption].
  Qed.

  Definition NC (x y : I * fp) : Prop := nonconf (snd x) (snd y).
  (** the footprints of different iterations are pairwise non-conflicting *)
  Definition race_free (fps : list (I * fp)) : Prop := ForallOrdPairs NC fps.

  Lemma race_free_perm : forall l l', Permutation l l' -> race_free l -> race_free l'.
  Proof.
    unfold race_free. induction 1; intros F.
    - assumption.
    - inversion F; subst. constructor; [|auto]. eapply Permutation_Forall; eassumption.
    - inversion F as [|? ? Fy F1]; subst. inversion F1 as [|? ? Fx F2]; subst.
      inversion Fy as [|? ? Ryx Fy']; subst.
      constructor; [constructor; [apply nonconf_sym; assumption|assumption]|].
      constructor; assumption.
    - auto.
  Qed.

  Lemma seqv_trans : forall a b c, seqv a b -> seqv b c -> seqv a c.
  Proof.
    intros a b c [S1 Q1] [S2 Q2]. split; [eapply sim_trans; eassumption|].
    intros x. rewrite (Q1 x). apply Q2.
  Qed.
  Lemma seqv_sym : forall a b, seqv a b -> seqv b a.
  Proof. intros a b [S1 Q1]. split; [apply sim_sym; assumption|intros x; symmetry; apply Q1]. Qed.
  Lemma seqv_refl : forall a, seqv a a.
  Proof. intros a. split; [apply sim_refl|reflexivity]. Qed.

  Theorem perm_run : forall l l', Permutation l l' ->
    forall s sf fps, run_iters l s = Some (sf, fps) -> race_free fps ->
    exists sf' fps', run_iters l' s = Some (sf', fps') /\ seqv sf sf' /\ Permutation fps fps'.
  Proof.
    induction 1 as [|x l l' P IH|x y l|l l' l'' P1 IH1 P2 IH2]; intros s sf fps E F.
    - exists sf, fps. split; [assumption|]. split; [apply seqv_refl|apply Permutation_refl].
    - simpl in *. destruct (act x s) as [[s1 f]|] eqn:A; [|discriminate].
      destruct (run_iters l s1) as [[sr fs]|] eqn:R; [|discriminate]. inversion E; subst.
      inversion F; subst.
      destruct (IH s1 sf fs R) as (sf' & fs' & R' & Q & Pf); [assumption|].
      exists sf', ((x, f) :: fs'). rewrite R'. split; [reflexivity|]. split; [assumption|].
      apply perm_skip; assumption.
    - simpl in *. destruct (act y s) as [[s1 f1]|] eqn:A1; [|discriminate].
      destruct (act x s1) as [[s12 f2]|] eqn:A2; [|discriminate].
      destruct (run_iters l s12) as [[sr fs]|] eqn:R; [|discriminate]. inversion E; subst.
      inversion F as [|? ? Fy _]; subst. inversion Fy as [|? ? Nyx _]; subst.
      destruct (swap _ _ (act_respects y) (act_respects x) s s1 f1 s12 f2 A1 A2 Nyx)
        as (s2 & s21 & B2 & B1 & Q).
      destruct (run_ext l s12 sf fs s21 R (seqv_sym _ _ Q)) as (sf2 & R' & Qf).
      exists sf2, ((x, f2) :: (y, f1) :: fs). rewrite B2, B1, R'.
      split; [reflexivity|]. split; [assumption|apply perm_swap].
    - destruct (IH1 s sf fps E F) as (sf1 & fps1 & E1 & Q1 & Pf1).
      destruct (IH2 s sf1 fps1 E1 (race_free_perm _ _ Pf1 F)) as (sf2 & fps2 & E2 & Q2 & Pf2).
      exists sf2, fps2. split; [assumption|]. split.
      + eapply seqv_trans; eassumption.
      + eapply Permutation_trans; eassumption.
  Qed.
End FpActions.

(** ** Part 2: the iterations of a Core loop in an arbitrary order *)
(** the iteration values of [for i in (l, h)] *)
Definition iterations (l h : Z) : list Z := seqZ l (Z.to_nat (h - l)).

Fixpoint run_order (step : Z -> state -> result state) (sigma : list Z) (st : state) : result state :=
  match sigma with
  | [] => Ok st
  | k :: r => do st' <- step k st; run_order step r st'
  end.

(** executing the iterations of the loop body in the order [sigma] (bounds already evaluated) *)
Definition exec_order (i : sym) (body : list stmt) (sigma : list Z) (st : state) : result state :=
  run_order (iter_body i body) sigma st.

(** the PARALLEL meaning of [For i lo hi body true]: any order of the iteration values *)
Definition exec_par (i : sym) (lo hi : expr) (body : list stmt) (st : state) (r : result state) : Prop :=
  exists l h, (do vl <- eval st lo; as_int vl) = Ok l /\ (do vh <- eval st hi; as_int vh) = Ok h /\
    ((h <? l)%Z = false) /\
    exists sigma, Permutation (iterations l h) sigma /\ exec_order i body sigma st = r.

Lemma iter_loop_order : forall step n k st, iter_loop n k step st = run_order step (seqZ k n) st.
Proof.
  intros step. induction n as [|n IH]; intros k st; simpl; [reflexivity|].
  destruct (step k st); simpl; [apply IH|reflexivity].
Qed.

(** [Core.Sem.exec] is the increasing order *)
Lemma exec_For_order : forall i lo hi body par st l h,
  (do vl <- eval st lo; as_int vl) = Ok l -> (do vh <- eval st hi; as_int vh) = Ok h ->
  (h <? l)%Z = false ->
  exec (For i lo hi body par) st = exec_order i body (iterations l h) st.
Proof.
  intros i lo hi body par st l h Hl Hh Hc. rewrite exec_For_eq.
  destruct (eval st lo) as [vl|]; simpl in Hl; [|discriminate]. simpl. rewrite Hl. simpl.
  destruct (eval st hi) as [vh|]; simpl in Hh; [|discriminate]. simpl. rewrite Hh. simpl.
  rewrite Hc. unfold exec_order, iterations. apply iter_loop_order.
Qed.

Lemma exec_For_in_par : forall i lo hi body st l h,
  (do vl <- eval st lo; as_int vl) = Ok l -> (do vh <- eval st hi; as_int vh) = Ok h ->
  (h <? l)%Z = false ->
  exec_par i lo hi body st (exec (For i lo hi body true) st).
Proof.
  intros. exists l, h. repeat split; try assumption.
  exists (iterations l h). split; [apply Permutation_refl|].
  symmetry. apply exec_For_order; assumption.
Qed.

(** static version: iterations that commute pairwise can be executed in any order *)
Section Commute.
  Variable step : Z -> state -> result state.

  Lemma perm_order_commute : forall l l', Permutation l l' -> NoDup l ->
    (forall a b st, In a l -> In b l -> a <> b ->
        (do s1 <- step a st; step b s1) = (do s1 <- step b st; step a s1)) ->
    forall st, run_order step l st = run_order step l' st.
  Proof.
    induction 1 as [|x l l' P IH|x y l|l l' l'' P1 IH1 P2 IH2]; intros ND HC st.
    - reflexivity.
    - simpl. inversion ND; subst. destruct (step x st); simpl; [|reflexivity].
      apply IH; [assumption|]. intros u v st' Iu Iv. apply HC; right; assumption.
    - simpl. inversion ND as [|? ? Ny ND']; subst.
      assert (Hxy : y <> x) by (intros ->; apply Ny; left; reflexivity).
      pose proof (HC y x st (or_introl eq_refl) (or_intror (or_introl eq_refl)) Hxy) as E.
      destruct (step y st) as [s1|e1]; destruct (step x st) as [s2|e2]; simpl in *.
      + destruct (step x s1); destruct (step y s2); simpl; inversion E; reflexivity.
      + destruct (step x s1); simpl; inversion E; reflexivity.
      + destruct (step y s2); simpl; inversion E; reflexivity.
      + inversion E; reflexivity.
    - rewrite IH1; [|assumption|assumption].
      apply IH2.
      + eapply Permutation_NoDup; eassumption.
      + intros u v st' Iu Iv. apply HC; eapply Permutation_in; try eassumption; apply Permutation_sym; assumption.
  Qed.
End Commute.

Lemma seqZ_bounds : forall n k x, In x (seqZ k n) <-> (k <= x < k + Z.of_nat n)%Z.
Proof.
  induction n as [|n IH]; intros k x; simpl.
  - split; [intros []|lia].
  - rewrite IH. lia.
Qed.

Lemma seqZ_NoDup : forall n k, NoDup (seqZ k n).
Proof.
  induction n as [|n IH]; intros k; simpl; constructor; [|apply IH].
  rewrite seqZ_bounds. lia.
Qed.

Lemma iterations_NoDup : forall l h, NoDup (iterations l h).
Proof. intros. apply seqZ_NoDup. Qed.

Lemma iterations_bounds : forall l h x, (l <= h)%Z -> In x (iterations l h) <-> (l <= x < h)%Z.
Proof. intros l h x H. unfold iterations. rewrite seqZ_bounds. lia. Qed.
