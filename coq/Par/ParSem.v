(** * ParSem.v — the meaning of a parallel loop: its iterations executed in ANY order.

    Part 1 (abstract): an iteration is a state transformer on a memory [C -> V] that reports the
    footprint it had (cells read / written / reduced).  It RESPECTS its footprint when
      - it changes no cell outside the written and reduced ones (frame), and
      - run on any memory that agrees on the cells it read, it succeeds with the same footprint, writes the
        same values, and adds the same increments to the purely reduced cells (determinacy).
    If the footprints observed in the sequential execution are pairwise non-conflicting (what
    [Footprint.races] checks), then every permutation of the iterations succeeds, observes the same
    footprints and ends in the same memory ([perm_run]).

    Part 2 (Core): the parallel meaning of [For i lo hi body true] over [Core.Sem.state] is the set of
    executions of the iteration bodies in any order of the iteration values; [Core.Sem.exec] is the one
    in increasing order ([exec_For_order]).  When different iterations commute as state transformers, all
    orders agree ([perm_order_commute]). *)
From Coq Require Import ZArith List Permutation Bool Lia.
From Core Require Import Syntax Sem.
From Par Require Import Footprint Proofs_Footprint.
Import ListNotations.

(** ** Part 1: footprint-respecting actions *)
Section FpActions.
  Variables C V I : Type.
  Hypothesis Ceq : forall a b : C, {a = b} + {a <> b}.
  Variable add : V -> V -> V.
  (** footprints: any type with the lists of cells read, written and reduced *)
  Variable fp : Type.
  Variables fR fW fP : fp -> list C.

  Definition mem := C -> V.
  Definition meq (m m' : mem) : Prop := forall c, m c = m' c.

  Definition modifies (f : fp) (c : C) : Prop := In c (fW f) \/ In c (fP f).
  Definition touches (f : fp) (c : C) : Prop := In c (fR f) \/ modifies f c.
  (** no cell is written or reduced by one and read, written or reduced by the other *)
  Definition nonconf (f g : fp) : Prop :=
    forall c, (modifies f c -> ~ touches g c) /\ (modifies g c -> ~ touches f c).

  Lemma nonconf_sym : forall f g, nonconf f g -> nonconf g f.
  Proof. intros f g H c. destruct (H c). split; assumption. Qed.

  Definition action := mem -> option (mem * fp).

  Record respects (a : action) : Prop := mkRespects {
    r_frame : forall m m' f, a m = Some (m', f) -> forall c, ~ modifies f c -> m' c = m c;
    r_det : forall m m' f, a m = Some (m', f) ->
      forall m2, (forall c, In c (fR f) -> m2 c = m c) ->
      exists m2', a m2 = Some (m2', f)
        /\ (forall c, In c (fW f) -> m2' c = m' c)
        /\ (forall c, In c (fP f) -> ~ In c (fW f) -> exists d, m' c = add (m c) d /\ m2' c = add (m2 c) d)
  }.

  Lemma respects_ext : forall a, respects a -> forall m m' f m2,
    a m = Some (m', f) -> meq m m2 -> exists m2', a m2 = Some (m2', f) /\ meq m' m2'.
  Proof.
    intros a Ha m m' f m2 E Q.
    destruct (r_det a Ha m m' f E m2) as (m2' & E2 & HW & HP); [intros c _; symmetry; apply Q|].
    exists m2'. split; [assumption|]. intros c.
    destruct (in_dec Ceq c (fW f)) as [w|nw]; [symmetry; apply HW; assumption|].
    destruct (in_dec Ceq c (fP f)) as [p|np].
    - destruct (HP c p nw) as (d & D1 & D2). rewrite D1, D2, (Q c). reflexivity.
    - assert (N : ~ modifies f c) by (intros [?|?]; contradiction).
      rewrite (r_frame a Ha m m' f E c N), (r_frame a Ha m2 m2' f E2 c N). apply Q.
  Qed.

  (** two adjacent non-conflicting iterations can be exchanged *)
  Lemma swap : forall a1 a2, respects a1 -> respects a2 ->
    forall m m1 f1 m12 f2, a1 m = Some (m1, f1) -> a2 m1 = Some (m12, f2) -> nonconf f1 f2 ->
    exists m2 m21, a2 m = Some (m2, f2) /\ a1 m2 = Some (m21, f1) /\ meq m21 m12.
  Proof.
    intros a1 a2 H1 H2 m m1 f1 m12 f2 E1 E2 NC.
    (* a2 reads nothing a1 modified *)
    destruct (r_det a2 H2 m1 m12 f2 E2 m) as (m2 & E2' & W2 & P2).
    { intros c Hc. symmetry. apply (r_frame a1 H1 m m1 f1 E1). intros M.
      destruct (NC c) as [N _]. apply (N M). left; assumption. }
    (* a1 reads nothing a2 modifies *)
    destruct (r_det a1 H1 m m1 f1 E1 m2) as (m21 & E1' & W1 & P1).
    { intros c Hc. apply (r_frame a2 H2 m m2 f2 E2'). intros M.
      destruct (NC c) as [_ N]. apply (N M). left; assumption. }
    exists m2, m21. split; [assumption|]. split; [assumption|]. intros c.
    destruct (NC c) as [N12 N21].
    destruct (in_dec Ceq c (fW f1)) as [w1|nw1].
    { (* written by a1: untouched by a2 *)
      assert (U : ~ modifies f2 c) by (intros M; apply (N12 (or_introl w1)); right; assumption).
      rewrite (W1 c w1). symmetry. apply (r_frame a2 H2 m1 m12 f2 E2 c U). }
    destruct (in_dec Ceq c (fP f1)) as [p1|np1].
    { assert (U : ~ modifies f2 c) by (intros M; apply (N12 (or_intror p1)); right; assumption).
      destruct (P1 c p1 nw1) as (d & D1 & D2).
      rewrite D2, (r_frame a2 H2 m m2 f2 E2' c U), (r_frame a2 H2 m1 m12 f2 E2 c U), D1. reflexivity. }
    assert (U1 : ~ modifies f1 c) by (intros [?|?]; contradiction).
    rewrite (r_frame a1 H1 m2 m21 f1 E1' c U1).
    destruct (in_dec Ceq c (fW f2)) as [w2|nw2]; [apply W2; assumption|].
    destruct (in_dec Ceq c (fP f2)) as [p2|np2].
    { destruct (P2 c p2 nw2) as (d & D1 & D2).
      rewrite D2, D1, (r_frame a1 H1 m m1 f1 E1 c U1). reflexivity. }
    assert (U2 : ~ modifies f2 c) by (intros [?|?]; contradiction).
    rewrite (r_frame a2 H2 m m2 f2 E2' c U2), (r_frame a2 H2 m1 m12 f2 E2 c U2).
    symmetry. apply (r_frame a1 H1 m m1 f1 E1 c U1).
  Qed.

  (** *** executing a list of iterations, collecting each one's footprint *)
  Variable act : I -> action.
  Hypothesis act_respects : forall i, respects (act i).

  Fixpoint run_iters (l : list I) (m : mem) : option (mem * list (I * fp)) :=
    match l with
    | [] => Some (m, [])
    | i :: r =>
        match act i m with
        | None => None
        | Some (m1, f) =>
            match run_iters r m1 with
            | None => None
            | Some (m2, fs) => Some (m2, (i, f) :: fs)
            end
        end
    end.

  Lemma run_ext : forall l m mf fps m2, run_iters l m = Some (mf, fps) -> meq m m2 ->
    exists mf2, run_iters l m2 = Some (mf2, fps) /\ meq mf mf2.
  Proof.
    induction l as [|i r IH]; intros m mf fps m2 E Q; simpl in *.
    - inversion E; subst. exists m2. split; [reflexivity|assumption].
    - destruct (act i m) as [[m1 f]|] eqn:A; [|discriminate].
      destruct (run_iters r m1) as [[mr fs]|] eqn:R; [|discriminate]. inversion E; subst.
      destruct (respects_ext _ (act_respects i) m m1 f m2 A Q) as (m1' & A' & Q1).
      destruct (IH m1 mf fs m1' R Q1) as (mf2 & R' & Qf).
      exists mf2. rewrite A', R'. split; [reflexivity|assumption].
  Qed.

  Definition NC (x y : I * fp) : Prop := nonconf (snd x) (snd y).
  (** the footprints of different iterations are pairwise non-conflicting *)
  Definition race_free (fps : list (I * fp)) : Prop := ForallOrdPairs NC fps.

  Lemma race_free_perm : forall l l', Permutation l l' -> race_free l -> race_free l'.
  Proof.
    unfold race_free. induction 1; intros F.
    - assumption.
    - inversion F; subst. constructor; [|auto]. eapply Permutation_Forall; eassumption.
    - inversion F as [|? ? Fy F1]; subst. inversion F1 as [|? ? Fx F2]; subst.
      inversion Fy as [|? ? Ryx Fy']; subst.
      constructor; [constructor; [apply nonconf_sym; assumption|assumption]|].
      constructor; assumption.
    - auto.
  Qed.

  Theorem perm_run : forall l l', Permutation l l' ->
    forall m mf fps, run_iters l m = Some (mf, fps) -> race_free fps ->
    exists mf' fps', run_iters l' m = Some (mf', fps') /\ meq mf mf' /\ Permutation fps fps'.
  Proof.
    induction 1 as [|x l l' P IH|x y l|l l' l'' P1 IH1 P2 IH2]; intros m mf fps E F.
    - exists mf, fps. split; [assumption|]. split; [intros c; reflexivity|apply Permutation_refl].
    - simpl in *. destruct (act x m) as [[m1 f]|] eqn:A; [|discriminate].
      destruct (run_iters l m1) as [[mr fs]|] eqn:R; [|discriminate]. inversion E; subst.
      inversion F; subst.
      destruct (IH m1 mf fs R) as (mf' & fs' & R' & Q & Pf); [assumption|].
      exists mf', ((x, f) :: fs'). rewrite R'. split; [reflexivity|]. split; [assumption|].
      apply perm_skip; assumption.
    - simpl in *. destruct (act y m) as [[m1 f1]|] eqn:A1; [|discriminate].
      destruct (act x m1) as [[m12 f2]|] eqn:A2; [|discriminate].
      destruct (run_iters l m12) as [[mr fs]|] eqn:R; [|discriminate]. inversion E; subst.
      inversion F as [|? ? Fy _]; subst. inversion Fy as [|? ? Nyx _]; subst.
      destruct (swap _ _ (act_respects y) (act_respects x) m m1 f1 m12 f2 A1 A2 Nyx)
        as (m2 & m21 & B2 & B1 & Q).
      assert (Q' : meq m12 m21) by (intros c; symmetry; apply Q).
      destruct (run_ext l m12 mf fs m21 R Q') as (mf2 & R' & Qf).
      exists mf2, ((x, f2) :: (y, f1) :: fs). rewrite B2, B1, R'.
      split; [reflexivity|]. split; [assumption|apply perm_swap].
    - destruct (IH1 m mf fps E F) as (mf1 & fps1 & E1 & Q1 & Pf1).
      destruct (IH2 m mf1 fps1 E1 (race_free_perm _ _ Pf1 F)) as (mf2 & fps2 & E2 & Q2 & Pf2).
      exists mf2, fps2. split; [assumption|]. split.
      + intros c. rewrite (Q1 c). apply Q2.
      + eapply Permutation_trans; eassumption.
  Qed.
End FpActions.

(** ** Part 2: the iterations of a Core loop in an arbitrary order *)
(** the iteration values of [for i in (l, h)] *)
Definition iterations (l h : Z) : list Z := seqZ l (Z.to_nat (h - l)).

Fixpoint run_order (step : Z -> state -> result state) (sigma : list Z) (st : state) : result state :=
  match sigma with
  | [] => Ok st
  | k :: r => do st' <- step k st; run_order step r st'
  end.

(** executing the iterations of the loop body in the order [sigma] (bounds already evaluated) *)
Definition exec_order (i : sym) (body : list stmt) (sigma : list Z) (st : state) : result state :=
  run_order (iter_body i body) sigma st.

(** the PARALLEL meaning of [For i lo hi body true]: any order of the iteration values *)
Definition exec_par (i : sym) (lo hi : expr) (body : list stmt) (st : state) (r : result state) : Prop :=
  exists l h, (do vl <- eval st lo; as_int vl) = Ok l /\ (do vh <- eval st hi; as_int vh) = Ok h /\
    ((h <? l)%Z = false) /\
    exists sigma, Permutation (iterations l h) sigma /\ exec_order i body sigma st = r.

Lemma iter_loop_order : forall step n k st, iter_loop n k step st = run_order step (seqZ k n) st.
Proof.
  intros step. induction n as [|n IH]; intros k st; simpl; [reflexivity|].
  destruct (step k st); simpl; [apply IH|reflexivity].
Qed.

(** [Core.Sem.exec] is the increasing order *)
Lemma exec_For_order : forall i lo hi body par st l h,
  (do vl <- eval st lo; as_int vl) = Ok l -> (do vh <- eval st hi; as_int vh) = Ok h ->
  (h <? l)%Z = false ->
  exec (For i lo hi body par) st = exec_order i body (iterations l h) st.
Proof.
  intros i lo hi body par st l h Hl Hh Hc. rewrite exec_For_eq.
  destruct (eval st lo) as [vl|]; simpl in Hl; [|discriminate]. simpl. rewrite Hl. simpl.
  destruct (eval st hi) as [vh|]; simpl in Hh; [|discriminate]. simpl. rewrite Hh. simpl.
  rewrite Hc. unfold exec_order, iterations. apply iter_loop_order.
Qed.

Lemma exec_For_in_par : forall i lo hi body st l h,
  (do vl <- eval st lo; as_int vl) = Ok l -> (do vh <- eval st hi; as_int vh) = Ok h ->
  (h <? l)%Z = false ->
  exec_par i lo hi body st (exec (For i lo hi body true) st).
Proof.
  intros. exists l, h. repeat split; try assumption.
  exists (iterations l h). split; [apply Permutation_refl|].
  symmetry. apply exec_For_order; assumption.
Qed.

(** static version: iterations that commute pairwise can be executed in any order *)
Section Commute.
  Variable step : Z -> state -> result state.

  Lemma perm_order_commute : forall l l', Permutation l l' -> NoDup l ->
    (forall a b st, In a l -> In b l -> a <> b ->
        (do s1 <- step a st; step b s1) = (do s1 <- step b st; step a s1)) ->
    forall st, run_order step l st = run_order step l' st.
  Proof.
    induction 1 as [|x l l' P IH|x y l|l l' l'' P1 IH1 P2 IH2]; intros ND HC st.
    - reflexivity.
    - simpl. inversion ND; subst. destruct (step x st); simpl; [|reflexivity].
      apply IH; [assumption|]. intros u v st' Iu Iv. apply HC; right; assumption.
    - simpl. inversion ND as [|? ? Ny ND']; subst.
      assert (Hxy : y <> x) by (intros ->; apply Ny; left; reflexivity).
      pose proof (HC y x st (or_introl eq_refl) (or_intror (or_introl eq_refl)) Hxy) as E.
      destruct (step y st) as [s1|e1]; destruct (step x st) as [s2|e2]; simpl in *.
      + destruct (step x s1); destruct (step y s2); simpl; inversion E; reflexivity.
      + destruct (step x s1); simpl; inversion E; reflexivity.
      + destruct (step y s2); simpl; inversion E; reflexivity.
      + inversion E; reflexivity.
    - rewrite IH1; [|assumption|assumption].
      apply IH2.
      + eapply Permutation_NoDup; eassumption.
      + intros u v st' Iu Iv. apply HC; eapply Permutation_in; try eassumption; apply Permutation_sym; assumption.
  Qed.
End Commute.

Lemma seqZ_bounds : forall n k x, In x (seqZ k n) <-> (k <= x < k + Z.of_nat n)%Z.
Proof.
  induction n as [|n IH]; intros k x; simpl.
  - split; [intros []|lia].
  - rewrite IH. lia.
Qed.

Lemma seqZ_NoDup : forall n k, NoDup (seqZ k n).
Proof.
  induction n as [|n IH]; intros k; simpl; constructor; [|apply IH].
  rewrite seqZ_bounds. lia.
Qed.

Lemma iterations_NoDup : forall l h, NoDup (iterations l h).
Proof. intros. apply seqZ_NoDup. Qed.

Lemma iterations_bounds : forall l h x, (l <= h)%Z -> In x (iterations l h) <-> (l <= x < h)%Z.
Proof. intros l h x H. unfold iterations. rewrite seqZ_bounds. lia. Qed.
