(* C18 -- Scheduling and compilation are deterministic.  ONLY the property theorems.

   Which set-iteration site of the real code is covered by which theorem (the complete list, regenerated from the
   source on every run, is Gen_Sites.v; column `theorem` of coq/Determ/sites_reviewed.json):

     compile_to_strings, procs      (find_all_subprocs' set-driven DFS -> sorted(key=name) -> seen_procs guard)  C18_emit_perm_procs
     _compile_context_struct        (find_all_configs -> sorted(key=name()) -> `multiple configs` guard)         C18_emit_perm_configs
     struct_defns                   (set of value-hashed dataclasses -> sorted(key=name))                        C18_emit_perm_structs
     _compile_memories              (find_all_mems -> sorted(key=name()), NO guard)          C18_emit_perm_dupkeys_refuted / C18_emit_perm_partial
     _compile_externs               (find_all_externs -> sorted(key=name()+ctype), NO guard) C18_emit_perm_dupkeys_refuted / C18_emit_perm_partial
     needed_helpers                 (set of str iterated WITHOUT sort)                       C18_helpers_refuted / C18_helpers_partial
     the assembled C body                                                                    C18_compile_body_perm
     generate_loopIR's sorted(normalization_list), Sym.__lt__                                C18_sym_sort_perm, C18_sym_shift
     Compiler.new_varname, PrintEnv.get_name, Sym.__eq__, repr(sym) used as keys             C18_names_depend_on_traversal_only
     membership / union / emptiness / error-or-not uses of _FV, live_vars, decls & used ...  C18_set_uses
     every site is in the reviewed table with an acceptable class, except the known findings  C18_sites_all_classified

   Not modelled (runtime truth, covered by the seed / history sweep of harness/props/C18.py): CPython's hashing,
   allocation addresses, garbage collection; DoUnrollBuffer's iteration over a set of ints (class
   seed-independent-hash) and the dict iterations (class insertion-ordered) rest on documented CPython behaviour. *)
From Coq Require Import String List Bool Arith ZArith Permutation.
From Determ Require Import ModelSites Model Gen_Sites ProofsSort ProofsEmit ProofsSym ProofsNames ProofsSites.
Import ListNotations.

(* sorted(key=...) followed by emission is independent of the enumeration of the collected set when keys are unique *)
Theorem C18_emit_perm : forall l1 l2 : list gitem,
  Permutation l1 l2 -> keys_unique g_key l1 ->
  emit (stable_sort String.leb g_key l1) = emit (stable_sort String.leb g_key l2).
Proof. exact emit_perm. Qed.
Print Assumptions C18_emit_perm.

(* the general statement: any stable sort on a key order that is a total order (cmp antisymmetric, Eq = equality,
   Lt transitive) *)
Theorem C18_stable_sort_perm : forall (A K : Type) (cmp : K -> K -> comparison) (key : A -> K),
  good_cmp cmp -> forall l1 l2 : list A,
  Permutation l1 l2 -> keys_unique key l1 ->
  stable_sort (leb_of cmp) key l1 = stable_sort (leb_of cmp) key l2.
Proof. exact stable_sort_perm. Qed.
Print Assumptions C18_stable_sort_perm.

(* procs: guarded by the duplicate-name TypeError -- text, or error with its message, is independent of the order in
   which the set-driven DFS of find_all_subprocs discovers the procedures; no side condition *)
Theorem C18_emit_perm_procs : forall l1 l2 : list gitem,
  Permutation l1 l2 -> compile_procs l1 = compile_procs l2.
Proof. exact compile_procs_perm. Qed.
Print Assumptions C18_emit_perm_procs.

(* configs: guarded as well *)
Theorem C18_emit_perm_configs : forall (lib : string) (l1 l2 : list gitem),
  Permutation l1 l2 -> compile_configs lib l1 = compile_configs lib l2.
Proof. exact compile_configs_perm. Qed.
Print Assumptions C18_emit_perm_configs.

(* window structs: the set holds values and the name determines the value *)
Theorem C18_emit_perm_structs : forall l1 l2 : list wstruct,
  Permutation l1 l2 -> NoDup l1 -> compile_structs l1 = compile_structs l2.
Proof. exact compile_structs_perm. Qed.
Print Assumptions C18_emit_perm_structs.

(* memories / externs have no guard: with two items of one name the stable sort keeps the set order *)
Theorem C18_emit_perm_dupkeys_refuted :
  exists l1 l2 : list gitem,
    Permutation l1 l2 /\ emit (stable_sort String.leb g_key l1) <> emit (stable_sort String.leb g_key l2)
    /\ compile_mems l1 <> compile_mems l2 /\ compile_externs l1 <> compile_externs l2.
Proof. exact emit_perm_dupkeys_refuted. Qed.
Print Assumptions C18_emit_perm_dupkeys_refuted.

Theorem C18_emit_perm_partial : forall l1 l2 : list gitem,
  Permutation l1 l2 -> keys_unique g_key l1 ->
  compile_mems l1 = compile_mems l2 /\ compile_externs l1 = compile_externs l2.
Proof. intros l1 l2 P U. split; [exact (compile_mems_perm l1 l2 P U) | exact (compile_externs_perm l1 l2 P U)]. Qed.
Print Assumptions C18_emit_perm_partial.

(* static helpers are emitted in set order: refuted even with unique names; holds when at most one is needed *)
Theorem C18_helpers_refuted :
  exists l1 l2 : list gitem, Permutation l1 l2 /\ keys_unique g_key l1 /\ compile_helpers l1 <> compile_helpers l2.
Proof. exact helpers_refuted. Qed.
Print Assumptions C18_helpers_refuted.

Theorem C18_helpers_partial : forall l1 l2 : list gitem,
  Permutation l1 l2 -> length l1 <= 1 -> compile_helpers l1 = compile_helpers l2.
Proof. exact helpers_partial. Qed.
Print Assumptions C18_helpers_partial.

(* the helper emission as the current source codes it (Gen_Sites.helpers_emission_sorted is read off the source by
   the site scan): deterministic once it is sorted; until then only when at most one helper is needed *)
Theorem C18_helpers_as_coded : forall l1 l2 : list gitem,
  Permutation l1 l2 -> keys_unique g_key l1 -> (helpers_emission_sorted = true \/ length l1 <= 1) ->
  compile_helpers_gen helpers_emission_sorted l1 = compile_helpers_gen helpers_emission_sorted l2.
Proof. exact (helpers_as_coded helpers_emission_sorted). Qed.
Print Assumptions C18_helpers_as_coded.

(* the whole C body, under exactly the conditions the code does not enforce itself *)
Theorem C18_compile_body_perm : forall e1 e2 : enums,
  Permutation (e_helpers e1) (e_helpers e2) /\ Permutation (e_mems e1) (e_mems e2) /\
  Permutation (e_externs e1) (e_externs e2) /\ Permutation (e_procs e1) (e_procs e2) ->
  length (e_helpers e1) <= 1 -> keys_unique g_key (e_mems e1) -> keys_unique g_key (e_externs e1) ->
  compile_body e1 = compile_body e2.
Proof. exact compile_body_perm. Qed.
Print Assumptions C18_compile_body_perm.

(* simplify: sorted(normalization_list) does not depend on the order of the terms ... *)
Theorem C18_sym_sort_perm : forall l1 l2 : list term, Permutation l1 l2 -> sort_terms l1 = sort_terms l2.
Proof. exact sort_terms_perm. Qed.
Print Assumptions C18_sym_sort_perm.

(* ... nor on the absolute values of the Sym counter: a strictly monotone renumbering of the ids commutes with the
   sort, and the text built from the sorted terms is the same *)
Theorem C18_sym_shift : forall f : nat -> nat, (forall i j, i < j -> f i < f j) ->
  forall l : list term,
    sort_terms (map (rename_term f) l) = map (rename_term f) (sort_terms l) /\
    forall (zs : Z -> string) (c : string),
      generate_loopIR_text zs c (map (rename_term f) l) = generate_loopIR_text zs c l.
Proof.
  intros f M l. split; [exact (sort_terms_rename f M l) | intros zs c; exact (generate_text_rename zs f M l c)].
Qed.
Print Assumptions C18_sym_shift.

(* C names (Compiler.new_varname) and printed names (PrintEnv.get_name) are functions of the traversal and of the
   name strings: any injective renumbering of the ids gives the same names *)
Theorem C18_names_depend_on_traversal_only : forall f : nat -> nat, (forall i j, f i = f j -> i = j) ->
  forall evs : list event,
    compiler_run (map (rename_event f) evs) = compiler_run evs /\
    printenv_run (map (rename_event f) evs) = printenv_run evs.
Proof. exact names_depend_on_traversal_only. Qed.
Print Assumptions C18_names_depend_on_traversal_only.

(* order-insensitive consumers: membership, any/all (raise or not), size, image, filter *)
Theorem C18_set_uses : forall (A B : Type) (p : A -> bool) (g : A -> B) (l1 l2 : list A),
  Permutation l1 l2 ->
  existsb p l1 = existsb p l2 /\ forallb p l1 = forallb p l2 /\ length l1 = length l2 /\
  (forall x, In x l1 <-> In x l2) /\ Permutation (map g l1) (map g l2) /\ Permutation (filter p l1) (filter p l2).
Proof. exact set_uses. Qed.
Print Assumptions C18_set_uses.

(* the scan of the CURRENT source: every site is in the reviewed table, and every site whose class is a finding
   (order-reaches-output, sorted-no-unique-guard) is one of the known findings -- which are findings indeed *)
Theorem C18_sites_all_classified :
  (forall s, In s sites -> acceptable (s_class s) = true \/ In (s_id s) known_finding_sites) /\
  known_are_findings known_finding_sites sites = true.
Proof. split; [exact sites_classified_prop | exact sites_known_are_findings]. Qed.
Print Assumptions C18_sites_all_classified.
