(* C18: the emission pipelines of compile_to_strings under an arbitrary enumeration of the collected sets. *)
From Coq Require Import String Ascii List Bool Arith ZArith Lia Permutation Sorted Decimal DecimalString DecimalNat.
From Determ Require Import Model ProofsSort.
Import ListNotations.
Open Scope string_scope.

Definition item_keys_unique (l : list gitem) : Prop := keys_unique g_key l.

Lemma sort_items_perm : forall l1 l2,
  Permutation l1 l2 -> item_keys_unique l1 -> sort_items l1 = sort_items l2.
Proof.
  intros. unfold sort_items. apply (stable_sort_perm gitem string String.compare g_key string_cmp_good); assumption.
Qed.

Lemma sort_items_keys_perm : forall l1 l2,
  Permutation l1 l2 -> map g_key (sort_items l1) = map g_key (sort_items l2).
Proof. intros. apply (sorted_keys_perm String.compare g_key string_cmp_good). assumption. Qed.

Lemma sort_items_is_perm : forall l, Permutation (sort_items l) l.
Proof. intros. apply (sort_perm gitem string String.compare g_key). Qed.

(** C18_emit_perm *)
Lemma emit_perm : forall l1 l2,
  Permutation l1 l2 -> item_keys_unique l1 -> emit (sort_items l1) = emit (sort_items l2).
Proof. intros. rewrite (sort_items_perm l1 l2); auto. Qed.

Example emit_perm_hyps_satisfiable :
  let l1 := [mkItem 1 "b" "B"; mkItem 2 "a" "A"] in
  let l2 := [mkItem 2 "a" "A"; mkItem 1 "b" "B"] in
  Permutation l1 l2 /\ item_keys_unique l1 /\ emit (sort_items l1) = "A" ++ nl ++ "B".
Proof.
  simpl. split; [apply perm_swap|]. split; [|reflexivity].
  unfold item_keys_unique, keys_unique. simpl. repeat constructor; simpl; intuition discriminate.
Qed.

(* ------------------------------------------------------------------------------------------------------------ *)
(** * the duplicate-name guard *)

(* first_dup reports a duplicate iff the list has one *)
Lemma first_dup_none_iff : forall l seen,
  first_dup seen l = None <-> (NoDup l /\ forall x, In x l -> ~ In x seen).
Proof.
  induction l as [|x r IH]; intros seen; simpl.
  - split; auto. intros _. split; [constructor|tauto].
  - destruct (existsb (String.eqb x) seen) eqn:E.
    + split; [discriminate|]. intros [_ H]. exfalso. apply (H x); auto.
      apply existsb_exists in E. destruct E as [y [Hy Ey]]. apply String.eqb_eq in Ey. subst. assumption.
    + rewrite IH. split.
      * intros [N H]. split.
        -- constructor; auto. intros Hin. apply (H x Hin). left. reflexivity.
        -- intros y [<-|Hy].
           ++ intros Hin. assert (existsb (String.eqb x) seen = true); [|congruence].
              apply existsb_exists. exists x. split; auto. apply String.eqb_refl.
           ++ intros Hin. apply (H y Hy). right. assumption.
      * intros [N H]. inversion N; subst. split; auto.
        intros y Hy [<-|Hin]; auto. apply (H y); auto.
  Qed.

Lemma first_dup_none_keys_unique : forall l,
  first_dup [] (map g_key l) = None -> item_keys_unique l.
Proof. intros l H. apply first_dup_none_iff in H. apply H. Qed.

(** procs: the result (text or TypeError, message included) does not depend on the discovery order at all *)
Lemma compile_procs_perm : forall l1 l2, Permutation l1 l2 -> compile_procs l1 = compile_procs l2.
Proof.
  intros l1 l2 P. unfold compile_procs.
  rewrite (sort_items_keys_perm l1 l2 P).
  destruct (first_dup [] (map g_key (sort_items l2))) eqn:E; auto.
  f_equal. unfold blocks. f_equal.
  apply sort_items_perm; auto.
  apply first_dup_none_keys_unique in E.
  unfold item_keys_unique, keys_unique in *.
  eapply Permutation_NoDup; [|exact E].
  apply Permutation_map. rewrite sort_items_is_perm. apply Permutation_sym. assumption.
Qed.

Lemma compile_configs_perm : forall lib l1 l2, Permutation l1 l2 -> compile_configs lib l1 = compile_configs lib l2.
Proof.
  intros lib l1 l2 P. unfold compile_configs.
  destruct l1 as [|a1 r1].
  { apply Permutation_nil in P. subst. reflexivity. }
  destruct l2 as [|a2 r2].
  { apply Permutation_sym, Permutation_nil in P. discriminate. }
  rewrite (sort_items_keys_perm _ _ P).
  destruct (first_dup [] (map g_key (sort_items (a2 :: r2)))) eqn:E; auto.
  rewrite (sort_items_perm _ _ P); auto.
  apply first_dup_none_keys_unique in E.
  unfold item_keys_unique, keys_unique in *.
  eapply Permutation_NoDup; [|exact E].
  apply Permutation_map. rewrite sort_items_is_perm. apply Permutation_sym. assumption.
Qed.

(** memories / externs: only under unique keys *)
Lemma compile_mems_perm : forall l1 l2,
  Permutation l1 l2 -> item_keys_unique l1 -> compile_mems l1 = compile_mems l2.
Proof. intros. unfold compile_mems. rewrite (sort_items_perm l1 l2); auto. Qed.

Lemma compile_externs_perm : forall l1 l2,
  Permutation l1 l2 -> item_keys_unique l1 -> compile_externs l1 = compile_externs l2.
Proof. intros. unfold compile_externs. rewrite (sort_items_perm l1 l2); auto. Qed.

(** the refutation: two objects, one name, different text *)
Definition dup_l1 : list gitem := [mkItem 1 "MyMem" "#define A"; mkItem 2 "MyMem" "#define B"].
Definition dup_l2 : list gitem := [mkItem 2 "MyMem" "#define B"; mkItem 1 "MyMem" "#define A"].

Lemma emit_perm_dupkeys_refuted :
  exists l1 l2, Permutation l1 l2 /\ emit (sort_items l1) <> emit (sort_items l2)
                /\ compile_mems l1 <> compile_mems l2 /\ compile_externs l1 <> compile_externs l2.
Proof.
  exists dup_l1, dup_l2. split; [apply perm_swap|].
  repeat split; vm_compute; discriminate.
Qed.

(** static helpers: emitted in set order *)
Definition helper_div : gitem := mkItem 1 "exo_floor_div" "static int exo_floor_div(int num, int quot) {..}".
Definition helper_mod : gitem := mkItem 2 "exo_floor_mod" "static int exo_floor_mod(int num, int quot) {..}".

Lemma helpers_refuted :
  exists l1 l2, Permutation l1 l2 /\ item_keys_unique l1 /\ compile_helpers l1 <> compile_helpers l2.
Proof.
  exists [helper_div; helper_mod], [helper_mod; helper_div]. split; [apply perm_swap|]. split.
  - unfold item_keys_unique, keys_unique. simpl. repeat constructor; simpl; intuition discriminate.
  - vm_compute. discriminate.
Qed.

Lemma helpers_partial : forall l1 l2,
  Permutation l1 l2 -> length l1 <= 1 -> compile_helpers l1 = compile_helpers l2.
Proof.
  intros l1 l2 P L. destruct l1 as [|a [|b r]]; simpl in L; try lia.
  - apply Permutation_nil in P. subst. reflexivity.
  - apply Permutation_length_1_inv in P. subst. reflexivity.
Qed.

Lemma helpers_as_coded : forall (b : bool) l1 l2,
  Permutation l1 l2 -> item_keys_unique l1 -> (b = true \/ length l1 <= 1) ->
  compile_helpers_gen b l1 = compile_helpers_gen b l2.
Proof.
  intros b l1 l2 P U [->|L].
  - simpl. rewrite (sort_items_perm l1 l2); auto.
  - destruct b; simpl.
    + rewrite (sort_items_perm l1 l2); auto.
    + apply helpers_partial; assumption.
Qed.

Example helpers_partial_hyps_satisfiable : Permutation [helper_div] [helper_div] /\ length [helper_div] <= 1.
Proof. split; auto. Qed.

(* ------------------------------------------------------------------------------------------------------------ *)
(** * window structs: the name determines the struct *)

Fixpoint span_digits (s : string) : string * string :=
  match s with
  | EmptyString => (EmptyString, EmptyString)
  | String c r => if is_digit c then let '(d, t) := span_digits r in (String c d, t) else (EmptyString, s)
  end.

Definition starts_nondigit (s : string) : bool :=
  match s with EmptyString => true | String c _ => negb (is_digit c) end.

Lemma span_digits_app : forall d t, all_digits d = true -> starts_nondigit t = true -> span_digits (d ++ t) = (d, t).
Proof.
  induction d as [|c d IH]; simpl; intros t Hd Ht.
  - destruct t as [|c t]; simpl in *; auto. destruct (is_digit c); simpl in *; try discriminate. reflexivity.
  - apply andb_true_iff in Hd. destruct Hd as [Hc Hd]. rewrite Hc. rewrite IH; auto.
Qed.

Lemma string_of_uint_digits : forall d, all_digits (NilEmpty.string_of_uint d) = true.
Proof. induction d; simpl; auto. Qed.

Lemma dec_digits : forall n, all_digits (dec n) = true.
Proof. intros. apply string_of_uint_digits. Qed.

Lemma dec_inj : forall n m, dec n = dec m -> n = m.
Proof.
  unfold dec. intros n m H.
  assert (E : Some (Nat.to_uint n) = Some (Nat.to_uint m)).
  { rewrite <- !NilEmpty.usu. rewrite H. reflexivity. }
  inversion E as [E']. rewrite <- (Unsigned.of_to n), <- (Unsigned.of_to m). rewrite E'. reflexivity.
Qed.

Definition struct_tail (w : wstruct) : string := prim_short (w_prim w) ++ (if w_const w then "c" else "").

Lemma struct_tail_nondigit : forall w, starts_nondigit (struct_tail w) = true.
Proof. intros [[] n []]; reflexivity. Qed.

Lemma struct_tail_inj : forall p1 c1 p2 c2 n1 n2,
  struct_tail (mkW p1 n1 c1) = struct_tail (mkW p2 n2 c2) -> p1 = p2 /\ c1 = c2.
Proof. intros [] [] [] [] n1 n2; unfold struct_tail; simpl; intros H; try discriminate; auto. Qed.

Lemma sname_inj : forall w1 w2, sname w1 = sname w2 -> w1 = w2.
Proof.
  intros [p1 n1 c1] [p2 n2 c2]. unfold sname. simpl w_dims. simpl w_prim. simpl w_const.
  intros H. simpl in H. inversion H as [H']. clear H.
  change (dec n1 ++ struct_tail (mkW p1 n1 c1) = dec n2 ++ struct_tail (mkW p2 n2 c2)) in H'.
  assert (E : span_digits (dec n1 ++ struct_tail (mkW p1 n1 c1)) = span_digits (dec n2 ++ struct_tail (mkW p2 n2 c2)))
    by (rewrite H'; reflexivity).
  rewrite !span_digits_app in E by (auto using dec_digits, struct_tail_nondigit).
  inversion E as [[E1 E2]]. apply dec_inj in E1. apply struct_tail_inj in E2. destruct E2. subst. reflexivity.
Qed.

Lemma struct_keys_unique : forall l, NoDup l -> item_keys_unique (map struct_item l).
Proof.
  intros l N. unfold item_keys_unique, keys_unique. rewrite map_map. simpl.
  induction N as [|x r Hx N IH]; simpl; constructor; auto.
  intros Hin. apply in_map_iff in Hin. destruct Hin as [y [Ey Hy]]. apply sname_inj in Ey. subst. contradiction.
Qed.

Lemma compile_structs_perm : forall l1 l2, Permutation l1 l2 -> NoDup l1 -> compile_structs l1 = compile_structs l2.
Proof.
  intros l1 l2 P N. unfold compile_structs. rewrite (sort_items_perm (map struct_item l1) (map struct_item l2)); auto.
  - apply Permutation_map. assumption.
  - apply struct_keys_unique. assumption.
Qed.

Example compile_structs_example :
  compile_structs [mkW F32 2 true; mkW F32 1 false] = compile_structs [mkW F32 1 false; mkW F32 2 true]
  /\ map g_key (sort_items (map struct_item [mkW F32 2 true; mkW F32 1 false])) = ["exo_win_1f32"; "exo_win_2f32c"].
Proof. split; reflexivity. Qed.

(* ------------------------------------------------------------------------------------------------------------ *)
(** * the whole body *)
Definition enums_perm (e1 e2 : enums) : Prop :=
  Permutation (e_helpers e1) (e_helpers e2) /\ Permutation (e_mems e1) (e_mems e2) /\
  Permutation (e_externs e1) (e_externs e2) /\ Permutation (e_procs e1) (e_procs e2).

Lemma compile_body_perm : forall e1 e2,
  enums_perm e1 e2 ->
  length (e_helpers e1) <= 1 -> item_keys_unique (e_mems e1) -> item_keys_unique (e_externs e1) ->
  compile_body e1 = compile_body e2.
Proof.
  intros e1 e2 (Ph & Pm & Pe & Pp) Lh Um Ue. unfold compile_body.
  rewrite (compile_procs_perm _ _ Pp), (helpers_partial _ _ Ph Lh), (compile_mems_perm _ _ Pm Um),
    (compile_externs_perm _ _ Pe Ue). reflexivity.
Qed.

Example compile_body_hyps_satisfiable :
  let e := mkEnums [helper_div] [mkItem 1 "DRAM" ""] [mkItem 2 "sinfloat" "#include <math.h>"] [mkItem 3 "foo" "void foo() {}"] in
  enums_perm e e /\ length (e_helpers e) <= 1 /\ item_keys_unique (e_mems e) /\ item_keys_unique (e_externs e).
Proof.
  simpl. unfold enums_perm, item_keys_unique, keys_unique; simpl.
  repeat split; auto; repeat constructor; simpl; intuition.
Qed.

(* ------------------------------------------------------------------------------------------------------------ *)
(** * order-insensitive consumers of an enumeration (membership tests, emptiness, raise-or-not, sets built from it) *)
Lemma perm_existsb {A} (p : A -> bool) : forall l1 l2, Permutation l1 l2 -> existsb p l1 = existsb p l2.
Proof.
  induction 1; simpl; auto.
  - rewrite IHPermutation. reflexivity.
  - destruct (p x), (p y); reflexivity.
  - congruence.
Qed.

Lemma perm_forallb {A} (p : A -> bool) : forall l1 l2, Permutation l1 l2 -> forallb p l1 = forallb p l2.
Proof.
  induction 1; simpl; auto.
  - rewrite IHPermutation. reflexivity.
  - destruct (p x), (p y); reflexivity.
  - congruence.
Qed.

Lemma set_uses : forall (A B : Type) (p : A -> bool) (g : A -> B) (l1 l2 : list A),
  Permutation l1 l2 ->
  existsb p l1 = existsb p l2 /\ forallb p l1 = forallb p l2 /\ length l1 = length l2 /\
  (forall x, In x l1 <-> In x l2) /\ Permutation (map g l1) (map g l2) /\ Permutation (filter p l1) (filter p l2).
Proof.
  intros A B p g l1 l2 P. repeat split.
  - apply perm_existsb; assumption.
  - apply perm_forallb; assumption.
  - apply Permutation_length; assumption.
  - apply Permutation_in; assumption.
  - apply Permutation_in, Permutation_sym; assumption.
  - apply Permutation_map; assumption.
  - clear g. induction P; simpl; auto.
    + destruct (p x); auto.
    + destruct (p x), (p y); auto. apply perm_swap.
    + eapply Permutation_trans; eassumption.
Qed.
