(* C18 -- Scheduling and compilation are deterministic.

   Executable model (no proofs here) of the places where exo's output could depend on the iteration order of a
   hash-ordered collection or on the absolute value of the Sym counter.  Gallina is deterministic, so the
   nondeterminism of the implementation is an explicit PARAMETER: every function below that corresponds to code
   iterating a Python set takes "an enumeration" of that set -- an arbitrary list; the theorems quantify over all
   lists that are permutations of each other.

   (a) compile_to_strings (backend/LoopIR_compiler.py): for every kind of global item
         collection (set, arbitrary order) -> sorted(key=...) (STABLE) -> emission
       with the duplicate-name guards that exist (procs, configs) and those that do not (memories, externs),
       the value-keyed window structs, and the static helpers, which are emitted WITHOUT a sort.
   (b) Sym.__lt__ = order on (name, id) and its use in simplify's generate_loopIR: sorted(normalization_list).
   (c) Compiler.new_varname and PrintEnv.get_name as instances of a name allocator whose state depends on the
       traversal (events) and on the NAME STRINGS of the symbols only. *)
From Coq Require Import String Ascii List Bool Arith ZArith Decimal DecimalString.
Import ListNotations.
Open Scope string_scope.

(* ------------------------------------------------------------------------------------------------------------ *)
(** * 1. Python's [sorted(l, key=k)]: a stable sort.  Insertion from the right: an element is placed before the
      first element whose key is not smaller, hence before every LATER element with an equal key. *)
Section StableSort.
  Variables (A K : Type) (leb : K -> K -> bool) (key : A -> K).

  Fixpoint insert (x : A) (l : list A) : list A :=
    match l with
    | [] => [x]
    | y :: r => if leb (key x) (key y) then x :: l else y :: insert x r
    end.

  Fixpoint stable_sort (l : list A) : list A :=
    match l with
    | [] => []
    | x :: r => insert x (stable_sort r)
    end.
End StableSort.
Arguments insert {A K} leb key x l.
Arguments stable_sort {A K} leb key l.

(* ------------------------------------------------------------------------------------------------------------ *)
(** * 2. Global items of a compilation *)

Definition nl : string := String (ascii_of_nat 10) EmptyString.
(* from_lines(x) = newline.join(x) *)
Definition from_lines (x : list string) : string := String.concat nl x.

(* [g_obj]: the identity of the Python object (address: what a set hashes), [g_key]: what sorted() compares
   (p.name, m.name(), c.name(), f.name() + ctype, struct name), [g_text]: what is appended to the output
   (proc body, m.global_(), the config's struct lines, f.globl(t), the struct definition). *)
Record gitem : Type := mkItem { g_obj : nat; g_key : string; g_text : string }.

Definition sort_items (l : list gitem) : list gitem := stable_sort String.leb g_key l.
Definition blocks (l : list gitem) : list string := map g_text l.
Definition emit (l : list gitem) : string := from_lines (blocks l).

(* the `seen` loops:  if name in seen: raise TypeError(...)  ;  seen.add(name) *)
Fixpoint first_dup (seen : list string) (l : list string) : option string :=
  match l with
  | [] => None
  | x :: r => if existsb (String.eqb x) seen then Some x else first_dup (x :: seen) r
  end.

Inductive outcome : Type :=
| TypeErr (msg : string)
| Out (lines : list string).

(* proc_list = sorted(find_all_subprocs(..), key=name); for p in proc_list: if p.name in seen_procs: raise *)
Definition compile_procs (enum : list gitem) : outcome :=
  let s := sort_items enum in
  match first_dup [] (map g_key s) with
  | Some n => TypeErr ("multiple procs named " ++ n)
  | None => Out (blocks s)
  end.

(* _compile_context_struct(configs, lib_name): first line of the result = ctxt_name *)
Definition compile_configs (lib : string) (enum : list gitem) : outcome :=
  match enum with
  | [] => Out ["void"]
  | _ =>
    let s := sort_items enum in
    match first_dup [] (map g_key s) with
    | Some n => TypeErr ("multiple configs named " ++ n)
    | None =>
      let nm := lib ++ "_Context" in
      Out (nm :: ("typedef struct " ++ nm ++ " { ") :: "" ::
           flat_map (fun i => [g_text i; ""]) s ++ ["} " ++ nm ++ ";"])
    end
  end.

(* _compile_memories: NO duplicate-name guard *)
Definition compile_mems (enum : list gitem) : list string := blocks (sort_items enum).

(* _compile_externs: NO guard; `if glb := f.globl(t)` skips empty text *)
Definition nonempty (s : string) : bool := negb (String.eqb s "").
Definition compile_externs (enum : list gitem) : list string :=
  filter nonempty (blocks (sort_items enum)).

(* helper_code = [_static_helpers[v] for v in needed_helpers]: NO sort at all *)
Definition compile_helpers (enum : list gitem) : list string := blocks enum.
(* the emission as the CURRENT source codes it: the site scan tells whether the comprehension iterates
   sorted(needed_helpers) (Gen_Sites.helpers_emission_sorted) *)
Definition compile_helpers_gen (is_sorted : bool) (enum : list gitem) : list string :=
  if is_sorted then blocks (sort_items enum) else compile_helpers enum.

(** ** Window structs: a set of frozen dataclasses (name, definition), i.e. keyed BY VALUE; the value is a
       function of (base type, n_dims, is_const) (window_struct / _window_struct). *)
Inductive prim : Type := F16 | F32 | F64 | I8 | UI8 | UI16 | I32.

Definition prim_short (p : prim) : string :=
  match p with F16 => "f16" | F32 => "f32" | F64 => "f64" | I8 => "i8" | UI8 => "ui8" | UI16 => "ui16" | I32 => "i32" end.
Definition prim_ctype (p : prim) : string :=
  match p with
  | F16 => "_Float16" | F32 => "float" | F64 => "double" | I8 => "int8_t" | UI8 => "uint8_t"
  | UI16 => "uint16_t" | I32 => "int32_t"
  end.

Definition dec (n : nat) : string := NilEmpty.string_of_uint (Nat.to_uint n).

Definition upper_ascii (c : ascii) : ascii :=
  let n := nat_of_ascii c in
  if andb (Nat.leb 97 n) (Nat.leb n 122) then ascii_of_nat (n - 32) else c.
Fixpoint upper (s : string) : string :=
  match s with EmptyString => EmptyString | String c r => String (upper_ascii c) (upper r) end.

Record wstruct : Type := mkW { w_prim : prim; w_dims : nat; w_const : bool }.

Definition sname (w : wstruct) : string :=
  "exo_win_" ++ dec (w_dims w) ++ prim_short (w_prim w) ++ (if w_const w then "c" else "").

Definition sdef (w : wstruct) : string :=
  let g := upper (sname w) in
  "#ifndef " ++ g ++ nl ++ "#define " ++ g ++ nl ++
  "struct " ++ sname w ++ "{" ++ nl ++
  "    " ++ (if w_const w then "const " else "") ++ prim_ctype (w_prim w) ++ " * const data;" ++ nl ++
  "    const int_fast32_t strides[" ++ dec (w_dims w) ++ "];" ++ nl ++
  "};" ++ nl ++ "#endif".

(* the struct set contains VALUES: the "object identity" of the model item plays no role *)
Definition struct_item (w : wstruct) : gitem := mkItem 0 (sname w) (sdef w).
Definition compile_structs (enum : list wstruct) : list string := blocks (sort_items (map struct_item enum)).

(** ** The body of the C file as assembled by compile_to_strings:
       helper_code, instrs_global, memory_code, extern_code, private_fwd_decls, proc_bodies; empty groups are
       filtered out, each group is joined by newlines, the groups are joined by newlines, plus a final newline.
       [instrs], [fwd] and the proc texts are produced while iterating the SORTED proc list, so they are functions
       of the proc outcome. *)
Record enums : Type := mkEnums {
  e_helpers : list gitem;   (* enumeration of the set needed_helpers *)
  e_mems : list gitem;      (* enumeration of the set built by find_all_mems *)
  e_externs : list gitem;   (* enumeration of the set built by find_all_externs *)
  e_procs : list gitem      (* the order in which find_all_subprocs discovers procs (set-driven DFS) *)
}.

Definition compile_body (e : enums) : outcome :=
  match compile_procs (e_procs e) with
  | TypeErr m => TypeErr m
  | Out procs =>
    let groups := [compile_helpers (e_helpers e); compile_mems (e_mems e); compile_externs (e_externs e); procs] in
    let groups := filter (fun g => negb (Nat.eqb (length g) 0)) groups in
    Out [from_lines (map from_lines groups) ++ nl]
  end.

(* ------------------------------------------------------------------------------------------------------------ *)
(** * 3. Sym: identity (name, id), order (name, id)  (core/prelude.py) *)

Record sym : Type := mkSym { sy_name : string; sy_id : nat }.

Definition sym_eqb (a b : sym) : bool := String.eqb (sy_name a) (sy_name b) && Nat.eqb (sy_id a) (sy_id b).

(* Sym.__lt__ : (self._nm, self._id) < (rhs._nm, rhs._id) *)
Definition sym_ltb (a b : sym) : bool :=
  match String.compare (sy_name a) (sy_name b) with
  | Lt => true
  | Eq => Nat.ltb (sy_id a) (sy_id b)
  | Gt => false
  end.
Definition sym_leb (a b : sym) : bool := negb (sym_ltb b a).

Definition rename_sym (f : nat -> nat) (s : sym) : sym := mkSym (sy_name s) (f (sy_id s)).

(* simplify: normalization_list = [(coeff, v)], iterated as sorted(normalization_list): tuples compare
   lexicographically, coefficients as ints, symbols by Sym.__lt__ *)
Definition term : Type := (Z * sym)%type.
Definition term_leb (a b : term) : bool :=
  if Z.ltb (fst a) (fst b) then true
  else if Z.eqb (fst a) (fst b) then sym_leb (snd a) (snd b)
  else false.
Definition sort_terms (l : list term) : list term := stable_sort term_leb (fun t => t) l.
Definition rename_term (f : nat -> nat) (t : term) : term := (fst t, rename_sym f (snd t)).

(* text of the expression built by generate_loopIR as str() prints it: names only, never ids.
   (coefficients are printed by [zs], any function of the integer) *)
Section PrintTerms.
  Variable zs : Z -> string.
  Definition print_term (acc : string) (t : term) : string :=
    if Z.ltb 0 (fst t)
    then acc ++ " + " ++ zs (fst t) ++ " * " ++ sy_name (snd t)
    else acc ++ " - " ++ zs (Z.opp (fst t)) ++ " * " ++ sy_name (snd t).
  Definition print_terms (const : string) (l : list term) : string := fold_left print_term l const.
  Definition generate_loopIR_text (const : string) (l : list term) : string := print_terms const (sort_terms l).
End PrintTerms.

(* ------------------------------------------------------------------------------------------------------------ *)
(** * 4. Name allocation as a function of the traversal *)

(** ** ChainMap: a stack of association lists, newest binding first; writes go to maps[0] *)
Section Chain.
  Variables (Kk V : Type) (keqb : Kk -> Kk -> bool).
  Definition frame : Type := list (Kk * V).
  Definition chain : Type := list frame.

  Fixpoint frame_get (k : Kk) (f : frame) : option V :=
    match f with
    | [] => None
    | (k', v) :: r => if keqb k k' then Some v else frame_get k r
    end.
  Fixpoint chain_get (k : Kk) (c : chain) : option V :=
    match c with
    | [] => None
    | f :: r => match frame_get k f with Some v => Some v | None => chain_get k r end
    end.
  Definition chain_mem (k : Kk) (c : chain) : bool :=
    match chain_get k c with Some _ => true | None => false end.
  Definition chain_set (k : Kk) (v : V) (c : chain) : chain :=
    match c with
    | [] => [[(k, v)]]
    | f :: r => ((k, v) :: f) :: r
    end.
  Definition chain_push (c : chain) : chain := [] :: c.
  Definition chain_pop (c : chain) : chain := match c with [] => [] | _ :: r => r end.
  Definition chain_size (c : chain) : nat := length (List.concat c).
End Chain.
Arguments frame_get {Kk V} keqb k f.
Arguments chain_get {Kk V} keqb k c.
Arguments chain_mem {Kk V} keqb k c.
Arguments chain_set {Kk V} k v c.
Arguments chain_push {Kk V} c.
Arguments chain_pop {Kk V} c.
Arguments chain_size {Kk V} c.

(** ** The generic allocator machine.  [NS] is the state of the NAME side (strings only); [alloc] hands out a
       printed name for a symbol's name STRING.  The environment maps symbols (compared by (name, id), as
       Sym.__eq__ does) to printed names. *)
Inductive event : Type :=
| Push | Pop
| Decl (s : sym)     (* Compiler.new_varname(s, ..): always allocates *)
| Use (s : sym)      (* Compiler: self.env[s] *)
| Ref (s : sym).     (* PrintEnv.get_name(s): resolve, or allocate when unbound *)

Definition rename_event (f : nat -> nat) (e : event) : event :=
  match e with
  | Push => Push | Pop => Pop
  | Decl s => Decl (rename_sym f s) | Use s => Use (rename_sym f s) | Ref s => Ref (rename_sym f s)
  end.

Section Allocator.
  Variable NS : Type.
  Variables (ns_push ns_pop : NS -> NS) (alloc : string -> NS -> string * NS).

  Definition senv : Type := chain sym string.
  Definition astate : Type := (NS * senv)%type.

  Definition step (st : astate) (e : event) : astate * option string :=
    let '(ns, env) := st in
    match e with
    | Push => ((ns_push ns, chain_push env), None)
    | Pop => ((ns_pop ns, chain_pop env), None)
    | Decl s =>
      let '(nm, ns') := alloc (sy_name s) ns in
      ((ns', chain_set s nm env), Some nm)
    | Use s => (st, chain_get sym_eqb s env)
    | Ref s =>
      match chain_get sym_eqb s env with
      | Some nm => (st, Some nm)
      | None =>
        let '(nm, ns') := alloc (sy_name s) ns in
        ((ns', chain_set s nm env), Some nm)
      end
    end.

  (* the names handed out / looked up, in traversal order: all the text that depends on the allocator *)
  Fixpoint run (st : astate) (evs : list event) : list (option string) :=
    match evs with
    | [] => []
    | e :: r => let '(st', o) := step st e in o :: run st' r
    end.
End Allocator.
Arguments step {NS} ns_push ns_pop alloc st e.
Arguments run {NS} ns_push ns_pop alloc st evs.

(** ** Instance 1: Compiler.new_varname (backend/LoopIR_compiler.py).  self.names : ChainMap str -> str.
       m = re.match(<anything, greedy> _ <digits, possibly none> <end>, s):
       s = s + '_1' if there is no match, else m[1] + '_' + str(int(m[2]) + 1).
       The greedy prefix takes everything up to the LAST underscore; the match succeeds iff what follows it is all
       digits; int of the empty string raises ValueError (modelled as None: the compilation crashes). *)
Definition is_digit (c : ascii) : bool := let n := nat_of_ascii c in andb (Nat.leb 48 n) (Nat.leb n 57).
Fixpoint all_digits (s : string) : bool :=
  match s with EmptyString => true | String c r => is_digit c && all_digits r end.

(* split at the last underscore: Some (before, after) *)
Fixpoint split_last_us (s : string) : option (string * string) :=
  match s with
  | EmptyString => None
  | String c r =>
    match split_last_us r with
    | Some (a, b) => Some (String c a, b)
    | None => if Ascii.eqb c "_"%char then Some (EmptyString, r) else None
    end
  end.

Definition int_of_digits (s : string) : option nat :=
  match NilEmpty.uint_of_string s with
  | Some d => Some (Nat.of_uint d)
  | None => None
  end.

Definition bump (s : string) : option string :=
  match split_last_us s with
  | Some (a, b) =>
    if all_digits b then
      match b with
      | EmptyString => None (* int of the empty string: ValueError *)
      | _ => match int_of_digits b with Some n => Some (a ++ "_" ++ dec (S n)) | None => None end
      end
    else Some (s ++ "_1")
  | None => Some (s ++ "_1")
  end.

Definition cnames : Type := chain string string.

(* while s in self.names: s = bump(s) *)
Fixpoint bump_loop (fuel : nat) (names : cnames) (s : string) : option string :=
  match fuel with
  | O => None
  | S k => if chain_mem String.eqb s names then
             match bump s with Some s' => bump_loop k names s' | None => None end
           else Some s
  end.

(* the crash (None) is rendered as the name <ValueError> so that [alloc] stays total *)
Definition new_varname (strnm : string) (names : cnames) : string * cnames :=
  match chain_get String.eqb strnm names with
  | None => (strnm, chain_set strnm strnm names)
  | Some s0 =>
    match bump_loop (S (S (chain_size names))) names s0 with
    | Some s => (s, chain_set s s (chain_set strnm s names))
    | None => ("<ValueError>", names)
    end
  end.

Definition compiler_run (evs : list event) : list (option string) :=
  run (@chain_push string string) (@chain_pop string string) new_varname ([[]], [[]]) evs.

(** ** Instance 2: PrintEnv.get_name (core/LoopIR_pprint.py).  self.names : ChainMap str -> int.
       candidate = str(nm); num = names.get(candidate, 1)
       while candidate in names: candidate = nm + '_' + str(num); num += 1
       env[nm] = candidate; names[str(nm)] = num; names.setdefault(candidate, 1) *)
Definition pnames : Type := chain string nat.

Fixpoint pe_loop (fuel : nat) (names : pnames) (base cand : string) (num : nat) : string * nat :=
  match fuel with
  | O => (cand, num)
  | S k => if chain_mem String.eqb cand names
           then pe_loop k names base (base ++ "_" ++ dec num) (S num)
           else (cand, num)
  end.

Definition pe_alloc (nm : string) (names : pnames) : string * pnames :=
  let num0 := match chain_get String.eqb nm names with Some n => n | None => 1 end in
  let '(cand, num) := pe_loop (S (S (chain_size names))) names nm nm num0 in
  let names1 := chain_set nm num names in
  let names2 := if chain_mem String.eqb cand names1 then names1 else chain_set cand 1 names1 in
  (cand, names2).

Definition printenv_run (evs : list event) : list (option string) :=
  run (@chain_push string nat) (@chain_pop string nat) pe_alloc ([[]], [[]]) evs.
