(* C18: boolean checkers used by the correspondence stage (harness/props/C18.py writes a cases file that is evaluated
   by vm_compute inside coqc): the model's answer is compared with the answer of the real implementation. *)
From Coq Require Import String Ascii List Bool Arith ZArith.
From Determ Require Import Model.
Import ListNotations.

Fixpoint strs_eqb (a b : list string) : bool :=
  match a, b with
  | [], [] => true
  | x :: r, y :: s => String.eqb x y && strs_eqb r s
  | _, _ => false
  end.

Definition ostr_eqb (a b : option string) : bool :=
  match a, b with
  | Some x, Some y => String.eqb x y
  | None, None => true
  | _, _ => false
  end.

Fixpoint ostrs_eqb (a b : list (option string)) : bool :=
  match a, b with
  | [], [] => true
  | x :: r, y :: s => ostr_eqb x y && ostrs_eqb r s
  | _, _ => false
  end.

Definition outcome_eqb (a b : outcome) : bool :=
  match a, b with
  | TypeErr x, TypeErr y => String.eqb x y
  | Out x, Out y => strs_eqb x y
  | _, _ => false
  end.

(* sorted(l, key=...) on (key, text) pairs *)
Definition ck_sort (l : list (string * string)) (expect : list string) : bool :=
  strs_eqb (blocks (sort_items (map (fun kt => mkItem 0 (fst kt) (snd kt)) l))) expect.

Definition ck_mems (l : list (string * string)) (expect : list string) : bool :=
  strs_eqb (compile_mems (map (fun kt => mkItem 0 (fst kt) (snd kt)) l)) expect.

Definition ck_externs (l : list (string * string)) (expect : list string) : bool :=
  strs_eqb (compile_externs (map (fun kt => mkItem 0 (fst kt) (snd kt)) l)) expect.

Definition ck_configs (lib : string) (l : list (string * string)) (expect : outcome) : bool :=
  outcome_eqb (compile_configs lib (map (fun kt => mkItem 0 (fst kt) (snd kt)) l)) expect.

Definition ck_procs (l : list (string * string)) (expect : outcome) : bool :=
  outcome_eqb (compile_procs (map (fun kt => mkItem 0 (fst kt) (snd kt)) l)) expect.

(* sorted([(coeff, Sym)]) : expected = the ids in sorted order *)
Definition ck_terms (l : list (Z * (string * nat))) (expect : list nat) : bool :=
  let ts := map (fun t => (fst t, mkSym (fst (snd t)) (snd (snd t)))) l in
  let got := map (fun t : term => sy_id (snd t)) (sort_terms ts) in
  if list_eq_dec Nat.eq_dec got expect then true else false.

Definition ck_struct (w : wstruct) (name def : string) : bool :=
  String.eqb (sname w) name && String.eqb (sdef w) def.

Definition ck_compiler (evs : list event) (expect : list (option string)) : bool :=
  ostrs_eqb (compiler_run evs) expect.

Definition ck_printenv (evs : list event) (expect : list (option string)) : bool :=
  ostrs_eqb (printenv_run evs) expect.
