(* C18 -- classification of the hash-order / identity-value sites found by translator/py2coq_emitorder.py.
   Executable definitions only.  Gen_Sites.v (generated on every run from the CURRENT exo source and the reviewed
   table coq/Determ/sites_reviewed.json) instantiates [sites] and [known_finding_sites]. *)
From Coq Require Import String List Bool.
Import ListNotations.

Inductive site_class : Type :=
| OrderInsensitive      (* the collection is only tested for membership / united / counted / copied into another set,
                           or the loop body has no order-dependent effect: Proofs lemmas perm_* *)
| SortedBeforeUse       (* the order is discarded by a sort on a key that is unique on the collection (guarded by a
                           duplicate check, or injective by construction): C18_emit_perm *)
| SortedNoUniqueGuard   (* sorted by a key that is NOT guaranteed unique: stable sort keeps the hash order of ties:
                           C18_emit_perm_dupkeys_refuted / C18_emit_perm_partial.  A finding. *)
| InsertionOrdered      (* a dict: CPython >= 3.7 iterates in insertion order, and the insertions happen in traversal
                           order of the procedure *)
| SeedIndependentHash   (* a set of small ints: hash(n) = n, iteration order is a function of the inserted values and
                           their insertion order only *)
| MonotoneInvariant     (* a Sym counter value that is only compared (=, <) or used as a dictionary / pattern key:
                           invariant under strictly monotone renumbering: C18_sym_shift, C18_names_depend_on_traversal_only *)
| ErrorTextOnly         (* the order can only change the text of an exception, never whether it is raised *)
| OrderReachesOutput.   (* the hash order reaches printed / generated text.  A finding. *)

Record site : Type := mkSite {
  s_id : string;
  s_file : string;
  s_func : string;
  s_class : site_class;
  s_thm : string
}.

Definition acceptable (c : site_class) : bool :=
  match c with
  | SortedNoUniqueGuard | OrderReachesOutput => false
  | _ => true
  end.

Definition site_ok (known : list string) (s : site) : bool :=
  acceptable (s_class s) || existsb (String.eqb (s_id s)) known.

Definition all_classified (known : list string) (sites : list site) : bool :=
  forallb (site_ok known) sites.

(* every identifier listed as a known finding is a scanned site whose class really is a finding *)
Definition known_are_findings (known : list string) (sites : list site) : bool :=
  forallb (fun k => existsb (fun s => String.eqb (s_id s) k && negb (acceptable (s_class s))) sites) known.

Definition count_class (p : site_class -> bool) (sites : list site) : nat :=
  length (filter (fun s => p (s_class s)) sites).
