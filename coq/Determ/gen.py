#!/venv/bin/python
"""Regenerate Gen_Sites.v from the CURRENT exo source (EXO_REPO, default /repo) and the reviewed table
sites_reviewed.json (C18).  translator/py2coq_emitorder.py scans backend/LoopIR_compiler.py,
rewrite/LoopIR_scheduling.py, core/prelude.py, core/LoopIR_pprint.py and API.py for every place where the iteration
order of a hash-ordered collection, an address (id/hash) or the Sym counter can be observed.  Exits non-zero,
naming the site, when a site is not in the reviewed table (new code, or a reviewed statement whose text changed) or
when a consumer that a classification relies on has disappeared; the stale Gen_Sites.v is then removed so that
C18_sites_all_classified cannot be proved about an outdated scan."""
import os
import subprocess
import sys

here = os.path.dirname(os.path.abspath(__file__))
tr = os.path.join(here, "..", "..", "translator", "py2coq_emitorder.py")
out = os.path.join(here, "Gen_Sites.v")
rc = subprocess.call([sys.executable, tr, "--repo", os.environ.get("EXO_REPO", "/repo"),
                      "--table", os.path.join(here, "sites_reviewed.json"), "-o", out])
if rc != 0 and os.path.exists(out):
    os.remove(out)
sys.exit(rc)
