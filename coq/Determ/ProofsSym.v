(* C18: Sym ordering (name, id) -- the sorted() of simplify's generate_loopIR does not depend on the order in
   which the terms arrive, nor on the absolute values of the Sym counter (only on the relative creation order). *)
From Coq Require Import String Ascii List Bool Arith ZArith Lia Permutation.
From Determ Require Import Model ProofsSort.
Import ListNotations.

Definition sym_pair (s : sym) : string * nat := (sy_name s, sy_id s).
Definition sym_cmp (a b : sym) : comparison := lex_cmp String.compare Nat.compare (sym_pair a) (sym_pair b).

Lemma sym_pair_inj : forall a b, sym_pair a = sym_pair b -> a = b.
Proof. intros [n1 i1] [n2 i2]; unfold sym_pair; simpl; intros H; inversion H; reflexivity. Qed.

Lemma sym_cmp_good : good_cmp sym_cmp.
Proof.
  pose proof (lex_good String.compare Nat.compare string_cmp_good nat_cmp_good) as G.
  constructor; unfold sym_cmp.
  - intros a b. apply (gc_antisym _ _ G).
  - intros a b H. apply sym_pair_inj. apply (gc_eq _ _ G). assumption.
  - intros a b c. apply (gc_lt_trans _ _ G).
Qed.

Lemma sym_ltb_cmp : forall a b, sym_ltb a b = match sym_cmp a b with Lt => true | _ => false end.
Proof.
  intros a b. unfold sym_ltb, sym_cmp, lex_cmp, sym_pair; simpl.
  destruct (String.compare (sy_name a) (sy_name b)); auto.
  unfold Nat.ltb. destruct (Nat.compare_spec (sy_id a) (sy_id b)).
  - subst. apply Nat.leb_gt. lia.
  - apply Nat.leb_le. lia.
  - apply Nat.leb_gt. lia.
Qed.

Lemma sym_leb_cmp : forall a b, sym_leb a b = leb_of sym_cmp a b.
Proof.
  intros a b. unfold sym_leb, leb_of. rewrite sym_ltb_cmp. rewrite (gc_antisym _ _ sym_cmp_good b a).
  destruct (sym_cmp a b); reflexivity.
Qed.

Definition term_cmp (a b : term) : comparison := lex_cmp Z.compare sym_cmp a b.

Lemma term_cmp_good : good_cmp term_cmp.
Proof. apply lex_good. apply Z_cmp_good. apply sym_cmp_good. Qed.

Lemma term_leb_cmp : forall a b, term_leb a b = leb_of term_cmp a b.
Proof.
  intros [c1 s1] [c2 s2]. unfold term_leb, leb_of, term_cmp, lex_cmp; simpl.
  rewrite sym_leb_cmp. unfold leb_of.
  destruct (Z.compare_spec c1 c2) as [E|E|E].
  - subst. rewrite Z.ltb_irrefl, Z.eqb_refl. reflexivity.
  - apply Z.ltb_lt in E. rewrite E. reflexivity.
  - assert (H1 : (c1 <? c2)%Z = false) by (apply Z.ltb_ge; lia).
    assert (H2 : (c1 =? c2)%Z = false) by (apply Z.eqb_neq; lia).
    rewrite H1, H2. reflexivity.
Qed.

Lemma sort_terms_cmp : forall l, sort_terms l = stable_sort (leb_of term_cmp) (fun t => t) l.
Proof.
  intros l. unfold sort_terms.
  rewrite <- (map_id l) at 2.
  rewrite (stable_sort_map term_leb (leb_of term_cmp) (fun t => t) (fun t => t) (fun t => t)).
  - rewrite map_id. reflexivity.
  - intros. symmetry. apply term_leb_cmp.
Qed.

(** the iteration order of the dictionary that produced the terms is irrelevant *)
Lemma sort_terms_perm : forall l1 l2, Permutation l1 l2 -> sort_terms l1 = sort_terms l2.
Proof.
  intros l1 l2 P. rewrite !sort_terms_cmp.
  apply (stable_sort_perm_inj term term term_cmp (fun t => t) term_cmp_good); auto.
  intros a b _ _ E. exact E.
Qed.

(** strictly monotone renumbering of the ids *)
Definition strictly_monotone (f : nat -> nat) : Prop := forall i j, i < j -> f i < f j.

Lemma mono_compare : forall f, strictly_monotone f -> forall i j, Nat.compare (f i) (f j) = Nat.compare i j.
Proof.
  intros f M i j. destruct (Nat.compare_spec i j) as [->|H|H].
  - apply Nat.compare_refl.
  - apply Nat.compare_lt_iff. auto.
  - apply Nat.compare_gt_iff. auto.
Qed.

Lemma mono_inj : forall f, strictly_monotone f -> forall i j, f i = f j -> i = j.
Proof.
  intros f M i j E. destruct (Nat.lt_trichotomy i j) as [H|[H|H]]; auto; apply M in H; lia.
Qed.

Lemma sym_cmp_rename : forall f, strictly_monotone f -> forall a b,
  sym_cmp (rename_sym f a) (rename_sym f b) = sym_cmp a b.
Proof.
  intros f M a b. unfold sym_cmp, lex_cmp, sym_pair, rename_sym; simpl.
  destruct (String.compare (sy_name a) (sy_name b)); auto. apply mono_compare. assumption.
Qed.

Lemma term_leb_rename : forall f, strictly_monotone f -> forall a b,
  term_leb (rename_term f a) (rename_term f b) = term_leb a b.
Proof.
  intros f M [c1 s1] [c2 s2]. rewrite !term_leb_cmp. unfold leb_of, term_cmp, lex_cmp, rename_term; simpl.
  destruct (Z.compare c1 c2); auto. rewrite sym_cmp_rename; auto.
Qed.

Lemma sort_terms_rename : forall f, strictly_monotone f -> forall l,
  sort_terms (map (rename_term f) l) = map (rename_term f) (sort_terms l).
Proof.
  intros f M l. unfold sort_terms.
  apply (stable_sort_map term_leb term_leb (fun t => t) (fun t => t) (rename_term f)).
  intros. apply term_leb_rename. assumption.
Qed.

Lemma print_terms_rename : forall zs f l c, print_terms zs c (map (rename_term f) l) = print_terms zs c l.
Proof.
  intros zs f l. unfold print_terms. induction l as [|t r IH]; simpl; intros c; [reflexivity|].
  apply IH.
Qed.

Lemma generate_text_rename : forall zs f, strictly_monotone f -> forall l c,
  generate_loopIR_text zs c (map (rename_term f) l) = generate_loopIR_text zs c l.
Proof.
  intros zs f M l c. unfold generate_loopIR_text. rewrite sort_terms_rename by assumption.
  apply print_terms_rename.
Qed.

Example sym_shift_hyps_satisfiable : forall k, strictly_monotone (fun i => i + k).
Proof. intros k i j H. lia. Qed.

(* the order does depend on the RELATIVE creation order of two equally named symbols with equal coefficients
   (by design: Sym.__lt__); a monotone shift keeps it *)
Example sort_terms_example :
  sort_terms [(2%Z, mkSym "i" 7); (1%Z, mkSym "j" 3); (1%Z, mkSym "i" 9); (1%Z, mkSym "i" 4)]
  = [(1%Z, mkSym "i" 4); (1%Z, mkSym "i" 9); (1%Z, mkSym "j" 3); (2%Z, mkSym "i" 7)].
Proof. reflexivity. Qed.
