(* C18: every scanned site is classified; the only sites whose class is a finding are the known ones. *)
From Coq Require Import String List Bool.
From Determ Require Import ModelSites Gen_Sites.
Import ListNotations.

Lemma sites_all_classified : all_classified known_finding_sites sites = true.
Proof. vm_compute. reflexivity. Qed.

Lemma sites_known_are_findings : known_are_findings known_finding_sites sites = true.
Proof. vm_compute. reflexivity. Qed.

Lemma all_classified_spec : forall known l,
  all_classified known l = true ->
  forall s, In s l -> acceptable (s_class s) = true \/ In (s_id s) known.
Proof.
  intros known l H s Hs. unfold all_classified in H. rewrite forallb_forall in H.
  specialize (H s Hs). unfold site_ok in H. apply orb_true_iff in H. destruct H as [H|H]; auto.
  right. apply existsb_exists in H. destruct H as [k [Hk E]]. apply String.eqb_eq in E. subst. assumption.
Qed.

Lemma sites_classified_prop :
  forall s, In s sites -> acceptable (s_class s) = true \/ In (s_id s) known_finding_sites.
Proof. apply all_classified_spec. apply sites_all_classified. Qed.

Example the_table_is_not_empty : Nat.leb 40 (length sites) = true.
Proof. vm_compute. reflexivity. Qed.
