(* C18: a stable sort on a total order is invariant under permutation of its input as soon as the key is
   injective on the input; without that condition only the sequence of KEYS is invariant. *)
From Coq Require Import String Ascii List Bool Arith ZArith NArith Lia Permutation Sorted.
From Determ Require Import Model.
Import ListNotations.

(* ------------------------------------------------------------------------------------------------------------ *)
(** * Comparison functions that are orders *)
Section GoodCmp.
  Variables (T : Type) (cmp : T -> T -> comparison).
  Definition leb_of (a b : T) : bool := match cmp a b with Gt => false | _ => true end.

  Record good_cmp : Prop := {
    gc_antisym : forall a b, cmp a b = CompOpp (cmp b a);
    gc_eq : forall a b, cmp a b = Eq -> a = b;
    gc_lt_trans : forall a b c, cmp a b = Lt -> cmp b c = Lt -> cmp a c = Lt
  }.

  Hypothesis G : good_cmp.

  Lemma gc_refl : forall a, cmp a a = Eq.
  Proof. intros a. pose proof (gc_antisym G a a) as H. destruct (cmp a a); simpl in H; congruence. Qed.

  Lemma leb_of_total : forall a b, leb_of a b = true \/ leb_of b a = true.
  Proof.
    intros a b. unfold leb_of. rewrite (gc_antisym G b a). destruct (cmp a b); simpl; auto.
  Qed.

  Lemma leb_of_antisym : forall a b, leb_of a b = true -> leb_of b a = true -> a = b.
  Proof.
    intros a b. unfold leb_of. rewrite (gc_antisym G b a).
    destruct (cmp a b) eqn:E; simpl; try discriminate.
    - intros _ _. apply (gc_eq G); assumption.
  Qed.

  Lemma leb_of_trans : forall a b c, leb_of a b = true -> leb_of b c = true -> leb_of a c = true.
  Proof.
    intros a b c. unfold leb_of.
    destruct (cmp a b) eqn:E1; try discriminate; destruct (cmp b c) eqn:E2; try discriminate; intros _ _.
    - apply (gc_eq G) in E1. apply (gc_eq G) in E2. subst. rewrite gc_refl. reflexivity.
    - apply (gc_eq G) in E1. subst. rewrite E2. reflexivity.
    - apply (gc_eq G) in E2. subst. rewrite E1. reflexivity.
    - rewrite (gc_lt_trans G a b c E1 E2). reflexivity.
  Qed.

  Lemma leb_of_refl : forall a, leb_of a a = true.
  Proof. intros a. unfold leb_of. rewrite gc_refl. reflexivity. Qed.
End GoodCmp.
Arguments leb_of {T} cmp a b.
Arguments good_cmp {T} cmp.

(** lexicographic product *)
Definition lex_cmp {A B : Type} (ca : A -> A -> comparison) (cb : B -> B -> comparison) (x y : A * B) : comparison :=
  match ca (fst x) (fst y) with
  | Eq => cb (snd x) (snd y)
  | c => c
  end.

Lemma lex_good {A B : Type} (ca : A -> A -> comparison) (cb : B -> B -> comparison) :
  good_cmp ca -> good_cmp cb -> good_cmp (lex_cmp ca cb).
Proof.
  intros Ga Gb. constructor.
  - intros [a1 b1] [a2 b2]. unfold lex_cmp; simpl. rewrite (gc_antisym _ _ Ga a1 a2).
    destruct (ca a2 a1); simpl; auto. apply (gc_antisym _ _ Gb).
  - intros [a1 b1] [a2 b2]. unfold lex_cmp; simpl.
    destruct (ca a1 a2) eqn:E; try discriminate. intros H.
    apply (gc_eq _ _ Ga) in E. apply (gc_eq _ _ Gb) in H. subst. reflexivity.
  - intros [a1 b1] [a2 b2] [a3 b3]. unfold lex_cmp; simpl.
    destruct (ca a1 a2) eqn:E1; try discriminate; destruct (ca a2 a3) eqn:E2; try discriminate.
    + apply (gc_eq _ _ Ga) in E1. apply (gc_eq _ _ Ga) in E2. subst. rewrite (gc_refl _ _ Ga).
      apply (gc_lt_trans _ _ Gb).
    + apply (gc_eq _ _ Ga) in E1. subst. rewrite E2. auto.
    + apply (gc_eq _ _ Ga) in E2. subst. rewrite E1. auto.
    + rewrite (gc_lt_trans _ _ Ga _ _ _ E1 E2). auto.
Qed.

(** the comparisons used by the model *)
Lemma ascii_cmp_spec a b : CompareSpec (a = b) (N_of_ascii a < N_of_ascii b)%N (N_of_ascii b < N_of_ascii a)%N
                                       (Ascii.compare a b).
Proof.
  unfold Ascii.compare. destruct (N.compare_spec (N_of_ascii a) (N_of_ascii b)); constructor; auto.
  rewrite <- (ascii_N_embedding a), <- (ascii_N_embedding b). congruence.
Qed.

Lemma string_cmp_lt_trans : forall s1 s2 s3,
  String.compare s1 s2 = Lt -> String.compare s2 s3 = Lt -> String.compare s1 s3 = Lt.
Proof.
  induction s1 as [|c1 s1 IH]; intros [|c2 s2] [|c3 s3]; simpl; try congruence.
  destruct (ascii_cmp_spec c1 c2), (ascii_cmp_spec c2 c3), (ascii_cmp_spec c1 c3);
    subst; try congruence; try lia; eauto.
Qed.

Lemma string_cmp_good : good_cmp String.compare.
Proof.
  constructor.
  - apply String.compare_antisym.
  - apply String.compare_eq_iff.
  - apply string_cmp_lt_trans.
Qed.

Lemma string_leb_is_leb_of : forall a b, String.leb a b = leb_of String.compare a b.
Proof. reflexivity. Qed.

Lemma nat_cmp_good : good_cmp Nat.compare.
Proof.
  constructor.
  - intros a b. apply Nat.compare_antisym.
  - intros a b. apply Nat.compare_eq.
  - intros a b c. rewrite !Nat.compare_lt_iff. lia.
Qed.

Lemma Z_cmp_good : good_cmp Z.compare.
Proof.
  constructor.
  - intros a b. apply Z.compare_antisym.
  - intros a b. apply Z.compare_eq.
  - intros a b c. rewrite !Z.compare_lt_iff. lia.
Qed.

(* ------------------------------------------------------------------------------------------------------------ *)
(** * The stable sort *)
Section SortFacts.
  Variables (A K : Type) (cmp : K -> K -> comparison) (key : A -> K).
  Hypothesis G : good_cmp cmp.
  Let leb := leb_of cmp.
  Let le_k (a b : A) : Prop := leb (key a) (key b) = true.

  Lemma insert_perm : forall x l, Permutation (insert leb key x l) (x :: l).
  Proof.
    intros x l. induction l as [|y r IH]; simpl; auto.
    destruct (leb (key x) (key y)); auto.
    rewrite IH. apply perm_swap.
  Qed.

  Lemma sort_perm : forall l, Permutation (stable_sort leb key l) l.
  Proof.
    induction l as [|x r IH]; simpl; auto.
    rewrite insert_perm. auto.
  Qed.

  Lemma le_k_trans : forall a b c, le_k a b -> le_k b c -> le_k a c.
  Proof. unfold le_k, leb. intros a b c. apply leb_of_trans; assumption. Qed.

  Lemma insert_sorted : forall x l, StronglySorted le_k l -> StronglySorted le_k (insert leb key x l).
  Proof.
    intros x l. induction l as [|y r IH]; simpl; intros S.
    - constructor; auto.
    - destruct (leb (key x) (key y)) eqn:E.
      + constructor; auto. inversion S; subst. constructor; auto.
        eapply Forall_impl; [|eassumption]. intros a Ha. eapply le_k_trans; eauto.
      + inversion S; subst. constructor; auto.
        assert (Hyx : le_k y x).
        { unfold le_k. destruct (leb_of_total _ _ G (key x) (key y)) as [H|H]; auto.
          unfold leb in E. congruence. }
        eapply Permutation_Forall; [apply Permutation_sym, insert_perm|].
        constructor; auto.
  Qed.

  Lemma sort_sorted : forall l, StronglySorted le_k (stable_sort leb key l).
  Proof.
    induction l as [|x r IH]; simpl.
    - constructor.
    - apply insert_sorted. assumption.
  Qed.

  Definition key_inj_on (l : list A) : Prop := forall a b, In a l -> In b l -> key a = key b -> a = b.

  Lemma sorted_perm_unique : forall l1 l2,
    StronglySorted le_k l1 -> StronglySorted le_k l2 -> Permutation l1 l2 -> key_inj_on l1 -> l1 = l2.
  Proof.
    induction l1 as [|a r1 IH]; intros l2 S1 S2 P Inj.
    - apply Permutation_nil in P. auto.
    - destruct l2 as [|b r2].
      + apply Permutation_sym, Permutation_nil in P. discriminate.
      + inversion S1 as [|? ? S1' F1]; subst. inversion S2 as [|? ? S2' F2]; subst.
        assert (Hab : a = b).
        { assert (Ia : In a (b :: r2)) by (eapply Permutation_in; [exact P|left; reflexivity]).
          assert (Ib : In b (a :: r1)) by (eapply Permutation_in; [exact (Permutation_sym P)|left; reflexivity]).
          destruct Ia as [->|Ia]; auto. destruct Ib as [->|Ib]; auto.
          rewrite Forall_forall in F1, F2.
          apply Inj; [left; reflexivity | right; assumption |].
          apply (leb_of_antisym _ _ G); [apply F1|apply F2]; assumption. }
        subst b. f_equal. apply IH; auto.
        * eapply Permutation_cons_inv; eassumption.
        * intros x y Hx Hy. apply Inj; right; assumption.
  Qed.

  (** the central lemma *)
  Lemma stable_sort_perm_inj : forall l1 l2,
    Permutation l1 l2 -> key_inj_on l1 -> stable_sort leb key l1 = stable_sort leb key l2.
  Proof.
    intros l1 l2 P Inj. apply sorted_perm_unique; try apply sort_sorted.
    - rewrite !sort_perm. assumption.
    - intros a b Ha Hb. apply Inj; eapply Permutation_in; try eassumption; apply sort_perm.
  Qed.

  Definition keys_unique (l : list A) : Prop := NoDup (map key l).

  Lemma keys_unique_inj : forall l, keys_unique l -> key_inj_on l.
  Proof.
    unfold keys_unique. induction l as [|x r IH]; simpl; intros N a b Ha Hb E.
    - contradiction.
    - inversion N as [|? ? Nin N']; subst.
      destruct Ha as [->|Ha], Hb as [->|Hb]; auto.
      + exfalso. apply Nin. rewrite E. apply in_map. assumption.
      + exfalso. apply Nin. rewrite <- E. apply in_map. assumption.
      + apply IH; assumption.
  Qed.

  Lemma stable_sort_perm : forall l1 l2,
    Permutation l1 l2 -> keys_unique l1 -> stable_sort leb key l1 = stable_sort leb key l2.
  Proof. intros. apply stable_sort_perm_inj; auto using keys_unique_inj. Qed.
End SortFacts.
Arguments keys_unique {A K} key l.
Arguments key_inj_on {A K} key l.

(** sorting commutes with a map that preserves the comparisons (no assumption on the order) *)
Lemma stable_sort_map {A B K K' : Type} (leb : K -> K -> bool) (leb' : K' -> K' -> bool)
      (key : A -> K) (key' : B -> K') (g : A -> B) :
  (forall a b, leb' (key' (g a)) (key' (g b)) = leb (key a) (key b)) ->
  forall l, stable_sort leb' key' (map g l) = map g (stable_sort leb key l).
Proof.
  intros H. induction l as [|x r IH]; simpl; auto.
  rewrite IH. generalize (stable_sort leb key r) as s. clear IH.
  induction s as [|y s IHs]; simpl; auto.
  rewrite H. destruct (leb (key x) (key y)); simpl; auto. rewrite IHs. reflexivity.
Qed.

(** without uniqueness, the sequence of keys is still invariant *)
Lemma sorted_keys_perm {A K : Type} (cmp : K -> K -> comparison) (key : A -> K) :
  good_cmp cmp -> forall l1 l2, Permutation l1 l2 ->
  map key (stable_sort (leb_of cmp) key l1) = map key (stable_sort (leb_of cmp) key l2).
Proof.
  intros G l1 l2 P.
  rewrite <- !(stable_sort_map (leb_of cmp) (leb_of cmp) key (fun k => k) key) by reflexivity.
  apply stable_sort_perm_inj; auto.
  - apply Permutation_map. assumption.
  - intros a b _ _ E. exact E.
Qed.
