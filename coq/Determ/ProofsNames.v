(* C18: the names handed out by Compiler.new_varname / PrintEnv.get_name are a function of the traversal (the
   event sequence) and of the symbols' NAME STRINGS; the Sym ids only matter through equality, so any injective
   renumbering of the ids (in particular: any shift of the global counter) yields the same names. *)
From Coq Require Import String Ascii List Bool Arith Lia.
From Determ Require Import Model ProofsSym.
Import ListNotations.

Definition injective (f : nat -> nat) : Prop := forall i j, f i = f j -> i = j.

Lemma sym_eqb_rename : forall f, injective f -> forall a b,
  sym_eqb (rename_sym f a) (rename_sym f b) = sym_eqb a b.
Proof.
  intros f I a b. unfold sym_eqb, rename_sym; simpl.
  destruct (String.eqb (sy_name a) (sy_name b)); simpl; auto.
  destruct (Nat.eqb_spec (sy_id a) (sy_id b)) as [E|E].
  - rewrite E. apply Nat.eqb_refl.
  - apply Nat.eqb_neq. intros H. apply E. apply I. assumption.
Qed.

Definition rename_frame (f : nat -> nat) (fr : frame sym string) : frame sym string :=
  map (fun kv => (rename_sym f (fst kv), snd kv)) fr.
Definition rename_env (f : nat -> nat) (env : chain sym string) : chain sym string := map (rename_frame f) env.

Lemma frame_get_rename : forall f, injective f -> forall s fr,
  frame_get sym_eqb (rename_sym f s) (rename_frame f fr) = frame_get sym_eqb s fr.
Proof.
  intros f I s fr. induction fr as [|[k v] r IH]; simpl; auto.
  rewrite sym_eqb_rename by assumption. destruct (sym_eqb s k); auto.
Qed.

Lemma chain_get_rename : forall f, injective f -> forall s env,
  chain_get sym_eqb (rename_sym f s) (rename_env f env) = chain_get sym_eqb s env.
Proof.
  intros f I s env. induction env as [|fr r IH]; simpl; auto.
  rewrite frame_get_rename by assumption. destruct (frame_get sym_eqb s fr); auto.
Qed.

Lemma chain_set_rename : forall f s v env,
  chain_set (rename_sym f s) v (rename_env f env) = rename_env f (chain_set s v env).
Proof. intros f s v [|fr r]; reflexivity. Qed.

Lemma chain_pop_rename : forall f env, chain_pop (rename_env f env) = rename_env f (chain_pop env).
Proof. intros f [|fr r]; reflexivity. Qed.

Section Generic.
  Variable NS : Type.
  Variables (ns_push ns_pop : NS -> NS) (alloc : string -> NS -> string * NS).

  Lemma step_rename : forall f, injective f -> forall ns env e,
    step ns_push ns_pop alloc (ns, rename_env f env) (rename_event f e)
    = let '((ns', env'), o) := step ns_push ns_pop alloc (ns, env) e in ((ns', rename_env f env'), o).
  Proof.
    intros f I ns env e. destruct e as [| |s|s|s]; simpl.
    - reflexivity.
    - rewrite chain_pop_rename. reflexivity.
    - destruct (alloc (sy_name s) ns) as [nm ns']. rewrite chain_set_rename. reflexivity.
    - rewrite chain_get_rename by assumption. reflexivity.
    - rewrite chain_get_rename by assumption. destruct (chain_get sym_eqb s env); auto.
      destruct (alloc (sy_name s) ns) as [nm ns']. rewrite chain_set_rename. reflexivity.
  Qed.

  Lemma run_rename : forall f, injective f -> forall evs ns env,
    run ns_push ns_pop alloc (ns, rename_env f env) (map (rename_event f) evs)
    = run ns_push ns_pop alloc (ns, env) evs.
  Proof.
    intros f I evs. induction evs as [|e r IH]; intros ns env; [reflexivity|].
    cbn [map run]. rewrite step_rename by assumption.
    destruct (step ns_push ns_pop alloc (ns, env) e) as [[ns' env'] o].
    rewrite IH. reflexivity.
  Qed.
End Generic.

Lemma compiler_run_rename : forall f, injective f -> forall evs,
  compiler_run (map (rename_event f) evs) = compiler_run evs.
Proof.
  intros f I evs. unfold compiler_run.
  exact (run_rename cnames _ _ new_varname f I evs [[]] [[]]).
Qed.

Lemma printenv_run_rename : forall f, injective f -> forall evs,
  printenv_run (map (rename_event f) evs) = printenv_run evs.
Proof.
  intros f I evs. unfold printenv_run.
  exact (run_rename pnames _ _ pe_alloc f I evs [[]] [[]]).
Qed.

Lemma names_depend_on_traversal_only : forall f, injective f -> forall evs,
  compiler_run (map (rename_event f) evs) = compiler_run evs /\
  printenv_run (map (rename_event f) evs) = printenv_run evs.
Proof. intros. split; [apply compiler_run_rename | apply printenv_run_rename]; assumption. Qed.

Lemma strictly_monotone_injective : forall f, strictly_monotone f -> injective f.
Proof. intros f M i j. apply mono_inj. assumption. Qed.

Example names_hyps_satisfiable : injective (fun i => i + 100).
Proof. intros i j H. lia. Qed.

(* two allocations of x in nested scopes, a use of each, then a sibling scope: the C names *)
Example compiler_run_example :
  compiler_run [Decl (mkSym "x" 1); Push; Decl (mkSym "x" 2); Use (mkSym "x" 2); Use (mkSym "x" 1); Pop;
                Push; Decl (mkSym "x" 3); Decl (mkSym "x_1" 4); Pop]
  = [Some "x"; None; Some "x_1"; Some "x_1"; Some "x"; None; None; Some "x_1"; Some "x_2"; None]%string.
Proof. reflexivity. Qed.

Example printenv_run_example :
  printenv_run [Ref (mkSym "x" 1); Push; Ref (mkSym "x" 2); Ref (mkSym "x" 1); Ref (mkSym "x_1" 5)]
  = [Some "x"; None; Some "x_1"; Some "x"; Some "x_1_1"]%string.
Proof. reflexivity. Qed.
