(** * Cursors/Base.v — list / path / tree-update lemmas shared by all C06 proofs. *)
From Coq Require Import List Arith Bool Lia ZifyBool.
From Cursors Require Import Model.
Import ListNotations.

(* ------------------------------------------------------------------------------------------------ *)
(** ** Decidable equalities *)

Lemma attr_eqb_eq a b : attr_eqb a b = true <-> a = b.
Proof. destruct a, b; simpl; split; congruence. Qed.

Lemma attr_eqb_refl a : attr_eqb a a = true.
Proof. destruct a; reflexivity. Qed.

Lemma attr_eqb_neq a b : attr_eqb a b = false <-> a <> b.
Proof. destruct a, b; simpl; split; congruence. Qed.

Lemma edge_eqb_eq x y : edge_eqb x y = true <-> x = y.
Proof.
  destruct x as [a i], y as [b j]; unfold edge_eqb; simpl.
  rewrite andb_true_iff, attr_eqb_eq, Nat.eqb_eq. split.
  - intros [-> ->]; reflexivity.
  - intros H; inversion H; auto.
Qed.

Lemma edge_eqb_refl x : edge_eqb x x = true.
Proof. apply edge_eqb_eq; reflexivity. Qed.

Lemma path_eqb_eq p q : path_eqb p q = true <-> p = q.
Proof.
  revert q; induction p as [|x p IH]; intros [|y q]; simpl; try (split; congruence).
  rewrite andb_true_iff, edge_eqb_eq, IH. split.
  - intros [-> ->]; reflexivity.
  - intros H; inversion H; auto.
Qed.

Lemma path_eqb_refl p : path_eqb p p = true.
Proof. apply path_eqb_eq; reflexivity. Qed.

Lemma path_eqb_neq p q : path_eqb p q = false <-> p <> q.
Proof.
  destruct (path_eqb p q) eqn:E.
  - apply path_eqb_eq in E. split; [discriminate | intros H; contradiction].
  - split; auto. intros _ ->. rewrite path_eqb_refl in E; discriminate.
Qed.

Lemma starts_with_spec a b : starts_with a b = true <-> exists r, a = b ++ r.
Proof.
  revert a; induction b as [|y b IH]; intros a; simpl.
  - split; auto. intros _. exists a; reflexivity.
  - destruct a as [|x a].
    + split; [discriminate | intros [r H]; discriminate].
    + rewrite andb_true_iff, edge_eqb_eq, IH. split.
      * intros [-> [r ->]]. exists r; reflexivity.
      * intros [r H]; inversion H. split; auto. exists r; reflexivity.
Qed.

(* ------------------------------------------------------------------------------------------------ *)
(** ** Lists *)

Lemma nth_error_firstn_skipn {A} (l : list A) i x :
  nth_error l i = Some x -> l = firstn i l ++ x :: skipn (S i) l.
Proof.
  revert i; induction l as [|y l IH]; intros [|i]; simpl; try discriminate.
  - intros [= ->]; reflexivity.
  - intros H; f_equal; apply IH; exact H.
Qed.

Lemma nth_error_app_mid {A} (xs ys : list A) x : nth_error (xs ++ x :: ys) (length xs) = Some x.
Proof. rewrite nth_error_app2, Nat.sub_diag by lia; reflexivity. Qed.

Definition repl_at {A} (i : nat) (y : A) (l : list A) : list A := firstn i l ++ y :: skipn (S i) l.
Arguments repl_at : simpl never.

Lemma nth_error_replace_other {A} (l : list A) i j (y : A) :
  i <> j -> i < length l ->
  nth_error (repl_at i y l) j = nth_error l j.
Proof.
  unfold repl_at. revert i j; induction l as [|x l IH]; intros [|i] [|j]; simpl; intros; try lia; auto.
  apply IH; lia.
Qed.

Lemma nth_error_replace_same {A} (l : list A) i (y : A) :
  i < length l -> nth_error (repl_at i y l) i = Some y.
Proof.
  unfold repl_at. intros Hi. rewrite nth_error_app2 by (rewrite firstn_length; lia).
  rewrite firstn_length, Nat.min_l by lia. rewrite Nat.sub_diag. reflexivity.
Qed.

Lemma replace_length {A} (l : list A) i (y : A) :
  i < length l -> length (repl_at i y l) = length l.
Proof. unfold repl_at. intros. rewrite app_length, firstn_length. cbn [length]. rewrite skipn_length. lia. Qed.

Lemma nth_error_firstn' {A} (l : list A) n k : k < n -> nth_error (firstn n l) k = nth_error l k.
Proof.
  revert n k; induction l as [|x l IH]; intros [|n] [|k] H; simpl; auto; try lia.
  apply IH; lia.
Qed.

Lemma nth_error_skipn' {A} (l : list A) n k : nth_error (skipn n l) k = nth_error l (n + k).
Proof.
  revert n; induction l as [|x l IH]; intros [|n]; simpl; auto.
  destruct k; reflexivity.
Qed.

Lemma skipn_skipn' {A} (l : list A) a b : skipn a (skipn b l) = skipn (a + b) l.
Proof.
  revert l; induction b as [|b IH]; intros l.
  - rewrite Nat.add_0_r. reflexivity.
  - rewrite Nat.add_succ_r. destruct l as [|x l]; simpl.
    + destruct a; reflexivity.
    + apply IH.
Qed.

Lemma firstn_add' {A} (l : list A) a b : firstn (a + b) l = firstn a l ++ firstn b (skipn a l).
Proof.
  revert l; induction a as [|a IH]; intros l; simpl; auto.
  destruct l as [|x l]; simpl.
  - destruct b; reflexivity.
  - f_equal. apply IH.
Qed.

Lemma slice_length {A} (l : list A) lo hi : hi <= length l -> length (slice l lo hi) = hi - lo.
Proof. intros. unfold slice. rewrite firstn_length, skipn_length. lia. Qed.

Lemma nth_error_slice {A} (l : list A) lo hi k :
  k < hi - lo -> nth_error (slice l lo hi) k = nth_error l (lo + k).
Proof.
  intros. unfold slice. rewrite nth_error_firstn' by lia. apply nth_error_skipn'.
Qed.

Lemma slice_app_l {A} (xs ys : list A) lo hi :
  hi <= length xs -> slice (xs ++ ys) lo hi = slice xs lo hi.
Proof.
  intros. unfold slice. rewrite skipn_app, firstn_app, skipn_length.
  replace (hi - lo - (length xs - lo)) with 0 by lia. simpl. apply app_nil_r.
Qed.

Lemma slice_app_r {A} (xs ys : list A) lo hi :
  length xs <= lo -> slice (xs ++ ys) lo hi = slice ys (lo - length xs) (hi - length xs).
Proof.
  intros. unfold slice. rewrite skipn_app, skipn_all2 by lia. simpl.
  f_equal. lia.
Qed.

Lemma slice_app_mid {A} (xs ys : list A) lo hi :
  lo <= length xs -> length xs <= hi ->
  slice (xs ++ ys) lo hi = skipn lo xs ++ firstn (hi - length xs) ys.
Proof.
  intros. unfold slice. rewrite skipn_app, firstn_app, skipn_length.
  replace (lo - length xs) with 0 by lia. simpl.
  rewrite firstn_all2 by (rewrite skipn_length; lia). f_equal. f_equal. lia.
Qed.

Lemma slice_full {A} (l : list A) : slice l 0 (length l) = l.
Proof. unfold slice. simpl. rewrite Nat.sub_0_r. apply firstn_all. Qed.

Lemma slice_empty {A} (l : list A) lo hi : hi <= lo -> slice l lo hi = [].
Proof. intros. unfold slice. replace (hi - lo) with 0 by lia. reflexivity. Qed.

Lemma slice_split {A} (l : list A) lo mid hi :
  lo <= mid -> mid <= hi -> slice l lo hi = slice l lo mid ++ slice l mid hi.
Proof.
  intros. unfold slice.
  replace (hi - lo) with ((mid - lo) + (hi - mid)) by lia.
  rewrite firstn_add'. f_equal. rewrite skipn_skipn'. f_equal. f_equal. lia.
Qed.

Lemma firstn_is_slice {A} (l : list A) n : firstn n l = slice l 0 n.
Proof. unfold slice. simpl. rewrite Nat.sub_0_r. reflexivity. Qed.

Lemma skipn_is_slice {A} (l : list A) n : skipn n l = slice l n (length l).
Proof.
  unfold slice. symmetry. apply firstn_all2. rewrite skipn_length. lia.
Qed.

Lemma list_split3 {A} (l : list A) lo hi :
  lo <= hi -> hi <= length l -> l = firstn lo l ++ slice l lo hi ++ skipn hi l.
Proof.
  intros. rewrite firstn_is_slice, skipn_is_slice.
  rewrite <- slice_split by lia. rewrite <- slice_split by lia. symmetry. apply slice_full.
Qed.

(* ------------------------------------------------------------------------------------------------ *)
(** ** Trees *)

Lemma kids_set_kids_same t a cs : kids (set_kids t a cs) a = cs.
Proof. destruct t, a; reflexivity. Qed.

Lemma kids_set_kids_other t a b cs : a <> b -> kids (set_kids t a cs) b = kids t b.
Proof. destruct t, a, b; simpl; congruence. Qed.

Lemma lbl_set_kids t a cs : lbl (set_kids t a cs) = lbl t.
Proof. destruct t, a; reflexivity. Qed.

Lemma set_kids_kids t a : set_kids t a (kids t a) = t.
Proof. destruct t, a; reflexivity. Qed.

Lemma get_app t p q : get t (p ++ q) = match get t p with Some n => get n q | None => None end.
Proof.
  revert t; induction p as [|[a i] p IH]; intros t; simpl; auto.
  destruct (nth_error (kids t a) i); auto.
Qed.

Lemma get_app_some t p q n : get t p = Some n -> get t (p ++ q) = get n q.
Proof. intros H. rewrite get_app, H. reflexivity. Qed.

Lemma get_snoc t p a i n :
  get t p = Some n -> get t (p ++ [(a, i)]) = nth_error (kids n a) i.
Proof.
  intros H. rewrite (get_app_some _ _ _ _ H). simpl. destruct (nth_error (kids n a) i); reflexivity.
Qed.

Lemma get_prefix t p q x : get t (p ++ q) = Some x -> exists n, get t p = Some n /\ get n q = Some x.
Proof. rewrite get_app. destruct (get t p); [eauto | discriminate]. Qed.

(* ------------------------------------------------------------------------------------------------ *)
(** ** [upd]: the tree with the child list at (p, a) rewritten by [f]; all four local edits are [upd]s *)

Fixpoint upd (p : path) (a : attr) (f : list tree -> list tree) (t : tree) : option tree :=
  match p with
  | [] => Some (set_kids t a (f (kids t a)))
  | (b, i) :: p' =>
      match nth_error (kids t b) i with
      | None => None
      | Some c =>
          match upd p' a f c with
          | None => None
          | Some c' => Some (set_kids t b (repl_at i c' (kids t b)))
          end
      end
  end.

Lemma rewrite_upd p a f t :
  rewrite (fun n => [set_kids n a (f (kids n a))]) p t = option_map (fun x => [x]) (upd p a f t).
Proof.
  revert t; induction p as [|[b i] p IH]; intros t; simpl; auto.
  destruct (nth_error (kids t b) i) as [c|]; auto.
  rewrite IH. destruct (upd p a f c); reflexivity.
Qed.

Lemma rewrite_root_upd p a f t :
  rewrite_root (fun n => [set_kids n a (f (kids n a))]) p t = upd p a f t.
Proof. unfold rewrite_root. rewrite rewrite_upd. destruct (upd p a f t); reflexivity. Qed.

Lemma upd_some p a f t : (exists n, get t p = Some n) <-> (exists t', upd p a f t = Some t').
Proof.
  revert t; induction p as [|[b i] p IH]; intros t; cbn [get upd].
  - split; eauto.
  - destruct (nth_error (kids t b) i) as [c|].
    + rewrite IH. destruct (upd p a f c); split; intros [x H]; try discriminate; eauto.
    + split; intros [x H]; discriminate.
Qed.

Lemma upd_lbl p a f t t' : upd p a f t = Some t' -> lbl t' = lbl t.
Proof.
  destruct p as [|[b i] p]; cbn [upd].
  - intros [= <-]. apply lbl_set_kids.
  - destruct (nth_error (kids t b) i); [|discriminate].
    destruct (upd p a f t0); [|discriminate]. intros [= <-]. apply lbl_set_kids.
Qed.

(** the node at the edit path after the update *)
Lemma get_upd_at p a f t t' n :
  upd p a f t = Some t' -> get t p = Some n -> get t' p = Some (set_kids n a (f (kids n a))).
Proof.
  revert t t'; induction p as [|[b i] p IH]; intros t t'; cbn [get upd].
  - intros [= <-] [= <-]. reflexivity.
  - destruct (nth_error (kids t b) i) as [c|] eqn:E; [|discriminate].
    destruct (upd p a f c) as [c'|] eqn:U; [|discriminate].
    intros [= <-] G. rewrite kids_set_kids_same.
    rewrite nth_error_replace_same by (apply nth_error_Some; congruence).
    eapply IH; eauto.
Qed.

(** paths THROUGH the edited list *)
Lemma get_upd_through p a f t t' n q :
  upd p a f t = Some t' -> get t p = Some n ->
  get t' (p ++ q) = get (set_kids n a (f (kids n a))) q.
Proof.
  intros U G. rewrite (get_app_some _ _ _ _ (get_upd_at _ _ _ _ _ _ U G)). reflexivity.
Qed.

Definition through (p : path) (a : attr) (q : path) : Prop := exists i r, q = p ++ (a, i) :: r.

(** paths NOT through the edited list keep their label and the labels of all their child lists,
    except for the edited list itself *)
Lemma get_upd_unchanged p a f : forall t t' q x,
  upd p a f t = Some t' -> ~ through p a q -> get t q = Some x ->
  exists x', get t' q = Some x' /\ lbl x' = lbl x /\
             (forall b, (q, b) <> (p, a) -> map lbl (kids x' b) = map lbl (kids x b)).
Proof.
  induction p as [|[c j] p IH]; intros t t' q x U NT G.
  - cbn [upd] in U. injection U as <-.
    destruct q as [|[b i] r].
    + cbn [get] in G. injection G as <-. eexists; split; [reflexivity|]. split; [apply lbl_set_kids|].
      intros b Hb. rewrite kids_set_kids_other; auto. intros ->. apply Hb; reflexivity.
    + assert (b <> a) by (intros ->; apply NT; exists i, r; reflexivity).
      cbn [get] in G |- *. rewrite kids_set_kids_other by auto.
      destruct (nth_error (kids t b) i) as [c|]; [|discriminate].
      exists x. auto.
  - cbn [upd] in U.
    destruct (nth_error (kids t c) j) as [n|] eqn:E; [|discriminate].
    destruct (upd p a f n) as [n'|] eqn:U'; [|discriminate].
    injection U as <-.
    assert (Hj : j < length (kids t c)) by (apply nth_error_Some; congruence).
    destruct q as [|[b i] r].
    + cbn [get] in G. injection G as <-. eexists; split; [reflexivity|]. split; [apply lbl_set_kids|].
      intros b _. destruct (attr_eqb b c) eqn:Ebc.
      * apply attr_eqb_eq in Ebc as ->. rewrite kids_set_kids_same.
        unfold repl_at. rewrite (nth_error_firstn_skipn _ _ _ E) at 3.
        rewrite !map_app. cbn [map]. rewrite (upd_lbl _ _ _ _ _ U'). reflexivity.
      * apply attr_eqb_neq in Ebc. rewrite kids_set_kids_other; auto.
    + cbn [get] in G |- *.
      destruct (attr_eqb b c) eqn:Ebc.
      * apply attr_eqb_eq in Ebc as ->. rewrite kids_set_kids_same.
        destruct (Nat.eq_dec i j) as [->|Hij].
        -- rewrite nth_error_replace_same by auto. rewrite E in G.
           assert (NT' : ~ through p a r).
           { intros [i' [r' ->]]. apply NT. exists i', r'. reflexivity. }
           destruct (IH n n' r x U' NT' G) as [x' [G' [L K]]].
           exists x'. split; auto. split; auto.
           intros b Hb. apply K. intros H; apply Hb. inversion H; subst; reflexivity.
        -- rewrite nth_error_replace_other by auto.
           destruct (nth_error (kids t c) i); [|discriminate]. exists x; auto.
      * apply attr_eqb_neq in Ebc. rewrite kids_set_kids_other by auto.
        destruct (nth_error (kids t b) i); [|discriminate]. exists x; auto.
Qed.

(** the four list functions *)
Definition splice (lo hi : nat) (new : list tree) (l : list tree) : list tree :=
  firstn lo l ++ new ++ skipn hi l.

Definition splice_default (lo hi : nat) (new dflt : list tree) (l : list tree) : list tree :=
  match splice lo hi new l with [] => dflt | _ => splice lo hi new l end.

Lemma block_replace_upd p a lo hi nodes dflt t :
  block_replace p a lo hi nodes dflt t = upd p a (splice_default lo hi nodes dflt) t.
Proof. unfold block_replace. apply (rewrite_root_upd p a (splice_default lo hi nodes dflt) t). Qed.

Lemma splice_length lo hi new l :
  lo <= hi -> hi <= length l -> length (splice lo hi new l) = length l + length new - (hi - lo).
Proof.
  intros. unfold splice. rewrite !app_length, firstn_length, skipn_length. lia.
Qed.

(** insertion through the anchor: [children[:i] + (stmts + [anchor] | [anchor] + stmts) + children[i+1:]] *)
Lemma rewrite_insert : forall q a i s stmts t x,
  get t (q ++ [(a, i)]) = Some x ->
  rewrite (fun anchor => match s with Before => stmts ++ [anchor] | After => anchor :: stmts end)
          (q ++ [(a, i)]) t
  = option_map (fun r => [r])
      (upd q a (splice (match s with Before => i | After => i + 1 end)
                       (match s with Before => i | After => i + 1 end) stmts) t).
Proof.
  induction q as [|[b j] q IH]; intros a i s stmts t x G.
  - simpl in *. destruct (nth_error (kids t a) i) as [c|] eqn:E; [|discriminate].
    f_equal. f_equal. f_equal. unfold splice.
    pose proof (nth_error_firstn_skipn _ _ _ E) as Hl.
    assert (Hi : i < length (kids t a)) by (apply nth_error_Some; congruence).
    destruct s.
    + rewrite <- app_assoc. f_equal. f_equal. simpl.
      rewrite Hl at 2. rewrite skipn_app, skipn_all2 by (rewrite firstn_length; lia).
      rewrite firstn_length, Nat.min_l, Nat.sub_diag by lia. reflexivity.
    + replace (i + 1) with (S i) by lia.
      rewrite Hl at 3. rewrite firstn_app, firstn_firstn, Nat.min_r by lia.
      rewrite firstn_length, Nat.min_l by lia. replace (S i - i) with 1 by lia.
      simpl. rewrite <- app_assoc. reflexivity.
  - simpl in G |- *. destruct (nth_error (kids t b) j) as [c|]; [|discriminate].
    rewrite (IH a i s stmts c x G).
    destruct (upd q a _ c); reflexivity.
Qed.

Lemma gap_insert_upd q a i s stmts t x :
  get t (q ++ [(a, i)]) = Some x ->
  gap_insert (q ++ [(a, i)]) s stmts t =
  upd q a (splice (match s with Before => i | After => i + 1 end)
                  (match s with Before => i | After => i + 1 end) stmts) t.
Proof.
  intros G. unfold gap_insert.
  assert (H : forall (X : Type) (u v : X), match q ++ [(a, i)] with [] => u | _ :: _ => v end = v)
    by (intros; destruct q; reflexivity).
  rewrite H. unfold rewrite_root.
  rewrite (rewrite_insert q a i s stmts t x G).
  destruct (upd q a _ t); reflexivity.
Qed.

(** paths: last / init *)
Lemma plast_snoc (q : path) e : plast (q ++ [e]) = Some e.
Proof.
  unfold plast. rewrite app_length. simpl. replace (length q + 1 - 1) with (length q) by lia.
  apply nth_error_app_mid.
Qed.

Lemma pinit_snoc (q : path) e : pinit (q ++ [e]) = q.
Proof.
  unfold pinit. rewrite app_length. simpl. replace (length q + 1 - 1) with (length q) by lia.
  rewrite firstn_app, Nat.sub_diag, firstn_all. simpl. apply app_nil_r.
Qed.

Lemma path_snoc_inv (p : path) : p <> [] -> exists q e, p = q ++ [e].
Proof.
  intros H. destruct (exists_last H) as [q [e ->]]. eauto.
Qed.
