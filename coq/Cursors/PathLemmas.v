(** * Cursors/PathLemmas.v — boolean "passes through list (p, a)" and index surgery on paths *)
From Coq Require Import List Arith Bool Lia ZifyBool.
From Cursors Require Import Model Base Spec Local.
Import ListNotations.

Ltac plia := lia.

(** [q] passes through the child list [a] of the node at [p] *)
Definition thru (p : path) (a : attr) (q : path) : bool :=
  (length p <? length q) && path_eqb p (firstn (length p) q) &&
  match nth_error q (length p) with Some (x, _) => attr_eqb a x | None => false end.

Definition idx_at (m : nat) (q : path) : nat :=
  match nth_error q m with Some (_, i) => i | None => 0 end.

Lemma thru_app p a k (r : path) : thru p a (p ++ (a, k) :: r) = true.
Proof.
  unfold thru. rewrite app_length. cbn [length].
  assert (H : length p <? length p + S (length r) = true) by (apply Nat.ltb_lt; lia).
  rewrite H.
  rewrite firstn_app_exact, path_eqb_refl, nth_error_app_mid, attr_eqb_refl. reflexivity.
Qed.

Lemma idx_at_app (p : path) a k (r : path) : idx_at (length p) (p ++ (a, k) :: r) = k.
Proof. unfold idx_at. rewrite nth_error_app_mid. reflexivity. Qed.

Lemma thru_true (p : path) a (q : path) :
  thru p a q = true -> q = p ++ (a, idx_at (length p) q) :: skipn (S (length p)) q.
Proof.
  unfold thru, idx_at. intros H.
  apply andb_true_iff in H as [H H3]. apply andb_true_iff in H as [H1 H2].
  apply path_eqb_eq in H2.
  destruct (nth_error q (length p)) as [[x i]|] eqn:E; [|discriminate].
  apply attr_eqb_eq in H3 as <-.
  rewrite <- (firstn_skipn (length p) q) at 1. rewrite <- H2. f_equal.
  clear H1 H2. revert q E. generalize (length p) as m.
  induction m as [|m IH]; intros [|y q] E; simpl in *; try discriminate.
  - injection E as ->. reflexivity.
  - apply IH. exact E.
Qed.

Lemma thru_through (p : path) a (q : path) : thru p a q = true <-> through p a q.
Proof.
  split.
  - intros H. apply thru_true in H. eexists _, _. exact H.
  - intros [i [r ->]]. apply thru_app.
Qed.

Lemma lf_node_thru (p : path) a fn (q : path) :
  lf_node p a fn q =
  if thru p a q then rbind (fn (idx_at (length p) q)) (fun es => Ok (p ++ es ++ skipn (S (length p)) q))
  else Ok q.
Proof.
  destruct (thru p a q) eqn:T.
  - pose proof (thru_true _ _ _ T) as E. rewrite E at 1. rewrite lf_node_through. reflexivity.
  - apply lf_node_not_through. intros H. apply thru_through in H. congruence.
Qed.

(** [set_idx] *)
Lemma set_idx_app (p : path) a k (r : path) f : set_idx (p ++ (a, k) :: r) (length p) f = p ++ (a, f k) :: r.
Proof.
  unfold set_idx. rewrite nth_error_app_mid, firstn_app_exact.
  replace (p ++ (a, k) :: r) with ((p ++ [(a, k)]) ++ r) by (rewrite <- app_assoc; reflexivity).
  replace (S (length p)) with (length (p ++ [(a, k)])) by (rewrite app_length; simpl; lia).
  rewrite skipn_app_exact. reflexivity.
Qed.

Lemma set_idx_none (q : path) m f : nth_error q m = None -> set_idx q m f = q.
Proof. intros E. unfold set_idx. rewrite E. reflexivity. Qed.

Lemma set_idx_length (q : path) m f : length (set_idx q m f) = length q.
Proof.
  unfold set_idx. destruct (nth_error q m) as [[a i]|] eqn:E; auto.
  assert (m < length q) by (apply nth_error_Some; congruence).
  rewrite app_length, firstn_length. cbn [length]. rewrite skipn_length. lia.
Qed.

Lemma set_idx_nth_other (q : path) m f j : j <> m -> nth_error (set_idx q m f) j = nth_error q j.
Proof.
  intros H. unfold set_idx. destruct (nth_error q m) as [[a i]|] eqn:E; auto.
  assert (m < length q) by (apply nth_error_Some; congruence).
  change (firstn m q ++ (a, f i) :: skipn (S m) q) with (repl_at m (a, f i) q).
  apply nth_error_replace_other; auto.
Qed.

Lemma set_idx_nth_same (q : path) m f a i :
  nth_error q m = Some (a, i) -> nth_error (set_idx q m f) m = Some (a, f i).
Proof.
  intros E. unfold set_idx. rewrite E.
  assert (m < length q) by (apply nth_error_Some; congruence).
  change (firstn m q ++ (a, f i) :: skipn (S m) q) with (repl_at m (a, f i) q).
  apply nth_error_replace_same; auto.
Qed.

Lemma firstn_set_idx_le (q : path) m f j : j <= m -> firstn j (set_idx q m f) = firstn j q.
Proof.
  intros H. unfold set_idx. destruct (nth_error q m) as [[a i]|] eqn:E; auto.
  assert (m < length q) by (apply nth_error_Some; congruence).
  rewrite firstn_app, firstn_firstn, firstn_length.
  replace (j - Nat.min m (length q)) with 0 by lia. simpl.
  rewrite app_nil_r. f_equal. lia.
Qed.

(** two lists with the same length and the same elements everywhere are equal *)
Lemma nth_error_ext {A} (l1 l2 : list A) : (forall i, nth_error l1 i = nth_error l2 i) -> l1 = l2.
Proof.
  revert l2; induction l1 as [|x l1 IH]; intros [|y l2] H; auto.
  - specialize (H 0). discriminate.
  - specialize (H 0). discriminate.
  - pose proof (H 0) as H0. simpl in H0. injection H0 as ->. f_equal.
    apply IH. intros i. apply (H (S i)).
Qed.

Lemma set_idx_comm (q : path) m1 m2 f1 f2 :
  m1 <> m2 -> set_idx (set_idx q m1 f1) m2 f2 = set_idx (set_idx q m2 f2) m1 f1.
Proof.
  intros H. apply nth_error_ext. intros j.
  destruct (Nat.eq_dec j m1) as [->|N1]; [|destruct (Nat.eq_dec j m2) as [->|N2]].
  - rewrite (set_idx_nth_other _ m2) by auto.
    destruct (nth_error q m1) as [[a i]|] eqn:E.
    + rewrite (set_idx_nth_same _ _ _ _ _ E).
      assert (E' : nth_error (set_idx q m2 f2) m1 = Some (a, i)) by (rewrite set_idx_nth_other; auto).
      rewrite (set_idx_nth_same _ _ _ _ _ E'). reflexivity.
    + assert (L : length q <= m1) by (apply nth_error_None; auto).
      transitivity (@None edge).
      * apply nth_error_None. rewrite set_idx_length. lia.
      * symmetry. apply nth_error_None. rewrite !set_idx_length. lia.
  - rewrite (set_idx_nth_other _ m1 _ m2) by auto.
    destruct (nth_error q m2) as [[a i]|] eqn:E.
    + rewrite (set_idx_nth_same _ _ _ _ _ E).
      assert (E' : nth_error (set_idx q m1 f1) m2 = Some (a, i)) by (rewrite set_idx_nth_other; auto).
      rewrite (set_idx_nth_same _ _ _ _ _ E'). reflexivity.
    + assert (L : length q <= m2) by (apply nth_error_None; auto).
      transitivity (@None edge).
      * apply nth_error_None. rewrite !set_idx_length. lia.
      * symmetry. apply nth_error_None. rewrite set_idx_length. lia.
  - rewrite !set_idx_nth_other by auto. reflexivity.
Qed.

Lemma set_idx_twice (q : path) m f g : set_idx (set_idx q m f) m g = set_idx q m (fun i => g (f i)).
Proof.
  apply nth_error_ext. intros j. destruct (Nat.eq_dec j m) as [->|N].
  - destruct (nth_error q m) as [[a i]|] eqn:E.
    + rewrite (set_idx_nth_same _ _ _ _ _ (set_idx_nth_same _ _ _ _ _ E)).
      rewrite (set_idx_nth_same _ _ _ _ _ E). reflexivity.
    + rewrite !(set_idx_none _ _ _ E). reflexivity.
  - rewrite !set_idx_nth_other by auto. reflexivity.
Qed.

(** [thru]/[idx_at] depend only on the first [length p + 1] edges *)
Lemma thru_set_idx_above (p : path) a (q : path) m f : length p < m -> thru p a (set_idx q m f) = thru p a q.
Proof.
  intros H. unfold thru. rewrite set_idx_length, firstn_set_idx_le by lia.
  rewrite set_idx_nth_other by lia. reflexivity.
Qed.

Lemma idx_at_set_idx_other (q : path) m f j : j <> m -> idx_at j (set_idx q m f) = idx_at j q.
Proof. intros H. unfold idx_at. rewrite set_idx_nth_other by auto. reflexivity. Qed.

Lemma thru_set_idx_same (p : path) a (q : path) f : thru p a (set_idx q (length p) f) = thru p a q.
Proof.
  unfold thru. rewrite set_idx_length, firstn_set_idx_le by lia.
  destruct (nth_error q (length p)) as [[x i]|] eqn:E.
  - rewrite (set_idx_nth_same _ _ _ _ _ E). reflexivity.
  - rewrite (set_idx_none _ _ _ E), E. reflexivity.
Qed.

Lemma idx_at_set_idx_same (q : path) m f : m < length q -> idx_at m (set_idx q m f) = f (idx_at m q).
Proof.
  intros H. unfold idx_at.
  destruct (nth_error q m) as [[x i]|] eqn:E; [|apply nth_error_None in E; lia].
  rewrite (set_idx_nth_same _ _ _ _ _ E). reflexivity.
Qed.

(** a path through (p, a) at index k has p as a prefix *)
Lemma thru_prefix (p : path) a (q : path) j :
  thru p a q = true -> j < length p -> nth_error q j = nth_error p j.
Proof.
  intros T H. apply thru_true in T. rewrite T. rewrite nth_error_app1 by lia. reflexivity.
Qed.

Lemma thru_at (p : path) a (q : path) : thru p a q = true -> nth_error q (length p) = Some (a, idx_at (length p) q).
Proof. intros T. apply thru_true in T. rewrite T at 1. apply nth_error_app_mid. Qed.

Lemma thru_length (p : path) a (q : path) : thru p a q = true -> length p < length q.
Proof. unfold thru. intros H. lia. Qed.

(** changing the index at a level BELOW [length p]: the path can only be through (p, a) if the new
    index is the one [p] has at that level *)
Lemma thru_set_idx_below (p : path) a (q : path) m f x i :
  m < length p -> nth_error q m = Some (x, i) ->
  thru p a (set_idx q m f) = true -> nth_error p m = Some (x, f i).
Proof.
  intros H E T. rewrite <- (thru_prefix _ _ _ _ T H). apply set_idx_nth_same. exact E.
Qed.

Lemma thru_below (p : path) a (q : path) m : m < length p -> thru p a q = true -> nth_error q m = nth_error p m.
Proof. intros H T. apply (thru_prefix _ _ _ _ T H). Qed.

(** [is_before] *)
Lemma is_before_app c g b : is_before (c ++ g) (c ++ b) = is_before g b.
Proof.
  induction c as [|[a i] c IH]; simpl; auto.
  rewrite attr_eqb_refl, Nat.eqb_refl. simpl. exact IH.
Qed.

Lemma new_gap_path_before : forall bs gs n, is_before gs bs = true -> new_gap_path bs gs n = Ok gs.
Proof.
  induction bs as [|[ba bi] bs IH]; intros [|[ga gi] gs] n H; simpl in *; auto.
  unfold edge_eqb. simpl.
  destruct (attr_eqb ga ba) eqn:Ea; simpl in H.
  - apply attr_eqb_eq in Ea as ->. rewrite attr_eqb_refl. simpl.
    destruct (gi =? bi) eqn:Ei; simpl in H.
    + apply Nat.eqb_eq in Ei as ->. rewrite Nat.eqb_refl. rewrite (IH gs n H). reflexivity.
    + rewrite Nat.eqb_sym, Ei. simpl. replace (bi <? gi) with false by lia. reflexivity.
  - discriminate.
Qed.

Lemma new_gap_path_app c bs gs n :
  new_gap_path (c ++ bs) (c ++ gs) n = rbind (new_gap_path bs gs n) (fun r => Ok (c ++ r)).
Proof.
  induction c as [|e c IH]; simpl.
  - destruct (new_gap_path bs gs n); reflexivity.
  - rewrite edge_eqb_refl, IH. destruct (new_gap_path bs gs n); reflexivity.
Qed.

(** extending a path by one edge *)
Lemma thru_snoc (p : path) a (q : path) e :
  thru p a (q ++ [e]) = if length q =? length p then path_eqb p q && attr_eqb a (fst e) else thru p a q.
Proof.
  unfold thru. rewrite app_length. cbn [length].
  destruct (Nat.lt_trichotomy (length q) (length p)) as [L|[L|L]].
  - replace (length q =? length p) with false by lia.
    replace (length p <? length q + 1) with false by lia.
    replace (length p <? length q) with false by lia. reflexivity.
  - replace (length q =? length p) with true by lia.
    replace (length p <? length q + 1) with true by lia.
    rewrite <- L. rewrite firstn_app_exact, nth_error_app_mid. destruct e; reflexivity.
  - replace (length q =? length p) with false by lia.
    replace (length p <? length q + 1) with true by lia.
    replace (length p <? length q) with true by lia.
    rewrite firstn_app. replace (length p - length q) with 0 by lia. simpl. rewrite app_nil_r.
    rewrite nth_error_app1 by lia. reflexivity.
Qed.

Lemma idx_at_snoc (q : path) e m : m < length q -> idx_at m (q ++ [e]) = idx_at m q.
Proof. intros. unfold idx_at. rewrite nth_error_app1 by lia. reflexivity. Qed.

Lemma set_idx_snoc (q : path) e m f : m < length q -> set_idx (q ++ [e]) m f = set_idx q m f ++ [e].
Proof.
  intros H. unfold set_idx. rewrite nth_error_app1 by lia.
  destruct (nth_error q m) as [[a i]|] eqn:E; auto.
  rewrite firstn_app. replace (m - length q) with 0 by lia. rewrite firstn_O, app_nil_r.
  rewrite skipn_app. replace (S m - length q) with 0 by lia. rewrite skipn_O.
  rewrite <- app_assoc. reflexivity.
Qed.

Lemma skipn_snoc {A} (q : list A) e m : m <= length q -> skipn m (q ++ [e]) = skipn m q ++ [e].
Proof. intros. rewrite skipn_app. replace (m - length q) with 0 by lia. reflexivity. Qed.
