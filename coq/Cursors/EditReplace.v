(** * Cursors/EditReplace.v — [Block._replace] / [Block._delete] / [Block._forward_replace] *)
From Coq Require Import List Arith Bool Lia ZifyBool.
From Cursors Require Import Model Base Spec Local Splice EditInsert.
Import ListNotations.

Lemma inb_block_inv t p a lo hi :
  inb_blockb t p a lo hi = true -> exists n, get t p = Some n /\ lo <= hi /\ hi <= length (kids n a).
Proof.
  unfold inb_blockb. destruct (get t p) as [n|]; [|discriminate].
  intros. exists n. split; auto. lia.
Qed.

(** the three ways a non-empty block can relate to the replaced range when forwarding succeeds *)
Lemma fb_ok_cases l h lo hi :
  l < h -> lo <= hi ->
  intersects_partially l h lo hi || is_sub_range l h lo hi = false ->
  hi <= l \/ (h < hi /\ h <= lo) \/ (l < hi /\ hi <= h /\ l <= lo).
Proof.
  intros Hl Hlo. unfold intersects_partially, is_sub_range, range_eqb, range_empty.
  destruct (h <=? l) eqn:E1; [lia|].
  destruct (hi <=? lo) eqn:E2; lia.
Qed.

Section Replace.
  Variables (t : tree) (p : path) (a : attr) (lo hi : nat) (nodes dflt : list tree) (n : tree).
  Hypothesis Gp : get t p = Some n.
  Hypothesis Hlo : lo <= hi.
  Hypothesis Hhi : hi <= length (kids n a).

  Let k := length nodes.
  Let f := splice_default lo hi nodes dflt.
  Let fn := fun i : nat =>
              if in_range i lo hi then @Invalid (list edge) else Ok [(a, repl_idx_update lo hi k i)].
  Let fb := fun l h : nat =>
              if intersects_partially l h lo hi || is_sub_range l h lo hi then @Invalid blk_edges
              else Ok ([], a, repl_idx_update lo hi k l, repl_idx_update lo hi k h).

  Lemma splice_default_nonempty l y j :
    nth_error (splice lo hi nodes l) j = Some y -> splice_default lo hi nodes dflt l = splice lo hi nodes l.
  Proof.
    unfold splice_default. destruct (splice lo hi nodes l); auto. destruct j; discriminate.
  Qed.

  Lemma replace_nth i :
    in_range i lo hi = false ->
    nth_error (splice lo hi nodes (kids n a)) (repl_idx_update lo hi k i) = nth_error (kids n a) i.
  Proof.
    intros R. unfold splice, repl_idx_update, in_range in *.
    destruct (hi <=? i) eqn:E.
    - unfold k. apply nth_error_splice_after; lia.
    - apply nth_error_splice_before; lia.
  Qed.

  Lemma replace_Hn : forall n0 j y es,
      get t p = Some n0 -> nth_error (kids n0 a) j = Some y -> fn j = Ok es ->
      es <> [] /\ get (set_kids n0 a (f (kids n0 a))) es = Some y.
  Proof.
    intros n0 j y es G0 E F. rewrite Gp in G0. injection G0 as <-.
    unfold fn in F. destruct (in_range j lo hi) eqn:R; [discriminate|]. injection F as <-.
    split; [discriminate|].
    rewrite get_single, kids_set_kids_same.
    pose proof (replace_nth j R) as H. rewrite E in H.
    unfold f. rewrite (splice_default_nonempty _ _ _ H). exact H.
  Qed.

  Lemma replace_block l h :
    l < h -> h <= length (kids n a) ->
    intersects_partially l h lo hi || is_sub_range l h lo hi = false ->
    let l' := repl_idx_update lo hi k l in
    let h' := repl_idx_update lo hi k h in
    l' <= h' /\ h' <= length (f (kids n a)) /\
    blk_rel (map lbl (slice (kids n a) lo hi)) (map lbl nodes)
            (map lbl (slice (kids n a) l h)) (map lbl (slice (f (kids n a)) l' h')).
  Proof.
    intros Hl Hh OK l' h'.
    destruct (fb_ok_cases l h lo hi Hl Hlo OK) as [C|[C|C]].
    - (* block after the replaced range *)
      assert (E : f (kids n a) = splice lo hi nodes (kids n a)).
      { destruct (nth_error (kids n a) l) as [y|] eqn:Ey; [|apply nth_error_None in Ey; lia].
        assert (R : in_range l lo hi = false) by (unfold in_range; lia).
        pose proof (replace_nth l R) as H. rewrite Ey in H.
        apply (splice_default_nonempty _ _ _ H). }
      rewrite E. unfold l', h', repl_idx_update.
      replace (hi <=? l) with true by lia. replace (hi <=? h) with true by lia.
      unfold splice. rewrite (splice_len (kids n a) nodes lo hi) by lia. fold k.
      split; [lia|]. split; [lia|]. left. f_equal. unfold k. apply slice_splice_after; lia.
    - (* block before the replaced range *)
      assert (E : f (kids n a) = splice lo hi nodes (kids n a)).
      { destruct (nth_error (kids n a) l) as [y|] eqn:Ey; [|apply nth_error_None in Ey; lia].
        assert (R : in_range l lo hi = false) by (unfold in_range; lia).
        pose proof (replace_nth l R) as H. rewrite Ey in H.
        apply (splice_default_nonempty _ _ _ H). }
      rewrite E. unfold l', h', repl_idx_update.
      replace (hi <=? l) with false by lia. replace (hi <=? h) with false by lia.
      unfold splice. rewrite (splice_len (kids n a) nodes lo hi) by lia. fold k.
      split; [lia|]. split; [lia|]. left. f_equal. apply slice_splice_before; lia.
    - (* block encloses the replaced range *)
      unfold l', h', repl_idx_update.
      replace (hi <=? l) with false by lia. replace (hi <=? h) with true by lia.
      assert (REL : blk_rel (map lbl (slice (kids n a) lo hi)) (map lbl nodes)
                            (map lbl (slice (kids n a) l h))
                            (map lbl (slice (splice lo hi nodes (kids n a)) l (h + k - (hi - lo))))).
      { right. exists (map lbl (slice (kids n a) l lo)), (map lbl (slice (kids n a) hi h)). split.
        - rewrite <- !map_app. f_equal.
          rewrite (slice_split (kids n a) l lo h) by lia. f_equal. apply slice_split; lia.
        - unfold splice, k. rewrite slice_splice_over by lia. rewrite !map_app. reflexivity. }
      unfold f, splice_default.
      destruct (splice lo hi nodes (kids n a)) as [|z zs] eqn:ES.
      + (* everything was removed: the block collapses to the empty range in front of the filler *)
        assert (Len : length (splice lo hi nodes (kids n a)) = 0) by (rewrite ES; reflexivity).
        unfold splice in Len. rewrite (splice_len (kids n a) nodes lo hi) in Len by lia. fold k in Len.
        replace (h + k - (hi - lo)) with l in * by lia.
        split; [lia|]. split; [lia|].
        rewrite (slice_empty dflt l l) by lia.
        rewrite (slice_empty (@nil tree) l l) in REL by lia. exact REL.
      + rewrite <- ES in *.
        assert (Len : length (splice lo hi nodes (kids n a)) = length (kids n a) + k - (hi - lo))
          by (unfold splice; rewrite (splice_len (kids n a) nodes lo hi) by lia; reflexivity).
        split; [lia|]. split; [lia|]. exact REL.
  Qed.

  Lemma replace_sound_aux t' c c' :
    upd p a f t = Some t' -> valid_cursor t c ->
    local_forward p a fn fb c = Ok c' ->
    inb_cursor t' c' /\
    same_with (map lbl (slice (kids n a) lo hi)) (map lbl nodes) t c t' c'.
  Proof.
    intros U V F. destruct c as [q|q b l h|q sd].
    - exact (local_node_sound t p a f fn replace_Hn fb _ _ t' q c' U V F).
    - destruct (path_eqb q p && attr_eqb b a) eqn:Sc.
      + apply andb_true_iff in Sc as [Sp Sb]. apply path_eqb_eq in Sp as ->. apply attr_eqb_eq in Sb as ->.
        destruct (valid_block_inv _ _ _ _ _ V) as [n0 [G0 [Hl Hh]]].
        rewrite Gp in G0. injection G0 as <-.
        apply (local_block_in_sound t p a f fn fb _ _ t' n l h c' U Gp F).
        intros pre na nlo nhi Fb. unfold fb in Fb.
        destruct (intersects_partially l h lo hi || is_sub_range l h lo hi) eqn:OK; [discriminate|].
        injection Fb as <- <- <- <-.
        destruct (replace_block l h Hl Hh OK) as [B1 [B2 B3]].
        exists (set_kids n a (f (kids n a))). split; [reflexivity|].
        rewrite kids_set_kids_same. auto.
      + destruct (local_block_out_sound t p a f fn replace_Hn fb
                    (map lbl (slice (kids n a) lo hi)) (map lbl nodes) t' q b l h c' U
                    (inb_of_valid _ _ V) Sc F) as [q' [-> [I [_ S]]]].
        auto.
    - exact (local_gap_sound t p a f fn replace_Hn fb _ _ t' q sd c' U V F).
  Qed.

  (** completeness: forwarding reports InvalidCursorError only for cursors cut by the replaced range *)
  Lemma lf_node_replace_ok q :
    under_range p a lo hi q = false -> exists q', lf_node p a fn q = Ok q'.
  Proof.
    intros NU. destruct (through_dec p a q) as [[[i r] E]|NT]; [simpl in E|].
    - subst q. rewrite lf_node_through. unfold fn.
      destruct (in_range i lo hi) eqn:R; simpl; eauto.
      exfalso. unfold under_range in NU.
      rewrite app_length in NU. simpl in NU.
      rewrite firstn_app_exact, path_eqb_refl, nth_error_app_mid, attr_eqb_refl, R in NU.
      rewrite !andb_true_r in NU. apply Nat.ltb_ge in NU. lia.
    - rewrite (lf_node_not_through _ _ _ _ NT). eauto.
  Qed.

  Lemma replace_complete_aux c :
    cut_by p a lo hi c = false -> exists c', local_forward p a fn fb c = Ok c'.
  Proof.
    intros NC. destruct c as [q|q b l h|q sd]; cbn [cut_by local_forward] in *.
    - destruct (lf_node_replace_ok q NC) as [q' ->]. simpl. eauto.
    - destruct (path_eqb q p && attr_eqb b a).
      + unfold fb. rewrite NC. simpl. eauto.
      + destruct (lf_node_replace_ok q NC) as [q' ->]. simpl. eauto.
    - destruct (lf_node_replace_ok q NC) as [q' ->]. simpl. eauto.
  Qed.
End Replace.

Lemma block_labels_at t p a lo hi n :
  get t p = Some n -> block_labels t p a lo hi = Some (map lbl (slice (kids n a) lo hi)).
Proof. intros G. unfold block_labels. rewrite G. reflexivity. Qed.

Theorem replace_sound fixed p a lo hi nodes t t' c c' :
  valid_edit t (EReplace p a lo hi nodes) -> apply_edit (EReplace p a lo hi nodes) t = Some t' ->
  valid_cursor t c -> fwd_edit fixed (EReplace p a lo hi nodes) t c = Ok c' ->
  inb_cursor t' c' /\ same_e (EReplace p a lo hi nodes) t c t' c'.
Proof.
  intros VE AP VC FW. unfold valid_edit in VE. cbn in VE.
  destruct (inb_block_inv _ _ _ _ _ VE) as [n [Gp [Hlo Hhi]]].
  assert (AP' : block_replace p a lo hi nodes [] t = Some t') by exact AP.
  rewrite block_replace_upd in AP'.
  assert (FW' : forward_replace p a lo hi (length nodes) c = Ok c') by exact FW.
  unfold same_e. cbn [edit_del edit_new]. rewrite (block_labels_at _ _ _ _ _ _ Gp).
  exact (replace_sound_aux t p a lo hi nodes [] n Gp Hlo Hhi t' c c' AP' VC FW').
Qed.

Theorem delete_sound fixed p a lo hi pl t t' c c' :
  valid_edit t (EDelete p a lo hi pl) -> apply_edit (EDelete p a lo hi pl) t = Some t' ->
  valid_cursor t c -> fwd_edit fixed (EDelete p a lo hi pl) t c = Ok c' ->
  inb_cursor t' c' /\ same_e (EDelete p a lo hi pl) t c t' c'.
Proof.
  intros VE AP VC FW. unfold valid_edit in VE. cbn in VE.
  destruct (inb_block_inv _ _ _ _ _ VE) as [n [Gp [Hlo Hhi]]].
  assert (AP' : block_replace p a lo hi [] [T pl [] []] t = Some t') by exact AP.
  rewrite block_replace_upd in AP'.
  assert (FW' : forward_replace p a lo hi 0 c = Ok c') by exact FW.
  unfold same_e. cbn [edit_del edit_new]. rewrite (block_labels_at _ _ _ _ _ _ Gp).
  exact (replace_sound_aux t p a lo hi [] [T pl [] []] n Gp Hlo Hhi t' c c' AP' VC FW').
Qed.

Theorem replace_complete fixed p a lo hi nodes t c :
  valid_edit t (EReplace p a lo hi nodes) ->
  cut_by p a lo hi c = false -> exists c', fwd_edit fixed (EReplace p a lo hi nodes) t c = Ok c'.
Proof.
  intros VE NC. unfold valid_edit in VE. cbn in VE.
  destruct (inb_block_inv _ _ _ _ _ VE) as [n [Gp [Hlo Hhi]]].
  exact (replace_complete_aux p a lo hi nodes n Hlo Hhi c NC).
Qed.

Theorem delete_complete fixed p a lo hi pl t c :
  valid_edit t (EDelete p a lo hi pl) ->
  cut_by p a lo hi c = false -> exists c', fwd_edit fixed (EDelete p a lo hi pl) t c = Ok c'.
Proof.
  intros VE NC. unfold valid_edit in VE. cbn in VE.
  destruct (inb_block_inv _ _ _ _ _ VE) as [n [Gp [Hlo Hhi]]].
  exact (replace_complete_aux p a lo hi [] n Hlo Hhi c NC).
Qed.

Example replace_sound_example :
  let t := T 0 [T 1 [] []; T 2 [T 3 [] []] []] [] in
  let e := EReplace [] Body 0 1 [T 7 [] []; T 8 [] []] in let c := CNode [(Body, 1); (Body, 0)] in
  valid_edit t e /\ valid_cursor t c /\
  exists t' c', apply_edit e t = Some t' /\ fwd_edit code_now e t c = Ok c'.
Proof. vm_compute. repeat split; eauto. Qed.

Example delete_sound_example :
  let t := T 0 [T 1 [] []; T 2 [T 3 [] []] []] [] in
  let e := EDelete [(Body, 1)] Body 0 1 9 in let c := CBlock [] Body 0 2 in
  valid_edit t e /\ valid_cursor t c /\
  exists t' c', apply_edit e t = Some t' /\ fwd_edit code_now e t c = Ok c'.
Proof. vm_compute. repeat split; eauto. Qed.
