(** * Cursors/Model.v — executable model of exo's internal cursors, atomic edits and cursor forwarding.

    Source modelled: /repo/src/exo/core/internal_cursors.py (class Cursor/_local_forward, Block, Node, Gap)
    and Procedure.forward (/repo/src/exo/API.py:194-205).

    Statement level only: a LoopIR statement has 0 (leaf), 1 (For: body) or 2 (If: body, orelse) child
    blocks; the root (LoopIR.proc) has a body.  A node carries a label, the model's stand-in for the
    identity of the statement ([n.update(...)] keeps the label: the rebuilt node is "the same statement").
    Expression-level edits ([_child_node("hi")._replace(e)], [_child_block("idx")._replace(..)],
    [_child_block("preds")._replace(..)]) never touch a [body]/[orelse] edge and are the edit [ENop].

    Executable Gallina only, stdlib only, no proofs (CONVENTIONS.md).  Python exceptions:
      InvalidCursorError            -> [Invalid]
      AssertionError / IndexError / a path with a negative index (garbage) -> [Crash]
    Python integers that can become negative are guarded explicitly where the code can reach them. *)
From Coq Require Import List Arith Bool.
Import ListNotations.

(* ------------------------------------------------------------------------------------------------ *)
(** ** Trees, paths, cursors *)

Inductive attr := Body | Orelse.

Definition attr_eqb (a b : attr) : bool :=
  match a, b with Body, Body => true | Orelse, Orelse => true | _, _ => false end.

Inductive tree := T (l : nat) (body orelse : list tree).

Definition lbl (t : tree) : nat := match t with T l _ _ => l end.
Definition kids (t : tree) (a : attr) : list tree :=
  match t, a with T _ b _, Body => b | T _ _ o, Orelse => o end.
(** [n.update(attr=cs)] *)
Definition set_kids (t : tree) (a : attr) (cs : list tree) : tree :=
  match t, a with T l _ o, Body => T l cs o | T l b _, Orelse => T l b cs end.

Notation edge := (attr * nat)%type (only parsing).
Notation path := (list (attr * nat)) (only parsing).

Definition edge_eqb (x y : edge) : bool := attr_eqb (fst x) (fst y) && (snd x =? snd y).
Fixpoint path_eqb (p q : path) : bool :=
  match p, q with
  | [], [] => true
  | x :: p', y :: q' => edge_eqb x y && path_eqb p' q'
  | _, _ => false
  end.

Inductive side := Before | After.
Definition side_eqb (a b : side) := match a, b with Before, Before => true | After, After => true | _, _ => false end.

(** [Node(_root,_path)], [Block(_root,_anchor,_attr,_range)], [Gap(_root,_anchor,_type)] without the root *)
Inductive cursor :=
| CNode (p : path)
| CBlock (p : path) (a : attr) (lo hi : nat)
| CGap (p : path) (s : side).

Inductive res (A : Type) := Ok (x : A) | Invalid | Crash.
Arguments Ok {A} x. Arguments Invalid {A}. Arguments Crash {A}.

Definition rbind {A B} (r : res A) (f : A -> res B) : res B :=
  match r with Ok x => f x | Invalid => Invalid | Crash => Crash end.

(** [Node._node]: walk down the path; [None] = IndexError *)
Fixpoint get (t : tree) (p : path) : option tree :=
  match p with
  | [] => Some t
  | (a, i) :: p' => match nth_error (kids t a) i with Some c => get c p' | None => None end
  end.

(** slicing helpers: [xs[lo:hi]] for 0 <= lo, 0 <= hi *)
Definition slice {A} (xs : list A) (lo hi : nat) : list A := firstn (hi - lo) (skipn lo xs).

(** [path[:-1]] and [path[-1]] *)
Definition plast (p : path) : option edge := nth_error p (length p - 1).
Definition pinit (p : path) : path := firstn (length p - 1) p.

(* ------------------------------------------------------------------------------------------------ *)
(** ** Range predicates ([range(lo,hi)], step 1) *)

Definition in_range (i lo hi : nat) : bool := (lo <=? i) && (i <? hi).
Definition range_empty (lo hi : nat) : bool := hi <=? lo.
(** Python [range.__eq__]: equal as sequences — all empty ranges are equal *)
Definition range_eqb (l h lo hi : nat) : bool :=
  if range_empty l h then range_empty lo hi
  else negb (range_empty lo hi) && (l =? lo) && (h =? hi).
(** [_is_sub_range(a, b)]: a.start >= b.start and a.stop <= b.stop and a != b *)
Definition is_sub_range (l h lo hi : nat) : bool :=
  (lo <=? l) && (h <=? hi) && negb (range_eqb l h lo hi).
(** [_intersects_partially(a, b)] *)
Definition intersects_partially (l h lo hi : nat) : bool :=
  ((l <? lo) && (lo <? h) && (h <? hi)) || ((lo <? l) && (l <? hi) && (hi <? h)).

(* ------------------------------------------------------------------------------------------------ *)
(** ** [Node._rewrite(fn)]  (internal_cursors.py:699-719)

    [impl(node, path, j)]: at the end of the path apply [fn] (which may return a list of nodes: Gap._insert),
    otherwise rebuild [node] with [children[:i] + new_nodes + children[i+1:]].  [None] = IndexError. *)
Fixpoint rewrite (fn : tree -> list tree) (p : path) (t : tree) : option (list tree) :=
  match p with
  | [] => Some (fn t)
  | (a, i) :: p' =>
      match nth_error (kids t a) i with
      | None => None
      | Some c =>
          match rewrite fn p' c with
          | None => None
          | Some new_nodes =>
              Some [set_kids t a (firstn i (kids t a) ++ new_nodes ++ skipn (S i) (kids t a))]
          end
      end
  end.

(** the root call returns a single node (the new proc) *)
Definition rewrite_root (fn : tree -> list tree) (p : path) (t : tree) : option tree :=
  match rewrite fn p t with Some [r] => Some r | _ => None end.

(* ------------------------------------------------------------------------------------------------ *)
(** ** Atomic edits *)

(** [Block._replace(nodes, empty_default=...)]  (292-311) *)
Definition block_replace (p : path) (a : attr) (lo hi : nat) (nodes : list tree)
           (empty_default : list tree) (t : tree) : option tree :=
  rewrite_root
    (fun n =>
       let children := kids n a in
       let new_children := firstn lo children ++ nodes ++ skipn hi children in
       let new_children :=
           match new_children with
           | [] => empty_default          (* new_children or empty_default or [] *)
           | _ => new_children
           end in
       [set_kids n a new_children])
    p t.

(** [Block._delete()]  (332-343): [pl] = label of the fresh [LoopIR.Pass] filler *)
Definition block_delete (p : path) (a : attr) (lo hi : nat) (pl : nat) (t : tree) : option tree :=
  block_replace p a lo hi [] [T pl [] []] t.

(** [Gap._insertion_index()] (842-849) on the gap's anchor path *)
Definition insertion_index (gp : path) (s : side) : option nat :=
  match plast gp with
  | None => None
  | Some (_, i) => Some (match s with Before => i | After => i + 1 end)
  end.

(** [Gap._insert(stmts)]  (801-823): [anchor._rewrite(update)], update returns a list *)
Definition gap_insert (gp : path) (s : side) (stmts : list tree) (t : tree) : option tree :=
  match gp with
  | [] => None                       (* the root has no gap: anchor()._path[-1] fails *)
  | _ => rewrite_root
           (fun anchor => match s with Before => stmts ++ [anchor] | After => anchor :: stmts end)
           gp t
  end.

(** [Block.resolve_all()] (345-353) *)
Definition resolve_all (p : path) (a : attr) (lo hi : nat) (t : tree) : option (list tree) :=
  match get t p with Some n => Some (slice (kids n a) lo hi) | None => None end.

(** [Block._wrap(ctor, wrap_attr)] (355-374).  [ctor(wrap_attr=nodes)] builds a node with label [wl]
    whose other block attribute holds [other] (e.g. DoLiftScope's [orelse_wrapper]: body=[Pass]). *)
Definition other_attr (a : attr) := match a with Body => Orelse | Orelse => Body end.
Definition mk_wrapper (wl : nat) (wa : attr) (other nodes : list tree) : tree :=
  set_kids (set_kids (T wl [] []) wa nodes) (other_attr wa) other.

Definition block_wrap (p : path) (a : attr) (lo hi : nat) (wl : nat) (wa : attr) (other : list tree)
           (t : tree) : option tree :=
  match resolve_all p a lo hi t with
  | None => None
  | Some nodes =>
      let new_node := mk_wrapper wl wa other nodes in
      rewrite_root
        (fun parent =>
           let children := kids parent a in
           [set_kids parent a (firstn lo children ++ [new_node] ++ skipn hi children)])
        p t
  end.

(** [Block.__contains__(Gap)] (226-243): the gap's ANCHOR node lies in the block *)
Definition gap_in_block (p : path) (a : attr) (lo hi : nat) (gp : path) : bool :=
  match plast gp with
  | None => false
  | Some (ga, gi) => path_eqb (pinit gp) p && attr_eqb ga a && in_range gi lo hi
  end.

(** [_is_before(g, b)] inside [Block._move] (421-435), on [g_path] and [b_path] *)
Fixpoint is_before (g b : path) : bool :=
  match g, b with
  | (ga, gi) :: g', (ba, bi) :: b' =>
      if negb (attr_eqb ga ba) then false
      else if negb (gi =? bi) then gi <? bi
      else is_before g' b'
  | _, _ => true
  end.

(** the target actually used by [_move] / [_forward_move]: [if target in self: target = self.before()] *)
Definition move_target (p : path) (a : attr) (lo hi : nat) (gp : path) (s : side) : path * side :=
  if gap_in_block p a lo hi gp then (p ++ [(a, lo)], Before) else (gp, s).

(** [gap_path = target._anchor._path[:]; gap_path[-1] = (attr, target._insertion_index())] *)
Definition gap_path_of (gp : path) (s : side) : option path :=
  match plast gp, insertion_index gp s with
  | Some (ga, _), Some gi => Some (pinit gp ++ [(ga, gi)])
  | _, _ => None
  end.

(** [Block._move(target)] (408-460) *)
Definition block_move (p : path) (a : attr) (lo hi : nat) (gp : path) (s : side) (pl : nat)
           (t : tree) : option tree :=
  let '(gp, s) := move_target p a lo hi gp s in
  match resolve_all p a lo hi t, gap_path_of gp s with
  | Some nodes, Some g_path =>
      let b_path := p ++ [(a, lo)] in
      if is_before g_path b_path then
        match block_delete p a lo hi pl t with
        | Some ir => gap_insert gp s nodes ir
        | None => None
        end
      else
        match gap_insert gp s nodes t with
        | Some ir => block_delete p a lo hi pl ir
        | None => None
        end
  | _, _ => None
  end.

Inductive edit :=
| EReplace (p : path) (a : attr) (lo hi : nat) (nodes : list tree)     (* Block._replace / Node._replace(list) *)
| EDelete (p : path) (a : attr) (lo hi : nat) (pl : nat)               (* Block._delete / Node._delete *)
| EInsert (gp : path) (s : side) (nodes : list tree)                   (* Gap._insert *)
| EWrap (p : path) (a : attr) (lo hi : nat) (wl : nat) (wa : attr) (other : list tree)  (* Block._wrap *)
| EMove (p : path) (a : attr) (lo hi : nat) (gp : path) (s : side) (pl : nat)           (* Block._move / Node._move *)
| ENop.                                                                (* expression-level edit *)

Definition apply_edit (e : edit) (t : tree) : option tree :=
  match e with
  | EReplace p a lo hi nodes => block_replace p a lo hi nodes [] t
  | EDelete p a lo hi pl => block_delete p a lo hi pl t
  | EInsert gp s nodes => gap_insert gp s nodes t
  | EWrap p a lo hi wl wa other => block_wrap p a lo hi wl wa other t
  | EMove p a lo hi gp s pl => block_move p a lo hi gp s pl t
  | ENop => Some t
  end.

(* ------------------------------------------------------------------------------------------------ *)
(** ** [Cursor._local_forward(new_root, fwd_node, fwd_block)]  (114-197)

    [fwd_node attr i] returns a list of edges; [fwd_block attr rng] returns a list of edges whose last
    element is [(attr, range)]: modelled as (edge prefix, attr, lo, hi). *)
Definition blk_edges := (list edge * attr * nat * nat)%type.

(** [_starts_with(a, b)] *)
Fixpoint starts_with (a b : path) {struct b} : bool :=
  match b with
  | [] => true
  | y :: b' => match a with
               | x :: a' => edge_eqb x y && starts_with a' b'
               | [] => false
               end
  end.

Definition lf_node (edit_path : path) (a : attr) (fwd_node : nat -> res (list edge)) (old_path : path)
  : res path :=
  let depth := length edit_path in
  if length old_path <? depth + 1 then Ok old_path                      (* too shallow *)
  else match nth_error old_path depth with
       | None => Ok old_path
       | Some (old_attr, old_idx) =>
           if negb (starts_with old_path edit_path && attr_eqb old_attr a) then Ok old_path
           else rbind (fwd_node old_idx)
                      (fun es => Ok (firstn depth old_path ++ es ++ skipn (depth + 1) old_path))
       end.

Definition local_forward (edit_path : path) (a : attr)
           (fwd_node : nat -> res (list edge)) (fwd_block : nat -> nat -> res blk_edges)
           (c : cursor) : res cursor :=
  match c with
  | CGap p s => rbind (lf_node edit_path a fwd_node p) (fun p' => Ok (CGap p' s))
  | CBlock p b lo hi =>
      if path_eqb p edit_path && attr_eqb b a then
        rbind (fwd_block lo hi)
              (fun r => let '(pre, na, nlo, nhi) := r in Ok (CBlock (p ++ pre) na nlo nhi))
      else rbind (lf_node edit_path a fwd_node p) (fun p' => Ok (CBlock p' b lo hi))
  | CNode p => rbind (lf_node edit_path a fwd_node p) (fun p' => Ok (CNode p'))
  end.

(** [Block._forward_replace(new_proc, n_ins)]  (313-330) *)
Definition repl_idx_update (lo hi n_ins i : nat) : nat :=
  if hi <=? i then (i + n_ins) - (hi - lo) else i.       (* i + n_diff * (i >= del_range.stop) *)

Definition forward_replace (p : path) (a : attr) (lo hi n_ins : nat) : cursor -> res cursor :=
  local_forward p a
    (fun i => if in_range i lo hi then Invalid else Ok [(a, repl_idx_update lo hi n_ins i)])
    (fun l h =>
       if intersects_partially l h lo hi || is_sub_range l h lo hi then Invalid
       else Ok ([], a, repl_idx_update lo hi n_ins l, repl_idx_update lo hi n_ins h)).

(** [Gap._forward_insert(new_root, ins_len)]  (825-840); edit path = anchor.parent, attr = anchor edge attr *)
Definition ins_idx_update (ins_idx ins_len i : nat) : nat :=
  if ins_idx <=? i then i + ins_len else i.

Definition forward_insert (gp : path) (s : side) (ins_len : nat) (c : cursor) : res cursor :=
  match plast gp, insertion_index gp s with
  | Some (a, _), Some ins_idx =>
      local_forward (pinit gp) a
        (fun i => Ok [(a, ins_idx_update ins_idx ins_len i)])
        (fun l h =>
           (* range(idx_update(rng.start), idx_update(rng.stop - 1) + 1); rng.stop - 1 = -1 when stop = 0 *)
           Ok ([], a, ins_idx_update ins_idx ins_len l,
               if h =? 0 then 0 else ins_idx_update ins_idx ins_len (h - 1) + 1))
        c
  | _, _ => Crash
  end.

(** Two places of internal_cursors.py exist in two variants; which one the code under test has is read
    from its source by the harness on every run (props/C06.py: detect_variant), and every theorem is
    stated for an arbitrary variant or names the one it is about.
    - [wrap_fixed]: [_forward_wrap.fwd_block]'s third case anchors at [rng.start] (repaired) instead of
      [blk_rng.start] (as found);
    - [move_asserts]: the block branch of [_forward_move] checks its end points with [assert]
      (AssertionError, as found) instead of raising InvalidCursorError (repaired). *)
Record variant := { wrap_fixed : bool; move_asserts : bool }.
Definition code_as_found : variant := {| wrap_fixed := false; move_asserts := true |}.
Definition code_with_asserts : variant := {| wrap_fixed := true; move_asserts := true |}.
Definition code_now : variant := {| wrap_fixed := true; move_asserts := false |}.

(** [Block._forward_wrap(p, wrap_attr)]  (376-406).
    [fixed = false]: the code as it stands — the third case returns [(attr, blk_rng.start)];
    [fixed = true]: the repaired code returns [(attr, rng.start)] (as [fwd_node] does). *)
Definition wrap_inner_anchor_idx (fixed : variant) (blk_lo rng_lo : nat) : nat :=
  if wrap_fixed fixed then rng_lo else blk_lo.

Definition forward_wrap (fixed : variant) (p : path) (a : attr) (lo hi : nat) (wa : attr)
  : cursor -> res cursor :=
  let n_delta := (hi - lo) - 1 in                       (* len(rng) - 1, rng non-empty *)
  local_forward p a
    (fun i =>
       if hi <=? i then Ok [(a, i - n_delta)]
       else if lo <=? i then Ok [(a, lo); (wa, i - lo)]
       else Ok [(a, i)])
    (fun bl bh =>
       if hi <=? bl then Ok ([], a, bl - n_delta, bh - n_delta)
       else if bh <=? lo then Ok ([], a, bl, bh)
       else if in_range bl lo hi && in_range (bh - 1) lo hi then
         Ok ([(a, wrap_inner_anchor_idx fixed bl lo)], wa, bl - lo, bh - lo)
       else if in_range lo bl bh && in_range (hi - 1) bl bh then
         Ok ([], a, bl, (bh + 1) - (hi - lo))
       else Invalid).

(** [Block._forward_move(p, target)]  (462-581) *)

(** the [new_gap_path] loop (532-550) over [zip(block_start_path, gap_path)] *)
Fixpoint new_gap_path (bs gs : path) (edit_n : nat) : res path :=
  match bs, gs with
  | b :: bs', g :: gs' =>
      if edge_eqb b g then rbind (new_gap_path bs' gs' edit_n) (fun r => Ok (g :: r))
      else if attr_eqb (fst b) (fst g) && (snd b <? snd g) then
             if snd g <? edit_n then Crash                     (* negative index: garbage path *)
             else Ok ((fst g, snd g - edit_n) :: gs')
           else Ok (g :: gs')
  | _, _ => Ok gs
  end.

Definition set_idx (q : path) (k : nat) (f : nat -> nat) : path :=
  match nth_error q k with
  | Some (a, i) => firstn k q ++ (a, f i) :: skipn (S k) q
  | None => q
  end.

Definition fwd_move_node (bp : path) (ba : attr) (lo hi : nat) (gap_path : path) (cur_path : path)
  : res path :=
  let block_n := length bp in
  let edit_n := hi - lo in
  let gap_n := length gap_path - 1 in
  let cur_n := length cur_path in
  let in_block_list :=
      (block_n <? cur_n) && path_eqb bp (firstn block_n cur_path) &&
      match nth_error cur_path block_n with Some (x, _) => attr_eqb ba x | None => false end in
  let k := match nth_error cur_path block_n with Some (_, i) => i | None => 0 end in
  let after_gap :=
      (gap_n <? cur_n) && path_eqb (firstn gap_n gap_path) (firstn gap_n cur_path) &&
      match nth_error gap_path gap_n, nth_error cur_path gap_n with
      | Some (ga, gi), Some (ca, ci) => attr_eqb ga ca && (gi <=? ci)
      | _, _ => false
      end in
  if in_block_list && negb (hi <=? k) && (lo <=? k) then
    (* inside the moved block: go to the gap location *)
    rbind (if block_n <=? gap_n then new_gap_path (bp ++ [(ba, lo)]) gap_path edit_n else Ok gap_path)
          (fun ngp =>
             match plast ngp with
             | None => Crash
             | Some (la, li) => Ok (pinit ngp ++ [(la, li + (k - lo))] ++ skipn (block_n + 1) cur_path)
             end)
  else
    let q1 := if in_block_list && (hi <=? k) then set_idx cur_path block_n (fun i => i - edit_n) else cur_path in
    let q2 := if after_gap then set_idx q1 gap_n (fun i => i + edit_n) else q1 in
    Ok q2.

(** [anchor._child_node(attr, i)] on the ORIGINAL tree (641-654): IndexError if the anchor dangles,
    InvalidCursorError if [i] is out of range *)
Definition child_node (t : tree) (p : path) (a : attr) (i : nat) : res path :=
  match get t p with
  | None => Crash
  | Some n => if i <? length (kids n a) then Ok (p ++ [(a, i)]) else Invalid
  end.

Definition forward_move (fixed : variant) (t : tree) (bp : path) (ba : attr) (lo hi : nat) (gp0 : path) (s0 : side)
           (c : cursor) : res cursor :=
  let '(gp, s) := move_target bp ba lo hi gp0 s0 in
  match gap_path_of gp s with
  | None => Crash
  | Some gap_path =>
      let fn := fwd_move_node bp ba lo hi gap_path in
      match c with
      | CNode q => rbind (fn q) (fun q' => Ok (CNode q'))
      | CGap q sd => rbind (fn q) (fun q' => Ok (CGap q' sd))
      | CBlock q a l h =>
          if path_eqb q bp && attr_eqb a ba && intersects_partially l h lo hi then Invalid
          else
            rbind (child_node t q a l) (fun n1 =>
            rbind (if h =? 0 then (match get t q with None => Crash | Some _ => Invalid end)
                   else child_node t q a (h - 1)) (fun n2 =>
            rbind (fn n1) (fun s1 =>
            rbind (fn n2) (fun s2 =>
              match plast s1, plast s2 with
              | Some (a1, i1), Some (a2, i2) =>
                  if path_eqb (pinit s1) (pinit s2) && attr_eqb a1 a2 && (i1 <=? i2)
                  then Ok (CBlock (pinit s1) a1 i1 (i2 + 1))      (* _attr=attr1 *)
                  else if move_asserts fixed then Crash          (* AssertionError *)
                       else Invalid                              (* repaired: InvalidCursorError *)
              | _, _ => Crash
              end))))
      end
  end.

(** forwarding function returned by each edit; [t] = the tree the edit was applied to *)
Definition fwd_edit (fixed : variant) (e : edit) (t : tree) (c : cursor) : res cursor :=
  match e with
  | EReplace p a lo hi nodes => forward_replace p a lo hi (length nodes) c
  | EDelete p a lo hi _ => forward_replace p a lo hi 0 c
  | EInsert gp s nodes => forward_insert gp s (length nodes) c
  | EWrap p a lo hi _ wa _ => forward_wrap fixed p a lo hi wa c
  | EMove p a lo hi gp s _ => forward_move fixed t p a lo hi gp s c
  | ENop => Ok c
  end.

(* ------------------------------------------------------------------------------------------------ *)
(** ** Chains of edits: the composition built by every Do* function with [_compose], and
    [Procedure.forward]'s fold over the provenance chain. *)

Fixpoint apply_chain (es : list edit) (t : tree) : option tree :=
  match es with
  | [] => Some t
  | e :: es' => match apply_edit e t with Some t1 => apply_chain es' t1 | None => None end
  end.

Fixpoint fwd_chain (fixed : variant) (es : list edit) (t : tree) (c : cursor) : res cursor :=
  match es with
  | [] => Ok c
  | e :: es' =>
      match apply_edit e t with
      | None => Crash
      | Some t1 => rbind (fwd_edit fixed e t c) (fwd_chain fixed es' t1)
      end
  end.

(* ------------------------------------------------------------------------------------------------ *)
(** ** Well-formedness of edits and cursors (decidable, used as hypotheses and by the harness) *)

Definition valid_blockb (t : tree) (p : path) (a : attr) (lo hi : nat) : bool :=
  match get t p with
  | Some n => (lo <? hi) && (hi <=? length (kids n a))
  | None => false
  end.

(** in bounds, possibly empty: "not a dangling location" *)
Definition inb_blockb (t : tree) (p : path) (a : attr) (lo hi : nat) : bool :=
  match get t p with
  | Some n => (lo <=? hi) && (hi <=? length (kids n a))
  | None => false
  end.

Definition valid_nodeb (t : tree) (p : path) : bool :=
  match get t p with Some _ => true | None => false end.

Definition valid_gapb (t : tree) (p : path) : bool :=
  match p with [] => false | _ => valid_nodeb t p end.

Definition valid_cursorb (t : tree) (c : cursor) : bool :=
  match c with
  | CNode p => valid_nodeb t p
  | CBlock p a lo hi => valid_blockb t p a lo hi
  | CGap p _ => valid_gapb t p
  end.

Definition inb_cursorb (t : tree) (c : cursor) : bool :=
  match c with
  | CNode p => valid_nodeb t p
  | CBlock p a lo hi => inb_blockb t p a lo hi
  | CGap p _ => valid_gapb t p
  end.

(** the gap lies strictly inside one of the moved subtrees (then [_move] corrupts the tree or raises) *)
Definition gap_under_block (p : path) (a : attr) (lo hi : nat) (gp : path) : bool :=
  (length p + 1 <? length gp) && path_eqb (firstn (length p) gp) p &&
  match nth_error gp (length p) with
  | Some (ga, gi) => attr_eqb ga a && in_range gi lo hi
  | None => false
  end.

(** [if target in self: target = self.before()] followed by delete-then-insert: the redirected anchor
    (index [lo] of the block's list) must still exist after the deletion, otherwise [_rewrite] raises
    IndexError — i.e. a no-op move of a block that ends its list and does not start it is an error. *)
Definition move_redirect_ok (t : tree) (p : path) (a : attr) (lo hi : nat) (gp : path) : bool :=
  if gap_in_block p a lo hi gp then
    (lo =? 0) || match get t p with Some n => hi <? length (kids n a) | None => false end
  else true.

Definition valid_editb (t : tree) (e : edit) : bool :=
  match e with
  | EReplace p a lo hi _ => inb_blockb t p a lo hi
  | EDelete p a lo hi _ => inb_blockb t p a lo hi
  | EInsert gp _ _ => valid_gapb t gp
  | EWrap p a lo hi _ _ _ => valid_blockb t p a lo hi
  | EMove p a lo hi gp _ _ =>
      inb_blockb t p a lo hi && valid_gapb t gp && negb (gap_under_block p a lo hi gp) &&
      move_redirect_ok t p a lo hi gp
  | ENop => true
  end.

(** [move_pre]: the condition under which [_forward_move]'s [new_gap_path] recomputation is right.
    It fails exactly when the block is moved to a LATER gap whose path leaves the block's path ABOVE the
    block's own level through the same attribute (first difference at a level < block_n). *)
Fixpoint first_diff_level (bs gs : path) (lvl : nat) : option (nat * edge * edge) :=
  match bs, gs with
  | b :: bs', g :: gs' => if edge_eqb b g then first_diff_level bs' gs' (S lvl) else Some (lvl, b, g)
  | _, _ => None
  end.

Definition move_preb (e : edit) : bool :=
  match e with
  | EMove p a lo hi gp0 s0 _ =>
      let '(gp, s) := move_target p a lo hi gp0 s0 in
      match gap_path_of gp s with
      | None => false
      | Some gap_path =>
          if length gap_path - 1 <? length p then true            (* block_n > gap_n: no recomputation *)
          else match first_diff_level (p ++ [(a, lo)]) gap_path 0 with
               | None => true
               | Some (lvl, b, g) =>
                   (lvl =? length p) || negb (attr_eqb (fst b) (fst g) && (snd b <? snd g))
               end
      end
  | _ => true
  end.

(* ------------------------------------------------------------------------------------------------ *)
(** ** What a cursor denotes *)

Definition node_label (t : tree) (p : path) : option nat := option_map lbl (get t p).

Definition block_labels (t : tree) (p : path) (a : attr) (lo hi : nat) : option (list nat) :=
  match get t p with Some n => Some (map lbl (slice (kids n a) lo hi)) | None => None end.

(** all labels of a tree, pre-order (body before orelse) *)
Fixpoint labels (t : tree) : list nat :=
  match t with
  | T l b o => l :: (flat_map labels b ++ flat_map labels o)
  end.

(* ------------------------------------------------------------------------------------------------ *)
(** ** [Procedure.forward] (API.py:194-205) with root identity.
    A procedure is identified by a number; [prov] lists, newest first, the procedures on the provenance
    chain with the edit script that produced each from its parent. Every forwarding function first checks
    [cursor._root is orig_root] (148-149, 481-482). *)
Definition rcursor := (nat * cursor)%type.     (* (id of the proc the cursor points into, cursor) *)

Record pstep := { ps_parent : nat; ps_id : nat; ps_tree : tree (* parent's tree *); ps_edits : list edit }.

(** forwarding function of one scheduling step: root check, then the composed edit forwardings *)
Definition step_forward (fixed : variant) (st : pstep) (rc : rcursor) : res rcursor :=
  if fst rc =? ps_parent st then
    match ps_edits st with
    | [] => Ok (ps_id st, snd rc)
    | _ => rbind (fwd_chain fixed (ps_edits st) (ps_tree st) (snd rc)) (fun c => Ok (ps_id st, c))
    end
  else Invalid.                       (* "cannot forward from unknown root" *)

(** [while p is not None and p is not cur.proc(): fwds.append(p._forward); p = p._provenance]:
    [chain] is ordered newest first; collect until the cursor's proc is reached *)
Fixpoint collect (chain : list pstep) (self_id : nat) (cur_id : nat) : list pstep :=
  if self_id =? cur_id then []
  else match chain with
       | [] => []
       | st :: rest => if ps_id st =? self_id then st :: collect rest (ps_parent st) cur_id
                       else collect rest self_id cur_id
       end.

Definition proc_forward (fixed : variant) (chain : list pstep) (self_id : nat) (rc : rcursor) : res rcursor :=
  fold_left (fun acc st => rbind acc (step_forward fixed st)) (rev (collect chain self_id (fst rc))) (Ok rc).
