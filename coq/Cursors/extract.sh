#!/bin/bash
# Builds the extracted OCaml model + driver into coq/Cursors/_build/c06_driver (git-ignored).
set -e
cd "$(dirname "$0")"
mkdir -p ocaml _build
# Extract.v is compiled by the engine's make (it is listed in _CoqProject); re-run it if model.ml is stale
if [ ! -f model.ml ] || [ Model.v -nt model.ml ] || [ Spec.v -nt model.ml ] || [ Extract.v -nt model.ml ]; then
  timeout 300 coqc -Q . Cursors Model.v >/dev/null
  timeout 300 coqc -Q . Cursors Spec.v >/dev/null
  timeout 300 coqc -Q . Cursors Extract.v >/dev/null
fi
if [ ! -x _build/c06_driver ] || [ model.ml -nt _build/c06_driver ] || [ ocaml/driver.ml -nt _build/c06_driver ]; then
  cp model.ml model.mli ocaml/driver.ml _build/
  cd _build
  timeout 300 ocamlfind ocamlopt -package str -w -a model.mli model.ml driver.ml -o c06_driver
fi
