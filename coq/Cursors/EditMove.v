(** * Cursors/EditMove.v — [Block._move] / [Block._forward_move] *)
From Coq Require Import List Arith Bool Lia ZifyBool.
From Cursors Require Import Model Base Spec Local Splice PathLemmas MovePaths EditInsert EditReplace.
Import ListNotations.

(* ------------------------------------------------------------------------------------------------ *)
(** ** two local edits in sequence *)

Lemma two_step_node p1 a1 f1 fn1 p2 a2 f2 fn2 t t1 t' q q1 q2 x :
  (forall n i y es, get t p1 = Some n -> nth_error (kids n a1) i = Some y -> fn1 i = Ok es ->
                    es <> [] /\ get (set_kids n a1 (f1 (kids n a1))) es = Some y) ->
  (forall n i y es, get t1 p2 = Some n -> nth_error (kids n a2) i = Some y -> fn2 i = Ok es ->
                    es <> [] /\ get (set_kids n a2 (f2 (kids n a2))) es = Some y) ->
  upd p1 a1 f1 t = Some t1 -> upd p2 a2 f2 t1 = Some t' ->
  get t q = Some x -> lf_node p1 a1 fn1 q = Ok q1 -> lf_node p2 a2 fn2 q1 = Ok q2 ->
  exists x', get t' q2 = Some x' /\ lbl x' = lbl x /\ (q = [] <-> q2 = []) /\
             (forall b, (q, b) <> (p1, a1) -> (q1, b) <> (p2, a2) -> map lbl (kids x' b) = map lbl (kids x b)).
Proof.
  intros H1 H2 U1 U2 G L1 L2.
  destruct (lf_node_sound t p1 a1 f1 fn1 H1 t1 q x q1 U1 G L1) as [x1 [G1 [Lb1 [N1 K1]]]].
  destruct (lf_node_sound t1 p2 a2 f2 fn2 H2 t' q1 x1 q2 U2 G1 L2) as [x2 [G2 [Lb2 [N2 K2]]]].
  exists x2. split; auto. split; [congruence|]. split; [tauto|].
  intros b B1 B2. rewrite (K2 b B2). apply K1; auto.
Qed.

Lemma rewrite_some_get fn : forall p t r, rewrite fn p t = Some r -> exists x, get t p = Some x.
Proof.
  induction p as [|[a i] p IH]; intros t r H; cbn [rewrite get] in *.
  - eauto.
  - destruct (nth_error (kids t a) i) as [c|]; [|discriminate].
    destruct (rewrite fn p c) as [r'|] eqn:E; [|discriminate]. eapply IH; eauto.
Qed.

Lemma gap_insert_some_get gp s stmts t t' : gap_insert gp s stmts t = Some t' -> exists x, get t gp = Some x.
Proof.
  unfold gap_insert, rewrite_root. destruct gp as [|e gp]; [discriminate|].
  destruct (rewrite _ (e :: gp) t) as [r|] eqn:E; [|discriminate]. intros _.
  eapply rewrite_some_get; eauto.
Qed.

Lemma get_snoc_inv t (q : path) a i x :
  get t (q ++ [(a, i)]) = Some x -> exists n, get t q = Some n /\ nth_error (kids n a) i = Some x.
Proof.
  intros G. apply get_prefix in G as [n [Gq G]]. rewrite get_single in G. eauto.
Qed.

(* ------------------------------------------------------------------------------------------------ *)
(** ** the side condition of the theorem *)

(** the block cursor is neither on the list the statements are taken from nor on the list they are put
    into (blocks on those two lists are forwarded as the hull of their end points: see the refutations) *)
Definition move_blk_clearb (e : edit) (c : cursor) : bool :=
  match e, c with
  | EMove p a lo hi gp0 s0 _, CBlock q b _ _ =>
      let '(gp, s) := move_target p a lo hi gp0 s0 in
      negb (path_eqb q p && attr_eqb b a) &&
      negb (path_eqb q (pinit gp) && match plast gp with Some (ga, _) => attr_eqb b ga | None => false end)
  | _, _ => true
  end.

Definition move_ok (e : edit) (t : tree) (c : cursor) : Prop :=
  move_pre e /\
  match e with EMove _ _ lo hi _ _ _ => lo < hi | _ => True end /\
  move_blk_okb e c = true.

(* ------------------------------------------------------------------------------------------------ *)
(** ** nodes *)

Section MoveTree.
  Variables (t : tree) (bp : path) (ba : attr) (lo hi : nat) (gq : path) (ga : attr) (ia : nat) (s : side)
            (pl : nat) (nb : tree).
  Hypothesis Gb : get t bp = Some nb.
  Hypothesis Hlo : lo < hi.
  Hypothesis Hhi : hi <= length (kids nb ba).

  Let gi := match s with Before => ia | After => ia + 1 end.
  Let M := slice (kids nb ba) lo hi.
  Let n := hi - lo.
  Let D := splice_default lo hi [] [T pl [] []].
  Let Ins := splice gi gi M.
  Let gap_path : path := gq ++ [(ga, gi)].
  Let bn := length bp.

  Hypothesis Vunder : forall j, length bp < length gq -> firstn (length bp) gq = bp ->
                                nth_error gq (length bp) = Some (ba, j) -> j < lo \/ hi <= j.
  Hypothesis Vsame : gq = bp -> ga = ba -> gi <= lo \/ hi <= gi.

  Lemma M_len : length M = n.
  Proof. unfold M, n. apply slice_length. exact Hhi. Qed.

  Definition on_list (q : path) (b : attr) : Prop := (q = bp /\ b = ba) \/ (q = gq /\ b = ga).

  (** the delete step on any tree in which the block's list still has at least [hi] elements *)
  Lemma HnD t0 n0 :
    get t0 bp = Some n0 -> hi <= length (kids n0 ba) ->
    forall n1 i y es, get t0 bp = Some n1 -> nth_error (kids n1 ba) i = Some y ->
                      fnD ba lo hi i = Ok es ->
                      es <> [] /\ get (set_kids n1 ba (D (kids n1 ba))) es = Some y.
  Proof.
    intros G0 H0. exact (replace_Hn t0 bp ba lo hi [] [T pl [] []] n0 G0 (Nat.lt_le_incl _ _ Hlo) H0).
  Qed.

  (** the insert step on any tree in which the gap's anchor exists *)
  Lemma HnI t0 n0 x0 :
    get t0 gq = Some n0 -> nth_error (kids n0 ga) ia = Some x0 ->
    forall n1 i y es, get t0 gq = Some n1 -> nth_error (kids n1 ga) i = Some y ->
                      fnI lo hi ga gi i = Ok es ->
                      es <> [] /\ get (set_kids n1 ga (Ins (kids n1 ga))) es = Some y.
  Proof.
    intros G0 E0 n1 i y es G1 E1 F.
    apply (insert_Hn t0 gq ga ia s M n0 x0 G0 E0 n1 i y es G1 E1).
    rewrite M_len. exact F.
  Qed.

  (** a moved statement is found, as the identical subtree, at the insertion position *)
  Lemma inserted_copy t0 t1 n0 x0 k r y :
    get t0 gq = Some n0 -> nth_error (kids n0 ga) ia = Some x0 ->
    upd gq ga Ins t0 = Some t1 ->
    lo <= k -> k < hi -> get t (bp ++ (ba, k) :: r) = Some y ->
    get t1 (g1 gq ga gi (k - lo) r) = Some y.
  Proof.
    intros G0 E0 U K1 K2 Gy. unfold g1.
    rewrite (get_upd_through _ _ _ _ _ _ ((ga, gi + (k - lo)) :: r) U G0).
    cbn [get]. rewrite kids_set_kids_same.
    assert (GI : gi <= length (kids n0 ga)).
    { assert (ia < length (kids n0 ga)) by (apply nth_error_Some; congruence). unfold gi. destruct s; lia. }
    unfold Ins, splice. rewrite (nth_error_splice_new (kids n0 ga) M gi gi) by (rewrite ?M_len; unfold n; lia).
    unfold M. rewrite nth_error_slice by lia. replace (lo + (k - lo)) with k by lia.
    rewrite (get_app_some _ _ _ _ Gb) in Gy. cbn [get] in Gy.
    destruct (nth_error (kids nb ba) k); [exact Gy|discriminate].
  Qed.

  Lemma moved_decompose (q : path) :
    moved bp ba lo hi q = true ->
    exists k r, q = bp ++ (ba, k) :: r /\ lo <= k /\ k < hi /\
                idx_at (length bp) q = k /\ skipn (length bp + 1) q = r.
  Proof.
    unfold moved, tB. intros H.
    apply andb_true_iff in H as [H H3]. apply andb_true_iff in H as [H1 H2].
    pose proof (thru_true _ _ _ H1) as E.
    exists (idx_at (length bp) q), (skipn (S (length bp)) q).
    split; auto. split; [lia|]. split; [lia|]. split; auto. f_equal. lia.
  Qed.

  (** the list of a node that is an anchor of neither edited list keeps its labels *)
  Definition keeps (x x' : tree) (q : path) : Prop :=
    forall b, ~ on_list q b -> map lbl (kids x' b) = map lbl (kids x b).


  (** case B: after the insertion the block is still where it was *)
  Lemma block_after_insert t1 ng xa :
    caseB bp ba lo gq ga gi ->
    get t gq = Some ng -> nth_error (kids ng ga) ia = Some xa ->
    upd gq ga Ins t = Some t1 ->
    exists nb1, get t1 bp = Some nb1 /\ hi <= length (kids nb1 ba).
  Proof.
    intros B Gg Ea U1.
    destruct (path_eqb gq bp && attr_eqb ga ba) eqn:SL.
    - apply andb_true_iff in SL as [E1 E2]. apply path_eqb_eq in E1. apply attr_eqb_eq in E2.
      assert (ng = nb) by congruence. subst ng.
      rewrite E1, E2 in U1.
      exists (set_kids nb ba (Ins (kids nb ba))). split.
      + apply (get_upd_at _ _ _ _ _ _ U1 Gb).
      + rewrite kids_set_kids_same. unfold Ins, splice.
        assert (GI : gi <= length (kids nb ba)).
        { assert (ia < length (kids nb ba)) by (apply nth_error_Some; rewrite <- E2; congruence).
          unfold gi. destruct s; lia. }
        rewrite (splice_len (kids nb ba) M gi gi) by lia. lia.
    - assert (NT : ~ through gq ga bp \/ (thru gq ga bp = true /\ idx_at (length gq) bp < gi)).
      { destruct (thru gq ga bp) eqn:T.
        - right. split; auto.
          pose proof (thru_length _ _ _ T) as LL.
          apply (over_B bp ba lo hi gq ga gi Hlo Vsame _ B LL (thru_firstn _ _ _ T) (thru_at _ _ _ T)).
        - left. intros H. apply thru_through in H. congruence. }
      assert (L : lfI lo hi gq ga gi bp = Ok bp).
      { rewrite lfI_spec. unfold tG. destruct NT as [NT|[T I]].
        - destruct (thru gq ga bp) eqn:T; auto. exfalso. apply NT. apply thru_through. exact T.
        - rewrite T. replace (gi <=? idx_at (length gq) bp) with false by lia. reflexivity. }
      destruct (lf_node_sound t gq ga Ins (fnI lo hi ga gi) (HnI t ng xa Gg Ea) t1 bp nb bp U1 Gb L)
        as [nb1 [G1 [_ [_ K]]]].
      exists nb1. split; auto.
      assert (NE : (bp, ba) <> (gq, ga)).
      { intros H. injection H as H1 H2. rewrite H1, H2, path_eqb_refl, attr_eqb_refl in SL. discriminate. }
      specialize (K ba NE).
      rewrite <- (map_length lbl (kids nb1 ba)), K, map_length. exact Hhi.
  Qed.

  (** *** case A: the block is deleted first, then inserted at the (stable) gap path *)
  Section CaseA.
    Variables (t1 t' : tree).
    Hypothesis A : caseA bp ba lo gq ga gi.
    Hypothesis U1 : upd bp ba D t = Some t1.
    Hypothesis U2 : upd gq ga Ins t1 = Some t'.
    Variables (ng1 xa1 : tree).
    Hypothesis Gg1 : get t1 gq = Some ng1.
    Hypothesis Ea1 : nth_error (kids ng1 ga) ia = Some xa1.

    Lemma move_node_A (q q' : path) x :
      get t q = Some x -> fwd_move_node bp ba lo hi gap_path q = Ok q' ->
      exists x', get t' q' = Some x' /\ lbl x' = lbl x /\ (q = [] <-> q' = []) /\ keeps x x' q.
    Proof.
      intros G F. destruct (moved bp ba lo hi q) eqn:MV.
      - destruct (moved_decompose q MV) as [k [r [E [K1 [K2 [IK SK]]]]]].
        unfold gap_path in F. rewrite (fm_moved_A bp ba lo hi gq ga gi Hlo q A MV) in F.
        injection F as <-. rewrite IK, SK.
        exists x. split.
        + change (gq ++ [(ga, gi + (k - lo))] ++ r) with (g1 gq ga gi (k - lo) r).
          apply (inserted_copy t1 t' ng1 xa1 k r x Gg1 Ea1 U2 K1 K2). rewrite <- E. exact G.
        + split; auto. split.
          * subst q. split; intros H; exfalso; [destruct bp; discriminate | destruct gq; discriminate].
          * intros b _. reflexivity.
      - unfold gap_path in F. rewrite (fm_other_A bp ba lo hi gq ga gi Hlo Vunder Vsame q A MV) in F.
        destruct (lfD bp ba lo hi q) as [q1| |] eqn:L1; simpl in F; try discriminate.
        destruct (two_step_node bp ba D (fnD ba lo hi) gq ga Ins (fnI lo hi ga gi) t t1 t' q q1 q' x
                    (HnD t nb Gb Hhi) (HnI t1 ng1 xa1 Gg1 Ea1) U1 U2 G L1 F) as [x' [G' [Lb [Nl K]]]].
        exists x'. split; auto. split; auto. split; auto.
        intros b NL. apply K.
        + intros H. injection H as -> ->. apply NL. left; auto.
        + (* the intermediate path is the gap list's anchor only if the original one was *)
          intros H. injection H as H1 ->. apply NL. right. split; auto.
          rewrite (lfD_spec bp ba lo hi gq ga gi Hlo Vsame) in L1.
          destruct (tB bp ba q) eqn:TB; [|congruence].
          destruct (in_range (idx_at (length bp) q) lo hi); [discriminate|].
          destruct (hi <=? idx_at (length bp) q) eqn:E; [|congruence].
          exfalso. injection L1 as L1. rewrite H1 in L1.
          (* gq = set_idx q bn (-n): the gap list hangs under the block's list behind the block *)
          assert (TBg : thru bp ba gq = true) by (rewrite <- L1; rewrite thru_set_idx_same; exact TB).
          assert (Ig : idx_at (length bp) gq = idx_at (length bp) q - (hi - lo)).
          { rewrite <- L1. apply idx_at_set_idx_same. apply (thru_length _ _ _ TB). }
          pose proof (thru_length _ _ _ TBg) as LL.
          pose proof (under_A bp ba lo hi gq ga gi Hlo Vunder Vsame _ A LL (thru_firstn _ _ _ TBg) (thru_at _ _ _ TBg)).
          lia.
    Qed.
  End CaseA.

  (** *** case B: the block is inserted at the gap first, then deleted at its (stable) old place *)
  Section CaseB.
    Variables (t1 t' : tree).
    Hypothesis B : caseB bp ba lo gq ga gi.
    Hypothesis MP : mpre bp ba lo gq ga gi = true.
    Hypothesis U1 : upd gq ga Ins t = Some t1.
    Hypothesis U2 : upd bp ba D t1 = Some t'.
    Variables (ng xa nb1 : tree).
    Hypothesis Gg : get t gq = Some ng.
    Hypothesis Ea : nth_error (kids ng ga) ia = Some xa.
    Hypothesis Gb1 : get t1 bp = Some nb1.
    Hypothesis Hhi1 : hi <= length (kids nb1 ba).

    Lemma move_node_B (q q' : path) x :
      get t q = Some x -> fwd_move_node bp ba lo hi gap_path q = Ok q' ->
      exists x', get t' q' = Some x' /\ lbl x' = lbl x /\ (q = [] <-> q' = []) /\ keeps x x' q.
    Proof.
      intros G F. destruct (moved bp ba lo hi q) eqn:MV.
      - destruct (moved_decompose q MV) as [k [r [E [K1 [K2 [IK SK]]]]]].
        unfold gap_path in F. rewrite (fm_moved_B bp ba lo hi gq ga gi Hlo Vunder Vsame q B MP MV) in F.
        rewrite IK, SK in F.
        assert (G1 : get t1 (g1 gq ga gi (k - lo) r) = Some x).
        { apply (inserted_copy t t1 ng xa k r x Gg Ea U1 K1 K2). rewrite <- E. exact G. }
        destruct (lf_node_sound t1 bp ba D (fnD ba lo hi) (HnD t1 nb1 Gb1 Hhi1) t' _ x q' U2 G1 F)
          as [x' [G' [Lb [Nl K]]]].
        exists x'. split; auto. split; auto. split.
        + subst q. split; intros H; exfalso; [destruct bp; discriminate|].
          apply Nl in H. unfold g1 in H. destruct gq; discriminate.
        + (* the copy's own lists are untouched by the deletion unless the copy is the block's anchor,
             which would put the block inside a moved statement *)
          intros b _. apply K. intros H. injection H as H1 ->.
          assert (TG : thru gq ga bp = true) by (rewrite <- H1; apply thru_app).
          assert (IG : idx_at (length gq) bp = gi + (k - lo)) by (rewrite <- H1; apply idx_at_app).
          pose proof (thru_length _ _ _ TG) as LL.
          pose proof (over_B bp ba lo hi gq ga gi Hlo Vsame _ B LL (thru_firstn _ _ _ TG) (thru_at _ _ _ TG)). lia.
      - unfold gap_path in F. rewrite (fm_other_B bp ba lo hi gq ga gi Hlo Vsame q B MV) in F.
        destruct (lfI lo hi gq ga gi q) as [q1| |] eqn:L1; simpl in F; try discriminate.
        destruct (two_step_node gq ga Ins (fnI lo hi ga gi) bp ba D (fnD ba lo hi) t t1 t' q q1 q' x
                    (HnI t ng xa Gg Ea) (HnD t1 nb1 Gb1 Hhi1) U1 U2 G L1 F) as [x' [G' [Lb [Nl K]]]].
        exists x'. split; auto. split; auto. split; auto.
        intros b NL. apply K.
        + intros H. injection H as -> ->. apply NL. right; auto.
        + intros H. injection H as H1 ->. apply NL. left. split; auto.
          rewrite lfI_spec in L1. injection L1 as L1.
          destruct (tG gq ga gi q) eqn:TGq; [|congruence].
          exfalso. rewrite H1 in L1. unfold tG in TGq. apply andb_true_iff in TGq as [TGq KK].
          assert (TGb : thru gq ga bp = true) by (rewrite <- L1; rewrite thru_set_idx_same; exact TGq).
          assert (Ib : idx_at (length gq) bp = idx_at (length gq) q + (hi - lo)).
          { rewrite <- L1. apply idx_at_set_idx_same. apply (thru_length _ _ _ TGq). }
          pose proof (thru_length _ _ _ TGb) as LL.
          pose proof (over_B bp ba lo hi gq ga gi Hlo Vsame _ B LL (thru_firstn _ _ _ TGb) (thru_at _ _ _ TGb)). lia.
    Qed.
  End CaseB.
End MoveTree.

(* ------------------------------------------------------------------------------------------------ *)
(** ** from the edit to the section's hypotheses *)

Lemma move_target_facts t p a lo hi gp0 s0 nb :
  get t p = Some nb -> lo < hi -> hi <= length (kids nb a) ->
  valid_gapb t gp0 = true -> gap_under_block p a lo hi gp0 = false ->
  forall gp s, move_target p a lo hi gp0 s0 = (gp, s) ->
  exists (gq : path) ga ia x,
    gp = gq ++ [(ga, ia)] /\ get t gp = Some x /\
    (forall j, length p < length gq -> firstn (length p) gq = p ->
               nth_error gq (length p) = Some (a, j) -> j < lo \/ hi <= j) /\
    (gq = p -> ga = a ->
     match s with Before => ia | After => ia + 1 end <= lo \/
     hi <= match s with Before => ia | After => ia + 1 end).
Proof.
  intros Gb Hlo Hhi VG NU gp s MT. unfold move_target in MT.
  destruct (gap_in_block p a lo hi gp0) eqn:GIB.
  - injection MT as <- <-.
    destruct (nth_error (kids nb a) lo) as [x|] eqn:E; [|apply nth_error_None in E; lia].
    exists p, a, lo, x. split; auto. split.
    + rewrite (get_snoc _ _ _ _ _ Gb). exact E.
    + split; [intros; lia|]. intros _ _. left. lia.
  - injection MT as <- <-.
    destruct (valid_gap_inv _ _ VG) as [gq [ga [ia [n [x [-> [Gq Ei]]]]]]].
    exists gq, ga, ia, x. split; auto. split.
    + rewrite (get_snoc _ _ _ _ _ Gq). exact Ei.
    + split.
      * intros j L F N. unfold gap_under_block in NU.
        rewrite app_length in NU. cbn [length] in NU.
        replace (length p + 1 <? length gq + 1) with true in NU by lia.
        rewrite firstn_app in NU. replace (length p - length gq) with 0 in NU by lia.
        rewrite firstn_O, app_nil_r, F, path_eqb_refl in NU.
        rewrite nth_error_app1 in NU by lia. rewrite N, attr_eqb_refl in NU.
        unfold in_range in NU. simpl in NU. lia.
      * intros E1 E2. unfold gap_in_block in GIB. rewrite plast_snoc, pinit_snoc in GIB.
        rewrite E1, E2, path_eqb_refl, attr_eqb_refl in GIB. unfold in_range in GIB. simpl in GIB.
        destruct s0; lia.
Qed.

Lemma gap_path_of_snoc (gq : path) ga ia s :
  gap_path_of (gq ++ [(ga, ia)]) s = Some (gq ++ [(ga, match s with Before => ia | After => ia + 1 end)]).
Proof. unfold gap_path_of, insertion_index. rewrite plast_snoc, pinit_snoc. reflexivity. Qed.

Lemma mpre_of_move_pre p a lo hi gp0 s0 pl (gq : path) ga ia s :
  move_target p a lo hi gp0 s0 = (gq ++ [(ga, ia)], s) ->
  move_preb (EMove p a lo hi gp0 s0 pl) = true ->
  mpre p a lo gq ga (match s with Before => ia | After => ia + 1 end) = true.
Proof.
  intros MT MP. unfold move_preb in MP. rewrite MT, gap_path_of_snoc in MP.
  unfold mpre. rewrite app_length in MP. cbn [length] in MP.
  replace (length gq + 1 - 1) with (length gq) in MP by lia. exact MP.
Qed.

(** all node paths, both orders of the delete/insert pair *)
Lemma move_node_sound p a lo hi gp0 s0 pl t t' nb (gq : path) ga ia s :
  get t p = Some nb -> lo < hi -> hi <= length (kids nb a) ->
  valid_gapb t gp0 = true -> gap_under_block p a lo hi gp0 = false ->
  move_target p a lo hi gp0 s0 = (gq ++ [(ga, ia)], s) ->
  move_preb (EMove p a lo hi gp0 s0 pl) = true ->
  block_move p a lo hi gp0 s0 pl t = Some t' ->
  forall q x q',
    get t q = Some x ->
    fwd_move_node p a lo hi (gq ++ [(ga, match s with Before => ia | After => ia + 1 end)]) q = Ok q' ->
    exists x', get t' q' = Some x' /\ lbl x' = lbl x /\ (q = [] <-> q' = []) /\
               (forall b, ~ ((q = p /\ b = a) \/ (q = gq /\ b = ga)) -> map lbl (kids x' b) = map lbl (kids x b)).
Proof.
  intros Gb Hlo Hhi VG NU MT MP AP.
  destruct (move_target_facts t p a lo hi gp0 s0 nb Gb Hlo Hhi VG NU _ _ MT)
    as [gq' [ga' [ia' [xg [EG [Gx [Vunder Vsame]]]]]]].
  assert (gq' = gq /\ ga' = ga /\ ia' = ia) as [-> [-> ->]].
  { apply (f_equal (@rev (attr * nat))) in EG. rewrite !rev_app_distr in EG. simpl in EG.
    injection EG as E1 E2 E3. apply (f_equal (@rev (attr * nat))) in E3. rewrite !rev_involutive in E3. auto. }
  pose proof (mpre_of_move_pre _ _ _ _ _ _ pl _ _ _ _ MT MP) as MPR.
  unfold block_move in AP. rewrite MT in AP. unfold resolve_all in AP. rewrite Gb, gap_path_of_snoc in AP.
  set (gi := match s with Before => ia | After => ia + 1 end) in *.
  destruct (get_snoc_inv _ _ _ _ _ Gx) as [ng [Gg Ea]].
  destruct (is_before (gq ++ [(ga, gi)]) (p ++ [(a, lo)])) eqn:IB.
  - (* delete, then insert *)
    destruct (block_delete p a lo hi pl t) as [t1|] eqn:DL; [|discriminate].
    unfold block_delete in DL. rewrite block_replace_upd in DL.
    destruct (gap_insert_some_get _ _ _ _ _ AP) as [xa1 Gx1].
    destruct (get_snoc_inv _ _ _ _ _ Gx1) as [ng1 [Gg1 Ea1]].
    rewrite (gap_insert_upd gq ga ia s _ t1 xa1 Gx1) in AP.
    intros q x q' Gq F.
    exact (move_node_A t p a lo hi gq ga ia s pl nb Gb Hlo Hhi Vunder Vsame t1 t' IB DL AP ng1 xa1 Gg1 Ea1 q q' x Gq F).
  - (* insert, then delete *)
    destruct (gap_insert (gq ++ [(ga, ia)]) s (slice (kids nb a) lo hi) t) as [t1|] eqn:IN; [|discriminate].
    rewrite (gap_insert_upd gq ga ia s _ t xg Gx) in IN.
    unfold block_delete in AP. rewrite block_replace_upd in AP.
    destruct (block_after_insert t p a lo hi gq ga ia s nb Gb Hlo Hhi Vsame t1 ng xg IB Gg Ea IN)
      as [nb1 [Gb1 Hhi1]].
    intros q x q' Gq F.
    exact (move_node_B t p a lo hi gq ga ia s pl nb Gb Hlo Hhi Vunder Vsame t1 t' IB MPR IN AP ng xg nb1
             Gg Ea Gb1 Hhi1 q q' x Gq F).
Qed.

(** consecutive results chain up *)
Lemma snoc_inj {A} (xs ys : list A) x y : xs ++ [x] = ys ++ [y] -> xs = ys /\ x = y.
Proof. intros H. apply app_inj_tail in H. exact H. Qed.

Lemma consecutive_chain (F : nat -> res (list (attr * nat))) l :
  forall d,
    (forall j, l <= j -> j + 1 < l + S d ->
               exists (Q : path) B' k, F j = Ok (Q ++ [(B', k)]) /\ F (j + 1) = Ok (Q ++ [(B', k + 1)])) ->
    (exists (Q : path) B' k, F l = Ok (Q ++ [(B', k)])) ->
    exists (Q : path) B' k0, forall j, l <= j -> j < l + S d -> F j = Ok (Q ++ [(B', k0 + (j - l))]).
Proof.
  induction d as [|d IH]; intros P0 [Q [B' [k E]]].
  - exists Q, B', k. intros j H1 H2. replace j with l by lia. rewrite Nat.sub_diag, Nat.add_0_r. exact E.
  - destruct IH as [Q1 [B1 [k1 H]]].
    + intros j H1 H2. apply P0; lia.
    + eauto.
    + exists Q1, B1, k1. intros j H1 H2.
      destruct (Nat.eq_dec j (l + S d)) as [->|NE]; [|apply H; lia].
      destruct (P0 (l + d)) as [Q2 [B2 [k2 [E1 E2]]]]; try lia.
      rewrite (H (l + d)) in E1 by lia. injection E1 as E1.
      apply snoc_inj in E1 as [<- E1]. injection E1 as <- <-.
      replace (l + S d) with (l + d + 1) by lia. rewrite E2.
      replace (l + d + 1 - l) with (l + d - l + 1) by lia. rewrite Nat.add_assoc. reflexivity.
Qed.

Lemma moved_on_B (bp : path) ba lo hi j :
  moved bp ba lo hi (bp ++ [(ba, j)]) = negb (hi <=? j) && (lo <=? j).
Proof.
  unfold moved, tB. rewrite thru_app, idx_at_app. reflexivity.
Qed.

(** a block cursor on one of the two edited lists, all of whose statements are shifted alike *)
Lemma move_block_on_list (fixed : variant) p a lo hi (gq : path) ga gi t t' q b l h xq c' :
  lo < hi ->
  (forall j, length p < length gq -> firstn (length p) gq = p ->
             nth_error gq (length p) = Some (a, j) -> j < lo \/ hi <= j) ->
  (gq = p -> ga = a -> gi <= lo \/ hi <= gi) ->
  caseA p a lo gq ga gi \/ (caseB p a lo gq ga gi /\ mpre p a lo gq ga gi = true) ->
  (forall q0 x q', get t q0 = Some x -> fwd_move_node p a lo hi (gq ++ [(ga, gi)]) q0 = Ok q' ->
     exists x', get t' q' = Some x' /\ lbl x' = lbl x /\ (q0 = [] <-> q' = []) /\
                (forall b0, ~ ((q0 = p /\ b0 = a) \/ (q0 = gq /\ b0 = ga)) -> map lbl (kids x' b0) = map lbl (kids x b0))) ->
  get t q = Some xq -> l < h -> h <= length (kids xq b) ->
  (q = p /\ b = a) \/ (q = gq /\ b = ga) ->
  (q = p -> b = a -> h <= lo \/ hi <= l \/ (lo <= l /\ h <= hi)) ->
  (q = gq -> b = ga -> gi <= l \/ h <= gi) ->
  rbind (fwd_move_node p a lo hi (gq ++ [(ga, gi)]) (q ++ [(b, l)])) (fun s1 =>
  rbind (fwd_move_node p a lo hi (gq ++ [(ga, gi)]) (q ++ [(b, h - 1)])) (fun s2 =>
    match plast s1, plast s2 with
    | Some (a1, i1), Some (a2, i2) =>
        if path_eqb (pinit s1) (pinit s2) && attr_eqb a1 a2 && (i1 <=? i2)
        then Ok (CBlock (pinit s1) a1 i1 (i2 + 1))
        else if move_asserts fixed then Crash else Invalid
    | _, _ => Crash
    end)) = Ok c' ->
  valid_cursor t' c' /\ same t (CBlock q b l h) t' c'.
Proof.
  intros Hlo Vunder Vsame DIR NODE Gq Hl Hh ON UB UG FW.
  set (F := fun j => fwd_move_node p a lo hi (gq ++ [(ga, gi)]) (q ++ [(b, j)])).
  (* statements of the block are moved all together or not at all *)
  assert (MV : forall j, l <= j -> j < h ->
                 moved p a lo hi (q ++ [(b, j)]) = true -> q = p /\ b = a /\ lo <= l /\ h <= hi).
  { intros j J1 J2 M.
    assert (T : tB p a (q ++ [(b, j)]) = true).
    { unfold moved in M. apply andb_true_iff in M as [M _]. apply andb_true_iff in M as [M _]. exact M. }
    unfold tB in T. rewrite thru_snoc in T. cbn [fst] in T.
    destruct (length q =? length p) eqn:E.
    - apply andb_true_iff in T as [E1 E2]. apply path_eqb_eq in E1. apply attr_eqb_eq in E2. subst q b.
      rewrite moved_on_B in M. destruct (UB eq_refl eq_refl) as [U|[U|U]]; try lia. tauto.
    - (* deeper under a moved statement: the block would have to be on the gap's list, which then lies
         inside the moved subtree *)
      exfalso. apply Nat.eqb_neq in E.
      destruct ON as [[-> _]|[-> ->]]; [congruence|].
      pose proof (thru_length _ _ _ T) as LL.
      unfold moved, tB in M. rewrite thru_snoc in M. cbn [fst] in M.
      replace (length gq =? length p) with false in M by lia. rewrite T in M. cbn [andb] in M.
      rewrite idx_at_snoc in M by lia.
      destruct (Vunder _ LL (thru_firstn _ _ _ T) (thru_at _ _ _ T)); lia. }
  assert (PAIRS : forall j, l <= j -> j + 1 < l + S (h - l - 1) ->
            exists (Q : path) B' k, F j = Ok (Q ++ [(B', k)]) /\ F (j + 1) = Ok (Q ++ [(B', k + 1)])).
  { intros j J1 J2. unfold F.
    destruct (moved p a lo hi (q ++ [(b, j)])) eqn:M0; destruct (moved p a lo hi (q ++ [(b, j + 1)])) eqn:M1.
    - destruct (MV j J1 ltac:(lia) M0) as [-> [-> _]].
      exact (fm_sibling_moved p a lo hi gq ga gi Hlo Vunder Vsame j DIR M0 M1).
    - exfalso. destruct (MV j J1 ltac:(lia) M0) as [-> [-> [U1 U2]]]. rewrite moved_on_B in M1. lia.
    - exfalso. destruct (MV (j + 1) ltac:(lia) ltac:(lia) M1) as [-> [-> [U1 U2]]]. rewrite moved_on_B in M0. lia.
    - destruct (fm_sibling_other p a lo hi gq ga gi Hlo Vsame q b j M0 M1) as [Q [k [E1 E2]]].
      + intros -> ->. rewrite moved_on_B in M0, M1. destruct (UB eq_refl eq_refl) as [U|[U|U]]; lia.
      + intros -> ->. destruct (UG eq_refl eq_refl); lia.
      + exists Q, b, k. auto. }
  assert (FIRST : exists (Q : path) B' k, F l = Ok (Q ++ [(B', k)])).
  { unfold F. destruct (fm_total p a lo hi gq ga gi Hlo Vunder Vsame (q ++ [(b, l)]) DIR) as [q' E].
    destruct (nth_error (kids xq b) l) as [xl|] eqn:El; [|apply nth_error_None in El; lia].
    assert (Gl : get t (q ++ [(b, l)]) = Some xl) by (rewrite (get_snoc _ _ _ _ _ Gq); exact El).
    destruct (NODE _ _ _ Gl E) as [_ [_ [_ [Nl _]]]].
    destruct q' as [|e0 q0]; [exfalso; destruct Nl as [_ H]; specialize (H eq_refl); destruct q; discriminate|].
    destruct (path_snoc_inv (e0 :: q0)) as [Q [[B' k] EQ]]; [discriminate|].
    exists Q, B', k. rewrite E, EQ. reflexivity. }
  destruct (consecutive_chain F l (h - l - 1) PAIRS FIRST) as [Q [B' [k0 ALL]]].
  (* the forwarded block *)
  fold (F l) (F (h - 1)) in FW.
  rewrite (ALL l) in FW by lia. rewrite (ALL (h - 1)) in FW by lia. cbn [rbind] in FW.
  rewrite !plast_snoc, !pinit_snoc, path_eqb_refl, attr_eqb_refl in FW.
  replace (k0 + (l - l) <=? k0 + (h - 1 - l)) with true in FW by lia. cbn [andb] in FW.
  injection FW as <-.
  replace (k0 + (l - l)) with k0 by lia. replace (k0 + (h - 1 - l) + 1) with (k0 + (h - l)) by lia.
  (* every statement of the block is found, with its label, at its consecutive new position *)
  assert (EACH : forall d, d < h - l ->
            exists x x', nth_error (kids xq b) (l + d) = Some x /\
                         get t' (Q ++ [(B', k0 + d)]) = Some x' /\ lbl x' = lbl x).
  { intros d D.
    destruct (nth_error (kids xq b) (l + d)) as [x|] eqn:Ex; [|apply nth_error_None in Ex; lia].
    assert (Gx : get t (q ++ [(b, l + d)]) = Some x) by (rewrite (get_snoc _ _ _ _ _ Gq); exact Ex).
    pose proof (ALL (l + d) ltac:(lia) ltac:(lia)) as E. unfold F in E.
    destruct (NODE _ _ _ Gx E) as [x' [G' [Lb _]]].
    exists x, x'. split; auto. replace (k0 + d) with (k0 + (l + d - l)) by lia. auto. }
  destruct (EACH 0 ltac:(lia)) as [x0 [x0' [_ [G0 _]]]].
  destruct (get_snoc_inv _ _ _ _ _ G0) as [xQ [GQ _]].
  assert (NTH : forall d, d < h - l ->
            exists x x', nth_error (kids xq b) (l + d) = Some x /\
                         nth_error (kids xQ B') (k0 + d) = Some x' /\ lbl x' = lbl x).
  { intros d D. destruct (EACH d D) as [x [x' [E1 [E2 E3]]]].
    exists x, x'. split; auto. split; auto.
    rewrite (get_snoc _ _ _ _ _ GQ) in E2. exact E2. }
  assert (LEN : k0 + (h - l) <= length (kids xQ B')).
  { destruct (NTH (h - l - 1) ltac:(lia)) as [x [x' [_ [E _]]]].
    assert (k0 + (h - l - 1) < length (kids xQ B')) by (apply nth_error_Some; congruence). lia. }
  split.
  - unfold valid_cursor. cbn. unfold valid_blockb. rewrite GQ. lia.
  - cbn. unfold block_labels. rewrite Gq, GQ. eexists _, _. split; [reflexivity|]. split; [reflexivity|].
    left. apply nth_error_ext. intros d.
    destruct (Nat.lt_ge_cases d (h - l)) as [D|D].
    + destruct (NTH d D) as [x [x' [E1 [E2 E3]]]].
      rewrite !nth_error_map, !nth_error_slice by lia. rewrite E1, E2. simpl. rewrite E3. reflexivity.
    + transitivity (@None nat).
      * apply nth_error_None. rewrite map_length, slice_length by lia. lia.
      * symmetry. apply nth_error_None. rewrite map_length, slice_length by lia. lia.
Qed.

Theorem move_sound fixed p a lo hi gp0 s0 pl t t' c c' :
  valid_edit t (EMove p a lo hi gp0 s0 pl) -> move_ok (EMove p a lo hi gp0 s0 pl) t c ->
  apply_edit (EMove p a lo hi gp0 s0 pl) t = Some t' ->
  valid_cursor t c -> fwd_edit fixed (EMove p a lo hi gp0 s0 pl) t c = Ok c' ->
  valid_cursor t' c' /\ same_e (EMove p a lo hi gp0 s0 pl) t c t' c'.
Proof.
  intros VE [MP [Hlo CL]] AP VC FW.
  unfold valid_edit in VE. cbn [valid_editb] in VE.
  apply andb_true_iff in VE as [VE RO]. apply andb_true_iff in VE as [VE NU].
  apply andb_true_iff in VE as [VB VG]. apply negb_true_iff in NU.
  destruct (inb_block_inv _ _ _ _ _ VB) as [nb [Gb [_ Hhi]]].
  destruct (move_target p a lo hi gp0 s0) as [gp s] eqn:MT.
  destruct (move_target_facts t p a lo hi gp0 s0 nb Gb Hlo Hhi VG NU _ _ MT)
    as [gq [ga [ia [xg [-> [Gx [Vunder Vsame]]]]]]].
  pose proof (move_node_sound p a lo hi gp0 s0 pl t t' nb gq ga ia s Gb Hlo Hhi VG NU MT MP AP) as NODE.
  pose proof (mpre_of_move_pre _ _ _ _ _ _ pl _ _ _ _ MT MP) as MPR.
  set (gi := match s with Before => ia | After => ia + 1 end) in *.
  assert (FW' : forward_move fixed t p a lo hi gp0 s0 c = Ok c') by exact FW.
  unfold forward_move in FW'. rewrite MT, gap_path_of_snoc in FW'. fold gi in FW'.
  unfold same_e. cbn [edit_del edit_new].
  destruct c as [q|q b l h|q sd].
  - (* node *)
    unfold valid_cursor in VC. cbn in VC. unfold valid_nodeb in VC.
    destruct (get t q) as [x|] eqn:G; [|discriminate].
    destruct (fwd_move_node p a lo hi (gq ++ [(ga, gi)]) q) as [q'| |] eqn:F; simpl in FW'; try discriminate.
    injection FW' as <-.
    destruct (NODE q x q' G F) as [x' [G' [Lb _]]].
    split.
    + unfold valid_cursor. cbn. unfold valid_nodeb. rewrite G'. reflexivity.
    + cbn. exists (lbl x). unfold node_label. rewrite G, G'. simpl. rewrite Lb. auto.
  - (* block *)
    destruct (valid_block_inv _ _ _ _ _ VC) as [xq [Gq [Hl Hh]]].
    unfold move_blk_okb in CL. rewrite MT, gap_path_of_snoc, plast_snoc, pinit_snoc in CL. fold gi in CL.
    apply andb_true_iff in CL as [C1 C2].
    assert (NP : path_eqb q p && attr_eqb b a && intersects_partially l h lo hi = false).
    { destruct (path_eqb q p && attr_eqb b a); auto. cbn [andb negb orb] in C1.
      unfold intersects_partially. lia. }
    rewrite NP in FW'.
    unfold child_node in FW'. rewrite Gq in FW'.
    replace (l <? length (kids xq b)) with true in FW' by lia.
    replace (h =? 0) with false in FW' by lia.
    replace (h - 1 <? length (kids xq b)) with true in FW' by lia.
    cbn [rbind] in FW'.
    destruct (path_eqb q p && attr_eqb b a) eqn:OB; [|destruct (path_eqb q gq && attr_eqb b ga) eqn:OG].
    + (* on the source list *)
      apply andb_true_iff in OB as [E1 E2]. apply path_eqb_eq in E1. apply attr_eqb_eq in E2.
      assert (DIR : caseA p a lo gq ga gi \/ (caseB p a lo gq ga gi /\ mpre p a lo gq ga gi = true)).
      { unfold caseA, caseB. destruct (is_before (gq ++ [(ga, gi)]) (p ++ [(a, lo)])); auto. }
      apply (move_block_on_list fixed p a lo hi gq ga gi t t' q b l h xq c' Hlo Vunder Vsame DIR NODE Gq Hl Hh).
      * left. auto.
      * intros _ _. cbn [negb orb] in C1. lia.
      * intros E3 E4. assert (OG : path_eqb q gq && attr_eqb b ga = true).
        { rewrite E3, E4, path_eqb_refl, attr_eqb_refl. reflexivity. }
        rewrite OG in C2. cbn [negb orb andb] in C2. lia.
      * exact FW'.
    + (* on the target list only *)
      apply andb_true_iff in OG as [E1 E2]. apply path_eqb_eq in E1. apply attr_eqb_eq in E2.
      assert (DIR : caseA p a lo gq ga gi \/ (caseB p a lo gq ga gi /\ mpre p a lo gq ga gi = true)).
      { unfold caseA, caseB. destruct (is_before (gq ++ [(ga, gi)]) (p ++ [(a, lo)])); auto. }
      apply (move_block_on_list fixed p a lo hi gq ga gi t t' q b l h xq c' Hlo Vunder Vsame DIR NODE Gq Hl Hh).
      * right. auto.
      * intros E3 E4. exfalso. rewrite E3, E4, path_eqb_refl, attr_eqb_refl in OB. discriminate.
      * intros _ _. cbn [negb orb andb] in C2. lia.
      * exact FW'.
    + (* on neither edited list: the block moves with its anchor *)
      assert (NB : ~ (q = p /\ b = a)).
      { intros [-> ->]. rewrite path_eqb_refl, attr_eqb_refl in OB. discriminate. }
      assert (NG : ~ (q = gq /\ b = ga)).
      { intros [-> ->]. rewrite path_eqb_refl, attr_eqb_refl in OG. discriminate. }
      rewrite (fm_snoc p a lo hi gq ga gi Hlo Vsame q b l NB NG) in FW'.
      rewrite (fm_snoc p a lo hi gq ga gi Hlo Vsame q b (h - 1) NB NG) in FW'.
      destruct (fwd_move_node p a lo hi (gq ++ [(ga, gi)]) q) as [q'| |] eqn:F; cbn [rbind] in FW'; try discriminate.
      rewrite !plast_snoc, !pinit_snoc, path_eqb_refl, attr_eqb_refl in FW'.
      replace (l <=? h - 1) with true in FW' by lia. cbn [andb] in FW'.
      injection FW' as <-. replace (h - 1 + 1) with h by lia.
      destruct (NODE q xq q' Gq F) as [x' [G' [_ [_ K]]]].
      assert (KL : map lbl (kids x' b) = map lbl (kids xq b)) by (apply K; tauto).
      assert (Hlen : length (kids x' b) = length (kids xq b)).
      { rewrite <- (map_length lbl (kids x' b)), KL, map_length. reflexivity. }
      split.
      * unfold valid_cursor. cbn. unfold valid_blockb. rewrite G', Hlen. lia.
      * cbn. unfold block_labels. rewrite Gq, G'. eexists _, _. split; [reflexivity|]. split; [reflexivity|].
        left. unfold slice. rewrite <- !firstn_map, <- !skipn_map, KL. reflexivity.
  - (* gap *)
    unfold valid_cursor in VC. cbn in VC. unfold valid_gapb, valid_nodeb in VC.
    destruct q as [|e0 q0]; [discriminate|]. remember (e0 :: q0) as q.
    destruct (get t q) as [x|] eqn:G; [|discriminate].
    destruct (fwd_move_node p a lo hi (gq ++ [(ga, gi)]) q) as [q'| |] eqn:F; simpl in FW'; try discriminate.
    injection FW' as <-.
    destruct (NODE q x q' G F) as [x' [G' [Lb [Nl _]]]].
    split.
    + unfold valid_cursor. cbn. unfold valid_gapb, valid_nodeb.
      destruct q' as [|e' q'']; [exfalso; destruct Nl as [_ H]; specialize (H eq_refl); subst; discriminate|].
      rewrite G'. reflexivity.
    + cbn. split; auto. exists (lbl x). unfold node_label. rewrite G, G'. simpl. rewrite Lb. auto.
Qed.

(** forwarding a node or gap cursor through a move never fails (under [move_pre]) *)
Theorem move_complete fixed p a lo hi gp0 s0 pl t c :
  valid_edit t (EMove p a lo hi gp0 s0 pl) -> move_pre (EMove p a lo hi gp0 s0 pl) -> lo < hi ->
  match c with CBlock _ _ _ _ => False | _ => True end ->
  exists c', fwd_edit fixed (EMove p a lo hi gp0 s0 pl) t c = Ok c'.
Proof.
  intros VE MP Hlo NB.
  unfold valid_edit in VE. cbn [valid_editb] in VE.
  apply andb_true_iff in VE as [VE RO]. apply andb_true_iff in VE as [VE NU].
  apply andb_true_iff in VE as [VB VG]. apply negb_true_iff in NU.
  destruct (inb_block_inv _ _ _ _ _ VB) as [nb [Gb [_ Hhi]]].
  destruct (move_target p a lo hi gp0 s0) as [gp s] eqn:MT.
  destruct (move_target_facts t p a lo hi gp0 s0 nb Gb Hlo Hhi VG NU _ _ MT)
    as [gq [ga [ia [xg [-> [Gx [Vunder Vsame]]]]]]].
  pose proof (mpre_of_move_pre _ _ _ _ _ _ pl _ _ _ _ MT MP) as MPR.
  set (gi := match s with Before => ia | After => ia + 1 end) in *.
  assert (DIR : caseA p a lo gq ga gi \/ (caseB p a lo gq ga gi /\ mpre p a lo gq ga gi = true)).
  { unfold caseA, caseB. destruct (is_before (gq ++ [(ga, gi)]) (p ++ [(a, lo)])); auto. }
  change (exists c', forward_move fixed t p a lo hi gp0 s0 c = Ok c').
  unfold forward_move. rewrite MT, gap_path_of_snoc. fold gi.
  destruct c as [q| |q sd]; [| contradiction |].
  - destruct (fm_total p a lo hi gq ga gi Hlo Vunder Vsame q DIR) as [q' ->]. simpl. eauto.
  - destruct (fm_total p a lo hi gq ga gi Hlo Vunder Vsame q DIR) as [q' ->]. simpl. eauto.
Qed.

(* ------------------------------------------------------------------------------------------------ *)
(** ** the full-strength statement is false of the code: witnesses *)

(** (1) the moved statement itself is mis-forwarded when it goes to a LATER gap in a subtree that leaves
        the block's path ABOVE the block's level (first statement of loop 1's body -> loop 2's body) *)
Definition move_cex_tree : tree :=
  T 0 [T 1 [T 2 [] []; T 3 [] []] []; T 4 [T 5 [] []; T 6 [] []] []; T 7 [] []] [].
Definition move_cex_edit : edit := EMove [(Body, 0)] Body 0 1 [(Body, 1); (Body, 0)] After 9.
Definition move_cex_cursor : cursor := CNode [(Body, 0); (Body, 0)].

Lemma move_refuted :
  exists t e c t' c',
    valid_edit t e /\ apply_edit e t = Some t' /\ valid_cursor t c /\
    fwd_edit code_now e t c = Ok c' /\ ~ inb_cursor t' c'.
Proof.
  exists move_cex_tree, move_cex_edit, move_cex_cursor.
  eexists. eexists.
  split; [vm_compute; reflexivity|].
  split; [vm_compute; reflexivity|].
  split; [vm_compute; reflexivity|].
  split; [vm_compute; reflexivity|].
  vm_compute. discriminate.
Qed.

Lemma move_refuted_not_pre : move_preb move_cex_edit = false.
Proof. vm_compute. reflexivity. Qed.

(** (2) a block cursor on the list the statements are taken from is forwarded as the hull of its end
        points: after swapping s0 and s1 the block [s1; s2] becomes [s1; s0; s2] ... *)
Definition hull_cex_tree : tree := T 0 [T 1 [] []; T 2 [] []; T 3 [] []; T 4 [] []] [].
Definition hull_cex_edit : edit := EMove [] Body 1 2 [(Body, 0)] Before 9.    (* reorder_stmts *)

Lemma move_block_hull_refuted :
  exists t e c t' c' L L',
    valid_edit t e /\ move_pre e /\ apply_edit e t = Some t' /\ valid_cursor t c /\
    fwd_edit code_now e t c = Ok c' /\
    match c, c' with
    | CBlock p a lo hi, CBlock p' a' lo' hi' =>
        block_labels t p a lo hi = Some L /\ block_labels t' p' a' lo' hi' = Some L' /\ L = [2; 3] /\ L' = [2; 1; 3]
    | _, _ => False
    end.
Proof.
  exists hull_cex_tree, hull_cex_edit, (CBlock [] Body 1 3).
  eexists. eexists. eexists. eexists.
  split; [vm_compute; reflexivity|].
  split; [vm_compute; reflexivity|].
  split; [vm_compute; reflexivity|].
  split; [vm_compute; reflexivity|].
  split; [vm_compute; reflexivity|].
  vm_compute. repeat split; reflexivity.
Qed.

(** ... and the block [s0; s1] is not forwarded at all: before its repair the code raised AssertionError
    ([Crash]); now it reports InvalidCursorError *)
Lemma move_block_crash_refuted :
  valid_edit hull_cex_tree hull_cex_edit /\ move_pre hull_cex_edit /\
  valid_cursor hull_cex_tree (CBlock [] Body 0 2) /\
  fwd_edit code_with_asserts hull_cex_edit hull_cex_tree (CBlock [] Body 0 2) = Crash /\
  fwd_edit code_now hull_cex_edit hull_cex_tree (CBlock [] Body 0 2) = Invalid.
Proof. vm_compute. repeat split; reflexivity. Qed.

(** hypotheses of [move_sound] are satisfiable (a move to a later gap at the block's own level, and a
    block cursor inside a moved statement) *)
Example move_sound_example :
  let t := T 0 [T 1 [T 2 [] []; T 3 [] []] []; T 4 [T 5 [] []] []] [] in
  let e := EMove [] Body 0 1 [(Body, 1); (Body, 0)] After 9 in
  let c := CBlock [(Body, 0)] Body 0 2 in
  valid_edit t e /\ move_pre e /\ move_blk_okb e c = true /\ valid_cursor t c /\
  exists t' c', apply_edit e t = Some t' /\ fwd_edit code_now e t c = Ok c'.
Proof. vm_compute. repeat split; eauto. Qed.
