(* C06 driver: one s-expression job per line on stdin, one result line per job on stdout.
   job    ::= (<variant: v + two bits wrap_fixed move_asserts, e.g. v11> <tree> (<edit> ...) (<cursor> ...))
   tree   ::= (<label> (<tree> ...) (<tree> ...))
   path   ::= ((b|o <idx>) ...)
   edit   ::= (replace path attr lo hi (tree ...)) | (delete path attr lo hi pl) | (insert path side (tree ...))
            | (wrap path attr lo hi wl wattr (tree ...)) | (move path attr lo hi path side pl) | (nop)
   cursor ::= (n path) | (b path attr lo hi) | (g path side)
   result ::= (<tree>|none (<valid_edit per edit on its intermediate tree> ...) (<move_pre per edit> ...)
               (<res> ...))         per cursor: (res ...) one per step, stopping after a non-ok / out-of-bounds step;
               res ::= (ok cursor inb valid covered) | invalid | crash   (covered: hypotheses of C06_edit hold)            *)
open Model

type sx = A of string | L of sx list

let parse (s : string) : sx =
  let n = String.length s in
  let pos = ref 0 in
  let rec skip () = if !pos < n && (s.[!pos] = ' ' || s.[!pos] = '\t' || s.[!pos] = '\n') then (incr pos; skip ()) in
  let rec rd () =
    skip ();
    if !pos >= n then failwith "eof";
    if s.[!pos] = '(' then begin
      incr pos;
      let items = ref [] in
      let rec loop () =
        skip ();
        if !pos >= n then failwith "unterminated";
        if s.[!pos] = ')' then incr pos else (items := rd () :: !items; loop ()) in
      loop ();
      L (List.rev !items)
    end else begin
      let st = !pos in
      while !pos < n && s.[!pos] <> ' ' && s.[!pos] <> '(' && s.[!pos] <> ')' && s.[!pos] <> '\n' do incr pos done;
      A (String.sub s st (!pos - st))
    end in
  rd ()

let rec nat_of_int (i : int) : nat = if i <= 0 then O else S (nat_of_int (i - 1))
let rec int_of_nat (n : nat) : int = match n with O -> 0 | S m -> 1 + int_of_nat m

let to_nat = function A a -> nat_of_int (int_of_string a) | _ -> failwith "nat"
let to_attr = function A "b" -> Body | A "o" -> Orelse | _ -> failwith "attr"
let to_side = function A "before" -> Before | A "after" -> After | _ -> failwith "side"
let to_path = function
  | L es -> List.map (function L [a; i] -> (to_attr a, to_nat i) | _ -> failwith "edge") es
  | _ -> failwith "path"
let rec to_tree = function
  | L [l; L b; L o] -> T (to_nat l, List.map to_tree b, List.map to_tree o)
  | _ -> failwith "tree"
let to_trees = function L ts -> List.map to_tree ts | _ -> failwith "trees"
let to_edit = function
  | L [A "replace"; p; a; lo; hi; ns] -> EReplace (to_path p, to_attr a, to_nat lo, to_nat hi, to_trees ns)
  | L [A "delete"; p; a; lo; hi; pl] -> EDelete (to_path p, to_attr a, to_nat lo, to_nat hi, to_nat pl)
  | L [A "insert"; p; s; ns] -> EInsert (to_path p, to_side s, to_trees ns)
  | L [A "wrap"; p; a; lo; hi; wl; wa; ot] ->
      EWrap (to_path p, to_attr a, to_nat lo, to_nat hi, to_nat wl, to_attr wa, to_trees ot)
  | L [A "move"; p; a; lo; hi; gp; s; pl] ->
      EMove (to_path p, to_attr a, to_nat lo, to_nat hi, to_path gp, to_side s, to_nat pl)
  | L [A "nop"] -> ENop
  | _ -> failwith "edit"
let to_cursor = function
  | L [A "n"; p] -> CNode (to_path p)
  | L [A "b"; p; a; lo; hi] -> CBlock (to_path p, to_attr a, to_nat lo, to_nat hi)
  | L [A "g"; p; s] -> CGap (to_path p, to_side s)
  | _ -> failwith "cursor"

let b = Buffer.create 65536
let pr s = Buffer.add_string b s
let pr_nat n = pr (string_of_int (int_of_nat n))
let pr_attr = function Body -> pr "b" | Orelse -> pr "o"
let pr_side = function Before -> pr "before" | After -> pr "after"
let pr_path p =
  pr "(";
  List.iteri (fun k (a, i) -> if k > 0 then pr " "; pr "("; pr_attr a; pr " "; pr_nat i; pr ")") p;
  pr ")"
let rec pr_tree (T (l, bd, oe)) =
  pr "("; pr_nat l; pr " (";
  List.iteri (fun k t -> if k > 0 then pr " "; pr_tree t) bd;
  pr ") (";
  List.iteri (fun k t -> if k > 0 then pr " "; pr_tree t) oe;
  pr "))"
let pr_cursor = function
  | CNode p -> pr "(n "; pr_path p; pr ")"
  | CBlock (p, a, lo, hi) -> pr "(b "; pr_path p; pr " "; pr_attr a; pr " "; pr_nat lo; pr " "; pr_nat hi; pr ")"
  | CGap (p, s) -> pr "(g "; pr_path p; pr " "; pr_side s; pr ")"
let pr_bool x = pr (if x then "1" else "0")

let run_job (line : string) =
  match parse line with
  | L [A fixed; t; L es; L cs] ->
      (* two bits: wrap_fixed, move_asserts *)
      let fixed = { wrap_fixed = (String.length fixed > 1 && fixed.[1] = '1');
                    move_asserts = (String.length fixed > 2 && fixed.[2] = '1') } in
      let t = to_tree t in
      let es = List.map to_edit es in
      let cs = List.map to_cursor cs in
      (* per-edit validity on the intermediate trees *)
      let rec walk t es = match es with
        | [] -> []
        | e :: r -> let v = valid_editb t e in
                    (match apply_edit e t with
                     | Some t1 -> v :: walk t1 r
                     | None -> v :: List.map (fun _ -> false) r) in
      let valids = walk t es in
      pr "(";
      (match apply_chain es t with Some t' -> pr_tree t' | None -> pr "none");
      pr " (";
      List.iteri (fun k v -> if k > 0 then pr " "; pr_bool v) valids;
      pr ") (";
      List.iteri (fun k e -> if k > 0 then pr " "; pr_bool (move_preb e)) es;
      pr ") (";
      (* per cursor: the list of per-step results; stops after the first result that is not ok or not in bounds *)
      List.iteri (fun k c ->
          if k > 0 then pr " ";
          pr "(";
          let rec steps t es c first =
            match es with
            | [] -> ()
            | e :: r ->
                (match apply_edit e t with
                 | None -> ()
                 | Some t1 ->
                     if not first then pr " ";
                     (match fwd_edit fixed e t c with
                      | Ok c' -> let ib = inb_cursorb t1 c' in
                                 pr "(ok "; pr_cursor c'; pr " "; pr_bool ib; pr " ";
                                 pr_bool (valid_cursorb t1 c'); pr " ";
                                 pr_bool (valid_editb t e && valid_cursorb t c && edit_okb fixed e c); pr ")";
                                 if ib then steps t1 r c' false
                      | Invalid -> pr "invalid"
                      | Crash -> pr "crash")) in
          steps t es c true;
          pr ")") cs;
      pr "))\n"
  | _ -> failwith "job"

let () =
  try
    while true do
      let line = input_line stdin in
      if String.length line > 0 then begin
        (try run_job line with Failure m -> pr ("(error " ^ m ^ ")\n"));
        print_string (Buffer.contents b); Buffer.clear b
      end
    done
  with End_of_file -> ()
