(** Extraction of the executable model (ExtrOcamlBasic only; nat stays the Peano datatype). *)
Require Extraction.
Require Import ExtrOcamlBasic.
From Cursors Require Import Model Spec.
Extraction Language OCaml.
Extraction "model.ml" apply_edit fwd_edit apply_chain fwd_chain valid_editb valid_cursorb inb_cursorb
  move_preb block_labels node_label labels proc_forward edit_okb.
