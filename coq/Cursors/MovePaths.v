(** * Cursors/MovePaths.v — path arithmetic of [Block._forward_move]: the node function is the
    composition of the delete- and insert-forwardings in the order [_move] applies them. *)
From Coq Require Import List Arith Bool Lia ZifyBool.
From Cursors Require Import Model Base Spec Local PathLemmas.
Import ListNotations.

Lemma set_idx_ext (q : path) m f g :
  f (idx_at m q) = g (idx_at m q) -> set_idx q m f = set_idx q m g.
Proof.
  unfold set_idx, idx_at. destruct (nth_error q m) as [[a i]|]; auto. intros ->. reflexivity.
Qed.

Lemma set_idx_id (q : path) m f : f (idx_at m q) = idx_at m q -> set_idx q m f = q.
Proof.
  unfold set_idx, idx_at. destruct (nth_error q m) as [[a i]|] eqn:E; auto. intros ->.
  symmetry. apply nth_error_firstn_skipn. exact E.
Qed.

Lemma thru_set_idx (p : path) a (q : path) f :
  thru p a q = true ->
  p ++ [(a, f (idx_at (length p) q))] ++ skipn (S (length p)) q = set_idx q (length p) f.
Proof.
  intros T. pose proof (thru_true _ _ _ T) as E. rewrite E at 3. rewrite set_idx_app. reflexivity.
Qed.

Lemma firstn_firstn_le {A} (l : list A) i j : i <= j -> firstn i (firstn j l) = firstn i l.
Proof. intros. rewrite firstn_firstn. f_equal. lia. Qed.

Lemma thru_firstn (p : path) a (q : path) : thru p a q = true -> firstn (length p) q = p.
Proof. intros T. pose proof (thru_true _ _ _ T) as E. rewrite E. apply firstn_app_exact. Qed.

Lemma nth_error_split_at (l : path) i x :
  nth_error l i = Some x -> l = firstn i l ++ x :: skipn (S i) l.
Proof. apply nth_error_firstn_skipn. Qed.

Section MovePaths.
  Variables (bp : path) (ba : attr) (lo hi : nat) (gq : path) (ga : attr) (gi : nat).
  Hypothesis Hlo : lo < hi.

  Let n := hi - lo.
  Let bn := length bp.
  Let gn := length gq.
  Let gap_path : path := gq ++ [(ga, gi)].
  Let b_path : path := bp ++ [(ba, lo)].

  Definition tB (q : path) := thru bp ba q.
  Definition tG (q : path) := thru gq ga q && (gi <=? idx_at gn q).

  Lemma gap_path_facts :
    length gap_path - 1 = gn /\ firstn gn gap_path = gq /\ nth_error gap_path gn = Some (ga, gi).
  Proof.
    unfold gap_path, gn. rewrite app_length. simpl. split; [lia|]. split.
    - apply firstn_app_exact.
    - apply nth_error_app_mid.
  Qed.

  (** [fwd_move_node] in terms of [thru] / [set_idx] *)
  Lemma fm_unfold q :
    fwd_move_node bp ba lo hi gap_path q =
    if tB q && negb (hi <=? idx_at bn q) && (lo <=? idx_at bn q) then
      rbind (if bn <=? gn then new_gap_path b_path gap_path n else Ok gap_path)
            (fun ngp => match plast ngp with
                        | None => Crash
                        | Some (la, li) => Ok (pinit ngp ++ [(la, li + (idx_at bn q - lo))] ++ skipn (bn + 1) q)
                        end)
    else
      Ok (let q1 := if tB q && (hi <=? idx_at bn q) then set_idx q bn (fun i => i - n) else q in
          if tG q then set_idx q1 gn (fun i => i + n) else q1).
  Proof.
    destruct gap_path_facts as [F1 [F2 F3]].
    unfold fwd_move_node. rewrite F1, F2, F3.
    assert (TG : (gn <? length q) && path_eqb gq (firstn gn q) &&
                 match nth_error q gn with
                 | Some (ca, ci) => attr_eqb ga ca && (gi <=? ci)
                 | None => false
                 end = tG q).
    { unfold tG, thru, idx_at. fold gn. destruct (nth_error q gn) as [[ca ci]|]; simpl.
      - rewrite andb_assoc. reflexivity.
      - rewrite andb_false_r. reflexivity. }
    rewrite TG. reflexivity.
  Qed.

  (** geometry: what the order chosen by [_move] says about the relative position of gap and block *)
  Definition caseA : Prop := is_before gap_path b_path = true.
  Definition caseB : Prop := is_before gap_path b_path = false.

  (** validity: the gap is not inside the moved subtrees, and not strictly inside the block *)
  Hypothesis Vunder : forall j, bn < gn -> firstn bn gq = bp -> nth_error gq bn = Some (ba, j) ->
                                j < lo \/ hi <= j.
  Hypothesis Vsame : gq = bp -> ga = ba -> gi <= lo \/ hi <= gi.

  Lemma under_A j : caseA -> bn < gn -> firstn bn gq = bp -> nth_error gq bn = Some (ba, j) -> j < lo.
  Proof.
    intros A L F N. destruct (Vunder j L F N) as [|H]; auto. exfalso.
    unfold caseA, gap_path, b_path in A.
    rewrite (nth_error_split_at gq bn _ N), F in A. fold bn in A.
    rewrite <- app_assoc in A. rewrite is_before_app in A. simpl in A.
    rewrite attr_eqb_refl in A. simpl in A.
    destruct (j =? lo) eqn:E; simpl in A; lia.
  Qed.

  Lemma under_B j : caseB -> bn < gn -> firstn bn gq = bp -> nth_error gq bn = Some (ba, j) -> hi <= j.
  Proof.
    intros B L F N. destruct (Vunder j L F N) as [H|]; auto. exfalso.
    unfold caseB, gap_path, b_path in B.
    rewrite (nth_error_split_at gq bn _ N), F in B. fold bn in B.
    rewrite <- app_assoc in B. rewrite is_before_app in B. simpl in B.
    rewrite attr_eqb_refl in B. simpl in B.
    destruct (j =? lo) eqn:E; simpl in B; lia.
  Qed.

  Lemma over_A j : caseA -> gn < bn -> firstn gn bp = gq -> nth_error bp gn = Some (ga, j) -> gi <= j.
  Proof.
    intros A L F N.
    unfold caseA, gap_path, b_path in A.
    rewrite (nth_error_split_at bp gn _ N), F in A. fold gn in A.
    rewrite <- (app_assoc gq) in A. rewrite is_before_app in A. simpl in A.
    rewrite attr_eqb_refl in A. simpl in A.
    destruct (gi =? j) eqn:E; simpl in A; lia.
  Qed.

  Lemma over_B j : caseB -> gn < bn -> firstn gn bp = gq -> nth_error bp gn = Some (ga, j) -> j < gi.
  Proof.
    intros B L F N.
    unfold caseB, gap_path, b_path in B.
    rewrite (nth_error_split_at bp gn _ N), F in B. fold gn in B.
    rewrite <- (app_assoc gq) in B. rewrite is_before_app in B. simpl in B.
    rewrite attr_eqb_refl in B. simpl in B.
    destruct (gi =? j) eqn:E; simpl in B; try lia; try discriminate.
  Qed.

  Lemma same_A : caseA -> gq = bp -> ga = ba -> gi <= lo.
  Proof.
    intros A E1 E2. unfold caseA, gap_path, b_path in A. rewrite E1, E2, is_before_app in A.
    simpl in A. rewrite attr_eqb_refl in A. simpl in A.
    destruct (gi =? lo) eqn:E; simpl in A; lia.
  Qed.

  Lemma same_B : caseB -> gq = bp -> ga = ba -> hi <= gi.
  Proof.
    intros B E1 E2. destruct (Vsame E1 E2) as [H|]; auto. exfalso.
    unfold caseB, gap_path, b_path in B. rewrite E1, E2, is_before_app in B.
    simpl in B. rewrite attr_eqb_refl in B. simpl in B.
    destruct (gi =? lo) eqn:E; simpl in B; try lia; try discriminate.
  Qed.

  (** a path through both lists at different depths pins one list path under the other *)
  Lemma both_deeper_G (q : path) :
    tB q = true -> thru gq ga q = true -> bn < gn ->
    firstn bn gq = bp /\ nth_error gq bn = Some (ba, idx_at bn q).
  Proof.
    intros TB TGq L. unfold tB in TB.
    pose proof (thru_firstn _ _ _ TB) as FB. pose proof (thru_firstn _ _ _ TGq) as FG.
    fold bn in FB. fold gn in FG. split.
    - rewrite <- FG. rewrite firstn_firstn_le by lia. exact FB.
    - rewrite <- (thru_below _ _ _ bn L TGq). apply (thru_at _ _ _ TB).
  Qed.

  Lemma both_deeper_B (q : path) :
    tB q = true -> thru gq ga q = true -> gn < bn ->
    firstn gn bp = gq /\ nth_error bp gn = Some (ga, idx_at gn q).
  Proof.
    intros TB TGq L. unfold tB in TB.
    pose proof (thru_firstn _ _ _ TB) as FB. pose proof (thru_firstn _ _ _ TGq) as FG.
    fold bn in FB. fold gn in FG. split.
    - rewrite <- FB. rewrite firstn_firstn_le by lia. exact FG.
    - rewrite <- (thru_below _ _ _ gn L TB). apply (thru_at _ _ _ TGq).
  Qed.

  Lemma both_same (q : path) :
    tB q = true -> thru gq ga q = true -> gn = bn -> gq = bp /\ ga = ba.
  Proof.
    intros TB TGq L. unfold tB in TB.
    pose proof (thru_firstn _ _ _ TB) as FB. pose proof (thru_firstn _ _ _ TGq) as FG.
    pose proof (thru_at _ _ _ TB) as AB. pose proof (thru_at _ _ _ TGq) as AG.
    fold bn in FB, AB. fold gn in FG, AG. rewrite L in FG, AG. split; congruence.
  Qed.

  (** case A: shifting a path behind the deleted block does not change whether it lies behind the gap *)
  Lemma tG_shiftB_A (q : path) :
    caseA -> tB q = true -> hi <= idx_at bn q ->
    tG (set_idx q bn (fun i => i - n)) = tG q.
  Proof.
    intros A TB K. unfold tG.
    assert (LB : bn < length q) by (apply (thru_length _ _ _ TB)).
    destruct (Nat.lt_trichotomy gn bn) as [L|[L|L]].
    - rewrite thru_set_idx_above by (fold gn; lia). rewrite idx_at_set_idx_other by lia. reflexivity.
    - rewrite <- L. change gn with (length gq) at 1. rewrite thru_set_idx_same.
      rewrite idx_at_set_idx_same by lia.
      destruct (thru gq ga q) eqn:TGq; auto. simpl.
      destruct (both_same q TB TGq L) as [E1 E2].
      pose proof (same_A A E1 E2). rewrite L in *. unfold n. lia.
    - (* the gap list is deeper than the block list: a path behind the block is never through it *)
      assert (F1 : thru gq ga q = false).
      { destruct (thru gq ga q) eqn:TGq; auto. exfalso.
        destruct (both_deeper_G q TB TGq L) as [F N]. pose proof (under_A _ A L F N). lia. }
      assert (F2 : thru gq ga (set_idx q bn (fun i => i - n)) = false).
      { destruct (thru gq ga (set_idx q bn (fun i => i - n))) eqn:TGq; auto. exfalso.
        assert (TB' : tB (set_idx q bn (fun i => i - n)) = true)
          by (unfold tB, bn; rewrite thru_set_idx_same; exact TB).
        destruct (both_deeper_G _ TB' TGq L) as [F N].
        pose proof (under_A _ A L F N) as H. rewrite idx_at_set_idx_same in H by lia. unfold n in H. lia. }
      rewrite F1, F2. reflexivity.
  Qed.

  (** case B: shifting a path behind the insertion does not change its position relative to the block *)
  Lemma tB_shiftG_B (q : path) :
    caseB -> thru gq ga q = true -> gi <= idx_at gn q ->
    let q1 := set_idx q gn (fun i => i + n) in
    tB q1 = tB q /\
    (tB q = true ->
     (hi <=? idx_at bn q1) = (hi <=? idx_at bn q) /\ (lo <=? idx_at bn q1) = (lo <=? idx_at bn q) /\
     idx_at bn q1 = if bn =? gn then idx_at bn q + n else idx_at bn q).
  Proof.
    intros B TGq K q1. unfold tB.
    assert (LG : gn < length q) by (apply (thru_length _ _ _ TGq)).
    destruct (Nat.lt_trichotomy bn gn) as [L|[L|L]].
    - unfold q1. rewrite thru_set_idx_above by (fold bn; lia). split; auto. intros _.
      rewrite idx_at_set_idx_other by lia. replace (bn =? gn) with false by lia. auto.
    - unfold q1. rewrite <- L. change bn with (length bp) at 1. rewrite thru_set_idx_same. split; auto.
      intros TB. rewrite idx_at_set_idx_same by lia.
      rewrite Nat.eqb_refl.
      destruct (both_same q TB TGq (eq_sym L)) as [E1 E2].
      pose proof (same_B B E1 E2). rewrite <- L in K. lia.
    - assert (F1 : thru bp ba q = false).
      { destruct (thru bp ba q) eqn:TB; auto. exfalso.
        destruct (both_deeper_B q TB TGq L) as [F N]. pose proof (over_B _ B L F N). lia. }
      assert (F2 : thru bp ba q1 = false).
      { destruct (thru bp ba q1) eqn:TB; auto. exfalso.
        assert (TG' : thru gq ga q1 = true) by (unfold q1, gn; rewrite thru_set_idx_same; exact TGq).
        destruct (both_deeper_B q1 TB TG' L) as [F N].
        pose proof (over_B _ B L F N) as H. unfold q1 in H. rewrite idx_at_set_idx_same in H by lia. lia. }
      rewrite F1, F2. split; auto. discriminate.
  Qed.

  (** the two local forwardings *)
  Definition fnD (k : nat) : res (list edge) :=
    if in_range k lo hi then Invalid else Ok [(ba, repl_idx_update lo hi 0 k)].
  Definition fnI (j : nat) : res (list edge) := Ok [(ga, ins_idx_update gi n j)].
  Definition lfD := lf_node bp ba fnD.
  Definition lfI := lf_node gq ga fnI.

  Lemma lfD_spec (q : path) :
    lfD q = if tB q then
              if in_range (idx_at bn q) lo hi then Invalid
              else Ok (if hi <=? idx_at bn q then set_idx q bn (fun i => i - n) else q)
            else Ok q.
  Proof.
    unfold lfD, tB. rewrite lf_node_thru. destruct (thru bp ba q) eqn:T; auto.
    unfold fnD. fold bn. destruct (in_range (idx_at bn q) lo hi) eqn:R; auto. cbn [rbind].
    transitivity (@Ok path (set_idx q bn (repl_idx_update lo hi 0)));
      [f_equal; exact (thru_set_idx _ _ _ (repl_idx_update lo hi 0) T)|]. f_equal.
    unfold repl_idx_update. destruct (hi <=? idx_at bn q) eqn:E.
    - apply set_idx_ext. fold bn. rewrite E. unfold n. lia.
    - apply set_idx_id. fold bn. rewrite E. reflexivity.
  Qed.

  Lemma lfI_spec (q : path) :
    lfI q = Ok (if tG q then set_idx q gn (fun i => i + n) else q).
  Proof.
    unfold lfI, tG. rewrite lf_node_thru. destruct (thru gq ga q) eqn:T; auto.
    unfold fnI. cbn [rbind]. fold gn.
    transitivity (@Ok path (set_idx q gn (ins_idx_update gi n)));
      [f_equal; exact (thru_set_idx _ _ _ (ins_idx_update gi n) T)|]. f_equal.
    cbn [andb]. destruct (gi <=? idx_at gn q) eqn:E.
    - apply set_idx_ext. unfold ins_idx_update. rewrite E. reflexivity.
    - apply set_idx_id. unfold ins_idx_update. rewrite E. reflexivity.
  Qed.

  Definition moved (q : path) : bool := tB q && negb (hi <=? idx_at bn q) && (lo <=? idx_at bn q).

  (** statements that are not moved: delete-forwarding then insert-forwarding (case A) ... *)
  Lemma fm_other_A (q : path) :
    caseA -> moved q = false ->
    fwd_move_node bp ba lo hi gap_path q = rbind (lfD q) lfI.
  Proof.
    intros A NM. rewrite fm_unfold. fold (moved q). rewrite NM.
    rewrite lfD_spec. unfold moved in NM.
    destruct (tB q) eqn:TB; simpl in *.
    - assert (R : in_range (idx_at bn q) lo hi = false) by (unfold in_range; lia).
      rewrite R. simpl. rewrite lfI_spec. f_equal.
      destruct (hi <=? idx_at bn q) eqn:E; auto.
      rewrite tG_shiftB_A by (auto; lia). reflexivity.
    - rewrite lfI_spec. reflexivity.
  Qed.

  (** ... insert-forwarding then delete-forwarding (case B) *)
  Lemma fm_other_B (q : path) :
    caseB -> moved q = false ->
    fwd_move_node bp ba lo hi gap_path q = rbind (lfI q) lfD.
  Proof.
    intros B NM. rewrite fm_unfold. fold (moved q). rewrite NM.
    rewrite lfI_spec. simpl. rewrite lfD_spec. unfold moved in NM.
    destruct (tG q) eqn:TGq.
    - unfold tG in TGq. apply andb_true_iff in TGq as [TGq K]. apply Nat.leb_le in K.
      destruct (tB_shiftG_B q B TGq K) as [S1 S2]. cbv zeta in S1, S2. rewrite S1.
      destruct (tB q) eqn:TB; simpl in *; auto.
      destruct (S2 eq_refl) as [H1 [H2 H3]].
      assert (R : in_range (idx_at bn (set_idx q gn (fun i => i + n))) lo hi = false)
        by (unfold in_range; lia).
      rewrite R, H1. f_equal.
      destruct (hi <=? idx_at bn q) eqn:E; auto.
      destruct (bn =? gn) eqn:EQ.
      + apply Nat.eqb_eq in EQ. rewrite <- EQ. rewrite !set_idx_twice. apply set_idx_ext. unfold n. lia.
      + apply set_idx_comm. lia.
    - destruct (tB q) eqn:TB; simpl in *; auto.
      assert (R : in_range (idx_at bn q) lo hi = false) by (unfold in_range; lia).
      rewrite R. reflexivity.
  Qed.

  (** the moved statements, case A: they land at the (stable) gap path *)
  Lemma fm_moved_A (q : path) :
    caseA -> moved q = true ->
    fwd_move_node bp ba lo hi gap_path q =
    Ok (gq ++ [(ga, gi + (idx_at bn q - lo))] ++ skipn (bn + 1) q).
  Proof.
    intros A M. rewrite fm_unfold. fold (moved q). rewrite M.
    assert (E : (if bn <=? gn then new_gap_path b_path gap_path n else Ok gap_path) = Ok gap_path).
    { destruct (bn <=? gn); auto. apply new_gap_path_before. exact A. }
    rewrite E. cbn [rbind]. unfold gap_path. rewrite plast_snoc, pinit_snoc. reflexivity.
  Qed.

  (** [new_gap_path] leaves the gap path alone unless, at the first difference, the block path is
      an earlier sibling *)
  Fixpoint nosub (bs gs : path) : bool :=
    match bs, gs with
    | b :: bs', g :: gs' =>
        if edge_eqb b g then nosub bs' gs'
        else negb (attr_eqb (fst b) (fst g) && (snd b <? snd g))
    | _, _ => true
    end.

  Lemma new_gap_path_nosub : forall bs gs m, nosub bs gs = true -> new_gap_path bs gs m = Ok gs.
  Proof.
    induction bs as [|b bs IH]; intros [|g gs] m H; simpl in *; auto.
    destruct (edge_eqb b g).
    - rewrite (IH gs m H). reflexivity.
    - destruct (attr_eqb (fst b) (fst g) && (snd b <? snd g)); [discriminate|reflexivity].
  Qed.

  Lemma fdl_spec : forall bs gs l,
      match first_diff_level bs gs l with
      | None => nosub bs gs = true
      | Some (lvl, b, g) =>
          exists c bs' gs', bs = c ++ b :: bs' /\ gs = c ++ g :: gs' /\ lvl = l + length c /\
                            nosub bs gs = negb (attr_eqb (fst b) (fst g) && (snd b <? snd g))
      end.
  Proof.
    induction bs as [|b bs IH]; intros [|g gs] l; simpl; auto.
    destruct (edge_eqb b g) eqn:E.
    - apply edge_eqb_eq in E as ->. specialize (IH gs (S l)).
      destruct (first_diff_level bs gs (S l)) as [[[lvl b'] g']|]; auto.
      destruct IH as [c [bs' [gs' [-> [-> [-> N]]]]]].
      exists (g :: c), bs', gs'. simpl. repeat split; auto; try lia.
    - exists [], bs, gs. simpl. repeat split; auto.
  Qed.

  (** [move_pre] in the section's vocabulary *)
  Definition mpre : bool :=
    if gn <? bn then true
    else match first_diff_level b_path gap_path 0 with
         | None => true
         | Some (lvl, b, g) => (lvl =? bn) || negb (attr_eqb (fst b) (fst g) && (snd b <? snd g))
         end.

  (** the position where the inserted copy of a moved statement sits after the insertion *)
  Definition g1 (off : nat) (r : path) : path := gq ++ (ga, gi + off) :: r.

  Lemma thru_gq_g1 off r : thru gq ga (g1 off r) = true.
  Proof. apply thru_app. Qed.

  Lemma idx_gn_g1 off r : idx_at gn (g1 off r) = gi + off.
  Proof. apply idx_at_app. Qed.

  Lemma fm_moved_B (q : path) :
    caseB -> mpre = true -> moved q = true ->
    fwd_move_node bp ba lo hi gap_path q = lfD (g1 (idx_at bn q - lo) (skipn (bn + 1) q)).
  Proof.
    intros B MP M. rewrite fm_unfold. fold (moved q). rewrite M.
    set (off := idx_at bn q - lo). set (r := skipn (bn + 1) q).
    pose proof (thru_gq_g1 off r) as TG1. pose proof (idx_gn_g1 off r) as IG1.
    rewrite lfD_spec.
    destruct (bn <=? gn) eqn:LE.
    2:{ (* the block list is deeper than the gap list *)
      assert (L : gn < bn) by lia.
      assert (F : tB (g1 off r) = false).
      { destruct (tB (g1 off r)) eqn:TB; auto. exfalso.
        destruct (both_deeper_B _ TB TG1 L) as [F N]. pose proof (over_B _ B L F N). lia. }
      rewrite F. cbn [rbind]. unfold gap_path. rewrite plast_snoc, pinit_snoc. reflexivity. }
    destruct (tB (g1 off r)) eqn:TB.
    - (* the gap path runs through the block's list behind the block: it is shifted *)
      destruct (Nat.eq_dec bn gn) as [EQ|NE].
      + destruct (both_same _ TB TG1 (eq_sym EQ)) as [E1 E2].
        pose proof (same_B B E1 E2) as HG.
        assert (IB : idx_at bn (g1 off r) = gi + off) by (rewrite EQ; exact IG1).
        rewrite IB. replace (in_range (gi + off) lo hi) with false by (unfold in_range; lia).
        replace (hi <=? gi + off) with true by lia.
        unfold b_path, gap_path. rewrite E1, E2. rewrite new_gap_path_app. simpl.
        unfold edge_eqb. simpl. rewrite attr_eqb_refl. simpl.
        replace (lo =? gi) with false by lia. simpl.
        replace (lo <? gi) with true by lia. replace (gi <? n) with false by (unfold n; lia).
        cbn [rbind]. rewrite plast_snoc, pinit_snoc. f_equal.
        unfold g1. rewrite E1, E2. rewrite set_idx_app. simpl. f_equal. f_equal. f_equal. unfold n. lia.
      + assert (L : bn < gn) by lia.
        destruct (both_deeper_G _ TB TG1 L) as [F N].
        pose proof (under_B _ B L F N) as HJ.
        set (j := idx_at bn (g1 off r)) in *.
        replace (in_range j lo hi) with false by (unfold in_range; lia).
        replace (hi <=? j) with true by lia.
        pose proof (nth_error_split_at gq bn _ N) as EG. rewrite F in EG.
        set (rest := skipn (S bn) gq) in *.
        unfold b_path, gap_path. rewrite EG. rewrite <- app_assoc. rewrite new_gap_path_app.
        simpl. unfold edge_eqb. simpl. rewrite attr_eqb_refl. simpl.
        replace (lo =? j) with false by lia. simpl.
        replace (lo <? j) with true by lia. replace (j <? n) with false by (unfold n; lia).
        cbn [rbind].
        replace (bp ++ (ba, j - n) :: rest ++ [(ga, gi)]) with ((bp ++ (ba, j - n) :: rest) ++ [(ga, gi)])
          by (rewrite <- app_assoc; reflexivity).
        rewrite plast_snoc, pinit_snoc. f_equal.
        unfold g1. rewrite EG. rewrite <- !app_assoc. rewrite <- !app_comm_cons.
        unfold bn. rewrite set_idx_app. reflexivity.
    - (* the gap path does not run through the block's list behind the block: it must stay *)
      assert (NS : nosub b_path gap_path = true).
      { unfold mpre in MP. replace (gn <? bn) with false in MP by lia.
        pose proof (fdl_spec b_path gap_path 0) as FD.
        destruct (first_diff_level b_path gap_path 0) as [[[lvl b] g]|]; auto.
        destruct FD as [c [bs' [gs' [EB [EG [LV NSE]]]]]]. rewrite NSE.
        destruct (attr_eqb (fst b) (fst g) && (snd b <? snd g)) eqn:SUB; auto. exfalso.
        rewrite orb_false_r in MP. apply Nat.eqb_eq in MP. simpl in LV.
        (* first difference at the block's level, through the same attribute, at a later index *)
        assert (Lc : length c = bn) by lia.
        assert (Ec : c = bp /\ b = (ba, lo)).
        { unfold b_path in EB. apply (f_equal (firstn bn)) in EB as EB1.
          unfold bn in EB1 at 1. rewrite firstn_app_exact in EB1. rewrite <- Lc in EB1.
          rewrite firstn_app_exact in EB1. split; auto.
          apply (f_equal (fun l => nth_error l bn)) in EB. unfold bn in EB at 1.
          rewrite nth_error_app_mid in EB. rewrite <- Lc in EB. rewrite nth_error_app_mid in EB. congruence. }
        destruct Ec as [-> ->]. destruct g as [gx gj]. simpl in SUB.
        apply andb_true_iff in SUB as [SA SJ]. apply attr_eqb_eq in SA as <-.
        assert (TB' : tB (g1 off r) = true); [|congruence].
        unfold tB, thru, g1. fold bn.
        assert (Hlen : bn <? length (gq ++ (ga, gi + off) :: r) = true).
        { apply Nat.ltb_lt. rewrite app_length. simpl. fold gn. lia. }
        rewrite Hlen.
        destruct (Nat.eq_dec bn gn) as [EQ|NE].
        * (* same level: the gap list is the block list *)
          unfold gap_path in EG.
          assert (gq = bp /\ (ga, gi) = (ba, gj)) as [E1 EE].
          { apply (f_equal (firstn gn)) in EG as E1. unfold gn in E1 at 1. rewrite firstn_app_exact in E1.
            rewrite <- EQ in E1. unfold bn in E1. rewrite firstn_app_exact in E1. split; auto.
            apply (f_equal (fun l => nth_error l gn)) in EG. unfold gn in EG at 1.
            rewrite nth_error_app_mid in EG. rewrite <- EQ in EG. unfold bn in EG.
            rewrite nth_error_app_mid in EG. congruence. }
          injection EE as E2 E3. rewrite E1, E2. unfold bn.
          rewrite firstn_app_exact, path_eqb_refl, nth_error_app_mid, attr_eqb_refl. reflexivity.
        * assert (L : bn < gn) by lia.
          unfold gap_path in EG.
          assert (F : firstn bn gq = bp).
          { apply (f_equal (firstn bn)) in EG. rewrite firstn_app in EG.
            replace (bn - length gq) with 0 in EG by (fold gn; lia). simpl in EG. rewrite app_nil_r in EG.
            unfold bn in EG at 2. rewrite firstn_app_exact in EG. exact EG. }
          assert (N : nth_error gq bn = Some (ba, gj)).
          { apply (f_equal (fun l => nth_error l bn)) in EG. rewrite nth_error_app1 in EG by (fold gn; lia).
            unfold bn in EG at 2. rewrite nth_error_app_mid in EG. exact EG. }
          rewrite firstn_app. replace (bn - length gq) with 0 by (fold gn; lia). simpl. rewrite app_nil_r.
          rewrite F, path_eqb_refl. rewrite nth_error_app1 by (fold gn; lia). rewrite N, attr_eqb_refl.
          reflexivity. }
      unfold moved in M.
      rewrite (new_gap_path_nosub _ _ n NS). cbn [rbind].
      unfold gap_path. rewrite plast_snoc, pinit_snoc. reflexivity.
  Qed.

  (** children of a node that anchors neither edited list move with their parent *)
  Lemma fm_snoc (q : path) (a : attr) (i : nat) :
    ~ (q = bp /\ a = ba) -> ~ (q = gq /\ a = ga) ->
    fwd_move_node bp ba lo hi gap_path (q ++ [(a, i)]) =
    rbind (fwd_move_node bp ba lo hi gap_path q) (fun q' => Ok (q' ++ [(a, i)])).
  Proof.
    intros NB NG. rewrite !fm_unfold.
    assert (TB : tB (q ++ [(a, i)]) = tB q).
    { unfold tB. rewrite thru_snoc. simpl. destruct (length q =? length bp) eqn:E; auto.
      apply Nat.eqb_eq in E. unfold thru. replace (length bp <? length q) with false by lia. simpl.
      destruct (path_eqb bp q) eqn:P; auto. destruct (attr_eqb ba a) eqn:Q; auto. exfalso.
      apply path_eqb_eq in P. apply attr_eqb_eq in Q. apply NB. split; congruence. }
    assert (TGt : thru gq ga (q ++ [(a, i)]) = thru gq ga q).
    { rewrite thru_snoc. simpl. destruct (length q =? length gq) eqn:E; auto.
      apply Nat.eqb_eq in E. unfold thru. replace (length gq <? length q) with false by lia. simpl.
      destruct (path_eqb gq q) eqn:P; auto. destruct (attr_eqb ga a) eqn:Q; auto. exfalso.
      apply path_eqb_eq in P. apply attr_eqb_eq in Q. apply NG. split; congruence. }
    rewrite TB.
    destruct (tB q) eqn:TBq.
    - pose proof (thru_length _ _ _ TBq) as LB. fold bn in LB.
      rewrite (idx_at_snoc q (a, i) bn LB).
      assert (TGe : tG (q ++ [(a, i)]) = tG q).
      { unfold tG. rewrite TGt. destruct (thru gq ga q) eqn:TGq; auto.
        pose proof (thru_length _ _ _ TGq) as LG. fold gn in LG. rewrite (idx_at_snoc q (a, i) gn LG). reflexivity. }
      rewrite TGe. cbn [andb].
      destruct (negb (hi <=? idx_at bn q) && (lo <=? idx_at bn q)) eqn:MV.
      + destruct (if bn <=? gn then new_gap_path b_path gap_path n else Ok gap_path) as [ngp| |]; cbn [rbind]; auto.
        destruct (plast ngp) as [[la li]|]; cbn [rbind]; auto.
        rewrite skipn_snoc by lia. rewrite <- !app_assoc. reflexivity.
      + cbn [rbind]. f_equal.
        destruct (hi <=? idx_at bn q) eqn:E.
        * rewrite (set_idx_snoc q (a, i) bn _ LB).
          destruct (tG q) eqn:TGq; auto.
          unfold tG in TGq. apply andb_true_iff in TGq as [TGq _].
          pose proof (thru_length _ _ _ TGq) as LG. fold gn in LG.
          rewrite set_idx_snoc by (rewrite set_idx_length; lia). reflexivity.
        * destruct (tG q) eqn:TGq; auto.
          unfold tG in TGq. apply andb_true_iff in TGq as [TGq _].
          pose proof (thru_length _ _ _ TGq) as LG. fold gn in LG.
          rewrite set_idx_snoc by lia. reflexivity.
    - cbn [andb rbind]. f_equal.
      assert (TGe : tG (q ++ [(a, i)]) = tG q).
      { unfold tG. rewrite TGt. destruct (thru gq ga q) eqn:TGq; auto.
        pose proof (thru_length _ _ _ TGq) as LG. fold gn in LG. rewrite (idx_at_snoc q (a, i) gn LG). reflexivity. }
      rewrite TGe. destruct (tG q) eqn:TGq; auto.
      unfold tG in TGq. apply andb_true_iff in TGq as [TGq _].
      pose proof (thru_length _ _ _ TGq) as LG. fold gn in LG.
      rewrite set_idx_snoc by lia. reflexivity.
  Qed.

  (** forwarding never fails on node paths (case A always; case B under [mpre]) *)
  Lemma lfD_g1_ok off r : caseB -> exists q', lfD (g1 off r) = Ok q'.
  Proof.
    intros B. rewrite lfD_spec.
    pose proof (thru_gq_g1 off r) as TG1. pose proof (idx_gn_g1 off r) as IG1.
    destruct (tB (g1 off r)) eqn:TB; eauto.
    assert (R : in_range (idx_at bn (g1 off r)) lo hi = false).
    { destruct (Nat.lt_trichotomy bn gn) as [L|[L|L]].
      - destruct (both_deeper_G _ TB TG1 L) as [F N]. pose proof (under_B _ B L F N). unfold in_range. lia.
      - destruct (both_same _ TB TG1 (eq_sym L)) as [E1 E2]. pose proof (same_B B E1 E2).
        rewrite L, IG1. unfold in_range. lia.
      - destruct (both_deeper_B _ TB TG1 L) as [F N]. pose proof (over_B _ B L F N). lia. }
    rewrite R. eauto.
  Qed.

  Lemma fm_total (q : path) :
    caseA \/ (caseB /\ mpre = true) -> exists q', fwd_move_node bp ba lo hi gap_path q = Ok q'.
  Proof.
    intros H. destruct (moved q) eqn:MV.
    - destruct H as [A|[B MP]].
      + rewrite (fm_moved_A q A MV). eauto.
      + rewrite (fm_moved_B q B MP MV). apply lfD_g1_ok. exact B.
    - rewrite fm_unfold. fold (moved q). rewrite MV. eauto.
  Qed.

  (** ** siblings: consecutive statements of one list stay consecutive unless the moved range or the
      gap separates them *)
  Lemma idx_at_last (q : path) b j : idx_at (length q) (q ++ [(b, j)]) = j.
  Proof. apply idx_at_app. Qed.

  Lemma set_idx_last (q : path) b j f : set_idx (q ++ [(b, j)]) (length q) f = q ++ [(b, f j)].
  Proof. apply set_idx_app. Qed.

  Lemma fm_sibling_other (q : path) (b : attr) (i : nat) :
    moved (q ++ [(b, i)]) = false -> moved (q ++ [(b, i + 1)]) = false ->
    (q = bp -> b = ba -> i + 1 < lo \/ hi <= i) ->
    (q = gq -> b = ga -> i + 1 < gi \/ gi <= i) ->
    exists (Q : path) k,
      fwd_move_node bp ba lo hi gap_path (q ++ [(b, i)]) = Ok (Q ++ [(b, k)]) /\
      fwd_move_node bp ba lo hi gap_path (q ++ [(b, i + 1)]) = Ok (Q ++ [(b, k + 1)]).
  Proof.
    intros M0 M1 SB SG. rewrite !fm_unfold. fold (moved (q ++ [(b, i)])) (moved (q ++ [(b, i + 1)])).
    rewrite M0, M1. clear M0 M1.
    (* the delete shift *)
    assert (HB : exists (Q1 : path) k1,
               length Q1 = length q /\
               (if tB (q ++ [(b, i)]) && (hi <=? idx_at bn (q ++ [(b, i)]))
                then set_idx (q ++ [(b, i)]) bn (fun x => x - n) else q ++ [(b, i)]) = Q1 ++ [(b, k1)] /\
               (if tB (q ++ [(b, i + 1)]) && (hi <=? idx_at bn (q ++ [(b, i + 1)]))
                then set_idx (q ++ [(b, i + 1)]) bn (fun x => x - n) else q ++ [(b, i + 1)]) = Q1 ++ [(b, k1 + 1)]).
    { unfold tB. rewrite !thru_snoc. cbn [fst].
      destruct (Nat.lt_trichotomy bn (length q)) as [L|[L|L]].
      - replace (length q =? length bp) with false by (fold bn; lia).
        rewrite !idx_at_snoc by lia.
        destruct (thru bp ba q && (hi <=? idx_at bn q)).
        + exists (set_idx q bn (fun x => x - n)), i. rewrite set_idx_length. split; auto.
          rewrite !set_idx_snoc by lia. split; auto.
        + exists q, i. repeat split; auto.
      - replace (length q =? length bp) with true by (fold bn; lia).
        rewrite L. rewrite !idx_at_last, !set_idx_last.
        destruct (path_eqb bp q && attr_eqb ba b) eqn:ON; cbn [andb].
        + apply andb_true_iff in ON as [E1 E2]. apply path_eqb_eq in E1. apply attr_eqb_eq in E2.
          destruct (SB (eq_sym E1) (eq_sym E2)) as [S|S].
          * replace (hi <=? i) with false by lia. replace (hi <=? i + 1) with false by lia.
            exists q, i. repeat split; auto.
          * replace (hi <=? i) with true by lia. replace (hi <=? i + 1) with true by lia.
            exists q, (i - n). split; auto. split; auto.
            replace (i + 1 - n) with (i - n + 1) by (unfold n; lia). reflexivity.
        + exists q, i. repeat split; auto.
      - replace (length q =? length bp) with false by (fold bn; lia).
        assert (F : thru bp ba q = false).
        { unfold thru. fold bn. replace (bn <? length q) with false by lia. reflexivity. }
        rewrite F. cbn [andb]. exists q, i. repeat split; auto. }
    destruct HB as [Q1 [k1 [LQ [-> ->]]]].
    (* the insert shift; its condition looks at the ORIGINAL path *)
    unfold tG. rewrite !thru_snoc. cbn [fst].
    destruct (Nat.lt_trichotomy gn (length q)) as [L|[L|L]].
    - replace (length q =? length gq) with false by (fold gn; lia).
      rewrite !idx_at_snoc by lia.
      destruct (thru gq ga q && (gi <=? idx_at gn q)).
      + exists (set_idx Q1 gn (fun x => x + n)), k1.
        rewrite !set_idx_snoc by lia. auto.
      + exists Q1, k1. auto.
    - replace (length q =? length gq) with true by (fold gn; lia).
      rewrite L. rewrite !idx_at_last.
      destruct (path_eqb gq q && attr_eqb ga b) eqn:ON; cbn [andb].
      + apply andb_true_iff in ON as [E1 E2]. apply path_eqb_eq in E1. apply attr_eqb_eq in E2.
        assert (SS : (gi <=? i) = (gi <=? i + 1)) by (destruct (SG (eq_sym E1) (eq_sym E2)); lia).
        rewrite <- SS.
        destruct (gi <=? i).
        * exists Q1, (k1 + n). rewrite <- LQ. rewrite !set_idx_last. split; auto.
          replace (k1 + 1 + n) with (k1 + n + 1) by lia. reflexivity.
        * exists Q1, k1. auto.
      + exists Q1, k1. auto.
    - replace (length q =? length gq) with false by (fold gn; lia).
      assert (F : thru gq ga q = false).
      { unfold thru. fold gn. replace (gn <? length q) with false by lia. reflexivity. }
      rewrite F. cbn [andb]. exists Q1, k1. auto.
  Qed.

  (** two consecutive statements of the moved block stay consecutive (at the gap) *)
  Lemma fm_sibling_moved (i : nat) :
    caseA \/ (caseB /\ mpre = true) ->
    moved (bp ++ [(ba, i)]) = true -> moved (bp ++ [(ba, i + 1)]) = true ->
    exists (Q : path) b' k,
      fwd_move_node bp ba lo hi gap_path (bp ++ [(ba, i)]) = Ok (Q ++ [(b', k)]) /\
      fwd_move_node bp ba lo hi gap_path (bp ++ [(ba, i + 1)]) = Ok (Q ++ [(b', k + 1)]).
  Proof.
    intros H M0 M1.
    destruct (fm_total (bp ++ [(ba, i)]) H) as [q' F].
    rewrite !fm_unfold. rewrite fm_unfold in F.
    fold (moved (bp ++ [(ba, i)])) (moved (bp ++ [(ba, i + 1)])) in *. rewrite M0 in *. rewrite M1.
    unfold bn in *. rewrite !idx_at_last in *.
    rewrite !skipn_all2 in * by (rewrite app_length; simpl; lia).
    destruct (if length bp <=? gn then new_gap_path b_path gap_path n else Ok gap_path) as [ngp| |];
      cbn [rbind] in *; try discriminate.
    destruct (plast ngp) as [[la li]|]; try discriminate.
    exists (pinit ngp), la, (li + (i - lo)). rewrite !app_nil_r. split; auto.
    unfold moved in M0. unfold bn in M0. rewrite idx_at_last in M0.
    replace (li + (i + 1 - lo)) with (li + (i - lo) + 1) by lia. reflexivity.
  Qed.
End MovePaths.
