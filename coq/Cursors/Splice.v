(** * Cursors/Splice.v — positions and slices of [firstn lo l ++ N ++ skipn hi l] *)
From Coq Require Import List Arith Bool Lia ZifyBool.
From Cursors Require Import Model Base.
Import ListNotations.

Section Splice.
  Context {A : Type}.
  Variables (l N : list A) (lo hi : nat).
  Hypothesis Hlo : lo <= hi.
  Hypothesis Hhi : hi <= length l.

  Let l1 := firstn lo l ++ N ++ skipn hi l.

  Lemma len_firstn_lo : length (firstn lo l) = lo.
  Proof. rewrite firstn_length. lia. Qed.

  Lemma splice_len : length l1 = length l + length N - (hi - lo).
  Proof. unfold l1. rewrite !app_length, len_firstn_lo, skipn_length. lia. Qed.

  Lemma nth_error_splice_before k : k < lo -> nth_error l1 k = nth_error l k.
  Proof.
    intros. unfold l1. rewrite nth_error_app1 by (rewrite len_firstn_lo; lia).
    apply nth_error_firstn'. lia.
  Qed.

  Lemma nth_error_splice_after k :
    hi <= k -> nth_error l1 (k + length N - (hi - lo)) = nth_error l k.
  Proof.
    intros. unfold l1. rewrite nth_error_app2 by (rewrite len_firstn_lo; lia).
    rewrite len_firstn_lo. rewrite nth_error_app2 by lia.
    rewrite nth_error_skipn'. f_equal. lia.
  Qed.

  Lemma nth_error_splice_new j : j < length N -> nth_error l1 (lo + j) = nth_error N j.
  Proof.
    intros. unfold l1. rewrite nth_error_app2 by (rewrite len_firstn_lo; lia).
    rewrite len_firstn_lo. rewrite nth_error_app1 by lia. f_equal. lia.
  Qed.

  Lemma slice_splice_before a b : b <= lo -> slice l1 a b = slice l a b.
  Proof.
    intros. unfold l1. rewrite slice_app_l by (rewrite len_firstn_lo; lia).
    replace (slice l a b) with (slice (firstn lo l ++ skipn lo l) a b) by (rewrite firstn_skipn; reflexivity).
    rewrite slice_app_l by (rewrite len_firstn_lo; lia).
    reflexivity.
  Qed.

  Lemma slice_splice_after a b :
    hi <= a -> slice l1 (a + length N - (hi - lo)) (b + length N - (hi - lo)) = slice l a b.
  Proof.
    intros. unfold l1. rewrite app_assoc.
    rewrite slice_app_r by (rewrite app_length, len_firstn_lo; lia).
    rewrite app_length, len_firstn_lo.
    replace (slice l a b) with (slice (firstn hi l ++ skipn hi l) a b) by (rewrite firstn_skipn; reflexivity).
    rewrite (slice_app_r (firstn hi l)) by (rewrite firstn_length; lia).
    rewrite firstn_length, Nat.min_l by lia.
    unfold slice. f_equal; [lia|]. f_equal. lia.
  Qed.

  Lemma slice_splice_over a b :
    a <= lo -> hi <= b ->
    slice l1 a (b + length N - (hi - lo)) = slice l a lo ++ N ++ slice l hi b.
  Proof.
    intros. unfold l1.
    rewrite slice_app_mid by (rewrite len_firstn_lo; lia).
    rewrite len_firstn_lo. rewrite skipn_firstn_comm. f_equal.
    rewrite firstn_app. rewrite firstn_all2 by lia. f_equal.
    unfold slice. f_equal. lia.
  Qed.
End Splice.
