(** * Cursors/Implicit.v — [Procedure.forward] (API.py:194-205): the walk along the provenance chain is the
    composition of the per-step forwarding functions; a cursor whose procedure is not on the chain is invalid. *)
From Coq Require Import List Arith Bool Lia.
From Cursors Require Import Model.
Import ListNotations.

Lemma fold_invalid fixed sts :
  fold_left (fun acc st => rbind acc (step_forward fixed st)) sts (@Invalid rcursor) = Invalid.
Proof. induction sts as [|st sts IH]; simpl; auto. Qed.

(** a cursor that already points into the target procedure is returned unchanged *)
Lemma proc_forward_self fixed chain self c : proc_forward fixed chain self (self, c) = Ok (self, c).
Proof.
  unfold proc_forward. simpl.
  destruct chain; simpl; rewrite Nat.eqb_refl; reflexivity.
Qed.

(** forwarding to a procedure = forwarding to its parent, then through the step that produced it *)
Lemma proc_forward_step fixed st rest rc :
  ps_id st <> fst rc ->
  proc_forward fixed (st :: rest) (ps_id st) rc =
  rbind (proc_forward fixed rest (ps_parent st) rc) (step_forward fixed st).
Proof.
  intros NE. unfold proc_forward. simpl.
  replace (ps_id st =? fst rc) with false by (symmetry; apply Nat.eqb_neq; exact NE).
  rewrite Nat.eqb_refl. simpl. rewrite fold_left_app. reflexivity.
Qed.

(** a cursor from a procedure that is not on the provenance chain: "cannot forward from unknown root" *)
Lemma proc_forward_foreign fixed chain self rc :
  collect chain self (fst rc) <> [] ->
  (forall st, In st (collect chain self (fst rc)) -> ps_parent st <> fst rc) ->
  proc_forward fixed chain self rc = Invalid.
Proof.
  intros NE ALL. unfold proc_forward.
  destruct (collect chain self (fst rc)) as [|s0 sts] eqn:E; [congruence|].
  assert (R : exists st0 sts', rev (s0 :: sts) = st0 :: sts' /\ In st0 (s0 :: sts)).
  { destruct (rev (s0 :: sts)) as [|st0 sts'] eqn:ER.
    - apply (f_equal (@length pstep)) in ER. rewrite rev_length in ER. discriminate.
    - exists st0, sts'. split; auto. apply in_rev. rewrite ER. left; reflexivity. }
  destruct R as [st0 [sts' [-> IN]]]. simpl.
  unfold step_forward at 2.
  replace (fst rc =? ps_parent st0) with false
    by (symmetry; apply Nat.eqb_neq; intros H; apply (ALL st0 IN); auto).
  apply fold_invalid.
Qed.
