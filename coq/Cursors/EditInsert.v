(** * Cursors/EditInsert.v — [Gap._insert] / [Gap._forward_insert] *)
From Coq Require Import List Arith Bool Lia ZifyBool.
From Cursors Require Import Model Base Spec Local Splice.
Import ListNotations.

Lemma get_single c a j : get c [(a, j)] = nth_error (kids c a) j.
Proof. cbn [get]. destruct (nth_error (kids c a) j); reflexivity. Qed.

Lemma valid_gap_inv t gp :
  valid_gapb t gp = true ->
  exists (q : path) a i n x, gp = q ++ [(a, i)] /\ get t q = Some n /\ nth_error (kids n a) i = Some x.
Proof.
  unfold valid_gapb, valid_nodeb. intros H.
  assert (Hne : gp <> []) by (intros ->; discriminate H).
  destruct (path_snoc_inv gp Hne) as [q [[a i] E]]. subst gp.
  assert (H' : match get t (q ++ [(a, i)]) with Some _ => true | None => false end = true)
    by (destruct q; exact H).
  destruct (get t (q ++ [(a, i)])) as [x|] eqn:G; [|discriminate].
  apply get_prefix in G as [n [Gq G]]. rewrite get_single in G.
  exists q, a, i, n, x. auto.
Qed.

Lemma valid_of_inb t c : inb_cursor t c -> nonempty_cursor c -> valid_cursor t c.
Proof.
  unfold inb_cursor, valid_cursor. destruct c; cbn; auto.
  unfold inb_blockb, valid_blockb. destruct (get t p); auto. intros. lia.
Qed.

Lemma inb_of_valid t c : valid_cursor t c -> inb_cursor t c.
Proof.
  unfold inb_cursor, valid_cursor. destruct c; cbn; auto.
  unfold inb_blockb, valid_blockb. destruct (get t p); auto. intros. lia.
Qed.

Lemma valid_block_inv t p a lo hi :
  valid_cursor t (CBlock p a lo hi) -> exists n, get t p = Some n /\ lo < hi /\ hi <= length (kids n a).
Proof.
  unfold valid_cursor. cbn. unfold valid_blockb. destruct (get t p) as [n|]; [|discriminate].
  intros. exists n. split; auto. lia.
Qed.

Section Insert.
  Variables (t : tree) (q : path) (a : attr) (i : nat) (s : side) (nodes : list tree) (n x : tree).
  Hypothesis Gq : get t q = Some n.
  Hypothesis Ei : nth_error (kids n a) i = Some x.

  Let gi := match s with Before => i | After => i + 1 end.
  Let k := length nodes.
  Let f := splice gi gi nodes.
  Let fn := fun j : nat => @Ok (list edge) [(a, ins_idx_update gi k j)].
  Let fb := fun l h : nat =>
              @Ok blk_edges ([], a, ins_idx_update gi k l,
                             if h =? 0 then 0 else ins_idx_update gi k (h - 1) + 1).

  Lemma gi_le : gi <= length (kids n a).
  Proof.
    assert (i < length (kids n a)) by (apply nth_error_Some; congruence).
    unfold gi. destruct s; lia.
  Qed.

  Lemma insert_nth j : nth_error (f (kids n a)) (ins_idx_update gi k j) = nth_error (kids n a) j.
  Proof.
    pose proof gi_le. unfold f, splice, ins_idx_update.
    destruct (gi <=? j) eqn:E.
    - replace (j + k) with (j + length nodes - (gi - gi)) by (unfold k; lia).
      apply nth_error_splice_after; lia.
    - apply nth_error_splice_before; lia.
  Qed.

  Lemma insert_Hn : forall n0 j y es,
      get t q = Some n0 -> nth_error (kids n0 a) j = Some y -> fn j = Ok es ->
      es <> [] /\ get (set_kids n0 a (f (kids n0 a))) es = Some y.
  Proof.
    intros n0 j y es G0 E F. rewrite Gq in G0. injection G0 as <-.
    unfold fn in F. injection F as <-. split; [discriminate|].
    rewrite get_single, kids_set_kids_same, insert_nth. exact E.
  Qed.

  Lemma insert_block l h :
    l < h -> h <= length (kids n a) ->
    let l' := ins_idx_update gi k l in
    let h' := ins_idx_update gi k (h - 1) + 1 in
    l' < h' /\ h' <= length (f (kids n a)) /\
    blk_rel [] (map lbl nodes) (map lbl (slice (kids n a) l h)) (map lbl (slice (f (kids n a)) l' h')).
  Proof.
    intros Hl Hh l' h'. pose proof gi_le as Hg.
    assert (Len : length (f (kids n a)) = length (kids n a) + k).
    { unfold f, splice. rewrite (splice_len (kids n a) nodes gi gi) by lia. unfold k. lia. }
    unfold l', h', ins_idx_update.
    destruct (gi <=? l) eqn:E1; destruct (gi <=? h - 1) eqn:E2; try lia.
    - (* block after the gap *)
      split; [lia|]. split; [lia|]. left. f_equal.
      replace (l + k) with (l + length nodes - (gi - gi)) by (unfold k; lia).
      replace (h - 1 + k + 1) with (h + length nodes - (gi - gi)) by (unfold k; lia).
      unfold f, splice. apply slice_splice_after; lia.
    - (* the gap is strictly inside the block *)
      split; [lia|]. split; [lia|]. right.
      exists (map lbl (slice (kids n a) l gi)), (map lbl (slice (kids n a) gi h)).
      split.
      + simpl. rewrite <- map_app. f_equal. apply slice_split; lia.
      + replace (h - 1 + k + 1) with (h + length nodes - (gi - gi)) by (unfold k; lia).
        unfold f, splice. rewrite slice_splice_over by lia. rewrite !map_app. reflexivity.
    - (* block before the gap *)
      split; [lia|]. split; [lia|]. left. f_equal.
      replace (h - 1 + 1) with h by lia.
      unfold f, splice. apply slice_splice_before; lia.
  Qed.

  Lemma forward_insert_unfold c :
    forward_insert (q ++ [(a, i)]) s k c = local_forward q a fn fb c.
  Proof.
    unfold forward_insert, insertion_index. rewrite plast_snoc, pinit_snoc. reflexivity.
  Qed.

  Lemma insert_sound_aux t' c c' :
    upd q a f t = Some t' -> valid_cursor t c ->
    local_forward q a fn fb c = Ok c' ->
    valid_cursor t' c' /\ same_with [] (map lbl nodes) t c t' c'.
  Proof.
    intros U V F. destruct c as [p|p b lo hi|p sd].
    - destruct (local_node_sound t q a f fn insert_Hn fb [] (map lbl nodes) t' p c' U V F) as [I S].
      split; auto. apply valid_of_inb; auto.
      cbn [local_forward] in F. destruct (lf_node q a fn p); simpl in F; try discriminate.
      injection F as <-. exact Logic.I.
    - destruct (path_eqb p q && attr_eqb b a) eqn:Sc.
      + apply andb_true_iff in Sc as [Sp Sb]. apply path_eqb_eq in Sp as ->. apply attr_eqb_eq in Sb as ->.
        destruct (valid_block_inv _ _ _ _ _ V) as [n0 [G0 [Hl Hh]]].
        rewrite Gq in G0. injection G0 as <-.
        destruct (insert_block lo hi Hl Hh) as [B1 [B2 B3]].
        assert (Hhi : (hi =? 0) = false) by (apply Nat.eqb_neq; lia).
        destruct (local_block_in_sound t q a f fn fb [] (map lbl nodes) t' n lo hi c' U Gq F) as [I S].
        { intros pre na nlo nhi Fb. unfold fb in Fb. rewrite Hhi in Fb. injection Fb as <- <- <- <-.
          exists (set_kids n a (f (kids n a))). split; [reflexivity|].
          rewrite kids_set_kids_same. split; [lia|]. split; [lia|]. exact B3. }
        split; auto. apply valid_of_inb; auto.
        cbn [local_forward] in F. rewrite path_eqb_refl, attr_eqb_refl in F. simpl in F.
        unfold fb in F. rewrite Hhi in F. simpl in F. injection F as <-. simpl. lia.
      + destruct (local_block_out_sound t q a f fn insert_Hn fb [] (map lbl nodes) t' p b lo hi c' U
                    (inb_of_valid _ _ V) Sc F) as [q' [-> [I [_ S]]]].
        split; auto. apply valid_of_inb; auto. simpl.
        destruct (valid_block_inv _ _ _ _ _ V) as [? [_ [? _]]]. lia.
    - destruct (local_gap_sound t q a f fn insert_Hn fb [] (map lbl nodes) t' p sd c' U V F) as [I S].
      split; auto. apply valid_of_inb; auto.
      cbn [local_forward] in F. destruct (lf_node q a fn p); simpl in F; try discriminate.
      injection F as <-. exact Logic.I.
  Qed.

  Lemma apply_insert_upd : gap_insert (q ++ [(a, i)]) s nodes t = upd q a f t.
  Proof.
    unfold f, gi. apply (gap_insert_upd q a i s nodes t x).
    rewrite (get_snoc _ _ _ _ _ Gq). exact Ei.
  Qed.
End Insert.

Theorem insert_sound fixed gp s nodes t t' c c' :
  valid_edit t (EInsert gp s nodes) -> apply_edit (EInsert gp s nodes) t = Some t' ->
  valid_cursor t c -> fwd_edit fixed (EInsert gp s nodes) t c = Ok c' ->
  valid_cursor t' c' /\ same_e (EInsert gp s nodes) t c t' c'.
Proof.
  intros VE AP VC FW. unfold valid_edit in VE. cbn in VE.
  destruct (valid_gap_inv _ _ VE) as [q [a [i [n [x [-> [Gq Ei]]]]]]].
  assert (AP' : gap_insert (q ++ [(a, i)]) s nodes t = Some t') by exact AP.
  pose proof (apply_insert_upd t q a i s nodes n x Gq Ei) as E1. cbv zeta in E1. rewrite E1 in AP'.
  assert (FW' : forward_insert (q ++ [(a, i)]) s (length nodes) c = Ok c') by exact FW.
  pose proof (forward_insert_unfold q a i s nodes c) as E2. cbv zeta in E2. rewrite E2 in FW'.
  unfold same_e. cbn [edit_del edit_new].
  exact (insert_sound_aux t q a i s nodes n x Gq Ei t' c c' AP' VC FW').
Qed.

(** forwarding through an insertion never fails *)
Theorem insert_complete fixed gp s nodes t c :
  valid_edit t (EInsert gp s nodes) -> exists c', fwd_edit fixed (EInsert gp s nodes) t c = Ok c'.
Proof.
  intros VE. unfold valid_edit in VE. cbn in VE.
  destruct (valid_gap_inv _ _ VE) as [q [a [i [n [x [-> [Gq Ei]]]]]]].
  change (exists c', forward_insert (q ++ [(a, i)]) s (length nodes) c = Ok c').
  pose proof (forward_insert_unfold q a i s nodes c) as E2. cbv zeta in E2. rewrite E2. clear E2.
  assert (N : forall p, exists p', lf_node q a (fun j : nat => @Ok (list edge)
             [(a, ins_idx_update (match s with Before => i | After => i + 1 end) (length nodes) j)]) p = Ok p').
  { intros p. unfold lf_node. destruct (length p <? length q + 1); eauto.
    destruct (nth_error p (length q)) as [[oa oi]|]; eauto.
    destruct (negb _); simpl; eauto. }
  destruct c as [p|p b lo hi|p sd]; cbn [local_forward].
  - destruct (N p) as [p' ->]. simpl. eauto.
  - destruct (path_eqb p q && attr_eqb b a); simpl; eauto.
    destruct (N p) as [p' ->]. simpl. eauto.
  - destruct (N p) as [p' ->]. simpl. eauto.
Qed.

Example insert_sound_example :
  let t := T 0 [T 1 [] []; T 2 [T 3 [] []] []] [] in
  let e := EInsert [(Body, 1)] Before [T 7 [] []] in let c := CGap [(Body, 1); (Body, 0)] After in
  valid_edit t e /\ valid_cursor t c /\
  exists t' c', apply_edit e t = Some t' /\ fwd_edit code_now e t c = Ok c'.
Proof. vm_compute. repeat split; eauto. Qed.
