(** * Cursors/Local.v — generic soundness of [Cursor._local_forward] for an edit that rewrites ONE child
    list (p, a) by a list function [f]. *)
From Coq Require Import List Arith Bool Lia ZifyBool.
From Cursors Require Import Model Base Spec.
Import ListNotations.

Lemma firstn_app_exact {A} (xs ys : list A) : firstn (length xs) (xs ++ ys) = xs.
Proof. rewrite firstn_app, Nat.sub_diag, firstn_all. simpl. apply app_nil_r. Qed.

Lemma skipn_app_exact {A} (xs ys : list A) : skipn (length xs) (xs ++ ys) = ys.
Proof. rewrite skipn_app, skipn_all, Nat.sub_diag. reflexivity. Qed.

Lemma lf_node_through p a fn i r :
  lf_node p a fn (p ++ (a, i) :: r) = rbind (fn i) (fun es => Ok (p ++ es ++ r)).
Proof.
  unfold lf_node.
  assert (L : length (p ++ (a, i) :: r) <? length p + 1 = false)
    by (rewrite app_length; simpl; apply Nat.ltb_ge; lia).
  rewrite L. rewrite nth_error_app_mid.
  assert (S : starts_with (p ++ (a, i) :: r) p = true) by (apply starts_with_spec; eauto).
  rewrite S, attr_eqb_refl. simpl.
  rewrite firstn_app_exact.
  replace (length p + 1) with (length (p ++ [(a, i)])) by (rewrite app_length; reflexivity).
  replace (p ++ (a, i) :: r) with ((p ++ [(a, i)]) ++ r) by (rewrite <- app_assoc; reflexivity).
  rewrite skipn_app_exact. reflexivity.
Qed.

Lemma lf_node_not_through p a fn q : ~ through p a q -> lf_node p a fn q = Ok q.
Proof.
  intros NT. unfold lf_node.
  destruct (length q <? length p + 1) eqn:L; auto.
  destruct (nth_error q (length p)) as [[oa oi]|] eqn:E; auto.
  destruct (starts_with q p && attr_eqb oa a) eqn:C; auto.
  exfalso. apply NT.
  apply andb_true_iff in C as [S A]. apply attr_eqb_eq in A as ->.
  apply starts_with_spec in S as [r ->].
  rewrite nth_error_app2 in E by lia. rewrite Nat.sub_diag in E.
  destruct r as [|e r]; [discriminate|]. simpl in E. injection E as ->.
  exists oi, r. reflexivity.
Qed.

Lemma through_dec p a q : {ir : nat * path | q = p ++ (a, fst ir) :: snd ir} + {~ through p a q}.
Proof.
  destruct (starts_with q p) eqn:S.
  - assert (H : exists r, q = p ++ r) by (apply starts_with_spec; auto).
    assert (Hq : q = p ++ skipn (length p) q).
    { destruct H as [r ->]. rewrite skipn_app_exact. reflexivity. }
    destruct (skipn (length p) q) as [|[b i] r] eqn:Er.
    + right. intros [i [r' ->]]. rewrite skipn_app_exact in Er. discriminate.
    + destruct (attr_eqb b a) eqn:Eb.
      * apply attr_eqb_eq in Eb as ->. left. exists (i, r). exact Hq.
      * right. intros [i' [r' ->]]. rewrite skipn_app_exact in Er. injection Er as -> _ _.
        rewrite attr_eqb_refl in Eb. discriminate.
  - right. intros [i [r E]]. subst q.
    assert (H : starts_with (p ++ (a, i) :: r) p = true) by (apply starts_with_spec; eauto).
    exact (eq_true_false_abs _ H S).
Qed.

Section Local.
  Variables (t : tree) (p : path) (a : attr) (f : list tree -> list tree) (fn : nat -> res (list edge)).

  (** the node function sends a surviving child to the place where that very subtree now lives *)
  Hypothesis Hn : forall n i x es,
      get t p = Some n -> nth_error (kids n a) i = Some x -> fn i = Ok es ->
      es <> [] /\ get (set_kids n a (f (kids n a))) es = Some x.

  Lemma lf_node_sound t' q x q' :
    upd p a f t = Some t' -> get t q = Some x -> lf_node p a fn q = Ok q' ->
    exists x', get t' q' = Some x' /\ lbl x' = lbl x /\
               (q = [] <-> q' = []) /\
               (forall b, (q, b) <> (p, a) -> map lbl (kids x' b) = map lbl (kids x b)).
  Proof.
    intros U G F.
    destruct (through_dec p a q) as [[[i r] E]|NT]; [simpl in E|].
    - subst q. rewrite lf_node_through in F.
      destruct (fn i) as [es| |] eqn:Fi; simpl in F; try discriminate. injection F as <-.
      apply get_prefix in G as [n [Gp G]].
      cbn [get] in G. destruct (nth_error (kids n a) i) as [c|] eqn:Ec; [|discriminate].
      destruct (Hn n i c es Gp Ec Fi) as [Hne Hes].
      exists x. split.
      + rewrite (get_upd_through _ _ _ _ _ _ _ U Gp).
        rewrite (get_app_some _ _ _ _ Hes). exact G.
      + split; auto. split; auto.
        split; intros H; exfalso.
        * destruct p; discriminate.
        * destruct p; [|discriminate]. destruct es; [congruence|discriminate].
    - rewrite (lf_node_not_through _ _ _ _ NT) in F. injection F as <-.
      destruct (get_upd_unchanged _ _ _ _ _ _ _ U NT G) as [x' [G' [L K]]].
      exists x'. repeat split; auto.
  Qed.

  (** node and gap cursors *)
  Lemma local_node_sound fb del new t' q c' :
    upd p a f t = Some t' -> valid_cursor t (CNode q) ->
    local_forward p a fn fb (CNode q) = Ok c' ->
    inb_cursor t' c' /\ same_with del new t (CNode q) t' c'.
  Proof.
    intros U V F. unfold valid_cursor in V. cbn in V. unfold valid_nodeb in V.
    destruct (get t q) as [x|] eqn:G; [|discriminate].
    cbn [local_forward] in F.
    destruct (lf_node p a fn q) as [q'| |] eqn:L; simpl in F; try discriminate. injection F as <-.
    destruct (lf_node_sound _ _ _ _ U G L) as [x' [G' [Lb _]]].
    split.
    - unfold inb_cursor. cbn. unfold valid_nodeb. rewrite G'. reflexivity.
    - cbn. exists (lbl x). unfold node_label. rewrite G, G'. simpl. rewrite Lb. auto.
  Qed.

  Lemma local_gap_sound fb del new t' q s c' :
    upd p a f t = Some t' -> valid_cursor t (CGap q s) ->
    local_forward p a fn fb (CGap q s) = Ok c' ->
    inb_cursor t' c' /\ same_with del new t (CGap q s) t' c'.
  Proof.
    intros U V F. unfold valid_cursor in V. cbn in V. unfold valid_gapb, valid_nodeb in V.
    destruct q as [|e q0]; [discriminate|]. remember (e :: q0) as q.
    destruct (get t q) as [x|] eqn:G; [|discriminate].
    cbn [local_forward] in F.
    destruct (lf_node p a fn q) as [q'| |] eqn:L; simpl in F; try discriminate. injection F as <-.
    destruct (lf_node_sound _ _ _ _ U G L) as [x' [G' [Lb [Hnil _]]]].
    split.
    - unfold inb_cursor. cbn. unfold valid_gapb, valid_nodeb.
      destruct q' as [|e' q'']; [exfalso; destruct Hnil as [_ H]; specialize (H eq_refl); subst; discriminate|].
      rewrite G'. reflexivity.
    - cbn. split; auto. exists (lbl x). unfold node_label. rewrite G, G'. simpl. rewrite Lb. auto.
  Qed.

  (** block cursors that are NOT on the edited list: the anchor is forwarded, the range is kept,
      the label list is unchanged *)
  Lemma local_block_out_sound fb del new t' q b lo hi c' :
    upd p a f t = Some t' -> inb_cursor t (CBlock q b lo hi) ->
    path_eqb q p && attr_eqb b a = false ->
    local_forward p a fn fb (CBlock q b lo hi) = Ok c' ->
    exists q', c' = CBlock q' b lo hi /\ inb_cursor t' c' /\
               block_labels t' q' b lo hi = block_labels t q b lo hi /\
               same_with del new t (CBlock q b lo hi) t' c'.
  Proof.
    intros U V S F. unfold inb_cursor in V. cbn in V. unfold inb_blockb in V.
    destruct (get t q) as [x|] eqn:G; [|discriminate].
    cbn [local_forward] in F. rewrite S in F.
    destruct (lf_node p a fn q) as [q'| |] eqn:L; simpl in F; try discriminate. injection F as <-.
    destruct (lf_node_sound _ _ _ _ U G L) as [x' [G' [Lb [_ K]]]].
    assert (NE : (q, b) <> (p, a)).
    { intros H. injection H as -> ->. rewrite path_eqb_refl, attr_eqb_refl in S. discriminate. }
    specialize (K b NE).
    assert (Hlen : length (kids x' b) = length (kids x b)).
    { rewrite <- (map_length lbl (kids x' b)), K, map_length. reflexivity. }
    assert (BL : block_labels t' q' b lo hi = block_labels t q b lo hi).
    { unfold block_labels. rewrite G, G'. f_equal. unfold slice.
      rewrite <- !firstn_map, <- !skipn_map, K. reflexivity. }
    exists q'. split; auto. split; [|split; auto].
    - unfold inb_cursor. cbn. unfold inb_blockb. rewrite G', Hlen. exact V.
    - cbn. rewrite BL. unfold block_labels. rewrite G. eexists _, _. split; [reflexivity|].
      split; [reflexivity|]. left; reflexivity.
  Qed.

  (** block cursors ON the edited list: reduced to a statement about the two child lists *)
  Lemma local_block_in_sound fb del new t' n lo hi c' :
    upd p a f t = Some t' -> get t p = Some n ->
    local_forward p a fn fb (CBlock p a lo hi) = Ok c' ->
    (forall pre na nlo nhi, fb lo hi = Ok (pre, na, nlo, nhi) ->
       exists m, get (set_kids n a (f (kids n a))) pre = Some m /\
                 nlo <= nhi /\ nhi <= length (kids m na) /\
                 blk_rel del new (map lbl (slice (kids n a) lo hi)) (map lbl (slice (kids m na) nlo nhi))) ->
    inb_cursor t' c' /\ same_with del new t (CBlock p a lo hi) t' c'.
  Proof.
    intros U G F H. cbn [local_forward] in F. rewrite path_eqb_refl, attr_eqb_refl in F. simpl in F.
    destruct (fb lo hi) as [[[[pre na] nlo] nhi]| |] eqn:Fb; simpl in F; try discriminate.
    injection F as <-.
    destruct (H _ _ _ _ eq_refl) as [m [Gm [H1 [H2 R]]]].
    assert (G' : get t' (p ++ pre) = Some m).
    { rewrite (get_upd_through _ _ _ _ _ _ _ U G). exact Gm. }
    split.
    - unfold inb_cursor. cbn. unfold inb_blockb. rewrite G'. lia.
    - cbn. unfold block_labels. rewrite G, G'. eexists _, _. split; [reflexivity|]. split; [reflexivity|].
      exact R.
  Qed.
End Local.
