(** * Cursors/Spec.v — the vocabulary of the C06 theorems: validity of cursors/edits and
    "denotes the same statement(s)". Definitions only. *)
From Coq Require Import List Arith Bool.
From Cursors Require Import Model.
Import ListNotations.

Definition valid_cursor (t : tree) (c : cursor) : Prop := valid_cursorb t c = true.
(** in bounds (blocks possibly empty): "not a dangling location" *)
Definition inb_cursor (t : tree) (c : cursor) : Prop := inb_cursorb t c = true.
Definition valid_edit (t : tree) (e : edit) : Prop := valid_editb t e = true.
Definition move_pre (e : edit) : Prop := move_preb e = true.

Definition nonempty_cursor (c : cursor) : Prop :=
  match c with CBlock _ _ lo hi => lo < hi | _ => True end.

(** [L'] is [L], or [L] with the statements removed by the edit ([del]) replaced by the statements the
    edit put in their place ([new]) *)
Definition blk_rel (del new L L' : list nat) : Prop :=
  L' = L \/ exists pre post, L = pre ++ del ++ post /\ L' = pre ++ new ++ post.

Definition same_with (del new : list nat) (t : tree) (c : cursor) (t' : tree) (c' : cursor) : Prop :=
  match c, c' with
  | CNode p, CNode p' => exists l, node_label t p = Some l /\ node_label t' p' = Some l
  | CGap p s, CGap p' s' => s = s' /\ exists l, node_label t p = Some l /\ node_label t' p' = Some l
  | CBlock p a lo hi, CBlock p' a' lo' hi' =>
      exists L L', block_labels t p a lo hi = Some L /\ block_labels t' p' a' lo' hi' = Some L' /\
                   blk_rel del new L L'
  | _, _ => False
  end.

(** strict: nodes: same label; gaps: same anchor label and side; blocks: the label lists coincide *)
Definition same (t : tree) (c : cursor) (t' : tree) (c' : cursor) : Prop := same_with [] [] t c t' c'.

(** labels removed / put in place by a local edit *)
Definition edit_del (e : edit) (t : tree) : list nat :=
  match e with
  | EReplace p a lo hi _ | EDelete p a lo hi _ | EWrap p a lo hi _ _ _ =>
      match block_labels t p a lo hi with Some L => L | None => [] end
  | _ => []
  end.

Definition edit_new (e : edit) : list nat :=
  match e with
  | EReplace _ _ _ _ nodes => map lbl nodes
  | EInsert _ _ nodes => map lbl nodes
  | EWrap _ _ _ _ wl _ _ => [wl]
  | _ => []
  end.

(** same statements modulo the edit itself (only block cursors that enclose the edited range differ
    from [same]) *)
Definition same_e (e : edit) (t : tree) (c : cursor) (t' : tree) (c' : cursor) : Prop :=
  same_with (edit_del e t) (edit_new e) t c t' c'.

(** the cursor is not "cut" by the edit: where forwarding may report InvalidCursorError *)
Definition under_range (p : path) (a : attr) (lo hi : nat) (q : path) : bool :=
  (length p <? length q) && path_eqb (firstn (length p) q) p &&
  match nth_error q (length p) with
  | Some (b, i) => attr_eqb b a && in_range i lo hi
  | None => false
  end.

Definition cut_by (p : path) (a : attr) (lo hi : nat) (c : cursor) : bool :=
  match c with
  | CNode q | CGap q _ => under_range p a lo hi q
  | CBlock q b l h =>
      if path_eqb q p && attr_eqb b a then intersects_partially l h lo hi || is_sub_range l h lo hi
      else under_range p a lo hi q
  end.

(** [wrap_pre]: excludes the block cursors for which the CURRENT [_forward_wrap.fwd_block] is wrong:
    a block on the wrapped list, inside the wrapped range, that does not start at the range's start
    (the code returns [(attr, blk_rng.start)] where [(attr, rng.start)] is meant).  With the repaired
    code ([fixed = true]) nothing is excluded. *)
Definition wrap_preb (fixed : variant) (e : edit) (c : cursor) : bool :=
  match e, c with
  | EWrap p a lo hi _ _ _, CBlock q b bl bh =>
      wrap_fixed fixed || negb (path_eqb q p && attr_eqb b a && (lo <? bl) && (bl <? hi) && (bh <=? hi))
  | _, _ => true
  end.
Definition wrap_pre (fixed : variant) (e : edit) (c : cursor) : Prop := wrap_preb fixed e c = true.

(** [move_blk_okb]: a block cursor on the source list is disjoint from the moved range or inside it, and a
    block cursor on the target list does not have the gap strictly inside *)
Definition move_blk_okb (e : edit) (c : cursor) : bool :=
  match e, c with
  | EMove p a lo hi gp0 s0 _, CBlock q b l h =>
      let '(gp, s) := move_target p a lo hi gp0 s0 in
      match gap_path_of gp s with
      | None => false
      | Some gpath =>
          match plast gpath with
          | None => false
          | Some (ga, gi) =>
              (negb (path_eqb q p && attr_eqb b a) || (h <=? lo) || (hi <=? l) || ((lo <=? l) && (h <=? hi))) &&
              (negb (path_eqb q (pinit gpath) && attr_eqb b ga) || (gi <=? l) || (h <=? gi))
          end
      end
  | _, _ => true
  end.


(** executable side condition of one forwarding step (the Prop [edit_ok] of Chain.v), used by the harness to
    check the theorems' conclusions on the REAL forwarding results *)
Definition edit_okb (fixed : variant) (e : edit) (c : cursor) : bool :=
  match e with
  | EWrap _ _ _ _ _ _ _ => wrap_preb fixed e c
  | EMove _ _ lo hi _ _ _ => move_preb e && (lo <? hi) && move_blk_okb e c
  | _ => true
  end.
