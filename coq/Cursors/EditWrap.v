(** * Cursors/EditWrap.v — [Block._wrap] / [Block._forward_wrap] *)
From Coq Require Import List Arith Bool Lia ZifyBool.
From Cursors Require Import Model Base Spec Local Splice EditInsert EditReplace.
Import ListNotations.

Lemma slice_slice {A} (l : list A) lo hi a b :
  lo + b <= hi -> slice (slice l lo hi) a b = slice l (lo + a) (lo + b).
Proof.
  intros. unfold slice. rewrite skipn_firstn_comm, firstn_firstn, skipn_skipn'.
  f_equal; [lia|]. f_equal. lia.
Qed.

Lemma kids_mk_wrapper wl wa other nodes : kids (mk_wrapper wl wa other nodes) wa = nodes.
Proof. destruct wa; reflexivity. Qed.

Lemma lbl_mk_wrapper wl wa other nodes : lbl (mk_wrapper wl wa other nodes) = wl.
Proof. destruct wa; reflexivity. Qed.

Section Wrap.
  Variables (fixed : variant) (t : tree) (p : path) (a : attr) (lo hi wl : nat) (wa : attr)
            (other : list tree) (n : tree).
  Hypothesis Gp : get t p = Some n.
  Hypothesis Hlo : lo < hi.
  Hypothesis Hhi : hi <= length (kids n a).

  Let W := mk_wrapper wl wa other (slice (kids n a) lo hi).
  Let f := splice lo hi [W].
  Let nd := (hi - lo) - 1.
  Let fn := fun i : nat =>
              if hi <=? i then @Ok (list edge) [(a, i - nd)]
              else if lo <=? i then Ok [(a, lo); (wa, i - lo)]
              else Ok [(a, i)].
  Let fb := fun bl bh : nat =>
       if hi <=? bl then @Ok blk_edges ([], a, bl - nd, bh - nd)
       else if bh <=? lo then Ok ([], a, bl, bh)
       else if in_range bl lo hi && in_range (bh - 1) lo hi then
         Ok ([(a, wrap_inner_anchor_idx fixed bl lo)], wa, bl - lo, bh - lo)
       else if in_range lo bl bh && in_range (hi - 1) bl bh then
         Ok ([], a, bl, (bh + 1) - (hi - lo))
       else Invalid.

  Lemma wrap_len : length (f (kids n a)) = length (kids n a) + 1 - (hi - lo).
  Proof. unfold f, splice. rewrite (splice_len (kids n a) [W] lo hi) by lia. reflexivity. Qed.

  Lemma wrap_nth_W : nth_error (f (kids n a)) lo = Some W.
  Proof.
    unfold f, splice. replace lo with (lo + 0) at 2 by lia.
    rewrite (nth_error_splice_new (kids n a) [W] lo hi) by (simpl; lia). reflexivity.
  Qed.

  Lemma wrap_Hn : forall n0 j y es,
      get t p = Some n0 -> nth_error (kids n0 a) j = Some y -> fn j = Ok es ->
      es <> [] /\ get (set_kids n0 a (f (kids n0 a))) es = Some y.
  Proof.
    intros n0 j y es G0 E F. rewrite Gp in G0. injection G0 as <-.
    unfold fn in F.
    destruct (hi <=? j) eqn:E1; [|destruct (lo <=? j) eqn:E2]; injection F as <-;
      (split; [discriminate|]).
    - rewrite get_single, kids_set_kids_same. unfold f, splice.
      replace (j - nd) with (j + length [W] - (hi - lo)) by (unfold nd; simpl; lia).
      rewrite nth_error_splice_after by lia. exact E.
    - cbn [get]. rewrite kids_set_kids_same, wrap_nth_W.
      unfold W. rewrite kids_mk_wrapper.
      rewrite nth_error_slice by lia. replace (lo + (j - lo)) with j by lia. rewrite E. reflexivity.
    - rewrite get_single, kids_set_kids_same. unfold f, splice.
      rewrite nth_error_splice_before by lia. exact E.
  Qed.

  Lemma wrap_block bl bh pre na nlo nhi :
    bl < bh -> bh <= length (kids n a) ->
    (wrap_fixed fixed = true \/ ~ (lo < bl /\ bl < hi /\ bh <= hi)) ->
    fb bl bh = Ok (pre, na, nlo, nhi) ->
    exists m, get (set_kids n a (f (kids n a))) pre = Some m /\
              nlo < nhi /\ nhi <= length (kids m na) /\
              blk_rel (map lbl (slice (kids n a) lo hi)) [wl]
                      (map lbl (slice (kids n a) bl bh)) (map lbl (slice (kids m na) nlo nhi)).
  Proof.
    intros Hl Hh PRE F. unfold fb in F. pose proof wrap_len as Len.
    destruct (hi <=? bl) eqn:E1.
    { injection F as <- <- <- <-. exists (set_kids n a (f (kids n a))). split; [reflexivity|].
      rewrite kids_set_kids_same. split; [unfold nd; lia|]. split; [unfold nd; lia|]. left. f_equal.
      replace (bl - nd) with (bl + length [W] - (hi - lo)) by (unfold nd; simpl; lia).
      replace (bh - nd) with (bh + length [W] - (hi - lo)) by (unfold nd; simpl; lia).
      unfold f, splice. apply slice_splice_after; lia. }
    destruct (bh <=? lo) eqn:E2.
    { injection F as <- <- <- <-. exists (set_kids n a (f (kids n a))). split; [reflexivity|].
      rewrite kids_set_kids_same. split; [lia|]. split; [lia|]. left. f_equal.
      unfold f, splice. apply slice_splice_before; lia. }
    destruct (in_range bl lo hi && in_range (bh - 1) lo hi) eqn:E3.
    { injection F as <- <- <- <-. unfold in_range in E3.
      assert (IX : wrap_inner_anchor_idx fixed bl lo = lo).
      { unfold wrap_inner_anchor_idx. destruct (wrap_fixed fixed); auto. destruct PRE as [?|PRE]; [discriminate|]. lia. }
      rewrite IX. exists W. split.
      - rewrite get_single, kids_set_kids_same. apply wrap_nth_W.
      - unfold W. rewrite kids_mk_wrapper. rewrite slice_length by lia.
        split; [lia|]. split; [lia|]. left. f_equal.
        rewrite slice_slice by lia. f_equal; lia. }
    destruct (in_range lo bl bh && in_range (hi - 1) bl bh) eqn:E4; [|discriminate].
    injection F as <- <- <- <-. unfold in_range in E3, E4.
    exists (set_kids n a (f (kids n a))). split; [reflexivity|].
    rewrite kids_set_kids_same. split; [lia|]. split; [lia|]. right.
    exists (map lbl (slice (kids n a) bl lo)), (map lbl (slice (kids n a) hi bh)). split.
    - rewrite <- !map_app. f_equal.
      rewrite (slice_split (kids n a) bl lo bh) by lia. f_equal. apply slice_split; lia.
    - replace (bh + 1 - (hi - lo)) with (bh + length [W] - (hi - lo)) by (simpl; lia).
      unfold f, splice. rewrite slice_splice_over by lia. rewrite !map_app. simpl.
      unfold W. rewrite lbl_mk_wrapper. reflexivity.
  Qed.

  Lemma wrap_sound_aux t' c c' :
    upd p a f t = Some t' -> valid_cursor t c ->
    wrap_pre fixed (EWrap p a lo hi wl wa other) c ->
    local_forward p a fn fb c = Ok c' ->
    valid_cursor t' c' /\ same_with (map lbl (slice (kids n a) lo hi)) [wl] t c t' c'.
  Proof.
    intros U V PRE F. destruct c as [q|q b l h|q sd].
    - destruct (local_node_sound t p a f fn wrap_Hn fb (map lbl (slice (kids n a) lo hi)) [wl] t' q c' U V F)
        as [I S].
      split; auto. apply valid_of_inb; auto.
      cbn [local_forward] in F. destruct (lf_node p a fn q); simpl in F; try discriminate.
      injection F as <-. exact Logic.I.
    - destruct (path_eqb q p && attr_eqb b a) eqn:Sc.
      + apply andb_true_iff in Sc as [Sp Sb]. apply path_eqb_eq in Sp as ->. apply attr_eqb_eq in Sb as ->.
        destruct (valid_block_inv _ _ _ _ _ V) as [n0 [G0 [Hl Hh]]].
        rewrite Gp in G0. injection G0 as <-.
        assert (PRE' : wrap_fixed fixed = true \/ ~ (lo < l /\ l < hi /\ h <= hi)).
        { unfold wrap_pre, wrap_preb in PRE. rewrite path_eqb_refl, attr_eqb_refl in PRE.
          destruct (wrap_fixed fixed); [left; reflexivity|right]. simpl in PRE. lia. }
        assert (F0 := F). cbn [local_forward] in F0. rewrite path_eqb_refl, attr_eqb_refl in F0. simpl in F0.
        destruct (fb l h) as [[[[pre na] nlo] nhi]| |] eqn:Fb; simpl in F0; try discriminate.
        injection F0 as <-.
        destruct (wrap_block l h pre na nlo nhi Hl Hh PRE' Fb) as [m [Gm [B1 [B2 B3]]]].
        destruct (local_block_in_sound t p a f fn fb (map lbl (slice (kids n a) lo hi)) [wl] t' n l h _ U Gp F)
          as [I S].
        { intros pre' na' nlo' nhi' Fb'. rewrite Fb in Fb'. injection Fb' as <- <- <- <-.
          exists m. split; auto. split; [lia|]. split; auto. }
        split; auto. apply valid_of_inb; [exact I | simpl; lia].
      + destruct (local_block_out_sound t p a f fn wrap_Hn fb
                    (map lbl (slice (kids n a) lo hi)) [wl] t' q b l h c' U
                    (inb_of_valid _ _ V) Sc F) as [q' [-> [I [_ S]]]].
        split; auto. apply valid_of_inb; auto. simpl.
        destruct (valid_block_inv _ _ _ _ _ V) as [? [_ [? _]]]. lia.
    - destruct (local_gap_sound t p a f fn wrap_Hn fb (map lbl (slice (kids n a) lo hi)) [wl] t' q sd c' U V F)
        as [I S].
      split; auto. apply valid_of_inb; auto.
      cbn [local_forward] in F. destruct (lf_node p a fn q); simpl in F; try discriminate.
      injection F as <-. exact Logic.I.
  Qed.

  Lemma block_wrap_upd : block_wrap p a lo hi wl wa other t = upd p a f t.
  Proof.
    unfold block_wrap, resolve_all. rewrite Gp. fold W.
    apply (rewrite_root_upd p a f t).
  Qed.

  (** completeness: only block cursors that overlap the wrapped range partially are invalidated *)
  Lemma wrap_lf_ok q : exists q', lf_node p a fn q = Ok q'.
  Proof.
    unfold lf_node. destruct (length q <? length p + 1); eauto.
    destruct (nth_error q (length p)) as [[oa oi]|]; eauto.
    destruct (negb _); eauto. unfold fn.
    destruct (hi <=? oi); simpl; eauto. destruct (lo <=? oi); simpl; eauto.
  Qed.

  Lemma wrap_complete_aux c :
    match c with
    | CBlock q b l h => path_eqb q p && attr_eqb b a && (l <? h) = true ->
                        intersects_partially l h lo hi = false
    | _ => True
    end ->
    exists c', local_forward p a fn fb c = Ok c'.
  Proof.
    intros NC. destruct c as [q|q b l h|q sd]; cbn [local_forward].
    - destruct (wrap_lf_ok q) as [q' ->]. simpl. eauto.
    - destruct (path_eqb q p && attr_eqb b a) eqn:Sc.
      + unfold fb.
        destruct (hi <=? l) eqn:E1; simpl; eauto.
        destruct (h <=? lo) eqn:E2; simpl; eauto.
        destruct (in_range l lo hi && in_range (h - 1) lo hi) eqn:E3; simpl; eauto.
        destruct (in_range lo l h && in_range (hi - 1) l h) eqn:E4; simpl; eauto.
        exfalso. simpl in NC. unfold in_range, intersects_partially in *.
        destruct (l <? h) eqn:E5; [specialize (NC eq_refl)|]; lia.
      + destruct (wrap_lf_ok q) as [q' ->]. simpl. eauto.
    - destruct (wrap_lf_ok q) as [q' ->]. simpl. eauto.
  Qed.
End Wrap.

Theorem wrap_sound fixed p a lo hi wl wa other t t' c c' :
  valid_edit t (EWrap p a lo hi wl wa other) -> apply_edit (EWrap p a lo hi wl wa other) t = Some t' ->
  valid_cursor t c -> wrap_pre fixed (EWrap p a lo hi wl wa other) c ->
  fwd_edit fixed (EWrap p a lo hi wl wa other) t c = Ok c' ->
  valid_cursor t' c' /\ same_e (EWrap p a lo hi wl wa other) t c t' c'.
Proof.
  intros VE AP VC PRE FW.
  destruct (valid_block_inv t p a lo hi VE) as [n [Gp [Hlo Hhi]]].
  assert (AP' : block_wrap p a lo hi wl wa other t = Some t') by exact AP.
  pose proof (block_wrap_upd t p a lo hi wl wa other n Gp) as E1. cbv zeta in E1.
  rewrite E1 in AP'.
  assert (FW' : forward_wrap fixed p a lo hi wa c = Ok c') by exact FW.
  unfold same_e. cbn [edit_del edit_new]. rewrite (block_labels_at _ _ _ _ _ _ Gp).
  exact (wrap_sound_aux fixed t p a lo hi wl wa other n Gp Hlo Hhi t' c c' AP' VC PRE FW').
Qed.

(** the repaired [fwd_block]: full strength *)
Corollary wrap_sound_fixed v p a lo hi wl wa other t t' c c' :
  wrap_fixed v = true ->
  valid_edit t (EWrap p a lo hi wl wa other) -> apply_edit (EWrap p a lo hi wl wa other) t = Some t' ->
  valid_cursor t c ->
  fwd_edit v (EWrap p a lo hi wl wa other) t c = Ok c' ->
  valid_cursor t' c' /\ same_e (EWrap p a lo hi wl wa other) t c t' c'.
Proof.
  intros WF VE AP VC FW. apply (wrap_sound v p a lo hi wl wa other t t' c c'); auto.
  unfold wrap_pre, wrap_preb. rewrite WF. destruct c; reflexivity.
Qed.

(** completeness: only block cursors that overlap the wrapped range partially are invalidated *)
Theorem wrap_complete fixed p a lo hi wl wa other t c :
  valid_edit t (EWrap p a lo hi wl wa other) ->
  match c with
  | CBlock q b l h => path_eqb q p && attr_eqb b a && (l <? h) = true -> intersects_partially l h lo hi = false
  | _ => True
  end ->
  exists c', fwd_edit fixed (EWrap p a lo hi wl wa other) t c = Ok c'.
Proof.
  intros VE NC.
  destruct (valid_block_inv t p a lo hi VE) as [n [Gp [Hlo Hhi]]].
  eapply wrap_complete_aux; eauto.
Qed.

(** the defect of the current code: a witness *)
Definition wrap_cex_tree : tree := T 0 [T 1 [] []; T 2 [] []; T 3 [] []] [].
Definition wrap_cex_edit : edit := EWrap [] Body 0 3 9 Body [].
Definition wrap_cex_cursor : cursor := CBlock [] Body 1 2.

Lemma wrap_refuted :
  exists t e c t' c',
    valid_edit t e /\ apply_edit e t = Some t' /\ valid_cursor t c /\
    fwd_edit code_as_found e t c = Ok c' /\ ~ inb_cursor t' c'.
Proof.
  exists wrap_cex_tree, wrap_cex_edit, wrap_cex_cursor.
  eexists. eexists.
  split; [vm_compute; reflexivity|].
  split; [vm_compute; reflexivity|].
  split; [vm_compute; reflexivity|].
  split; [vm_compute; reflexivity|].
  vm_compute. discriminate.
Qed.

(** hypotheses of [wrap_sound] are satisfiable *)
Example wrap_sound_example :
  let t := wrap_cex_tree in let e := wrap_cex_edit in let c := CBlock [] Body 0 2 in
  valid_edit t e /\ wrap_pre code_as_found e c /\ valid_cursor t c /\
  exists t' c', apply_edit e t = Some t' /\ fwd_edit code_as_found e t c = Ok c'.
Proof. vm_compute. repeat split; eauto. Qed.
