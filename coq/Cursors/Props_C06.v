(** * Props_C06.v — C06: forwarded cursors denote the same code or are invalid.
    Only property theorems; every proof is [exact <lemma>].  Vocabulary: Model.v (executable model of
    internal_cursors.py), Spec.v ([valid_cursor], [inb_cursor], [same], [same_e], [blk_rel], [wrap_pre], ...). *)
From Coq Require Import List Arith Bool.
From Cursors Require Import Model Spec EditInsert EditReplace EditWrap EditMove Chain Implicit.
Import ListNotations.

(** Gap._insert: full strength *)
Theorem C06_edit_insert : forall fixed gp s nodes t t' c c',
  valid_edit t (EInsert gp s nodes) -> apply_edit (EInsert gp s nodes) t = Some t' ->
  valid_cursor t c -> fwd_edit fixed (EInsert gp s nodes) t c = Ok c' ->
  valid_cursor t' c' /\ same_e (EInsert gp s nodes) t c t' c'.
Proof. exact insert_sound. Qed.
Print Assumptions C06_edit_insert.

Theorem C06_edit_insert_complete : forall fixed gp s nodes t c,
  valid_edit t (EInsert gp s nodes) -> exists c', fwd_edit fixed (EInsert gp s nodes) t c = Ok c'.
Proof. exact insert_complete. Qed.
Print Assumptions C06_edit_insert_complete.

(** Block._delete (with the Pass filler): full strength; an exactly deleted block collapses to an
    in-bounds EMPTY block (hence [inb_cursor]) *)
Theorem C06_edit_delete : forall fixed p a lo hi pl t t' c c',
  valid_edit t (EDelete p a lo hi pl) -> apply_edit (EDelete p a lo hi pl) t = Some t' ->
  valid_cursor t c -> fwd_edit fixed (EDelete p a lo hi pl) t c = Ok c' ->
  inb_cursor t' c' /\ same_e (EDelete p a lo hi pl) t c t' c'.
Proof. exact delete_sound. Qed.
Print Assumptions C06_edit_delete.

Theorem C06_edit_delete_complete : forall fixed p a lo hi pl t c,
  valid_edit t (EDelete p a lo hi pl) -> cut_by p a lo hi c = false ->
  exists c', fwd_edit fixed (EDelete p a lo hi pl) t c = Ok c'.
Proof. exact delete_complete. Qed.
Print Assumptions C06_edit_delete_complete.

(** Block._replace / Node._replace(list): full strength *)
Theorem C06_edit_replace : forall fixed p a lo hi nodes t t' c c',
  valid_edit t (EReplace p a lo hi nodes) -> apply_edit (EReplace p a lo hi nodes) t = Some t' ->
  valid_cursor t c -> fwd_edit fixed (EReplace p a lo hi nodes) t c = Ok c' ->
  inb_cursor t' c' /\ same_e (EReplace p a lo hi nodes) t c t' c'.
Proof. exact replace_sound. Qed.
Print Assumptions C06_edit_replace.

Theorem C06_edit_replace_complete : forall fixed p a lo hi nodes t c,
  valid_edit t (EReplace p a lo hi nodes) -> cut_by p a lo hi c = false ->
  exists c', fwd_edit fixed (EReplace p a lo hi nodes) t c = Ok c'.
Proof. exact replace_complete. Qed.
Print Assumptions C06_edit_replace_complete.

(** Block._wrap.  The code as it stands now (after the repair of [_forward_wrap.fwd_block], which the
    harness detects in the source on every run: [wrap_fixed v = true]): full strength *)
Theorem C06_edit_wrap : forall v p a lo hi wl wa other t t' c c',
  wrap_fixed v = true ->
  valid_edit t (EWrap p a lo hi wl wa other) -> apply_edit (EWrap p a lo hi wl wa other) t = Some t' ->
  valid_cursor t c ->
  fwd_edit v (EWrap p a lo hi wl wa other) t c = Ok c' ->
  valid_cursor t' c' /\ same_e (EWrap p a lo hi wl wa other) t c t' c'.
Proof. exact wrap_sound_fixed. Qed.
Print Assumptions C06_edit_wrap.

(** regression record of the repaired defect: with the former [fwd_block] ([code_as_found], anchor index
    [blk_rng.start]) the statement is false (a block cursor inside the wrapped range dangles) ... *)
Theorem C06_edit_wrap_before_fix_refuted :
  exists t e c t' c',
    valid_edit t e /\ apply_edit e t = Some t' /\ valid_cursor t c /\
    fwd_edit code_as_found e t c = Ok c' /\ ~ inb_cursor t' c'.
Proof. exact wrap_refuted. Qed.
Print Assumptions C06_edit_wrap_before_fix_refuted.

(** ... and holds for either variant under [wrap_pre] (which is [True] when [wrap_fixed fixed = true]) *)
Theorem C06_edit_wrap_partial : forall fixed p a lo hi wl wa other t t' c c',
  valid_edit t (EWrap p a lo hi wl wa other) -> apply_edit (EWrap p a lo hi wl wa other) t = Some t' ->
  valid_cursor t c -> wrap_pre fixed (EWrap p a lo hi wl wa other) c ->
  fwd_edit fixed (EWrap p a lo hi wl wa other) t c = Ok c' ->
  valid_cursor t' c' /\ same_e (EWrap p a lo hi wl wa other) t c t' c'.
Proof. exact wrap_sound. Qed.
Print Assumptions C06_edit_wrap_partial.

Theorem C06_edit_wrap_complete : forall fixed p a lo hi wl wa other t c,
  valid_edit t (EWrap p a lo hi wl wa other) ->
  match c with
  | CBlock q b l h => path_eqb q p && attr_eqb b a && (l <? h) = true -> intersects_partially l h lo hi = false
  | _ => True
  end ->
  exists c', fwd_edit fixed (EWrap p a lo hi wl wa other) t c = Ok c'.
Proof. exact wrap_complete. Qed.
Print Assumptions C06_edit_wrap_complete.

(** Block._move.  The full-strength statement is FALSE of the code:
    (1) the moved statements are mis-forwarded (here: to a dangling path) when the block goes to a LATER gap
        in a subtree that leaves the block's path ABOVE the block's own level ([move_pre] fails); *)
Theorem C06_move_refuted :
  exists t e c t' c',
    valid_edit t e /\ apply_edit e t = Some t' /\ valid_cursor t c /\
    fwd_edit code_now e t c = Ok c' /\ ~ inb_cursor t' c'.
Proof. exact move_refuted. Qed.
Print Assumptions C06_move_refuted.

(** (2) even under [move_pre], a BLOCK cursor on the list the statements are taken from (or put into) is
        forwarded as the hull of its forwarded end points: [s1; s2] becomes [s1; s0; s2] when s0 and s1
        are swapped (this is what reorder_stmts does) ... *)
Theorem C06_move_block_hull_refuted :
  exists t e c t' c' L L',
    valid_edit t e /\ move_pre e /\ apply_edit e t = Some t' /\ valid_cursor t c /\
    fwd_edit code_now e t c = Ok c' /\
    match c, c' with
    | CBlock p a lo hi, CBlock p' a' lo' hi' =>
        block_labels t p a lo hi = Some L /\ block_labels t' p' a' lo' hi' = Some L' /\
        L = [2; 3] /\ L' = [2; 1; 3]
    | _, _ => False
    end.
Proof. exact move_block_hull_refuted. Qed.
Print Assumptions C06_move_block_hull_refuted.

(** ... and the block [s0; s1] of the same example is not forwarded: regression record — with the former
    asserts ([code_with_asserts]) forwarding failed with AssertionError ([Crash]), which is neither a cursor nor
    InvalidCursorError; the code as it is now ([code_now]) reports InvalidCursorError *)
Theorem C06_move_block_assert_before_fix_refuted :
  valid_edit hull_cex_tree hull_cex_edit /\ move_pre hull_cex_edit /\
  valid_cursor hull_cex_tree (CBlock [] Body 0 2) /\
  fwd_edit code_with_asserts hull_cex_edit hull_cex_tree (CBlock [] Body 0 2) = Crash /\
  fwd_edit code_now hull_cex_edit hull_cex_tree (CBlock [] Body 0 2) = Invalid.
Proof. exact move_block_crash_refuted. Qed.
Print Assumptions C06_move_block_assert_before_fix_refuted.

(** Under [move_ok] (= [move_pre], a non-empty moved block, and — for block cursors — [move_blk_okb]: a block
    on the source list is disjoint from the moved range or inside it, a block on the target list does not
    have the gap strictly inside) the statement holds, for both orders of the delete/insert pair and for the
    redirected target ([target in self]); blocks inside the moved range arrive with the target list's attribute *)
Theorem C06_move_partial : forall fixed p a lo hi gp s pl t t' c c',
  valid_edit t (EMove p a lo hi gp s pl) -> move_ok (EMove p a lo hi gp s pl) t c ->
  apply_edit (EMove p a lo hi gp s pl) t = Some t' ->
  valid_cursor t c -> fwd_edit fixed (EMove p a lo hi gp s pl) t c = Ok c' ->
  valid_cursor t' c' /\ same_e (EMove p a lo hi gp s pl) t c t' c'.
Proof. exact move_sound. Qed.
Print Assumptions C06_move_partial.

(** node and gap cursors are never lost by a move (under [move_pre]) *)
Theorem C06_move_complete : forall fixed p a lo hi gp s pl t c,
  valid_edit t (EMove p a lo hi gp s pl) -> move_pre (EMove p a lo hi gp s pl) -> lo < hi ->
  match c with CBlock _ _ _ _ => False | _ => True end ->
  exists c', fwd_edit fixed (EMove p a lo hi gp s pl) t c = Ok c'.
Proof. exact move_complete. Qed.
Print Assumptions C06_move_complete.

(** one statement for every edit kind ([edit_ok] = [wrap_pre] for wraps, [move_ok] for moves, [True] otherwise) *)
Theorem C06_edit : forall fixed e t t' c c',
  valid_edit t e -> edit_ok fixed e t c -> apply_edit e t = Some t' ->
  valid_cursor t c -> fwd_edit fixed e t c = Ok c' ->
  inb_cursor t' c' /\ same_e e t c t' c'.
Proof. exact edit_sound. Qed.
Print Assumptions C06_edit.

(** all chains of edits (the [_compose] chains of the Do* functions and [Procedure.forward]'s fold) *)
Theorem C06_chain : forall fixed es t t' c c',
  chain_pre fixed es t c -> valid_cursor t c ->
  apply_chain es t = Some t' -> fwd_chain fixed es t c = Ok c' ->
  valid_cursor t' c' /\ chain_same fixed es t c t' c'.
Proof. exact chain_sound. Qed.
Print Assumptions C06_chain.

Theorem C06_chain_node_gap : forall fixed es t t' c c',
  chain_pre fixed es t c -> valid_cursor t c ->
  (match c with CBlock _ _ _ _ => False | _ => True end) ->
  apply_chain es t = Some t' -> fwd_chain fixed es t c = Ok c' ->
  valid_cursor t' c' /\ same t c t' c'.
Proof. exact chain_node_gap_sound. Qed.
Print Assumptions C06_chain_node_gap.

(** [Procedure.forward]: a cursor already in the target procedure is returned as it is; forwarding to a
    procedure is forwarding to its parent followed by the step's own (composed) forwarding function — which is
    all that [CursorArgumentProcessor] does with a cursor handed to a scheduling operation; a cursor whose
    procedure is not on the provenance chain is invalid *)
Theorem C06_implicit_self : forall fixed chain self c,
  proc_forward fixed chain self (self, c) = Ok (self, c).
Proof. exact proc_forward_self. Qed.
Print Assumptions C06_implicit_self.

Theorem C06_implicit_step : forall fixed st rest rc,
  ps_id st <> fst rc ->
  proc_forward fixed (st :: rest) (ps_id st) rc =
  rbind (proc_forward fixed rest (ps_parent st) rc) (step_forward fixed st).
Proof. exact proc_forward_step. Qed.
Print Assumptions C06_implicit_step.

Theorem C06_implicit_foreign : forall fixed chain self rc,
  collect chain self (fst rc) <> [] ->
  (forall st, In st (collect chain self (fst rc)) -> ps_parent st <> fst rc) ->
  proc_forward fixed chain self rc = Invalid.
Proof. exact proc_forward_foreign. Qed.
Print Assumptions C06_implicit_foreign.
