(** * Cursors/Chain.v — one statement for all edits, and chains of edits (the composition every Do*
    function builds with [_compose], and [Procedure.forward]'s fold). *)
From Coq Require Import List Arith Bool Lia ZifyBool.
From Cursors Require Import Model Base Spec Local Splice EditInsert EditReplace EditWrap EditMove.
Import ListNotations.

(** side condition of one forwarding step *)
Definition edit_ok (fixed : variant) (e : edit) (t : tree) (c : cursor) : Prop :=
  match e with
  | EWrap _ _ _ _ _ _ _ => wrap_pre fixed e c
  | EMove _ _ _ _ _ _ _ => move_ok e t c
  | _ => True
  end.

Theorem edit_sound fixed e t t' c c' :
  valid_edit t e -> edit_ok fixed e t c -> apply_edit e t = Some t' ->
  valid_cursor t c -> fwd_edit fixed e t c = Ok c' ->
  inb_cursor t' c' /\ same_e e t c t' c'.
Proof.
  intros VE OK AP VC FW. destruct e.
  - eapply replace_sound; eauto.
  - eapply delete_sound; eauto.
  - destruct (insert_sound fixed gp s nodes t t' c c' VE AP VC FW) as [V S].
    split; auto. apply inb_of_valid; auto.
  - destruct (wrap_sound fixed p a lo hi wl wa other t t' c c' VE AP VC OK FW) as [V S].
    split; auto. apply inb_of_valid; auto.
  - destruct (move_sound fixed p a lo hi gp s pl t t' c c' VE OK AP VC FW) as [V S].
    split; auto. apply inb_of_valid; auto.
  - cbn in AP, FW. injection AP as <-. injection FW as <-. split; [apply inb_of_valid; auto|].
    unfold same_e, same_with. destruct c.
    + unfold valid_cursor in VC. cbn in VC. unfold valid_nodeb in VC. unfold node_label.
      destruct (get t p) as [x|]; [|discriminate]. exists (lbl x). split; reflexivity.
    + destruct (valid_block_inv _ _ _ _ _ VC) as [n [G _]]. unfold block_labels. rewrite G.
      eexists _, _. split; [reflexivity|]. split; [reflexivity|]. left; reflexivity.
    + split; auto. unfold valid_cursor in VC. cbn in VC. unfold valid_gapb, valid_nodeb in VC.
      unfold node_label. destruct p as [|e0 p0]; [discriminate|].
      destruct (get t (e0 :: p0)) as [x|]; [|discriminate].
      exists (lbl x). split; reflexivity.
Qed.

(** hypotheses along a chain: every edit is valid on the tree it is applied to, its side condition holds
    for the cursor as forwarded so far, and the forwarded cursor has not collapsed to an empty block *)
Fixpoint chain_pre (fixed : variant) (es : list edit) (t : tree) (c : cursor) : Prop :=
  match es with
  | [] => True
  | e :: es' =>
      valid_edit t e /\ edit_ok fixed e t c /\
      forall t1 c1, apply_edit e t = Some t1 -> fwd_edit fixed e t c = Ok c1 ->
                    nonempty_cursor c1 /\ chain_pre fixed es' t1 c1
  end.

(** what the chain theorem delivers: every intermediate cursor is valid in its intermediate tree and
    denotes the same statements (modulo the step's own edit, for enclosing blocks) as the one before *)
Fixpoint chain_same (fixed : variant) (es : list edit) (t : tree) (c : cursor) (t' : tree) (c' : cursor) : Prop :=
  match es with
  | [] => t' = t /\ c' = c
  | e :: es' =>
      exists t1 c1, apply_edit e t = Some t1 /\ fwd_edit fixed e t c = Ok c1 /\
                    valid_cursor t1 c1 /\ same_e e t c t1 c1 /\ chain_same fixed es' t1 c1 t' c'
  end.

Theorem chain_sound fixed : forall es t t' c c',
  chain_pre fixed es t c -> valid_cursor t c ->
  apply_chain es t = Some t' -> fwd_chain fixed es t c = Ok c' ->
  valid_cursor t' c' /\ chain_same fixed es t c t' c'.
Proof.
  induction es as [|e es IH]; intros t t' c c' PRE VC AP FW.
  - cbn in AP, FW. injection AP as <-. injection FW as <-. cbn. auto.
  - cbn [chain_pre] in PRE. destruct PRE as [VE [OK K]].
    cbn [apply_chain] in AP. cbn [fwd_chain] in FW.
    destruct (apply_edit e t) as [t1|] eqn:A1; [|discriminate].
    destruct (fwd_edit fixed e t c) as [c1| |] eqn:F1; simpl in FW; try discriminate.
    destruct (K t1 c1 eq_refl eq_refl) as [NE PRE1].
    destruct (edit_sound fixed e t t1 c c1 VE OK A1 VC F1) as [I1 S1].
    assert (V1 : valid_cursor t1 c1) by (apply valid_of_inb; auto).
    destruct (IH t1 t' c1 c' PRE1 V1 AP FW) as [V' CS].
    split; auto. cbn [chain_same]. exists t1, c1. auto.
Qed.

(** node and gap cursors: the label is preserved end to end *)
Lemma chain_same_node fixed : forall es t p t' c',
  valid_cursor t (CNode p) ->
  chain_same fixed es t (CNode p) t' c' ->
  exists p' l, c' = CNode p' /\ node_label t p = Some l /\ node_label t' p' = Some l.
Proof.
  induction es as [|e es IH]; intros t p t' c' VC CS.
  - cbn in CS. destruct CS as [-> ->].
    unfold valid_cursor in VC. cbn in VC. unfold valid_nodeb in VC. unfold node_label.
    destruct (get t p) as [x|] eqn:G; [|discriminate]. exists p, (lbl x). rewrite G. repeat split; reflexivity.
  - cbn [chain_same] in CS. destruct CS as [t1 [c1 [A1 [F1 [V1 [S1 CS]]]]]].
    unfold same_e, same_with in S1. destruct c1 as [p1| |]; try contradiction.
    destruct S1 as [l [L0 L1]].
    destruct (IH t1 p1 t' c' V1 CS) as [p' [l' [-> [L1' L']]]].
    exists p', l. split; auto. split; auto. congruence.
Qed.

Lemma chain_same_gap fixed : forall es t p s t' c',
  valid_cursor t (CGap p s) ->
  chain_same fixed es t (CGap p s) t' c' ->
  exists p' l, c' = CGap p' s /\ node_label t p = Some l /\ node_label t' p' = Some l.
Proof.
  induction es as [|e es IH]; intros t p s t' c' VC CS.
  - cbn in CS. destruct CS as [-> ->].
    unfold valid_cursor in VC. cbn in VC. unfold valid_gapb, valid_nodeb in VC. unfold node_label.
    destruct p as [|e0 p0]; [discriminate|].
    destruct (get t (e0 :: p0)) as [x|] eqn:G; [|discriminate]. exists (e0 :: p0), (lbl x). rewrite G. repeat split; reflexivity.
  - cbn [chain_same] in CS. destruct CS as [t1 [c1 [A1 [F1 [V1 [S1 CS]]]]]].
    unfold same_e, same_with in S1. destruct c1 as [|  |p1 s1]; try contradiction.
    destruct S1 as [<- [l [L0 L1]]].
    destruct (IH t1 p1 s t' c' V1 CS) as [p' [l' [-> [L1' L']]]].
    exists p', l. split; auto. split; auto. congruence.
Qed.

(** "all chains": a node / gap cursor forwarded through any chain of edits denotes the same statement *)
Theorem chain_node_gap_sound fixed es t t' c c' :
  chain_pre fixed es t c -> valid_cursor t c ->
  (match c with CBlock _ _ _ _ => False | _ => True end) ->
  apply_chain es t = Some t' -> fwd_chain fixed es t c = Ok c' ->
  valid_cursor t' c' /\ same t c t' c'.
Proof.
  intros PRE VC K AP FW.
  destruct (chain_sound fixed es t t' c c' PRE VC AP FW) as [V CS]. split; auto.
  destruct c as [p| |p s]; try contradiction.
  - destruct (chain_same_node fixed es t p t' c' VC CS) as [p' [l [-> [L0 L1]]]].
    cbn. eauto.
  - destruct (chain_same_gap fixed es t p s t' c' VC CS) as [p' [l [-> [L0 L1]]]].
    cbn. eauto.
Qed.

(** the hypotheses of [chain_sound] are satisfiable: insert a statement, then wrap two statements *)
Example chain_sound_example :
  let t := T 0 [T 1 [] []; T 2 [T 3 [] []] []] [] in
  let es := [EInsert [(Body, 0)] Before [T 7 [] []]; EWrap [] Body 1 3 8 Body []] in
  let c := CNode [(Body, 1); (Body, 0)] in
  chain_pre code_now es t c /\ valid_cursor t c /\
  exists t' c', apply_chain es t = Some t' /\ fwd_chain code_now es t c = Ok c'.
Proof.
  cbv zeta. split; [|split; [vm_compute; reflexivity | vm_compute; eauto]].
  cbn [chain_pre]. split; [vm_compute; reflexivity|]. split; [exact I|].
  intros t1 c1 H1 H2. vm_compute in H1, H2. injection H1 as <-. injection H2 as <-.
  split; [exact I|]. split; [vm_compute; reflexivity|]. split; [vm_compute; reflexivity|].
  intros t2 c2 H3 H4. split; [|exact I].
  vm_compute in H4. injection H4 as <-. exact I.
Qed.
