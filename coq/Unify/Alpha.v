(** * Alpha-equality of statement lists up to index-expression normalisation — executable Gallina only.

    [aeq_ss m a b]: the statement list [a] (left; in the validator: the inlined call) matches [b] (right;
    the replaced block) under the binder correspondence [m].
    - binders (For, Alloc, WindowS) are paired; a pair (x, Some x') says left [x] is right [x'];
    - a left window statement that has no partner may be skipped: its name becomes left-only
      (pair (w, None)) and may not be used any more (the window was eliminated by Unify.Elim);
    - expressions in integer positions (indices, window bounds, loop bounds, shapes, operands of
      < <= > >= / %) are compared as sums: both sides are flattened into a list of (coefficient, atom)
      plus a constant, through +, -, unary minus and multiplication by a literal; the constants have to be
      equal and the atoms have to match one to one (same coefficient, atoms equal up to alpha).
      Nothing is cancelled or merged, so the two sides are defined on the same environments.
    Statements containing calls are not compared (no match). *)
From Coq Require Import ZArith List Bool QArith Qcanon.
From Core Require Import Syntax Sem.
Import ListNotations.
Local Open Scope Z_scope.

Definition bmap := list (sym * option sym).

Fixpoint vmatch (m : bmap) (y y' : sym) : bool :=
  match m with
  | [] => Pos.eqb y y'
  | (p, Some q) :: r => if Pos.eqb y p then Pos.eqb y' q else if Pos.eqb y' q then false else vmatch r y y'
  | (p, None) :: r => if Pos.eqb y p then false else vmatch r y y'
  end.

Section All2.
  Context {A B : Type} (f : A -> B -> bool).
  Fixpoint all2 (la : list A) (lb : list B) : bool :=
    match la, lb with
    | [], [] => true
    | a :: ra, b :: rb => f a b && all2 ra rb
    | _, _ => false
    end.
End All2.

Definition binop_eqb (a b : binop) : bool :=
  match a, b with
  | OAdd, OAdd | OSub, OSub | OMul, OMul | ODiv, ODiv | OMod, OMod | OAnd, OAnd | OOr, OOr
  | OLt, OLt | OGt, OGt | OLe, OLe | OGe, OGe | OEq, OEq => true
  | _, _ => false
  end.

Definition extfn_eqb (a b : extfn) : bool :=
  match a, b with
  | XSin, XSin | XRelu, XRelu | XSelect, XSelect | XExpf, XExpf | XFmaxf, XFmaxf | XSigmoid, XSigmoid
  | XSqrt, XSqrt => true
  | _, _ => false      (* XOther stands for different unknown functions *)
  end.

Definition qc_eqb (a b : Qc) : bool := if Qc_eq_dec a b then true else false.

(** operators whose operands are integers whenever the result is defined and ... *)
Definition int_operands (op : binop) : bool :=
  match op with OLt | OGt | OLe | OGe | OMod => true | _ => false end.

(** ** flattening of sums *)
Definition atoms := list (Z * expr).

Definition lit (e : expr) : option Z := match e with Int z => Some z | _ => None end.

Fixpoint flat (c : Z) (e : expr) {struct e} : atoms * Z :=
  match e with
  | Int z => ([], c * z)
  | USub a => flat (- c) a
  | BinOp op a b =>
      match op with
      | OAdd => let (la, ka) := flat c a in let (lb, kb) := flat c b in (la ++ lb, ka + kb)
      | OSub => let (la, ka) := flat c a in let (lb, kb) := flat (- c) b in (la ++ lb, ka + kb)
      | OMul => match lit a with
                | Some z => flat (c * z) b
                | None => match lit b with
                          | Some z => flat (c * z) a
                          | None => ([(c, e)], 0)
                          end
                end
      | _ => ([(c, e)], 0)
      end
  | _ => ([(c, e)], 0)
  end.

(** remove the first atom of [l] that matches (c, e) under [f] *)
Fixpoint take_match (f : expr -> expr -> bool) (c : Z) (e : expr) (l : atoms) : option atoms :=
  match l with
  | [] => None
  | (c', e') :: r =>
      if Z.eqb c c' && f e e' then Some r
      else match take_match f c e r with Some r' => Some ((c', e') :: r') | None => None end
  end.

Fixpoint match_atoms (f : expr -> expr -> bool) (la lb : atoms) : bool :=
  match la with
  | [] => match lb with [] => true | _ => false end
  | (c, e) :: ra => match take_match f c e lb with Some lb' => match_atoms f ra lb' | None => false end
  end.

(** ** expressions.  [aeq_e] is structural; [aeq_i] (integer positions) falls back to sums whose atoms
    are compared structurally.  [fuel] bounds the alternation (atoms are sub-expressions, so the depth of
    the expression suffices; the validator passes a constant far above any real nesting). *)
Fixpoint aeq_e (m : bmap) (e e' : expr) {struct e} : bool :=
  match e, e' with
  | Var y, Var y' => vmatch m y y'
  | Int z, Int z' => Z.eqb z z'
  | BoolC b, BoolC b' => Bool.eqb b b'
  | Real q, Real q' => qc_eqb q q'
  | Read y idx, Read y' idx' => vmatch m y y' && all2 (aeq_e m) idx idx'
  | USub a, USub a' => aeq_e m a a'
  | BinOp op a b, BinOp op' a' b' => binop_eqb op op' && aeq_e m a a' && aeq_e m b b'
  | Extern f args, Extern f' args' => extfn_eqb f f' && all2 (aeq_e m) args args'
  | WindowE y acc, WindowE y' acc' =>
      vmatch m y y' &&
      all2 (fun w w' => match w, w' with
                        | Point a, Point a' => aeq_e m a a'
                        | Interval a b, Interval a' b' => aeq_e m a a' && aeq_e m b b'
                        | _, _ => false
                        end) acc acc'
  | Stride y d, Stride y' d' => vmatch m y y' && Nat.eqb d d'
  | ReadCfg c, ReadCfg c' => Pos.eqb c c'
  | _, _ => false
  end.

(** [strict = true]: plain alpha-equality (no sums, no skipped window statements); symmetric. *)
Section Mode.
Variable strict : bool.

(** integer position: structurally equal, or equal as sums *)
Definition aeq_i (m : bmap) (e e' : expr) : bool :=
  aeq_e m e e' ||
  (negb strict &&
   (let (la, ka) := flat 1 e in let (lb, kb) := flat 1 e' in
    Z.eqb ka kb && match_atoms (aeq_e m) la lb)).

(** a variant of [aeq_e] that uses [aeq_i] at the integer positions it can see *)
Fixpoint aeq_x (m : bmap) (e e' : expr) {struct e} : bool :=
  match e, e' with
  | Read y idx, Read y' idx' => vmatch m y y' && all2 (aeq_i m) idx idx'
  | USub a, USub a' => aeq_x m a a'
  | BinOp op a b, BinOp op' a' b' =>
      binop_eqb op op' &&
      (if int_operands op then aeq_i m a a' && aeq_i m b b' else aeq_x m a a' && aeq_x m b b')
  | Extern f args, Extern f' args' => extfn_eqb f f' && all2 (aeq_x m) args args'
  | WindowE y acc, WindowE y' acc' =>
      vmatch m y y' &&
      all2 (fun w w' => match w, w' with
                        | Point a, Point a' => aeq_i m a a'
                        | Interval a b, Interval a' b' => aeq_i m a a' && aeq_i m b b'
                        | _, _ => false
                        end) acc acc'
  | _, _ => aeq_e m e e'
  end.

(** ** statements: returns the binder map for the following statements *)
Fixpoint aeq_s (m : bmap) (s s' : stmt) {struct s} : option bmap :=
  match s, s' with
  | Assign y idx rhs, Assign y' idx' rhs' | Reduce y idx rhs, Reduce y' idx' rhs' =>
      if vmatch m y y' && all2 (aeq_i m) idx idx' && aeq_x m rhs rhs' then Some m else None
  | WriteCfg c rhs, WriteCfg c' rhs' => if Pos.eqb c c' && aeq_x m rhs rhs' then Some m else None
  | Pass, Pass => Some m
  | If c a b, If c' a' b' =>
      if aeq_x m c c' then
        match (fix go (m : bmap) (l l' : list stmt) {struct l} : option bmap :=
                 match l with
                 | [] => match l' with [] => Some m | _ => None end
                 | s1 :: r =>
                     match l' with
                     | s1' :: r' =>
                         match aeq_s m s1 s1' with
                         | Some m1 => go m1 r r'
                         | None => match s1 with WindowS w _ => if strict then None else go ((w, None) :: m) r l' | _ => None end
                         end
                     | [] => match s1 with WindowS w _ => if strict then None else go ((w, None) :: m) r l' | _ => None end
                     end
                 end) m a a',
              (fix go (m : bmap) (l l' : list stmt) {struct l} : option bmap :=
                 match l with
                 | [] => match l' with [] => Some m | _ => None end
                 | s1 :: r =>
                     match l' with
                     | s1' :: r' =>
                         match aeq_s m s1 s1' with
                         | Some m1 => go m1 r r'
                         | None => match s1 with WindowS w _ => if strict then None else go ((w, None) :: m) r l' | _ => None end
                         end
                     | [] => match s1 with WindowS w _ => if strict then None else go ((w, None) :: m) r l' | _ => None end
                     end
                 end) m b b' with
        | Some _, Some _ => Some m
        | _, _ => None
        end
      else None
  | For i lo hi body _, For i' lo' hi' body' _ =>
      if aeq_i m lo lo' && aeq_i m hi hi' then
        match (fix go (m : bmap) (l l' : list stmt) {struct l} : option bmap :=
                 match l with
                 | [] => match l' with [] => Some m | _ => None end
                 | s1 :: r =>
                     match l' with
                     | s1' :: r' =>
                         match aeq_s m s1 s1' with
                         | Some m1 => go m1 r r'
                         | None => match s1 with WindowS w _ => if strict then None else go ((w, None) :: m) r l' | _ => None end
                         end
                     | [] => match s1 with WindowS w _ => if strict then None else go ((w, None) :: m) r l' | _ => None end
                     end
                 end) ((i, Some i') :: m) body body' with
        | Some _ => Some m
        | None => None
        end
      else None
  | Alloc y sh, Alloc y' sh' => if all2 (aeq_i m) sh sh' then Some ((y, Some y') :: m) else None
  | WindowS y rhs, WindowS y' rhs' => if aeq_x m rhs rhs' then Some ((y, Some y') :: m) else None
  | _, _ => None
  end.

Fixpoint aeq_ss (m : bmap) (l l' : list stmt) {struct l} : option bmap :=
  match l with
  | [] => match l' with [] => Some m | _ => None end
  | s1 :: r =>
      match l' with
      | s1' :: r' =>
          match aeq_s m s1 s1' with
          | Some m1 => aeq_ss m1 r r'
          | None => match s1 with WindowS w _ => if strict then None else aeq_ss ((w, None) :: m) r l' | _ => None end
          end
      | [] => match s1 with WindowS w _ => if strict then None else aeq_ss ((w, None) :: m) r l' | _ => None end
      end
  end.
End Mode.
