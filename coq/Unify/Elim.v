(** * Elimination of window statements (the model's counterpart of [inline_window]) — executable Gallina.

    After [w = x[acc]] every access [w[idx]] is the access [x[acc o idx]]: a point of [acc] stays, an
    interval [lo:hi] of [acc] consumes the next index [i] and becomes [lo + i].  [elim_ws] rewrites the
    accesses through every window statement of a statement list into accesses to the windowed buffer and
    LEAVES the (now unused) window statement in place; the alpha-comparison skips it.  Uses the rewriting
    does not support (the window passed on whole, windowed again, its stride read) leave the statement
    list unchanged for that window. *)
From Coq Require Import ZArith List Bool.
From Core Require Import Syntax Sem Wf.
Import ListNotations.

Section OMap.
  Context {A B : Type} (f : A -> option B).
  Fixpoint omap (l : list A) : option (list B) :=
    match l with
    | [] => Some []
    | a :: r => match f a, omap r with Some b, Some r' => Some (b :: r') | _, _ => None end
    end.
End OMap.

Fixpoint compose (acc : list wacc) (idx : list expr) : option (list expr) :=
  match acc with
  | [] => match idx with [] => Some [] | _ => None end
  | Point p :: ar => match compose ar idx with Some r => Some (p :: r) | None => None end
  | Interval lo _ :: ar =>
      match idx with
      | i :: ir => match compose ar ir with Some r => Some (BinOp OAdd lo i :: r) | None => None end
      | [] => None
      end
  end.

(** expressions whose value depends on the variable environment only *)
Fixpoint ctrl (e : expr) : bool :=
  match e with
  | Var _ | Int _ | BoolC _ | Stride _ _ => true
  | USub a => ctrl a
  | BinOp _ a b => ctrl a && ctrl b
  | _ => false
  end.

Definition ctrl_w (w : wacc) : bool :=
  match w with Point a => ctrl a | Interval a b => ctrl a && ctrl b end.

Fixpoint fv_e (e : expr) {struct e} : list sym :=
  match e with
  | Var y => [y]
  | Int _ | BoolC _ | Real _ | ReadCfg _ => []
  | Read y idx => y :: flat_map fv_e idx
  | USub a => fv_e a
  | BinOp _ a b => fv_e a ++ fv_e b
  | Extern _ args => flat_map fv_e args
  | WindowE y acc =>
      y :: flat_map (fun w => match w with Point a => fv_e a | Interval a b => fv_e a ++ fv_e b end) acc
  | Stride y _ => [y]
  end.

Definition fv_w (w : wacc) : list sym :=
  match w with Point a => fv_e a | Interval a b => fv_e a ++ fv_e b end.

Section EW.
  Variables (w x : sym) (acc : list wacc).

  Fixpoint ew_e (e : expr) {struct e} : option expr :=
    match e with
    | Var y => if Pos.eqb y w then None else Some e
    | Int _ | BoolC _ | Real _ | ReadCfg _ => Some e
    | Read y idx =>
        match omap ew_e idx with
        | None => None
        | Some idx' =>
            if Pos.eqb y w then match compose acc idx' with Some c => Some (Read x c) | None => None end
            else Some (Read y idx')
        end
    | USub a => match ew_e a with Some a' => Some (USub a') | None => None end
    | BinOp op a b => match ew_e a, ew_e b with Some a', Some b' => Some (BinOp op a' b') | _, _ => None end
    | Extern f args => match omap ew_e args with Some args' => Some (Extern f args') | None => None end
    | WindowE y acc' =>
        if Pos.eqb y w then None else
        match omap (fun wa => match wa with
                              | Point a => match ew_e a with Some a' => Some (Point a') | None => None end
                              | Interval a b => match ew_e a, ew_e b with
                                                | Some a', Some b' => Some (Interval a' b')
                                                | _, _ => None
                                                end
                              end) acc' with
        | Some acc'' => Some (WindowE y acc'')
        | None => None
        end
    | Stride y _ => if Pos.eqb y w then None else Some e
    end.

  (** right-hand side of a window statement: the eliminated window itself may not be windowed again *)
  Definition ew_v (e : expr) : option expr :=
    match e with
    | Read y idx =>
        if Pos.eqb y w then None
        else match omap ew_e idx with Some idx' => Some (Read y idx') | None => None end
    | _ => ew_e e
    end.

  (** a binder may not touch the window, the windowed buffer or a variable of the window's bounds *)
  Definition ok_binder (b : sym) : bool :=
    negb (Pos.eqb b w) && negb (Pos.eqb b x) && negb (mem b (flat_map fv_w acc)).

  Fixpoint ew_s (s : stmt) {struct s} : option stmt :=
    match s with
    | Assign y idx rhs =>
        match omap ew_e idx, ew_e rhs with
        | Some idx', Some rhs' =>
            if Pos.eqb y w then match compose acc idx' with Some c => Some (Assign x c rhs') | None => None end
            else Some (Assign y idx' rhs')
        | _, _ => None
        end
    | Reduce y idx rhs =>
        match omap ew_e idx, ew_e rhs with
        | Some idx', Some rhs' =>
            if Pos.eqb y w then match compose acc idx' with Some c => Some (Reduce x c rhs') | None => None end
            else Some (Reduce y idx' rhs')
        | _, _ => None
        end
    | WriteCfg c rhs => match ew_e rhs with Some rhs' => Some (WriteCfg c rhs') | None => None end
    | Pass => Some Pass
    | If c a b =>
        match ew_e c, omap ew_s a, omap ew_s b with
        | Some c', Some a', Some b' => Some (If c' a' b')
        | _, _, _ => None
        end
    | For i lo hi body par =>
        if ok_binder i then
          match ew_e lo, ew_e hi, omap ew_s body with
          | Some lo', Some hi', Some body' => Some (For i lo' hi' body' par)
          | _, _, _ => None
          end
        else None
    | Alloc y shape =>
        if ok_binder y then match omap ew_e shape with Some sh' => Some (Alloc y sh') | None => None end else None
    | Call _ _ => None      (* statements with calls are not compared by Unify.Alpha anyway *)
    | WindowS y rhs =>
        if ok_binder y then match ew_v rhs with Some rhs' => Some (WindowS y rhs') | None => None end else None
    end.
End EW.

Fixpoint elim_ws (l : list stmt) : list stmt :=
  match l with
  | [] => []
  | s :: r =>
      let r' := elim_ws r in
      match s with
      | WindowS w (WindowE x acc) =>
          if forallb ctrl_w acc && negb (Pos.eqb w x) && negb (mem w (flat_map fv_w acc)) then
            match omap (ew_s w x acc) r' with
            | Some r'' => s :: r''
            | None => s :: r'
            end
          else s :: r'
      | _ => s :: r'
      end
  end.
