(** * The call site: what [eval_actuals], [bind_args], [mk_binding] and the window statements produce,
    described over one list of (formal, kind, actual, evaluated actual). *)
From Coq Require Import ZArith List Bool Lia.
From Core Require Import Syntax Sem Equiv Induction Wf PartialEvalSound.
From Unify Require Import Inline Alpha Elim Validate ProofsBase.
Import ListNotations.
Local Open Scope Z_scope.

(** ** evaluation only looks at the free variables *)
Lemma ctrl_agree : forall e st1 st2, ctrl e = true ->
  (forall y, In y (fv_e e) -> lookup y (s_env st1) = lookup y (s_env st2)) -> eval st1 e = eval st2 e.
Proof.
  induction e; intros st1 st2 Hc Hl; cbn [ctrl] in Hc; try discriminate Hc; cbn [eval fv_e] in *.
  - rewrite (Hl x); [reflexivity|left; reflexivity].
  - reflexivity.
  - reflexivity.
  - rewrite (IHe st1 st2 Hc Hl). reflexivity.
  - apply andb_true_iff in Hc as [H1 H2].
    rewrite (IHe1 st1 st2 H1), (IHe2 st1 st2 H2); [reflexivity| |]; intros y Hy; apply Hl, in_or_app; auto.
  - unfold get_view. rewrite (Hl x); [reflexivity|left; reflexivity].
Qed.

Definition agree_on (l : list sym) (st1 st2 : state) : Prop :=
  forall y, In y l -> lookup y (s_env st1) = lookup y (s_env st2).

Lemma eval_agree : forall e st1 st2, s_heap st1 = s_heap st2 -> s_cfg st1 = s_cfg st2 ->
  agree_on (fv_e e) st1 st2 -> eval st1 e = eval st2 e.
Proof.
  intros e st1 st2 Hh Hc. unfold agree_on. induction e using expr_ind2; intro Hl; cbn [fv_e] in Hl.
  - cbn [eval]. rewrite (Hl x); [reflexivity|left; reflexivity].
  - reflexivity.
  - reflexivity.
  - reflexivity.
  - rewrite !eval_Read. unfold get_view. rewrite (Hl x) by (left; reflexivity).
    assert (Hi : eval_ints st1 idx = eval_ints st2 idx).
    { clear -H Hl. induction H as [|a r Ha Hr IH]; [reflexivity|]. cbn [eval_ints flat_map] in *.
      rewrite Ha, IH; [reflexivity| |]; intros y Hy.
      - apply Hl. destruct Hy as [->|Hy]; [left; reflexivity|right; apply in_or_app; right; exact Hy].
      - apply Hl. right. apply in_or_app. left. exact Hy. }
    rewrite Hi, Hh. reflexivity.
  - cbn [eval]. rewrite IHe; [reflexivity|exact Hl].
  - cbn [eval]. rewrite IHe1, IHe2; [reflexivity| |]; intros y Hy; apply Hl, in_or_app; auto.
  - rewrite !eval_Extern.
    assert (Hi : eval_vals st1 args = eval_vals st2 args).
    { clear -H Hl. induction H as [|a r Ha Hr IH]; [reflexivity|]. cbn [eval_vals flat_map] in *.
      rewrite Ha, IH; [reflexivity| |]; intros y Hy; apply Hl, in_or_app; auto. }
    rewrite Hi. reflexivity.
  - reflexivity.
  - cbn [eval]. unfold get_view. rewrite (Hl x); [reflexivity|left; reflexivity].
  - cbn [eval]. rewrite Hc. reflexivity.
Qed.

Lemma eval_ints_agree : forall l st1 st2, s_heap st1 = s_heap st2 -> s_cfg st1 = s_cfg st2 ->
  agree_on (flat_map fv_e l) st1 st2 -> eval_ints st1 l = eval_ints st2 l.
Proof.
  induction l as [|a r IH]; intros st1 st2 Hh Hc Hl; [reflexivity|]. cbn [eval_ints flat_map] in *.
  rewrite (eval_agree a st1 st2 Hh Hc), (IH st1 st2 Hh Hc); [reflexivity| |]; intros y Hy; apply Hl, in_or_app; auto.
Qed.

Lemma eval_waccs_agree : forall l st1 st2, s_heap st1 = s_heap st2 -> s_cfg st1 = s_cfg st2 ->
  agree_on (flat_map fv_w l) st1 st2 -> eval_waccs st1 l = eval_waccs st2 l.
Proof.
  induction l as [|w r IH]; intros st1 st2 Hh Hc Hl; [reflexivity|]. cbn [flat_map] in Hl.
  assert (Hr : eval_waccs st1 r = eval_waccs st2 r).
  { apply IH; [assumption|assumption|]. intros y Hy. apply Hl, in_or_app. auto. }
  destruct w as [a|a b]; cbn [eval_waccs fv_w] in *.
  - rewrite (eval_agree a st1 st2 Hh Hc), Hr; [reflexivity|]. intros y Hy. apply Hl, in_or_app. auto.
  - rewrite (eval_agree a st1 st2 Hh Hc), (eval_agree b st1 st2 Hh Hc), Hr; [reflexivity| |];
      intros y Hy; apply Hl, in_or_app; left; apply in_or_app; auto.
Qed.

Lemma fv_w_flat : forall acc,
  flat_map (fun w => match w with Point a => fv_e a | Interval a b => fv_e a ++ fv_e b end) acc = flat_map fv_w acc.
Proof. intro acc. apply flat_map_ext. intros [a|a b]; reflexivity. Qed.

Lemma eval_view_agree : forall e st1 st2, s_heap st1 = s_heap st2 -> s_cfg st1 = s_cfg st2 ->
  agree_on (fv_e e) st1 st2 -> eval_view st1 e = eval_view st2 e.
Proof.
  intros e st1 st2 Hh Hc Hl. destruct e; try reflexivity; cbn [fv_e] in Hl.
  - destruct idx as [|a r]; cbn [eval_view]; unfold get_view; rewrite (Hl x) by (left; reflexivity); [reflexivity|].
    rewrite (eval_ints_agree (a :: r) st1 st2 Hh Hc); [reflexivity|]. intros y Hy. apply Hl. right. exact Hy.
  - cbn [eval_view]. unfold get_view. rewrite (Hl x) by (left; reflexivity). rewrite fv_w_flat in Hl.
    rewrite (eval_waccs_agree acc st1 st2 Hh Hc); [reflexivity|]. intros y Hy. apply Hl. right. exact Hy.
Qed.

(** ** the call-site table *)
Definition entry := (sym * argkind * expr * binding)%type.
Definition e_x (t : entry) : sym := fst (fst (fst t)).
Definition e_k (t : entry) : argkind := snd (fst (fst t)).
Definition e_a (t : entry) : expr := snd (fst t).
Definition e_b (t : entry) : binding := snd t.

Fixpoint zip3 (fs : list (sym * argkind)) (args : list expr) (acts : list binding) : list entry :=
  match fs, args, acts with
  | (x, k) :: fr, a :: ar, b :: br => (x, k, a, b) :: zip3 fr ar br
  | _, _, _ => []
  end.

Lemma zip3_keys : forall fs args acts, length args = length fs -> length acts = length fs ->
  map e_x (zip3 fs args acts) = map fst fs.
Proof.
  induction fs as [|[x k] fr IH]; intros [|a ar] [|b br] H1 H2; try discriminate; [reflexivity|].
  cbn [zip3 map fst]. cbn [length] in H1, H2. f_equal. apply IH; lia.
Qed.

Lemma eval_actuals_zip : forall st fs args acts, eval_actuals st fs args = Ok acts ->
  length args = length fs /\ length acts = length fs /\
  Forall (fun t => eval_actual st (e_k t) (e_a t) = Ok (e_b t)) (zip3 fs args acts).
Proof.
  induction fs as [|[x k] fr IH]; intros [|a ar] acts H; cbn [eval_actuals] in H; try discriminate.
  - inversion H; subst. repeat split; constructor.
  - bind_inv H. bind_inv H. inversion H; subst. destruct (IH _ _ E0) as (H1 & H2 & H3).
    cbn [length zip3]. repeat split; try lia. constructor; [exact E|exact H3].
Qed.

Definition compat (k : argkind) (b : binding) : Prop :=
  match b with BVal _ => is_ctl k = true | BView _ => is_ctl k = false end.

Lemma bind_args_zip : forall fs args acts c c0, bind_args fs acts c = Ok c0 -> length args = length fs ->
  s_env c0 = rev (map (fun t => (e_x t, e_b t)) (zip3 fs args acts)) ++ s_env c /\ same_mem c c0 /\
  Forall (fun t => compat (e_k t) (e_b t)) (zip3 fs args acts).
Proof.
  induction fs as [|[x k] fr IH]; intros [|a ar] [|b br] c c0 H Hl; cbn [bind_args] in H; try discriminate Hl; try discriminate H.
  - inversion H; subst. cbn. repeat split. constructor.
  - cbn [length] in Hl.
    assert (Hnext : forall c1, bind_args fr br c1 = Ok c0 -> c1 = bind_var x b c -> compat k b ->
              s_env c0 = rev (map (fun t => (e_x t, e_b t)) (zip3 ((x, k) :: fr) (a :: ar) (b :: br))) ++ s_env c /\
              same_mem c c0 /\ Forall (fun t => compat (e_k t) (e_b t)) (zip3 ((x, k) :: fr) (a :: ar) (b :: br))).
    { intros c1 H1 -> Hk. destruct (IH ar br _ _ H1) as (He & Hm & Hf); [lia|].
      cbn [zip3 map rev]. rewrite He, <- app_assoc. cbn [bind_var s_env app]. split; [reflexivity|].
      split; [exact Hm|]. constructor; [exact Hk|exact Hf]. }
    destruct k, b as [[z|bb|d]|w]; try discriminate H.
    + destruct (0 <? z); [|discriminate]. eapply Hnext; eauto. reflexivity.
    + eapply Hnext; eauto. reflexivity.
    + eapply Hnext; eauto. reflexivity.
    + eapply Hnext; eauto. reflexivity.
    + destruct (vdims w); [|discriminate]. eapply Hnext; eauto. reflexivity.
    + bind_inv H. destruct (all_pos a0); [|discriminate]. destruct (list_eq_dec _ _ _); [|discriminate].
      eapply Hnext; eauto. reflexivity.
Qed.

(** the window statement / the substitution entry of one table entry *)
Definition h_ws (t : entry) : list stmt :=
  match e_a t with WindowE _ _ => [WindowS (e_x t) (e_a t)] | _ => [] end.
Definition h_sg (t : entry) : subst :=
  match e_a t with
  | WindowE _ _ => []
  | Read z [] => [(e_x t, SName z)]
  | a => [(e_x t, SExpr a)]
  end.

Lemma mk_binding_zip : forall fs args acts, length args = length fs -> length acts = length fs ->
  mk_binding fs args = (flat_map h_ws (zip3 fs args acts), flat_map h_sg (zip3 fs args acts)).
Proof.
  induction fs as [|[x k] fr IH]; intros [|a ar] [|b br] H1 H2; try discriminate; [reflexivity|].
  cbn [length] in H1, H2. cbn [mk_binding zip3 flat_map]. rewrite (IH ar br) by lia.
  unfold h_ws, h_sg, e_a, e_x. cbn [fst snd].
  destruct a; try reflexivity. destruct idx; reflexivity.
Qed.

(** ** lookups in lists generated from a table with distinct keys *)
Section Table.
  Variable T : list entry.
  Hypothesis Hnd : NoDup (map e_x T).

  Lemma key_inj : forall t t', In t T -> In t' T -> e_x t = e_x t' -> t = t'.
  Proof.
    clear -Hnd. induction T as [|t0 r IH]; intros t t' Hi Hi' He; [destruct Hi|].
    cbn [map] in Hnd. inversion Hnd; subst. destruct Hi as [<-|Hi], Hi' as [<-|Hi'].
    - reflexivity.
    - exfalso. apply H1. rewrite He. apply in_map, Hi'.
    - exfalso. apply H1. rewrite <- He. apply in_map, Hi.
    - apply IH; assumption.
  Qed.

  Lemma lookup_env_table : forall t, In t T ->
    lookup (e_x t) (rev (map (fun t => (e_x t, e_b t)) T)) = Some (e_b t).
  Proof.
    intros t Hi. apply lookup_in_nodup.
    - unfold dom. rewrite map_rev, map_map. cbn [fst]. apply NoDup_rev, Hnd.
    - rewrite <- in_rev. apply (in_map (fun t => (e_x t, e_b t))), Hi.
  Qed.

  Lemma lookup_env_table_inv : forall y b,
    lookup y (rev (map (fun t => (e_x t, e_b t)) T)) = Some b -> exists t, In t T /\ e_x t = y /\ e_b t = b.
  Proof.
    intros y b H. apply lookup_some_in in H. rewrite <- in_rev in H.
    apply in_map_iff in H as (t & Ht & Hi). inversion Ht; subst. eauto.
  Qed.

  (** lists with at most one entry per table entry, under that entry's key *)
  Variable A : Type.
  Variable h : entry -> list (sym * A).
  Hypothesis h_key : forall t, h t = [] \/ exists v, h t = [(e_x t, v)].

  Lemma dom_flat_sub : forall y, In y (dom (flat_map h T)) -> exists t, In t T /\ e_x t = y /\ h t <> [].
  Proof.
    clear Hnd. induction T as [|t0 r IH]; intros y Hy; [destruct Hy|]. cbn [flat_map] in Hy.
    unfold dom in Hy. rewrite map_app in Hy. apply in_app_or in Hy as [Hy|Hy].
    - destruct (h_key t0) as [E|[v E]]; rewrite E in Hy; [destruct Hy|].
      destruct Hy as [<-|[]]. exists t0. split; [left; reflexivity|]. split; [reflexivity|]. rewrite E. discriminate.
    - destruct (IH y Hy) as (t & Ht & He & Hn). exists t. split; [right; exact Ht|auto].
  Qed.

  Lemma nodup_flat : NoDup (dom (flat_map h T)).
  Proof.
    induction T as [|t0 r IH]; [constructor|]. cbn [map] in Hnd. inversion Hnd; subst.
    cbn [flat_map]. unfold dom. rewrite map_app. destruct (h_key t0) as [E|[v E]]; rewrite E; cbn [map app fst].
    - apply IH, H2.
    - constructor; [|apply IH, H2]. intro Hy.
      assert (Hsub : exists t, In t r /\ e_x t = e_x t0).
      { clear -Hy h_key. induction r as [|t1 r' IHr]; [destruct Hy|]. cbn [flat_map] in Hy. rewrite map_app in Hy.
        apply in_app_or in Hy as [Hy|Hy].
        - destruct (h_key t1) as [E|[v E]]; rewrite E in Hy; [destruct Hy|]. destruct Hy as [Hy|[]].
          exists t1. split; [left; reflexivity|exact Hy].
        - destruct (IHr Hy) as (t & Ht & He). exists t. split; [right; exact Ht|exact He]. }
      destruct Hsub as (t & Ht & He). apply H1. rewrite <- He. apply in_map, Ht.
  Qed.

  Lemma lookup_flat_some : forall t v, In t T -> h t = [(e_x t, v)] -> lookup (e_x t) (flat_map h T) = Some v.
  Proof.
    intros t v Hi E. apply lookup_in_nodup; [apply nodup_flat|]. apply in_flat_map. exists t. split; [exact Hi|].
    rewrite E. left; reflexivity.
  Qed.

  Lemma lookup_flat_none : forall t, In t T -> h t = [] -> lookup (e_x t) (flat_map h T) = None.
  Proof.
    intros t Hi E. apply lookup_notin. intro Hy. destruct (dom_flat_sub _ Hy) as (t' & Ht' & He & Hn).
    apply Hn. rewrite (key_inj t' t Ht' Hi He). exact E.
  Qed.
End Table.
