(** * Soundness of the window elimination: when the original statements run to completion, the statements
    that access the windowed buffer directly run to completion in the same final state. *)
From Coq Require Import ZArith List Bool Lia.
From Core Require Import Syntax Sem Equiv Induction Wf PartialEvalSound.
From Unify Require Import Inline Alpha Elim Validate ProofsBase ProofsBind.
Import ListNotations.
Local Open Scope Z_scope.

(** ** composing a window with an index vector *)
Lemma compose_sound : forall st acc idx cidx accv is,
  compose acc idx = Some cidx -> eval_waccs st acc = Ok accv -> eval_ints st idx = Ok is ->
  exists cis, eval_ints st cidx = Ok cis /\
    forall dims off off' dims' d o, apply_window dims accv off = Ok (off', dims') ->
      flat_index dims' is (off' + d) = Ok o -> flat_index dims cis (off + d) = Ok o.
Proof.
  intros st acc. induction acc as [|wa ar IH]; intros idx cidx accv is Hc Hw Hi; cbn [compose] in Hc.
  - destruct idx; [|discriminate]. inversion Hc; subst. cbn in Hw, Hi. inversion Hw; subst. inversion Hi; subst.
    exists []. split; [reflexivity|]. intros dims off off' dims' d o Ha Hf.
    destruct dims as [|[n s] dr]; cbn [apply_window] in Ha; [|discriminate]. inversion Ha; subst. exact Hf.
  - destruct wa as [p|lo hi].
    + destruct (compose ar idx) as [r|] eqn:Er; [|discriminate]. inversion Hc; subst.
      cbn [eval_waccs] in Hw. bind_inv Hw. bind_inv Hw. bind_inv Hw. inversion Hw; subst.
      destruct (IH _ _ _ _ Er E1 Hi) as (cis & Hcis & Hfl).
      exists (a0 :: cis). split; [cbn [eval_ints]; rewrite E; cbn [bind]; rewrite E0; cbn [bind]; rewrite Hcis; reflexivity|].
      intros dims off off' dims' d o Ha Hf. destruct dims as [|[n s] dr]; cbn [apply_window] in Ha; [discriminate|].
      destruct ((0 <=? a0) && (a0 <? n)) eqn:Eb; [|discriminate]. cbn [flat_index]. rewrite Eb.
      replace (off + d + a0 * s) with (off + a0 * s + d) by lia. eapply Hfl; eauto.
    + destruct idx as [|i ir]; [discriminate|]. destruct (compose ar ir) as [r|] eqn:Er; [|discriminate]. inversion Hc; subst.
      cbn [eval_waccs] in Hw. bind_inv Hw. bind_inv Hw. bind_inv Hw. bind_inv Hw. bind_inv Hw. inversion Hw; subst.
      cbn [eval_ints] in Hi. bind_inv Hi. bind_inv Hi. bind_inv Hi. inversion Hi; subst.
      destruct (IH _ _ _ _ Er E3 E6) as (cis & Hcis & Hfl).
      destruct a; try discriminate E0. cbn in E0. inversion E0; subst.
      destruct a4; try discriminate E5. cbn in E5. inversion E5; subst.
      exists ((a0 + a5) :: cis). split.
      { cbn [eval_ints eval]. rewrite E, E4. cbn [bind eval_binop as_int]. rewrite Hcis. reflexivity. }
      intros dims off off' dims' d o Ha Hf. destruct dims as [|[n s] dr]; cbn [apply_window] in Ha; [discriminate|].
      destruct ((0 <=? a0) && (a0 <=? a2) && (a2 <=? n)) eqn:Eb; [|discriminate].
      bind_inv Ha. destruct a as [off1 dims1]. inversion Ha; subst.
      cbn [flat_index] in Hf. destruct ((0 <=? a5) && (a5 <? a2 - a0)) eqn:Ei; [|discriminate].
      cbn [flat_index].
      assert (Hin : (0 <=? a0 + a5) && (a0 + a5 <? n) = true).
      { apply andb_true_iff in Eb as [Eb E3']. apply andb_true_iff in Eb as [E1' E2']. apply andb_true_iff in Ei as [E4' E5'].
        apply andb_true_iff. split; [apply Z.leb_le|apply Z.ltb_lt]; apply Z.leb_le in E1', E2', E3', E4'; apply Z.ltb_lt in E5'; lia. }
      rewrite Hin. replace (off + d + (a0 + a5) * s) with (off + a0 * s + (d + a5 * s)) by lia.
      eapply Hfl; [exact E7|]. replace (off' + (d + a5 * s)) with (off' + d + a5 * s) by lia. exact Hf.
Qed.

Lemma ctrl_waccs_agree : forall acc st1 st2, forallb ctrl_w acc = true ->
  (forall y, In y (flat_map fv_w acc) -> lookup y (s_env st1) = lookup y (s_env st2)) ->
  eval_waccs st1 acc = eval_waccs st2 acc.
Proof.
  induction acc as [|w r IH]; intros st1 st2 Hc Hl; [reflexivity|]. cbn [forallb] in Hc. apply andb_true_iff in Hc as [H1 H2].
  cbn [flat_map] in Hl.
  assert (Hr : eval_waccs st1 r = eval_waccs st2 r) by (apply IH; [exact H2|intros; apply Hl, in_or_app; auto]).
  destruct w as [a|a b]; cbn [eval_waccs ctrl_w fv_w] in *.
  - rewrite (ctrl_agree a st1 st2 H1), Hr; [reflexivity|]. intros y Hy. apply Hl, in_or_app. auto.
  - apply andb_true_iff in H1 as [Ha Hb].
    rewrite (ctrl_agree a st1 st2 Ha), (ctrl_agree b st1 st2 Hb), Hr; [reflexivity| |];
      intros y Hy; apply Hl, in_or_app; left; apply in_or_app; auto.
Qed.

Section EW.
  Variables (w x : sym) (acc : list wacc).
  Variables (W X : view) (accv : list wacc_v).
  Hypothesis Hctrl : forallb ctrl_w acc = true.
  Hypothesis Hloc : vloc W = vloc X.
  Hypothesis Hwin : apply_window (vdims X) accv (voff X) = Ok (voff W, vdims W).

  Definition Inv (st : state) : Prop :=
    lookup w (s_env st) = Some (BView W) /\ lookup x (s_env st) = Some (BView X) /\ eval_waccs st acc = Ok accv.

  Lemma Inv_env : forall st st', Inv st -> s_env st' = s_env st -> Inv st'.
  Proof.
    intros st st' (H1 & H2 & H3) He. unfold Inv. rewrite He. split; [exact H1|]. split; [exact H2|].
    rewrite <- H3. apply ctrl_waccs_agree; [exact Hctrl|]. intros; rewrite He; reflexivity.
  Qed.

  Lemma Inv_bind : forall st b v, Inv st -> ok_binder w x acc b = true -> Inv (bind_var b v st).
  Proof.
    intros st b v (H1 & H2 & H3) Hb. unfold ok_binder in Hb. apply andb_true_iff in Hb as [Hb Hf].
    apply andb_true_iff in Hb as [Hw Hx]. apply negb_true_iff in Hw, Hx. apply negb_mem_notin in Hf.
    unfold Inv. cbn [bind_var s_env lookup]. rewrite (Pos.eqb_sym w b), (Pos.eqb_sym x b), Hw, Hx.
    split; [exact H1|]. split; [exact H2|]. rewrite <- H3. apply ctrl_waccs_agree; [exact Hctrl|].
    intros y Hy. cbn [bind_var s_env lookup]. destruct (Pos.eqb y b) eqn:E; [|reflexivity].
    apply Pos.eqb_eq in E. subst. contradiction.
  Qed.

  (** ** accesses *)
  Lemma access_sound : forall st idx cidx is o, Inv st -> compose acc idx = Some cidx ->
    eval_ints st idx = Ok is -> flat_index (vdims W) is (voff W) = Ok o ->
    exists cis, eval_ints st cidx = Ok cis /\ flat_index (vdims X) cis (voff X) = Ok o.
  Proof.
    intros st idx cidx is o (_ & _ & H3) Hc Hi Hf.
    destruct (compose_sound _ _ _ _ _ _ Hc H3 Hi) as (cis & Hcis & Hfl). exists cis. split; [exact Hcis|].
    specialize (Hfl _ _ _ _ 0 o Hwin). rewrite !Z.add_0_r in Hfl. apply Hfl, Hf.
  Qed.

  Lemma cell_read_sound : forall st idx cidx is d, Inv st -> compose acc idx = Some cidx ->
    eval_ints st idx = Ok is -> cell_read (s_heap st) W is = Ok d ->
    exists cis, eval_ints st cidx = Ok cis /\ cell_read (s_heap st) X cis = Ok d.
  Proof.
    intros st idx cidx is d HI Hc Hi Hr. unfold cell_read in *. bind_inv Hr.
    destruct (access_sound _ _ _ _ _ HI Hc Hi E) as (cis & Hcis & Hf). exists cis. split; [exact Hcis|].
    rewrite Hf. cbn [bind]. rewrite <- Hloc. exact Hr.
  Qed.

  Lemma cell_write_sound : forall st idx cidx is d h, Inv st -> compose acc idx = Some cidx ->
    eval_ints st idx = Ok is -> cell_write (s_heap st) W is d = Ok h ->
    exists cis, eval_ints st cidx = Ok cis /\ cell_write (s_heap st) X cis d = Ok h.
  Proof.
    intros st idx cidx is d h HI Hc Hi Hr. unfold cell_write in *. bind_inv Hr.
    destruct (access_sound _ _ _ _ _ HI Hc Hi E) as (cis & Hcis & Hf). exists cis. split; [exact Hcis|].
    rewrite Hf. cbn [bind]. rewrite <- Hloc. exact Hr.
  Qed.

  (** ** expressions *)
  Definition etr (st : state) (e : expr) : Prop :=
    forall e' v, ew_e w x acc e = Some e' -> eval st e = Ok v -> eval st e' = Ok v.

  Lemma omap_ints : forall st l, Forall (etr st) l -> forall l' zs, omap (ew_e w x acc) l = Some l' ->
    eval_ints st l = Ok zs -> eval_ints st l' = Ok zs.
  Proof.
    intros st l H. induction H as [|a r Ha Hr IH]; intros l' zs Ho He; cbn [omap] in Ho.
    - inversion Ho; subst. exact He.
    - destruct (ew_e w x acc a) as [a'|] eqn:Ea; [|discriminate]. destruct (omap (ew_e w x acc) r) as [r'|] eqn:Er; [|discriminate].
      inversion Ho; subst. cbn [eval_ints] in *. bind_inv He. bind_inv He. bind_inv He.
      rewrite (Ha _ _ Ea E). cbn [bind]. rewrite E0. cbn [bind]. rewrite (IH _ _ eq_refl E1). cbn [bind]. exact He.
  Qed.

  Lemma omap_vals : forall st l, Forall (etr st) l -> forall l' vs, omap (ew_e w x acc) l = Some l' ->
    eval_vals st l = Ok vs -> eval_vals st l' = Ok vs.
  Proof.
    intros st l H. induction H as [|a r Ha Hr IH]; intros l' vs Ho He; cbn [omap] in Ho.
    - inversion Ho; subst. exact He.
    - destruct (ew_e w x acc a) as [a'|] eqn:Ea; [|discriminate]. destruct (omap (ew_e w x acc) r) as [r'|] eqn:Er; [|discriminate].
      inversion Ho; subst. cbn [eval_vals] in *. bind_inv He. bind_inv He.
      rewrite (Ha _ _ Ea E). cbn [bind]. rewrite (IH _ _ eq_refl E0). cbn [bind]. exact He.
  Qed.

  Theorem ew_e_sound : forall st e, Inv st -> etr st e.
  Proof.
    intros st e HI. induction e using expr_ind2; intros e' v Hw He; cbn [ew_e] in Hw.
    - destruct (Pos.eqb x0 w); [discriminate|]. inversion Hw; subst. exact He.
    - inversion Hw; subst. exact He.
    - inversion Hw; subst. exact He.
    - inversion Hw; subst. exact He.
    - (* Read *) destruct (omap (ew_e w x acc) idx) as [idx'|] eqn:Eo; [|discriminate].
      rewrite eval_Read in He. bind_inv He. bind_inv He. bind_inv He. inversion He; subst.
      pose proof (omap_ints st idx H _ _ Eo E0) as Hi'.
      destruct (Pos.eqb x0 w) eqn:Ex.
      + apply Pos.eqb_eq in Ex. subst x0. destruct (compose acc idx') as [c|] eqn:Ec; [|discriminate]. inversion Hw; subst.
        destruct HI as (H1 & H2 & H3). unfold get_view in E. rewrite H1 in E. inversion E as [EW]. subst a.
        destruct (cell_read_sound st idx' c a0 a1 (conj H1 (conj H2 H3)) Ec Hi' E1) as (cis & Hcis & Hr).
        rewrite eval_Read. unfold get_view. rewrite H2. cbn [bind]. rewrite Hcis. cbn [bind]. rewrite Hr. reflexivity.
      + inversion Hw; subst. rewrite eval_Read, E. cbn [bind]. rewrite Hi'. cbn [bind]. rewrite E1. reflexivity.
    - destruct (ew_e w x acc e) as [a'|] eqn:Ea; [|discriminate]. inversion Hw; subst.
      cbn [eval] in *. bind_inv He. rewrite (IHe _ _ Ea E). cbn [bind]. exact He.
    - destruct (ew_e w x acc e1) as [a'|] eqn:Ea; [|discriminate]. destruct (ew_e w x acc e2) as [b'|] eqn:Eb; [|discriminate].
      inversion Hw; subst. cbn [eval] in *. bind_inv He. bind_inv He.
      rewrite (IHe1 _ _ Ea E), (IHe2 _ _ Eb E0). cbn [bind]. exact He.
    - destruct (omap (ew_e w x acc) args) as [args'|] eqn:Eo; [|discriminate]. inversion Hw; subst.
      rewrite eval_Extern in *. bind_inv He. rewrite (omap_vals st args H _ _ Eo E). cbn [bind]. exact He.
    - cbn [eval] in He. discriminate He.
    - destruct (Pos.eqb x0 w); [discriminate|]. inversion Hw; subst. exact He.
    - inversion Hw; subst. exact He.
  Qed.

  Lemma ew_ints : forall st l l' zs, Inv st -> omap (ew_e w x acc) l = Some l' ->
    eval_ints st l = Ok zs -> eval_ints st l' = Ok zs.
  Proof. intros st l l' zs HI. apply omap_ints. apply Forall_forall. intros e _. apply ew_e_sound, HI. Qed.

  Lemma ew_waccs : forall st l l' rs, Inv st ->
    omap (fun wa => match wa with
                    | Point a => match ew_e w x acc a with Some a' => Some (Point a') | None => None end
                    | Interval a b => match ew_e w x acc a, ew_e w x acc b with
                                      | Some a', Some b' => Some (Interval a' b')
                                      | _, _ => None
                                      end
                    end) l = Some l' ->
    eval_waccs st l = Ok rs -> eval_waccs st l' = Ok rs.
  Proof.
    intros st l l' rs HI. revert l' rs. induction l as [|wa r IH]; intros l' rs Ho He; cbn [omap] in Ho.
    - inversion Ho; subst. exact He.
    - destruct wa as [a|a b].
      + destruct (ew_e w x acc a) as [a'|] eqn:Ea; [|discriminate].
        match type of Ho with context [omap ?f r] => destruct (omap f r) as [r'|] eqn:Er; [|discriminate] end.
        inversion Ho; subst. cbn [eval_waccs] in *. bind_inv He. bind_inv He. bind_inv He.
        rewrite (ew_e_sound st a HI _ _ Ea E). cbn [bind]. rewrite E0. cbn [bind]. rewrite (IH _ _ eq_refl E1). cbn [bind]. exact He.
      + destruct (ew_e w x acc a) as [a'|] eqn:Ea; [|discriminate]. destruct (ew_e w x acc b) as [b'|] eqn:Eb; [|discriminate].
        match type of Ho with context [omap ?f r] => destruct (omap f r) as [r'|] eqn:Er; [|discriminate] end.
        inversion Ho; subst. cbn [eval_waccs] in *. bind_inv He. bind_inv He. bind_inv He. bind_inv He. bind_inv He.
        rewrite (ew_e_sound st a HI _ _ Ea E). cbn [bind]. rewrite E0. cbn [bind].
        rewrite (ew_e_sound st b HI _ _ Eb E1). cbn [bind]. rewrite E2. cbn [bind].
        rewrite (IH _ _ eq_refl E3). cbn [bind]. exact He.
  Qed.

  Lemma ew_v_sound : forall st e e' v, Inv st -> ew_v w x acc e = Some e' -> eval_view st e = Ok v -> eval_view st e' = Ok v.
  Proof.
    intros st e e' v HI Hw He. destruct e; try discriminate He.
    - (* Read *) cbn [ew_v] in Hw. destruct (Pos.eqb x0 w); [discriminate|].
      destruct (omap (ew_e w x acc) idx) as [idx'|] eqn:Eo; [|discriminate]. inversion Hw; subst.
      destruct idx as [|a r].
      + cbn [omap] in Eo. inversion Eo; subst. exact He.
      + cbn [eval_view] in He. bind_inv He. bind_inv He. bind_inv He. inversion He; subst.
        pose proof (ew_ints st (a :: r) idx' a1 HI Eo E0) as Hi'.
        destruct idx' as [|a' r']; [cbn [omap] in Eo; destruct (ew_e w x acc a); [destruct (omap (ew_e w x acc) r)|]; discriminate|].
        cbn [eval_view]. rewrite E. cbn [bind]. rewrite Hi'. cbn [bind]. rewrite E1. reflexivity.
    - (* WindowE *) cbn [ew_v ew_e] in Hw. destruct (Pos.eqb x0 w); [discriminate|].
      match type of Hw with context [omap ?f acc0] => destruct (omap f acc0) as [acc'|] eqn:Eo; [|discriminate] end.
      inversion Hw; subst. cbn [eval_view] in *. bind_inv He. bind_inv He.
      rewrite E. cbn [bind]. rewrite (ew_waccs st _ _ _ HI Eo E0). cbn [bind]. exact He.
  Qed.

  (** ** statements: same state on both sides *)
  Definition str (s : stmt) : Prop :=
    forall s' st st', ew_s w x acc s = Some s' -> Inv st -> exec s st = Ok st' -> exec s' st = Ok st'.

  (** what a statement leaves in the environment keeps the invariant *)
  Lemma exec_Inv : forall s s' st st', ew_s w x acc s = Some s' -> Inv st -> exec s st = Ok st' -> Inv st'.
  Proof.
    intros s s' st st' Hw HI He. destruct s; cbn [ew_s] in Hw.
    - cbn [exec] in He. repeat bind_inv He. inversion He; subst. eapply Inv_env; [exact HI|reflexivity].
    - cbn [exec] in He. repeat bind_inv He. inversion He; subst. eapply Inv_env; [exact HI|reflexivity].
    - cbn [exec] in He. repeat bind_inv He. inversion He; subst. eapply Inv_env; [exact HI|reflexivity].
    - cbn in He. inversion He; subst. exact HI.
    - rewrite exec_If in He. bind_inv He. bind_inv He. unfold scoped in He. bind_inv He. inversion He; subst.
      eapply Inv_env; [exact HI|reflexivity].
    - rewrite exec_For in He. bind_inv He. bind_inv He. bind_inv He. bind_inv He. destruct (a2 <? a0); [discriminate|].
      apply iter_loop_env in He. eapply Inv_env; [exact HI|exact He].
    - destruct (ok_binder w x acc x0) eqn:Eb; [|discriminate].
      cbn [exec] in He. bind_inv He. destruct (all_pos a); [|discriminate]. unfold alloc_block in He. inversion He; subst.
      apply Inv_bind; [|exact Eb]. eapply Inv_env; [exact HI|reflexivity].
    - discriminate.
    - destruct (ok_binder w x acc x0) eqn:Eb; [|discriminate]. cbn [exec] in He. bind_inv He. inversion He; subst.
      apply Inv_bind; assumption.
  Qed.

  Lemma omap_exec : forall l, Forall str l -> forall l' st st', omap (ew_s w x acc) l = Some l' -> Inv st ->
    exec_list l st = Ok st' -> exec_list l' st = Ok st'.
  Proof.
    intros l H. induction H as [|s r Hs Hr IH]; intros l' st st' Ho HI He; cbn [omap] in Ho.
    - inversion Ho; subst. exact He.
    - destruct (ew_s w x acc s) as [s'|] eqn:Es; [|discriminate]. destruct (omap (ew_s w x acc) r) as [r'|] eqn:Er; [|discriminate].
      inversion Ho; subst. cbn [exec_list] in *. bind_inv He. rewrite (Hs _ _ _ Es HI E). cbn [bind].
      eapply IH; [reflexivity|eapply exec_Inv; eauto|exact He].
  Qed.

  Lemma iter_loop_same : forall f g, (forall k st st', Inv st -> f k st = Ok st' -> g k st = Ok st' /\ Inv st') ->
    forall n k st st', Inv st -> iter_loop n k f st = Ok st' -> iter_loop n k g st = Ok st'.
  Proof.
    intros f g H. induction n as [|n IH]; intros k st st' HI He; cbn [iter_loop] in *; [exact He|].
    bind_inv He. destruct (H _ _ _ HI E) as [Hg HI']. rewrite Hg. cbn [bind]. eapply IH; eauto.
  Qed.

  Theorem ew_s_sound : forall s, str s.
  Proof.
    induction s using stmt_ind2; unfold str; intros s' st st' Hw HI He; cbn [ew_s] in Hw.
    - (* Assign *) destruct (omap (ew_e w x acc) idx) as [idx'|] eqn:Eo; [|discriminate].
      destruct (ew_e w x acc rhs) as [rhs'|] eqn:Er; [|discriminate].
      cbn [exec] in He. bind_inv He. bind_inv He. bind_inv He. bind_inv He. bind_inv He. inversion He; subst.
      pose proof (ew_ints st idx idx' _ HI Eo E0) as Hi'. pose proof (ew_e_sound st rhs HI _ _ Er E1) as Hr'.
      destruct (Pos.eqb x0 w) eqn:Ex.
      + apply Pos.eqb_eq in Ex. subst x0. destruct (compose acc idx') as [c|] eqn:Ec; [|discriminate]. inversion Hw; subst.
        pose proof HI as (H1 & H2 & H3). unfold get_view in E. rewrite H1 in E. inversion E as [EW]. subst a.
        destruct (cell_write_sound st idx' c a0 a2 a3 HI Ec Hi' E3) as (cis & Hcis & Hwr).
        cbn [exec]. unfold get_view. rewrite H2. cbn [bind]. rewrite Hcis. cbn [bind]. rewrite Hr'. cbn [bind].
        rewrite E2. cbn [bind]. rewrite Hwr. reflexivity.
      + inversion Hw; subst. cbn [exec]. rewrite E. cbn [bind]. rewrite Hi'. cbn [bind]. rewrite Hr'. cbn [bind].
        rewrite E2. cbn [bind]. rewrite E3. reflexivity.
    - (* Reduce *) destruct (omap (ew_e w x acc) idx) as [idx'|] eqn:Eo; [|discriminate].
      destruct (ew_e w x acc rhs) as [rhs'|] eqn:Er; [|discriminate].
      cbn [exec] in He. bind_inv He. bind_inv He. bind_inv He. bind_inv He. bind_inv He. bind_inv He. inversion He; subst.
      pose proof (ew_ints st idx idx' _ HI Eo E0) as Hi'. pose proof (ew_e_sound st rhs HI _ _ Er E1) as Hr'.
      destruct (Pos.eqb x0 w) eqn:Ex.
      + apply Pos.eqb_eq in Ex. subst x0. destruct (compose acc idx') as [c|] eqn:Ec; [|discriminate]. inversion Hw; subst.
        pose proof HI as (H1 & H2 & H3). unfold get_view in E. rewrite H1 in E. inversion E as [EW]. subst a.
        destruct (cell_read_sound st idx' c a0 a3 HI Ec Hi' E3) as (cis & Hcis & Hrd).
        destruct (cell_write_sound st idx' c a0 _ a4 HI Ec Hi' E4) as (cis' & Hcis' & Hwr).
        rewrite Hcis in Hcis'. inversion Hcis'; subst cis'.
        cbn [exec]. unfold get_view. rewrite H2. cbn [bind]. rewrite Hcis. cbn [bind]. rewrite Hr'. cbn [bind].
        rewrite E2. cbn [bind]. rewrite Hrd. cbn [bind]. rewrite Hwr. reflexivity.
      + inversion Hw; subst. cbn [exec]. rewrite E. cbn [bind]. rewrite Hi'. cbn [bind]. rewrite Hr'. cbn [bind].
        rewrite E2. cbn [bind]. rewrite E3. cbn [bind]. rewrite E4. reflexivity.
    - (* WriteCfg *) destruct (ew_e w x acc rhs) as [rhs'|] eqn:Er; [|discriminate]. inversion Hw; subst.
      cbn [exec] in *. bind_inv He. rewrite (ew_e_sound st rhs HI _ _ Er E). cbn [bind]. exact He.
    - (* Pass *) inversion Hw; subst. exact He.
    - (* If *) destruct (ew_e w x acc c) as [c'|] eqn:Ec; [|discriminate].
      destruct (omap (ew_s w x acc) a) as [a'|] eqn:Ea; [|discriminate].
      destruct (omap (ew_s w x acc) b) as [b'|] eqn:Eb; [|discriminate]. inversion Hw; subst.
      rewrite exec_If in *. bind_inv He. bind_inv He. rewrite (ew_e_sound st c HI _ _ Ec E). cbn [bind]. rewrite E0. cbn [bind].
      unfold scoped in *. bind_inv He. destruct a1.
      + rewrite (omap_exec a H _ _ _ Ea HI E1). cbn [bind]. exact He.
      + rewrite (omap_exec b H0 _ _ _ Eb HI E1). cbn [bind]. exact He.
    - (* For *) destruct (ok_binder w x acc i) eqn:Eb; [|discriminate].
      destruct (ew_e w x acc lo) as [lo'|] eqn:El; [|discriminate]. destruct (ew_e w x acc hi) as [hi'|] eqn:Eh; [|discriminate].
      destruct (omap (ew_s w x acc) a) as [a'|] eqn:Ea; [|discriminate]. inversion Hw; subst.
      rewrite exec_For in *. bind_inv He. bind_inv He. bind_inv He. bind_inv He.
      rewrite (ew_e_sound st lo HI _ _ El E). cbn [bind]. rewrite E0. cbn [bind].
      rewrite (ew_e_sound st hi HI _ _ Eh E1). cbn [bind]. rewrite E2. cbn [bind].
      destruct (a3 <? a1); [discriminate|].
      eapply iter_loop_same; [|exact HI|exact He].
      intros k s0 s0' HI0 Hb. unfold loop_body in *. bind_inv Hb. inversion Hb; subst.
      rewrite (omap_exec a H _ _ _ Ea (Inv_bind _ _ _ HI0 Eb) E3). cbn [bind]. split; [reflexivity|].
      eapply Inv_env; [exact HI0|reflexivity].
    - (* Alloc *) destruct (ok_binder w x acc x0) eqn:Eb; [|discriminate].
      destruct (omap (ew_e w x acc) shape) as [sh'|] eqn:Es; [|discriminate]. inversion Hw; subst.
      cbn [exec] in *. bind_inv He. rewrite (ew_ints st shape sh' _ HI Es E). cbn [bind]. exact He.
    - (* Call *) discriminate.
    - (* WindowS *) destruct (ok_binder w x acc x0) eqn:Eb; [|discriminate].
      destruct (ew_v w x acc rhs) as [rhs'|] eqn:Er; [|discriminate]. inversion Hw; subst.
      cbn [exec] in *. bind_inv He. rewrite (ew_v_sound st rhs _ _ HI Er E). cbn [bind]. exact He.
  Qed.

  Theorem ew_ss_sound : forall l l' st st', omap (ew_s w x acc) l = Some l' -> Inv st ->
    exec_list l st = Ok st' -> exec_list l' st = Ok st'.
  Proof. intro l. apply omap_exec. apply Forall_forall. intros s _. apply ew_s_sound. Qed.
End EW.

(** ** the whole list *)
Theorem elim_ws_sound : forall l st st', exec_list l st = Ok st' -> exec_list (elim_ws l) st = Ok st'.
Proof.
  induction l as [|s r IH]; intros st st' He; [exact He|]. cbn [exec_list] in He. bind_inv He.
  pose proof (IH _ _ He) as Hr.
  assert (Hdef : exec_list (s :: elim_ws r) st = Ok st') by (cbn [exec_list]; rewrite E; exact Hr).
  cbn [elim_ws]. destruct s; try exact Hdef. destruct rhs; try exact Hdef.
  destruct (forallb ctrl_w acc && negb (Pos.eqb x x0) && negb (mem x (flat_map fv_w acc))) eqn:Ec; [|exact Hdef].
  destruct (omap (ew_s x x0 acc) (elim_ws r)) as [r''|] eqn:Eo; [|exact Hdef].
  apply andb_true_iff in Ec as [Ec Hfv]. apply andb_true_iff in Ec as [Hctrl Hne].
  apply negb_true_iff in Hne. apply negb_mem_notin in Hfv.
  cbn [exec_list]. rewrite E. cbn [bind].
  (* the state after the window statement satisfies the invariant *)
  cbn [exec] in E. bind_inv E. inversion E; subst a. cbn [eval_view] in E0.
  bind_inv E0. bind_inv E0. bind_inv E0. destruct a2 as [off dims]. inversion E0; subst a0.
  unfold get_view in E1. destruct (lookup x0 (s_env st)) as [[v|X]|] eqn:EX; try discriminate. inversion E1; subst a.
  eapply (ew_ss_sound x x0 acc (mkView (vloc X) off dims) X a1 Hctrl eq_refl); [exact E3|exact Eo| |exact Hr].
  unfold Inv. cbn [bind_var s_env lookup]. rewrite Pos.eqb_refl. split; [reflexivity|].
  rewrite (Pos.eqb_sym x0 x), Hne. split; [exact EX|].
  rewrite <- E2. apply ctrl_waccs_agree; [exact Hctrl|]. intros y Hy. cbn [bind_var s_env lookup].
  destruct (Pos.eqb y x) eqn:Ey; [|reflexivity]. apply Pos.eqb_eq in Ey. subst. contradiction.
Qed.
